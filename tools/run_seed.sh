#!/bin/bash
# Run a check against a seeded change WITHOUT touching /repo: scratch worktree + PYTHONPATH override.
# usage: tools/run_seed.sh <seed e.g. C17-1> [check id (default: the seed's property)] [tier]
S=$1; P=${2:-${S%%-*}}; T=${3:-quick}
D=/verif/seeded/$S; WT=/tmp/seedrun_${S}_$P
git -C /repo worktree remove --force $WT 2>/dev/null
git -C /repo worktree add -q --detach $WT $(git -C /repo rev-parse HEAD) || exit 2
git -C $WT apply $D/patch.diff || { echo "$S: patch does not apply"; git -C /repo worktree remove --force $WT; exit 3; }
mkdir -p /verif/.work/seedruns/$S
cd /verif
PYTHONPATH=$WT VERIF_EVIDENCE_DIR=/verif/.work/seedruns/$S /venv/bin/python -m harness.check $P --tier $T > /verif/.work/seedruns/$S/$P.$T.log 2>&1
RC=$?
git -C /repo worktree remove --force $WT
# the run regenerated lean/PrecondVerif/Gen/Src.lean from the PATCHED tree: restore the committed (clean-tree) text
git -C /verif checkout -- lean/PrecondVerif/Gen/Src.lean 2>/dev/null
V=$(grep -c "^VIOLATION" /verif/.work/seedruns/$S/$P.$T.log)
echo "$S check=$P tier=$T exit=$RC violation_lines=$V :: $(grep '^VIOLATION\|^OK\|^infrastructure' /verif/.work/seedruns/$S/$P.$T.log | head -2 | tr '\n' ' ')"
# record the outcome next to the seed (committed): which check, tier, exit code, first reported failing input
python3 - "$S" "$P" "$T" "$RC" <<'PY'
import json,sys,os,re,subprocess
s,p,t,rc=sys.argv[1:5]
log=open(f'/verif/.work/seedruns/{s}/{p}.{t}.log').read()
first=[l.strip()[:300] for l in log.split('\n') if l.strip().startswith(('failing input:','no longer checks:'))][:2]
viol=[l.strip() for l in log.split('\n') if l.startswith('VIOLATION')][:1]
f=f'/verif/seeded/{s}/detection.json'
d=json.load(open(f)) if os.path.exists(f) else {}
d[f'{p}.{t}']={"exit":int(rc),"violation_line":viol[0] if viol else None,"first_reports":first,
  "verif_commit":subprocess.check_output(['git','-C','/verif','rev-parse','--short','HEAD']).decode().strip(),
  "how":"tools/run_seed.sh: patch applied to a scratch worktree of /repo HEAD put first on PYTHONPATH, check run from /verif"}
json.dump(d,open(f,'w'),indent=1)
PY

