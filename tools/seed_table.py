#!/usr/bin/env python3
"""Regenerate the 'seeded changes' table of DESIGN.md (between the SEED-TABLE markers) from seeded/*/{meta,detection}.json and notes.md."""
import json, os, re, glob
ROOT = os.path.dirname(os.path.dirname(os.path.abspath(__file__)))
rows = []
for d in sorted(glob.glob(os.path.join(ROOT, "seeded", "*"))):
    s = os.path.basename(d)
    title = ""
    np_ = os.path.join(d, "notes.md")
    if os.path.exists(np_):
        for line in open(np_):
            if line.startswith("#"):
                title = re.sub(r"^#+\s*", "", line.strip())
                title = re.sub(r"^(C\d\d)?[\s/]*(seeded|seed)?\s*(change)?\s*\d*\s*(\(C\d\d\))?\s*[—:-]*\s*", "", title, flags=re.I)
                break
    meta = json.load(open(os.path.join(d, "meta.json"))) if os.path.exists(os.path.join(d, "meta.json")) else {}
    det = json.load(open(os.path.join(d, "detection.json"))) if os.path.exists(os.path.join(d, "detection.json")) else {}
    conf = "yes" if meta.get("confirmed") else ("no" if "confirmed" in meta else "pending")
    cells = []
    for k, v in sorted(det.items()):
        how = "failing input" if (v["exit"] == 1 and v["violation_line"] and "no-failing-input-found" not in v["violation_line"]) else \
              ("obligation/correspondence broken, no failing input" if v["exit"] == 1 else ("MISSED" if v["exit"] == 0 else f"exit {v['exit']}"))
        first = (v["first_reports"][0] if v["first_reports"] else "")
        first = re.sub(r"^(failing input|no longer checks):\s*", "", first)[:110].replace("|", "/")
        cells.append(f"{k}: {how}" + (f" — `{first}`" if first and v["exit"] == 1 else "") + (f" (history: {meta.get('history')})" if False else ""))
    hist = meta.get("strengthened", "")
    rows.append(f"| {s} | {title[:120]} | {conf} | {'; '.join(cells) or 'not run yet'}{(' — ' + hist) if hist else ''} |")
table = "| seed | change | confirmed (demo + suite) | detected by |\n|---|---|---|---|\n" + "\n".join(rows) + "\n"
p = os.path.join(ROOT, "DESIGN.md")
s = open(p).read()
a, b = "<!-- SEED-TABLE-BEGIN -->\n", "<!-- SEED-TABLE-END -->"
if a in s:
    s = s[:s.index(a) + len(a)] + table + s[s.index(b):]
    open(p, "w").write(s)
print(table)
