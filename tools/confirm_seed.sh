#!/bin/bash
# Confirm a seeded change independently: demo passes on clean HEAD, fails with the patch, and the
# repository's test suite gives the baseline result with the patch applied.
# usage: tools/confirm_seed.sh <seed-dir-name e.g. C06-1> [--no-suite]
set -u
S=$1; D=/verif/seeded/$S; WT=/tmp/confirm_$S
HEAD=$(git -C /repo rev-parse HEAD)
git -C /repo worktree remove --force $WT 2>/dev/null
git -C /repo worktree add -q --detach $WT $HEAD || exit 2
cd $WT
PYTHONPATH=$WT timeout 1800 /venv/bin/python $D/demo.py > $D/demo_clean.log 2>&1; RC_CLEAN=$?
if ! git -C $WT apply $D/patch.diff; then echo "$S: patch does not apply to $HEAD"; git -C /repo worktree remove --force $WT; exit 3; fi
PYTHONPATH=$WT timeout 1800 /venv/bin/python $D/demo.py > $D/demo_patched.log 2>&1; RC_PATCHED=$?
SUITE="skipped"
if [ "${2:-}" != "--no-suite" ]; then
  timeout 7200 /venv/bin/python -m pytest -q -p no:cacheprovider --timeout=900 precondition > $D/suite_patched.log 2>&1
  SUITE=$(tail -1 $D/suite_patched.log | tr -d '=' | sed 's/^ *//')
  grep "^FAILED" $D/suite_patched.log | sed 's/ - .*//' | sort > $D/suite_failed.txt
fi
cd /; git -C /repo worktree remove --force $WT
python3 - "$S" "$HEAD" "$RC_CLEAN" "$RC_PATCHED" "$SUITE" <<'PY'
import json,sys,os
s,head,rc_clean,rc_patched,suite=sys.argv[1:6]
d=f'/verif/seeded/{s}'
meta={}
if os.path.exists(d+'/meta.json'): meta=json.load(open(d+'/meta.json'))
failed=[l.strip() for l in open(d+'/suite_failed.txt')] if os.path.exists(d+'/suite_failed.txt') else None
meta.update({"seed":s,"property":s.split('-')[0],"confirmed_at_repo_head":head,
 "demo_exit_clean":int(rc_clean),"demo_exit_patched":int(rc_patched),
 "suite_with_patch":suite,"suite_failed_tests":failed,
 "baseline_failures":["precondition/distributed_shampoo_test.py::DistributedShampooTest::test_matrix_inverse_root_padding1","precondition/tearfree/momentum_test.py::MomentumTest::test_basic0","precondition/tearfree/optimizer_test.py::OptimizerTest::test_lr"],
 "what_i_ran":"tools/confirm_seed.sh: fresh worktree of /repo HEAD; demo.py on clean tree; git apply patch.diff; demo.py again; full pytest suite with the patch applied"})
ok = int(rc_clean)==0 and int(rc_patched)!=0 and (failed is None or sorted(x.split('::',1)[-1] for x in failed)==sorted(x.split('::',1)[-1] for x in meta['baseline_failures']))
meta["confirmed"]=bool(ok)
json.dump(meta,open(d+'/meta.json','w'),indent=1)
print(s,"clean",rc_clean,"patched",rc_patched,"suite:",suite,"confirmed" if ok else "NOT CONFIRMED")
PY
