#!/bin/bash
# Confirm every seeded change that has no meta.json yet (two at a time, low priority).
cd /verif
ls -d seeded/*/ | while read d; do s=$(basename $d); [ -f seeded/$s/meta.json ] && python3 -c "import json,sys;sys.exit(0 if 'confirmed' in json.load(open('seeded/$s/meta.json')) else 1)" && continue; echo $s; done > /verif/.work/to_confirm.txt
cat /verif/.work/to_confirm.txt | xargs -P 2 -I{} nice -n 10 bash tools/confirm_seed.sh {} >> /verif/.work/confirm_all.log 2>&1
