#!/bin/bash
# usage: tools/ingest_seed.sh <PID> <n> ...   copy /tmp/seedout_<PID>/<n> to seeded/<PID>-<n>, confirm it, run the check against it
P=$1; shift
for n in "$@"; do
  S=$P-$n; mkdir -p /verif/seeded/$S
  cp /tmp/seedout_$P/$n/{patch.diff,demo.py,notes.md} /verif/seeded/$S/ || exit 1
  nice -n 10 bash /verif/tools/confirm_seed.sh $S >> /verif/.work/confirm_all.log 2>&1
  bash /verif/tools/run_seed.sh $S >> /verif/.work/seedruns_round2.log 2>&1
done
