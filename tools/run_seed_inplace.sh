#!/bin/bash
# Run a check against a seeded change applied to /repo ITSELF (git apply), undo it straight afterwards.
# Only when nothing else uses /repo (no builders, no sweeps). usage: tools/run_seed_inplace.sh <seed> [check id]
S=$1; P=${2:-${S%%-*}}; D=/verif/seeded/$S
[ -z "$(git -C /repo status --porcelain)" ] || { echo "/repo is not clean"; exit 2; }
git -C /repo apply $D/patch.diff || { echo "$S: patch does not apply"; exit 3; }
mkdir -p /verif/.work/seedruns/$S
cd /verif
VERIF_EVIDENCE_DIR=/verif/.work/seedruns/$S /venv/bin/python -m harness.check $P --tier quick > /verif/.work/seedruns/$S/$P.inplace.log 2>&1
RC=$?
git -C /repo checkout -- .
git -C /verif checkout -- lean/PrecondVerif/Gen/Src.lean 2>/dev/null
[ -z "$(git -C /repo status --porcelain)" ] || echo "WARNING: /repo not clean after undo"
python3 - "$S" "$P" "$RC" <<'PY'
import json,sys,os,subprocess
s,p,rc=sys.argv[1:4]
log=open(f'/verif/.work/seedruns/{s}/{p}.inplace.log').read()
first=[l.strip()[:300] for l in log.split('\n') if l.strip().startswith(('failing input:','no longer checks:'))][:2]
viol=[l.strip() for l in log.split('\n') if l.startswith('VIOLATION')][:1]
f=f'/verif/seeded/{s}/detection.json'
d=json.load(open(f)) if os.path.exists(f) else {}
d[f'{p}.quick.inplace']={"exit":int(rc),"violation_line":viol[0] if viol else None,"first_reports":first,
  "verif_commit":subprocess.check_output(['git','-C','/verif','rev-parse','--short','HEAD']).decode().strip(),
  "how":"tools/run_seed_inplace.sh: git -C /repo apply patch.diff; check run from /verif against /repo itself; git -C /repo checkout -- ."}
json.dump(d,open(f,'w'),indent=1)
print(s,'check',p,'inplace exit',rc,viol[0] if viol else '')
PY
