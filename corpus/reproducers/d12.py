import warnings; warnings.filterwarnings('ignore')
import jax, jax.numpy as jnp, numpy as np, traceback
from precondition import distributed_shampoo as ds
for gtm in (True, False):
  for reuse in (True, False):
    params={'w': jnp.ones((6,6))}
    try:
        opt=ds.distributed_shampoo(0.1, 8, start_preconditioning_step=1, compression_rank=2, frequent_directions=True, reuse_preconditioner=reuse, generate_fd_metrics=True, generate_training_metrics=gtm, batch_axis_name=None)
        st=opt.init(params)
        u,st=opt.update(params, st, params)
        print(gtm, reuse, 'ok')
    except Exception as e:
        tb=traceback.extract_tb(e.__traceback__)
        print(gtm, reuse, type(e).__name__, repr(str(e))[:100], [ (f.name,f.lineno) for f in tb if 'precondition' in f.filename][-2:])
