import warnings; warnings.filterwarnings('ignore')
import jax, jax.numpy as jnp, numpy as np
from precondition import distributed_shampoo as ds, sm3
from precondition.tearfree import optimizer as tfo
for name,mk in [('ds',lambda: ds.distributed_shampoo(0.1, 8)),('sm3',lambda: sm3.sm3(0.1)),('tf',lambda: tfo.tearfree(0.1, tfo.TearfreeOptions()))]:
  for dt in [jnp.bfloat16, jnp.float16]:
    p={'w': jnp.ones((3,2), dt),'b':jnp.ones((3,),dt)}
    g=jax.tree.map(lambda x: (x*0.5).astype(dt), p)
    try:
      opt=mk(); st=opt.init(p)
      s0=jax.tree.map(lambda x:(x.shape,str(x.dtype)),st)
      for _ in range(3): u,st=opt.update(g,st,p)
      s1=jax.tree.map(lambda x:(x.shape,str(x.dtype)),st)
      print(name,dt.__name__,'ok upd dtype',u['w'].dtype,'layout same',s0==s1)
    except Exception as e:
      print(name,dt.__name__,'ERR',type(e).__name__,str(e)[:150])
