# C03: when every statistic is 1x1 (e.g. a single (1,) leaf) matrix_inverse_pth_root takes the matrix_size == 1 branch,
# which hard-codes error = 0: a NaN / Inf root (NaN or Inf gradient; or 0**(-1/p)=inf with matrix_epsilon=0 and zero
# gradient) passes the gate and is STORED for ever.  (eigh=True reports error nan here and keeps the old root.)
import warnings; warnings.filterwarnings('ignore')
import numpy as np, jax, jax.numpy as jnp
from precondition import distributed_shampoo as ds
params = {'s': jnp.zeros((1,), jnp.float32)}
for eps, grads in ((1e-6, [1.0, np.nan, 1.0]), (0.0, [0.0, 1.0])):
  opt = ds.distributed_shampoo(0.1, block_size=4, batch_axis_name=None, matrix_epsilon=eps,
                               start_preconditioning_step=1, generate_training_metrics=True)
  st = opt.init(params)
  for v in grads:
    u, st = jax.jit(opt.update)({'s': jnp.asarray([v], jnp.float32)}, st, params)
    s = st.stats['s']
    print('eps', eps, 'grad', v, 'reported error', np.asarray(s.training_metrics.inverse_pth_root_errors),
          'stored preconditioner', np.asarray(s.preconditioners[0]).ravel())
