import os; os.environ.setdefault("XLA_FLAGS", "--xla_force_host_platform_device_count=2")
import warnings; warnings.filterwarnings('ignore')
import jax, jax.numpy as jnp
from precondition import distributed_shampoo as ds
for bemur in (False, True):
  opt = ds.distributed_shampoo(0.1, 8, best_effort_memory_usage_reduction=bemur, batch_axis_name='batch', skip_preconditioning_rank_lt=2)
  p = {'b': jnp.ones((3,))}
  rep = lambda t: jax.tree.map(lambda x: jnp.stack([x] * 2), t)
  try:
    out = jax.eval_shape(jax.pmap(opt.update, axis_name='batch'), rep(p), rep(opt.init(p)), rep(p)); print('bemur', bemur, 'traces ok')
  except Exception as e:
    print('bemur', bemur, type(e).__name__, str(e)[:120])
