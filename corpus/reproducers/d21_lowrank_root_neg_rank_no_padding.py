"""C10: _low_rank_root with a negative compression_rank and the default padding_start=None raises
TypeError (`-(d - padding_start)` with padding_start None, distributed_shampoo.py ~line 1102); every other use of
padding_start in the function is guarded by `is not None`.  Positive rank works; negative rank with padding_start=d works.
Suggested minimal fix: `num_pad = d - padding_start if padding_start is not None else 0` and roll by `-num_pad`.
(The optimizer itself always passes padding_start, so only direct calls are affected.)"""
import jax
jax.config.update("jax_enable_x64", True)
import jax.numpy as jnp
import numpy as np
from precondition import distributed_shampoo as ds
A = jnp.asarray(np.diag([1., 2., 3., 4., 5., 6.]))
print("rank +2, no padding_start:", np.asarray(ds._low_rank_root(A, 2, compression_rank=2)[0])[:2, -2])
print("rank -2, padding_start=6 :", np.asarray(ds._low_rank_root(A, 2, compression_rank=-2, padding_start=6)[0])[:2, -2])
print("rank -2, no padding_start:", np.asarray(ds._low_rank_root(A, 2, compression_rank=-2)[0])[:2, -2])  # TypeError
