import warnings; warnings.filterwarnings('ignore')
import jax, jax.numpy as jnp, numpy as np
jax.config.update("jax_enable_x64", True)
from precondition import distributed_shampoo as ds
p={'w': jnp.ones((3,2), jnp.float64)}
g={'w': jnp.arange(6.).reshape(3,2).astype(jnp.float64)}
opt=ds.distributed_shampoo(0.1, 8)
st=opt.init(p)
try:
  u,st=opt.update(g,st,p); print('ok', u['w'].dtype)
except Exception as e:
  import traceback; traceback.print_exc(limit=4)
