# Observation (C08 / C03 / C01 boundary): with eigh=True the reported error of matrix_inverse_pth_root_eigh is ABSOLUTE
# (max|U' A U - diag(e)|, float32), so it grows with the statistics: for gradients of magnitude ~3e2..1.5e3 (statistics
# ~1e5..1e6) it hovers around inverse_failure_threshold = 0.1 and the accept/reject decision of the gate follows
# rounding noise.  Padding a statistic to a larger max_size (adding an unrelated leaf) changes that noise: the update
# of leaf 'w' changes by tens of percent when leaf 'c' is added.  For larger gradients every eigh root is rejected and
# the preconditioner silently stays at its previous value (identity).  The C08 check classifies such pairs as gate-flip.
import warnings; warnings.filterwarnings('ignore')
import numpy as np, jax, jax.numpy as jnp
from precondition import distributed_shampoo as ds
def run(params, grads):
    o = ds.distributed_shampoo(0.1, block_size=16, beta1=0.0, beta2=0.9, graft_type=ds.GraftingType.SGD, eigh=True,
                               start_preconditioning_step=0, best_effort_shape_interpretation=False)
    st = o.init(params); upd = jax.jit(o.update)
    for g in grads: u, st = upd(g, st, params)
    return np.asarray(u['w']), np.asarray(st.stats['w'].training_metrics.inverse_pth_root_errors)
for seed in range(40):
    rs = np.random.RandomState(seed)
    gw = [jnp.asarray(rs.randn(5, 5) * 460., jnp.float32) for _ in range(2)]
    gc = [jnp.asarray(rs.randn(11, 2), jnp.float32) for _ in range(2)]
    ua, ea = run({'w': jnp.zeros((5, 5))}, [{'w': g} for g in gw])
    ub, eb = run({'w': jnp.zeros((5, 5)), 'c': jnp.zeros((11, 2))}, [{'w': g, 'c': c} for g, c in zip(gw, gc)])
    rel = np.linalg.norm(ua - ub) / np.linalg.norm(ua)
    if rel > 1e-3:
        print('seed', seed, 'update of w alone vs with leaf c: relative difference', rel)
        print('  reported eigh errors alone', ea, ' with c', eb, ' (threshold 0.1)')
        break
