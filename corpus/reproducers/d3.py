import warnings; warnings.filterwarnings('ignore')
import jax, jax.numpy as jnp, numpy as np
from precondition import distributed_shampoo as ds
params={'w': jnp.ones((6,6)), 'b': jnp.ones((6,))}
opt=ds.distributed_shampoo(0.1, 8, start_preconditioning_step=1, frequent_directions=True, average_grad=True, reuse_preconditioner=True, compression_rank=2, skip_preconditioning_rank_lt=2, batch_axis_name=None, statistics_compute_steps=2, preconditioning_compute_steps=2)
st=opt.init(params)
s0=jax.tree.structure(st)
for i in range(3):
    u,st=opt.update(jax.tree.map(lambda x: x*(i+1.), params), st, params)
    print(jax.tree.structure(st)==s0)
