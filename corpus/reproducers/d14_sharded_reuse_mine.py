import warnings; warnings.filterwarnings('ignore')
import jax, jax.numpy as jnp, numpy as np, traceback
from precondition import distributed_shampoo as ds
from jax.sharding import PartitionSpec as P, Mesh
params={'w': jnp.ones((2,3))}
for spec in (P('x',None,None), P(None)):
  for reuse in (True, False):
    try:
        opt=ds.distributed_shampoo(0.1, 4, shard_optimizer_states=True, reuse_preconditioner=reuse, num_devices_for_pjit=1, statistics_partition_spec=spec, preconditioner_partition_spec=spec, start_preconditioning_step=1)
        fns=opt.init(params); st=fns.init_fn(params)
        with Mesh(np.array(jax.devices()[:1]), ('x',)):
            for i in range(3):
                u,st=jax.jit(opt.update)(jax.tree.map(lambda x: x*(i+1.), params), st, params)
        print(spec, reuse, 'ok', np.asarray(u['w']).ravel()[:3])
    except Exception as e:
        print(spec, reuse, type(e).__name__, str(e)[:90])
