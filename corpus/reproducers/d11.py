import warnings; warnings.filterwarnings('ignore')
import jax, jax.numpy as jnp, numpy as np, traceback
from precondition import distributed_shampoo as ds
for steps in (1,2):
  for pt in (ds.PreconditionerType.INPUT, ds.PreconditionerType.ALL):
    params={'w': jnp.ones((2,3))}
    try:
        opt=ds.distributed_shampoo(0.1, 8, start_preconditioning_step=1, compression_rank=1, precondtioner_type=pt, preconditioning_compute_steps=steps, statistics_compute_steps=1, batch_axis_name=None)
        st=opt.init(params)
        u,st=opt.update(params, st, params)
        print(steps, pt, 'ok')
    except Exception as e:
        tb=traceback.extract_tb(e.__traceback__)
        print(steps, pt, type(e).__name__, repr(str(e))[:80], [ (f.name,f.lineno) for f in tb if 'precondition' in f.filename][-3:])
