# D18 (C07): tearfree second_order.Options with the options object of the selected method missing -> bare AssertionError
# (`assert options.sketchy_options` in _update_stats_and_precondition, `assert options.shampoo_options` in _reshaper_options).
# NOTE sketchy_options=None is the DEFAULT: second_order.Options(second_order_type=SKETCHY) alone dies on the bare assert.
import warnings; warnings.filterwarnings('ignore')
from precondition.tearfree import optimizer as tfo, second_order
for so in (second_order.Options(second_order_type=second_order.SecondOrderType.SKETCHY),
           second_order.Options(shampoo_options=None)):
  try:
    tfo.tearfree(0.1, tfo.TearfreeOptions(second_order_options=so)); print('ok')
  except Exception as e:
    print(type(e).__name__, repr(str(e)))
