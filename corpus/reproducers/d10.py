import warnings; warnings.filterwarnings('ignore')
import jax, jax.numpy as jnp, numpy as np
from precondition import distributed_shampoo as ds
for shape in [(1,), (1,1), (3,)]:
  for steps in (1,2):
    for eigh in (True, False):
        params={'w': jnp.ones(shape)}
        opt=ds.distributed_shampoo(0.1, 1 if shape==(3,) else 4, start_preconditioning_step=1, preconditioning_compute_steps=steps, eigh=eigh, batch_axis_name=None)
        st=opt.init(params)
        for i in range(3):
            u,st=opt.update({'w': jnp.full(shape, 0.5+i)}, st, params)
        print(shape, steps, eigh, np.asarray(u['w']).ravel())
