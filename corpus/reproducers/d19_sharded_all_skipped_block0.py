# Sharded Distributed Shampoo, block_size=0 (no blocking) and every parameter skipped
# (skip_preconditioning_rank_lt / skip_preconditioning_dim_size_gt): sharded_init_fn pads the empty statistics
# list with jnp.eye(max_size) where max_size = block_size = 0, and the first update dies in
# matrix_inverse_pth_root with "ValueError: zero-size array to reduction operation max which has no identity".
# Replicated mode runs fine. Found by the C02 generator; belongs to C07 (accepted configurations run).
# Suggested minimal fix: in sharded_init_fn use `max_size = max(block_size, 1)` when no statistic exists.
import jax, jax.numpy as jnp, numpy as np
from jax.sharding import Mesh, PartitionSpec as P
from precondition import distributed_shampoo as ds
params = {"w": jnp.ones((6, 6), jnp.float32)}
opt = ds.distributed_shampoo(0.1, 0, skip_preconditioning_dim_size_gt=4, shard_optimizer_states=True, num_devices_for_pjit=1,
                             statistics_partition_spec=P("x", None, None), preconditioner_partition_spec=P("x", None, None))
with Mesh(np.array(jax.devices()[:1]), ("x",)):
    state = opt.init(params).init_fn(params)
    u, state = jax.jit(opt.update)(params, state, params)   # ValueError here
    print("ok", state.count)
