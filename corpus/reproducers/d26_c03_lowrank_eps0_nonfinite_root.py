# C03: compression_rank != 0, matrix_epsilon=0, singular statistics (a rank-1 leaf (7,) has the rank-1 statistic g g^T):
# _low_rank_root computes inv_e = where(e == 0, 0, power(max(e, ridge_epsilon), -1/p)); with a zero ridge a rounding-level
# negative eigenvalue is clipped to 0 and 0**(-1/p) = inf (the same pattern 2899ef0 repaired in matrix_inverse_pth_root_eigh).
# The eigendecomposition residual stays ~1e-7, so the packed root with Inf/NaN entries passes the gate and is STORED;
# the update is NaN for an O(1) gradient.
import warnings; warnings.filterwarnings('ignore')
import numpy as np, jax, jax.numpy as jnp
from precondition import distributed_shampoo as ds
params = {'v': jnp.zeros((7,), jnp.float32)}
opt = ds.distributed_shampoo(0.1, block_size=8, batch_axis_name=None, compression_rank=2, matrix_epsilon=0.0,
                             best_effort_shape_interpretation=False, start_preconditioning_step=1,
                             generate_training_metrics=True)
st = opt.init(params)
rs = np.random.RandomState(0)
for t in range(3):
  u, st = jax.jit(opt.update)({'v': jnp.asarray(rs.randn(7), jnp.float32)}, st, params)
  s = st.stats['v']
  print(t, 'reported errors', np.asarray(s.training_metrics.inverse_pth_root_errors),
        'stored preconditioners finite:', [bool(np.isfinite(np.asarray(p)).all()) for p in s.preconditioners],
        'update finite:', bool(np.isfinite(np.asarray(u['v'])).all()))
