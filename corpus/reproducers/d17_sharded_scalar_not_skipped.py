# D17 (C07; also found by build-c02): sharded mode, skip_preconditioning_rank_lt=0 and a rank-0 parameter: the scalar is not
# skipped, has no preconditioner shapes, and sharded_init_fn / _max_statistics_size_from_params do max(sizes) on [] ->
# builtin "ValueError: max() iterable argument is empty" (internal). Replicated mode accepts the same tree.
import warnings; warnings.filterwarnings('ignore')
import jax, jax.numpy as jnp, numpy as np
from jax.sharding import Mesh, PartitionSpec as P
from precondition import distributed_shampoo as ds
p = {'s': jnp.ones(()), 'w': jnp.ones((2, 3))}
for sharded in (False, True):
  opt = ds.distributed_shampoo(0.1, 4, skip_preconditioning_rank_lt=0, shard_optimizer_states=sharded, num_devices_for_pjit=1,
                               statistics_partition_spec=P('x', None, None), preconditioner_partition_spec=P('x', None, None), batch_axis_name=None)
  with Mesh(np.array(jax.devices()[:1]), ('x',)):
    try:
      st = opt.init(p).init_fn(p) if sharded else opt.init(p); print('sharded', sharded, 'init ok')
    except Exception as e:
      print('sharded', sharded, type(e).__name__, str(e)[:100])
