# C03: frequent_directions=True — _fd_update_root hard-codes inverse_pth_root_errors = 0.0, so after ONE non-finite
# gradient entry the SVD of the NaN sketch gives an all-NaN packed preconditioner that is reported with error 0,
# passes the gate and is STORED for ever (replicated, pmap and sharded modes alike; updates NaN from then on even for
# the parameters' later finite gradients).  Plain compression_rank (no FD) reports error nan here and keeps the old root.
import warnings; warnings.filterwarnings('ignore')
import numpy as np, jax, jax.numpy as jnp
from precondition import distributed_shampoo as ds
params = {'w': jnp.zeros((6, 7), jnp.float32)}
opt = ds.distributed_shampoo(0.1, block_size=8, batch_axis_name=None, compression_rank=1, frequent_directions=True,
                             reuse_preconditioner=True, best_effort_shape_interpretation=False,
                             start_preconditioning_step=1, generate_training_metrics=True)
st = opt.init(params)
rs = np.random.RandomState(0)
for t in range(4):
  g = jnp.asarray(rs.randn(6, 7), jnp.float32)
  if t == 2: g = g.at[0, 0].set(jnp.nan)
  u, st = jax.jit(opt.update)({'w': g}, st, params)
  s = st.stats['w']
  print(t, 'reported errors', np.asarray(s.training_metrics.inverse_pth_root_errors),
        'stored preconditioners finite:', [bool(np.isfinite(np.asarray(p)).all()) for p in s.preconditioners])
