import warnings; warnings.filterwarnings('ignore')
import numpy as np, itertools, sys
from precondition.tearfree import reallocation as R
def run(d, scores, rank):
    sk = {}
    for i,s in enumerate(scores):
        sk[f'l{i}'] = {'axes': {'0': {'eigvecs': np.zeros((d, min(d,rank))), 'eigvals': np.zeros(min(d,rank)), 'tail': np.float32(s)}}}
    st = ({'inner_state': {'0': {'direction': {'1': {'sketches': sk}}}}},)
    res = R.create_redist_dict('', [], 'tail_rho', False, rank, states=st)
    return [res[f'l{i}'][0] for i in range(len(scores))]
print(run(3,(0.,0.,1.),2))
bad=0; asserts=0; tot=0; under=0
for n in (2,3,4):
  for d in (2,3,4,5,7):
    for rank in (1,2,3,4,5):
      for sc in itertools.combinations_with_replacement([0.0,1.0,2.0,5.0,20.0,100.0], n):
        tot+=1
        try: r = run(d, sc, rank)
        except AssertionError as e: asserts+=1; continue
        if sum(r) > n*rank or min(r)<1 or max(r)>d: bad+=1
        if sum(r) < min(n*rank, n*d): under+=1
print('total',tot,'bad',bad,'asserts',asserts,'under-allocated',under)
