# C03: eigh=True, matrix_epsilon=0, singular statistics -> a root with Inf/NaN entries is reported with a tiny
# finite error, passes the gate and is STORED (matrix_inverse_pth_root_eigh: jnp.where(e == 0.0, 0, power(max(e, 0), -1/p));
# a slightly negative rounding eigenvalue gives 0**(-1/p) = inf).  Same with and without jax_enable_x64.
import warnings; warnings.filterwarnings('ignore')
import numpy as np, jax, jax.numpy as jnp
from precondition import distributed_shampoo as ds
params = {'w': jnp.zeros((4, 3), jnp.float32)}
opt = ds.distributed_shampoo(0.1, block_size=4, batch_axis_name=None, eigh=True, matrix_epsilon=0.0,
                             merge_small_dims_block_size=4, start_preconditioning_step=1, generate_training_metrics=True)
st = opt.init(params)
g = {'w': jnp.asarray(np.outer([1., 2., 3., 4.], [1., -1., 2.]), jnp.float32)}   # rank-1 gradient
u, st = jax.jit(opt.update)(g, st, params)
s = st.stats['w']
print('reported errors', np.asarray(s.training_metrics.inverse_pth_root_errors))
print('stored preconditioners finite:', [bool(np.isfinite(np.asarray(p)).all()) for p in s.preconditioners])
u, st = jax.jit(opt.update)(g, st, params)
print('update finite (moderate gradient):', bool(np.isfinite(np.asarray(u['w'])).all()))
