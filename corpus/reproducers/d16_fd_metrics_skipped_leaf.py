# D16 (C07): frequent_directions + generate_fd_metrics=True + generate_training_metrics=True, a tree with one preconditioned
# leaf and one leaf that skips preconditioning (no statistics): after ONE update the skipped leaf's training_metrics.fd
# turns from FDDiagnostics (22 leaves of shape (0,)) into MaskedNode: the three `init_training_metrics(0, generate_training_metrics)`
# calls in _pmap_compute_preconditioners / _pmap_quantized_... / _pjit_... drop generate_fd_metrics.
# State layout is not a fixed point (jit recompiles, lax.scan carry / checkpoint restore fail).
import warnings; warnings.filterwarnings('ignore')
import jax, jax.numpy as jnp
from precondition import distributed_shampoo as ds
p = {'w': jnp.ones((6, 6)), 'b': jnp.ones((6,))}
opt = ds.distributed_shampoo(0.1, 8, frequent_directions=True, reuse_preconditioner=True, compression_rank=2,
                             generate_fd_metrics=True, generate_training_metrics=True, skip_preconditioning_rank_lt=2, batch_axis_name=None)
st = opt.init(p)
_, st1 = opt.update(p, st, p)
print('same structure:', jax.tree.structure(st) == jax.tree.structure(st1), len(jax.tree.leaves(st)), '->', len(jax.tree.leaves(st1)))
print(type(st.stats['b'].training_metrics.fd).__name__, '->', type(st1.stats['b'].training_metrics.fd).__name__)
try:
  jax.lax.scan(lambda s, g: (opt.update(g, s, p)[1], None), st, jax.tree.map(lambda x: jnp.stack([x] * 2), p))
except Exception as e:
  print('scan:', type(e).__name__, str(e)[:100])
