import warnings; warnings.filterwarnings('ignore')
import jax, jax.numpy as jnp, numpy as np
from precondition.tearfree import sketchy
from flax import serialization
o = sketchy.apply(sketchy.Options(rank=2))
params={'w': jnp.ones((4,3))}
st=o.init(params)
g={'w': jnp.asarray(np.random.RandomState(0).randn(4,3), jnp.float32)}
u,st=o.update(g, st, params)
u,st=o.update(g, st, params)
b=serialization.to_bytes(st)
r=serialization.from_bytes(o.init(params), b)
try:
    o.update(g, r, params); print('read-only leaves ok')
except Exception as e: print('read-only leaves:', type(e).__name__, str(e)[:60])
w=jax.tree.map(lambda x: np.array(x), r)
before=jax.tree.map(lambda x: np.array(x), w)
o.update(g, w, params)
print('inputs unchanged:', all(np.array_equal(a,b) for a,b in zip(jax.tree.leaves(before), jax.tree.leaves(w))))
