# C17 defect: non-negative, scale-disparate scores give a NEGATIVE rank (default float32 config).
# create_redist_dict keeps `total_score` by running subtraction; with scores (2^25, 1, 1) the float32 sum is
# 2^25 (the 1s are absorbed), after serving the big axis total_score == 0, then -1, and
# rd(score * group_resource / total_score) becomes negative.  Budget assert passes (negative rank "pays" for the others).
import warnings; warnings.filterwarnings('ignore')
import numpy as np
from precondition.tearfree import reallocation as R
d, rank, scores = 4, 4, (2.0**25, 1.0, 1.0)
sk = {f'l{i}': {'axes': {'0': {'eigvecs': np.zeros((d, rank), np.float32), 'eigvals': np.zeros(rank, np.float32),
                               'tail': np.float32(s)}}} for i, s in enumerate(scores)}
st = ({'inner_state': {'0': {'direction': {'1': {'sketches': sk}}}}},)
res = R.create_redist_dict('', [], 'tail_rho', False, rank, states=st)
ranks = [res[f'l{i}'][0] for i in range(3)]
print('ranks', ranks)   # e.g. [4, -4, 2] / [4, 2, -4] (tie order follows set iteration order)
assert min(ranks) >= 1, 'property C17 violated: rank < 1 for non-negative scores'
