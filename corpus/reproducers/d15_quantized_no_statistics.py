# D15 (C07): quantized second-moment mode (best_effort_memory_usage_reduction=True + batch_axis_name, no compression)
# when NO parameter has statistics (all leaves skipped by skip_preconditioning_rank_lt/dim_size_gt, or only scalars):
# _pmap_quantized_compute_preconditioners builds QuantizedValue.from_float_value(jnp.eye(max_size=0), int16, True)
# BEFORE the `if not packed_quantized_statistics: return states` early exit -> jnp.max over a zero-size array:
# ValueError "zero-size array to reduction operation max which has no identity" (raised inside jax). The unquantized twin returns early.
import os; os.environ.setdefault("XLA_FLAGS", "--xla_force_host_platform_device_count=2")
import warnings; warnings.filterwarnings('ignore')
import jax, jax.numpy as jnp
from precondition import distributed_shampoo as ds
for bemur in (False, True):
  opt = ds.distributed_shampoo(0.1, 8, best_effort_memory_usage_reduction=bemur, batch_axis_name='batch', skip_preconditioning_rank_lt=2)
  p = {'b': jnp.ones((3,))}                    # rank 1 < 2: skipped, no statistics anywhere
  rep = lambda t: jax.tree.map(lambda x: jnp.stack([x] * 2), t)
  try:
    jax.pmap(opt.update, axis_name='batch')(rep(p), rep(opt.init(p)), rep(p)); print('bemur', bemur, 'ok')
  except Exception as e:
    print('bemur', bemur, type(e).__name__, str(e)[:120])
