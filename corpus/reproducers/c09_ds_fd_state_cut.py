# DS frequent_directions: a statistic whose dimension is smaller than the largest one (max_size) loses the
# stored sketch eigenvalues when the packed preconditioner is cut to (dim, rank+2): _fd_low_rank_pack keeps
# them in the LAST `rank` rows of the max_size matrix. The escaped mass does not account for them, so
# sketch + tail*I >= C fails (C = beta2-discounted sum of G^T G). Axis 0 (dim == max_size) is fine.
import warnings; warnings.filterwarnings('ignore')
import numpy as np, jax, jax.numpy as jnp
from precondition import distributed_shampoo as ds
k, b2 = 2, 0.5
opt = ds.distributed_shampoo(0.1, block_size=16, beta2=b2, matrix_epsilon=0.0, compression_rank=k,
    frequent_directions=True, reuse_preconditioner=True, statistics_compute_steps=1,
    preconditioning_compute_steps=1, batch_axis_name=None, best_effort_shape_interpretation=False)
params = {'w': jnp.ones((7, 6))}; st = opt.init(params); rng = np.random.RandomState(0)
C = [np.zeros((7, 7)), np.zeros((6, 6))]
for i in range(3):
    g = rng.randn(7, 6).astype(np.float32); gd = g.astype(np.float64)
    _, st = opt.update({'w': jnp.asarray(g)}, st, params)
    C = [b2 * C[0] + gd @ gd.T, b2 * C[1] + gd.T @ gd]
    ps = [x for x in jax.tree.leaves(st, is_leaf=lambda x: isinstance(x, ds.ParameterStats)) if isinstance(x, ds.ParameterStats)][0]
    for ax, pc in enumerate(ps.preconditioners):
        d = C[ax].shape[0]
        pc7 = jnp.pad(pc, ((0, 7 - pc.shape[0]), (0, 0)))       # what the next update unpacks (pad_and_maybe_zero_preconditioners)
        V, l, _, _, t, _ = [np.asarray(z, np.float64) for z in ds._fd_low_rank_unpack(pc7, k)]
        sk = (V * l) @ V.T
        print(f'step {i} axis {ax} dim {d}: l={l} tail={float(t):.4f} '
              f'min eig(sketch + tail*I - C) = {np.linalg.eigvalsh(sk[:d, :d] + t * np.eye(d) - C[ax]).min():.4f}')
