# D11 (C07): compression_rank != 0, every statistic <= |r|+2, preconditioning_compute_steps=1,
# reuse_preconditioner=False, replicated (non-sharded) mode -> bare `assert matrix_size > abs(compression_rank) + 2`
# in _low_rank_root (both lax.cond branches of new_mi_pth_root are traced). Every other path (steps>1, reuse_preconditioner,
# sharded init) raises the explanatory AssertionError "all layers are too small for compression_rank" from precond_dim().
# NOTE leaf (2,3), r=1 with default merging does NOT reproduce: merge_small_dims turns it into [6] > r+2.
import warnings; warnings.filterwarnings('ignore')
import jax.numpy as jnp, traceback
from precondition import distributed_shampoo as ds
for shape, bs, r, merge in [((3,), 8, 1, True), ((2, 3), 8, 1, False), ((2, 3), 3, 1, True), ((2, 3), 8, -4, True), ((4, 4), 2, 1, True)]:
  p = {'w': jnp.ones(shape)}
  opt = ds.distributed_shampoo(0.1, bs, compression_rank=r, best_effort_shape_interpretation=merge, batch_axis_name=None)
  try:
    opt.update(p, opt.init(p), p); print(shape, bs, r, merge, 'ok')
  except AssertionError as e:
    f = traceback.extract_tb(e.__traceback__)[-1]
    print(shape, bs, r, merge, 'AssertionError', repr(str(e)), f.name, f.lineno)   # -> '' _low_rank_root 1049
