import warnings; warnings.filterwarnings('ignore')
import jax, jax.numpy as jnp, numpy as np
from precondition import distributed_shampoo as ds
from jax.sharding import PartitionSpec as P
params = dict(w=jnp.zeros((5,3)), b=jnp.zeros((4,)))
for best in (False, True):
    opt=ds.distributed_shampoo(0.1, 4, start_preconditioning_step=1, shard_optimizer_states=True, statistics_partition_spec=P(None), preconditioner_partition_spec=P(None), num_devices_for_pjit=2, best_effort_memory_usage_reduction=best)
    fns=opt.init(params)
    st=fns.init_fn(params); sd=fns.shape_and_dtype_fn(params)
    is_sd=lambda x: isinstance(x,list) and len(x)==2 and isinstance(x[0],list) 
    l1=jax.tree_util.tree_flatten_with_path(st)[0]
    l2=jax.tree_util.tree_flatten_with_path(sd, is_leaf=lambda x: isinstance(x,list))[0]
    d2={jax.tree_util.keystr(k):v for k,v in l2}
    for k,v in l1:
        ks=jax.tree_util.keystr(k); dv=d2.get(ks)
        ok = dv is not None and len(dv)==2 and list(dv[0])==list(v.shape) and jnp.dtype(dv[1])==v.dtype
        if not ok: print(best, ks, v.shape, v.dtype, 'declared', dv)
    print(best, 'n leaves', len(l1), len([k for k,v in l2 if v!=[]]))
