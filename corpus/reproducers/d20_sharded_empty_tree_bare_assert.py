# C07 candidate (found by the C07 sweep): shard_optimizer_states=True with an EMPTY parameter tree.
# init_fn({}) succeeds (state with the dummy global statistics of the D19 repair), but the two declaration functions
# that must describe the same tree die on a bare `assert params_flat` (distributed_shampoo.py, sharded_init_shape_and_dtype_fn
# and sharded_init_partition_spec_fn; the latter also `assert param_pspec_flat`): AssertionError with an empty message.
# Replicated mode, SM3 and Tearfree accept the empty tree. Suggested minimal fix: drop the three asserts (the code below
# them handles empty lists: num_statistics == 0 -> the same dummy shapes as init_fn), or raise an explanatory ValueError
# in all three functions (init_fn included).
import warnings; warnings.filterwarnings('ignore')
import jax, numpy as np
from jax.sharding import Mesh, PartitionSpec as P
from precondition import distributed_shampoo as ds
opt = ds.distributed_shampoo(0.1, 8, shard_optimizer_states=True, num_devices_for_pjit=2,
                             statistics_partition_spec=P('x', None, None), preconditioner_partition_spec=P('x', None, None))
fns = opt.init({})
with Mesh(np.array(jax.devices()[:1]), ('x',)):
  st = fns.init_fn({}); print('init_fn ok:', jax.tree.map(lambda x: x.shape, st))
  u, st = jax.jit(opt.update)({}, st, {}); print('update ok')
  for name, f in (('shape_and_dtype_fn', lambda: fns.shape_and_dtype_fn({})), ('pspec_fn', lambda: fns.pspec_fn({}, {}, P('x', None, None)))):
    try: print(name, f())
    except Exception as e: print(name, type(e).__name__, repr(str(e)))
