import warnings; warnings.filterwarnings('ignore')
import jax, jax.numpy as jnp, numpy as np
from precondition.tearfree import sketchy
o = sketchy.apply(sketchy.Options(rank=2, second_moment_decay=0.25, epsilon=0.0))
params={'w': jnp.ones((5,4))}
st=o.init(params)
rng=np.random.RandomState(0)
for i in range(3):
    u,st=o.update({'w': jnp.asarray(rng.randn(5,4), jnp.float32)}, st, params)
ax=jax.tree.leaves(st, is_leaf=lambda x: isinstance(x, sketchy._AxisState))
ax=[a for a in ax if isinstance(a, sketchy._AxisState)][0]
u,st2=o.update({'w': jnp.zeros((5,4))}, st, params)
ax2=[a for a in jax.tree.leaves(st2, is_leaf=lambda x: isinstance(x, sketchy._AxisState)) if isinstance(a, sketchy._AxisState)][0]
print('tail ratio', float(ax2.tail/ax.tail), 'sketch ratio', np.asarray((ax2.eigvals/ax.eigvals)**2))
