import warnings; warnings.filterwarnings('ignore')
import logging; logging.disable(logging.CRITICAL)
import builtins
_p = builtins.print
builtins.print = lambda *a, **k: None if (a and isinstance(a[0], str) and '->' in a[0]) else _p(*a, **k)
import jax
jax.config.update("jax_enable_x64", True)
import jax.numpy as jnp, numpy as np, itertools
from precondition.tearfree import optimizer as tf, second_order, shampoo, grafting, momentum
rng = np.random.RandomState(0)
def ref_run(grads, lr, B, sf, pf, decay, gdecay, start, ema, nest, mdecay, wd, wd_after, eps=1e-23):
    m, n = grads[0].shape
    # blocks: rows split by B if m>=B (divisible), cols likewise
    rb = [(i, min(i+B, m)) for i in range(0, m, B)] if m >= B else [(0,m)]
    cb = [(j, min(j+B, n)) for j in range(0, n, B)] if n >= B else [(0,n)]
    L = {(r,c): np.zeros((r[1]-r[0],)*2) for r in rb for c in cb}; Rr = {(r,c): np.zeros((c[1]-c[0],)*2) for r in rb for c in cb}
    PL = {k: np.eye(v.shape[0]) for k,v in L.items()}; PR = {k: np.eye(v.shape[0]) for k,v in Rr.items()}
    acc = np.zeros((m,n)); vel = np.zeros((m,n)); x = np.zeros((m,n)); outs=[]
    def root(C, p):
        w, v = np.linalg.eigh(C); mask = w <= 1e-6*w.max()
        h = np.where(mask, 0.0, np.where(mask,1.0,w)**(-0.5/p)); hv = v*h
        return hv@hv.T
    for t,g in enumerate(grads):
        pg = np.zeros_like(g)
        for (r,c) in L:
            gb = g[r[0]:r[1], c[0]:c[1]]
            if t % sf == 0:
                if decay == 1.0: L[(r,c)] += gb@gb.T; Rr[(r,c)] += gb.T@gb
                else: L[(r,c)] = L[(r,c)]*decay + gb@gb.T*(1-decay); Rr[(r,c)] = Rr[(r,c)]*decay + gb.T@gb*(1-decay)
            if t % pf == 0:
                PL[(r,c)] = root(L[(r,c)], 4); PR[(r,c)] = root(Rr[(r,c)], 4)
            pg[r[0]:r[1], c[0]:c[1]] = PL[(r,c)]@gb@PR[(r,c)]
        acc = g*g + acc if gdecay==1.0 else g*g*(1-gdecay) + gdecay*acc
        gr = g/np.sqrt(acc+eps)
        bn = np.linalg.norm(pg)
        u = pg*(np.linalg.norm(gr)/bn if bn>0 else 0.0) if t >= start else gr
        if wd>0 and not wd_after: u = u + wd*x
        if mdecay:
            if ema: u = u*(1-mdecay)
            vel = u + mdecay*vel
            u = u + mdecay*vel if nest else vel
        if wd>0 and wd_after: u = u + wd*x
        outs.append(-lr*u)
    return outs
worst=0
for (B, sf, pf, decay, start, ema, nest, mdecay, wd, wd_after) in itertools.product([2,1024],[1,2],[1,2],[1.0,0.9],[0,2],[True,False],[True,False],[0.9],[0.0,0.1],[True,False]):
    if rng.rand() > 0.15: continue
    o = tf.TearfreeOptions(
        grafting_options=grafting.Options(grafting_type=grafting.GraftingType.RMSPROP, second_moment_decay=0.99, start_preconditioning_step=start),
        second_order_options=second_order.Options(merge_dims=2, shampoo_options=shampoo.Options(block_size=B, update_preconditioners_freq=pf, update_statistics_freq=sf, second_moment_decay=decay)),
        momentum_options=momentum.Options(ema=ema, nesterov=nest, momentum_decay=mdecay, weight_decay=wd, weight_decay_after_momentum=wd_after))
    opt = tf.tearfree(0.1, o); params = dict(w=jnp.zeros((4,6), jnp.float64)); st = opt.init(params)
    grads = [rng.randn(4,6) for _ in range(5)]
    ref = ref_run(grads, 0.1, B, sf, pf, decay, 0.99, start, ema, nest, mdecay, wd, wd_after)
    for t,g in enumerate(grads):
        u, st = opt.update(dict(w=jnp.asarray(g)), st, params)
        d = np.abs(np.asarray(u['w'])-ref[t]).max()/np.abs(ref[t]).max()
        worst=max(worst,d)
        if d>1e-6: print('MISMATCH', B,sf,pf,decay,start,ema,nest,mdecay,wd,wd_after,'t',t,d)
print('tearfree shampoo vs reference worst rel', worst)
