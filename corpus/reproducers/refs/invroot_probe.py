import jax
jax.config.update("jax_enable_x64", True)
import jax.numpy as jnp, numpy as np
from precondition import distributed_shampoo as ds
for eigh in (False, True):
    try:
        x, m = ds.matrix_inverse_pth_root(jnp.array([[4.0]]), 2, eigh=eigh)
        print("1x1 eigh=",eigh, x, m.inverse_pth_root_errors)
    except Exception as e:
        print("1x1 eigh=",eigh,"EXC", type(e).__name__, e)
A = jnp.array([[2.0,1.0],[1.0,2.0]])
for eigh in (False, True):
    x, m = ds.matrix_inverse_pth_root(A, 4, eigh=eigh, ridge_epsilon=1e-12)
    print(x, m.inverse_pth_root_errors, m.max_eigen_value, m.total_retries)
    R = A + 1e-12*3*np.eye(2)
    print(np.abs(np.linalg.matrix_power(np.array(x),4)@R-np.eye(2)).max())
