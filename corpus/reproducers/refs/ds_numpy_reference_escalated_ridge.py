import warnings; warnings.filterwarnings('ignore')
import logging; logging.disable(logging.CRITICAL)
import jax
jax.config.update("jax_enable_x64", True)
import jax.numpy as jnp, numpy as np, itertools
from precondition import distributed_shampoo as ds
exec(open('p27.py').read().split("worst=0; nrun=0")[0].split("rng = np.random.RandomState(0)")[1])
from precondition import distributed_shampoo as ds
GT = ds.GraftingType
def run(B,beta1,beta2,wd,start,pi,si,gt,nest,mavg,dlr,dwd, seed=1):
    rng=np.random.RandomState(seed)
    opt=ds.distributed_shampoo(0.1,B,beta1=beta1,beta2=beta2,matrix_epsilon=1e-6,weight_decay=wd,start_preconditioning_step=start,preconditioning_compute_steps=pi,statistics_compute_steps=si,best_effort_shape_interpretation=False,graft_type=gt,nesterov=nest,moving_average_for_momentum=mavg,decoupled_learning_rate=dlr,decoupled_weight_decay=dwd)
    params=dict(w=jnp.asarray(rng.randn(5,4),jnp.float32)); st=opt.init(params)
    grads=[rng.randn(5,4).astype(np.float32) for _ in range(5)]
    x=np.asarray(params['w'],np.float64)
    ref=ref_run([g.astype(np.float64) for g in grads],[x]*5,0.1,B,beta1,beta2,1e-6,wd,start,pi,si,gt,nest,mavg,dlr,dwd)
    ds_=[]
    for t,g in enumerate(grads):
        u,st=opt.update(dict(w=jnp.asarray(g)),st,params)
        ds_.append(float(np.abs(np.asarray(u['w'],np.float64)-ref[t]).max()/max(np.abs(ref[t]).max(),1e-30)))
    errs = np.asarray(st.stats['w'].training_metrics.inverse_pth_root_errors)
    return ds_, errs
base=dict(B=3,beta1=0.9,beta2=1.0,wd=0.1,start=2,pi=1,si=2,gt=GT.SGD,nest=True,mavg=False,dlr=True,dwd=True)
print('base', run(**base))
for k,v in [('wd',0.0),('dwd',False),('si',1),('start',0),('B',16),('beta2',0.9),('beta1',0.0),('nest',False)]:
    print(k,v, run(**dict(base,**{k:v}))[0])
print('--- seeds')
for seed in range(12):
    d, errs = run(**dict(base), seed=seed)
    print(seed, 'max mismatch %.2e' % max(d), 'max reported root err %.2e' % errs.max())
