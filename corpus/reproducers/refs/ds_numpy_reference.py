import warnings; warnings.filterwarnings('ignore')
import logging; logging.disable(logging.CRITICAL)
import jax
jax.config.update("jax_enable_x64", True)
import jax.numpy as jnp, numpy as np, itertools
from precondition import distributed_shampoo as ds
rng = np.random.RandomState(0)
GT = ds.GraftingType
def graft(gt, g, acc, beta2, deps):
    if gt in (GT.SGD, GT.NONE): return g, acc
    if gt == GT.SQRT_N: return np.sign(g), acc
    sg = g/(np.linalg.norm(g)+1e-25) if gt in (GT.ADAGRAD_NORMALIZED, GT.RMSPROP_NORMALIZED) else g
    if gt in (GT.ADAGRAD, GT.ADAGRAD_NORMALIZED): acc = acc + sg*sg
    else: acc = beta2*acc + (1.0 if beta2==1.0 else 1-beta2)*sg*sg
    return sg/(np.sqrt(acc)+deps), acc
def ref_run(grads, xs, lr, B, beta1, beta2, eps, wd, start, pi, si, gt, nest, mavg, dlr, dwd):
    m,n = grads[0].shape
    rb = [(i,min(i+B,m)) for i in range(0,m,B)] if 0<B<m else [(0,m)]
    cb = [(j,min(j+B,n)) for j in range(0,n,B)] if 0<B<n else [(0,n)]
    blocks=[(r,c) for r in rb for c in cb]
    L={k: eps*np.eye(k[0][1]-k[0][0]) for k in blocks}; R={k: eps*np.eye(k[1][1]-k[1][0]) for k in blocks}
    PL={k: np.eye(k[0][1]-k[0][0]) for k in blocks}; PR={k: np.eye(k[1][1]-k[1][0]) for k in blocks}
    acc=np.zeros((m,n)); mS=np.zeros((m,n)); mG=np.zeros((m,n)); outs=[]
    def root(C,p):
        w,v=np.linalg.eigh(C); d=eps*max(w.max()-0,1e-25)  # relative eps * lambda_max (approx of power iteration)
        return (v*(w+d)**(-1.0/p))@v.T
    for t,(g,x) in enumerate(zip(grads,xs)):
        w1=beta2; w2=1.0 if beta2==1.0 else 1-beta2
        pg=np.zeros_like(g)
        for k in blocks:
            (r,c)=k; gb=g[r[0]:r[1],c[0]:c[1]]
            if t%si==0: L[k]=w1*L[k]+w2*gb@gb.T; R[k]=w1*R[k]+w2*gb.T@gb
            if t%pi==0: PL[k]=root(L[k],4); PR[k]=root(R[k],4)
            pg[r[0]:r[1],c[0]:c[1]]=PL[k].T@gb@PR[k]
        gu,acc=graft(gt,g,acc,beta2,1e-10)
        gu=gu*(lr if not dlr else 1.0)
        mult = np.linalg.norm(gu)/(np.linalg.norm(pg)+1e-25) if gt!=GT.NONE else 1.0
        su=pg*mult
        suw,guw=su,gu
        if wd!=0 and not dwd: suw=su+wd*x; guw=gu+wd*x
        w=(1-beta1) if mavg else 1.0
        mS=mS*beta1+w*suw; mG=mG*beta1+w*guw
        run = t>=start
        mom = mS if run else mG; upd = suw if run else guw
        out = w*upd+beta1*mom if nest else mom
        if wd!=0 and dwd: out = out + (1.0 if dlr else lr)*wd*x
        outs.append(-(lr if dlr else 1.0)*out)
    return outs
worst=0; nrun=0
for (B,beta1,beta2,wd,start,pi,si,gt,nest,mavg,dlr,dwd) in itertools.product([3,16],[0.0,0.9],[1.0,0.9],[0.0,0.1],[0,2],[1,2],[1,2],list(GT),[True,False],[True,False],[True,False],[True,False]):
    if rng.rand()>0.01: continue
    nrun+=1
    opt=ds.distributed_shampoo(0.1,B,beta1=beta1,beta2=beta2,matrix_epsilon=1e-6,weight_decay=wd,start_preconditioning_step=start,preconditioning_compute_steps=pi,statistics_compute_steps=si,best_effort_shape_interpretation=False,graft_type=gt,nesterov=nest,moving_average_for_momentum=mavg,decoupled_learning_rate=dlr,decoupled_weight_decay=dwd)
    params=dict(w=jnp.asarray(rng.randn(5,4),jnp.float32)); st=opt.init(params)
    grads=[rng.randn(5,4).astype(np.float32) for _ in range(5)]
    x=np.asarray(params['w'],np.float64)
    ref=ref_run([g.astype(np.float64) for g in grads],[x]*5,0.1,B,beta1,beta2,1e-6,wd,start,pi,si,gt,nest,mavg,dlr,dwd)
    for t,g in enumerate(grads):
        u,st=opt.update(dict(w=jnp.asarray(g)),st,params)
        d=np.abs(np.asarray(u['w'],np.float64)-ref[t]).max()/max(np.abs(ref[t]).max(),1e-30)
        worst=max(worst,d)
        if d>2e-3: print('MISMATCH',B,beta1,beta2,wd,start,pi,si,gt.name,nest,mavg,dlr,dwd,'t',t,d)
print('DS vs reference: configs',nrun,'worst rel',worst)
