# C07 scope-boundary observations (NOT in the sweep; coordinator decides whether they are in scope):
# (a) shard_optimizer_states + batch_axis_name + best_effort_memory_usage_reduction: AttributeError at the first update
#     (statistics get quantized by _compute_stats, sharded_update_fn expects plain arrays)
# (b) pspec_fn with a parameter partition spec of fewer than 2 entries (P() / P(None)) for an int8-quantized rank>=2
#     parameter: the bucket_size specs are [] -> the pspec tree has 2 leaves fewer than the state
# (c) shard_optimizer_states=True with num_devices_for_pjit=None (the default): TypeError in sharded_init_fn
import warnings; warnings.filterwarnings('ignore')
import jax, jax.numpy as jnp, numpy as np
from jax.sharding import Mesh, PartitionSpec as P
from precondition import distributed_shampoo as ds
p = {'w': jnp.ones((4, 3))}
# (a) sharded + batch_axis_name + best_effort_memory_usage_reduction (pmap-mode option inside pjit mode)
opt = ds.distributed_shampoo(0.1, 8, shard_optimizer_states=True, num_devices_for_pjit=1, batch_axis_name='batch', best_effort_memory_usage_reduction=True,
                             statistics_partition_spec=P('x', None, None), preconditioner_partition_spec=P('x', None, None))
with Mesh(np.array(jax.devices()[:1]), ('x',)):
  st = opt.init(p).init_fn(p)
  try: jax.jit(opt.update)(p, st, p); print('a ok')
  except Exception as e: print('a', type(e).__name__, str(e)[:100])
# (b) replicated params pspec P() for a quantized rank-2 parameter
opt = ds.distributed_shampoo(0.1, 8, shard_optimizer_states=True, num_devices_for_pjit=1, best_effort_memory_usage_reduction=True,
                             statistics_partition_spec=P('x', None, None), preconditioner_partition_spec=P('x', None, None))
fns = opt.init(p); st = fns.init_fn(p)
for pp in (P(), P(None), P(None, None)):
  sp = fns.pspec_fn(p, {'w': pp}, P('x', None, None))
  print('b', pp, len(jax.tree.leaves(st)), len(jax.tree.leaves(sp, is_leaf=lambda x: isinstance(x, P))))
# (c) num_devices_for_pjit=None in sharded mode
try:
  opt = ds.distributed_shampoo(0.1, 8, shard_optimizer_states=True, statistics_partition_spec=P('x', None, None), preconditioner_partition_spec=P('x', None, None))
  opt.init(p).init_fn(p); print('c ok')
except Exception as e: print('c', type(e).__name__, str(e)[:100])
