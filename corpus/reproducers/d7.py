import warnings; warnings.filterwarnings('ignore')
import io, contextlib
import jax; jax.config.update('jax_enable_x64', True)
import jax.numpy as jnp, numpy as np
from precondition.tearfree import shampoo
o = shampoo.apply(shampoo.Options(block_size=2))
g=np.random.RandomState(0).randn(4,2); g[2:]*=1e-4
params={'w': jnp.zeros((4,2))}
with contextlib.redirect_stdout(io.StringIO()):
    st=o.init(params); u,st=o.update({'w': jnp.asarray(g)}, st, params)
print(np.asarray(u['w']))
