import warnings; warnings.filterwarnings('ignore')
import jax, jax.numpy as jnp, numpy as np, traceback
from precondition import distributed_shampoo as ds
from jax.sharding import PartitionSpec as P, Mesh
params = dict(w=jnp.zeros((5,3)), b=jnp.zeros((4,)))
def mk(nd, **kw):
    return ds.distributed_shampoo(0.1, 4, start_preconditioning_step=1, shard_optimizer_states=True,
        statistics_partition_spec=P(None), preconditioner_partition_spec=P(None), num_devices_for_pjit=nd, **kw)
try:
    for nd in (1,2,3):
        opt = mk(nd)
        fns = opt.init(params)
        st = fns.init_fn(params)
        sd = fns.shape_and_dtype_fn(params)
        print('nd', nd, 'global stats', st.stats.global_stats.statistics.shape, st.stats.global_stats.preconditioners.shape, st.count.dtype, sd.count, sd.stats.global_stats.statistics)
        rng = np.random.RandomState(0)
        mesh = Mesh(np.array(jax.devices()[:1]), ('x',))
        with mesh:
          for i in range(4):
            g = jax.tree.map(lambda p: jnp.asarray(rng.randn(*p.shape), jnp.float32), params)
            if i==2: g = dict(g, w=g['w'].at[0,0].set(jnp.nan))
            u, st = jax.jit(opt.update)(g, st, params)
            print(i, 'upd finite', all(bool(jnp.isfinite(x).all()) for x in jax.tree.leaves(u)), 'precond finite', bool(jnp.isfinite(st.stats.global_stats.preconditioners).all()), 'stats finite', bool(jnp.isfinite(st.stats.global_stats.statistics).all()), np.asarray(st.stats.local_stats['w'].training_metrics.inverse_pth_root_errors)[:3])
except Exception as e:
    traceback.print_exc()
