#!/bin/sh
# Offline build of the Lean library and the per-property drivers from files on disk.
# Each driver is built on its own so that one property's breakage cannot block the others;
# every check rebuilds (no-op when fresh) and audits its own targets again when it runs.
cd "$(dirname "$0")/lean" || exit 1
lake build PrecondVerif || echo "setup: library build reported errors (individual checks will report them)"
rc=0
for i in 01 02 03 04 05 06 07 08 09 10 11 12 13 14 15 16 17; do
  lake build drv_c$i >/dev/null 2>&1 || { echo "setup: drv_c$i failed to build"; rc=0; }
done
mkdir -p ../.work ../evidence ../replays
exit $rc
