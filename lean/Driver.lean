/-
Line-protocol driver: one JSON object per input line `{"op": name, ...}`,
one JSON object per output line. Imports only Mathlib-free model code, so it
links as a native executable.
-/
import PrecondVerif.Kit.Proto
import PrecondVerif.Drv.C06

open Lean PrecondVerif.Proto

def allOps : List Op :=
  PrecondVerif.Drv.C06.ops

def handle (line : String) : Json :=
  match Json.parse line with
  | .error e => obj [("error", Json.str s!"parse: {e}")]
  | .ok j =>
    match getStr j "op" with
    | .error e => obj [("error", Json.str e)]
    | .ok op =>
      match allOps.lookup op with
      | none => obj [("error", Json.str s!"unknown op {op}")]
      | some f =>
        match f j with
        | .ok r => r
        | .error e => obj [("error", Json.str e)]

partial def loop (hin : IO.FS.Stream) (hout : IO.FS.Stream) : IO Unit := do
  let line ← hin.getLine
  if line.isEmpty then return ()
  let l := line.trimAscii.toString
  if l.isEmpty then loop hin hout else
  hout.putStrLn (handle l).compress
  loop hin hout

def main : IO Unit := do
  let hin ← IO.getStdin
  let hout ← IO.getStdout
  loop hin hout
  hout.flush
