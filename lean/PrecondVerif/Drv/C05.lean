/- Driver operations for C05 (stub: to be filled by the property's model). -/
import PrecondVerif.Kit.Proto

namespace PrecondVerif.Drv.C05
open Lean PrecondVerif.Proto

def ops : List Op := []

end PrecondVerif.Drv.C05
