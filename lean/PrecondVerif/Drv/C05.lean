/-
Driver operations for C05 (grafting): the model `Model/Graft.lean` executed

* at `Float` (binary64; `scalar = "f64"`): tensors cross as float32 bit patterns and are widened exactly, the
  configuration scalars as binary64 bit patterns (the Python floats of the options); policy TOL;
* at tracked rationals `TR` (`scalar = "exact"`): exact `Rat` arithmetic (the instance the theorems cover, with an
  exact rational square root) where every value carries a flag "every intermediate so far was exact for the
  square root and lies within 2⁻⁴⁰ (relative) of a float32 value". On flagged outputs the float32
  implementation performs no rounding other than absorbing the tiny `ε` constants, hence must equal the
  rational result rounded once to float32 — policy EXACT-DYADIC.

Ops: `ds_run` (fold of `dsTransform` over a gradient history for one parameter), `tf_run` (fold of
`tfTransform`), `skip` (`dsSkip` / `tfMaskSkipped`). Mathlib-free.
-/
import PrecondVerif.Kit.Proto
import PrecondVerif.Model.Graft

namespace PrecondVerif.Drv.C05
open Lean PrecondVerif.Proto PrecondVerif.Graft

/-! ### exact rationals with an exactness flag -/

/-- exact value of a finite IEEE-754 binary32 bit pattern -/
def f32ToRat (bits : Nat) : R Rat :=
  let neg : Bool := bits / 2 ^ 31 % 2 == 1
  let e : Nat := bits / 2 ^ 23 % 256
  let m : Nat := bits % 2 ^ 23
  if e = 255 then .error "non-finite float32 in input" else
  let mant : Nat := if e = 0 then m else m + 2 ^ 23
  let ex : Int := if e = 0 then -149 else (e : Int) - 150
  let mag : Rat := (mant : Rat) * (2 : Rat) ^ ex
  .ok (if neg then -mag else mag)

def ratAbs (q : Rat) : Rat := if q < 0 then -q else q

/-- `q` is zero or within `2⁻⁴⁰·|q|` of a normal float32 value of moderate exponent. -/
def nearF32 (q : Rat) : Bool :=
  if q = 0 then true else
  let a := ratAbs q
  let e0 : Int := (Nat.log2 a.num.natAbs : Int) - (Nat.log2 a.den : Int)
  let e : Int := if a < (2 : Rat) ^ e0 then e0 - 1 else if (2 : Rat) ^ (e0 + 1) ≤ a then e0 + 1 else e0
  if e < -100 || e > 100 then false else
  let s : Rat := a / (2 : Rat) ^ (e - 23)
  let m : Int := (s + 1 / 2).floor
  decide (ratAbs (s - (m : Rat)) ≤ 1 / 65536)

/-- exact square root of a rational, if it has one -/
def ratSqrt? (q : Rat) : Option Rat :=
  if q < 0 then none else
  let n := q.num.natAbs
  let d := q.den
  let rn := Nat.sqrt n
  let rd := Nat.sqrt d
  if rn * rn = n ∧ rd * rd = d then some ((rn : Rat) / (rd : Rat)) else none

structure TR where
  v : Rat
  ok : Bool

namespace TR
def mk' (v : Rat) (ok : Bool) : TR := ⟨v, ok && nearF32 v⟩
def exactZero (a : TR) : Bool := a.ok && a.v == 0
instance : Add TR := ⟨fun a b => mk' (a.v + b.v) (a.ok && b.ok)⟩
instance : Sub TR := ⟨fun a b => mk' (a.v - b.v) (a.ok && b.ok)⟩
/-- an exact zero absorbs the other factor (as in floats for a finite factor) -/
instance : Mul TR := ⟨fun a b =>
  if a.exactZero || b.exactZero then ⟨0, true⟩ else mk' (a.v * b.v) (a.ok && b.ok)⟩
instance : Div TR := ⟨fun a b =>
  if b.v == 0 then ⟨0, false⟩ else mk' (a.v / b.v) (a.ok && b.ok)⟩
instance : Neg TR := ⟨fun a => ⟨-a.v, a.ok⟩⟩
instance : LT TR := ⟨fun a b => a.v < b.v⟩
instance : DecidableLT TR := fun a b => inferInstanceAs (Decidable (a.v < b.v))
instance : BEq TR := ⟨fun a b => a.v == b.v⟩
instance : OfNat TR 0 := ⟨⟨0, true⟩⟩
instance : OfNat TR 1 := ⟨⟨1, true⟩⟩
def sqrt (a : TR) : TR :=
  match ratSqrt? a.v with
  | some r => mk' r a.ok
  | none => ⟨0, false⟩
end TR

/-! ### scalar codecs -/

structure Codec (α : Type) where
  /-- a configuration scalar -/
  scalar : Json → R α
  /-- a tensor entry (float32 bit pattern) -/
  datum : Json → R α
  out : α → Json
  okOf : α → Bool
  sqrt : α → α
  natCast : Nat → α

def f64C : Codec Float where
  scalar := asFloat
  datum := fun j => do
    -- 8 hex digits: float32 (widened exactly); 16: binary64 (float64 parameter trees)
    if (← asStr j).length > 10 then asFloat j else pure (← asFloat32 j).toFloat
  out := floatToJson
  okOf := fun _ => false
  sqrt := Float.sqrt
  natCast := Float.ofNat

def exactC : Codec TR where
  scalar := fun j => do pure ⟨← asRat j, true⟩
  datum := fun j => do
    let v ← f32ToRat (← parseHex (← asStr j))
    pure ⟨v, true⟩
  out := fun a => ratToJson a.v
  okOf := fun a => a.ok
  sqrt := TR.sqrt
  natCast := fun n => ⟨(n : Rat), true⟩

def graftOfString : String → R GraftType
  | "NONE" => pure .none
  | "SGD" => pure .sgd
  | "ADAGRAD" => pure .adagrad
  | "RMSPROP" => pure .rmsprop
  | "RMSPROP_NORMALIZED" => pure .rmspropNormalized
  | "SQRT_N" => pure .sqrtN
  | "ADAGRAD_NORMALIZED" => pure .adagradNormalized
  | s => throw s!"unknown graft type {s}"

def tfGraftOfString : String → R TFGraftType
  | "SGD" => pure .sgd
  | "RMSPROP" => pure .rmsprop
  | s => throw s!"unknown tearfree graft type {s}"

section Run
variable {α : Type} [Add α] [Mul α] [Sub α] [Div α] [Neg α] [LT α] [DecidableLT α] [BEq α]
  [OfNat α 0] [OfNat α 1]

def vecJson (c : Codec α) (v : List α) : Json := listToJson c.out v
def okJson (c : Codec α) (v : List α) : Json := listToJson (fun x => Json.bool (c.okOf x)) v

/-- `steps`: list of `{ "g": [...], "<second>": [...] }` -/
def getSteps (c : Codec α) (j : Json) (second : String) : R (List (List α × List α)) := do
  let steps ← asList (← field j "steps")
  steps.mapM fun s => do
    let g ← asListOf c.datum (← field s "g")
    let p ← asListOf c.datum (← field s second)
    if g.length ≠ p.length then throw "g and second vector differ in length" else pure (g, p)

def getAcc0 (c : Codec α) (j : Json) (n : Nat) : R (List α) := do
  match j.getObjVal? "acc0" with
  | .ok (.arr a) => do
      let acc ← a.toList.mapM c.datum
      if acc.length ≠ n then throw "acc0 length" else pure acc
  | _ => pure (List.replicate n 0)

def resultJson (c : Codec α) (upds accs : List (List α)) : Json :=
  obj [("upd", listToJson (vecJson c) upds), ("acc", listToJson (vecJson c) accs),
       ("ok", listToJson (okJson c) upds), ("acc_ok", listToJson (okJson c) accs)]

/-- fold of `dsTransform` over the history of one parameter, starting at step `step0` -/
def dsRun (c : Codec α) (j : Json) : R Json := do
  let clip : Option α ← match j.getObjVal? "clip" with
    | .ok .null => pure none
    | .ok v => do pure (some (← c.scalar v))
    | .error _ => pure none
  let cfg : DSConfig α := {
    graftType := ← graftOfString (← getStr j "graft")
    beta2 := ← c.scalar (← field j "beta2")
    diagEps := ← c.scalar (← field j "diag_eps")
    eps := ← c.scalar (← field j "eps")
    lr := ← c.scalar (← field j "lr")
    decoupledLr := ← getBool j "dlr"
    clip := clip
    start := ← getNat j "start" }
  let skip ← getBool j "skip"
  let step0 := (fieldD j "step0" (toJson (0 : Nat))).getNat?.toOption.getD 0
  let steps ← getSteps c j "p"
  let n := match steps with | [] => 0 | s :: _ => s.1.length
  let acc0 ← getAcc0 c j n
  let (_, _, upds, accs) := steps.foldl (fun (st : Nat × List α × List (List α) × List (List α)) s =>
      let (t, acc, us, as) := st
      let r := dsTransform c.sqrt c.natCast cfg t skip s.1 acc s.2
      (t + 1, r.2, r.1 :: us, r.2 :: as)) (step0, acc0, [], [])
  pure (resultJson c upds.reverse accs.reverse)

/-- fold of `tfTransform` over the history of one leaf; `b` is the second-order update of each step -/
def tfRun (c : Codec α) (j : Json) : R Json := do
  let gt ← tfGraftOfString (← getStr j "graft")
  let decay ← c.scalar (← field j "decay")
  let eps ← c.scalar (← field j "eps")
  let lr ← c.scalar (← field j "lr")
  let start ← getNat j "start"
  let masked ← getBool j "masked"
  let steps ← getSteps c j "b"
  let n := match steps with | [] => 0 | s :: _ => s.1.length
  let acc0 ← getAcc0 c j n
  let (_, _, upds, accs) := steps.foldl (fun (st : Nat × List α × List (List α) × List (List α)) s =>
      let (t, acc, us, as) := st
      let r := tfTransform c.sqrt gt decay eps lr t start masked s.1 acc s.2
      (t + 1, r.2, r.1 :: us, r.2 :: as)) (0, acc0, [], [])
  pure (resultJson c upds.reverse accs.reverse)

end Run

def withScalar (j : Json) (f64 : Json → R Json) (exact : Json → R Json) : R Json := do
  match (← getStr j "scalar") with
  | "f64" => f64 j
  | "exact" => exact j
  | s => throw s!"unknown scalar {s}"

def ops : List Op := [
  ("ds_run", fun j => withScalar j (dsRun f64C) (dsRun exactC)),
  ("tf_run", fun j => withScalar j (tfRun f64C) (tfRun exactC)),
  -- which parameters are excluded from preconditioning
  ("skip", fun j => do
    let shape ← getNats j "shape"
    match (← getStr j "kind") with
    | "ds" => pure (obj [("skip", Json.bool (dsSkip (← getNat j "rank_lt") (← getNat j "dim_gt") shape))])
    | "tf" => pure (obj [("skip", Json.bool (tfMaskSkipped (← getBool j "rank1") (← getNat j "dim_gt") shape))])
    | s => throw s!"unknown kind {s}")
]

end PrecondVerif.Drv.C05
