/- Driver operations for C08 (block-diagonal semantics): `Model/BlockDiag.lean` at `Rat` and `Float`.

  * `ds_plan`   : statistic slots of every leaf of a tree (block, axis, slice, size), exponent, `max_size`, padding starts
  * `tf_plan`   : Tearfree blocks-axis slots of one tensor
  * `tf_mask`   : eigenvalue cut per block (`batchedMask`, the repaired code) and relative to the maximum over all blocks
                  (`sharedMask`, D7) on exact rational spectra
  * `newton_pad`: the masked coupled Newton routine on `pad(A, N)` with `padding_start = s` (`paddedRoot`, and the
                  uncut root) and on `A` itself (`rootA s s`): an executed instance of `root_padding_invariant_newton`
-/
import PrecondVerif.Kit.Proto
import PrecondVerif.Model.BlockDiag

namespace PrecondVerif.Drv.C08
open Lean PrecondVerif.Proto PrecondVerif.BlockDiag

instance : Zero Float := ⟨0.0⟩
instance : One Float := ⟨1.0⟩

def slotJson (s : Slot) : Json :=
  obj [("block", toJson s.block), ("axis", toJson s.axis),
       ("slice", listToJson (fun (p : Nat × Nat) => natsToJson [p.1, p.2]) s.slice), ("size", toJson s.size)]

def matOfList {α : Type} [Zero α] (n : Nat) (l : List α) : A2 α :=
  let arr := l.toArray
  tabM n fun i j => arr.getD (i * n + j) 0

def matToJson {α : Type} [Zero α] (f : α → Json) (n : Nat) (a : A2 α) : Json :=
  Json.arr ((List.range n).flatMap fun i => (List.range n).map fun j => f (rdM a i j)).toArray

def tryJson {α : Type} [Zero α] (f : α → Json) (n : Nat) (r : Nat × Try α) : Json :=
  obj [("retries", toJson r.1), ("h", matToJson f n r.2.h), ("err", f r.2.err), ("iters", toJson r.2.iters),
       ("ratio", f r.2.ratio)]

/-- all entries outside `[0,s)²` of an `N × N` tabulated matrix are (exactly) zero -/
def outsideZero {α : Type} [Zero α] [BEq α] (s N : Nat) (a : A2 α) : Bool :=
  (List.range N).all fun i => (List.range N).all fun j => (i < s && j < s) || rdM a i j == 0

def newtonPad {α : Type} [Zero α] [One α] [Add α] [Sub α] [Mul α] [Div α] [Neg α] [LT α] [DecidableLT α] [BEq α]
    (f : α → Json) (s N : Nat) (c : Cfg α) (ridge : α) (a : A2 α) : Json :=
  let padded := paddedRoot N s c ridge a
  let plain := rootA s s c ridge a
  let uncut := rootA N s c ridge (padSq s N a)
  obj [("padded", tryJson f s padded), ("plain", tryJson f s plain),
       ("outside_zero", Json.bool (outsideZero s N uncut.2.h)),
       ("same", Json.bool (padded.1 == plain.1 && padded.2.iters == plain.2.iters && padded.2.err == plain.2.err
          && padded.2.ratio == plain.2.ratio
          && (List.range s).all fun i => (List.range s).all fun j => rdM padded.2.h i j == rdM plain.2.h i j))]

def ops : List Op := [
  ("ds_plan", fun j => do
    let shapes ← asListOf (asListOf asNat) (← field j "leaves")
    let b ← getNat j "block"
    let pt ← match fieldD j "ptype" (Json.str "ALL") with
      | Json.str "INPUT" => pure PType.input
      | Json.str "OUTPUT" => pure PType.output
      | Json.str "ALL" => pure PType.all
      | _ => throw "bad ptype"
    let slots := shapes.map fun sh => dsSlotsP pt sh b
    let leaves : List (List (Stat Nat)) := slots.map fun l => l.map fun s => ⟨s.size, #[]⟩
    pure (obj [
      ("leaves", listToJson (fun (p : List Nat × List Slot) =>
        obj [("slots", listToJson slotJson p.2), ("exponent", toJson (2 * (precAxes pt p.1.length).length)),
             ("nblocks", toJson ((cart (p.1.map fun d => pieces (splitSizes d b) 0)).length))]) (shapes.zip slots)),
      ("max_size", toJson (maxSizeOf leaves)),
      ("paddings", natsToJson (leaves.flatten.map (·.size))),
      ("counts", natsToJson (leaves.map List.length)),
      ("index_start", natsToJson (indexStarts (leaves.map List.length) 0)),
      ("flat_ok", Json.bool ((treeSlots pt b shapes).length == (leaves.map List.length).foldl (· + ·) 0))])),
  ("tf_plan", fun j => do
    let shape ← getNats j "shape"
    let b ← getNat j "block"
    let slots := tfSlots shape b
    pure (obj [("slots", listToJson slotJson slots),
               ("nblocks", toJson ((cart (shape.map fun d => tfPieces d b)).length)),
               ("block_sizes", natsToJson (shape.map fun d => min d b))])),
  ("tf_mask", fun j => do
    let ws ← asListOf (asListOf asRat) (← field j "ws")
    let eps ← getRat j "eps"
    let bj := fun (m : List (List Bool)) => listToJson (fun (r : List Bool) => Json.arr (r.map Json.bool).toArray) m
    pure (obj [("local", bj (batchedMask eps ws)), ("map_local", bj (ws.map (localMask eps))),
               ("shared", bj (sharedMask eps ws))])),
  ("newton_pad", fun j => do
    let ty ← getStr j "ty"
    let s ← getNat j "s"
    let N ← getNat j "N"
    let p ← getNat j "p"
    let fuel ← getNat j "fuel"
    let tries ← getNat j "tries"
    if ty == "rat" then
      let a ← getRats j "A"
      let ridge ← getRat j "ridge"
      let c : Cfg Rat := ⟨p, (p : Rat), ← getRat j "tol", ← getRat j "max_ratio", ← getRat j "retry_thr", fuel, tries, 10,
        fun x => (x + 1) / 2, fun x => x⟩
      pure (newtonPad ratToJson s N c ridge (matOfList s a))
    else
      let a ← getFloats j "A"
      let ridge ← asFloat (← field j "ridge")
      let c : Cfg Float := ⟨p, Float.ofNat p, ← asFloat (← field j "tol"), ← asFloat (← field j "max_ratio"),
        ← asFloat (← field j "retry_thr"), fuel, tries, 10.0, Float.sqrt, fun z => Float.pow z (1.0 / Float.ofNat p)⟩
      pure (newtonPad floatToJson s N c ridge (matOfList s a)))
]

end PrecondVerif.Drv.C08
