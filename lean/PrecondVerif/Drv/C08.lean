/- Driver operations for C08 (stub: to be filled by the property's model). -/
import PrecondVerif.Kit.Proto

namespace PrecondVerif.Drv.C08
open Lean PrecondVerif.Proto

def ops : List Op := []

end PrecondVerif.Drv.C08
