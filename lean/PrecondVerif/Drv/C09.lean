/- Driver operations for C09: the frequent-directions model (`Model/FD.lean`) at `Float`. Mathlib-free.

The SVD is an external kernel of the model (a parameter). The harness asks for the matrix the model hands to
the SVD (`*_b` ops), factors it with LAPACK in float64 and passes `U, s` back (`*_step` ops); every step op
re-computes the model's own `B`, evaluates the residuals of `SvdSpec B ⟨U, s⟩` (reconstruction of `B Bᵀ`,
orthogonality of `U`, order and sign of `s`) and returns them with the result, so a factorisation that does not
meet the specification the theorems assume is detected at run time.

  fd_b / fd_step            generic `fdB` / `stepO` + `invRoots` + `invTail`
  ds_b / ds_step            `dsB` / `dsFdUpdateRootG` (guards included; `dsFdUpdateRootO` evaluated next to it)
  ds_reload                 `publicReload` (pack, cut `p[:dim]`, re-pad, unpack: known finding K5)
  sketchy_b / sketchy_step  `sketchyB` / `sketchyUpdateAxisO`
  oco_b / oco_step          `ocoB` / `ocoFdUpdateO`
  fd_run                    `fdRunO` over a list of supplied SVD outputs (must equal the chained `fd_step`s)
-/
import PrecondVerif.Kit.Proto
import PrecondVerif.Model.FD

namespace PrecondVerif.Drv.C09
open Lean PrecondVerif.Proto PrecondVerif.FD

/-! ### codecs -/

def vecOfList (n : Nat) (l : List Float) : Vec Float n :=
  let a := l.toArray
  fun i => a.getD i.1 0.0

def listOfVec {n : Nat} (v : Vec Float n) : List Float := (List.finRange n).map v

def getVec (j : Json) (key : String) (n : Nat) : R (Vec Float n) := do
  let l ← asListOf asFloat (← field j key)
  if l.length ≠ n then throw s!"{key}: expected {n} entries, got {l.length}"
  pure (vecOfList n l)

def getMat (j : Json) (key : String) (m n : Nat) : R (Mat Float m n) := do
  let rows ← asListOf (asListOf asFloat) (← field j key)
  if rows.length ≠ m then throw s!"{key}: expected {m} rows, got {rows.length}"
  if rows.any (fun r => r.length ≠ n) then throw s!"{key}: expected rows of length {n}"
  let a := (rows.map fun r => r.toArray).toArray
  pure fun i j => (a.getD i.1 #[]).getD j.1 0.0

def vecJson {n : Nat} (v : Vec Float n) : Json := listToJson floatToJson (listOfVec v)
def matJson {m n : Nat} (A : Mat Float m n) : Json := listToJson (fun i => vecJson (A i)) (List.finRange m)

def getF (j : Json) (key : String) : R Float := do asFloat (← field j key)

def fmax (a b : Float) : Float := if a < b then b else if b < a then a else if a == a then a else b
def maxAbs (l : List Float) : Float := l.foldl (fun acc x => fmax acc x.abs) 0.0

def entries {m n : Nat} (A : Mat Float m n) : List Float :=
  (List.finRange m).flatMap fun i => (List.finRange n).map fun j => A i j

/-- `x ** (-1/p)` -/
def powNeg (p : Float) (x : Float) : Float := Float.pow x (-1.0 / p)

/-- residuals of `SvdSpec B o`: max-abs of `U diag(s²) Uᵀ − B Bᵀ`, of `U Uᵀ − 1`, of `Uᵀ U − 1`;
`s` non-negative and descending; and the scale `max|B Bᵀ|` -/
def svdResiduals {d n : Nat} (B : Mat Float d n) (o : SvdOut Float d) : Json :=
  let BBt := outer B
  let rec_ := maxAbs (entries fun i j : Fin d => (sumFin fun a => o.U i a * (o.s a * o.s a) * o.U j a) - BBt i j)
  let rows := maxAbs (entries fun i j : Fin d => (sumFin fun a => o.U i a * o.U j a) - (if i = j then 1.0 else 0.0))
  let cols := maxAbs (entries fun a b : Fin d => (sumFin fun i => o.U i a * o.U i b) - (if a = b then 1.0 else 0.0))
  let sl := listOfVec o.s
  let ordered := sl.all (fun x => decide (0.0 ≤ x)) && (sl.zip sl.tail).all (fun p => decide (p.2 ≤ p.1))
  obj [("recon", floatToJson rec_), ("u_rows", floatToJson rows), ("u_cols", floatToJson cols),
       ("ordered", Json.bool ordered), ("scale", floatToJson (maxAbs (entries BBt)))]

def getSvd (j : Json) (d : Nat) : R (SvdOut Float d) := do
  let U ← getMat j "U" d d
  let s ← getVec j "s" d
  pure { U := U, s := s }

def getState (j : Json) (d k : Nat) : R (State Float d k) := do
  let V ← getMat j "V" d k
  let l ← getVec j "l" k
  let t ← getF j "t"
  pure { V := V, l := l, t := t }

def stateFields {d k : Nat} (st : State Float d k) : List (String × Json) :=
  [("V", matJson st.V), ("l", vecJson st.l), ("t", floatToJson st.t), ("sketch", matJson (sketch st))]

/-! ### generic -/

def fdArgs (j : Json) : R (Σ d k m : Nat, Float × State Float d k × Mat Float d m) := do
  let d ← getNat j "d"
  let k ← getNat j "k"
  let m ← getNat j "m"
  let β ← getF j "beta"
  let st ← getState j d k
  let G ← getMat j "G" d m
  pure ⟨d, k, m, β, st, G⟩

/-! ### Distributed Shampoo -/

def dsArgs (j : Json) : R (Σ d k : Nat, DsCfg Float × State Float d k × Mat Float d d) := do
  let d ← getNat j "d"
  let k ← getNat j "k"
  let cfg : DsCfg Float :=
    { ridgeEps := ← getF j "ridge_epsilon", tol := ← getF j "error_tolerance",
      relative := ← getBool j "relative", β := ← getF j "beta", ps := ← getNat j "padding_start" }
  let st ← getState j d k
  let G ← getMat j "G" d d
  pure ⟨d, k, cfg, st, G⟩

/-! ### Sketchy -/

def skArgs (j : Json) : R (Σ d k m : Nat, Float × SkState Float d k × Mat Float d m) := do
  let d ← getNat j "d"
  let k ← getNat j "k"
  let m ← getNat j "m"
  let β ← getF j "beta"
  let V ← getMat j "V" d k
  let e ← getVec j "e" k
  let t ← getF j "t"
  let G ← getMat j "G" d m
  pure ⟨d, k, m, β, { V := V, e := e, t := t }, G⟩

/-! ### OCO -/

def ocoArgs (j : Json) : R (Σ k n : Nat, OcoState Float k n × Vec Float n) := do
  let ell ← getNat j "sketch_size"
  let n ← getNat j "n"
  if ell = 0 then throw "sketch_size must be positive"
  let k := ell - 1
  let P ← getMat j "P" (k + 1) n
  let e ← getVec j "e" (k + 1)
  let t ← getF j "t"
  let g ← getVec j "g" n
  pure ⟨k, n, { P := P, e := e, t := t }, g⟩

def ops : List Op := [
  ("fd_b", fun j => do
    let ⟨_, _, _, β, st, G⟩ ← fdArgs j
    pure (obj [("B", matJson (fdB Float.sqrt β st G))])),
  ("fd_step", fun j => do
    let ⟨d, k, _, β, st, G⟩ ← fdArgs j
    let o ← getSvd j d
    let p ← getF j "p"
    let eps ← getF j "eps"
    let B := (fdB Float.sqrt β st G)
    -- `fdStep` with the constant oracle `fun _ => o`
    let st' := fdStep (fun _ => o) Float.sqrt β st G
    pure (obj (stateFields st' ++ [
      ("rho", floatToJson (rho k o)), ("cutoff", floatToJson (cutoff k o)),
      ("kept", listToJson (fun a => Json.bool (kept k o a)) (List.finRange k)),
      ("inv", vecJson (invRoots k (powNeg p) eps β st.t o)),
      ("inv_tail", floatToJson (invTail (powNeg p) eps st'.t)),
      ("svd", svdResiduals B o)]))),
  ("fd_run", fun j => do
    let d ← getNat j "d"
    let k ← getNat j "k"
    let β ← getF j "beta"
    let st ← getState j d k
    let os ← (← asList (← field j "svds")).mapM fun x => getSvd x d
    pure (obj (stateFields (fdRunO β st os)))),
  ("ds_b", fun j => do
    let ⟨_, _, cfg, st, G⟩ ← dsArgs j
    pure (obj [("B", matJson (dsB Float.sqrt cfg st G)), ("ridge", floatToJson (dsRidge cfg st.l))])),
  ("ds_step", fun j => do
    let ⟨d, k, cfg, st, G⟩ ← dsArgs j
    let o ← getSvd j d
    let p ← getF j "p"
    let g : Guards Float := { lo := ← getF j "g_lo", hi := ← getF j "g_hi", thr := ← getF j "g_thr" }
    let B := (dsB Float.sqrt cfg st G)
    -- the code-shaped step WITH its guards; the unguarded one is evaluated next to it (they are equal under
    -- `SvdSpec` by `ds_guards_are_identities`; at Float the renormalisation may move the last bit)
    let out := dsFdUpdateRootG Float.sqrt (powNeg p) g cfg st o
    let ung := dsFdUpdateRoot (fun _ => o) Float.sqrt (powNeg p) cfg st G
    let gd := maxAbs ((entries fun i a => out.st.V i a - ung.st.V i a) ++
      (listOfVec fun a => out.st.l a - ung.st.l a) ++ (listOfVec fun a => out.inverted a - ung.inverted a))
    pure (obj (stateFields out.st ++ [
      ("rho", floatToJson (rho k o)), ("inv", vecJson out.inverted), ("const", floatToJson out.const),
      ("has_zeros", Json.bool out.hasZeros), ("ridge", floatToJson (dsRidge cfg st.l)),
      ("guard_diff", floatToJson gd), ("guard_flags_equal", Json.bool (out.hasZeros == ung.hasZeros)),
      ("svd", svdResiduals B o)]))),
  ("ds_reload", fun j => do
    let D ← getNat j "d"
    let k ← getNat j "k"
    let dim ← getNat j "dim"
    let st ← getState j D k
    let inv ← getVec j "inv" k
    let c ← getF j "const"
    let f ← getF j "flag"
    let r := publicReload dim st inv c f
    pure (obj [("V", matJson r.V), ("l", vecJson r.l), ("t", floatToJson r.t)])),
  ("sketchy_b", fun j => do
    let ⟨_, _, _, β, st, G⟩ ← skArgs j
    pure (obj [("B", matJson (sketchyB Float.sqrt β st G))])),
  ("sketchy_step", fun j => do
    let ⟨d, k, _, β, st, G⟩ ← skArgs j
    let o ← getSvd j d
    let p ← getF j "p"
    let epsilon ← getF j "epsilon"
    let relative ← getBool j "relative"
    let B := (sketchyB Float.sqrt β st G)
    let out := sketchyUpdateAxis (fun _ => o) Float.sqrt (powNeg p) epsilon relative β st G
    pure (obj (stateFields out.st.denote ++ [
      ("e", vecJson out.st.e), ("rho", floatToJson (relu (cutoff k o) * relu (cutoff k o))),
      ("inv", vecJson out.invEig), ("inv_tail", floatToJson out.invTail), ("eps", floatToJson out.eps),
      ("svd", svdResiduals B o)]))),
  ("oco_b", fun j => do
    let ⟨_, _, st, g⟩ ← ocoArgs j
    pure (obj [("B", matJson (ocoB st g))])),
  ("oco_step", fun j => do
    let ⟨k, n, st, g⟩ ← ocoArgs j
    let o ← getSvd j n
    let B := (ocoB st g)
    let st' := ocoFdUpdateO Float.sqrt st o
    pure (obj (stateFields st'.denote ++ [
      ("P", matJson st'.P), ("e", vecJson st'.e), ("rho", floatToJson (rho k o)),
      ("svd", svdResiduals B o)])))
]

end PrecondVerif.Drv.C09
