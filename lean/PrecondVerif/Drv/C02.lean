/- Driver operations for C02 (stub: to be filled by the property's model). -/
import PrecondVerif.Kit.Proto

namespace PrecondVerif.Drv.C02
open Lean PrecondVerif.Proto

def ops : List Op := []

end PrecondVerif.Drv.C02
