/-
Driver operations for C02 (Distributed Shampoo update = documented blocked-Shampoo math): `Model/DShampoo.lean`
executed on the implementation's own state, one parameter and one `update` call at a time (factored comparison).

* `step` (binary64): the statistics half (`specStats` and `lowStats`) and the update half (`specPrecondGrad` /
  `lowPrecondGradC` — stored preconditioners, dense or packed —, `specUpdate` on the denoted matrices / `lowUpdateC`) of one call, from the stored statistics, the preconditioners
  the update is computed with, the first-order state, the gradient and the parameter. Tensors cross as float32 bit
  patterns (widened exactly), configuration scalars as binary64 bit patterns. Policy TOL.
* `stats` (exact rationals with a "representable in float32" flag on every intermediate): the statistics half
  only. On flagged entries the float32 implementation performs no rounding at all — policy EXACT-DYADIC.
* `geom`: transformed shape, block count, preconditioned axes, exponent, slot lists, skip predicate (EXACT).
Mathlib-free.
-/
import PrecondVerif.Kit.Proto
import PrecondVerif.Model.DShampoo

namespace PrecondVerif.Drv.C02
open Lean PrecondVerif.Proto PrecondVerif.Shapes PrecondVerif.Graft PrecondVerif.DShampoo

/-! ### exact rationals flagged "every intermediate so far is a float32 value" -/

def f32ToRat (bits : Nat) : R Rat :=
  let neg : Bool := bits / 2 ^ 31 % 2 == 1
  let e : Nat := bits / 2 ^ 23 % 256
  let m : Nat := bits % 2 ^ 23
  if e = 255 then .error "non-finite float32 in input" else
  let mant : Nat := if e = 0 then m else m + 2 ^ 23
  let ex : Int := if e = 0 then -149 else (e : Int) - 150
  let mag : Rat := (mant : Rat) * (2 : Rat) ^ ex
  .ok (if neg then -mag else mag)

/-- strip factors of two -/
def oddPart : Nat → Nat → Nat
  | 0, n => n
  | fuel + 1, n => if n != 0 && n % 2 == 0 then oddPart fuel (n / 2) else n

/-- `q` is exactly a float32 value of moderate exponent (24-bit significand, |exponent| ≤ 100) -/
def isF32 (q : Rat) : Bool :=
  if q = 0 then true else
  let n := q.num.natAbs
  let d := q.den
  let lo : Rat := (2 : Rat) ^ (-100 : Int)
  let hi : Rat := (2 : Rat) ^ (100 : Int)
  let a : Rat := if q < 0 then -q else q
  oddPart 400 d == 1 && oddPart 400 n < 2 ^ 24 && decide (lo ≤ a) && decide (a ≤ hi)

structure TQ where
  v : Rat
  ok : Bool

namespace TQ
def mk' (v : Rat) (ok : Bool) : TQ := ⟨v, ok && isF32 v⟩
instance : Add TQ := ⟨fun a b => mk' (a.v + b.v) (a.ok && b.ok)⟩
instance : Sub TQ := ⟨fun a b => mk' (a.v - b.v) (a.ok && b.ok)⟩
instance : Mul TQ := ⟨fun a b => mk' (a.v * b.v) (a.ok && b.ok)⟩
instance : BEq TQ := ⟨fun a b => a.v == b.v⟩
instance : OfNat TQ 0 := ⟨⟨0, true⟩⟩
instance : OfNat TQ 1 := ⟨⟨1, true⟩⟩
instance : Inhabited TQ := ⟨⟨0, true⟩⟩
end TQ

/-! ### decoding -/

def ptypeOfString : String → R PType
  | "ALL" => pure .all
  | "INPUT" => pure .input
  | "OUTPUT" => pure .output
  | s => throw s!"unknown preconditioner type {s}"

def graftOfString : String → R GraftType
  | "NONE" => pure .none
  | "SGD" => pure .sgd
  | "ADAGRAD" => pure .adagrad
  | "RMSPROP" => pure .rmsprop
  | "RMSPROP_NORMALIZED" => pure .rmspropNormalized
  | "SQRT_N" => pure .sqrtN
  | "ADAGRAD_NORMALIZED" => pure .adagradNormalized
  | s => throw s!"unknown graft type {s}"

def getGeom (j : Json) : R Geom := do
  pure { shape := ← getNats j "shape", block := ← getNat j "block", mergeBlock := ← getNat j "merge_block",
         bestEffort := ← getBool j "best_effort", ptype := ← ptypeOfString (← getStr j "ptype") }

def f32Datum (j : Json) : R Float := do pure (← asFloat32 j).toFloat

def tqDatum (j : Json) : R TQ := do
  let v ← f32ToRat (← parseHex (← asStr j))
  pure ⟨v, true⟩

/-- a flat row-major `d × d` matrix as an index function over an array -/
def mxOfArray {α : Type} (zero : α) (d : Nat) (a : Array α) : Mx α := fun i j =>
  if i < d ∧ j < d then a.getD (i * d + j) zero else zero

def getMats {α : Type} (zero : α) (datum : Json → R α) (j : Json) (k : String) : R (List (Mx α)) := do
  let ms ← asList (← field j k)
  ms.mapM fun m => do
    let l ← asListOf datum m
    let d := Nat.sqrt l.length
    if d * d ≠ l.length then throw s!"{k}: a matrix is not square" else
    pure (mxOfArray zero d l.toArray)

/-- a rectangular row-major `d × c` matrix as an index function -/
def mxOfArrayRect {α : Type} (zero : α) (d c : Nat) (a : Array α) : Mx α := fun i j =>
  if i < d ∧ j < c then a.getD (i * c + j) zero else zero

/-- stored preconditioners: a flat list is a square matrix; `{"rows": d, "cols": r+2, "data": [...]}` a packed one -/
def getStored (j : Json) (k : String) : R (List (Stored Float)) := do
  let ms ← asList (← field j k)
  ms.mapM fun m => do
    match m with
    | .arr _ => do
        let l ← asListOf f32Datum m
        let d := Nat.sqrt l.length
        if d * d ≠ l.length then throw s!"{k}: a matrix is not square" else
        pure (Stored.dense (mxOfArray 0 d l.toArray))
    | _ => do
        let d ← getNat m "rows"
        let c ← getNat m "cols"
        let l ← asListOf f32Datum (← field m "data")
        if d * c ≠ l.length ∨ c < 3 ∨ d ≤ c then throw s!"{k}: bad packed matrix" else
        pure (Stored.packed d (c - 2) (mxOfArrayRect 0 d c l.toArray))

/-- dimension of slot `s`: the extent of the block along its preconditioned axis -/
def slotDim {α : Type} (blocks : List (Tensor α)) (pdims : List Nat) (s : Nat) : Nat :=
  match blocks[s / pdims.length]? with
  | some b => b.shape.getD (pdims.getD (s % pdims.length) 0) 0
  | none => 0

def mxFlat {α : Type} (d : Nat) (m : Mx α) : List α :=
  (List.range d).flatMap fun i => (List.range d).map fun j => m i j

def matsJson {α : Type} (out : α → Json) (blocks : List (Tensor α)) (pdims : List Nat) (ms : List (Mx α)) : Json :=
  listToJson (fun (p : Mx α × Nat) => listToJson out (mxFlat (slotDim blocks pdims p.2) p.1)) ms.zipIdx

def optNatsJson (l : List (Option Nat)) : Json :=
  Json.arr (l.map fun o => match o with | some n => toJson n | none => Json.null).toArray

/-! ### ops -/

def geomOp (j : Json) : R Json := do
  let G ← getGeom j
  let override ← getNat j "override"
  let nb := (G.blocks (α := Float) []).length
  pure (obj [
    ("tshape", natsToJson G.tshape), ("rank", toJson G.rank), ("k", toJson G.k), ("pdims", natsToJson G.pdims),
    ("nblocks", toJson nb), ("exponent", toJson (G.exponent override)),
    ("skip", Json.bool (dsSkip (← getNat j "rank_lt") (← getNat j "dim_gt") G.shape)),
    ("block_shapes", listToJson (fun (t : Tensor Float) => natsToJson t.shape) (G.blocks (α := Float) [])),
    ("slots_spec", listToJson optNatsJson ((List.range nb).map (specSlots G.ptype G.rank))),
    ("slots_low", listToJson optNatsJson ((List.range nb).map (lowSlots G.ptype G.rank)))])

/-- the statistics half at exact rationals -/
def statsExactOp (j : Json) : R Json := do
  let G ← getGeom j
  let β2 : TQ := ⟨← asRat (← field j "beta2"), true⟩
  let g ← asListOf tqDatum (← field j "g")
  let stats ← getMats (0 : TQ) tqDatum j "stats"
  let si ← getNat j "si"
  let step ← getNat j "step"
  let bl := G.blocks g
  let sp := specStats G (statW1 β2) (statW2 β2) si step stats g
  let lo := lowStats G (statW1 β2) (statW2 β2) si step stats g
  let vj := matsJson (fun (x : TQ) => ratToJson x.v) bl G.pdims
  let oj := matsJson (fun (x : TQ) => Json.bool x.ok) bl G.pdims
  pure (obj [("stats_spec", vj sp), ("stats_low", vj lo), ("ok", oj sp), ("n_spec", toJson sp.length),
             ("n_low", toJson lo.length)])

def optVec (l : Option (List Float)) : Json :=
  match l with
  | some v => listToJson floatToJson v
  | none => Json.null

def stepOp (j : Json) : R Json := do
  let G ← getGeom j
  let sc := fun (k : String) => do asFloat (← field j k)
  let clip : Option Float ← match j.getObjVal? "clip" with
    | .ok .null => pure none
    | .ok v => do pure (some (← asFloat v))
    | .error _ => pure none
  let cfg : DSConfig Float := {
    graftType := ← graftOfString (← getStr j "graft")
    beta2 := ← sc "beta2"
    diagEps := ← sc "diag_eps"
    eps := ← sc "eps"
    lr := ← sc "lr"
    decoupledLr := ← getBool j "dlr"
    clip := clip
    start := ← getNat j "start" }
  let h : Hyper Float := {
    g := cfg
    beta1 := ← sc "beta1"
    wd := ← sc "wd"
    decoupledWd := ← getBool j "dwd"
    nesterov := ← getBool j "nesterov"
    movingAvg := ← getBool j "mavg" }
  let step ← getNat j "step"
  let si ← getNat j "si"
  let skip := dsSkip (← getNat j "rank_lt") (← getNat j "dim_gt") G.shape
  let g ← asListOf f32Datum (← field j "g")
  let param ← asListOf f32Datum (← field j "param")
  let stats ← getMats (0 : Float) f32Datum j "stats"
  let beforeS ← getStored j "preconds_before"
  let afterS ← getStored j "preconds_after"
  let before := beforeS.map denoteStored
  let after := afterS.map denoteStored
  let sharded ← getBool j "sharded"
  let st : PState Float := {
    diag := ← asListOf f32Datum (← field j "diag")
    dmom := ← asListOf f32Datum (← field j "dmom")
    mom := ← asListOf f32Datum (← field j "mom") }
  let bl := G.blocks g
  let w1 := statW1 cfg.beta2
  let w2 := statW2 cfg.beta2
  let (sp, lo) := if skip then (stats, stats) else
    (specStats G w1 w2 si step stats g, lowStats G w1 w2 si step stats g)
  let used := usedPreconds sharded before after
  let pgS : Option (List Float) := if skip then some g else specPrecondGrad G used g
  let pgL : Option (List Float) := if skip then some g else lowPrecondGradC G (usedPreconds sharded beforeS afterS) g
  let oS := specUpdate Float.sqrt Float.ofNat sharded G h step skip g param st before after
  let oL := lowUpdateC Float.sqrt Float.ofNat sharded G h step skip g param st beforeS afterS
  let vec := fun (l : List Float) => listToJson floatToJson l
  let outJ := fun (o : Option (TOut Float)) => match o with
    | some o => obj [("upd", vec o.upd), ("diag", vec o.st.diag), ("dmom", vec o.st.dmom), ("mom", vec o.st.mom),
                     ("shampoo", vec o.shampoo)]
    | none => Json.null
  pure (obj [
    ("skip", Json.bool skip),
    ("stats_spec", matsJson floatToJson bl G.pdims sp), ("stats_low", matsJson floatToJson bl G.pdims lo),
    ("pg_spec", optVec pgS), ("pg_low", optVec pgL), ("spec", outJ oS), ("low", outJ oL)])

def ops : List Op := [
  ("geom", geomOp),
  ("stats", statsExactOp),
  ("step", stepOp)
]

end PrecondVerif.Drv.C02
