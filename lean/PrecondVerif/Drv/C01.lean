/- Driver operations for C01 (stub: to be filled by the property's model). -/
import PrecondVerif.Kit.Proto

namespace PrecondVerif.Drv.C01
open Lean PrecondVerif.Proto

def ops : List Op := []

end PrecondVerif.Drv.C01
