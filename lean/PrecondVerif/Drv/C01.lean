/- Driver operations for C01: the inverse p-th root model (`Model/InvRoot.lean`) at `Rat` and `Float`. Mathlib-free.

* `mat_power`   — `matPower` at `Rat` (exact) on an integer/rational matrix.
* `newton`      — `powerIteration` + `newtonRoot` (or `oneByOne` for `n = 1`) at `Float`; constants come from the
                  request (parsed from the source by the harness); kernels: `Float.sqrt`, `Float.pow`, float32 round trip.
* `newton_rat`  — `newtonOuter` at `Rat` with constant oracles for the two irrational kernels (`fro ↦ fro'`,
                  `rootp ↦ r` with `r^p = z`): an executed instance of `newton_invariant` / `newton_error_honest`;
                  returns `X`, the error figure, retries and the exact residual `max|X^p A_d − I_s|`.
* `eigh_root`   — `eighRoot` at `Float`, `(U, e)` supplied by the caller (kernel output), with the residuals of the
                  `eigh` specification for the supplied factors.
* `deflate`     — `lobpcgDeflate` / `lobpcgRedeflate` at `Float`.
-/
import PrecondVerif.Kit.Proto
import PrecondVerif.Model.InvRoot

namespace PrecondVerif.Drv.C01
open Lean PrecondVerif.Proto PrecondVerif.InvRoot

instance : Zero Float := ⟨0.0⟩
instance : One Float := ⟨1.0⟩

structure Codec (α : Type) where
  dec : Json → R α
  enc : α → Json

def ratC : Codec Rat := ⟨asRat, ratToJson⟩
def fltC : Codec Float := ⟨asFloat, floatToJson⟩

/-- flat row-major list → matrix -/
def getMat {α : Type} [Zero α] (c : Codec α) (j : Json) (key : String) (m n : Nat) : R (Mat α m n) := do
  let l ← asListOf c.dec (← field j key)
  if l.length ≠ m * n then throw s!"{key}: expected {m * n} entries, got {l.length}"
  let a := l.toArray
  pure fun i k => a.getD (i.1 * n + k.1) 0

def getVec {α : Type} [Zero α] (c : Codec α) (j : Json) (key : String) (n : Nat) : R (Vec α n) := do
  let l ← asListOf c.dec (← field j key)
  if l.length ≠ n then throw s!"{key}: expected {n} entries, got {l.length}"
  let a := l.toArray
  pure fun i => a.getD i.1 0

def matJson {α : Type} {m n : Nat} (c : Codec α) (A : Mat α m n) : Json :=
  listToJson c.enc ((List.finRange m).flatMap fun i => (List.finRange n).map fun k => A i k)

def vecJson {α : Type} {n : Nat} (c : Codec α) (v : Vec α n) : Json := listToJson c.enc ((List.finRange n).map v)

def getF (j : Json) (k : String) : R Float := do asFloat (← field j k)

/-- `x.astype(float32)` seen again as a double -/
def cast32 (x : Float) : Float := x.toFloat32.toFloat

def getConsts (j : Json) : R (NConsts Float) := do
  pure { numIters := ← getNat j "num_iters", tol := ← getF j "tol", rmax := ← getF j "rmax",
         retryThr := ← getF j "retry_thr", numTries := ← getNat j "num_tries" }

def newtonOp (j : Json) : R Json := do
  let n ← getNat j "n"
  let s ← getNat j "s"
  let p ← getNat j "p"
  if p = 0 then throw "p must be positive"
  let eps ← getF j "eps"
  let rel ← getBool j "rel"
  let A ← getMat fltC j "A" n n
  let v0 ← getVec fltC j "v0" n
  let c ← getConsts j
  let floor ← getF j "eps_floor"
  let piIters ← getNat j "pi_iters"
  let piTol ← getF j "pi_tol"
  let pα := Float.ofNat p
  let alpha := -1.0 / pα
  let maxEv : Float := if rel then powerIteration Float.sqrt piTol piIters (Mat.mask s A) v0 else 1.0
  if h : n = 1 then
    -- the `matrix_size == 1` branch (total_retries = 1, iters = 0, error_ratio = 0)
    let a := (Mat.mask s A) ⟨0, by omega⟩ ⟨0, by omega⟩
    let (x, err) := oneByOne p (fun y => Float.pow y alpha) cast32 a (ridgeOf eps maxEv floor)
    let x := if s = 0 then 0.0 else x
    let err := if s = 0 then 0.0 else err
    pure (obj [("x", listToJson floatToJson [x]), ("err", floatToJson err), ("iters", toJson (0 : Nat)),
               ("ratio", floatToJson 0.0), ("max_ev", floatToJson maxEv), ("retries", toJson (1 : Nat))])
  else
    let o := newtonRoot s c p pα alpha Float.sqrt (fun z => Float.pow z (1.0 / pα)) cast32 1000.0 floor eps maxEv A
    pure (obj [("x", matJson fltC o.x), ("err", floatToJson o.err), ("iters", toJson o.iters),
               ("ratio", floatToJson o.ratio), ("max_ev", floatToJson o.maxEv), ("retries", toJson o.retries)])

def ratAbs (q : Rat) : Rat := if q < 0 then -q else q

/-- exact Newton run: `fro` and `rootp` are constant oracles (`z = r^p`, `fro' = (1+p)/(2z)`), everything else is the model -/
def newtonRatOp (j : Json) : R Json := do
  let n ← getNat j "n"
  let s ← getNat j "s"
  let p ← getNat j "p"
  if p = 0 then throw "p must be positive"
  let ridge ← getRat j "ridge"
  let A ← getMat ratC j "A" n n
  let rs ← getRats j "r"          -- one oracle value per try: r_i with z_i = r_i^p
  let numIters ← getNat j "num_iters"
  let c : NConsts Rat := { numIters := numIters, tol := ← getRat j "tol", rmax := ← getRat j "rmax",
                           retryThr := ← getRat j "retry_thr", numTries := ← getNat j "num_tries" }
  let pα : Rat := (p : Rat)
  let alpha : Rat := -1 / pα
  let ra := rs.toArray
  -- per-try oracles are looked up through the ridge multiplier of the try; the model itself is unchanged
  let body (i : Nat) : OState (DMat Rat n) Rat :=
    let r := ra.getD i 1
    let z := natPow r p
    let fro' := (1 + pα) / (2 * z)
    let K := matAlg n s (fun _ => fro')
    outerBody K c p pα alpha (fun _ => r) (fun x => x) (DMat.tab (Mat.mask s A)) ridge i
  let K0 := matAlg (α := Rat) n s (fun x => x)
  let o := outerLoop body c.numTries c.numTries (outerInit K0 1000)
  -- exact residual of the returned root against the ridge of the last try
  let Ad := damped K0 (DMat.tab (Mat.mask s A)) ridge (o.tries - 1)
  let resid := K0.dist (K0.mul (matPower K0.mul K0.one o.x p) Ad)
  pure (obj [("x", matJson ratC o.x.fn), ("err", ratToJson o.err), ("iters", toJson o.iters), ("ratio", ratToJson o.ratio),
             ("retries", toJson o.tries), ("resid", ratToJson resid), ("honest", Json.bool (decide (resid ≤ o.err)))])

def fmax (a b : Float) : Float := if a < b then b else a

def eighOp (j : Json) : R Json := do
  let n ← getNat j "n"
  let s ← getNat j "s"
  let p ← getNat j "p"
  if p = 0 then throw "p must be positive"
  let ridge ← getF j "ridge"
  let A ← getMat fltC j "A" n n
  let U ← getMat fltC j "U" n n
  let e ← getVec fltC j "e" n
  let alpha := -1.0 / Float.ofNat p
  let (x, err) := eighRoot s Float.sqrt (fun y => Float.pow y alpha) ridge A U e
  -- residuals of the kernel specification for the supplied factors
  let R := regularized s A ridge
  let uo := Mat.maxAbs (Mat.sub (Mat.mul (Mat.transpose U) U) (Mat.one : Mat Float n n))
  let rec_ := Mat.maxAbs (Mat.sub (Mat.mul (Mat.mul U (fun i k => if i = k then e i else 0.0 : Mat Float n n)) (Mat.transpose U)) R)
  pure (obj [("x", matJson fltC x), ("err", floatToJson err), ("spec_ortho", floatToJson uo), ("spec_recon", floatToJson rec_),
             ("r_scale", floatToJson (Mat.maxAbs R))])

def ops : List Op := [
  ("mat_power", fun j => do
    let n ← getNat j "n"
    let p ← getNat j "p"
    let A ← getMat ratC j "A" n n
    let K := matAlg (α := Rat) n n (fun x => x)
    pure (obj [("x", matJson ratC (matPower K.mul K.one (DMat.tab A) p).fn)])),
  ("newton", newtonOp),
  ("newton_rat", newtonRatOp),
  ("eigh_root", eighOp),
  ("deflate", fun j => do
    let n ← getNat j "n"
    let k ← getNat j "k"
    let A ← getMat fltC j "A" n n
    let V ← getMat fltC j "V" n k
    let w ← getVec fltC j "w" k
    let wmin ← getF j "wmin"
    let X ← getMat fltC j "X" n n
    let pd ← getVec fltC j "pth_diff" k
    pure (obj [("deflated", matJson fltC (lobpcgDeflate Float.sqrt A V w wmin)),
               ("redeflated", matJson fltC (lobpcgRedeflate Float.sqrt X V pd))]))
]

end PrecondVerif.Drv.C01
