/- Driver operations for C17 (memory reallocation).  Mathlib-free.

Request:  {"op": "redist_f64" | "redist_f32" | "redist_rat", "rank": k,
           "variant": "new" (current code) | "running" (before b9b95e4) | "old" (before 1e4f52c),
           "axes": [[key, dim, score], ...]}      (keys are integers; axes in the implementation's iteration order;
                                                   score: hex bit pattern (f64 / f32) or "p/q")
Reply:    {"ok": [[dim, [[key, rank], ...]], ...]}   (groups in dict order, members in sorted order)
       or {"err": "baseRank" | "rankExceedsDim" | "overBudget", "detail": [a, b]}
-/
import PrecondVerif.Kit.Proto
import PrecondVerif.Model.Realloc

namespace PrecondVerif.Drv.C17
open Lean PrecondVerif.Proto PrecondVerif.Realloc

def parseAxis {α} (score : Json → R α) (j : Json) : R (Nat × Nat × α) := do
  match (← asList j) with
  | [k, d, s] => pure ((← asNat k), (← asNat d), (← score s))
  | _ => .error "axis must be [key, dim, score]"

def resultJson : Except Err (List (Nat × List (Nat × Int))) → Json
  | .ok gs => obj [("ok", listToJson (fun (g : Nat × List (Nat × Int)) =>
      Json.arr #[toJson g.1, listToJson (fun (p : Nat × Int) => Json.arr #[toJson p.1, toJson p.2]) g.2]) gs)]
  | .error (.baseRank a b) => obj [("err", Json.str "baseRank"), ("detail", intsToJson [a, b])]
  | .error (.rankExceedsDim a b) => obj [("err", Json.str "rankExceedsDim"), ("detail", intsToJson [a, b])]
  | .error (.overBudget a b) => obj [("err", Json.str "overBudget"), ("detail", intsToJson [a, b])]

def redistOp {α} (score : Json → R α)
    (new old running : Int → List (Nat × Nat × α) → Except Err (List (Nat × List (Nat × Int))))
    (j : Json) : R Json := do
  let k ← getInt j "rank"
  let axes ← asListOf (parseAxis score) (← field j "axes")
  let variant := match fieldD j "variant" (Json.str "new") with
    | .str s => s
    | _ => "new"
  if variant == "old" then pure (resultJson (old k axes))
  else if variant == "running" then pure (resultJson (running k axes))
  else pure (resultJson (new k axes))

def ops : List Op := [
  ("redist_f64", redistOp asFloat createRedistFloat createRedistOldFloat createRedistRunningFloat),
  ("redist_f32", redistOp asFloat32 createRedistFloat32 createRedistOldFloat32 createRedistRunningFloat32),
  ("redist_rat", redistOp asRat createRedistRat createRedistOldRat createRedistRunningRat)
]

end PrecondVerif.Drv.C17
