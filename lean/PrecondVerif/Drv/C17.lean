/- Driver operations for C17 (stub: to be filled by the property's model). -/
import PrecondVerif.Kit.Proto

namespace PrecondVerif.Drv.C17
open Lean PrecondVerif.Proto

def ops : List Op := []

end PrecondVerif.Drv.C17
