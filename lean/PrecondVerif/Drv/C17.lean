/- Driver operations for C17 (memory reallocation).  Mathlib-free.

Request:  {"op": "redist_f64" | "redist_f32" | "redist_rat", "rank": k,
           "variant": "new" (current code) | "running" (before b9b95e4) | "old" (before 1e4f52c),
           "axes": [[key, dim, score], ...]}      (keys are integers; axes in the implementation's iteration order;
                                                   score: hex bit pattern (f64 / f32) or "p/q")
Reply:    {"ok": [[dim, [[key, rank], ...]], ...]}   (groups in dict order, members in sorted order)
       or {"err": "baseRank" | "rankExceedsDim" | "overBudget", "detail": [a, b]}

Whole pipeline (extension: traversal + scoring + allocation + returned dict), `Model/ReallocState.lean`:
Request:  {"op": "pipe_f64" | "pipe_rat", "rule": "<rule name>", "avg": bool, "recip": bool, "rank": k,
           "states": [tree, ...], "order": [[component, ...], ...]}
          tree: JSON object = dict; a JSON array is a leaf: ["s", x] scalar, ["v", [x..]] vector,
          ["m", [[x..]..], norm2] matrix + value of norm(., 2), ["shape", [d..]], ["i", n] int, ["o"] anything else
Reply:    {"num_axes": n, "axes": [[name, dim, score], ...] (in `order`), "ranks": [[dim, [[name, rank], ...]], ...],
           "flat": [[dir, row], ...], "dict": nested object with the rows}
       or {"err": tag, "detail": ...}
-/
import PrecondVerif.Kit.Proto
import PrecondVerif.Model.Realloc
import PrecondVerif.Model.ReallocState

namespace PrecondVerif.Drv.C17
open Lean PrecondVerif.Proto PrecondVerif.Realloc

def parseAxis {α} (score : Json → R α) (j : Json) : R (Nat × Nat × α) := do
  match (← asList j) with
  | [k, d, s] => pure ((← asNat k), (← asNat d), (← score s))
  | _ => .error "axis must be [key, dim, score]"

def resultJson : Except Err (List (Nat × List (Nat × Int))) → Json
  | .ok gs => obj [("ok", listToJson (fun (g : Nat × List (Nat × Int)) =>
      Json.arr #[toJson g.1, listToJson (fun (p : Nat × Int) => Json.arr #[toJson p.1, toJson p.2]) g.2]) gs)]
  | .error (.baseRank a b) => obj [("err", Json.str "baseRank"), ("detail", intsToJson [a, b])]
  | .error (.rankExceedsDim a b) => obj [("err", Json.str "rankExceedsDim"), ("detail", intsToJson [a, b])]
  | .error (.overBudget a b) => obj [("err", Json.str "overBudget"), ("detail", intsToJson [a, b])]

def redistOp {α} (score : Json → R α)
    (new old running : Int → List (Nat × Nat × α) → Except Err (List (Nat × List (Nat × Int))))
    (j : Json) : R Json := do
  let k ← getInt j "rank"
  let axes ← asListOf (parseAxis score) (← field j "axes")
  let variant := match fieldD j "variant" (Json.str "new") with
    | .str s => s
    | _ => "new"
  if variant == "old" then pure (resultJson (old k axes))
  else if variant == "running" then pure (resultJson (running k axes))
  else pure (resultJson (new k axes))

/-! ### whole pipeline -/

def parseLeafOrTree {α} (num : Json → R α) : Nat → Json → R (Tree α)
  | 0, _ => .error "tree too deep"
  | fuel + 1, j =>
    match j with
    | .obj kvs => do
      let items ← kvs.toList.mapM (fun (kv : String × Json) => do
        let t ← parseLeafOrTree num fuel kv.2
        pure (kv.1, t))
      pure (.dict items)
    | .arr a =>
      match a.toList with
      | [.str "s", x] => do pure (.leaf (.scalar (← num x)))
      | [.str "v", xs] => do pure (.leaf (.vec (← asListOf num xs)))
      | [.str "m", rows, n] => do pure (.leaf (.mat (← asListOf (asListOf num) rows) (← num n)))
      | [.str "shape", ds] => do pure (.leaf (.shape (← asListOf asNat ds)))
      | [.str "i", n] => do pure (.leaf (.int (← asNat n)))
      | _ => pure (.leaf .other)
    | _ => pure (.leaf .other)

def parseRule (s : String) : R Rule :=
  match s with
  | "ggt_intrinsic_rank" => pure .ggtIntrinsicRank
  | "ggt_trace" => pure .ggtTrace
  | "tail_rho" => pure .tailRho
  | "sketch_intrinsic_rank" => pure .sketchIntrinsicRank
  | "sketch_trace" => pure .sketchTrace
  | _ => .error s!"unknown rule {s}"

def pathJson (p : Path) : Json := listToJson Json.str p

partial def rtreeJson : RTree → Json
  | .row r => intsToJson r
  | .node items => Json.mkObj (items.map fun kv => (kv.1, rtreeJson kv.2))

def terrJson : TErr → Json
  | .noStates => obj [("err", "noStates")]
  | .noSketches => obj [("err", "noSketches")]
  | .shortName n => obj [("err", "shortName"), ("detail", pathJson n)]
  | .badAxisId n => obj [("err", "badAxisId"), ("detail", pathJson n)]
  | .missing n k => obj [("err", "missing"), ("detail", pathJson n), ("key", Json.str k)]
  | .badLeaf n k => obj [("err", "badLeaf"), ("detail", pathJson n), ("key", Json.str k)]
  | .noLayerDir n => obj [("err", "noLayerDir"), ("detail", pathJson n)]
  | .slotOutOfRange n k => obj [("err", "slotOutOfRange"), ("detail", pathJson n), ("num_axes", toJson k)]
  | .collision d => obj [("err", "collision"), ("detail", pathJson d)]
  | .badOrder => obj [("err", "badOrder")]
  | .assertion (.baseRank a b) => obj [("err", "baseRank"), ("detail", intsToJson [a, b])]
  | .assertion (.rankExceedsDim a b) => obj [("err", "rankExceedsDim"), ("detail", intsToJson [a, b])]
  | .assertion (.overBudget a b) => obj [("err", "overBudget"), ("detail", intsToJson [a, b])]

def pipeJson {α} (num : α → Json) : Except TErr (PipelineOut α) → Json
  | .error e => terrJson e
  | .ok o => obj [
      ("num_axes", toJson o.numAxes),
      ("axes", listToJson (fun (a : Path × Nat × α) => Json.arr #[pathJson a.1, toJson a.2.1, num a.2.2]) o.axes),
      ("ranks", listToJson (fun (g : Nat × List (Path × Int)) =>
        Json.arr #[toJson g.1, listToJson (fun (p : Path × Int) => Json.arr #[pathJson p.1, toJson p.2]) g.2]) o.ranks),
      ("flat", listToJson (fun (e : Path × List Int) => Json.arr #[pathJson e.1, intsToJson e.2]) o.map),
      ("dict", rtreeJson (render o.map))]

def pipeOp {α} (num : Json → R α) (out : α → Json)
    (run : Bool → Rule → Bool → Int → List (Tree α) → List Path → Except TErr (PipelineOut α))
    (j : Json) : R Json := do
  let rule ← parseRule (← getStr j "rule")
  let avg ← getBool j "avg"
  let recip ← getBool j "recip"
  let k ← getInt j "rank"
  let states ← asListOf (parseLeafOrTree num 64) (← field j "states")
  let order ← asListOf (asListOf asStr) (← field j "order")
  pure (pipeJson out (run recip rule avg k states order))

def ops : List Op := [
  ("pipe_f64", pipeOp asFloat floatToJson pipelineFloat),
  ("pipe_rat", pipeOp asRat ratToJson pipelineRat),
  ("redist_f64", redistOp asFloat createRedistFloat createRedistOldFloat createRedistRunningFloat),
  ("redist_f32", redistOp asFloat32 createRedistFloat32 createRedistOldFloat32 createRedistRunningFloat32),
  ("redist_rat", redistOp asRat createRedistRat createRedistOldRat createRedistRunningRat)
]

end PrecondVerif.Drv.C17
