/- Driver operations for C14 (stub: to be filled by the property's model). -/
import PrecondVerif.Kit.Proto

namespace PrecondVerif.Drv.C14
open Lean PrecondVerif.Proto

def ops : List Op := []

end PrecondVerif.Drv.C14
