/- Driver operations for C14: the pytree / state-dict model (`Model/PyTree.lean`).

Wire format (leaves are integers — the harness numbers the leaves of the real state):
  tree  ::= null                                   Python None
          | {"l": int}                             leaf
          | {"k": "list"|"tuple", "e": [tree…]}    list / tuple (keys str(i) are the model's)
          | {"k": "dict", "c": [[key, tree]…]}
          | {"k": "nt", "n": name, "c": [[field, tree]…]}                       NamedTuple
          | {"k": "dc", "n": name, "s": [[field, value]…], "c": [[field, tree]…]}   flax struct.dataclass
  sd    ::= null | {"l": int} | {"d": [[key, sd]…]}
-/
import PrecondVerif.Kit.Proto
import PrecondVerif.Model.PyTree

namespace PrecondVerif.Drv.C14
open Lean PrecondVerif.Proto PrecondVerif.Ser

abbrev T := PyTree Int String
abbrev D := StateDict Int

def pairOf {β} (f : Json → R β) (j : Json) : R (String × β) := do
  match ← asList j with
  | [k, v] => pure (← asStr k, ← f v)
  | _ => .error "pair [key, value] expected"

partial def parseTree (j : Json) : R T :=
  match j with
  | .null => pure .none
  | _ =>
    match j.getObjVal? "l" with
    | .ok v => do pure (.leaf (← asInt v))
    | .error _ => do
      let k ← getStr j "k"
      match k with
      | "list" => do pure (PyTree.list (← asListOf parseTree (← field j "e")))
      | "tuple" => do pure (PyTree.tuple (← asListOf parseTree (← field j "e")))
      | "dict" => do pure (.node .dict (← asListOf (pairOf parseTree) (← field j "c")))
      | "nt" => do
          pure (.node (.namedtuple (← getStr j "n")) (← asListOf (pairOf parseTree) (← field j "c")))
      | "dc" => do
          let st ← asListOf (pairOf asStr) (← field j "s")
          pure (.node (.dataclass (← getStr j "n") st) (← asListOf (pairOf parseTree) (← field j "c")))
      | _ => .error s!"bad node kind {k}"

partial def parseSD (j : Json) : R D :=
  match j with
  | .null => pure .nil
  | _ =>
    match j.getObjVal? "l" with
    | .ok v => do pure (.leaf (← asInt v))
    | .error _ => do pure (.dict (← asListOf (pairOf parseSD) (← field j "d")))

def pairJson (k : String) (v : Json) : Json := Json.arr #[Json.str k, v]

mutual
def treeJson : T → Json
  | .leaf a => obj [("l", toJson a)]
  | .none => Json.null
  | .node .list cs => obj [("k", "list"), ("e", Json.arr (elemsJson cs).toArray)]
  | .node .tuple cs => obj [("k", "tuple"), ("e", Json.arr (elemsJson cs).toArray)]
  | .node .dict cs => obj [("k", "dict"), ("c", Json.arr (childrenJson cs).toArray)]
  | .node (.namedtuple n) cs => obj [("k", "nt"), ("n", Json.str n), ("c", Json.arr (childrenJson cs).toArray)]
  | .node (.dataclass n st) cs =>
    obj [("k", "dc"), ("n", Json.str n), ("s", Json.arr (st.map fun p => pairJson p.1 (Json.str p.2)).toArray),
         ("c", Json.arr (childrenJson cs).toArray)]
def childrenJson : List (String × T) → List Json
  | [] => []
  | (k, t) :: rest => pairJson k (treeJson t) :: childrenJson rest
def elemsJson : List (String × T) → List Json
  | [] => []
  | (_, t) :: rest => treeJson t :: elemsJson rest
end

mutual
def sdJson : D → Json
  | .leaf a => obj [("l", toJson a)]
  | .nil => Json.null
  | .dict kvs => obj [("d", Json.arr (sdsJson kvs).toArray)]
def sdsJson : List (String × D) → List Json
  | [] => []
  | (k, s) :: rest => pairJson k (sdJson s) :: sdsJson rest
end

def errStr : Err → String
  | .notADict => "notADict"
  | .sizeMismatch w g => s!"sizeMismatch {w} {g}"
  | .missingKey k => s!"missingKey {k}"
  | .unknownKey k => s!"unknownKey {k}"
  | .fieldMismatch => "fieldMismatch"

def optIntJson : Option Int → Json
  | some a => toJson a
  | Option.none => Json.null

def runJson (r : List Int × T) : Json :=
  obj [("updates", intsToJson r.1), ("final", treeJson r.2)]

def exceptJson {β} (f : β → Json) : Except Err β → Json
  | .ok v => obj [("ok", f v)]
  | .error e => obj [("err", Json.str (errStr e))]

def ops : List Op := [
  -- to_state_dict of a tree: key structure, flattened key paths, well-formedness
  ("state_dict", fun j => do
    let t ← parseTree (← field j "tree")
    let sd := toStateDict t
    pure (obj [("sd", sdJson sd),
      ("paths", listToJson (fun (p : String × Option Int) => pairJson p.1 (optIntJson p.2)) (StateDict.paths "" sd)),
      ("wf", Json.bool (wf t)), ("leaves", intsToJson (leaves t))])),
  -- save / restore into a template of the same skeleton whose leaves are all -1
  ("roundtrip", fun j => do
    let t ← parseTree (← field j "tree")
    let tmpl : T := mapLeaves (fun _ => (-1 : Int)) t
    let r := fromStateDict tmpl (toStateDict t)
    let same := match r with
      | .ok t' => (treeJson t').compress == (treeJson t).compress
      | .error _ => false
    pure (obj [("same", Json.bool same), ("restored", exceptJson treeJson r)])),
  -- from_state_dict(template, sd) for an arbitrary (possibly mismatching) state dict
  ("restore", fun j => do
    let t ← parseTree (← field j "template")
    let sd ← parseSD (← field j "sd")
    pure (exceptJson treeJson (fromStateDict t sd))),
  -- toy training loop on an integer-leaved tree: uninterrupted, interrupted at k, checkpointed every step
  ("resume", fun j => do
    let t ← parseTree (← field j "tree")
    let tmpl ← parseTree (← field j "template")
    let gs ← getInts j "grads"
    let k ← getNat j "k"
    pure (obj [("run", runJson (run toyStep t gs)),
      ("resumed", exceptJson runJson (resume toyStep tmpl t gs k)),
      ("checkpointed", exceptJson runJson (runCheckpointed toyStep tmpl t gs))]))
]

end PrecondVerif.Drv.C14
