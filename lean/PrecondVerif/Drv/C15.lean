/-
Driver operations for C15: the Tearfree model (`Model/Tearfree.lean`) executed at `Float` (binary64) and, for the
first-order chain, at exact `Rat`. Mathlib-free.

External kernels of the model and what the driver supplies for them:
  * `eigh`  — a cyclic Jacobi iteration (`jacobiEigh`); every output is checked against the specification the theorems
              assume (`VᵀV = 1`, `V diag(w) Vᵀ = C`, relative residual ≤ 1e-9) before it is used; a factorisation that fails the
              check is replaced by NaNs, so the failure is visible in the reply instead of silently entering the result;
  * `svd`   — left singular vectors / singular values from the Jacobi `eigh` of `B Bᵀ` (same check), descending;
  * `sqrt`  — `Float.sqrt`;  `hp p x = x ** (-0.5/p)`, `pw n x = x ** (-1/(2n))` — `Float.pow`.

Ops
  tf_run    one leaf: `tearfreeTx (graftTx … (secondOrderTx …)) momentum lr` folded over a history; also returns the output
            of the second-order stage alone, the derived shapes, the mask and the exponent
  shapes    `deriveShapes`, `tfMaskSkipped`, `blocksMetadata`, `shampooExponent` (EXACT observables)
  eigh      the Jacobi kernel on a given symmetric matrix, with its specification residual, and `rootOfEigh` of it
  mom_run   `chain2 (momentumTx o) (lrTx lr)` at exact rationals (EXACT-DYADIC comparison with the optax chain)
-/
import PrecondVerif.Kit.Proto
import PrecondVerif.Model.Tearfree

namespace PrecondVerif.Drv.C15
open Lean PrecondVerif.Proto PrecondVerif.Shapes PrecondVerif.Tearfree

instance : Zero Float := ⟨0.0⟩
instance : One Float := ⟨1.0⟩

/-! ### Jacobi eigh -/

def fabs (x : Float) : Float := if x < 0.0 then -x else x
def fmax (a b : Float) : Float := if a < b then b else a
def nan : Float := 0.0 / 0.0

/-- one cyclic sweep of Jacobi rotations on the symmetric `n × n` matrix `A` (row-major), accumulating `V ← V J` -/
def jacobiSweep (n : Nat) (A V : Array Float) : Array Float × Array Float := Id.run do
  let mut A := A
  let mut V := V
  for p in [0:n] do
    for q in [p+1:n] do
      let apq := A.getD (p * n + q) 0.0
      if apq != 0.0 then
        let app := A.getD (p * n + p) 0.0
        let aqq := A.getD (q * n + q) 0.0
        let theta := (aqq - app) / (2.0 * apq)
        let t := (if theta < 0.0 then -1.0 else 1.0) / (fabs theta + Float.sqrt (theta * theta + 1.0))
        let c := 1.0 / Float.sqrt (t * t + 1.0)
        let s := t * c
        for k in [0:n] do
          let akp := A.getD (k * n + p) 0.0
          let akq := A.getD (k * n + q) 0.0
          A := A.setIfInBounds (k * n + p) (c * akp - s * akq)
          A := A.setIfInBounds (k * n + q) (s * akp + c * akq)
        for k in [0:n] do
          let apk := A.getD (p * n + k) 0.0
          let aqk := A.getD (q * n + k) 0.0
          A := A.setIfInBounds (p * n + k) (c * apk - s * aqk)
          A := A.setIfInBounds (q * n + k) (s * apk + c * aqk)
        -- exact zero of the annihilated entry (it is zero up to rounding)
        A := A.setIfInBounds (p * n + q) 0.0
        A := A.setIfInBounds (q * n + p) 0.0
        for k in [0:n] do
          let vkp := V.getD (k * n + p) 0.0
          let vkq := V.getD (k * n + q) 0.0
          V := V.setIfInBounds (k * n + p) (c * vkp - s * vkq)
          V := V.setIfInBounds (k * n + q) (s * vkp + c * vkq)
  return (A, V)

def offNorm (n : Nat) (A : Array Float) : Float := Id.run do
  let mut off := 0.0
  for p in [0:n] do
    for q in [0:n] do
      if p != q then
        let a := A.getD (p * n + q) 0.0
        off := off + a * a
  return off

/-- eigenvalues (ascending) and eigenvectors (columns, row-major `n × n`) of a symmetric matrix -/
def jacobiEigh (n : Nat) (A0 : Array Float) : Array Float × Array Float := Id.run do
  -- symmetrise (the statistics are symmetric up to summation order)
  let mut A : Array Float := Array.ofFn (n := n * n) fun k =>
    (A0.getD ((k.val / n) * n + k.val % n) 0.0 + A0.getD ((k.val % n) * n + k.val / n) 0.0) / 2.0
  let mut V : Array Float := Array.ofFn (n := n * n) fun k => if k.val / n = k.val % n then 1.0 else 0.0
  for _ in [0:60] do
    if offNorm n A == 0.0 then break
    let r := jacobiSweep n A V
    A := r.1
    V := r.2
  let w : Array Float := Array.ofFn (n := n) fun i => A.getD (i.val * n + i.val) 0.0
  let order := (Array.range n).qsort fun a b => w.getD a 0.0 < w.getD b 0.0
  let ws : Array Float := order.map fun a => w.getD a 0.0
  let Vs : Array Float := Array.ofFn (n := n * n) fun k => V.getD ((k.val / n) * n + order.getD (k.val % n) 0) 0.0
  return (ws, Vs)

/-- relative residual of the eigh specification: `max |V diag(w) Vᵀ − C| / max |C|` and `max |VᵀV − 1|` -/
def eighResidual (n : Nat) (C w V : Array Float) : Float := Id.run do
  let mut scale := 0.0
  for k in [0:n*n] do
    scale := fmax scale (fabs (C.getD k 0.0))
  let mut r := 0.0
  for i in [0:n] do
    for j in [0:n] do
      let mut acc := 0.0
      let mut g := 0.0
      for a in [0:n] do
        acc := acc + V.getD (i * n + a) 0.0 * w.getD a 0.0 * V.getD (j * n + a) 0.0
        g := g + V.getD (a * n + i) 0.0 * V.getD (a * n + j) 0.0
      let sym := (C.getD (i * n + j) 0.0 + C.getD (j * n + i) 0.0) / 2.0
      let e1 := fabs (acc - sym)
      r := fmax r (if scale == 0.0 then e1 else e1 / scale)
      r := fmax r (fabs (g - (if i = j then 1.0 else 0.0)))
  return r

def specTol : Float := 1e-9

/-- the `eigh` kernel handed to the model: Jacobi, checked against its specification (NaN when the check fails) -/
def eighK : EighFn Float := fun n M =>
  let C := matToArr M
  let r := jacobiEigh n C
  let bad := !(eighResidual n C r.1 r.2 ≤ specTol)
  let w := r.1
  let V := r.2
  ⟨fun a => if bad then nan else w.getD a.val 0.0, fun i a => if bad then nan else V.getD (i.val * n + a.val) 0.0⟩

/-- the `svd` kernel: from the Jacobi `eigh` of `B Bᵀ` (descending singular values) -/
def svdK : SvdFn Float := fun d n B =>
  let Ba : Array Float := ((List.finRange d).flatMap fun i => (List.finRange n).map fun c => B i c).toArray
  let C : Array Float := Array.ofFn (n := d * d) fun k =>
    let i := k.val / d
    let j := k.val % d
    ((List.range n).map fun c => Ba.getD (i * n + c) 0.0 * Ba.getD (j * n + c) 0.0).sum
  let r := jacobiEigh d C
  let bad := !(eighResidual d C r.1 r.2 ≤ specTol)
  let w := r.1
  let V := r.2
  { U := fun i a => if bad then nan else V.getD (i.val * d + (d - 1 - a.val)) 0.0
    s := fun a => if bad then nan else Float.sqrt (fmax (w.getD (d - 1 - a.val) 0.0) 0.0) }

def hpK (p : Nat) (x : Float) : Float := Float.pow x (-0.5 / p.toFloat)
def pwK (n : Nat) (x : Float) : Float := Float.pow x (-1.0 / (2.0 * n.toFloat))

/-! ### codecs -/

def getF (j : Json) (key : String) : R Float := do asFloat (← field j key)
def getFs (j : Json) (key : String) : R (List Float) := do asListOf asFloat (← field j key)
def fsJson (l : List Float) : Json := listToJson floatToJson l

def parseGType : String → R GType
  | "NONE" => pure .none
  | "SGD" => pure .sgd
  | "RMSPROP" => pure .rmsprop
  | "OPAQUE" => pure .opaque
  | s => throw s!"unknown graft type {s}"

structure Step where
  g : List Float
  x : List Float
  ext : List Float

def getSteps (j : Json) : R (List Step) := do
  (← asList (← field j "steps")).mapM fun s => do
    let g ← getFs s "g"
    let x ← getFs s "x"
    let ext ← match s.getObjVal? "ext" with
      | .ok (.arr a) => a.toList.mapM asFloat
      | _ => pure []
    if g.length ≠ x.length then throw "g and x differ in length"
    pure ⟨g, x, ext⟩

def getGraft (j : Json) : R (GraftOpts Float) := do
  let g ← field j "graft"
  pure { type := ← parseGType (← getStr g "type"), decay := ← getF g "decay", eps := ← getF g "eps",
         start := ← getNat g "start", rank1 := ← getBool g "rank1", anyDimGt := ← getNat g "dim_gt" }

def getMom (j : Json) : R (MomOpts Float) := do
  let m ← field j "mom"
  pure { ema := ← getBool m "ema", nesterov := ← getBool m "nesterov", decay := ← getF m "decay",
         wd := ← getF m "wd", after := ← getBool m "after" }

def getLr (j : Json) : R (LR Float) := do
  let l ← field j "lr"
  match (← getStr l "kind") with
  | "const" => pure (.const (← getF l "v"))
  | "sched" => do
    let tb := (← getFs l "table").toArray
    pure (.sched fun n => tb.getD n nan)
  | s => throw s!"unknown lr kind {s}"

/-! ### the composed run -/

def runWith {DS : Type} (direction : Tx DS (List Float) (List Float)) (gopts : GraftOpts Float)
    (mom : MomOpts Float) (lr : LR Float) (shape : List Nat) (steps : List Step) :
    List (List Float) × List (List Float) :=
  let exts := (steps.map fun s => s.ext).toArray
  let norm := normTx Float.sqrt gopts fun n => exts.getD n []
  let tx := tearfreeTx (graftTx Float.sqrt gopts shape direction norm) mom lr
  let hist := steps.map fun s => (s.g, s.x)
  let p0 := match steps with | s :: _ => s.x | [] => []
  let upds := (runTx tx (tx.init p0) hist).1
  let masked := gopts.type != .none && Graft.tfMaskSkipped gopts.rank1 gopts.anyDimGt shape
  let sos := if masked then [] else (runTx direction (direction.init p0) hist).1
  (upds, sos)

def tfRun (j : Json) : R Json := do
  let shape ← getNats j "shape"
  let so ← field j "so"
  let gopts ← getGraft j
  let mom ← getMom j
  let lr ← getLr j
  let steps ← getSteps j
  let n := prod shape
  if steps.any fun s => s.g.length ≠ n then throw "gradient length does not match the shape"
  let mergeDims ← getNat so "merge"
  let kind ← getStr so "kind"
  let (res, bs) ← match kind with
    | "shampoo" => do
      let bs ← getNat so "block"
      let sf ← getNat so "sf"
      let pf ← getNat so "pf"
      let decay ← getF so "decay"
      let cut ← getF so "cut"
      if bs < 2 ∨ sf = 0 ∨ pf = 0 then throw "invalid shampoo options"
      let dir := secondOrderTx (P := List Float) mergeDims bs shape fun ps => shampooTx eighK hpK cut decay bs sf pf ps
      pure (runWith dir gopts mom lr shape steps, bs)
    | "sketchy" => do
      let rank ← getNat so "rank"
      let freq ← getNat so "freq"
      let eps ← getF so "eps"
      let rel ← getBool so "rel"
      let decay ← getF so "decay"
      if rank = 0 ∨ freq = 0 then throw "invalid sketchy options"
      -- `memory_alloc`: per-axis ranks of this leaf (axes of the MERGED shape); absent: the global rank
      let ranks : Option (List Nat) ← match so.getObjVal? "ranks" with
        | .ok (.arr a) => do pure (some (← a.toList.mapM asNat))
        | _ => pure none
      let rankOf : Nat → Nat := match ranks with
        | some l => fun a => l.getD a rank
        | none => fun _ => rank
      let dir := secondOrderTx (P := List Float) mergeDims 0 shape fun ps =>
        sketchyTx svdK Float.sqrt pwK eps rel decay rankOf freq ps
      pure (runWith dir gopts mom lr shape steps, 0)
    | s => throw s!"unknown second-order kind {s}"
  let s := deriveShapes mergeDims bs shape
  pure (obj [("upd", listToJson fsJson res.1), ("so", listToJson fsJson res.2),
    ("masked", Json.bool (gopts.type != .none && Graft.tfMaskSkipped gopts.rank1 gopts.anyDimGt shape)),
    ("merged", natsToJson s.merged), ("padded", natsToJson s.padded),
    ("exponent", toJson (shampooExponent s.padded))])

def shapesOp (j : Json) : R Json := do
  let shape ← getNats j "shape"
  let mergeDims ← getNat j "merge"
  let bs ← getNat j "block"
  let s := deriveShapes mergeDims bs shape
  let m := blocksMetadata (if bs = 0 then 1 else bs) s.padded
  pure (obj [("merged", natsToJson s.merged), ("padded", natsToJson s.padded),
    ("masked", Json.bool (Graft.tfMaskSkipped (← getBool j "rank1") (← getNat j "dim_gt") shape)),
    ("block_sizes", natsToJson m.blockSizes), ("num_blocks", toJson m.numBlocks),
    ("blocks_axis", toJson m.blocksAxis), ("exponent", toJson (shampooExponent s.padded))])

def eighOp (j : Json) : R Json := do
  let n ← getNat j "n"
  let C := (← getFs j "C").toArray
  if C.size ≠ n * n then throw "C must have n*n entries"
  let p ← getNat j "p"
  let cut ← getF j "cut"
  let r := jacobiEigh n C
  let e := eighK n (arrToMat n C)
  let root := matToArr (rootOfEigh (hpK p) cut e)
  pure (obj [("w", fsJson r.1.toList), ("V", fsJson r.2.toList), ("resid", floatToJson (eighResidual n C r.1 r.2)),
    ("root", fsJson root.toList),
    ("kept", listToJson (fun a => Json.bool (kept cut e.w a)) (List.finRange n))])

/-! ### the first-order chain at exact rationals -/

def getRatsL (j : Json) (key : String) : R (List Rat) := do asListOf asRat (← field j key)

def momRun (j : Json) : R Json := do
  let m ← field j "mom"
  let mom : MomOpts Rat := { ema := ← getBool m "ema", nesterov := ← getBool m "nesterov", decay := ← getRat m "decay",
                             wd := ← getRat m "wd", after := ← getBool m "after" }
  let l ← field j "lr"
  let lr : LR Rat ← match (← getStr l "kind") with
    | "const" => pure (LR.const (← getRat l "v"))
    | _ => do
      let tb := (← getRatsL l "table").toArray
      pure (LR.sched fun n => tb.getD n 0)
  let steps ← (← asList (← field j "steps")).mapM fun s => do
    pure ((← getRatsL s "u"), (← getRatsL s "x"))
  let tx := chain2 (momentumTx mom) (lrTx lr)
  let p0 := match steps with | s :: _ => s.2 | [] => []
  let st0 := tx.init p0
  let out := runTx tx st0 steps
  pure (obj [("upd", listToJson (listToJson ratToJson) out.1),
    ("state_len", toJson out.2.1.length), ("state0_len", toJson st0.1.length),
    ("spec_state_len", toJson (momState mom ([] : List Rat)).length)])

def ops : List Op := [
  ("tf_run", tfRun),
  ("shapes", shapesOp),
  ("eigh", eighOp),
  ("mom_run", momRun)
]

end PrecondVerif.Drv.C15
