/- Driver operations for C15 (stub: to be filled by the property's model). -/
import PrecondVerif.Kit.Proto

namespace PrecondVerif.Drv.C15
open Lean PrecondVerif.Proto

def ops : List Op := []

end PrecondVerif.Drv.C15
