/- Driver operations for C04 (stub: to be filled by the property's model). -/
import PrecondVerif.Kit.Proto

namespace PrecondVerif.Drv.C04
open Lean PrecondVerif.Proto

def ops : List Op := []

end PrecondVerif.Drv.C04
