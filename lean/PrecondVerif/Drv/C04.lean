/- Driver operations for C04: the schedule automata of `Model/Schedule.lean` run on tokens. -/
import PrecondVerif.Kit.Proto
import PrecondVerif.Model.Schedule

namespace PrecondVerif.Drv.C04
open Lean PrecondVerif.Proto PrecondVerif.Schedule

def optTokJson : Option Tok → Json
  | none => Json.null
  | some l => natsToJson l

def getBoolsD (j : Json) (k : String) (n : Nat) : R (List Bool) :=
  match j.getObjVal? k with
  | .ok v => asListOf asBool v
  | .error _ => pure (List.replicate n true)

/-- the interval function of a request: `"pi": n` or `"sched": {"s": "p/q", "e": "p/q", "decay": ["p/q", …]}` -/
def getInterval (j : Json) : R Interval :=
  match j.getObjVal? "sched" with
  | .ok (.null) | .error _ => do
      let pi ← getNat j "pi"
      pure (.fixed pi)
  | .ok sj => do
      let s ← getRat sj "s"
      let e ← getRat sj "e"
      let ds ← getRats sj "decay"
      let arr := ds.toArray
      pure (.scheduled s e (fun t => arr.getD t (arr.getD (arr.size - 1) 1)))

abbrev DSTok := DSState Tok (Option Tok) (Option (Tok × Bool)) Unit Unit

def dsTraceJson (cfg : DSCfg) (accept : List Bool) (T : Nat) : Json :=
  let rec go (t : Nat) (fuel : Nat) (s : DSTok) (acc : Array Json) : Array Json :=
    match fuel with
    | 0 => acc
    | fuel + 1 =>
      let inp : DSInp Nat Bool := { grad := t, fault := accept.getD t true }
      let r := dsStep tokKernels cfg s inp
      let s' := r.1
      let itv := cfg.interval s.count
      let used := if cfg.sharded then s.precond else s'.precond
      let o := obj [
        ("count", toJson s.count), ("count_after", toJson s'.count),
        ("interval", toJson itv),
        ("perform_stats", Json.bool (dsPerformStats cfg.si s.count)),
        ("perform_precond", Json.bool (dsPerformPrecond itv s.count)),
        ("stats", natsToJson s'.stats),
        ("stats_changed", Json.bool (s'.stats != s.stats)),
        ("precond", optTokJson s'.precond),
        ("precond_changed", Json.bool (s'.precond != s.precond)),
        ("metrics_changed", Json.bool (s'.metrics != s.metrics)),
        ("used", optTokJson used),
        ("run_shampoo", Json.bool (decide (s.count ≥ cfg.start))),
        ("sel", ratToJson r.2)]
      go (t + 1) fuel s' (acc.push o)
  Json.arr (go 0 T tokInit #[])

abbrev TFTok := GraftState (TFState Tok (Option Tok)) Unit

def tfTraceJson (sf pf start : Nat) (masked : Bool) (T : Nat) : Json :=
  let step := graftStep (tfShampooStep tokTF sf pf) (fun (_ : Unit) (_ : Nat) => ((), false))
    (fun base _ => base) start masked
  let rec go (t : Nat) (fuel : Nat) (s : TFTok) (acc : Array Json) : Array Json :=
    match fuel with
    | 0 => acc
    | fuel + 1 =>
      let r := step s t
      let s' := r.1
      let o := obj [
        ("count", toJson s.count), ("count_after", toJson s'.count),
        ("inner_count_after", toJson s'.direction.count),
        ("perform_stats", Json.bool (s.count % sf == 0)),
        ("perform_precond", Json.bool (s.count % pf == 0)),
        ("stats", natsToJson s'.direction.stats),
        ("stats_changed", Json.bool (s'.direction.stats != s.direction.stats)),
        ("precond", optTokJson s'.direction.roots),
        ("precond_changed", Json.bool (s'.direction.roots != s.direction.roots)),
        ("preconditioned", Json.bool r.2)]
      go (t + 1) fuel s' (acc.push o)
  Json.arr (go 0 T { count := 0, direction := { count := 0, stats := [], roots := none }, norm := () } #[])

abbrev SKTok := GraftState (SKState Tok) Unit

def skTraceJson (f start : Nat) (masked : Bool) (T : Nat) : Json :=
  let step := graftStep (sketchyStep tokSK f) (fun (_ : Unit) (_ : Nat) => ((), false))
    (fun base _ => base) start masked
  let rec go (t : Nat) (fuel : Nat) (s : SKTok) (acc : Array Json) : Array Json :=
    match fuel with
    | 0 => acc
    | fuel + 1 =>
      let r := step s t
      let s' := r.1
      let o := obj [
        ("count", toJson s.count), ("count_after", toJson s'.count),
        ("inner_count_after", toJson s'.direction.count),
        ("perform", Json.bool (s.count % f == 0)),
        ("sketch", natsToJson s'.direction.sketch),
        ("sketch_changed", Json.bool (s'.direction.sketch != s.direction.sketch)),
        ("preconditioned", Json.bool r.2)]
      go (t + 1) fuel s' (acc.push o)
  Json.arr (go 0 T { count := 0, direction := { count := 0, sketch := [] }, norm := () } #[])

def ops : List Op := [
  ("schedule", fun j => do
    let s ← getRat j "s"
    let e ← getRat j "e"
    let ds ← getRats j "decay"
    pure (obj [("intervals", natsToJson (ds.map (scheduledInterval s e)))])),
  ("ds_trace", fun j => do
    let si ← getNat j "si"
    let itv ← getInterval j
    let start ← getNat j "start"
    let T ← getNat j "T"
    let sharded ← getBool j "sharded"
    let accept ← getBoolsD j "accept" T
    let cfg : DSCfg := { si := si, interval := itv.at, start := start, sharded := sharded }
    pure (obj [("steps", dsTraceJson cfg accept T)])),
  ("tf_trace", fun j => do
    let sf ← getNat j "sf"
    let pf ← getNat j "pf"
    let start ← getNat j "start"
    let T ← getNat j "T"
    let masked ← getBool j "masked"
    pure (obj [("steps", tfTraceJson sf pf start masked T)])),
  ("sk_trace", fun j => do
    let f ← getNat j "f"
    let start ← getNat j "start"
    let T ← getNat j "T"
    let masked ← getBool j "masked"
    pure (obj [("steps", skTraceJson f start masked T)]))
]

end PrecondVerif.Drv.C04
