/- Driver operations for C03: the acceptance gate of `Model/Gate.lean` replayed on observed errors. -/
import PrecondVerif.Kit.Proto
import PrecondVerif.Model.Gate

namespace PrecondVerif.Drv.C03
open Lean PrecondVerif.Proto PrecondVerif.Gate

def xfToJson : XF → Json
  | .fin q => obj [("cls", Json.str "fin"), ("q", ratToJson q)]
  | .pinf => obj [("cls", Json.str "pinf")]
  | .ninf => obj [("cls", Json.str "ninf")]
  | .nan => obj [("cls", Json.str "nan")]

def asBits (j : Json) : R Nat := do parseHex (← asStr j)

def getXF32 (j : Json) (k : String) : R XF := do pure (XF.ofBits32 (← asBits (← field j k)))
def getXF64 (j : Json) (k : String) : R XF := do pure (XF.ofBits64 (← asBits (← field j k)))

/-- the three modes differ only in how the gate picks between candidate and stored value -/
inductive Mode where
  | replicated | quantized | sharded

def parseMode : String → R Mode
  | "replicated" => pure .replicated
  | "quantized" => pure .quantized
  | "sharded" => pure .sharded
  | s => throw s!"unknown mode {s}"

/-- replay one slot on tokens: the candidate of step `t` is token `t+1`, the statistics slice of
step `t` is token `1000000+t`, the initial preconditioner is token `0`. -/
def traceWith {π : Type} [BEq π] (sel : Selector π) (tok : Nat → π) (show_ : π → Json)
    (thr : XF) (itv : Nat) (init : XF) (errs : List XF) (reuse : Bool := false) (rf : Option Nat := none) : Json :=
  let rec go (t : Nat) (s : Slot π) (es : List XF) (acc : Array Json) : Array Json :=
    match es with
    | [] => acc
    | e :: es =>
      let i : Inp π := { cand := tok (t + 1), err := e, junk := tok (1000000 + t) }
      -- warm start: the root reads the stored value (its token result does not depend on it)
      let s' := match rf with
        | some _ => slotStepReset sel thr itv rf (fun _ => tok 999999) t (fun _ _ => i) s   -- periodically reset warm start
        | none => if reuse then slotStepDep sel thr itv t (fun _ _ => i) s else slotStep sel thr itv t s i
      let o := obj [
        ("perform", Json.bool (performStep itv t)),
        ("kept", Json.bool (s'.precond == s.precond)),
        ("stored", show_ s'.precond),
        ("err", xfToJson s'.err)]
      go (t + 1) s' es (acc.push o)
  Json.arr (go 0 { precond := tok 0, err := init } errs #[])

def slotTrace (m : Mode) (thr : XF) (itv : Nat) (init : XF) (errs : List XF) (reuse : Bool) (rf : Option Nat) : Json :=
  match m with
  | .replicated =>
      traceWith (π := Nat) select (fun t => t) (fun p => natsToJson [p]) thr itv init errs reuse rf
  | .quantized =>
      traceWith (π := Nat × Nat × Nat) selectTriple (fun t => (t, t, t))
        (fun p => natsToJson [p.1, p.2.1, p.2.2]) thr itv init errs reuse rf
  | .sharded =>
      traceWith (π := Vector Nat 2) selectWhere (fun t => #v[t, t]) (fun p => natsToJson p.toList)
        thr itv init errs reuse rf

/-- replay the whole state (all slots, one counter) with `stateStep`: `errs[t][k]` is the error reported for slot `k`
at step `t`; tokens as in `traceWith`. -/
def stateTraceWith {π : Type} [BEq π] (sel : Selector π) (tok : Nat → π) (show_ : π → Json)
    (thr : XF) (itv : Nat) (inits : List XF) (errs : List (List XF)) : Json :=
  let rec go (t : Nat) (ss : List (Slot π)) (es : List (List XF)) (acc : Array Json) : Array Json :=
    match es with
    | [] => acc
    | row :: es =>
      let ins : List (Inp π) := row.map fun e => { cand := tok (t + 1), err := e, junk := tok (1000000 + t) }
      let ss' := stateStep sel thr itv t ss ins
      let o := obj [
        ("perform", Json.bool (performStep itv t)),
        ("slots", Json.arr ((List.zipWith (fun (s s' : Slot π) => obj [
            ("kept", Json.bool (s'.precond == s.precond)),
            ("stored", show_ s'.precond),
            ("err", xfToJson s'.err)]) ss ss').toArray))]
      go (t + 1) ss' es (acc.push o)
  Json.arr (go 0 (inits.map fun e => { precond := tok 0, err := e }) errs #[])

def stateTrace (m : Mode) (thr : XF) (itv : Nat) (inits : List XF) (errs : List (List XF)) : Json :=
  match m with
  | .replicated =>
      stateTraceWith (π := Nat) select (fun t => t) (fun p => natsToJson [p]) thr itv inits errs
  | .quantized =>
      stateTraceWith (π := Nat × Nat × Nat) selectTriple (fun t => (t, t, t))
        (fun p => natsToJson [p.1, p.2.1, p.2.2]) thr itv inits errs
  | .sharded =>
      stateTraceWith (π := Vector Nat 2) selectWhere (fun t => #v[t, t]) (fun p => natsToJson p.toList)
        thr itv inits errs

def ops : List Op := [
  ("xf_decode", fun j => do
    let b32 ← asListOf asBits (fieldD j "bits32" (Json.arr #[]))
    let b64 ← asListOf asBits (fieldD j "bits64" (Json.arr #[]))
    pure (obj [("v32", listToJson (fun n => xfToJson (XF.ofBits32 n)) b32),
               ("v64", listToJson (fun n => xfToJson (XF.ofBits64 n)) b64)])),
  ("xf_arith", fun j => do
    let a ← getXF64 j "a"
    let b ← getXF64 j "b"
    pure (obj [("add", xfToJson (a + b)), ("sub", xfToJson (a - b)), ("mul", xfToJson (a * b)),
               ("ge", Json.bool (a.ge b)), ("lt", Json.bool (a.lt b)), ("isnan", Json.bool a.isNaN),
               ("isfinite", Json.bool a.isFinite)])),
  ("gate", fun j => do
    let e ← getXF32 j "err"
    let thr ← getXF32 j "thr"
    pure (obj [("skip", Json.bool (skip e thr)),
               ("select", toJson (select e thr (1 : Nat) 0)),
               ("triple", let r := selectTriple e thr ((1 : Nat), (1 : Nat), (1 : Nat)) (0, 0, 0)
                          natsToJson [r.1, r.2.1, r.2.2]),
               ("where", natsToJson (selectWhere e thr (#v[1, 1] : Vector Nat 2) #v[0, 0]).toList),
               -- two slots through the vectorised sharded gate: slot 0 with this error, slot 1 with error = threshold
               ("sharded", listToJson (fun (v : Vector Nat 2) => natsToJson v.toList)
                  (shardedGate thr [e, thr] [#v[0, 0], #v[10, 10]] [#v[1, 1], #v[11, 11]]))])),
  ("blend", fun j => do
    -- `pred*old + (1-pred)*new` at XF (exact) and at Float, and the select it replaced
    let e ← getXF32 j "err"
    let thr ← getXF32 j "thr"
    let o ← getXF64 j "old"
    let n ← getXF64 j "new"
    let fo ← asFloat (← field j "old")
    let fn ← asFloat (← field j "new")
    let fp : Float := skipAs e thr
    pure (obj [("arith", xfToJson (arithGate e thr n o)), ("select", xfToJson (select e thr n o)),
               ("arith_float", floatToJson (arithBlend fp fo fn))])),
  ("slot_trace", fun j => do
    let m ← parseMode (← getStr j "mode")
    let thr ← getXF32 j "thr"
    let itv ← getNat j "itv"
    let init ← getXF32 j "init_err"
    let errs ← asListOf asBits (← field j "errs")
    if itv = 0 then throw "itv must be >= 1"
    let reuse ← asBool (fieldD j "reuse" (Json.bool false))
    let rfn ← asNat (fieldD j "reset" (toJson (0 : Nat)))
    pure (obj [("steps", slotTrace m thr itv init (errs.map XF.ofBits32) reuse (if rfn = 0 then none else some rfn))])),
  ("state_trace", fun j => do
    let m ← parseMode (← getStr j "mode")
    let thr ← getXF32 j "thr"
    let itv ← getNat j "itv"
    let inits ← asListOf asBits (← field j "init_errs")
    let errs ← asListOf (asListOf asBits) (← field j "errs")
    if itv = 0 then throw "itv must be >= 1"
    pure (obj [("steps", stateTrace m thr itv (inits.map XF.ofBits32) (errs.map (·.map XF.ofBits32)))]))
]

end PrecondVerif.Drv.C03
