/- Driver operations for C16 (stub: to be filled by the property's model). -/
import PrecondVerif.Kit.Proto

namespace PrecondVerif.Drv.C16
open Lean PrecondVerif.Proto

def ops : List Op := []

end PrecondVerif.Drv.C16
