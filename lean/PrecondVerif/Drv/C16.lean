/- Driver operations for C16: the OCO model (`Model/OCO.lean`) at `Rat` and `Float`. Mathlib-free.

* `ogd`, `ada`  — whole-history runs (`List.foldl` of the model's update; every intermediate state is
  returned). `scalar = "rat"`: exact arithmetic, `rsqrt` is an oracle through `Float` whose outputs are
  checked against the specification `r > 0 ∧ |r² x − 1| ≤ 2⁻⁴⁸` (exactly, in `Rat`); `scalar = "float"`: IEEE
  binary64 with `rsqrt x = 1 / sqrt x`.
* `fd_b`        — the matrix `_fd_update_fn` hands to the SVD, from a given state.
* `fd_step`     — one `fdUpdate` at `Float`, the SVD being supplied by the caller (constant oracle); the
  residuals of `SvdSpec` for the supplied factors are computed against the model's own `fdB` and returned.
-/
import PrecondVerif.Kit.Proto
import PrecondVerif.Model.OCO

namespace PrecondVerif.Drv.C16
open Lean PrecondVerif.Proto PrecondVerif.OCO

/-! ### exact conversions between `Float` and `Rat` -/

/-- exact value of a finite float -/
def floatToRat? (x : Float) : Option Rat :=
  let bits := x.toBits.toNat
  let sign : Rat := if bits / 2 ^ 63 = 1 then -1 else 1
  let ex : Nat := (bits / 2 ^ 52) % 2048
  let man : Nat := bits % 2 ^ 52
  let full : Nat := 2 ^ 52 + man
  if ex = 2047 then none
  else if ex = 0 then some (sign * (man : Rat) * (2 : Rat) ^ (-1074 : Int))
  else some (sign * (full : Rat) * (2 : Rat) ^ ((ex : Int) - 1075))

def ratAbs (q : Rat) : Rat := if q < 0 then -q else q

/-- nearest-ish float of a rational (exact whenever `q` has at most 53 significant bits and is in range) -/
def ratToFloat (q : Rat) : Float :=
  if q = 0 then 0.0 else
  let a := ratAbs q
  let e : Int := (Nat.log2 a.num.toNat : Int) - (Nat.log2 a.den : Int)
  let sh : Int := 63 - e
  let scaled : Rat := a * (2 : Rat) ^ sh
  let m : Nat := scaled.floor.toNat
  let f := (Float.ofNat m).scaleB (-sh)
  if q < 0 then -f else f

/-- `rsqrt` oracle for the exact run: computed in binary64, returned as the exact rational of the result
(0 when the float result is not finite, which the specification check then rejects). -/
def rsqrtRat (x : Rat) : Rat :=
  match floatToRat? (1.0 / Float.sqrt (ratToFloat x)) with
  | some r => r
  | none => 0

/-- run-time check of the kernel specification `r > 0 ∧ r² x ≈ 1` -/
def rsqrtSpecOk (x : Rat) : Bool :=
  let r := rsqrtRat x
  decide (0 < r) && decide (ratAbs (r * r * x - 1) ≤ (2 : Rat) ^ (-48 : Int))

def rsqrtFloat (x : Float) : Float := 1.0 / Float.sqrt x

/-! ### JSON codecs -/

structure Codec (α : Type) where
  dec : Json → R α
  enc : α → Json

def ratC : Codec Rat := ⟨asRat, ratToJson⟩
def fltC : Codec Float := ⟨asFloat, floatToJson⟩

def vecOfList {α : Type} [Zero α] (n : Nat) (l : List α) : Vec α n :=
  let a := l.toArray
  fun i => a.getD i.1 0

def listOfVec {α : Type} {n : Nat} (v : Vec α n) : List α := (List.finRange n).map v

def getVec {α : Type} [Zero α] (c : Codec α) (j : Json) (key : String) (n : Nat) : R (Vec α n) := do
  let l ← asListOf c.dec (← field j key)
  if l.length ≠ n then throw s!"{key}: expected {n} entries, got {l.length}"
  pure (vecOfList n l)

def asMat {α : Type} [Zero α] (c : Codec α) (j : Json) (what : String) (m n : Nat) : R (Mat α m n) := do
  let rows ← asListOf (asListOf c.dec) j
  if rows.length ≠ m then throw s!"{what}: expected {m} rows, got {rows.length}"
  if rows.any (fun r => r.length ≠ n) then throw s!"{what}: expected rows of length {n}"
  let a := (rows.map fun r => r.toArray).toArray
  pure fun i j => (a.getD i.1 #[]).getD j.1 0

def vecJson {α : Type} {n : Nat} (c : Codec α) (v : Vec α n) : Json := listToJson c.enc (listOfVec v)
def matJson {α : Type} {m n : Nat} (c : Codec α) (A : Mat α m n) : Json :=
  listToJson (fun i => vecJson c (A i)) (List.finRange m)

def getVecs {α : Type} [Zero α] (c : Codec α) (j : Json) (key : String) (n : Nat) : R (List (Vec α n)) := do
  let rows ← asListOf (asListOf c.dec) (← field j key)
  if rows.any (fun r => r.length ≠ n) then throw s!"{key}: expected vectors of length {n}"
  pure (rows.map (vecOfList n))

/-- all intermediate states of a fold (after each step) -/
def trace {σ β : Type} (f : σ → β → σ) : σ → List β → List σ
  | _, [] => []
  | s, b :: bs => let s' := f s b; s' :: trace f s' bs

def parseAlgo (s : String) : R Algo :=
  match s with
  | "RFD_SON" => .ok .rfdSon
  | "FD_SON" => .ok .fdSon
  | "ADA_FD" => .ok .adaFd
  | "S_ADA" => .ok .sAda
  | _ => .error s!"bad algorithm {s}"

/-! ### OGD / AdaGrad -/

def ogdOp {α : Type} [Zero α] [One α] [Add α] [Sub α] [Mul α] [Div α]
    (c : Codec α) (rsqrt : α → α) (specOk : α → Bool) (j : Json) : R Json := do
  let n ← getNat j "n"
  let lr ← c.dec (← field j "lr")
  let δ ← c.dec (← field j "delta")
  let gs ← getVecs c j "gs" n
  let states := trace (ogdUpdate rsqrt lr δ) (ogdInit n) gs
  -- the final state of the trace is `ogdRun` (same fold); it is recomputed through the model's own entry point
  let final := ogdRun rsqrt lr δ gs
  let ok := states.all fun s => specOk (s.t + δ)
  pure (obj [
    ("states", listToJson (fun (s : OgdState α n) => obj [("w", vecJson c s.w), ("t", c.enc s.t)]) states),
    ("final", obj [("w", vecJson c final.w), ("t", c.enc final.t)]),
    ("rsqrt_ok", Json.bool ok)])

def adaOp {α : Type} [Zero α] [One α] [Add α] [Sub α] [Mul α] [Div α] [BEq α]
    (c : Codec α) (rsqrt : α → α) (specOk : α → Bool) (j : Json) : R Json := do
  let n ← getNat j "n"
  let lr ← c.dec (← field j "lr")
  let δ ← c.dec (← field j "delta")
  let gs ← getVecs c j "gs" n
  let states := trace (adaUpdate rsqrt lr) (adaInit n δ) gs
  let final := adaRun rsqrt lr δ gs
  let ok := states.all fun s => (listOfVec s.diagH).all fun h => specOk (nzOr1 h)
  pure (obj [
    ("states", listToJson (fun (s : AdaState α n) => obj [("w", vecJson c s.w), ("diag_h", vecJson c s.diagH)]) states),
    ("final", obj [("w", vecJson c final.w), ("diag_h", vecJson c final.diagH)]),
    ("rsqrt_ok", Json.bool ok)])

/-! ### sketched methods (Float) -/

def getFdState (j : Json) (k n : Nat) : R (FdState Float k n) := do
  let s ← field j "state"
  let w ← getVec fltC s "w" n
  let t ← asFloat (← field s "t")
  let alpha ← asFloat (← field s "alpha")
  let P ← asMat fltC (← field s "P") "P" (k + 1) n
  let e ← getVec fltC s "e" (k + 1)
  pure { w := w, t := t, alpha := alpha, P := P, e := e }

def fdStateJson {k n : Nat} (s : FdState Float k n) : Json :=
  obj [("w", vecJson fltC s.w), ("t", floatToJson s.t), ("alpha", floatToJson s.alpha),
       ("P", matJson fltC s.P), ("e", vecJson fltC s.e)]

def fmax (a b : Float) : Float := if a < b then b else if b < a then a else if a == a then a else b

def maxAbs (l : List Float) : Float := l.foldl (fun acc x => fmax acc x.abs) 0.0

/-- residuals of `SvdSpec B o`: reconstruction, row-orthonormality of `Vt`, column-orthonormality of `U`
(max-abs entries), and the order conditions -/
def svdResiduals {m n : Nat} (B : Mat Float m n) (o : SvdOut Float m n) : Float × Float × Float × Bool :=
  let recon := maxAbs ((List.finRange m).flatMap fun i => (List.finRange n).map fun j =>
    B i j - sumFin fun l => o.U i l * o.s l * o.Vt l j)
  let vo := maxAbs ((List.finRange m).flatMap fun a => (List.finRange m).map fun b =>
    (sumFin fun j => o.Vt a j * o.Vt b j) - (if a = b then 1.0 else 0.0))
  let uo := maxAbs ((List.finRange m).flatMap fun a => (List.finRange m).map fun b =>
    (sumFin fun i => o.U i a * o.U i b) - (if a = b then 1.0 else 0.0))
  let sl := listOfVec o.s
  let ordered := sl.all (fun x => decide (0.0 ≤ x)) &&
    (sl.zip sl.tail).all (fun p => decide (p.2 ≤ p.1))
  (recon, vo, uo, ordered)

def fdCommon (j : Json) : R (Σ k n : Nat, Algo × Float × FdState Float k n × Vec Float n) := do
  let m ← getNat j "sketch_size"
  let n ← getNat j "n"
  if m = 0 then throw "sketch_size must be positive"
  let k := m - 1
  let algo ← parseAlgo (← getStr j "algo")
  let lr ← asFloat (← field j "lr")
  let st ← getFdState j k n
  let g ← getVec fltC j "g" n
  pure ⟨k, n, algo, lr, st, g⟩

def ops : List Op := [
  ("ogd", fun j => do
    match (← getStr j "scalar") with
    | "rat" => ogdOp ratC rsqrtRat rsqrtSpecOk j
    | "float" => ogdOp fltC rsqrtFloat (fun _ => true) j
    | s => throw s!"bad scalar {s}"),
  ("ada", fun j => do
    match (← getStr j "scalar") with
    | "rat" => adaOp ratC rsqrtRat rsqrtSpecOk j
    | "float" => adaOp fltC rsqrtFloat (fun _ => true) j
    | s => throw s!"bad scalar {s}"),
  ("fd_init", fun j => do
    let m ← getNat j "sketch_size"
    let n ← getNat j "n"
    if m = 0 then throw "sketch_size must be positive"
    let δ ← asFloat (← field j "delta")
    pure (obj [("state", fdStateJson (fdInit (m - 1) n δ))])),
  ("fd_b", fun j => do
    let ⟨_, _, algo, lr, st, g⟩ ← fdCommon j
    pure (obj [("B", matJson fltC (fdB Float.sqrt rsqrtFloat algo lr st g))])),
  ("fd_step", fun j => do
    let ⟨k, n, algo, lr, st, g⟩ ← fdCommon j
    let sv ← field j "svd"
    let U ← asMat fltC (← field sv "U") "U" (k + 1) (k + 1)
    let s ← getVec fltC sv "s" (k + 1)
    let Vt ← asMat fltC (← field sv "Vt") "Vt" (k + 1) n
    let o : SvdOut Float (k + 1) n := { U := U, s := s, Vt := Vt }
    let svd : SvdFn Float (k + 1) n := fun _ => o
    let B := fdB Float.sqrt rsqrtFloat algo lr st g
    let (recon, vo, uo, ordered) := svdResiduals B o
    let st' := fdUpdate svd Float.sqrt rsqrtFloat algo lr st g
    let rows := sketchRows st'
    pure (obj [
      ("state", fdStateJson st'),
      ("sigma_min", floatToJson (fdSigmaMin svd Float.sqrt rsqrtFloat algo lr st g)),
      ("rho", floatToJson (fdRho svd Float.sqrt rsqrtFloat algo lr st g)),
      ("alpha_factor", floatToJson (alphaFactor algo)),
      ("grad_input", vecJson fltC (gradInput (sketchFactor Float.sqrt rsqrtFloat algo (st.t + 1) lr) g)),
      ("last_row", vecJson fltC (rows (Fin.last k))),
      ("rows", matJson fltC rows),
      ("b_scale", floatToJson (maxAbs ((List.finRange (k + 1)).flatMap fun i => listOfVec (B i)))),
      ("svd_recon", floatToJson recon), ("svd_v_ortho", floatToJson vo), ("svd_u_ortho", floatToJson uo),
      ("svd_ordered", Json.bool ordered)]))
]

end PrecondVerif.Drv.C16
