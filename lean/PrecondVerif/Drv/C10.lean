/- Driver operations for C10 (stub: to be filled by the property's model). -/
import PrecondVerif.Kit.Proto

namespace PrecondVerif.Drv.C10
open Lean PrecondVerif.Proto

def ops : List Op := []

end PrecondVerif.Drv.C10
