/- Driver operations for C10 (low-rank packed preconditioner).  Mathlib-free.

Scalars: `"ty": "rat"` (strings "p/q", exact) or `"ty": "f64"` (hex bit patterns of IEEE doubles).
Matrices cross as flat row-major lists.

  {"op":"precond_dim","rank":int,"dim":nat}
      -> {"precond_dim":n,"should_compress":bool}
  {"op":"pack","ty":..,"d":d,"r":r,"eigvecs":[d*r],"eigvals":[r],"inv":[r],"const":x,"tail":x,"has_zeros":bool}
      -> {"P":[d*(r+2)]}            (`_fd_low_rank_pack`)        | {"err":"inadmissible"}
  {"op":"unpack","ty":..,"d":d,"r":r,"P":[d*(r+2)]}
      -> {"eigvecs":..,"eigvals":..,"inv":..,"const":..,"tail":..,"has_zeros":bool}   (`_fd_low_rank_unpack`)
  {"op":"lr_pack","ty":..,"d":d,"r":r,"eigvecs":[d*r],"inv":[r],"const":x}  -> {"P":[..]}   (`_low_rank_pack`)
  {"op":"lr_unpack","ty":..,"d":d,"r":r,"P":[..]} -> {"eigvecs":..,"inv":..,"const":..,"has_zeros":bool}
  {"op":"denote","ty":..,"d":d,"r":r,"P":[..]} -> {"M":[d*d],"has_zeros":bool}
  {"op":"apply_block","ty":..,"shape":[..],"g":[prod shape],
        "ops":[{"kind":"roll"}|{"kind":"dense","d":d,"P":[d*d]}|{"kind":"packed","r":r,"P":[d*(r+2)]}, ...]}
      -> {"packed":[..],"denoted":[..]}    (`_precondition_block` as written / with every packed
                                            preconditioner replaced by the dense matrix it denotes)
  {"op":"regularized_input","ty":..,"d":d,"A":[d*d],"ps":nat|null,"ridge_eps":x,"max_ev":x,"tol":x}
      -> {"ridge":x,"M":[d*d]}
  {"op":"low_rank_root","ty":..,"d":d,"r":r,"neg":bool,"ps":nat|null,"ridge":x,"p":nat,"e":[d],"U":[d*d]}
      -> {"P":[d*(r+2)]}            (`_low_rank_root` after `eigh`; "rat" supports p = 1 only)
-/
import PrecondVerif.Kit.Proto
import PrecondVerif.Model.LowRank

namespace PrecondVerif.Drv.C10
open Lean PrecondVerif.Proto PrecondVerif.LowRank

instance : Zero Float := ⟨0.0⟩
instance : One Float := ⟨1.0⟩
instance : NatCast Float := ⟨Float.ofNat⟩

structure Codec (α : Type) where
  parse : Json → R α
  out : α → Json
  /-- `x ↦ x ^ (-1/p)` (none: not available for this scalar type and exponent) -/
  pw : Nat → Option (α → α)

def ratC : Codec Rat := ⟨asRat, ratToJson, fun p => if p = 1 then some fun x => 1 / x else none⟩
def f64C : Codec Float := ⟨asFloat, floatToJson, fun p => some fun x => Float.pow x (-1.0 / Float.ofNat p)⟩

variable {α : Type}

def getArr (c : Codec α) (j : Json) (k : String) : R (Array α) := do
  pure (← asListOf c.parse (← field j k)).toArray

def needLen (what : String) (a : Array α) (n : Nat) : R Unit :=
  if a.size = n then pure () else .error s!"{what}: expected {n} entries, got {a.size}"

def matOf [Zero α] (a : Array α) (m n : Nat) : Mat α m n := fun i j => a.getD (i.val * n + j.val) 0
def vecOf [Zero α] (a : Array α) (n : Nat) : Vec α n := fun i => a.getD i.val 0

def matJson (c : Codec α) {m n : Nat} (M : Mat α m n) : Json :=
  listToJson c.out ((List.finRange m).flatMap fun i => (List.finRange n).map fun j => M i j)
def vecJson (c : Codec α) {n : Nat} (v : Vec α n) : Json :=
  listToJson c.out ((List.finRange n).map v)

def getOptNat (j : Json) (k : String) : R (Option Nat) :=
  match fieldD j k Json.null with
  | .null => pure none
  | v => do pure (some (← asNat v))

section ops
variable [Add α] [Sub α] [Mul α] [Div α] [Zero α] [One α] [BEq α] [Max α] [LE α] [DecidableLE α] [NatCast α]

def packOp (c : Codec α) (lr : Bool) (j : Json) : R Json := do
  let d ← getNat j "d"
  let r ← getNat j "r"
  -- `assert rank > 0`, `assert _precond_dim(rank, d) == rank + 2 < d`
  if r = 0 ∨ ¬ r + 2 < d then return obj [("err", Json.str "inadmissible")]
  let V ← getArr c j "eigvecs"; needLen "eigvecs" V (d * r)
  let ie ← getArr c j "inv"; needLen "inv" ie r
  let cst ← c.parse (← field j "const")
  if lr then
    return obj [("P", matJson c (lowRankPack (matOf V d r) (vecOf ie r) cst))]
  let ev ← getArr c j "eigvals"; needLen "eigvals" ev r
  let tl ← c.parse (← field j "tail")
  let hz ← getBool j "has_zeros"
  let F : Fields α d r := { eigvecs := matOf V d r, eigvals := vecOf ev r, invEigvals := vecOf ie r,
                            const := cst, tail := tl, hasZeros := hz }
  return obj [("P", matJson c (fdPack F))]

def unpackOp (c : Codec α) (lr : Bool) (j : Json) : R Json := do
  let d ← getNat j "d"
  let r ← getNat j "r"
  if h : r + 2 < d then
    if r = 0 then return obj [("err", Json.str "inadmissible")]
    let P ← getArr c j "P"; needLen "P" P (d * (r + 2))
    let F := fdUnpack h (matOf P d (r + 2))
    if lr then
      let L := lowRankUnpack h (matOf P d (r + 2))
      return obj [("eigvecs", matJson c L.eigvecs), ("inv", vecJson c L.invEigvals), ("const", c.out L.const),
                  ("has_zeros", toJson L.hasZeros)]
    return obj [("eigvecs", matJson c F.eigvecs), ("eigvals", vecJson c F.eigvals), ("inv", vecJson c F.invEigvals),
                ("const", c.out F.const), ("tail", c.out F.tail), ("has_zeros", toJson F.hasZeros)]
  else return obj [("err", Json.str "inadmissible")]

def denoteOp (c : Codec α) (j : Json) : R Json := do
  let d ← getNat j "d"
  let r ← getNat j "r"
  if h : r + 2 < d then
    let P ← getArr c j "P"; needLen "P" P (d * (r + 2))
    let L := lowRankUnpack h (matOf P d (r + 2))
    return obj [("M", matJson c (denoteP h (matOf P d (r + 2)))), ("has_zeros", toJson L.hasZeros)]
  else return obj [("err", Json.str "inadmissible")]

def parseAxisOp (c : Codec α) (dim : Nat) (j : Json) : R (AxisOp α) := do
  let kind ← getStr j "kind"
  if kind == "roll" then return .roll
  let P ← getArr c j "P"
  if kind == "dense" then
    needLen "dense P" P (dim * dim)
    return .dense fun i k => P.getD (i * dim + k) 0
  if kind == "packed" then
    let r ← getNat j "r"
    needLen "packed P" P (dim * (r + 2))
    if ¬ r + 2 < dim then throw "packed preconditioner with r + 2 >= dim (the code asserts)"
    return .packed r fun i k => P.getD (i * (r + 2) + k) 0
  throw s!"unknown axis op {kind}"

def applyBlockOp (c : Codec α) (j : Json) : R Json := do
  let shape ← getNats j "shape"
  let g ← getArr c j "g"
  let n := shape.foldl (· * ·) 1
  needLen "g" g n
  let opsJ ← asList (← field j "ops")
  if opsJ.length ≠ shape.length then throw "one op per axis expected"
  let ops ← (opsJ.zip shape).mapM fun (o, d) => parseAxisOp c d o
  let a := preconditionBlock ops shape g
  let b := preconditionBlockDenoted ops shape g
  return obj [("packed", listToJson c.out a.toList), ("denoted", listToJson c.out b.toList)]

def regularizedOp (c : Codec α) (j : Json) : R Json := do
  let d ← getNat j "d"
  let A ← getArr c j "A"; needLen "A" A (d * d)
  let ps ← getOptNat j "ps"
  let ridgeEps ← c.parse (← field j "ridge_eps")
  let maxEv ← c.parse (← field j "max_ev")
  let tol ← c.parse (← field j "tol")
  let ridge := ridgeOf ridgeEps maxEv tol
  return obj [("ridge", c.out ridge), ("M", matJson c (regularizedInput (matOf A d d) ps ridge))]

def lowRankRootOp (c : Codec α) (j : Json) : R Json := do
  let d ← getNat j "d"
  let r ← getNat j "r"
  let neg ← getBool j "neg"
  let ps ← getOptNat j "ps"
  let p ← getNat j "p"
  let ridge ← c.parse (← field j "ridge")
  let e ← getArr c j "e"; needLen "e" e d
  let U ← getArr c j "U"; needLen "U" U (d * d)
  match c.pw p with
  | none => return obj [("err", Json.str "no exact power for this exponent")]
  | some pw =>
    if h : r + 2 < d then
      if r = 0 then return obj [("err", Json.str "inadmissible")]
      return obj [("P", matJson c (lowRankRoot h pw neg ps ridge (vecOf e d) (matOf U d d)))]
    else return obj [("err", Json.str "inadmissible")]

def typed (f : {α : Type} → [Add α] → [Sub α] → [Mul α] → [Div α] → [Zero α] → [One α] → [BEq α] → [Max α] → [LE α] → [DecidableLE α] →
    [NatCast α] → Codec α → Json → R Json) (j : Json) : R Json := do
  let ty ← getStr j "ty"
  if ty == "rat" then f ratC j
  else if ty == "f64" then f f64C j
  else throw s!"unknown ty {ty}"

end ops

def precondDimOp (j : Json) : R Json := do
  let rank ← getInt j "rank"
  let dim ← getNat j "dim"
  return obj [("precond_dim", toJson (Shapes.precondDim rank.natAbs dim)),
              ("should_compress", toJson (Shapes.shouldCompress rank.natAbs dim))]

def ops : List Op := [
  ("precond_dim", precondDimOp),
  ("pack", typed fun c => packOp c false),
  ("lr_pack", typed fun c => packOp c true),
  ("unpack", typed fun c => unpackOp c false),
  ("lr_unpack", typed fun c => unpackOp c true),
  ("denote", typed fun c => denoteOp c),
  ("apply_block", typed fun c => applyBlockOp c),
  ("regularized_input", typed fun c => regularizedOp c),
  ("low_rank_root", typed fun c => lowRankRootOp c)
]

end PrecondVerif.Drv.C10
