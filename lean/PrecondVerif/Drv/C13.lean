/- Driver operations for C13: the device bookkeeping model (`Model/Devices.lean`) run on tagged statistics.
A statistic is the triple (id, exponent, padding start); the filler is (N, 1, 0); the per-matrix
computation `f` is the identity on tags, so every output shows which statistic's result landed where. -/
import PrecondVerif.Kit.Proto
import PrecondVerif.Model.Devices

namespace PrecondVerif.Drv.C13
open Lean PrecondVerif.Proto PrecondVerif.Devices

abbrev Slot := Nat × Nat × Nat

def mkSlots (exps pads : List Nat) : List Slot :=
  (List.range exps.length).map fun i => (i, exps.getD i 0, pads.getD i 0)

def ids (l : List Slot) : Json := natsToJson (l.map fun s => s.1)
def rowsJson (f : Slot → Nat) (rows : List (List Slot)) : Json :=
  listToJson natsToJson (rows.map (List.map f))

def asRows (j : Json) : R (List (List Nat)) := asListOf (asListOf asNat) j

def ops : List Op := [
  ("to_pad", fun j => do
    let n ← getNat j "n"
    let D ← getNat j "D"
    pure (obj [("to_pad", toJson (toPad n D)), ("sharded_to_pad", toJson (shardedToPad n D)),
      ("sharded_declared", toJson (shardedDeclared n D))])),
  ("batch", fun j => do
    let n ← getNat j "n"
    let D ← getNat j "D"
    let rows := batch (List.range n) D
    pure (obj [("rows", listToJson natsToJson rows), ("unbatched", natsToJson (unbatch rows))])),
  ("unbatch", fun j => do
    let rows ← asRows (← field j "rows")
    pure (obj [("out", natsToJson (unbatch rows)), ("b2", toJson (rowWidth rows))])),
  ("pmap_plan", fun j => do
    let D ← getNat j "D"
    let exps ← getNats j "exponents"
    let pads ← getNats j "paddings"
    let xs := mkSlots exps pads
    let n := xs.length
    let filler : Slot := (n, 1, 0)
    let padded := padTo filler xs D
    let rows := batch padded D
    let gathered := pmapGathered (fun s => s) filler D xs
    let b := rowWidth rows
    pure (obj [
      ("computed", Json.bool (!xs.isEmpty)),
      ("to_pad", toJson (toPad n D)), ("total", toJson padded.length), ("b", toJson b),
      ("exponents", natsToJson (padded.map fun s => s.2.1)),
      ("paddings", natsToJson (padded.map fun s => s.2.2)),
      ("rows_ids", rowsJson (fun s => s.1) rows),
      ("rows_exponents", rowsJson (fun s => s.2.1) rows),
      ("rows_paddings", rowsJson (fun s => s.2.2) rows),
      ("gathered_ids", rowsJson (fun s => s.1) gathered),
      ("gathered_shape", natsToJson [gathered.length, rowWidth gathered]),
      ("all_ids", ids (pmapAll (fun s => s) filler D xs)),
      ("kept_ids", ids (pmapCompute (fun s => s) filler D xs)),
      ("kept_ids_quantized", ids ((pmapComputeQ (fun s => (s.1, s.2.1, s.2.2)) filler D xs))),
      ("places", listToJson (fun i => let p := placeOf b i; natsToJson [p.1, p.2]) (List.range padded.length))])),
  ("replicated_plan", fun j => do
    let n ← getNat j "n"
    pure (obj [("kept_ids", natsToJson (replicatedCompute (fun i => i) (List.range n)))])),
  ("sharded_plan", fun j => do
    let D ← getNat j "D"
    let exps ← getNats j "exponents"
    let idx ← asRows (← field j "index")
    let xs := mkSlots exps []
    let n := xs.length
    let filler : Slot := (n, 1, 0)
    let index := idx.map fun sc => (sc.getD 0 0, sc.getD 1 0)
    let comp := shardedCompute (fun s => s) filler D xs
    pure (obj [
      ("to_pad", toJson (shardedToPad n D)),
      ("count", toJson (shardedPad filler xs D).length),
      ("declared", toJson (shardedDeclared n D)),
      ("exponents", natsToJson ((shardedPad filler xs D).map fun s => s.2.1)),
      ("computed_ids", ids comp),
      ("computed_exponents", natsToJson (comp.map fun s => s.2.1)),
      ("views", listToJson ids (shardedViews (fun s => s) filler D xs index))]))
]

end PrecondVerif.Drv.C13
