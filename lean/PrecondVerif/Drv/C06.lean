/- Driver operations for the shape model (C06). -/
import PrecondVerif.Kit.Proto
import PrecondVerif.Model.Shapes
import PrecondVerif.Model.ShapesIdx

namespace PrecondVerif.Drv.C06
open Lean PrecondVerif.Proto PrecondVerif.Shapes

def arange (shape : List Nat) : Tensor Nat := ⟨shape, fun idx => ravel shape idx⟩

def tensorJson (t : Tensor Nat) : Json :=
  obj [("shape", natsToJson t.shape), ("data", natsToJson t.flat)]

def parsePType (s : String) : R PType :=
  match s with
  | "ALL" => .ok .all
  | "INPUT" => .ok .input
  | "OUTPUT" => .ok .output
  | _ => .error s!"bad preconditioner type {s}"

def optNatJson : Option Nat → Json
  | none => Json.null
  | some n => toJson n

def ops : List Op := [
  ("merge_small_dims", fun j => do
    let shape ← getNats j "shape"
    let m ← getNat j "max_dim"
    pure (obj [("shape", natsToJson (mergeSmallDims shape m))])),
  ("split_sizes", fun j => do
    let shape ← getNats j "shape"
    let b ← getNat j "block"
    pure (obj [("sizes", listToJson natsToJson (splitAll shape b))])),
  ("partition", fun j => do
    let shape ← getNats j "shape"
    let b ← getNat j "block"
    let t := arange shape
    let parts := partition t b
    let merged := match mergePartitions shape b parts with
      | some u => tensorJson u
      | none => Json.null
    pure (obj [("blocks", listToJson tensorJson parts), ("merged", merged)])),
  ("precond", fun j => do
    let shape ← getNats j "shape"
    let b ← getNat j "block"
    let r ← getNat j "rank_c"
    let pt ← parsePType (← getStr j "ptype")
    let rank := shape.length
    let nblocks := (cartesian (splitAll shape b)).length
    let shapes := shapesForPreconditioners pt r shape b
    pure (obj [
      ("should", Json.arr ((shouldPreconditionDims pt rank).map Json.bool).toArray),
      ("exponent", toJson (exponentForPreconditioner pt rank)),
      ("shapes", listToJson (fun (p : Nat × Nat) => natsToJson [p.1, p.2]) shapes),
      ("nblocks", toJson nblocks),
      ("slots", listToJson (fun i => listToJson optNatJson (precondsForGrad pt rank i))
          (List.range nblocks)),
      ("compress", Json.arr ((shapes.map fun p => Json.bool (shouldCompress r p.1))).toArray)])),
  ("tf_shapes", fun j => do
    let shape ← getNats j "shape"
    let md ← getNat j "merge_dims"
    let b ← getNat j "block"
    let s := deriveShapes md b shape
    -- tensor of 1..n so that padding zeros are distinguishable
    let t : Tensor Nat := ⟨shape, fun idx => ravel shape idx + 1⟩
    let m := tfMerge 0 s b t
    let u := tfUnmerge s b m
    pure (obj [("merged_shape", natsToJson s.merged), ("padded_shape", natsToJson s.padded),
      ("merged", tensorJson m), ("unmerged", tensorJson u)])),
  ("blockify", fun j => do
    let shape ← getNats j "shape"
    let b ← getNat j "block"
    let m := blocksMetadata b shape
    let t := arange shape
    let x := blockify t m
    let y := deblockify x m
    pure (obj [("block_sizes", natsToJson m.blockSizes), ("num_blocks", toJson m.numBlocks),
      ("large_axes", natsToJson m.largeAxes), ("blocks_per_large_axis", natsToJson m.blocksPerLargeAxis),
      ("blocks_axis", toJson m.blocksAxis),
      ("blocked", tensorJson x), ("deblocked", tensorJson y)])),
  -- second round: the closed index maps (`Model/ShapesIdx.lean`), executed against the real blocks
  ("partition_idx", fun j => do
    let shape ← getNats j "shape"
    let b ← getNat j "block"
    let grid := blockGrid shape b
    let ks := List.range (prod grid)
    pure (obj [("grid", natsToJson grid),
      ("coords", listToJson natsToJson (ks.map (blockCoords shape b))),
      ("offsets", listToJson natsToJson (ks.map (blockOffsets shape b))),
      ("dims", listToJson natsToJson (ks.map (blockDims shape b))),
      -- the blocks rebuilt from the index description alone: block k = t.box (offsets k) (dims k)
      ("boxes", listToJson (fun k => tensorJson ((arange shape).box (blockOffsets shape b k) (blockDims shape b k))) ks),
      ("locate", listToJson (fun idx =>
          let r := locateBlock shape b idx
          natsToJson (r.1 :: r.2)) (allIdx shape))])),
  ("blockify_idx", fun j => do
    let shape ← getNats j "shape"
    let b ← getNat j "block"
    let m := blocksMetadata b shape
    let bs := blockedShape m
    pure (obj [("blocked_shape", natsToJson bs),
      ("block_offsets", listToJson natsToJson ((List.range m.numBlocks).map (tfBlockOffsets m))),
      -- value of the blockified arange at x = row-major position of the parameter entry it comes from
      ("unblocked", natsToJson ((allIdx bs).map fun x => ravel shape (unblockedIndex m x))),
      -- where deblockify reads the parameter entry idx from
      ("blocked_pos", natsToJson ((allIdx shape).map fun idx => ravel bs (blockedIndex m idx))),
      ("block_of", natsToJson ((allIdx shape).map (blockIndexOf m))),
      ("inner_of", listToJson natsToJson ((allIdx shape).map (innerIndexOf m)))]))
]

end PrecondVerif.Drv.C06
