/- Driver operations for C12: the SM3 model (`Model/SM3.lean`) at `Rat` (exact accumulator histories)
and at `Float` (binary64: histories with gradient normalisation, and one full update including `sqrt`,
momentum, int8 quantization and weight decay).  Mathlib-free.

Scalars cross as IEEE-754 binary64 bit patterns (`"0x…"`, 16 hex digits; float32 values of the
implementation are widened exactly by the harness); exact results go back as `"p/q"`. -/
import PrecondVerif.Kit.Proto
import PrecondVerif.Model.SM3

namespace PrecondVerif.Drv.C12
open Lean PrecondVerif.Proto PrecondVerif.SM3 PrecondVerif.Quant

/-- exact value of a finite IEEE-754 binary64 bit pattern -/
def f64ToRat (bits : Nat) : R Rat :=
  let neg : Bool := bits / 2 ^ 63 % 2 == 1
  let e : Nat := bits / 2 ^ 52 % 2048
  let m : Nat := bits % 2 ^ 52
  if e = 2047 then .error "non-finite float in input" else
  let mant : Nat := if e = 0 then m else m + 2 ^ 52
  let ex : Int := if e = 0 then -1074 else (e : Int) - 1075
  let mag : Rat := (mant : Rat) * (2 : Rat) ^ ex
  .ok (if neg then -mag else mag)

def asExact (j : Json) : R Rat := do
  match j with
  | .str s => if s.startsWith "0x" then f64ToRat (← parseHex s) else parseRat s
  | _ => asRat j

instance : NatCast Float := ⟨Float.ofNat⟩
instance : IntCast Float := ⟨Float.ofInt⟩
/-- floor of a binary64 value of moderate size (the model only floors ratios bounded by the bucket count) -/
instance : HasFloor Float := ⟨fun x => (Float.floor x).toInt64.toInt⟩

structure Codec (α : Type) where
  dec : Json → R α
  enc : α → Json

def ratC : Codec Rat := ⟨asExact, ratToJson⟩
def fltC : Codec Float := ⟨asFloat, floatToJson⟩

def accsJson {α} (c : Codec α) (a : Accs α) : Json :=
  listToJson (fun v : Array α => listToJson c.enc v.toList) a

def prodL (l : List Nat) : Nat := l.foldr (· * ·) 1

/-- accumulators along a gradient history: states after 0, 1, …, T updates and the last ν tensor -/
def historyOp {α : Type} [OfNat α 0] [OfNat α 1] [Add α] [Sub α] [Neg α] [Mul α] [Div α]
    [LT α] [DecidableLT α] (c : Codec α) (norm : Option (List α → List α)) (j : Json) : R Json := do
  let shape ← getNats j "shape"
  if shape = [] then throw "rank 0" else
  if shape.any (· == 0) then throw "zero-size dimension" else
  let β2 ← c.dec (← field j "beta2")
  let gsJ ← asList (← field j "gs")
  let gs ← gsJ.mapM (asListOf c.dec)
  if gs.any (fun g => g.length ≠ prodL shape) then throw "gradient length does not match shape" else
  let upd := codeUpd β2 (wOf β2)
  let mut accs : Accs α := initAccs shape
  let mut out : Array Json := #[accsJson c accs]
  let mut nu : List α := []
  for g0 in gs do
    let gl := match norm with
      | some f => f g0
      | none => g0
    let pairs := nuList upd shape accs (ofFlat 0 shape gl.toArray)
    nu := pairs.map (·.2)
    accs := sketch shape pairs
    out := out.push (accsJson c accs)
  pure (obj [("accs", Json.arr out), ("nu", listToJson c.enc nu), ("w2", c.enc (wOf β2))])

def ops : List Op := [
  -- exact (Rat) or binary64 accumulator history through `accStep`
  ("history", fun j => do
    match (← getStr j "scalar") with
    | "rat" =>
      if (← getBool j "normalize") then throw "normalisation needs sqrt: use scalar=float" else
      historyOp ratC none j
    | "float" =>
      let ne ← asFloat (← field j "norm_eps")
      let norm : Option (List Float → List Float) :=
        if (← getBool j "normalize") then some (normalizeG Float.sqrt ne) else none
      historyOp fltC norm j
    | s => throw s!"unknown scalar {s}"),
  -- one full `update_fn` at binary64 from a given state
  ("step", fun j => do
    let shape ← getNats j "shape"
    if shape = [] then throw "rank 0" else
    if shape.any (· == 0) then throw "zero-size dimension" else
    let n := prodL shape
    let h : Hyper Float := {
      lr := ← asFloat (← field j "lr"), beta1 := ← asFloat (← field j "beta1"),
      beta2 := ← asFloat (← field j "beta2"), eps := ← asFloat (← field j "eps"),
      wd := ← asFloat (← field j "wd"), normEps := ← asFloat (← field j "norm_eps"),
      normalize := ← getBool j "normalize", buckets := ← getNat j "buckets" }
    let accsJ ← asList (← field j "accs")
    let accs ← accsJ.mapM (asListOf asFloat)
    if accs.map (·.length) ≠ shape then throw "accumulator shapes do not match" else
    let mq ← getInts j "mq"
    let mb ← getFloats j "mb"
    let param ← getFloats j "param"
    let grad ← getFloats j "grad"
    if mq.length ≠ n ∨ param.length ≠ n ∨ grad.length ≠ n ∨ mb.length ≠ colsOf shape then
      throw "data length does not match shape" else
    let r := fullStep Float.sqrt h shape (accs.map (·.toArray)) mq.toArray mb.toArray
      param.toArray grad.toArray
    let fl := listToJson floatToJson
    pure (obj [("g", fl r.g), ("nu", fl r.nu), ("accs", accsJson fltC r.accs), ("pg", fl r.pg),
      ("mold", fl r.mold), ("mom", fl r.mom), ("q", intsToJson r.q), ("bucket", fl r.bucket),
      ("update", fl r.update)]))
]

end PrecondVerif.Drv.C12
