/- Driver operations for C12 (stub: to be filled by the property's model). -/
import PrecondVerif.Kit.Proto

namespace PrecondVerif.Drv.C12
open Lean PrecondVerif.Proto

def ops : List Op := []

end PrecondVerif.Drv.C12
