/- Driver operations for C11: the quantization model executed at `Rat` (exact). -/
import PrecondVerif.Kit.Proto
import PrecondVerif.Model.Quant

namespace PrecondVerif.Drv.C11
open Lean PrecondVerif.Proto PrecondVerif.Quant

/-- exact value of a finite IEEE-754 binary32 bit pattern -/
def f32ToRat (bits : Nat) : R Rat :=
  let neg : Bool := bits / 2 ^ 31 % 2 == 1
  let e : Nat := bits / 2 ^ 23 % 256
  let m : Nat := bits % 2 ^ 23
  if e = 255 then .error "non-finite float32 in input" else
  let mant : Nat := if e = 0 then m else m + 2 ^ 23
  let ex : Int := if e = 0 then -149 else (e : Int) - 150
  let mag : Rat := (mant : Rat) * (2 : Rat) ^ ex
  .ok (if neg then -mag else mag)

/-- a scalar crosses either as a float32 bit pattern `"0x…"` or as a rational `"p/q"` -/
def asExact (j : Json) : R Rat := do
  match j with
  | .str s =>
    if s.startsWith "0x" then f32ToRat (← parseHex s) else parseRat s
  | _ => asRat j

def optRatJson : Option Rat → Json
  | some r => ratToJson r
  | none => Json.str "overflow"

def ops : List Op := [
  -- QuantizedValue.from_float_value / to_float / re-quantization on one tensor
  ("quantize", fun j => do
    let n ← getNat j "N"
    let shape ← getNats j "shape"
    let ed ← getBool j "ed"
    let data ← asListOf asExact (← field j "data")
    if shape = [] then throw "rank 0" else
    if data.length ≠ rowsOf shape * colsOf shape then throw "data length does not match shape" else
    let r := quantizeFlat (α := Rat) n shape ed data.toArray
    pure (obj [("q", intsToJson r.q), ("bucket", listToJson ratToJson r.bucket),
      ("diag", listToJson ratToJson r.diag), ("deq", listToJson ratToJson r.deq),
      ("rq", intsToJson r.rq), ("rbucket", listToJson ratToJson r.rbucket)])),
  -- the same in float32 arithmetic (`fl32` after every operation), for the four ways XLA-CPU may divide:
  -- key "<rb><rr>", rb/rr = 1 when the bucket / the ratio is computed as a * fl(1/b)
  ("quantize_fl32", fun j => do
    let n ← getNat j "N"
    let shape ← getNats j "shape"
    let ed ← getBool j "ed"
    let data ← asListOf asExact (← field j "data")
    if shape = [] then throw "rank 0" else
    if data.length ≠ rowsOf shape * colsOf shape then throw "data length does not match shape" else
    let arr := data.toArray
    let one := fun (rb rr : Bool) =>
      let r := quantizeFlatFl (α := Rat) fl32 rb rr n shape ed arr
      obj [("q", intsToJson r.q), ("bucket", listToJson ratToJson r.bucket),
        ("deq", listToJson ratToJson r.deq),
        ("overflow", Json.bool ((r.bucket ++ r.deq).any f32Overflows))]
    pure (obj [("00", one false false), ("01", one false true), ("10", one true false), ("11", one true true),
      ("normal", Json.arr ((normalColsFlat n shape ed arr).map Json.bool).toArray)])),
  -- dtype chosen by the call sites of distributed_shampoo / sm3
  ("call_site_dtype", fun j => do
    let site ← getStr j "site"
    let name := fun (d : QDtype) => match d with
      | .int8 => "int8" | .int16 => "int16" | .bfloat16 => "bfloat16" | .float32 => "float32"
    match site with
    | "ds_momentum" =>
      pure (obj [("dtype", Json.str (name (dsMomentumDtype (← getBool j "best_effort") (← getNat j "rank"))))])
    | "ds_second_moment" =>
      pure (obj [("dtype", Json.str (name (dsSecondMomentDtype (← getBool j "best_effort") (← getBool j "low_rank")
        (← getBool j "fd") (← getBool j "pmap_axis") (← getBool j "sharded"))))])
    | "ds_diagonal_statistics" => pure (obj [("dtype", Json.str (name dsDiagonalStatisticsDtype))])
    | "sm3_momentum" => pure (obj [("dtype", Json.str (name sm3MomentumDtype))])
    | _ => throw "unknown site"),
  -- jnp.round on exact rationals
  ("round", fun j => do
    let data ← asListOf asExact (← field j "data")
    pure (obj [("r", intsToJson (data.map (roundHalfEven (α := Rat))))])),
  -- astype(bfloat16) on exact float32 values
  ("bf16", fun j => do
    let data ← asListOf asExact (← field j "data")
    pure (obj [("r", listToJson optRatJson (data.map bf16Round))]))
]

end PrecondVerif.Drv.C11
