/- Driver operations for the layout calculus (C07). -/
import PrecondVerif.Kit.Proto
import PrecondVerif.Model.Layout

namespace PrecondVerif.Drv.C07
open Lean PrecondVerif.Proto PrecondVerif.Shapes PrecondVerif.Layout

def svalJson : SVal → Json
  | .str s => Json.str s
  | .bool b => Json.bool b
  | .nat n => toJson n
  | .nats l => natsToJson l

partial def sigJson : Sig → Json
  | .leaf shape dt => Json.arr #[Json.str "L", natsToJson shape, Json.str dt]
  | .spec l => Json.arr #[Json.str "P", Json.arr (l.map Json.str).toArray]
  | .node k st kids =>
      Json.arr #[Json.str "N", Json.str k, Json.arr (st.map svalJson).toArray, Json.arr (kids.map sigJson).toArray]

def parsePType (s : String) : R PType :=
  match s with
  | "ALL" => .ok .all
  | "INPUT" => .ok .input
  | "OUTPUT" => .ok .output
  | _ => .error s!"bad preconditioner type {s}"

def phaseStr : Phase → String
  | .construct => "construct" | .init => "init" | .update => "update"

def clsStr : ExcCls → String
  | .valueError => "ValueError" | .assertionError => "AssertionError" | .notImplemented => "NotImplementedError"

def errJson : Err → Json
  | .reject ph cls => obj [("kind", "reject"), ("phase", phaseStr ph), ("cls", clsStr cls)]
  | .internal ph what => obj [("kind", "internal"), ("phase", phaseStr ph), ("what", what)]

def okJson : Json := obj [("kind", "ok")]

def getShapes (j : Json) (k : String) : R (List (List Nat)) := do
  asListOf (asListOf asNat) (← field j k)

def parseCfg (j : Json) : R Cfg := do
  pure {
    blockSize := ← getNat j "block_size"
    bestEffortShape := ← getBool j "best_effort_shape_interpretation"
    mergeBlock := ← getNat j "merge_small_dims_block_size"
    graftHasDiag := ← getBool j "graft_has_diag"
    batchAxis := ← getBool j "batch_axis"
    shard := ← getBool j "shard"
    ndev := ← getNat j "ndev"
    memReduction := ← getBool j "best_effort_memory_usage_reduction"
    skipDimGt := ← getNat j "skip_preconditioning_dim_size_gt"
    skipRankLt := ← getNat j "skip_preconditioning_rank_lt"
    lobpcgTopk := ← getNat j "lobpcg_topk_precondition"
    ptype := ← parsePType (← getStr j "precondtioner_type")
    fdMetrics := ← getBool j "generate_fd_metrics"
    trainMetrics := ← getBool j "generate_training_metrics"
    compRank := ← getInt j "compression_rank"
    fd := ← getBool j "frequent_directions"
    reset := ← getBool j "reset_preconditioner"
    avgGrad := ← getBool j "average_grad"
    reuse := ← getBool j "reuse_preconditioner"
    eigh := ← getBool j "eigh"
    statSteps := ← getNat j "statistics_compute_steps"
    precondSteps := ← getNat j "preconditioning_compute_steps"
    scheduled := ← getBool j "scheduled" }

def parseGraft (s : String) : R TFGraft :=
  match s with
  | "NONE" => .ok .none | "SGD" => .ok .sgd | "RMSPROP" => .ok .rmsprop | "ADAFACTOR" => .ok .adafactor
  | _ => .error s!"bad graft {s}"

def parseTF (j : Json) : R TFCfg := do
  let shj := fieldD j "sh" Json.null
  let skj := fieldD j "sk" Json.null
  let sh ← if shj.isNull then pure none else do
    pure (some { blockSize := ← getInt shj "block_size", pf := ← getInt shj "pf", sf := ← getInt shj "sf",
                 decay := ← getRat shj "decay" : TFShampoo })
  let sk ← if skj.isNull then pure none else do
    pure (some { rank := ← getInt skj "rank", updateFreq := ← getInt skj "update_freq", decay := ← getRat skj "decay",
                 addGgt := ← getBool skj "add_ggt", ekfac := ← getBool skj "ekfac",
                 alloc := ← (let aj := fieldD skj "alloc" Json.null
                             if aj.isNull then pure none else do
                               pure (some (← asListOf (asListOf asNat) aj))) : TFSketchy })
  pure {
    graft := ← parseGraft (← getStr j "graft")
    graftDecay := ← getRat j "graft_decay"
    graftEps := ← getRat j "graft_eps"
    skipGt := ← getNat j "skip_gt"
    skipRank1 := ← getBool j "skip_rank1"
    minDimFactor := ← getInt j "min_dim_size_to_factor"
    clipThreshold := ← getRat j "clipping_threshold"
    mergeDims := ← getInt j "merge_dims"
    sketchy := (← getStr j "so_type") == "SKETCHY"
    sh := sh
    sk := sk
    momDecay := ← getRat j "mom_decay"
    ema := ← getBool j "ema"
    wd := ← getRat j "wd"
    wdAfter := ← getBool j "wd_after"
    lrSched := ← getBool j "lr_schedule" }

def sm3Steps (ps : List (List Nat)) : Nat → List SM3Param → Except Err (List SM3Param)
  | 0, L => pure L
  | k + 1, L => do
      let L' ← sm3Step ps L
      sm3Steps ps k L'

def ops : List Op := [
  ("ds", fun j => do
    let c ← parseCfg (← field j "cfg")
    let ps ← getShapes j "shapes"
    let k ← getNat j "k"
    if c.shard then
      let pspecs ← asListOf (asListOf asStr) (← field j "pspecs")
      let statSpec ← asListOf asStr (← field j "stat_spec")
      match shardedInit c ps with
      | .error e => pure (obj [("outcome", errJson e)])
      | .ok L =>
        let declJ := match shapeDtypeDecl c ps with
          | .ok s => sigJson s
          | .error e => errJson e
        let base := [("init_sig", sigJson (shardedSig L)), ("decl_sig", declJ),
                     ("pspec_sig", sigJson (pspecDecl c ps pspecs statSpec)),
                     ("update_leaves", listToJson (fun l => sigJson (leafSig l)) (updateShapes c ps))]
        match shardedSteps c ps k L with
        | .error e => pure (obj (("outcome", errJson e) :: base))
        | .ok L' => pure (obj (("outcome", okJson) :: ("post_equal", Json.bool (decide (L' = L))) :: base))
    else
      match layoutInit c ps with
      | .error e => pure (obj [("outcome", errJson e)])
      | .ok L =>
        let base := [("init_sig", sigJson (dsSig L)),
                     ("update_leaves", listToJson (fun l => sigJson (leafSig l)) (updateShapes c ps))]
        match layoutSteps c ps k L with
        | .error e => pure (obj (("outcome", errJson e) :: base))
        | .ok L' => pure (obj (("outcome", okJson) :: ("post_equal", Json.bool (decide (L' = L))) :: base))),
  ("sm3", fun j => do
    let ps ← getShapes j "shapes"
    let k ← getNat j "k"
    match sm3Init ps with
    | .error e => pure (obj [("outcome", errJson e)])
    | .ok L =>
      let base := [("init_sig", sigJson (sm3Sig L))]
      match sm3Steps ps k L with
      | .error e => pure (obj (("outcome", errJson e) :: base))
      | .ok L' => pure (obj (("outcome", okJson) :: ("post_equal", Json.bool (decide (L' = L))) :: base))),
  ("tf", fun j => do
    let c ← parseTF (← field j "cfg")
    let ps ← getShapes j "shapes"
    let k ← getNat j "k"
    match tfInit c ps with
    | .error e => pure (obj [("outcome", errJson e)])
    | .ok L =>
      let base := [("init_sig", sigJson (tfSig c L))]
      match tfSteps c k L with
      | .error e => pure (obj (("outcome", errJson e) :: base))
      | .ok L' => pure (obj (("outcome", okJson) :: ("post_equal", Json.bool (decide (L' = L))) :: base)))
]

end PrecondVerif.Drv.C07
