/-
Main loop of a line-protocol driver: one JSON object per input line `{"op": name, ...}`,
one JSON object per output line. Mathlib-free so that it links as a native executable.
-/
import PrecondVerif.Kit.Proto

namespace PrecondVerif.Loop
open Lean PrecondVerif.Proto

def handle (ops : List Op) (line : String) : Json :=
  match Json.parse line with
  | .error e => obj [("error", Json.str s!"parse: {e}")]
  | .ok j =>
    match getStr j "op" with
    | .error e => obj [("error", Json.str e)]
    | .ok op =>
      match ops.lookup op with
      | none => obj [("error", Json.str s!"unknown op {op}")]
      | some f =>
        match f j with
        | .ok r => r
        | .error e => obj [("error", Json.str e)]

partial def loop (ops : List Op) (hin hout : IO.FS.Stream) : IO Unit := do
  let line ← hin.getLine
  if line.isEmpty then return ()
  let l := line.trimAscii.toString
  if l.isEmpty then loop ops hin hout else
  hout.putStrLn (handle ops l).compress
  loop ops hin hout

def run (ops : List Op) : IO Unit := do
  let hin ← IO.getStdin
  let hout ← IO.getStdout
  loop ops hin hout
  hout.flush

end PrecondVerif.Loop
