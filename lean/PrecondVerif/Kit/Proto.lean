/-
Line-protocol helpers for the model driver (no Mathlib).
Numbers cross the protocol exactly:
  * integers as JSON integers,
  * rationals as strings "p/q" (or "p"),
  * floats as hex strings of their IEEE-754 bit pattern ("0x3ff0000000000000").
-/
import Lean.Data.Json

namespace PrecondVerif.Proto
open Lean

abbrev R := Except String

def field (j : Json) (k : String) : R Json :=
  match j.getObjVal? k with
  | .ok v => .ok v
  | .error _ => .error s!"missing field {k}"

def fieldD (j : Json) (k : String) (d : Json) : Json :=
  match j.getObjVal? k with
  | .ok v => v
  | .error _ => d

def asInt (j : Json) : R Int :=
  match j.getInt? with
  | .ok v => .ok v
  | .error e => .error s!"int expected: {e}"

def asNat (j : Json) : R Nat :=
  match j.getNat? with
  | .ok v => .ok v
  | .error e => .error s!"nat expected: {e}"

def asBool (j : Json) : R Bool :=
  match j.getBool? with
  | .ok v => .ok v
  | .error e => .error s!"bool expected: {e}"

def asStr (j : Json) : R String :=
  match j.getStr? with
  | .ok v => .ok v
  | .error e => .error s!"string expected: {e}"

def asList (j : Json) : R (List Json) :=
  match j.getArr? with
  | .ok v => .ok v.toList
  | .error e => .error s!"array expected: {e}"

def asListOf {α} (f : Json → R α) (j : Json) : R (List α) := do
  (← asList j).mapM f

def getInt (j : Json) (k : String) : R Int := do asInt (← field j k)
def getNat (j : Json) (k : String) : R Nat := do asNat (← field j k)
def getBool (j : Json) (k : String) : R Bool := do asBool (← field j k)
def getStr (j : Json) (k : String) : R String := do asStr (← field j k)
def getNats (j : Json) (k : String) : R (List Nat) := do asListOf asNat (← field j k)
def getInts (j : Json) (k : String) : R (List Int) := do asListOf asInt (← field j k)

/-- parse a decimal integer with optional leading '-' -/
def parseInt (s : String) : R Int :=
  match s.toInt? with
  | some v => .ok v
  | none => .error s!"bad integer {s}"

/-- "p/q" or "p" -/
def parseRat (s : String) : R Rat :=
  match s.splitOn "/" with
  | [p] => do let p ← parseInt p; pure (p : Rat)
  | [p, q] => do
      let p ← parseInt p
      let q ← parseInt q
      if q = 0 then .error "zero denominator" else pure ((p : Rat) / (q : Rat))
  | _ => .error s!"bad rational {s}"

def asRat (j : Json) : R Rat :=
  match j with
  | .str s => parseRat s
  | _ => match j.getInt? with
    | .ok v => .ok (v : Rat)
    | .error _ => .error "rational expected (string p/q or integer)"

def getRat (j : Json) (k : String) : R Rat := do asRat (← field j k)
def getRats (j : Json) (k : String) : R (List Rat) := do asListOf asRat (← field j k)

def ratToJson (q : Rat) : Json :=
  if q.den = 1 then Json.str s!"{q.num}" else Json.str s!"{q.num}/{q.den}"

def hexDigit (c : Char) : Option Nat :=
  if '0' ≤ c ∧ c ≤ '9' then some (c.toNat - '0'.toNat)
  else if 'a' ≤ c ∧ c ≤ 'f' then some (c.toNat - 'a'.toNat + 10)
  else if 'A' ≤ c ∧ c ≤ 'F' then some (c.toNat - 'A'.toNat + 10)
  else none

def parseHex (s : String) : R Nat := do
  let cs := s.toList
  let cs := match cs with
    | '0' :: 'x' :: rest => rest
    | _ => cs
  let mut acc : Nat := 0
  for c in cs do
    match hexDigit c with
    | some d => acc := acc * 16 + d
    | none => throw s!"bad hex {s}"
  return acc

def asFloat (j : Json) : R Float := do
  let s ← asStr j
  let n ← parseHex s
  pure (Float.ofBits n.toUInt64)

def asFloat32 (j : Json) : R Float32 := do
  let s ← asStr j
  let n ← parseHex s
  pure (Float32.ofBits n.toUInt32)

def hexOfNat (n : Nat) (digits : Nat) : String :=
  let ds := (Nat.toDigits 16 n)
  let pad := List.replicate (digits - ds.length) '0'
  "0x" ++ String.ofList (pad ++ ds)

def floatToJson (x : Float) : Json := Json.str (hexOfNat x.toBits.toNat 16)
def float32ToJson (x : Float32) : Json := Json.str (hexOfNat x.toBits.toNat 8)

def getFloats (j : Json) (k : String) : R (List Float) := do asListOf asFloat (← field j k)

def natsToJson (l : List Nat) : Json := Json.arr (l.map fun (n : Nat) => (toJson n)).toArray
def intsToJson (l : List Int) : Json := Json.arr (l.map fun (n : Int) => (toJson n)).toArray
def listToJson {α} (f : α → Json) (l : List α) : Json := Json.arr (l.map f).toArray

def obj (kvs : List (String × Json)) : Json := Json.mkObj kvs

/-- An operation table entry: name and handler. -/
abbrev Op := String × (Json → R Json)

end PrecondVerif.Proto
