/-
Bridge between the GENERATED per-dimension allocation of `tearfree/reallocation.py::create_redist_dict`
(`Gen.redistGroup`, with its nested helpers `Gen.reallocRd`, `Gen.reallocGrpInfo`, `Gen.reallocIsOutlier`; written by
`harness/py2lean.py` from the current source on every C17 run) and the hand-written model `Realloc.groupRun`
(`Model/Realloc.lean`, imported, not edited).

The generated code works on an opaque scalar type `R` through `ops : Py.RealOps R` (add, mul, div, ofInt, floor,
truthy, lt — never interpreted).  The hand model abstracts the arithmetic as `alloc : α → Int → α → Int` and needs
`+`, `0`, `<` on the scalars.  `modelRun` instantiates it with `+ := ops.add`, `0 := ops.ofInt 0`, `a < b := ops.lt a b`
and `alloc s R T := ops.floor (ops.mul s (if ops.truthy T then ops.div (ops.ofInt R) T else ops.ofInt 0))` — the
expression the generated code builds (`rd(x) - 1 = floor x`).  The bridge holds for EVERY `ops` (IEEE double, float32,
exact rationals, anything), every dimension, base rank and group with distinct keys (keys are dict keys in Python).
Kept apart from `Lemmas/GenBridge.lean` because it needs `Lemmas/Realloc.lean` (Mathlib).
-/
import PrecondVerif.Gen.Src
import PrecondVerif.Lemmas.Realloc

namespace PrecondVerif.GenRealloc
open PrecondVerif PrecondVerif.Gen

variable {R : Type} (ops : Py.RealOps R)

/-- the hand model's share arithmetic `alloc s R T = rd(s * (R / T if T else 0.0)) - 1`, built from the opaque operations -/
def allocOf (s : R) (res : Int) (T : R) : Int :=
  ops.floor (ops.mul s (if ops.truthy T then ops.div (ops.ofInt res) T else ops.ofInt 0))

/-- the structure the hand model needs on the scalar type, read off the opaque operations -/
@[reducible] def instAdd : Add R := ⟨ops.add⟩
@[reducible] def instZero : OfNat R 0 := ⟨ops.ofInt 0⟩
@[reducible] def instLT : LT R := ⟨fun a b => ops.lt a b = true⟩
@[reducible] def instDec : @DecidableLT R (instLT ops) := fun a b => inferInstanceAs (Decidable (ops.lt a b = true))

/-- `Realloc.groupRun` (the hand-written model of one group) at these operations -/
def modelRun (k : Int) (d : Nat) (group : List (Int × R)) : Except Realloc.Err (List (Int × Int)) :=
  @Realloc.groupRun Int R (instAdd ops) (instZero ops) (instLT ops) (instDec ops) (allocOf ops) k d group

/-! sorting -/
theorem sorted_eq (l : List (Int × R)) :
    Py.sortedDesc ops.lt (fun (x : Int × R) => x.2) l = @Realloc.sortDesc Int R (instLT ops) (instDec ops) l := by
  induction l with
  | nil => rfl
  | cons x xs ih =>
    simp only [Py.sortedDesc, Realloc.sortDesc, ih]
    generalize @Realloc.sortDesc Int R (instLT ops) (instDec ops) xs = ys
    induction ys with
    | nil => rfl
    | cons y ys ih2 =>
      simp only [Py.insDesc, Realloc.insDesc, ih2]
      rfl

/-! remaining scores -/
theorem remaining_eq (l : List (Int × R)) :
    List.foldl (redistGroup_loop1 ops) (ops.ofInt 0, []) l.reverse =
      (@Realloc.headD0 R (instZero ops) (@Realloc.suffixTotals R (instAdd ops) (instZero ops) (l.map Prod.snd)),
       (@Realloc.suffixTotals R (instAdd ops) (instZero ops) (l.map Prod.snd)).reverse) := by
  induction l with
  | nil => rfl
  | cons x xs ih =>
    simp only [List.reverse_cons, List.foldl_append, List.foldl_cons, List.foldl_nil, ih, redistGroup_loop1,
      List.map_cons, Realloc.suffixTotals, Realloc.headD0, List.reverse_cons]
    rfl

/-! dict facts -/
theorem dictSet_append (l : List (Int × Int)) (k v : Int) (h : k ∉ l.map Prod.fst) :
    Py.dictSet l k v = l ++ [(k, v)] := by
  induction l with
  | nil => rfl
  | cons p ps ih =>
    obtain ⟨k', v'⟩ := p
    simp only [List.map_cons, List.mem_cons, not_or] at h
    simp only [Py.dictSet]
    rw [if_neg (fun hh => h.1 hh.symm), ih h.2]
    rfl

theorem dictGet_mid (pre rest : List (Int × Int)) (k r : Int) (h : k ∉ pre.map Prod.fst) :
    Py.dictGet (pre ++ (k, r) :: rest) k = r := by
  induction pre with
  | nil => simp [Py.dictGet]
  | cons p ps ih =>
    obtain ⟨k', v'⟩ := p
    simp only [List.map_cons, List.mem_cons, not_or] at h
    simp only [List.cons_append, Py.dictGet]
    rw [if_neg (fun hh => h.1 hh.symm), ih h.2]

theorem dictSet_mid (pre rest : List (Int × Int)) (k r v : Int) (h : k ∉ pre.map Prod.fst) :
    Py.dictSet (pre ++ (k, r) :: rest) k v = pre ++ (k, v) :: rest := by
  induction pre with
  | nil => simp [Py.dictSet]
  | cons p ps ih =>
    obtain ⟨k', v'⟩ := p
    simp only [List.map_cons, List.mem_cons, not_or] at h
    simp only [List.cons_append, Py.dictSet]
    rw [if_neg (fun hh => h.1 hh.symm), ih h.2]

/-! the proportional pass -/
theorem outlier_eq (s T : R) (res d : Int) :
    reallocIsOutlier ops s T res d = decide (allocOf ops s res T > d) := by
  simp only [reallocIsOutlier, reallocRd, allocOf]
  congr 1
  apply propext
  constructor <;> intro h <;> omega

theorem pass_eq (d : Int) (l : List ((Int × R) × R)) (acc : List (Int × Int)) (res : Int)
    (hnd : (l.map fun x => x.1.1).Nodup) (hdisj : ∀ x ∈ l, x.1.1 ∉ acc.map Prod.fst) :
    (List.foldl (redistGroup_loop2 ops d) (acc, res) l).1 = acc ++ Realloc.pass (allocOf ops) d res l := by
  induction l generalizing acc res with
  | nil => simp [Realloc.pass]
  | cons x rest ih =>
    obtain ⟨⟨key, s⟩, T⟩ := x
    simp only [List.map_cons, List.nodup_cons] at hnd
    have hk : key ∉ acc.map Prod.fst := hdisj ((key, s), T) (by simp)
    simp only [List.foldl_cons, Realloc.pass]
    have hstep : redistGroup_loop2 ops d (acc, res) ((key, s), T) =
        if allocOf ops s res T > d - 1 then (acc ++ [(key, d)], res - (d - 1))
        else (acc ++ [(key, allocOf ops s res T + 1)], res - allocOf ops s res T) := by
      simp only [redistGroup_loop2, outlier_eq, reallocRd]
      by_cases hc : allocOf ops s res T > d - 1
      · simp only [hc, decide_true, if_true, dictSet_append _ _ _ hk]
      · simp only [hc, decide_false, if_false, Bool.false_eq_true, dictSet_append _ _ _ hk]
        simp only [allocOf]
        congr 1
        omega
    rw [hstep]
    have hdisj' : ∀ v : Int, ∀ y ∈ rest, y.1.1 ∉ (acc ++ [(key, v)]).map Prod.fst := by
      intro v y hy
      simp only [List.map_append, List.map_cons, List.map_nil, List.mem_append, List.mem_singleton, not_or]
      refine ⟨hdisj y (by simp [hy]), ?_⟩
      intro heq
      exact hnd.1 (heq ▸ List.mem_map_of_mem (f := fun x : (Int × R) × R => x.1.1) hy)
    split
    · rw [ih _ _ hnd.2 (hdisj' d)]; simp
    · rw [ih _ _ hnd.2 (hdisj' _)]; simp


/-! the `assert realloc[key] <= dim` loop -/
theorem assert_loop_some (d : Int) (D : List (Int × Int)) (x : Option (List (Int × Int))) (ks : List Int) :
    List.foldl (redistGroup_loop3 ops d D) (some x) ks = some x := by
  induction ks with
  | nil => rfl
  | cons k ks ih => simp only [List.foldl_cons, redistGroup_loop3, ih]

theorem assert_loop (d : Int) (D : List (Int × Int)) (ks : List Int) :
    List.foldl (redistGroup_loop3 ops d D) none ks =
      if ∀ k ∈ ks, Py.dictGet D k ≤ d then none else some none := by
  induction ks with
  | nil => simp
  | cons k ks ih =>
    simp only [List.foldl_cons, redistGroup_loop3]
    by_cases h : Py.dictGet D k ≤ d
    · simp only [h, decide_true, if_true, ih, List.forall_mem_cons, true_and]
    · simp only [h, decide_false, Bool.false_eq_true, if_false, assert_loop_some, List.forall_mem_cons, false_and]

theorem dictGet_of_mem (D : List (Int × Int)) (hnd : (D.map Prod.fst).Nodup) (p : Int × Int) (hp : p ∈ D) :
    Py.dictGet D p.1 = p.2 := by
  obtain ⟨pre, rest, rfl⟩ := List.append_of_mem hp
  obtain ⟨k, r⟩ := p
  apply dictGet_mid
  simp only [List.map_append, List.map_cons] at hnd
  have := (List.nodup_append.mp hnd).2.2
  intro hk
  exact this k hk k (by simp) rfl

theorem all_le_iff (d : Int) (D : List (Int × Int)) (hnd : (D.map Prod.fst).Nodup) :
    (∀ k ∈ Py.dictKeys D, Py.dictGet D k ≤ d) ↔ D.find? (fun p => decide (p.2 > d)) = none := by
  simp only [Py.dictKeys, List.mem_map, forall_exists_index, and_imp, List.find?_eq_none, decide_eq_true_eq]
  constructor
  · intro h p hp
    have := h p.1 p hp rfl
    rw [dictGet_of_mem D hnd p hp] at this
    omega
  · intro h k p hp hk
    subst hk
    rw [dictGet_of_mem D hnd p hp]
    have := h p hp
    omega

theorem py_sum_foldl (l : List Int) (a : Int) : List.foldl (· + ·) a l = a + l.sum := by
  induction l generalizing a with
  | nil => simp
  | cons x xs ih => simp only [List.foldl_cons, List.sum_cons, ih]; omega

theorem py_sum_values (D : List (Int × Int)) : Py.sum (Py.dictValues D) = (D.map Prod.snd).sum := by
  simp [Py.sum, Py.dictValues, py_sum_foldl]

/-! the leftover loop -/
theorem leftover_done (d : Int) (st : Int × List (Int × Int)) (xs : List (Int × R)) :
    List.foldl (redistGroup_loop4 ops d) (true, st) xs = (true, st) := by
  induction xs with
  | nil => rfl
  | cons x xs ih => simp only [List.foldl_cons, redistGroup_loop4, if_true, ih]

theorem leftover_eq (d : Int) (cur pre : List (Int × Int)) (xs : List (Int × R)) (extra : Int)
    (hk : xs.map Prod.fst = cur.map Prod.fst) (hnd : ((pre ++ cur).map Prod.fst).Nodup) :
    (List.foldl (redistGroup_loop4 ops d) (false, extra, pre ++ cur) xs).2.2 = pre ++ Realloc.leftover d extra cur := by
  induction cur generalizing pre xs extra with
  | nil =>
    cases xs with
    | nil => simp [Realloc.leftover]
    | cons x xs => simp at hk
  | cons p rest ih =>
    obtain ⟨k, r⟩ := p
    cases xs with
    | nil => simp at hk
    | cons x xs =>
      obtain ⟨k', s⟩ := x
      simp only [List.map_cons, List.cons.injEq] at hk
      obtain ⟨rfl, hk⟩ := hk
      have hkpre : k' ∉ pre.map Prod.fst := by
        simp only [List.map_append, List.map_cons] at hnd
        have := (List.nodup_append.mp hnd).2.2
        intro hmem
        exact this k' hmem k' (by simp) rfl
      simp only [List.foldl_cons, Realloc.leftover]
      have hstep : redistGroup_loop4 ops d (false, extra, pre ++ (k', r) :: rest) (k', s) =
          (decide ((if min (r + 1) d > r then extra - 1 else extra) ≤ 0),
            (if min (r + 1) d > r then extra - 1 else extra), pre ++ (k', min (r + 1) d) :: rest) := by
        simp only [redistGroup_loop4, Bool.false_eq_true, if_false, dictGet_mid _ _ _ _ hkpre, dictSet_mid _ _ _ _ _ hkpre,
          decide_eq_true_eq]
        generalize (if min (r + 1) d > r then extra - 1 else extra) = e
        by_cases hc : e ≤ 0
        · simp only [hc, decide_true, if_true]
        · simp only [hc, decide_false, if_false]
      rw [hstep]
      by_cases hc : (if min (r + 1) d > r then extra - 1 else extra) ≤ 0
      · simp only [hc, decide_true, leftover_done, if_true]
      · simp only [hc, decide_false, if_false]
        have := ih (pre ++ [(k', min (r + 1) d)]) xs (if min (r + 1) d > r then extra - 1 else extra) hk
          (by simpa [List.append_assoc] using hnd)
        simp only [List.append_assoc, List.singleton_append] at this
        rw [this]


/-- outcome of the hand model as the translated function reports it (`none` = an `assert` failed) -/
def outcome {β : Type} : Except Realloc.Err β → Option β
  | .ok r => some r
  | .error _ => none

theorem redistGroup_bridge (d : Nat) (k : Int) (group : List (Int × R)) (hnd : (group.map Prod.fst).Nodup) :
    redistGroup ops (d : Int) k group = outcome (modelRun ops k d group) := by
  have hSnd : ((@Realloc.sortDesc Int R (instLT ops) (instDec ops) group).map Prod.fst).Nodup :=
    ((@Realloc.sortDesc_perm Int R (instLT ops) (instDec ops) group).map Prod.fst).nodup_iff.mpr hnd
  have hlen : (@Realloc.suffixTotals R (instAdd ops) (instZero ops)
      ((@Realloc.sortDesc Int R (instLT ops) (instDec ops) group).map Prod.snd)).length =
      (@Realloc.sortDesc Int R (instLT ops) (instDec ops) group).length := by
    rw [@Realloc.suffixTotals_length R (instAdd ops) (instZero ops)]; simp
  have hzk := Realloc.zip_keys (@Realloc.sortDesc Int R (instLT ops) (instDec ops) group) _ hlen
  simp only [redistGroup, reallocGrpInfo, Py.len, List.length_map, sorted_eq, remaining_eq, List.reverse_reverse,
    Int.ofNat_eq_natCast]
  unfold modelRun Realloc.groupRun Realloc.groupRunGen
  simp only [Realloc.codeTotals]
  have hpass := pass_eq ops (d : Int) ((@Realloc.sortDesc Int R (instLT ops) (instDec ops) group).zip
    (@Realloc.suffixTotals R (instAdd ops) (instZero ops) ((@Realloc.sortDesc Int R (instLT ops) (instDec ops) group).map Prod.snd)))
    [] ((group.length : Int) * k - (group.length : Int)) (by rw [hzk]; exact hSnd) (by simp)
  simp only [List.nil_append] at hpass
  rw [hpass]
  have hrk := Realloc.pass_keys (allocOf ops) (d : Int) ((group.length : Int) * k - (group.length : Int))
    ((@Realloc.sortDesc Int R (instLT ops) (instDec ops) group).zip
    (@Realloc.suffixTotals R (instAdd ops) (instZero ops) ((@Realloc.sortDesc Int R (instLT ops) (instDec ops) group).map Prod.snd)))
  rw [hzk] at hrk
  obtain ⟨ranks, hr⟩ : ∃ ranks, ranks = Realloc.pass (allocOf ops) (d : Int) ((group.length : Int) * k - (group.length : Int))
    ((@Realloc.sortDesc Int R (instLT ops) (instDec ops) group).zip
    (@Realloc.suffixTotals R (instAdd ops) (instZero ops) ((@Realloc.sortDesc Int R (instLT ops) (instDec ops) group).map Prod.snd))) := ⟨_, rfl⟩
  rw [← hr] at hrk
  simp only [← hr]
  have hrnd : (ranks.map Prod.fst).Nodup := hrk ▸ hSnd
  by_cases h0 : (group.length : Int) * k < (group.length : Int)
  · have : ¬ ((group.length : Int) * k ≥ (group.length : Int)) := by omega
    simp [h0, this, outcome]
  · have h0' : (group.length : Int) * k ≥ (group.length : Int) := by omega
    simp only [h0, h0', decide_true, if_true, if_false]
    rw [assert_loop, py_sum_values]
    by_cases hall : ∀ k ∈ Py.dictKeys ranks, Py.dictGet ranks k ≤ (d : Int)
    · rw [(all_le_iff (d : Int) ranks hrnd).mp hall, if_pos hall]
      by_cases h1 : (ranks.map Prod.snd).sum > (group.length : Int) * k
      · have : ¬ ((ranks.map Prod.snd).sum ≤ (group.length : Int) * k) := by omega
        simp [h1, this, outcome]
      · have h1' : (ranks.map Prod.snd).sum ≤ (group.length : Int) * k := by omega
        simp only [h1, h1', decide_true, if_true, if_false]
        by_cases h2 : (ranks.map Prod.snd).sum < (group.length : Int) * k
        · simp only [h2, decide_true, if_true, outcome]
          have := leftover_eq ops (d : Int) ranks [] (@Realloc.sortDesc Int R (instLT ops) (instDec ops) group)
            ((group.length : Int) * k - (ranks.map Prod.snd).sum) hrk.symm (by simpa using hrnd)
          simp only [List.nil_append] at this
          rw [this]
        · simp only [h2, decide_false, if_false, Bool.false_eq_true, outcome]
    · have hne : List.find? (fun p => decide (p.2 > (d : Int))) ranks ≠ none :=
        fun hh => hall ((all_le_iff (d : Int) ranks hrnd).mpr hh)
      rw [if_neg hall]
      cases hf : List.find? (fun p => decide (p.2 > (d : Int))) ranks with
      | none => exact absurd hf hne
      | some p => simp [outcome]

end PrecondVerif.GenRealloc