/-
Lemmas for the index-level description of Tearfree `_blockify` / `_deblockify` (C06, second round):
where every entry goes, for 0, 1 and 2 large axes.
-/
import PrecondVerif.Model.ShapesIdx
import PrecondVerif.Lemmas.Blockify

namespace PrecondVerif.Shapes

/-! ### ravel / inBounds over appended shapes -/

theorem ravel_append : ∀ (s1 i1 s2 i2 : List Nat), i1.length = s1.length →
    ravel (s1 ++ s2) (i1 ++ i2) = ravel s1 i1 * prod s2 + ravel s2 i2
  | [], [], s2, i2, _ => by simp [ravel]
  | [], _ :: _, _, _, h => by simp at h
  | _ :: _, [], _, _, h => by simp at h
  | s :: s1, i :: i1, s2, i2, h => by
    have h' : i1.length = s1.length := by simpa using h
    simp only [List.cons_append, ravel, ravel_append s1 i1 s2 i2 h', prod_append]
    ring

theorem inBounds_append : ∀ (s1 i1 s2 i2 : List Nat), i1.length = s1.length →
    (inBounds (s1 ++ s2) (i1 ++ i2) ↔ inBounds s1 i1 ∧ inBounds s2 i2)
  | [], [], s2, i2, _ => by simp [inBounds]
  | [], _ :: _, _, _, h => by simp at h
  | _ :: _, [], _, _, h => by simp at h
  | s :: s1, i :: i1, s2, i2, h => by
    have h' : i1.length = s1.length := by simpa using h
    simp only [List.cons_append, inBounds, inBounds_append s1 i1 s2 i2 h', and_assoc]

/-- an in-bounds index of an appended shape splits accordingly -/
theorem inBounds_append_split : ∀ (s1 s2 x : List Nat), inBounds (s1 ++ s2) x →
    ∃ x1 x2, x = x1 ++ x2 ∧ x1.length = s1.length ∧ inBounds s1 x1 ∧ inBounds s2 x2
  | [], s2, x, h => ⟨[], x, rfl, rfl, trivial, h⟩
  | s :: s1, s2, [], h => by simp [inBounds] at h
  | s :: s1, s2, i :: x, h => by
    simp only [List.cons_append, inBounds] at h
    obtain ⟨x1, x2, rfl, hl, h1, h2⟩ := inBounds_append_split s1 s2 x h.2
    exact ⟨i :: x1, x2, rfl, by simp [hl], ⟨h.1, h1⟩, h2⟩

theorem unravel_of_ravel_eq (s j : List Nat) (k : Nat) (hj : inBounds s j) (hk : ravel s j = k) :
    unravel s k = j := by
  rw [← hk, unravel_ravel s j hj]

/-- reshape read through an index with the same row-major position -/
theorem reshape_get_of_ravel_eq {α} (t : Tensor α) (s x j : List Nat) (hj : inBounds t.shape j)
    (h : ravel t.shape j = ravel s x) : (t.reshape s).get x = t.get j := by
  simp only [Tensor.reshape]
  rw [unravel_of_ravel_eq t.shape j _ hj h]

theorem divmod_lt (u n b : Nat) (w : Nat) (hu : u < n) (hw : w < b) : u * b + w < n * b := by
  calc u * b + w < u * b + b := by omega
    _ = (u + 1) * b := by ring
    _ ≤ n * b := Nat.mul_le_mul_right _ hu

/-! ### the two permutations as index maps -/

theorem fwd_bwd_inverse (N l r k : Nat) (h1 : l + 1 < r) (h2 : r < N) (hk : k < N) :
    ∃ a, (fwdPerm N l r)[k]? = some a ∧ (bwdPerm N l r)[a]? = some k := by
  by_cases c1 : k ≤ l
  · refine ⟨k, ?_, ?_⟩
    · rw [fwdPerm_getElem? N l r k h1 h2 hk]; simp [c1]
    · rw [bwdPerm_getElem? N l r k h1 h2 hk]; simp [c1]
  · by_cases c2 : k = l + 1
    · refine ⟨r, ?_, ?_⟩
      · rw [fwdPerm_getElem? N l r k h1 h2 hk]; simp [c1, c2]
      · rw [bwdPerm_getElem? N l r r h1 h2 h2]
        have a1 : ¬ r ≤ l := by omega
        simp [a1, c2]
    · by_cases c3 : k ≤ r
      · refine ⟨k - 1, ?_, ?_⟩
        · rw [fwdPerm_getElem? N l r k h1 h2 hk]; simp [c1, c2, c3]
        · rw [bwdPerm_getElem? N l r (k - 1) h1 h2 (by omega)]
          have a1 : ¬ k - 1 ≤ l := by omega
          have a2 : k - 1 < r := by omega
          simp [a1, a2]; omega
      · refine ⟨k, ?_, ?_⟩
        · rw [fwdPerm_getElem? N l r k h1 h2 hk]; simp [c1, c2, c3]
        · rw [bwdPerm_getElem? N l r k h1 h2 hk]
          have a2 : ¬ k < r := by omega
          have a3 : ¬ k = r := by omega
          simp [c1, a2, a3]

theorem idxOf_of_inverse (p q : List Nat) (k a : Nat) (hp : p.Nodup) (h1 : q[k]? = some a) (h2 : p[a]? = some k) :
    p.idxOf k = a := by
  have ha : a < p.length := by
    rcases Nat.lt_or_ge a p.length with h | h
    · exact h
    · rw [List.getElem?_eq_none h] at h2; cases h2
  have := hp.idxOf_getElem a ha
  rw [List.getElem?_eq_getElem ha] at h2
  simp only [Option.some.injEq] at h2
  rw [h2] at this; exact this

/-- reading through `transpose (fwdPerm …)`: position `l+1` of the index goes back to position `r` -/
theorem fwdPerm_index (N l r : Nat) (z : List Nat) (h1 : l + 1 < r) (h2 : r < N) (hz : z.length = N) :
    ((List.range N).map fun k => z.getD ((fwdPerm N l r).idxOf k) 0) =
      insertAt (popAt z (l + 1)) r (z.getD (l + 1) 0) := by
  apply List.ext_getElem?
  intro k
  have hpl : (popAt z (l + 1)).length = N - 1 := by rw [popAt_length _ _ (by omega)]; omega
  rw [insertAt_getElem? _ _ _ _ (by omega)]
  simp only [popAt_getElem?]
  by_cases hk : k < N
  · obtain ⟨a, ha1, ha2⟩ := bwd_fwd_inverse N l r k h1 h2 hk
    have hidx := idxOf_of_inverse (fwdPerm N l r) (bwdPerm N l r) k a (fwdPerm_nodup N l r h2) ha1 ha2
    rw [bwdPerm_getElem? N l r k h1 h2 hk] at ha1
    simp only [Option.some.injEq] at ha1
    simp only [List.getElem?_map, List.getElem?_range hk, Option.map_some, hidx]
    subst ha1
    by_cases c1 : k ≤ l
    · have : k < r := by omega
      have : k < l + 1 := by omega
      simp [*, List.getD_eq_getElem?_getD, hz, hk]
    · by_cases c2 : k < r
      · have a1 : ¬ k < l + 1 := by omega
        have a2 : k + 1 < z.length := by omega
        simp [*, List.getD_eq_getElem?_getD, List.getElem?_eq_getElem a2]
      · by_cases c3 : k = r
        · subst c3
          have a2 : l + 1 < z.length := by omega
          simp [*, List.getD_eq_getElem?_getD]
        · have a1 : ¬ k - 1 < l + 1 := by omega
          have a3 : k - 1 + 1 = k := by omega
          have a4 : k < z.length := by omega
          simp [*, List.getD_eq_getElem?_getD]
  · rw [List.getElem?_eq_none (by simp; omega)]
    have a1 : ¬ k < r := by omega
    have a2 : ¬ k = r := by omega
    have a3 : ¬ k - 1 < l + 1 := by omega
    simp only [a1, a2, a3, if_false]
    rw [List.getElem?_eq_none (by omega)]

/-- reading through `transpose (bwdPerm …)`: position `r` of the index goes back to position `l+1` -/
theorem bwdPerm_index (N l r : Nat) (z : List Nat) (h1 : l + 1 < r) (h2 : r < N) (hz : z.length = N) :
    ((List.range N).map fun k => z.getD ((bwdPerm N l r).idxOf k) 0) =
      insertAt (popAt z r) (l + 1) (z.getD r 0) := by
  apply List.ext_getElem?
  intro k
  have hpl : (popAt z r).length = N - 1 := by rw [popAt_length _ _ (by omega)]; omega
  rw [insertAt_getElem? _ _ _ _ (by omega)]
  simp only [popAt_getElem?]
  by_cases hk : k < N
  · obtain ⟨a, ha1, ha2⟩ := fwd_bwd_inverse N l r k h1 h2 hk
    have hidx := idxOf_of_inverse (bwdPerm N l r) (fwdPerm N l r) k a (bwdPerm_nodup N l r h1 h2) ha1 ha2
    rw [fwdPerm_getElem? N l r k h1 h2 hk] at ha1
    simp only [Option.some.injEq] at ha1
    simp only [List.getElem?_map, List.getElem?_range hk, Option.map_some, hidx]
    subst ha1
    by_cases c1 : k ≤ l
    · have : k < r := by omega
      have : k < l + 1 := by omega
      simp [*, List.getD_eq_getElem?_getD, hz, hk]
    · by_cases c2 : k = l + 1
      · subst c2
        have a2 : r < z.length := by omega
        simp [*, List.getD_eq_getElem?_getD]
      · by_cases c3 : k ≤ r
        · have a1 : ¬ k < l + 1 := by omega
          have a2 : k - 1 < r := by omega
          have a4 : k - 1 < z.length := by omega
          simp [*, List.getD_eq_getElem?_getD, List.getElem?_eq_getElem a4]
        · have a1 : ¬ k < l + 1 := by omega
          have a2 : ¬ k - 1 < r := by omega
          have a3 : k - 1 + 1 = k := by omega
          have a4 : k < z.length := by omega
          simp [*, List.getD_eq_getElem?_getD]
  · rw [List.getElem?_eq_none (by simp; omega)]
    have a1 : ¬ k < l + 1 := by omega
    have a2 : ¬ k = l + 1 := by omega
    have a3 : ¬ k - 1 < r := by omega
    simp only [a1, a2, a3, if_false]
    rw [List.getElem?_eq_none (by omega)]


/-! ### two large axes: `_blockify` entry by entry -/

theorem blockifyTwo_get {α} (t : Tensor α) (bef mid aft : List Nat) (lB rB bs : Nat)
    (hshape : t.shape = bef ++ (lB * bs) :: (mid ++ (rB * bs) :: aft))
    (xp xm xq : List Nat) (blk i j : Nat)
    (hp : inBounds bef xp) (hm : inBounds mid xm) (hq : inBounds aft xq)
    (hblk : blk < lB * rB) (hi : i < bs) (hj : j < bs) :
    (blockifyTwo t bef mid aft lB rB bs (lB * rB)).get (xp ++ blk :: i :: (xm ++ j :: xq)) =
      t.get (xp ++ (blk / rB * bs + i) :: (xm ++ (blk % rB * bs + j) :: xq)) ∧
    inBounds t.shape (xp ++ (blk / rB * bs + i) :: (xm ++ (blk % rB * bs + j) :: xq)) := by
  have hlp := inBounds_length hp
  have hlm := inBounds_length hm
  have hrB : 0 < rB := by
    rcases Nat.eq_zero_or_pos rB with h | h
    · subst h; simp at hblk
    · exact h
  have hbl : blk / rB < lB := by rw [Nat.div_lt_iff_lt_mul hrB]; exact hblk
  have hbr : blk % rB < rB := Nat.mod_lt _ hrB
  have hdm : blk = blk / rB * rB + blk % rB := (Nat.div_add_mod' blk rB).symm
  obtain ⟨u, hu⟩ : ∃ u, u = blk / rB := ⟨_, rfl⟩
  obtain ⟨v, hv⟩ : ∃ v, v = blk % rB := ⟨_, rfl⟩
  simp only [← hu, ← hv] at hbl hbr hdm ⊢
  -- names
  obtain ⟨SS, hSS⟩ : ∃ SS, SS = bef ++ lB :: bs :: (mid ++ rB :: bs :: aft) := ⟨_, rfl⟩
  obtain ⟨NS, hNS⟩ : ∃ NS, NS = bef ++ (lB * rB) :: bs :: (mid ++ bs :: aft) := ⟨_, rfl⟩
  have hN : SS.length = bef.length + mid.length + aft.length + 4 := by subst hSS; simp; omega
  have hr : bef.length + 2 + mid.length < SS.length := by omega
  obtain ⟨y, hy⟩ : ∃ y, y = (t.reshape SS).transpose (fwdPerm SS.length bef.length (bef.length + 2 + mid.length)) :=
    ⟨_, rfl⟩
  have hys : y.shape = bef ++ lB :: rB :: bs :: (mid ++ bs :: aft) := by
    subst hy
    simp only [Tensor.transpose, Tensor.reshape]
    have := fwdPerm_map_shape bef mid aft lB rB bs
    simp only [List.append_assoc, List.cons_append, List.nil_append] at this
    subst hSS
    exact this
  have hb : blockifyTwo t bef mid aft lB rB bs (lB * rB) = y.reshape NS := by
    subst hy hSS hNS
    simp only [blockifyTwo, fwdPerm, List.append_assoc, List.cons_append, List.nil_append]
  rw [hb]
  -- the inner index is in bounds
  have hJ : inBounds t.shape (xp ++ (u * bs + i) :: (xm ++ (v * bs + j) :: xq)) := by
    rw [hshape, inBounds_append _ _ _ _ hlp]
    simp only [inBounds]
    rw [inBounds_append _ _ _ _ hlm]
    simp only [inBounds]
    exact ⟨hp, divmod_lt u lB bs i hbl hi, hm, divmod_lt v rB bs j hbr hj, hq⟩
  refine ⟨?_, hJ⟩
  -- step A: undo the final reshape
  have hz : inBounds y.shape (xp ++ u :: v :: i :: (xm ++ j :: xq)) := by
    rw [hys, inBounds_append _ _ _ _ hlp]
    simp only [inBounds]
    rw [inBounds_append _ _ _ _ hlm]
    simp only [inBounds]
    exact ⟨hp, hbl, hbr, hi, hm, hj, hq⟩
  have hA : (y.reshape NS).get (xp ++ blk :: i :: (xm ++ j :: xq)) =
      y.get (xp ++ u :: v :: i :: (xm ++ j :: xq)) := by
    apply reshape_get_of_ravel_eq y NS _ _ hz
    rw [hys, hNS, ravel_append _ _ _ _ hlp, ravel_append _ _ _ _ hlp]
    simp only [ravel, ravel_append _ _ _ _ hlm, prod_append, prod_cons]
    rw [hdm]; ring
  rw [hA]
  -- step B: the transpose
  have hzl : (xp ++ u :: v :: i :: (xm ++ j :: xq)).length = SS.length := by
    rw [hN]; simp [hlp, hlm, inBounds_length hq]; omega
  have hB : y.get (xp ++ u :: v :: i :: (xm ++ j :: xq)) =
      (t.reshape SS).get (xp ++ u :: i :: (xm ++ v :: j :: xq)) := by
    subst hy
    simp only [Tensor.transpose]
    rw [show (t.reshape SS).shape.length = SS.length from rfl,
      fwdPerm_index SS.length bef.length (bef.length + 2 + mid.length) _ (by omega) hr hzl]
    congr 1
    have e1 : xp ++ u :: v :: i :: (xm ++ j :: xq) = (xp ++ [u]) ++ v :: (i :: (xm ++ j :: xq)) := by simp
    have l1 : bef.length + 1 = (xp ++ [u]).length := by simp [hlp]
    rw [e1, l1, popAt_append_cons]
    have g1 : ((xp ++ [u]) ++ v :: (i :: (xm ++ j :: xq))).getD (xp ++ [u]).length 0 = v := by
      rw [List.getD_eq_getElem?_getD]; simp
    rw [g1]
    have e2 : (xp ++ [u]) ++ (i :: (xm ++ j :: xq)) = (xp ++ u :: i :: xm) ++ (j :: xq) := by simp
    have l2 : bef.length + 2 + mid.length = (xp ++ u :: i :: xm).length := by simp [hlp, hlm]; omega
    rw [e2, l2, insertAt_append]
    simp
  rw [hB]
  -- step C: undo the first reshape
  apply reshape_get_of_ravel_eq t SS _ _ hJ
  rw [hshape, hSS, ravel_append _ _ _ _ hlp, ravel_append _ _ _ _ hlp]
  simp only [ravel, ravel_append _ _ _ _ hlm, prod_append, prod_cons]
  ring


/-! ### two large axes: `_deblockify` entry by entry -/

theorem bwdPerm_map_shape (bef mid aft : List Nat) (lB rB bs : Nat) :
    (bwdPerm (bef ++ lB :: rB :: bs :: (mid ++ bs :: aft)).length bef.length
        (bef.length + 2 + mid.length)).map
      (fun a => (bef ++ lB :: rB :: bs :: (mid ++ bs :: aft)).getD a 0) =
    bef ++ lB :: bs :: (mid ++ rB :: bs :: aft) := by
  unfold bwdPerm
  rw [map_insertAt_popAt, range_map_getD]
  have e1 : bef ++ lB :: rB :: bs :: (mid ++ bs :: aft) = (bef ++ [lB]) ++ rB :: (bs :: (mid ++ bs :: aft)) := by
    simp
  have l1 : bef.length + 1 = (bef ++ [lB]).length := by simp
  have g1 : ((bef ++ [lB]) ++ rB :: (bs :: (mid ++ bs :: aft))).getD (bef ++ [lB]).length 0 = rB := by
    rw [List.getD_eq_getElem?_getD]; simp
  rw [e1, l1, g1, popAt_append_cons]
  have e2 : (bef ++ [lB]) ++ (bs :: (mid ++ bs :: aft)) = (bef ++ lB :: bs :: mid) ++ (bs :: aft) := by simp
  have l2 : bef.length + 2 + mid.length = (bef ++ lB :: bs :: mid).length := by simp; omega
  rw [e2, l2, insertAt_append]
  simp

theorem deblockifyTwo_get {α} (X : Tensor α) (bef mid aft : List Nat) (lB rB bs : Nat) (PS : List Nat)
    (hX : X.shape = bef ++ (lB * rB) :: bs :: (mid ++ bs :: aft))
    (hPS : PS = bef ++ (lB * bs) :: (mid ++ (rB * bs) :: aft))
    (ip im iq : List Nat) (ia ic : Nat)
    (hp : inBounds bef ip) (hm : inBounds mid im) (hq : inBounds aft iq)
    (ha : ia < lB * bs) (hc : ic < rB * bs) :
    (deblockifyTwo X bef.length (bef.length + 1 + mid.length) [lB, rB] PS).get (ip ++ ia :: (im ++ ic :: iq)) =
      X.get (ip ++ (ia / bs * rB + ic / bs) :: (ia % bs) :: (im ++ (ic % bs) :: iq)) ∧
    inBounds X.shape (ip ++ (ia / bs * rB + ic / bs) :: (ia % bs) :: (im ++ (ic % bs) :: iq)) := by
  have hlp := inBounds_length hp
  have hlm := inBounds_length hm
  have hbs : 0 < bs := by
    rcases Nat.eq_zero_or_pos bs with h | h
    · subst h; simp at ha
    · exact h
  have hua : ia / bs < lB := by rw [Nat.div_lt_iff_lt_mul hbs]; exact ha
  have huc : ic / bs < rB := by rw [Nat.div_lt_iff_lt_mul hbs]; exact hc
  have hva : ia % bs < bs := Nat.mod_lt _ hbs
  have hvc : ic % bs < bs := Nat.mod_lt _ hbs
  have hda : ia = ia / bs * bs + ia % bs := (Nat.div_add_mod' ia bs).symm
  have hdc : ic = ic / bs * bs + ic % bs := (Nat.div_add_mod' ic bs).symm
  obtain ⟨ua, hua'⟩ : ∃ u, u = ia / bs := ⟨_, rfl⟩
  obtain ⟨uc, huc'⟩ : ∃ u, u = ic / bs := ⟨_, rfl⟩
  obtain ⟨va, hva'⟩ : ∃ u, u = ia % bs := ⟨_, rfl⟩
  obtain ⟨vc, hvc'⟩ : ∃ u, u = ic % bs := ⟨_, rfl⟩
  simp only [← hua', ← huc', ← hva', ← hvc'] at hua huc hva hvc hda hdc ⊢
  obtain ⟨SS, hSS⟩ : ∃ SS, SS = bef ++ lB :: bs :: (mid ++ rB :: bs :: aft) := ⟨_, rfl⟩
  obtain ⟨YS, hYS⟩ : ∃ YS, YS = bef ++ lB :: rB :: bs :: (mid ++ bs :: aft) := ⟨_, rfl⟩
  have hN : YS.length = bef.length + mid.length + aft.length + 4 := by subst hYS; simp; omega
  have hr : bef.length + 2 + mid.length < YS.length := by omega
  obtain ⟨T, hT⟩ : ∃ T, T = (X.reshape YS).transpose (bwdPerm YS.length bef.length (bef.length + 2 + mid.length)) :=
    ⟨_, rfl⟩
  have hTs : T.shape = SS := by
    subst hT hSS
    simp only [Tensor.transpose, Tensor.reshape]
    subst hYS
    exact bwdPerm_map_shape bef mid aft lB rB bs
  have hd : deblockifyTwo X bef.length (bef.length + 1 + mid.length) [lB, rB] PS = T.reshape PS := by
    subst hT
    unfold deblockifyTwo
    have htake : X.shape.take bef.length = bef := by rw [hX]; simp
    have hdrop : X.shape.drop (bef.length + 1) = bs :: (mid ++ bs :: aft) := by
      rw [hX]
      have : bef ++ (lB * rB) :: bs :: (mid ++ bs :: aft) = (bef ++ [lB * rB]) ++ (bs :: (mid ++ bs :: aft)) := by
        simp
      rw [this, List.drop_left' (by simp)]
    simp only [htake, hdrop]
    have e : bef ++ [lB, rB] ++ bs :: (mid ++ bs :: aft) = YS := by subst hYS; simp
    rw [e]
    have e3 : bef.length + 1 + mid.length + 1 = bef.length + 2 + mid.length := by omega
    rw [e3]
    rfl
  rw [hd]
  have hJ : inBounds X.shape (ip ++ (ua * rB + uc) :: va :: (im ++ vc :: iq)) := by
    rw [hX, inBounds_append _ _ _ _ hlp]
    simp only [inBounds]
    rw [inBounds_append _ _ _ _ hlm]
    simp only [inBounds]
    exact ⟨hp, divmod_lt ua lB rB uc hua huc, hva, hm, hvc, hq⟩
  refine ⟨?_, hJ⟩
  -- step A
  have hw : inBounds T.shape (ip ++ ua :: va :: (im ++ uc :: vc :: iq)) := by
    rw [hTs, hSS, inBounds_append _ _ _ _ hlp]
    simp only [inBounds]
    rw [inBounds_append _ _ _ _ hlm]
    simp only [inBounds]
    exact ⟨hp, hua, hva, hm, huc, hvc, hq⟩
  have hA : (T.reshape PS).get (ip ++ ia :: (im ++ ic :: iq)) =
      T.get (ip ++ ua :: va :: (im ++ uc :: vc :: iq)) := by
    apply reshape_get_of_ravel_eq T PS _ _ hw
    rw [hTs, hSS, hPS, ravel_append _ _ _ _ hlp, ravel_append _ _ _ _ hlp]
    simp only [ravel, ravel_append _ _ _ _ hlm, prod_append, prod_cons]
    rw [hda, hdc]; ring
  rw [hA]
  -- step B
  have hwl : (ip ++ ua :: va :: (im ++ uc :: vc :: iq)).length = YS.length := by
    rw [hN]; simp [hlp, hlm, inBounds_length hq]; omega
  have hB : T.get (ip ++ ua :: va :: (im ++ uc :: vc :: iq)) =
      (X.reshape YS).get (ip ++ ua :: uc :: va :: (im ++ vc :: iq)) := by
    subst hT
    simp only [Tensor.transpose]
    rw [show (X.reshape YS).shape.length = YS.length from rfl,
      bwdPerm_index YS.length bef.length (bef.length + 2 + mid.length) _ (by omega) hr hwl]
    congr 1
    have e1 : ip ++ ua :: va :: (im ++ uc :: vc :: iq) = (ip ++ ua :: va :: im) ++ uc :: (vc :: iq) := by simp
    have l1 : bef.length + 2 + mid.length = (ip ++ ua :: va :: im).length := by simp [hlp, hlm]; omega
    rw [e1, l1, popAt_append_cons]
    have g1 : ((ip ++ ua :: va :: im) ++ uc :: (vc :: iq)).getD (ip ++ ua :: va :: im).length 0 = uc := by
      rw [List.getD_eq_getElem?_getD]; simp
    rw [g1]
    have e2 : (ip ++ ua :: va :: im) ++ (vc :: iq) = (ip ++ [ua]) ++ (va :: (im ++ vc :: iq)) := by simp
    have l2 : bef.length + 1 = (ip ++ [ua]).length := by simp [hlp]
    rw [e2, l2, insertAt_append]
    simp
  rw [hB]
  -- step C
  apply reshape_get_of_ravel_eq X YS _ _ hJ
  rw [hX, hYS, ravel_append _ _ _ _ hlp, ravel_append _ _ _ _ hlp]
  simp only [ravel, ravel_append _ _ _ _ hlm, prod_append, prod_cons]
  ring


/-! ### at most one large axis: pure reshapes, entry by entry -/

theorem blockifyOne_get {α} (t : Tensor α) (A C : List Nat) (n b : Nat) (hshape : t.shape = A ++ (n * b) :: C)
    (xa xc : List Nat) (u w : Nat) (hA : inBounds A xa) (hC : inBounds C xc) (hu : u < n) (hw : w < b) :
    (t.reshape (A ++ n :: b :: C)).get (xa ++ u :: w :: xc) = t.get (xa ++ (u * b + w) :: xc) ∧
    inBounds t.shape (xa ++ (u * b + w) :: xc) := by
  have hl := inBounds_length hA
  have hJ : inBounds t.shape (xa ++ (u * b + w) :: xc) := by
    rw [hshape, inBounds_append _ _ _ _ hl]
    simp only [inBounds]
    exact ⟨hA, divmod_lt u n b w hu hw, hC⟩
  refine ⟨?_, hJ⟩
  apply reshape_get_of_ravel_eq t _ _ _ hJ
  rw [hshape, ravel_append _ _ _ _ hl, ravel_append _ _ _ _ hl]
  simp only [ravel, prod_cons]
  ring

theorem deblockifyOne_get {α} (X : Tensor α) (A C : List Nat) (n b : Nat) (hX : X.shape = A ++ n :: b :: C)
    (ip iq : List Nat) (ia : Nat) (hA : inBounds A ip) (hC : inBounds C iq) (ha : ia < n * b) :
    (X.reshape (A ++ (n * b) :: C)).get (ip ++ ia :: iq) = X.get (ip ++ (ia / b) :: (ia % b) :: iq) ∧
    inBounds X.shape (ip ++ (ia / b) :: (ia % b) :: iq) := by
  have hl := inBounds_length hA
  have hb : 0 < b := by
    rcases Nat.eq_zero_or_pos b with h | h
    · subst h; simp at ha
    · exact h
  have hJ : inBounds X.shape (ip ++ (ia / b) :: (ia % b) :: iq) := by
    rw [hX, inBounds_append _ _ _ _ hl]
    simp only [inBounds]
    exact ⟨hA, by rw [Nat.div_lt_iff_lt_mul hb]; exact ha, Nat.mod_lt _ hb, hC⟩
  refine ⟨?_, hJ⟩
  apply reshape_get_of_ravel_eq X _ _ _ hJ
  rw [hX, ravel_append _ _ _ _ hl, ravel_append _ _ _ _ hl]
  simp only [ravel, prod_cons]
  have hd : ia = ia / b * b + ia % b := (Nat.div_add_mod' ia b).symm
  conv_rhs => rw [hd]
  ring

theorem blockifyZero_get {α} (t : Tensor α) (inner : List Nat) (h : inBounds t.shape inner) :
    (t.reshape (1 :: t.shape)).get (0 :: inner) = t.get inner := by
  apply reshape_get_of_ravel_eq t _ _ _ h
  simp [ravel]

theorem deblockifyZero_get {α} (X : Tensor α) (S idx : List Nat) (hX : X.shape = 1 :: S) (h : inBounds S idx) :
    (X.reshape S).get idx = X.get (0 :: idx) := by
  apply reshape_get_of_ravel_eq X _ _ _ (by rw [hX]; exact ⟨Nat.one_pos, h⟩)
  rw [hX]; simp [ravel]

/-! ### list surgery used to evaluate the closed index maps -/

theorem set_at_len (A B : List Nat) (x v : Nat) : (A ++ x :: B).set A.length v = A ++ v :: B := by
  simp

theorem getD_at_len (A B : List Nat) (x : Nat) : (A ++ x :: B).getD A.length 0 = x := by
  rw [List.getD_eq_getElem?_getD]; simp

theorem addOff_zeros : ∀ (n : Nat) (l : List Nat), l.length ≤ n → addOff (List.replicate n 0) l = l
  | _, [], _ => by simp [addOff]
  | 0, _ :: _, h => by simp at h
  | n + 1, x :: l, h => by
    have := addOff_zeros n l (by simpa using h)
    simp only [addOff] at this
    simp [addOff, List.replicate_succ, this]

theorem addOff_append (A A' B B' : List Nat) (h : A.length = B.length) :
    addOff (A ++ A') (B ++ B') = addOff A B ++ addOff A' B' := by
  simp [addOff, List.zipWith_append h]

theorem replicate_set (p q v : Nat) :
    (List.replicate (p + 1 + q) 0).set p v = List.replicate p 0 ++ v :: List.replicate q 0 := by
  have e : List.replicate (p + 1 + q) 0 = List.replicate p 0 ++ 0 :: List.replicate q 0 := by
    rw [Nat.add_assoc, List.replicate_add, Nat.add_comm 1 q, List.replicate_succ]
  have h := set_at_len (List.replicate p 0) (List.replicate q 0) 0 v
  rw [List.length_replicate] at h
  rw [e, h]

theorem replicate_set_two (p q s va vc : Nat) :
    ((List.replicate (p + 1 + (q + 1 + s)) 0).set p va).set (p + 1 + q) vc =
      List.replicate p 0 ++ va :: (List.replicate q 0 ++ vc :: List.replicate s 0) := by
  rw [replicate_set p (q + 1 + s) va]
  have e : List.replicate p 0 ++ va :: List.replicate (q + 1 + s) 0 =
      (List.replicate p 0 ++ va :: List.replicate q 0) ++ 0 :: List.replicate s 0 := by
    rw [Nat.add_assoc q, List.replicate_add, Nat.add_comm 1 s, List.replicate_succ]
    simp
  have h := set_at_len (List.replicate p 0 ++ va :: List.replicate q 0) (List.replicate s 0) 0 vc
  have hl : (List.replicate p 0 ++ va :: List.replicate q 0).length = p + 1 + q := by simp; omega
  rw [hl] at h
  rw [e, h]
  simp


/-! ### the three layouts Tearfree accepts -/

theorem small_map (A : List Nat) (b : Nat) (h : ∀ d ∈ A, d < b) : A.map (min · b) = A := by
  induction A with
  | nil => rfl
  | cons a A ih =>
    have ha : a < b := h a (by simp)
    simp only [List.map_cons, ih (fun d hd => h d (by simp [hd]))]
    rw [Nat.min_eq_left (Nat.le_of_lt ha)]

theorem largeAxes_mem (b : Nat) (S : List Nat) (k : Nat) :
    k ∈ (blocksMetadata b S).largeAxes ↔ k < S.length ∧ b ≤ S.getD k 0 := by
  simp [blocksMetadata]

theorem mem_take_drop (S : List Nat) (lo n d : Nat) (h : d ∈ (S.drop lo).take n) :
    ∃ k, lo ≤ k ∧ k < lo + n ∧ k < S.length ∧ S.getD k 0 = d := by
  obtain ⟨i, hi, rfl⟩ := List.mem_iff_getElem.mp h
  simp only [List.length_take, List.length_drop] at hi
  refine ⟨lo + i, by omega, by omega, by omega, ?_⟩
  rw [List.getD_eq_getElem?_getD, List.getElem?_eq_getElem (by omega)]
  simp

/-- The accepted layouts, made explicit: no large axis; one large axis `n·b` between small axes; two large
axes `lB·b`, `rB·b` with small axes before, between and after. -/
theorem blocks_cases (S : List Nat) (b : Nat) (hb : 0 < b)
    (hle : (blocksMetadata b S).largeAxes.length ≤ 2)
    (hdiv : ∀ a ∈ (blocksMetadata b S).largeAxes, b ∣ S.getD a 0) :
    ((blocksMetadata b S).largeAxes = [] ∧ ∀ d ∈ S, d < b) ∨
    (∃ A C n, (blocksMetadata b S).largeAxes = [A.length] ∧ S = A ++ (n * b) :: C ∧
      (∀ d ∈ A, d < b) ∧ (∀ d ∈ C, d < b) ∧ 0 < n) ∨
    (∃ A M C lB rB, (blocksMetadata b S).largeAxes = [A.length, A.length + 1 + M.length] ∧
      S = A ++ (lB * b) :: (M ++ (rB * b) :: C) ∧
      (∀ d ∈ A, d < b) ∧ (∀ d ∈ M, d < b) ∧ (∀ d ∈ C, d < b) ∧ 0 < lB ∧ 0 < rB) := by
  have hsmall : ∀ k, k < S.length → k ∉ (blocksMetadata b S).largeAxes → S.getD k 0 < b := by
    intro k hk hn
    rw [largeAxes_mem] at hn
    by_cases h : b ≤ S.getD k 0
    · exact absurd ⟨hk, h⟩ hn
    · omega
  have hquot : ∀ a, a ∈ (blocksMetadata b S).largeAxes → ∃ n, S.getD a 0 = n * b ∧ 0 < n := by
    intro a ha
    obtain ⟨n, hn⟩ := hdiv a ha
    have hge := ((largeAxes_mem b S a).mp ha).2
    refine ⟨n, by rw [hn, Nat.mul_comm], ?_⟩
    rcases Nat.eq_zero_or_pos n with h0 | h0
    · subst h0; rw [Nat.mul_zero] at hn; omega
    · exact h0
  match hla : (blocksMetadata b S).largeAxes with
  | [] =>
    left
    refine ⟨rfl, ?_⟩
    intro d hd
    obtain ⟨k, _, _, hk, rfl⟩ := mem_take_drop S 0 S.length d (by simpa using hd)
    exact hsmall k hk (by rw [hla]; simp)
  | [a] =>
    right; left
    have ha : a < S.length := ((largeAxes_mem b S a).mp (by rw [hla]; simp)).1
    obtain ⟨n, hn, hn0⟩ := hquot a (by rw [hla]; simp)
    refine ⟨S.take a, S.drop (a + 1), n, by simp [Nat.min_eq_left (Nat.le_of_lt ha)], ?_, ?_, ?_, hn0⟩
    · rw [← hn]; exact list_split_at S a ha
    · intro d hd
      obtain ⟨k, _, h2, hk, rfl⟩ := mem_take_drop S 0 a d (by simpa using hd)
      exact hsmall k hk (by rw [hla]; simp; omega)
    · intro d hd
      obtain ⟨k, h1, _, hk, rfl⟩ := mem_take_drop S (a + 1) (S.length - (a + 1)) d
        (by rw [List.take_of_length_le (by simp)]; exact hd)
      exact hsmall k hk (by rw [hla]; simp; omega)
  | [a, c] =>
    right; right
    have hsorted : List.Pairwise (· < ·) (blocksMetadata b S).largeAxes :=
      List.Pairwise.filter _ List.pairwise_lt_range
    rw [hla] at hsorted
    have hac : a < c := by simpa using hsorted
    have hc : c < S.length := ((largeAxes_mem b S c).mp (by rw [hla]; simp)).1
    obtain ⟨lB, hlB, hlB0⟩ := hquot a (by rw [hla]; simp)
    obtain ⟨rB, hrB, hrB0⟩ := hquot c (by rw [hla]; simp)
    refine ⟨S.take a, (S.drop (a + 1)).take (c - a - 1), S.drop (c + 1), lB, rB, ?_, ?_, ?_, ?_, ?_, hlB0, hrB0⟩
    · have h1 : (S.take a).length = a := by simp; omega
      have h2 : ((S.drop (a + 1)).take (c - a - 1)).length = c - a - 1 := by simp; omega
      rw [h1, h2]
      have : a + 1 + (c - a - 1) = c := by omega
      rw [this]
    · rw [← hlB, ← hrB]
      have := list_split_two S a c hac hc
      simpa using this
    · intro d hd
      obtain ⟨k, _, h2, hk, rfl⟩ := mem_take_drop S 0 a d (by simpa using hd)
      exact hsmall k hk (by rw [hla]; simp; omega)
    · intro d hd
      obtain ⟨k, h1, h2, hk, rfl⟩ := mem_take_drop S (a + 1) (c - a - 1) d hd
      exact hsmall k hk (by rw [hla]; simp; omega)
    · intro d hd
      obtain ⟨k, h1, _, hk, rfl⟩ := mem_take_drop S (c + 1) (S.length - (c + 1)) d
        (by rw [List.take_of_length_le (by simp)]; exact hd)
      exact hsmall k hk (by rw [hla]; simp; omega)
  | _ :: _ :: _ :: _ =>
    rw [hla] at hle
    simp at hle


theorem meta_zero (S : List Nat) (b : Nat) (hS : ∀ d ∈ S, d < b)
    (hla : (blocksMetadata b S).largeAxes = []) :
    blocksMetadata b S = ⟨S, 1, b, S, [], [], 0⟩ := by
  simp only [blocksMetadata] at hla ⊢
  rw [hla]
  simp [small_map S b hS]

theorem meta_one (A C : List Nat) (n b : Nat) (hb : 0 < b) (hA : ∀ d ∈ A, d < b) (hC : ∀ d ∈ C, d < b)
    (hn : 0 < n) (hla : (blocksMetadata b (A ++ (n * b) :: C)).largeAxes = [A.length]) :
    blocksMetadata b (A ++ (n * b) :: C) = ⟨A ++ b :: C, n, b, A ++ (n * b) :: C, [A.length], [n], A.length⟩ := by
  simp only [blocksMetadata] at hla ⊢
  rw [hla]
  have hmin : min (n * b) b = b := Nat.min_eq_right (Nat.le_mul_of_pos_left b hn)
  simp [small_map A b hA, small_map C b hC, getD_at_len, Nat.mul_div_cancel _ hb, hmin]

theorem meta_two (A M C : List Nat) (lB rB b : Nat) (hb : 0 < b) (hA : ∀ d ∈ A, d < b) (hM : ∀ d ∈ M, d < b)
    (hC : ∀ d ∈ C, d < b) (hl : 0 < lB) (hr : 0 < rB)
    (hla : (blocksMetadata b (A ++ (lB * b) :: (M ++ (rB * b) :: C))).largeAxes =
      [A.length, A.length + 1 + M.length]) :
    blocksMetadata b (A ++ (lB * b) :: (M ++ (rB * b) :: C)) =
      ⟨A ++ b :: (M ++ b :: C), lB * rB, b, A ++ (lB * b) :: (M ++ (rB * b) :: C),
        [A.length, A.length + 1 + M.length], [lB, rB], A.length⟩ := by
  simp only [blocksMetadata] at hla ⊢
  rw [hla]
  have hminl : min (lB * b) b = b := Nat.min_eq_right (Nat.le_mul_of_pos_left b hl)
  have hminr : min (rB * b) b = b := Nat.min_eq_right (Nat.le_mul_of_pos_left b hr)
  have g2 : (A ++ (lB * b) :: (M ++ (rB * b) :: C)).getD (A.length + 1 + M.length) 0 = rB * b := by
    have e : A ++ (lB * b) :: (M ++ (rB * b) :: C) = (A ++ (lB * b) :: M) ++ (rB * b) :: C := by simp
    have l : A.length + 1 + M.length = (A ++ (lB * b) :: M).length := by simp; omega
    rw [e, l, getD_at_len]
  simp only [List.map_cons, List.map_nil, getD_at_len, g2, Nat.mul_div_cancel _ hb, List.map_append,
    small_map A b hA, small_map M b hM, small_map C b hC, hminl, hminr, prod_cons, prod_nil, Nat.mul_one,
    List.headD_cons]


theorem seg_take (A C : List Nat) (x : Nat) : (A ++ x :: C).take A.length = A := by simp

theorem seg_drop (A C : List Nat) (x : Nat) : (A ++ x :: C).drop (A.length + 1) = C := by
  rw [show A ++ x :: C = (A ++ [x]) ++ C by simp, List.drop_left' (by simp)]

theorem seg_mid (A M C : List Nat) (x y : Nat) :
    ((A ++ x :: (M ++ y :: C)).drop (A.length + 1)).take (A.length + 1 + M.length - A.length - 1) = M := by
  rw [seg_drop]
  have : A.length + 1 + M.length - A.length - 1 = M.length := by omega
  rw [this]; simp

theorem seg_mid' (a : Nat) (M C : List Nat) (y : Nat) :
    (M ++ y :: C).take (a + 1 + M.length - a - 1) = M := by
  have : a + 1 + M.length - a - 1 = M.length := by omega
  rw [this]; simp

theorem seg_drop2 (A M C : List Nat) (x y : Nat) :
    (A ++ x :: (M ++ y :: C)).drop (A.length + 1 + M.length + 1) = C := by
  rw [show A ++ x :: (M ++ y :: C) = (A ++ x :: M ++ [y]) ++ C by simp, List.drop_left' (by simp; omega)]

/-! ### `_blockify` / `_deblockify`, entry by entry, through the closed index maps -/

/-- shape of the blockified array -/
theorem blockify_shape_eq {α} (t : Tensor α) (b : Nat) (hb : 0 < b)
    (hle : (blocksMetadata b t.shape).largeAxes.length ≤ 2)
    (hdiv : ∀ a ∈ (blocksMetadata b t.shape).largeAxes, b ∣ t.shape.getD a 0) :
    (blockify t (blocksMetadata b t.shape)).shape = blockedShape (blocksMetadata b t.shape) := by
  rcases blocks_cases t.shape b hb hle hdiv with ⟨hla, hS⟩ | ⟨A, C, n, hla, hS, hA, hC, hn⟩ |
    ⟨A, M, C, lB, rB, hla, hS, hA, hM, hC, hl, hr⟩
  · rw [meta_zero _ b hS hla]
    simp [blockify, blockedShape, Tensor.reshape, insertAt]
  · rw [hS] at hla ⊢
    rw [meta_one A C n b hb hA hC hn hla]
    simp only [blockify, blockedShape, Tensor.reshape, insertAt, hS, seg_take, seg_drop]
    simp
  · rw [hS] at hla ⊢
    rw [meta_two A M C lB rB b hb hA hM hC hl hr hla]
    simp only [blockify, blockifyTwo, blockedShape, Tensor.reshape, insertAt, hS, seg_take, seg_drop, seg_mid, seg_mid',
      seg_drop2]
    simp


/-! ### the closed index maps on the three layouts -/

theorem unblocked_zero (S : List Nat) (b x0 : Nat) (inner : List Nat) (hl : inner.length = S.length) :
    unblockedIndex ⟨S, 1, b, S, [], [], 0⟩ (x0 :: inner) = inner := by
  simp only [unblockedIndex, combineIndex, tfBlockOffsets, popAt, List.zip_nil_left, List.foldl_nil,
    List.take_zero, List.nil_append, List.drop_succ_cons, List.drop_zero]
  exact addOff_zeros _ _ (by omega)

theorem blocked_zero (S : List Nat) (b : Nat) (idx : List Nat) :
    blockedIndex ⟨S, 1, b, S, [], [], 0⟩ idx = 0 :: idx := by
  simp [blockedIndex, innerIndexOf, blockIndexOf, insertAt, ravel]

theorem unblocked_one (A C : List Nat) (n b : Nat) (xa xc : List Nat) (u w : Nat)
    (hl : xa.length = A.length) (hlc : xc.length = C.length) :
    unblockedIndex ⟨A ++ b :: C, n, b, A ++ (n * b) :: C, [A.length], [n], A.length⟩ (xa ++ u :: w :: xc) =
      xa ++ (u * b + w) :: xc := by
  simp only [unblockedIndex, combineIndex, tfBlockOffsets]
  rw [← hl, getD_at_len, popAt_append_cons]
  simp only [unravel, prod_nil, Nat.div_one, List.zip_cons_cons, List.zip_nil_right, List.foldl_cons,
    List.foldl_nil]
  have e : (A ++ (n * b) :: C).length = xa.length + 1 + xc.length := by simp [hl, hlc]; omega
  rw [e, replicate_set, addOff_append _ _ _ _ (by simp)]
  simp only [addOff, List.zipWith_cons_cons]
  have h1 := addOff_zeros xa.length xa (Nat.le_refl _)
  have h2 := addOff_zeros xc.length xc (Nat.le_refl _)
  simp only [addOff] at h1 h2
  rw [h1, h2]

theorem blocked_one (A C : List Nat) (n b : Nat) (ip iq : List Nat) (ia : Nat) (hl : ip.length = A.length) :
    blockedIndex ⟨A ++ b :: C, n, b, A ++ (n * b) :: C, [A.length], [n], A.length⟩ (ip ++ ia :: iq) =
      ip ++ (ia / b) :: (ia % b) :: iq := by
  simp only [blockedIndex, innerIndexOf, blockIndexOf, List.foldl_cons, List.foldl_nil, List.map_cons,
    List.map_nil]
  rw [← hl, getD_at_len, set_at_len, insertAt_append]
  simp [ravel]

theorem unblocked_two (A M C : List Nat) (lB rB b : Nat) (xp xm xq : List Nat) (blk i j : Nat)
    (hlp : xp.length = A.length) (hlm : xm.length = M.length) (hlq : xq.length = C.length) :
    unblockedIndex ⟨A ++ b :: (M ++ b :: C), lB * rB, b, A ++ (lB * b) :: (M ++ (rB * b) :: C),
        [A.length, A.length + 1 + M.length], [lB, rB], A.length⟩ (xp ++ blk :: i :: (xm ++ j :: xq)) =
      xp ++ (blk / rB * b + i) :: (xm ++ (blk % rB * b + j) :: xq) := by
  simp only [unblockedIndex, combineIndex, tfBlockOffsets]
  rw [← hlp, getD_at_len, popAt_append_cons]
  simp only [unravel, prod_nil, prod_cons, Nat.mul_one, Nat.div_one, List.zip_cons_cons, List.zip_nil_right,
    List.foldl_cons, List.foldl_nil]
  have e : (A ++ (lB * b) :: (M ++ (rB * b) :: C)).length = xp.length + 1 + (xm.length + 1 + xq.length) := by
    simp [hlp, hlm, hlq]; omega
  rw [e, ← hlm, replicate_set_two, addOff_append _ _ _ _ (by simp)]
  simp only [addOff, List.zipWith_cons_cons]
  rw [List.zipWith_append (by simp)]
  simp only [List.zipWith_cons_cons]
  have h1 := addOff_zeros xp.length xp (Nat.le_refl _)
  have h2 := addOff_zeros xm.length xm (Nat.le_refl _)
  have h3 := addOff_zeros xq.length xq (Nat.le_refl _)
  simp only [addOff] at h1 h2 h3
  rw [h1, h2, h3]

theorem blocked_two (A M C : List Nat) (lB rB b : Nat) (ip im iq : List Nat) (ia ic : Nat)
    (hlp : ip.length = A.length) (hlm : im.length = M.length) :
    blockedIndex ⟨A ++ b :: (M ++ b :: C), lB * rB, b, A ++ (lB * b) :: (M ++ (rB * b) :: C),
        [A.length, A.length + 1 + M.length], [lB, rB], A.length⟩ (ip ++ ia :: (im ++ ic :: iq)) =
      ip ++ (ia / b * rB + ic / b) :: (ia % b) :: (im ++ (ic % b) :: iq) := by
  simp only [blockedIndex, innerIndexOf, blockIndexOf, List.foldl_cons, List.foldl_nil, List.map_cons,
    List.map_nil]
  have g2 : (ip ++ ia :: (im ++ ic :: iq)).getD (A.length + 1 + M.length) 0 = ic := by
    have e : ip ++ ia :: (im ++ ic :: iq) = (ip ++ ia :: im) ++ ic :: iq := by simp
    have l : A.length + 1 + M.length = (ip ++ ia :: im).length := by simp [hlp, hlm]; omega
    rw [e, l, getD_at_len]
  rw [g2, ← hlp, getD_at_len, set_at_len]
  have s2 : (ip ++ (ia % b) :: (im ++ ic :: iq)).set (ip.length + 1 + M.length) (ic % b) =
      ip ++ (ia % b) :: (im ++ (ic % b) :: iq) := by
    have e : ip ++ (ia % b) :: (im ++ ic :: iq) = (ip ++ (ia % b) :: im) ++ ic :: iq := by simp
    have l : ip.length + 1 + M.length = (ip ++ (ia % b) :: im).length := by simp [hlm]; omega
    rw [e, l, set_at_len]; simp
  rw [s2, insertAt_append]
  simp [ravel]


/-- **`_blockify`, entry by entry**: the entry at index `x` of the blockified array is the parameter entry at
`unblockedIndex x` (block offsets added on the large axes), which is in bounds. -/
theorem blockify_get_eq {α} (t : Tensor α) (b : Nat) (hb : 0 < b)
    (hle : (blocksMetadata b t.shape).largeAxes.length ≤ 2)
    (hdiv : ∀ a ∈ (blocksMetadata b t.shape).largeAxes, b ∣ t.shape.getD a 0)
    (x : List Nat) (hx : inBounds (blockedShape (blocksMetadata b t.shape)) x) :
    (blockify t (blocksMetadata b t.shape)).get x = t.get (unblockedIndex (blocksMetadata b t.shape) x) ∧
    inBounds t.shape (unblockedIndex (blocksMetadata b t.shape) x) := by
  rcases blocks_cases t.shape b hb hle hdiv with ⟨hla, hS⟩ | ⟨A, C, n, hla, hS, hA, hC, hn⟩ |
    ⟨A, M, C, lB, rB, hla, hS, hA, hM, hC, hl, hr⟩
  · rw [meta_zero _ b hS hla] at hx ⊢
    simp only [blockedShape, insertAt, List.take_zero, List.drop_zero, List.nil_append] at hx
    match x, hx with
    | x0 :: inner, hx =>
      simp only [inBounds] at hx
      have h0 : x0 = 0 := by omega
      subst h0
      rw [unblocked_zero _ _ _ _ (inBounds_length hx.2)]
      have hbf : blockify t ⟨t.shape, 1, b, t.shape, [], [], 0⟩ = t.reshape (1 :: t.shape) := by
        simp [blockify, insertAt]
      rw [hbf]
      exact ⟨blockifyZero_get t inner hx.2, hx.2⟩
  · have hm : blocksMetadata b t.shape =
        ⟨A ++ b :: C, n, b, A ++ (n * b) :: C, [A.length], [n], A.length⟩ := by
      rw [hS] at hla ⊢; exact meta_one A C n b hb hA hC hn hla
    rw [hm] at hx ⊢
    simp only [blockedShape] at hx
    rw [insertAt_append] at hx
    obtain ⟨xa, rest, rfl, hl, hxa, hrest⟩ := inBounds_append_split A (n :: b :: C) x hx
    match rest, hrest with
    | u :: w :: xc, hrest =>
      simp only [inBounds] at hrest
      rw [unblocked_one A C n b xa xc u w hl (inBounds_length hrest.2.2)]
      have hbf : blockify t ⟨A ++ b :: C, n, b, A ++ (n * b) :: C, [A.length], [n], A.length⟩ =
          t.reshape (A ++ n :: b :: C) := by
        simp only [blockify, hS, seg_take, seg_drop]; simp
      rw [hbf]
      exact blockifyOne_get t A C n b hS xa xc u w hxa hrest.2.2 hrest.1 hrest.2.1
  · have hm : blocksMetadata b t.shape =
        ⟨A ++ b :: (M ++ b :: C), lB * rB, b, A ++ (lB * b) :: (M ++ (rB * b) :: C),
          [A.length, A.length + 1 + M.length], [lB, rB], A.length⟩ := by
      rw [hS] at hla ⊢; exact meta_two A M C lB rB b hb hA hM hC hl hr hla
    rw [hm] at hx ⊢
    simp only [blockedShape] at hx
    rw [insertAt_append] at hx
    obtain ⟨xp, rest, rfl, hlp, hxp, hrest⟩ := inBounds_append_split A _ x hx
    match rest, hrest with
    | blk :: i :: rest2, hrest =>
      simp only [inBounds] at hrest
      obtain ⟨xm, rest3, rfl, hlm, hxm, hrest3⟩ := inBounds_append_split M _ rest2 hrest.2.2
      match rest3, hrest3 with
      | j :: xq, hrest3 =>
        simp only [inBounds] at hrest3
        rw [unblocked_two A M C lB rB b xp xm xq blk i j hlp hlm (inBounds_length hrest3.2)]
        have hbf : blockify t ⟨A ++ b :: (M ++ b :: C), lB * rB, b, A ++ (lB * b) :: (M ++ (rB * b) :: C),
            [A.length, A.length + 1 + M.length], [lB, rB], A.length⟩ =
            blockifyTwo t A M C lB rB b (lB * rB) := by
          simp only [blockify, hS, seg_take, seg_drop, seg_mid, seg_mid', seg_drop2]; simp
        rw [hbf]
        exact blockifyTwo_get t A M C lB rB b hS xp xm xq blk i j hxp hxm hrest3.2 hrest.1 hrest.2.1 hrest3.1

/-- **`_deblockify`, entry by entry**, for ANY array `X` of the blockified shape: the parameter entry at `idx`
is read from `X` at `blockedIndex idx` (= the block number inserted at the blocks axis of the index inside the
block), which is in bounds. -/
theorem deblockify_get_eq {α} (S : List Nat) (b : Nat) (hb : 0 < b)
    (hle : (blocksMetadata b S).largeAxes.length ≤ 2)
    (hdiv : ∀ a ∈ (blocksMetadata b S).largeAxes, b ∣ S.getD a 0)
    (X : Tensor α) (hX : X.shape = blockedShape (blocksMetadata b S))
    (idx : List Nat) (hi : inBounds S idx) :
    (deblockify X (blocksMetadata b S)).get idx = X.get (blockedIndex (blocksMetadata b S) idx) ∧
    inBounds X.shape (blockedIndex (blocksMetadata b S) idx) := by
  rcases blocks_cases S b hb hle hdiv with ⟨hla, hS⟩ | ⟨A, C, n, hla, rfl, hA, hC, hn⟩ |
    ⟨A, M, C, lB, rB, hla, rfl, hA, hM, hC, hl, hr⟩
  · rw [meta_zero _ b hS hla] at hX ⊢
    simp only [blockedShape, insertAt, List.take_zero, List.drop_zero, List.nil_append] at hX
    rw [blocked_zero]
    have hdf : deblockify X ⟨S, 1, b, S, [], [], 0⟩ = X.reshape S := by simp [deblockify]
    rw [hdf, hX]
    exact ⟨deblockifyZero_get X S idx hX hi, Nat.one_pos, hi⟩
  · rw [meta_one A C n b hb hA hC hn hla] at hX ⊢
    simp only [blockedShape] at hX
    rw [insertAt_append] at hX
    obtain ⟨ip, rest, rfl, hlp, hip, hrest⟩ := inBounds_append_split A _ idx hi
    match rest, hrest with
    | ia :: iq, hrest =>
      simp only [inBounds] at hrest
      rw [blocked_one A C n b ip iq ia hlp]
      have hdf : deblockify X ⟨A ++ b :: C, n, b, A ++ (n * b) :: C, [A.length], [n], A.length⟩ =
          X.reshape (A ++ (n * b) :: C) := by simp [deblockify]
      rw [hdf]
      exact deblockifyOne_get X A C n b hX ip iq ia hip hrest.2 hrest.1
  · rw [meta_two A M C lB rB b hb hA hM hC hl hr hla] at hX ⊢
    simp only [blockedShape] at hX
    rw [insertAt_append] at hX
    obtain ⟨ip, rest, rfl, hlp, hip, hrest⟩ := inBounds_append_split A _ idx hi
    match rest, hrest with
    | ia :: rest2, hrest =>
      simp only [inBounds] at hrest
      obtain ⟨im, rest3, rfl, hlm, him, hrest3⟩ := inBounds_append_split M _ rest2 hrest.2
      match rest3, hrest3 with
      | ic :: iq, hrest3 =>
        simp only [inBounds] at hrest3
        rw [blocked_two A M C lB rB b ip im iq ia ic hlp hlm]
        have hdf : deblockify X ⟨A ++ b :: (M ++ b :: C), lB * rB, b, A ++ (lB * b) :: (M ++ (rB * b) :: C),
            [A.length, A.length + 1 + M.length], [lB, rB], A.length⟩ =
            deblockifyTwo X A.length (A.length + 1 + M.length) [lB, rB]
              (A ++ (lB * b) :: (M ++ (rB * b) :: C)) := by simp [deblockify]
        rw [hdf]
        exact deblockifyTwo_get X A M C lB rB b _ hX rfl ip im iq ia ic hip him hrest3.2 hrest.1 hrest3.1

end PrecondVerif.Shapes
