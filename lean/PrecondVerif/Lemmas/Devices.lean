/-
Lemmas about the device bookkeeping model (`Model/Devices.lean`), core Lean only.
-/
import PrecondVerif.Model.Devices

namespace PrecondVerif.Devices

variable {α β γ δ : Type}

/-! ### `toPad` -/

theorem toPad_lt (n D : Nat) (hD : 0 < D) : toPad n D < D := Nat.mod_lt _ hD

theorem toPad_add_mod (n D : Nat) (hD : 0 < D) : (n + toPad n D) % D = 0 := by
  unfold toPad
  have hr : n % D < D := Nat.mod_lt _ hD
  by_cases h0 : n % D = 0
  · rw [h0, Nat.sub_zero, Nat.mod_self, Nat.add_zero]; exact h0
  · have h1 : (D - n % D) % D = D - n % D := Nat.mod_eq_of_lt (by omega)
    rw [h1]
    have h := Nat.div_add_mod n D
    have h2 : n + (D - n % D) = D * (n / D + 1) := by rw [Nat.mul_add, Nat.mul_one]; omega
    rw [h2, Nat.mul_mod_right]

theorem toPad_eq_zero_of_mod (n D : Nat) (h : n % D = 0) : toPad n D = 0 := by
  unfold toPad; rw [h, Nat.sub_zero, Nat.mod_self]

theorem toPad_le_of_mod (n D k : Nat) (hD : 0 < D) (h : (n + k) % D = 0) : toPad n D ≤ k := by
  unfold toPad
  have hr : n % D < D := Nat.mod_lt _ hD
  by_cases h0 : n % D = 0
  · rw [h0, Nat.sub_zero, Nat.mod_self]; exact Nat.zero_le _
  · have h1 : (D - n % D) % D = D - n % D := Nat.mod_eq_of_lt (by omega)
    rw [h1]
    have h2 : (n % D + k) % D = 0 := by rw [Nat.mod_add_mod]; exact h
    by_cases hlt : n % D + k < D
    · rw [Nat.mod_eq_of_lt hlt] at h2; omega
    · omega

theorem dvd_add_toPad (n D : Nat) (hD : 0 < D) : D ∣ n + toPad n D :=
  Nat.dvd_of_mod_eq_zero (toPad_add_mod n D hD)

/-! ### `chunks` -/

theorem chunks_length (b m : Nat) (xs : List α) : (chunks b m xs).length = m := by
  induction m generalizing xs with
  | zero => rfl
  | succ m ih => simp [chunks, ih]

theorem chunks_flatten (b m : Nat) (xs : List α) : (chunks b m xs).flatten = xs.take (m * b) := by
  induction m generalizing xs with
  | zero => simp [chunks]
  | succ m ih =>
    rw [chunks, List.flatten_cons, ih, Nat.succ_mul, Nat.add_comm (m * b) b, List.take_add]

theorem chunks_row_length (b m : Nat) (xs : List α) (h : xs.length = m * b) :
    ∀ r ∈ chunks b m xs, r.length = b := by
  induction m generalizing xs with
  | zero => intro r hr; simp [chunks] at hr
  | succ m ih =>
    intro r hr
    rw [chunks, List.mem_cons] at hr
    have hl : xs.length = m * b + b := by rw [h, Nat.succ_mul]
    rcases hr with rfl | hr
    · rw [List.length_take]; omega
    · exact ih (xs.drop b) (by rw [List.length_drop]; omega) r hr

theorem chunks_map (f : α → β) (b m : Nat) (xs : List α) :
    (chunks b m xs).map (List.map f) = chunks b m (xs.map f) := by
  induction m generalizing xs with
  | zero => rfl
  | succ m ih => rw [chunks, chunks, List.map_cons, ih, List.map_take, List.map_drop]

/-- Python's explicit slices: row `k` is `x[k*b : k*b + b]`. -/
theorem chunks_getD (b m : Nat) (xs : List α) (k : Nat) (hk : k < m) :
    (chunks b m xs).getD k [] = (xs.drop (k * b)).take b := by
  induction m generalizing xs k with
  | zero => omega
  | succ m ih =>
    cases k with
    | zero => simp [chunks]
    | succ k =>
      rw [chunks, List.getD_cons_succ, ih (xs.drop b) k (by omega), List.drop_drop, Nat.succ_mul,
        Nat.add_comm]

/-! ### `batch` -/

theorem rangeCount_mul (D b : Nat) (hb : 0 < b) : rangeCount (D * b) b = D := by
  unfold rangeCount
  have h1 : D * b + b - 1 = b * D + (b - 1) := by rw [Nat.mul_comm]; omega
  rw [h1, Nat.mul_add_div hb, Nat.div_eq_of_lt (by omega), Nat.add_zero]

theorem batch_eq_chunks (xs : List α) (D b : Nat) (hD : 0 < D) (hb : 0 < b) (h : xs.length = D * b) :
    batch xs D = chunks b D xs := by
  unfold batch
  have hq : xs.length / D = b := by rw [h, Nat.mul_div_cancel_left _ hD]
  simp only [hq]
  rw [if_neg (by omega), h, rangeCount_mul D b hb]

/-- a non-empty list whose length is a multiple of `D` has `D * b` elements with `b ≥ 1` -/
theorem exists_width (xs : List α) (D : Nat) (hdvd : D ∣ xs.length) (hne : xs ≠ []) :
    ∃ b, 0 < b ∧ xs.length = D * b := by
  obtain ⟨b, hb⟩ := hdvd
  refine ⟨b, ?_, hb⟩
  rcases Nat.eq_zero_or_pos b with h0 | h0
  · subst h0
    rw [Nat.mul_zero] at hb
    exact absurd (List.length_eq_zero_iff.mp hb) hne
  · exact h0

/-! ### `allGather`, `unbatch` -/

theorem allGather_length (D : Nat) (g : Nat → β) : (allGather D g).length = D := by
  simp [allGather]

theorem allGather_deviceSlice (f : α → β) (rows : List (List α)) (D : Nat) (h : rows.length = D) :
    (allGather D fun d => (deviceSlice rows d).map f) = rows.map (List.map f) := by
  apply List.ext_getElem
  · simp [allGather, h]
  · intro i h1 h2
    have hi : i < rows.length := by simpa using h2
    simp [allGather, deviceSlice, List.getElem?_eq_getElem hi]

theorem rowWidth_map (g : α → β) (rows : List (List α)) :
    rowWidth (rows.map (List.map g)) = rowWidth rows := by
  cases rows with
  | nil => rfl
  | cons r rs => simp [rowWidth]

theorem flatMap_take_one_map (g : α → β) (rows : List (List α)) :
    (rows.map (List.map g)).flatMap (List.take 1) = (rows.flatMap (List.take 1)).map g := by
  induction rows with
  | nil => rfl
  | cons r rs ih =>
    rw [List.map_cons, List.flatMap_cons, List.flatMap_cons, ih, List.map_append, List.map_take]

/-- `unbatch` commutes with an entrywise map (used for the separately gathered components of a
quantized root and for the metrics pytree). -/
theorem unbatch_map (g : α → β) (rows : List (List α)) :
    unbatch (rows.map (List.map g)) = (unbatch rows).map g := by
  unfold unbatch
  rw [rowWidth_map]
  split
  · rw [List.map_flatten]
  · exact flatMap_take_one_map g rows

theorem flatMap_take_one_of_length (rows : List (List α)) (h : ∀ r ∈ rows, r.length = 1) :
    rows.flatMap (List.take 1) = rows.flatten := by
  induction rows with
  | nil => rfl
  | cons r rs ih =>
    rw [List.flatMap_cons, List.flatten_cons, ih (fun r' hr' => h r' (List.mem_cons_of_mem _ hr')),
      List.take_of_length_le (by rw [h r List.mem_cons_self]; exact Nat.le_refl 1)]

/-- on a rectangular `[b1, b2]` array with `b2 ≥ 1`, both branches of `unbatch` list the entries row by row -/
theorem unbatch_uniform (rows : List (List α)) (b : Nat) (hb : 0 < b) (h : ∀ r ∈ rows, r.length = b) :
    unbatch rows = rows.flatten := by
  unfold unbatch
  split
  · rfl
  · rename_i hw
    cases rows with
    | nil => rfl
    | cons r rs =>
      have hr : r.length = b := h r List.mem_cons_self
      have hb1 : b = 1 := by simp only [rowWidth] at hw; omega
      subst hb1
      exact flatMap_take_one_of_length _ h

/-- the core of the index algebra: gathering the per-replica maps of the batched list and unbatching
gives the map of the list, when the length is a positive multiple of `D`. -/
theorem unbatch_gather_batch (f : α → β) (ys : List α) (D : Nat) (hD : 0 < D)
    (hdvd : D ∣ ys.length) (hne : ys ≠ []) :
    unbatch (allGather D fun d => (deviceSlice (batch ys D) d).map f) = ys.map f := by
  obtain ⟨b, hb, hl⟩ := exists_width ys D hdvd hne
  rw [batch_eq_chunks ys D b hD hb hl, allGather_deviceSlice f _ D (chunks_length b D ys), chunks_map,
    unbatch_uniform _ b hb (chunks_row_length b D _ (by rw [List.length_map, hl])), chunks_flatten,
    List.take_of_length_le (by rw [List.length_map, hl]; exact Nat.le_refl _)]

theorem flatten_gather_batch (f : α → β) (ys : List α) (D : Nat) (hD : 0 < D)
    (hdvd : D ∣ ys.length) (hne : ys ≠ []) :
    (allGather D fun d => (deviceSlice (batch ys D) d).map f).flatten = ys.map f := by
  obtain ⟨b, hb, hl⟩ := exists_width ys D hdvd hne
  rw [batch_eq_chunks ys D b hD hb hl, allGather_deviceSlice f _ D (chunks_length b D ys), chunks_map,
    chunks_flatten, List.take_of_length_le (by rw [List.length_map, hl]; exact Nat.le_refl _)]

/-! ### padded lists -/

theorem padTo_length (filler : α) (xs : List α) (D : Nat) :
    (padTo filler xs D).length = xs.length + toPad xs.length D := by
  simp [padTo]

theorem padTo_ne_nil (filler : α) (xs : List α) (D : Nat) (h : xs ≠ []) : padTo filler xs D ≠ [] := by
  unfold padTo
  intro h'
  exact h (List.append_eq_nil_iff.mp h').1

theorem pmapAll_eq (f : α → β) (filler : α) (D : Nat) (xs : List α) (hD : 0 < D) (hne : xs ≠ []) :
    pmapAll f filler D xs = (padTo filler xs D).map f := by
  unfold pmapAll pmapGathered
  exact unbatch_gather_batch f _ D hD (by rw [padTo_length]; exact dvd_add_toPad _ _ hD)
    (padTo_ne_nil filler xs D hne)

theorem zip3_proj (l : List (β × γ × δ)) :
    (l.map fun r => r.1).zip ((l.map fun r => r.2.1).zip (l.map fun r => r.2.2)) = l := by
  induction l with
  | nil => rfl
  | cons a l ih => simp only [List.map_cons, List.zip_cons_cons, ih]

theorem shardedToPad_pos_of_nil (D : Nat) : shardedToPad 0 D = D := by simp [shardedToPad]

theorem shardedPad_length (filler : α) (xs : List α) (D : Nat) :
    (shardedPad filler xs D).length = xs.length + shardedToPad xs.length D := by
  simp [shardedPad]

theorem shardedPad_dvd (filler : α) (xs : List α) (D : Nat) (hD : 0 < D) :
    D ∣ (shardedPad filler xs D).length := by
  rw [shardedPad_length]
  unfold shardedToPad
  split
  · rename_i h; rw [h, Nat.zero_add]; exact Nat.dvd_refl D
  · exact dvd_add_toPad _ _ hD

theorem shardedPad_ne_nil (filler : α) (xs : List α) (D : Nat) (hD : 0 < D) :
    shardedPad filler xs D ≠ [] := by
  intro h
  have hl := congrArg List.length h
  rw [shardedPad_length, List.length_nil] at hl
  unfold shardedToPad at hl
  split at hl <;> omega

end PrecondVerif.Devices
