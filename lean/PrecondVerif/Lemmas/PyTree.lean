/-
Helper lemmas for the pytree / state-dict model (`Model/PyTree.lean`), property C14.
Imports nothing from Mathlib; `Std.Data.String.ToNat` supplies `Nat.repr_injective`
(list keys `str(i)` are pairwise distinct).
-/
import PrecondVerif.Model.PyTree
import Std.Data.String.ToNat

namespace PrecondVerif.Ser
variable {α β σ : Type}

/-! ### keys, lookups, key checks -/


theorem keys_toStateDicts (cs : List (String × PyTree α σ)) :
    (toStateDicts cs).map Prod.fst = cs.map Prod.fst := by
  induction cs with
  | nil => rfl
  | cons p rest ih => obtain ⟨k, t⟩ := p; simp [toStateDicts, ih]

theorem keys_keyShapes (cs : List (String × PyTree α σ)) :
    (keyShapes cs).map Prod.fst = cs.map Prod.fst := by
  induction cs with
  | nil => rfl
  | cons p rest ih => obtain ⟨k, t⟩ := p; simp [keyShapes, ih]

theorem lookup_toStateDicts (cs : List (String × PyTree α σ)) (h : nodupKeys (cs.map Prod.fst) = true)
    (k : String) (s : PyTree α σ) (hm : (k, s) ∈ cs) :
    (toStateDicts cs).lookup k = some (toStateDict s) := by
  induction cs with
  | nil => cases hm
  | cons p rest ih =>
    obtain ⟨k0, t0⟩ := p
    simp only [List.map_cons, nodupKeys, Bool.and_eq_true, Bool.not_eq_true', List.contains_eq_mem,
      decide_eq_false_iff_not] at h
    rcases List.mem_cons.1 hm with heq | hin
    · cases heq
      simp [toStateDicts]
    · have hk : k ∈ rest.map Prod.fst := List.mem_map.2 ⟨(k, s), hin, rfl⟩
      have hne : k ≠ k0 := fun e => h.1 (e ▸ hk)
      have : (k == k0) = false := by simpa using hne
      simp [toStateDicts, List.lookup, this, ih h.2 hin]

theorem subKeys_self (l : List String) : subKeys l l = true := by
  simp [subKeys]
theorem firstNotIn_self (l : List String) : firstNotIn l l = Option.none := by
  simp [firstNotIn]
theorem checkKeys_self (kind : Kind σ) (l : List String) : checkKeys kind l l = .ok () := by
  cases kind <;> simp [checkKeys, subKeys_self, firstNotIn_self]
theorem checkUnknown_self (kind : Kind σ) (l : List String) : checkUnknown kind l l = .ok () := by
  cases kind <;> simp [checkUnknown, firstNotIn_self]

mutual
theorem restore_general : ∀ (t s : PyTree α σ), wf s = true → keyShape t = keyShape s →
    fromStateDict t (toStateDict s) = .ok (withStaticOf t s)
  | .leaf _, .leaf a, _, _ => by simp [toStateDict, fromStateDict, StateDict.asTree, withStaticOf]
  | .leaf _, .none, _, h => by simp [keyShape] at h
  | .leaf _, .node _ _, _, h => by simp [keyShape] at h
  | .none, .leaf _, _, h => by simp [keyShape] at h
  | .none, .none, _, _ => by simp [toStateDict, fromStateDict, StateDict.asTree, withStaticOf]
  | .none, .node _ _, _, h => by simp [keyShape] at h
  | .node _ _, .leaf _, _, h => by simp [keyShape] at h
  | .node _ _, .none, _, h => by simp [keyShape] at h
  | .node k ct, .node k' cs, hw, h => by
    simp only [keyShape, PyTree.node.injEq] at h
    simp only [wf, Bool.and_eq_true] at hw
    have hkeys : ct.map Prod.fst = cs.map Prod.fst := by
      rw [← keys_keyShapes ct, ← keys_keyShapes cs, h.2]
    have hc := restore_children ct cs (toStateDicts cs) hw.2 h.2
      (fun k s hm => lookup_toStateDicts cs hw.1 k s hm)
    simp only [toStateDict, fromStateDict, keys_toStateDicts, hkeys, checkKeys_self, checkUnknown_self, hc,
      withStaticOf, bind, Except.bind, pure, Except.pure]
theorem restore_children : ∀ (ct cs : List (String × PyTree α σ)) (kvs : List (String × StateDict α)),
    wfs cs = true → keyShapes ct = keyShapes cs →
    (∀ k s, (k, s) ∈ cs → kvs.lookup k = some (toStateDict s)) →
    restoreChildren ct kvs = .ok (withStaticOfs ct cs)
  | [], [], _, _, _, _ => by simp [restoreChildren, withStaticOfs]
  | [], _ :: _, _, _, h, _ => by simp [keyShapes] at h
  | _ :: _, [], _, _, h, _ => by simp [keyShapes] at h
  | (k, t) :: ct, (k', s) :: cs, kvs, hw, h, hl => by
    simp only [keyShapes, List.cons.injEq, Prod.mk.injEq] at h
    simp only [wfs, Bool.and_eq_true] at hw
    obtain ⟨⟨hk, hts⟩, hrest⟩ := h
    subst hk
    have h1 := hl k s (List.mem_cons_self)
    have h2 := restore_general t s hw.1 hts
    have h3 := restore_children ct cs kvs hw.2 hrest (fun k s hm => hl k s (List.mem_cons_of_mem _ hm))
    simp only [restoreChildren, h1, h2, h3, withStaticOfs, bind, Except.bind, pure, Except.pure]
end


/-! ### skeleton / keyShape / withStaticOf -/


mutual
theorem withStaticOf_same : ∀ (t s : PyTree α σ), skeleton t = skeleton s → withStaticOf t s = s
  | .leaf _, s, _ => by cases s <;> simp [withStaticOf]
  | .none, s, _ => by cases s <;> simp [withStaticOf]
  | .node _ _, .leaf _, _ => by simp [withStaticOf]
  | .node _ _, .none, _ => by simp [withStaticOf]
  | .node k ct, .node k' cs, h => by
    simp only [skeleton, PyTree.node.injEq] at h
    simp [withStaticOf, h.1, withStaticOfs_same ct cs h.2]
theorem withStaticOfs_same : ∀ (ct cs : List (String × PyTree α σ)), skeletons ct = skeletons cs →
    withStaticOfs ct cs = cs
  | [], cs, _ => by cases cs <;> simp [withStaticOfs]
  | _ :: _, [], _ => by simp [withStaticOfs]
  | (k, t) :: ct, (k', s) :: cs, h => by
    simp only [skeletons, List.cons.injEq, Prod.mk.injEq] at h
    simp [withStaticOfs, withStaticOf_same t s h.1.2, withStaticOfs_same ct cs h.2]
end

mutual
theorem keyShape_skeleton : ∀ (t : PyTree α σ), keyShape (skeleton t) = keyShape t
  | .leaf _ => by simp [skeleton, keyShape]
  | .none => by simp [skeleton, keyShape]
  | .node k cs => by simp [skeleton, keyShape, keyShapes_skeletons cs]
theorem keyShapes_skeletons : ∀ (cs : List (String × PyTree α σ)), keyShapes (skeletons cs) = keyShapes cs
  | [] => by simp [skeletons, keyShapes]
  | (k, t) :: cs => by simp [skeletons, keyShapes, keyShape_skeleton t, keyShapes_skeletons cs]
end

theorem keyShape_of_sameStatic (t s : PyTree α σ) (h : skeleton t = skeleton s) : keyShape t = keyShape s := by
  rw [← keyShape_skeleton t, ← keyShape_skeleton s, h]

theorem keys_skeletons (cs : List (String × PyTree α σ)) :
    (skeletons cs).map Prod.fst = cs.map Prod.fst := by
  induction cs with
  | nil => rfl
  | cons p rest ih => obtain ⟨k, t⟩ := p; simp [skeletons, ih]

mutual
theorem wf_skeleton : ∀ (t : PyTree α σ), wf (skeleton t) = wf t
  | .leaf _ => by simp [skeleton, wf]
  | .none => by simp [skeleton, wf]
  | .node k cs => by simp [skeleton, wf, keys_skeletons, wfs_skeletons cs]
theorem wfs_skeletons : ∀ (cs : List (String × PyTree α σ)), wfs (skeletons cs) = wfs cs
  | [] => by simp [skeletons, wfs]
  | (k, t) :: cs => by simp [skeletons, wfs, wf_skeleton t, wfs_skeletons cs]
end

theorem wf_of_sameStatic (t s : PyTree α σ) (h : skeleton t = skeleton s) : wf t = wf s := by
  rw [← wf_skeleton t, ← wf_skeleton s, h]

mutual
theorem skeleton_withStaticOf : ∀ (t s : PyTree α σ), keyShape t = keyShape s →
    skeleton (withStaticOf t s) = skeleton t
  | .leaf _, .leaf _, _ => by simp [withStaticOf, skeleton]
  | .leaf _, .none, h => by simp [keyShape] at h
  | .leaf _, .node _ _, h => by simp [keyShape] at h
  | .none, .leaf _, h => by simp [keyShape] at h
  | .none, .none, _ => by simp [withStaticOf, skeleton]
  | .none, .node _ _, h => by simp [keyShape] at h
  | .node _ _, .leaf _, h => by simp [keyShape] at h
  | .node _ _, .none, h => by simp [keyShape] at h
  | .node k ct, .node k' cs, h => by
    simp only [keyShape, PyTree.node.injEq] at h
    simp [withStaticOf, skeleton, skeletons_withStaticOfs ct cs h.2]
theorem skeletons_withStaticOfs : ∀ (ct cs : List (String × PyTree α σ)), keyShapes ct = keyShapes cs →
    skeletons (withStaticOfs ct cs) = skeletons ct
  | [], [], _ => by simp [withStaticOfs, skeletons]
  | [], _ :: _, h => by simp [keyShapes] at h
  | _ :: _, [], h => by simp [keyShapes] at h
  | (k, t) :: ct, (k', s) :: cs, h => by
    simp only [keyShapes, List.cons.injEq, Prod.mk.injEq] at h
    simp [withStaticOfs, skeletons, h.1.1, skeleton_withStaticOf t s h.1.2, skeletons_withStaticOfs ct cs h.2]
end

mutual
theorem leaves_withStaticOf : ∀ (t s : PyTree α σ), leaves (withStaticOf t s) = leaves s
  | .leaf _, s => by cases s <;> simp [withStaticOf]
  | .none, s => by cases s <;> simp [withStaticOf]
  | .node _ _, .leaf _ => by simp [withStaticOf]
  | .node _ _, .none => by simp [withStaticOf]
  | .node k ct, .node k' cs => by simp [withStaticOf, leaves, leavesL_withStaticOfs ct cs]
theorem leavesL_withStaticOfs : ∀ (ct cs : List (String × PyTree α σ)), leavesL (withStaticOfs ct cs) = leavesL cs
  | [], cs => by cases cs <;> simp [withStaticOfs]
  | _ :: _, [] => by simp [withStaticOfs]
  | (k, t) :: ct, (k', s) :: cs => by
    simp [withStaticOfs, leavesL, leaves_withStaticOf t s, leavesL_withStaticOfs ct cs]
end

mutual
theorem skeleton_mapLeaves (f : α → β) : ∀ (t : PyTree α σ), skeleton (mapLeaves f t) = skeleton t
  | .leaf _ => by simp [mapLeaves, skeleton]
  | .none => by simp [mapLeaves, skeleton]
  | .node k cs => by simp [mapLeaves, skeleton, skeletons_mapLeavesL f cs]
theorem skeletons_mapLeavesL (f : α → β) : ∀ (cs : List (String × PyTree α σ)),
    skeletons (mapLeavesL f cs) = skeletons cs
  | [] => by simp [mapLeavesL, skeletons]
  | (k, t) :: cs => by simp [mapLeavesL, skeletons, skeleton_mapLeaves f t, skeletons_mapLeavesL f cs]
end

theorem nodupKeys_iff (l : List String) : nodupKeys l = true ↔ l.Nodup := by
  induction l with
  | nil => simp [nodupKeys]
  | cons a l ih => simp [nodupKeys, ih, List.nodup_cons]

theorem toString_nat_injective : ∀ i j : Nat, toString i = toString j → i = j :=
  fun _ _ h => Nat.repr_injective h

theorem listKeys_nodup (n : Nat) : nodupKeys (listKeys n) = true := by
  rw [nodupKeys_iff]
  unfold listKeys
  exact List.Pairwise.map _ (fun a b hab h => hab (toString_nat_injective a b h)) List.nodup_range

/-! ### loops -/
section loops
variable {S G U : Type}

theorem run_append (step : S → G → U × S) (s : S) (gs₁ gs₂ : List G) :
    run step s (gs₁ ++ gs₂) =
      ((run step s gs₁).1 ++ (run step (run step s gs₁).2 gs₂).1, (run step (run step s gs₁).2 gs₂).2) := by
  induction gs₁ generalizing s with
  | nil => simp [run]
  | cons g gs ih => simp [run, ih]

theorem run_invariant (step : S → G → U × S) (P : S → Prop) (hstep : ∀ s g, P s → P (step s g).2)
    (s : S) (gs : List G) (h : P s) : P (run step s gs).2 := by
  induction gs generalizing s with
  | nil => simpa [run] using h
  | cons g gs ih => simpa [run] using ih _ (hstep s g h)

end loops

/-! ### restore, resume -/


mutual
theorem toStateDict_withStaticOf : ∀ (t s : PyTree α σ), toStateDict (withStaticOf t s) = toStateDict s
  | .leaf _, s => by cases s <;> simp [withStaticOf]
  | .none, s => by cases s <;> simp [withStaticOf]
  | .node _ _, .leaf _ => by simp [withStaticOf]
  | .node _ _, .none => by simp [withStaticOf]
  | .node k ct, .node k' cs => by simp [withStaticOf, toStateDict, toStateDicts_withStaticOfs ct cs]
theorem toStateDicts_withStaticOfs : ∀ (ct cs : List (String × PyTree α σ)),
    toStateDicts (withStaticOfs ct cs) = toStateDicts cs
  | [], cs => by cases cs <;> simp [withStaticOfs]
  | _ :: _, [] => by simp [withStaticOfs]
  | (k, t) :: ct, (k', s) :: cs => by
    simp [withStaticOfs, toStateDicts, toStateDict_withStaticOf t s, toStateDicts_withStaticOfs ct cs]
end

theorem restore_same (t s : PyTree α σ) (hw : wf s = true) (h : skeleton t = skeleton s) :
    fromStateDict t (toStateDict s) = .ok s := by
  rw [restore_general t s hw (keyShape_of_sameStatic t s h), withStaticOf_same t s h]

section
variable {G U : Type}

theorem resume_ok (step : PyTree α σ → G → U × PyTree α σ)
    (hpres : ∀ s g, skeleton (step s g).2 = skeleton s)
    (tmpl s0 : PyTree α σ) (hwf : wf s0 = true) (hsame : skeleton tmpl = skeleton s0)
    (gs : List G) (k : Nat) :
    resume step tmpl s0 gs k = .ok (run step s0 gs) := by
  have hinv : skeleton (run step s0 (gs.take k)).2 = skeleton s0 :=
    run_invariant step (fun s => skeleton s = skeleton s0) (fun s g h => (hpres s g).trans h) s0 _ rfl
  have hw : wf (run step s0 (gs.take k)).2 = true := by rw [wf_of_sameStatic _ _ hinv]; exact hwf
  have hr := restore_same tmpl _ hw (hsame.trans hinv.symm)
  have happ := run_append step s0 (gs.take k) (gs.drop k)
  rw [List.take_append_drop] at happ
  simp only [resume, hr, happ]

theorem runCheckpointed_ok (step : PyTree α σ → G → U × PyTree α σ)
    (hpres : ∀ s g, skeleton (step s g).2 = skeleton s)
    (tmpl s0 : PyTree α σ) (hwf : wf s0 = true) (hsame : skeleton tmpl = skeleton s0)
    (gs : List G) :
    runCheckpointed step tmpl s0 gs = .ok (run step s0 gs) := by
  induction gs generalizing s0 with
  | nil => simp [runCheckpointed, run]
  | cons g gs ih =>
    have h1 : skeleton (step s0 g).2 = skeleton s0 := hpres s0 g
    have hw : wf (step s0 g).2 = true := by rw [wf_of_sameStatic _ _ h1]; exact hwf
    have hr := restore_same tmpl _ hw (hsame.trans h1.symm)
    have := ih (step s0 g).2 hw (hsame.trans h1.symm)
    simp only [runCheckpointed, hr, this, run]
/-- resume with an invariant `P` of the reachable states that pins the skeleton -/
theorem resume_ok_inv (step : PyTree α σ → G → U × PyTree α σ) (P : PyTree α σ → Prop)
    (tmpl s0 : PyTree α σ) (hP0 : P s0) (hPstep : ∀ s g, P s → P (step s g).2)
    (hPskel : ∀ s, P s → skeleton s = skeleton s0)
    (hwf : wf s0 = true) (hsame : skeleton tmpl = skeleton s0)
    (gs : List G) (k : Nat) :
    resume step tmpl s0 gs k = .ok (run step s0 gs) := by
  have hinv : skeleton (run step s0 (gs.take k)).2 = skeleton s0 :=
    hPskel _ (run_invariant step P hPstep s0 _ hP0)
  have hw : wf (run step s0 (gs.take k)).2 = true := by rw [wf_of_sameStatic _ _ hinv]; exact hwf
  have hr := restore_same tmpl _ hw (hsame.trans hinv.symm)
  have happ := run_append step s0 (gs.take k) (gs.drop k)
  rw [List.take_append_drop] at happ
  simp only [resume, hr, happ]

/-- … instantiated with "the layout of the state is the fixed point `L` of the layout step";
`skel` is the tree shape that layout `L` denotes. -/
theorem resume_of_layout_fixpoint {Lay E : Type} (layoutOf : PyTree α σ → Lay)
    (lstep : Lay → Except E Lay) (L : Lay) (hfix : lstep L = .ok L) (skel : PyTree Unit σ)
    (hskel : ∀ s, layoutOf s = L → skeleton s = skel)
    (step : PyTree α σ → G → U × PyTree α σ)
    (hstep : ∀ s g, layoutOf s = L → lstep (layoutOf s) = .ok (layoutOf (step s g).2))
    (tmpl s0 : PyTree α σ) (h0 : layoutOf s0 = L) (ht : layoutOf tmpl = L) (hwf : wf s0 = true)
    (gs : List G) (k : Nat) :
    resume step tmpl s0 gs k = .ok (run step s0 gs) := by
  refine resume_ok_inv step (fun s => layoutOf s = L) tmpl s0 h0 ?_ ?_ hwf ?_ gs k
  · intro s g hs
    have := hstep s g hs
    rw [hs, hfix] at this
    exact (Except.ok.inj this).symm
  · intro s hs; rw [hskel s hs, hskel s0 h0]
  · rw [hskel tmpl ht, hskel s0 h0]
end

end PrecondVerif.Ser
