/-
Lemmas about the SM3 model (`Model/SM3.lean`).

The accumulator lemmas hold in every linear order with a distinguished `0` (no arithmetic at all):
the update rule `upd` is a parameter.  The arithmetic instance (`codeUpd`) is treated in ordered fields.
-/
import PrecondVerif.Model.SM3
import Mathlib.Order.Lattice
import Mathlib.Data.List.Induction
import Mathlib.Algebra.Order.Field.Basic
import Mathlib.Algebra.Order.Ring.Abs
import Mathlib.Algebra.BigOperators.Ring.List
import Mathlib.Tactic.Ring
import Mathlib.Tactic.Linarith

set_option linter.unusedSectionVars false

namespace PrecondVerif.SM3

section order
variable {α : Type} [LinearOrder α] [OfNat α 0]

theorem minG_eq (a b : α) : minG a b = min a b := by
  unfold minG
  split <;> rename_i h
  · exact (min_eq_right (le_of_lt h)).symm
  · exact (min_eq_left (not_lt.mp h)).symm

theorem maxG_eq (a b : α) : maxG a b = max a b := by
  unfold maxG
  split <;> rename_i h
  · exact (max_eq_right (le_of_lt h)).symm
  · exact (max_eq_left (not_lt.mp h)).symm

/-! ### folds -/

theorem foldl_minG_le_init (vs : List α) (v : α) : vs.foldl minG v ≤ v := by
  induction vs generalizing v with
  | nil => exact le_refl _
  | cons x xs ih =>
    simp only [List.foldl_cons]
    exact le_trans (ih _) (by rw [minG_eq]; exact min_le_left _ _)

theorem foldl_minG_le_mem (vs : List α) (v : α) {x : α} (hx : x ∈ vs) : vs.foldl minG v ≤ x := by
  induction vs generalizing v with
  | nil => cases hx
  | cons y ys ih =>
    simp only [List.foldl_cons]
    rcases List.mem_cons.mp hx with rfl | h
    · exact le_trans (foldl_minG_le_init _ _) (by rw [minG_eq]; exact min_le_right _ _)
    · exact ih _ h

theorem le_foldl_minG (vs : List α) (v c : α) (hv : c ≤ v) (h : ∀ x ∈ vs, c ≤ x) :
    c ≤ vs.foldl minG v := by
  induction vs generalizing v with
  | nil => exact hv
  | cons y ys ih =>
    simp only [List.foldl_cons]
    refine ih _ ?_ (fun x hx => h x (List.mem_cons_of_mem _ hx))
    rw [minG_eq]
    exact le_min hv (h y List.mem_cons_self)

theorem init_le_foldl_maxG (vs : List α) (v : α) : v ≤ vs.foldl maxG v := by
  induction vs generalizing v with
  | nil => exact le_refl _
  | cons x xs ih =>
    simp only [List.foldl_cons]
    exact le_trans (by rw [maxG_eq]; exact le_max_left _ _) (ih _)

theorem mem_le_foldl_maxG (vs : List α) (v : α) {x : α} (hx : x ∈ vs) : x ≤ vs.foldl maxG v := by
  induction vs generalizing v with
  | nil => cases hx
  | cons y ys ih =>
    simp only [List.foldl_cons]
    rcases List.mem_cons.mp hx with rfl | h
    · exact le_trans (by rw [maxG_eq]; exact le_max_right _ _) (init_le_foldl_maxG _ _)
    · exact ih _ h

theorem foldl_maxG_mem (vs : List α) (v : α) : vs.foldl maxG v ∈ v :: vs := by
  induction vs generalizing v with
  | nil => simp
  | cons y ys ih =>
    simp only [List.foldl_cons]
    have h := ih (maxG v y)
    rcases List.mem_cons.mp h with h | h
    · rw [h]
      unfold maxG
      split <;> simp
    · exact List.mem_cons_of_mem _ (List.mem_cons_of_mem _ h)

theorem minL_le {l : List α} {x : α} (hx : x ∈ l) : minL l ≤ x := by
  cases l with
  | nil => cases hx
  | cons v vs =>
    rcases List.mem_cons.mp hx with rfl | h
    · exact foldl_minG_le_init _ _
    · exact foldl_minG_le_mem _ _ h

theorem le_minL {l : List α} (hne : l ≠ []) {c : α} (h : ∀ x ∈ l, c ≤ x) : c ≤ minL l := by
  cases l with
  | nil => exact absurd rfl hne
  | cons v vs =>
    exact le_foldl_minG _ _ _ (h v List.mem_cons_self) (fun x hx => h x (List.mem_cons_of_mem _ hx))

theorem le_maxL {l : List α} {x : α} (hx : x ∈ l) : x ≤ maxL l := by
  cases l with
  | nil => cases hx
  | cons v vs =>
    rcases List.mem_cons.mp hx with rfl | h
    · exact init_le_foldl_maxG _ _
    · exact mem_le_foldl_maxG _ _ h

theorem maxL_mem {l : List α} (hne : l ≠ []) : maxL l ∈ l := by
  cases l with
  | nil => exact absurd rfl hne
  | cons v vs => exact foldl_maxG_mem _ _

/-! ### multi-indices -/

theorem mem_indices {shape idx : List Nat} :
    idx ∈ indices shape ↔ List.Forall₂ (· < ·) idx shape := by
  induction shape generalizing idx with
  | nil => simp [indices]
  | cons d ds ih =>
    simp only [indices, List.mem_flatMap, List.mem_range, List.mem_map]
    constructor
    · rintro ⟨i, hi, t, ht, rfl⟩
      exact List.Forall₂.cons hi (ih.mp ht)
    · intro h
      cases h with
      | cons hi ht => exact ⟨_, hi, _, ih.mpr ht, rfl⟩

theorem length_of_mem_indices {shape idx : List Nat} (h : idx ∈ indices shape) :
    idx.length = shape.length :=
  (mem_indices.mp h).length_eq

theorem forall2_getD {idx shape : List Nat} (h : List.Forall₂ (· < ·) idx shape) (k : Nat)
    (hk : k < shape.length) : idx.getD k 0 < shape.getD k 0 := by
  induction h generalizing k with
  | nil => simp at hk
  | cons hi _ ih =>
    cases k with
    | zero => simpa using hi
    | succ k => simpa using ih k (by simpa using hk)

theorem getD_lt_of_mem_indices {shape idx : List Nat} (h : idx ∈ indices shape) (k : Nat)
    (hk : k < shape.length) : idx.getD k 0 < shape.getD k 0 :=
  forall2_getD (mem_indices.mp h) k hk

theorem indices_nonempty (shape : List Nat) (hpos : ∀ d ∈ shape, 0 < d) :
    ∃ idx, idx ∈ indices shape := by
  induction shape with
  | nil => exact ⟨[], by simp [indices]⟩
  | cons d ds ih =>
    obtain ⟨t, ht⟩ := ih (fun x hx => hpos x (List.mem_cons_of_mem _ hx))
    exact ⟨0 :: t, mem_indices.mpr (List.Forall₂.cons (hpos d List.mem_cons_self) (mem_indices.mp ht))⟩

/-- every slice `{idx | idx_i = j}` of a tensor without zero-size dimension is inhabited -/
theorem exists_index (shape : List Nat) (hpos : ∀ d ∈ shape, 0 < d) (i j : Nat)
    (hi : i < shape.length) (hj : j < shape.getD i 0) :
    ∃ idx, idx ∈ indices shape ∧ idx.getD i 0 = j := by
  induction shape generalizing i with
  | nil => simp at hi
  | cons d ds ih =>
    have hpos' : ∀ x ∈ ds, 0 < x := fun x hx => hpos x (List.mem_cons_of_mem _ hx)
    cases i with
    | zero =>
      obtain ⟨t, ht⟩ := indices_nonempty ds hpos'
      refine ⟨j :: t, mem_indices.mpr (List.Forall₂.cons (by simpa using hj) (mem_indices.mp ht)), by simp⟩
    | succ i =>
      obtain ⟨t, ht, htj⟩ := ih hpos' i (by simpa using hi) (by simpa using hj)
      refine ⟨0 :: t, mem_indices.mpr (List.Forall₂.cons (hpos d List.mem_cons_self) (mem_indices.mp ht)), by simpa using htj⟩

/-- rank 1: the only multi-index with first coordinate `j` is `[j]` -/
theorem mem_indices_singleton {d : Nat} {idx : List Nat} (h : idx ∈ indices [d]) :
    idx = [idx.getD 0 0] ∧ idx.getD 0 0 < d := by
  have h2 := mem_indices.mp h
  cases h2 with
  | cons hi ht =>
    cases ht
    exact ⟨by simp, by simpa using hi⟩

/-! ### accumulators -/

theorem mem_coverVals {accs : Accs α} {idx : List Nat} {x : α} :
    x ∈ coverVals accs idx ↔ ∃ k, k < idx.length ∧ accGet accs k (idx.getD k 0) = x := by
  simp [coverVals, List.mem_map, List.mem_range]

theorem coverVals_ne_nil {accs : Accs α} {idx : List Nat} (h : 0 < idx.length) :
    coverVals accs idx ≠ [] := by
  intro hc
  have : (coverVals accs idx).length = idx.length := by simp [coverVals]
  rw [hc] at this
  simp at this
  omega

theorem cover_le {accs : Accs α} {idx : List Nat} {k : Nat} (hk : k < idx.length) :
    cover accs idx ≤ accGet accs k (idx.getD k 0) :=
  minL_le (mem_coverVals.mpr ⟨k, hk, rfl⟩)

theorem le_cover {accs : Accs α} {idx : List Nat} (h : 0 < idx.length) {c : α}
    (hc : ∀ k, k < idx.length → c ≤ accGet accs k (idx.getD k 0)) : c ≤ cover accs idx := by
  refine le_minL (coverVals_ne_nil h) ?_
  intro x hx
  obtain ⟨k, hk, rfl⟩ := mem_coverVals.mp hx
  exact hc k hk

theorem accGet_sketch (shape : List Nat) (pairs : List (List Nat × α)) (i j : Nat) :
    accGet (sketch shape pairs) i j
      = if i < shape.length ∧ j < shape.getD i 0 then sliceMax pairs i j else 0 := by
  unfold accGet sketch
  by_cases hi : i < shape.length
  · have e : shape.getD i 0 = shape[i] := by simp [List.getD_eq_getElem?_getD, hi]
    by_cases hj : j < shape[i]
    · simp [List.getD_eq_getElem?_getD, hi, hj, Array.getD_eq_getD_getElem?]
    · simp [List.getD_eq_getElem?_getD, hi, hj, Array.getD_eq_getD_getElem?]
  · simp [List.getD_eq_getElem?_getD, hi, Array.getD_eq_getD_getElem?]

theorem accGet_initAccs (shape : List Nat) (i j : Nat) : accGet (initAccs (α := α) shape) i j = 0 := by
  unfold accGet initAccs
  by_cases hi : i < shape.length
  · by_cases hj : j < shape[i]
    · simp [List.getD_eq_getElem?_getD, hi, hj, Array.getD_eq_getD_getElem?]
    · simp [List.getD_eq_getElem?_getD, hi, hj, Array.getD_eq_getD_getElem?]
  · simp [List.getD_eq_getElem?_getD, hi, Array.getD_eq_getD_getElem?]

theorem cover_initAccs (shape idx : List Nat) (h : 0 < idx.length) :
    cover (initAccs (α := α) shape) idx = 0 := by
  apply le_antisymm
  · have := cover_le (accs := initAccs (α := α) shape) (idx := idx) h
    rwa [accGet_initAccs] at this
  · exact le_cover h (fun k _ => by rw [accGet_initAccs])

theorem le_sliceMax {pairs : List (List Nat × α)} {p : List Nat × α} (hp : p ∈ pairs) {i j : Nat}
    (hj : p.1.getD i 0 = j) : p.2 ≤ sliceMax pairs i j := by
  unfold sliceMax
  apply le_maxL
  exact List.mem_map.mpr ⟨p, List.mem_filter.mpr ⟨hp, by simpa using hj⟩, rfl⟩

theorem sliceMax_attained {pairs : List (List Nat × α)} {i j : Nat}
    (h : ∃ p ∈ pairs, p.1.getD i 0 = j) :
    ∃ p ∈ pairs, p.1.getD i 0 = j ∧ sliceMax pairs i j = p.2 := by
  obtain ⟨p0, hp0, hj0⟩ := h
  have hne : ((pairs.filter fun p => p.1.getD i 0 == j).map (·.2)) ≠ [] := by
    intro hc
    have : p0.2 ∈ ((pairs.filter fun p => p.1.getD i 0 == j).map (·.2)) :=
      List.mem_map.mpr ⟨p0, List.mem_filter.mpr ⟨hp0, by simpa using hj0⟩, rfl⟩
    rw [hc] at this
    cases this
  have hm := maxL_mem hne
  obtain ⟨p, hp, hpe⟩ := List.mem_map.mp hm
  have hp' := List.mem_filter.mp hp
  exact ⟨p, hp'.1, by simpa using hp'.2, hpe.symm⟩

theorem mem_nuList {upd : α → α → α} {shape : List Nat} {accs : Accs α} {g : List Nat → α}
    {p : List Nat × α} :
    p ∈ nuList upd shape accs g ↔ ∃ idx, idx ∈ indices shape ∧ p = (idx, nuAt upd accs g idx) := by
  unfold nuList
  constructor
  · intro h
    obtain ⟨idx, hidx, rfl⟩ := List.mem_map.mp h
    exact ⟨idx, hidx, rfl⟩
  · rintro ⟨idx, hidx, rfl⟩
    exact List.mem_map.mpr ⟨idx, hidx, rfl⟩

/-- value of a new accumulator entry inside the stored range -/
theorem accGet_accStep (upd : α → α → α) (shape : List Nat) (accs : Accs α) (g : List Nat → α)
    {i j : Nat} (hi : i < shape.length) (hj : j < shape.getD i 0) :
    accGet (accStep upd shape accs g) i j = sliceMax (nuList upd shape accs g) i j := by
  unfold accStep
  rw [accGet_sketch, if_pos ⟨hi, hj⟩]

/-- **Upper bound.** Each new accumulator entry dominates every ν it was reduced from. -/
theorem nuAt_le_accGet_accStep (upd : α → α → α) (shape : List Nat) (accs : Accs α)
    (g : List Nat → α) {idx : List Nat} (hidx : idx ∈ indices shape) {k : Nat}
    (hk : k < shape.length) :
    nuAt upd accs g idx ≤ accGet (accStep upd shape accs g) k (idx.getD k 0) := by
  rw [accGet_accStep upd shape accs g hk (getD_lt_of_mem_indices hidx k hk)]
  exact le_sliceMax (p := (idx, nuAt upd accs g idx)) (mem_nuList.mpr ⟨idx, hidx, rfl⟩) rfl

/-- **Key step.** After an update from *any* state, the cover of a coordinate is at least its ν. -/
theorem nuAt_le_cover_accStep (upd : α → α → α) (shape : List Nat) (hne : shape ≠ [])
    (accs : Accs α) (g : List Nat → α) {idx : List Nat} (hidx : idx ∈ indices shape) :
    nuAt upd accs g idx ≤ cover (accStep upd shape accs g) idx := by
  have hl := length_of_mem_indices hidx
  have hpos : 0 < idx.length := by
    rw [hl]; exact List.length_pos_iff.mpr hne
  refine le_cover hpos (fun k hk => ?_)
  exact nuAt_le_accGet_accStep upd shape accs g hidx (by rwa [hl] at hk)

/-- **Attainment.** Each new accumulator entry is the ν of some coordinate of its slice. -/
theorem accGet_accStep_attained (upd : α → α → α) (shape : List Nat) (hpos : ∀ d ∈ shape, 0 < d)
    (accs : Accs α) (g : List Nat → α) {i j : Nat} (hi : i < shape.length)
    (hj : j < shape.getD i 0) :
    ∃ idx, idx ∈ indices shape ∧ idx.getD i 0 = j ∧
      accGet (accStep upd shape accs g) i j = nuAt upd accs g idx := by
  obtain ⟨idx0, hidx0, hj0⟩ := exists_index shape hpos i j hi hj
  have hex : ∃ p ∈ nuList upd shape accs g, p.1.getD i 0 = j :=
    ⟨(idx0, nuAt upd accs g idx0), mem_nuList.mpr ⟨idx0, hidx0, rfl⟩, hj0⟩
  obtain ⟨p, hp, hpj, hpe⟩ := sliceMax_attained hex
  obtain ⟨idx, hidx, rfl⟩ := mem_nuList.mp hp
  exact ⟨idx, hidx, hpj, by rw [accGet_accStep upd shape accs g hi hj, hpe]⟩

/-- the invariant behind monotonicity: every stored accumulator entry is no larger than the cover of
some coordinate of its slice (so it is *attained* as that coordinate's minimum) -/
def Tight (shape : List Nat) (accs : Accs α) : Prop :=
  ∀ i j, i < shape.length → j < shape.getD i 0 →
    ∃ idx, idx ∈ indices shape ∧ idx.getD i 0 = j ∧ accGet accs i j ≤ cover accs idx

theorem tight_initAccs (shape : List Nat) (hpos : ∀ d ∈ shape, 0 < d) :
    Tight shape (initAccs (α := α) shape) := by
  intro i j hi hj
  obtain ⟨idx, hidx, hij⟩ := exists_index shape hpos i j hi hj
  refine ⟨idx, hidx, hij, ?_⟩
  have hl : 0 < idx.length := by rw [length_of_mem_indices hidx]; omega
  rw [accGet_initAccs, cover_initAccs shape idx hl]

theorem tight_accStep (upd : α → α → α) (shape : List Nat) (hpos : ∀ d ∈ shape, 0 < d)
    (accs : Accs α) (g : List Nat → α) : Tight shape (accStep upd shape accs g) := by
  intro i j hi hj
  obtain ⟨idx, hidx, hij, he⟩ := accGet_accStep_attained upd shape hpos accs g hi hj
  refine ⟨idx, hidx, hij, ?_⟩
  rw [he]
  exact nuAt_le_cover_accStep upd shape (by intro h; rw [h] at hi; simp at hi) accs g hidx

theorem accRun_concat (upd : α → α → α) (shape : List Nat) (gs : List (List Nat → α))
    (g : List Nat → α) :
    accRun upd shape (gs ++ [g]) = accStep upd shape (accRun upd shape gs) g := by
  simp [accRun, List.foldl_append]

theorem tight_accRun (upd : α → α → α) (shape : List Nat) (hpos : ∀ d ∈ shape, 0 < d)
    (gs : List (List Nat → α)) : Tight shape (accRun upd shape gs) := by
  induction gs using List.reverseRecOn with
  | nil => exact tight_initAccs shape hpos
  | append_singleton gs g _ =>
    rw [accRun_concat]
    exact tight_accStep upd shape hpos _ g

/-- from a tight state an inflationary update rule never lowers an accumulator entry -/
theorem accGet_le_accStep_of_tight (upd : α → α → α) (hinfl : ∀ a g, a ≤ upd a g)
    (shape : List Nat) (accs : Accs α) (ht : Tight shape accs) (g : List Nat → α) {i j : Nat}
    (hi : i < shape.length) (hj : j < shape.getD i 0) :
    accGet accs i j ≤ accGet (accStep upd shape accs g) i j := by
  obtain ⟨idx, hidx, hij, hle⟩ := ht i j hi hj
  have h1 := nuAt_le_accGet_accStep upd shape accs g hidx hi
  rw [hij] at h1
  exact le_trans hle (le_trans (hinfl _ _) h1)

/-! ### joint run of SM3 and diagonal AdaGrad -/

theorem adaRun_concat (upd : α → α → α) (gs : List (List Nat → α)) (g : List Nat → α)
    (idx : List Nat) : adaRun upd (gs ++ [g]) idx = upd (adaRun upd gs idx) (g idx) := by
  simp [adaRun, List.foldl_append]

/-- the cover invariant is preserved by one step, from any state -/
theorem cover_step (upd : α → α → α) (hmono : ∀ a b g, a ≤ b → upd a g ≤ upd b g)
    (shape : List Nat) (hne : shape ≠ []) (accs : Accs α) (g : List Nat → α) (s : α)
    {idx : List Nat} (hidx : idx ∈ indices shape) (h : s ≤ cover accs idx) :
    upd s (g idx) ≤ cover (accStep upd shape accs g) idx :=
  le_trans (hmono _ _ _ h) (nuAt_le_cover_accStep upd shape hne accs g hidx)

theorem cover_run (upd : α → α → α) (hmono : ∀ a b g, a ≤ b → upd a g ≤ upd b g)
    (shape : List Nat) (hne : shape ≠ []) (gs : List (List Nat → α)) {idx : List Nat}
    (hidx : idx ∈ indices shape) :
    adaRun upd gs idx ≤ cover (accRun upd shape gs) idx := by
  induction gs using List.reverseRecOn with
  | nil =>
    have hl : 0 < idx.length := by
      rw [length_of_mem_indices hidx]; exact List.length_pos_iff.mpr hne
    simp only [adaRun, accRun, List.foldl_nil]
    rw [cover_initAccs shape idx hl]
  | append_singleton gs g ih =>
    rw [accRun_concat, adaRun_concat]
    exact cover_step upd hmono shape hne _ g _ hidx ih

end order

/-! ### the code's arithmetic in ordered fields -/

section field
variable {α : Type} [Field α] [LinearOrder α] [IsStrictOrderedRing α]

theorem codeUpd_mono {β2 : α} (hβ : 0 ≤ β2) (w : α) (a b g : α) (h : a ≤ b) :
    codeUpd β2 w a g ≤ codeUpd β2 w b g := by
  unfold codeUpd
  have := mul_le_mul_of_nonneg_left h hβ
  linarith

theorem codeUpd_infl {w : α} (hw : 0 ≤ w) (a g : α) : a ≤ codeUpd 1 w a g := by
  unfold codeUpd
  have := mul_nonneg hw (mul_self_nonneg g)
  linarith

theorem codeUpd_nonneg {β2 w : α} (hβ : 0 ≤ β2) (hw : 0 ≤ w) {a : α} (ha : 0 ≤ a) (g : α) :
    0 ≤ codeUpd β2 w a g := by
  unfold codeUpd
  have h1 := mul_nonneg hβ ha
  have h2 := mul_nonneg hw (mul_self_nonneg g)
  linarith

theorem wOf_one : wOf (1 : α) = 1 := by
  unfold wOf
  simp

theorem wOf_of_ne {β : α} (h : β ≠ 1) : wOf β = 1 - β := by
  unfold wOf
  rcases lt_or_gt_of_ne h with h | h
  · simp [h]
  · simp [h, not_lt.mpr (le_of_lt h)]

theorem wOf_nonneg {β : α} (h : β ≤ 1) : 0 ≤ wOf β := by
  by_cases h1 : β = 1
  · rw [h1, wOf_one]; exact zero_le_one
  · rw [wOf_of_ne h1]; linarith

/-- exact decayed sum of squared gradients of one coordinate: `Σ_t β2^(T-1-t) · w · g_t²` -/
def decayedSum (β2 w : α) (gs : List (List Nat → α)) (idx : List Nat) : α :=
  ((List.range gs.length).map fun t =>
    β2 ^ (gs.length - 1 - t) * (w * ((gs.getD t (fun _ => 0)) idx * (gs.getD t (fun _ => 0)) idx))).sum

theorem adaRun_nonneg {β2 w : α} (hβ : 0 ≤ β2) (hw : 0 ≤ w) (gs : List (List Nat → α))
    (idx : List Nat) : 0 ≤ adaRun (codeUpd β2 w) gs idx := by
  induction gs using List.reverseRecOn with
  | nil => simp [adaRun]
  | append_singleton gs g ih =>
    rw [adaRun_concat]
    exact codeUpd_nonneg hβ hw ih _

theorem adaRun_eq_decayedSum (β2 w : α) (gs : List (List Nat → α)) (idx : List Nat) :
    adaRun (codeUpd β2 w) gs idx = decayedSum β2 w gs idx := by
  induction gs using List.reverseRecOn with
  | nil => simp [adaRun, decayedSum]
  | append_singleton gs g ih =>
    rw [adaRun_concat, ih]
    unfold decayedSum codeUpd
    rw [List.length_append, List.length_singleton, List.range_succ, List.map_append, List.sum_append,
      ← List.sum_map_mul_left]
    simp only [List.map_cons, List.map_nil, List.sum_cons, List.sum_nil]
    congr 1
    · congr 1
      apply List.map_congr_left
      intro t ht
      have ht' : t < gs.length := List.mem_range.mp ht
      have e1 : gs.length + 1 - 1 - t = (gs.length - 1 - t) + 1 := by omega
      have e2 : (gs ++ [g]).getD t (fun _ => 0) = gs.getD t (fun _ => 0) := by
        simp [List.getD_eq_getElem?_getD, List.getElem?_append_left ht']
      rw [e1, e2, pow_succ]
      ring
    · have e2 : (gs ++ [g]).getD gs.length (fun _ => 0) = g := by
        simp [List.getD_eq_getElem?_getD]
      rw [e2]
      simp

end field

end PrecondVerif.SM3
