/-
Round 2 of `Props/Compose.lean`, item (2): the stored-preconditioner theorem for an arbitrary root routine carrying a
certificate (`stored_certified`, `used_preconds_certified`), and the certificates of C01's other root routines — the
`matrix_size == 1` branch (`ScalarHonest`, from `C01.onebyone_root`), the eigh root (`EighHonest`, from
`C01.eigh_error_honest`), and `matrix_inverse_pth_root` as dispatched on the statistic size (`DispatchCert`).
Item (3): the batched step of a parameter tree is the map of the per-leaf steps (`treeStepBatched_eq_indep`).
-/
import PrecondVerif.Lemmas.Compose
import PrecondVerif.Lemmas.ComposePad

set_option linter.unusedSectionVars false

namespace PrecondVerif.Compose
open PrecondVerif.InvRoot PrecondVerif.Gate PrecondVerif.Schedule PrecondVerif.DShampoo PrecondVerif.Shapes

section Cert
variable {σ π γ φ δ m α : Type} [Add α] [Mul α] [Sub α] [OfNat α 0] [OfNat α 1]

/-- (1) with an arbitrary certificate the routine's outputs carry -/
theorem stored_certified (thr : XF) (hthr : thr.isNaN = false) (statsUpd : σ → γ → σ)
    (root : σ → π → φ → π × XF) (junk : σ → π)
    (graftUpd : δ → γ → Nat → δ × α × α) (shampooUpd : m → π → γ → Nat → m × α × α) (finish : α → α → Nat → α)
    (Cert : σ → π → XF → Prop) (I : σ → Prop)
    (hcert : ∀ st prev f, I st → Cert st (root st prev f).1 (root st prev f).2)
    (cfg : DSCfg) (s0 : DSState σ π XF δ m) (is : List (DSInp γ φ)) (h0 : I s0.stats)
    (hupd : ∀ st g, I st → I (statsUpd st g)) (k : Nat) (hk : k ≤ is.length) :
    let K := gateKernels thr statsUpd root junk graftUpd shampooUpd finish
    let S := stateAt (dsStep K cfg) s0 is
    (S k).precond = s0.precond ∨
      ∃ r e, r < k ∧ (s0.count + r) % cfg.interval (s0.count + r) = 0 ∧ e.isNaN = false ∧ e.lt thr = true ∧
        I (S (r + 1)).stats ∧ Cert (S (r + 1)).stats (S k).precond e := by
  intro K S
  rcases stored_is_initial_or_accepted thr hthr statsUpd root junk graftUpd shampooUpd finish cfg s0 is k hk
    with h | ⟨r, hr, h1, h2, h3, h4⟩
  · exact Or.inl h
  · have hI := stats_invariant K cfg s0 is I h0 hupd (r + 1) (by omega)
    refine Or.inr ⟨r, _, hr, h1, h3, h4, hI, ?_⟩
    rw [h2]
    exact hcert _ _ _ hI

end Cert

section Forms
variable {α : Type} [Field α] [LinearOrder α] [IsStrictOrderedRing α]

theorem ridgeOf_pos (eps maxEv floor : α) (he : 0 < eps) (hf : 0 < floor) : 0 < ridgeOf eps maxEv floor := by
  unfold ridgeOf; rw [maxS_eq_max]
  exact mul_pos he (lt_of_lt_of_le hf (le_max_right _ _))

/-- certificate of the `1 × 1` branch -/
def ScalarHonest (N : NewtonCfg α) (rep : α → XF) (invroot : α → α) (a x : α) (e : XF) : Prop :=
  let d := ridgeOf N.eps (N.maxEvOf 1 1 fun _ _ => a) N.epsFloor
  0 < d ∧ x = invroot (a + d) ∧ x ^ N.p * (a + d) = 1 ∧ e = rep 0

theorem scalarSlotRoot_cert (N : NewtonCfg α) (rep : α → XF) (invroot : α → α) (he : 0 < N.eps) (hf : 0 < N.epsFloor)
    (hinv : ∀ x, 0 < x → invroot x ^ N.p * x = 1) (hcast : ∀ x, N.cast32 x = x) (a prev : α) (f : Unit) (ha : 0 ≤ a) :
    ScalarHonest N rep invroot a (scalarSlotRoot N rep invroot a prev f).1 (scalarSlotRoot N rep invroot a prev f).2 := by
  have hd := ridgeOf_pos N.eps (N.maxEvOf 1 1 fun _ _ => a) N.epsFloor he hf
  obtain ⟨h1, _, h3⟩ := C01.onebyone_root N.p invroot N.cast32 a _ ha hd hinv hcast
  refine ⟨hd, h1, ?_, ?_⟩
  · show (oneByOne N.p invroot N.cast32 a (ridgeOf N.eps (N.maxEvOf 1 1 fun _ _ => a) N.epsFloor)).1 ^ N.p * _ = 1
    rw [h1]; exact hinv _ (by linarith)
  · show rep (oneByOne N.p invroot N.cast32 a (ridgeOf N.eps (N.maxEvOf 1 1 fun _ _ => a) N.epsFloor)).2 = rep 0
    rw [h3]

end Forms

section Eigh
variable {α : Type} [Field α] [LinearOrder α] [IsStrictOrderedRing α] {n : Nat}
open Matrix

/-- what the eigh theorems of C01 assume about the eigen-solver's output `(U, e)` for the regularised statistic
(no padding): `U` orthogonal, computed eigenvalues `≥ ridge > 0` -/
def EighKernelOK (kernel : (n : Nat) → Mat α n n → Mat α n n × Vec α n) (ridgeFn : (n : Nat) → Mat α n n → α)
    (s : Nat) (A : Mat α n n) : Prop :=
  0 < ridgeFn n A ∧
    (Matrix.of (kernel n (regularized s A (ridgeFn n A))).1 : MatR α n)ᵀ *
        Matrix.of (kernel n (regularized s A (ridgeFn n A))).1 = 1 ∧
    (Matrix.of (kernel n (regularized s A (ridgeFn n A))).1 : MatR α n) *
        (Matrix.of (kernel n (regularized s A (ridgeFn n A))).1)ᵀ = 1 ∧
    ∀ i, ridgeFn n A ≤ (kernel n (regularized s A (ridgeFn n A))).2 i

/-- certificate of the eigh root: residual bounded by `n · err / ridge` for the error it reports -/
def EighHonest (ridgeFn : (n : Nat) → Mat α n n → α) (rep : α → XF) (p s : Nat) (A X : Mat α n n) (e : XF) : Prop :=
  ∃ err : α, e = rep err ∧
    ∀ i j, |((Matrix.of X : MatR α n) ^ p * dampedM s A (ridgeFn n A) - 1) i j| ≤ (n : α) * err / ridgeFn n A

theorem eighSlotRoot_cert (kernel : (n : Nat) → Mat α n n → Mat α n n × Vec α n) (ridgeFn : (n : Nat) → Mat α n n → α)
    (sqrt invroot : α → α) (rep : α → XF) (p s : Nat) (hs : s ≠ 0) (hns : n ≤ s)
    (hsqrt : ∀ x, 0 ≤ x → sqrt x * sqrt x = x) (hinv : ∀ x, 0 < x → 0 ≤ invroot x ∧ invroot x ^ p * x = 1)
    (A prev : Mat α n n) (f : Unit) (hk : EighKernelOK kernel ridgeFn s A) :
    EighHonest ridgeFn rep p s A (eighSlotRoot kernel ridgeFn sqrt invroot rep s A prev f).1
      (eighSlotRoot kernel ridgeFn sqrt invroot rep s A prev f).2 :=
  ⟨_, rfl, C01.eigh_error_honest s p hs hns sqrt invroot (ridgeFn n A) hk.1 A _ _ hk.2.1 hk.2.2.1 hk.2.2.2 hsqrt hinv⟩

end Eigh

section ParamCert
variable {α : Type} [Field α] [LinearOrder α] [IsStrictOrderedRing α] [Inhabited α]

/-- (2), state half, for arbitrary per-slot root routines carrying a certificate -/
theorem used_preconds_certified (thr : XF) (hthr : thr.isNaN = false)
    (rootOf : Nat → Mx α → Mx α → Unit → Mx α × XF) (Cert : Nat → Mx α → Mx α → XF → Prop) (I : Nat → Mx α → Prop)
    (hcert : ∀ i st prev f, I i st → Cert i st (rootOf i st prev f).1 (rootOf i st prev f).2)
    (G : Geom) (w1 w2 : α) (hupd : ∀ i st g, I i st → I i (slotStatsUpd G w1 w2 i st g))
    (upd : Nat → List α → List α → PState α → List (Mx α) → List (Mx α) → Option (TOut α))
    (cfg : DSCfg) (s0 : ParamState α) (hist : List (List α × List α)) (t : Nat) (ht : t < hist.length)
    (i : Nat) (hi : i < s0.slots.length) (h0 : I i s0.slots[i].stats) :
    let mk := slotKernelsWith thr rootOf G w1 w2
    let S := stateAt (paramStepWith upd mk cfg) s0 hist
    ∃ P, (usedAt mk cfg (S t) hist[t].1)[i]? = some P ∧
      (P = s0.slots[i].precond ∨
        ∃ r slr e, (r < t ∨ (cfg.sharded = false ∧ r = t)) ∧
          (s0.slots[i].count + r) % cfg.interval (s0.slots[i].count + r) = 0 ∧
          (S (r + 1)).slots[i]? = some slr ∧ e.isNaN = false ∧ e.lt thr = true ∧ Cert i slr.stats P e) := by
  intro mk S
  let is' := hist.map fun x => (⟨x.1, ()⟩ : DSInp (List α) Unit)
  let T := stateAt (dsStep (mk i) cfg) s0.slots[i] is'
  have hlen : is'.length = hist.length := List.length_map _
  have hproj : ∀ k, (S k).slots[i]? = some (T k) := by
    intro k
    have := paramStateAt_slot upd mk cfg i hist s0 k
    rw [List.getElem?_eq_getElem hi] at this
    exact this
  have hget : is'[t]'(by omega) = ⟨hist[t].1, ()⟩ := by simp [is']
  have key : ∀ k, k ≤ is'.length → (T k).precond = s0.slots[i].precond ∨
      ∃ r e, r < k ∧ (s0.slots[i].count + r) % cfg.interval (s0.slots[i].count + r) = 0 ∧ e.isNaN = false ∧
        e.lt thr = true ∧ I i (T (r + 1)).stats ∧ Cert i (T (r + 1)).stats (T k).precond e := fun k hk =>
    stored_certified thr hthr (slotStatsUpd G w1 w2 i) (rootOf i) id
      (fun _ _ _ => ((), (0 : Nat), (0 : Nat))) (fun _ _ _ _ => ((), (0 : Nat), (0 : Nat))) (fun a _ _ => a)
      (Cert i) (I i) (hcert i) cfg s0.slots[i] is' h0 (hupd i) k hk
  by_cases hsh : cfg.sharded = true
  · refine ⟨(T t).precond, ?_, ?_⟩
    · unfold usedAt usedPreconds
      rw [if_pos hsh, List.getElem?_map, hproj t]; rfl
    · rcases key t (by omega) with h | ⟨r, e, hr, h1, h2, h3, _, h5⟩
      · exact Or.inl h
      · exact Or.inr ⟨r, T (r + 1), e, Or.inl hr, h1, hproj (r + 1), h2, h3, h5⟩
  · refine ⟨(T (t + 1)).precond, ?_, ?_⟩
    · unfold usedAt usedPreconds
      rw [if_neg hsh, List.getElem?_map, slotsStep_getElem?, hproj t]
      show some (dsStep (mk i) cfg (T t) ⟨hist[t].1, ()⟩).1.precond = _
      rw [← hget, ← stateAt_succ (dsStep (mk i) cfg) s0.slots[i] is' t (by omega)]
    · rcases key (t + 1) (by omega) with h | ⟨r, e, hr, h1, h2, h3, _, h5⟩
      · exact Or.inl h
      · refine Or.inr ⟨r, T (r + 1), e, ?_, h1, hproj (r + 1), h2, h3, h5⟩
        rcases Nat.lt_succ_iff_lt_or_eq.mp hr with h | h
        · exact Or.inl h
        · exact Or.inr ⟨by simpa using hsh, h⟩

theorem lsum_sq_nonneg {β : Type} (l : List β) (f : β → α) : 0 ≤ lsum (l.map fun x => f x * f x) := by
  induction l with
  | nil => simp [lsum]
  | cons x xs ih =>
    simp only [List.map_cons, lsum, List.foldr_cons] at ih ⊢
    exact add_nonneg (mul_self_nonneg (f x)) ih

theorem slotStatsUpd_diag_nonneg (G : Geom) (w1 w2 : α) (hw1 : 0 ≤ w1) (hw2 : 0 ≤ w2) (i : Nat) (L : Mx α)
    (g : List α) (k : Nat) (h : 0 ≤ L k k) : 0 ≤ slotStatsUpd G w1 w2 i L g k k := by
  unfold slotStatsUpd statStep
  apply add_nonneg (mul_nonneg hw1 h) (mul_nonneg hw2 _)
  unfold gram
  exact lsum_sq_nonneg _ _

end ParamCert

section Dispatch
variable {α : Type} [Field α] [LinearOrder α] [IsStrictOrderedRing α] [Inhabited α]

/-- certificate of the Newton branch (what `C01.newton_error_honest` gives for every output, accepted or not) -/
def NewtonCert (N : NewtonCfg α) (rep : α → XF) (d : Nat) (L P : Mx α) (e : XF) : Prop :=
  P = toMx (newtonOut N d (ofMx d L)).x ∧ e = rep (newtonOut N d (ofMx d L)).err ∧
  1 ≤ (newtonOut N d (ofMx d L)).retries ∧
  ∀ i j, |((Matrix.of (newtonOut N d (ofMx d L)).x) ^ N.p *
      dampedM d (ofMx d L) (newtonRidge N d (ofMx d L) * 10 ^ ((newtonOut N d (ofMx d L)).retries - 1))
      - Es α d d) i j| ≤ (newtonOut N d (ofMx d L)).err

/-- certificate of `matrix_inverse_pth_root` as dispatched on the statistic size -/
def DispatchCert (N : NewtonCfg α) (rep : α → XF) (invroot : α → α) (dims : Nat → Nat) (i : Nat) (L P : Mx α)
    (e : XF) : Prop :=
  if dims i = 1 then
    (P = fun a b => if a = 0 ∧ b = 0 then P 0 0 else 0) ∧ ScalarHonest N rep invroot (L 0 0) (P 0 0) e
  else NewtonCert N rep (dims i) L P e

theorem dispatch_cert (N : NewtonCfg α) (hN : NewtonOK N) (rep : α → XF) (invroot : α → α) (he : 0 < N.eps)
    (hf : 0 < N.epsFloor) (hinv : ∀ x, 0 < x → invroot x ^ N.p * x = 1) (dims : Nat → Nat) (hd : ∀ i, dims i ≠ 0)
    (i : Nat) (L prev : Mx α) (f : Unit) (hL : 0 ≤ L 0 0) :
    DispatchCert N rep invroot dims i L (dispatchSlotRootMx N rep invroot dims i L prev f).1
      (dispatchSlotRootMx N rep invroot dims i L prev f).2 := by
  unfold DispatchCert dispatchSlotRootMx
  by_cases h1 : dims i = 1
  · rw [if_pos h1, if_pos h1]
    refine ⟨?_, ?_⟩
    · funext a b
      simp only [scalarSlotRootMx]
      by_cases hab : a = 0 ∧ b = 0
      · simp [hab]
      · simp [hab]
    · have := scalarSlotRoot_cert N rep invroot he hf hinv hN.hcast (L 0 0) 0 () hL
      simpa [scalarSlotRootMx] using this
  · rw [if_neg h1, if_neg h1]
    obtain ⟨g1, g2⟩ := newtonOut_honest N hN (dims i) (hd i) (ofMx (dims i) L)
    exact ⟨rfl, rfl, g1, g2⟩

end Dispatch
section Tree3
variable {α : Type} [Field α] [LinearOrder α] [IsStrictOrderedRing α] [Inhabited α]

theorem dsStep_withRes (K : DSKernels (Mx α) (Mx α) XF (List α) Unit Unit Unit Nat) (cfg : DSCfg) (s : SlotState α)
    (g : List α) :
    dsStep (withRes K (K.rootAll (dsStats' K cfg s g) s.precond ())) cfg s ⟨g, ()⟩ = dsStep K cfg s ⟨g, ()⟩ := rfl

theorem slotsStep_congr (mk mk' : SlotK α) (cfg : DSCfg) (slots : List (SlotState α)) (g : List α)
    (h : ∀ i (hi : i < slots.length), (dsStep (mk' i) cfg slots[i] ⟨g, ()⟩).1 = (dsStep (mk i) cfg slots[i] ⟨g, ()⟩).1) :
    slotsStep mk' cfg slots g = slotsStep mk cfg slots g := by
  apply List.ext_getElem?
  intro i
  rw [slotsStep_getElem?, slotsStep_getElem?]
  by_cases hi : i < slots.length
  · rw [List.getElem?_eq_getElem hi]; simp only [Option.map_some]; rw [h i hi]
  · rw [List.getElem?_eq_none (by omega)]; rfl

theorem paramStepWith_congr (upd : Nat → List α → List α → PState α → List (Mx α) → List (Mx α) → Option (TOut α))
    (mk mk' : SlotK α) (cfg : DSCfg) (s : ParamState α) (x : List α × List α)
    (h : ∀ i (hi : i < s.slots.length),
      (dsStep (mk' i) cfg s.slots[i] ⟨x.1, ()⟩).1 = (dsStep (mk i) cfg s.slots[i] ⟨x.1, ()⟩).1) :
    paramStepWith upd mk' cfg s x = paramStepWith upd mk cfg s x := by
  unfold paramStepWith
  rw [slotsStep_congr mk mk' cfg s.slots x.1 h]


open PrecondVerif.BlockDiag in
/-- (3) top level: the batched tree step is the map of the independent per-leaf steps -/
theorem treeStepBatched_eq_indep (rootB : Nat → Nat → A2 α → Mx α × XF)
    (hpad : ∀ N s a, s ≤ N → rootB N s a = rootB s s a) (filler : Stat α) (D : Nat) (hD : 1 ≤ D)
    (upd : Nat → Nat → List α → List α → PState α → List (Mx α) → List (Mx α) → Option (TOut α))
    (mk : Nat → SlotK α) (dims : Nat → Nat → Nat)
    (hroot : ∀ l i L prev, (mk l i).rootAll L prev () = rootB (dims l i) (dims l i) (tabM (dims l i) L))
    (cfg : DSCfg) (ps : List (ParamState α)) (inp : Nat → List α × List α) :
    treeStepBatched rootB filler D upd mk dims cfg ps inp = treeStepIndep upd mk cfg ps inp := by
  unfold treeStepBatched treeStepIndep
  simp only []
  rw [distributed_eq_batched rootB filler D hD, C08.batched_roots_are_map rootB hpad]
  apply List.ext_getElem?
  intro l
  rw [List.getElem?_mapIdx, List.getElem?_mapIdx]
  cases hps : ps[l]? with
  | none => rfl
  | some s =>
    simp only [Option.map_some]
    congr 1
    apply paramStepWith_congr
    intro i hi
    have hl : l < ps.length := (List.getElem?_eq_some_iff.mp hps).1
    have hres : ((List.map (fun x => List.map (fun st : Stat α => rootB st.size st.size st.dat) x)
        (treeBatch mk dims cfg ps inp)).getD l []).getD i (Mx.zero, XF.nan) =
        (mk l i).rootAll (dsStats' (mk l i) cfg s.slots[i] (inp l).1) s.slots[i].precond () := by
      rw [hroot]
      simp [treeBatch, leafNewStats, List.getD_eq_getElem?_getD, List.getElem?_mapIdx, hps, hi]
    rw [hres]
    exact congrArg Prod.fst (dsStep_withRes (mk l i) cfg s.slots[i] (inp l).1)

end Tree3

section TreeNewton
open PrecondVerif.BlockDiag
variable {α : Type} [Field α] [LinearOrder α] [IsStrictOrderedRing α] [Inhabited α]

theorem ofA2_tabM (d : Nat) (L : Mx α) : ofA2 d (tabM d L) = ofMx d L := by
  funext i j
  unfold ofA2 ofMx
  rw [rdM_tabM, if_pos ⟨i.isLt, j.isLt⟩]

/-- the slot routine of (1)–(2) is the batch routine without padding -/
theorem newtonSlotRootMx_eq_batch (Nw : NewtonCfg α) (rep : α → XF) (d : Nat) (L prev : Mx α) :
    newtonSlotRootMx Nw rep d L prev () = newtonBatchRoot Nw rep d d (tabM d L) := by
  unfold newtonSlotRootMx newtonBatchRoot
  rw [paddedRootC01_self, ofA2_tabM]

theorem newtonBatchRoot_padding_invariant (Nw : NewtonCfg α) (rep : α → XF) (hmax : MaxEvPadOK Nw) (N s : Nat)
    (a : A2 α) (hs : s ≤ N) : newtonBatchRoot Nw rep N s a = newtonBatchRoot Nw rep s s a := by
  unfold newtonBatchRoot
  rw [paddedRootC01_padding_invariant Nw hs a (hmax N s a hs)]

end TreeNewton

/-! ### round 3: entry-level form of the blocked mode products (C06 tiling) -/

theorem forall₂_getElem {β γ : Type} {R : β → γ → Prop} : ∀ {l₁ : List β} {l₂ : List γ}, List.Forall₂ R l₁ l₂ →
    ∀ (k : Nat) (h₁ : k < l₁.length) (h₂ : k < l₂.length), R l₁[k] l₂[k]
  | _, _, .nil, k, h₁, _ => by simp at h₁
  | _, _, .cons h t, 0, _, _ => h
  | _, _, .cons h t, k + 1, h₁, h₂ => forall₂_getElem t k (by simpa using h₁) (by simpa using h₂)

/-- entry of `merge_partitions` of blocks transformed by a shape-preserving per-block function -/
theorem merge_blockFn_entry {α : Type} [Inhabited α] (t : Tensor α) (b : Nat) (blockFn : Nat → Tensor α → Tensor α)
    (hshape : ∀ k (hk : k < (partition t b).length), (blockFn k (partition t b)[k]).shape = (partition t b)[k].shape)
    (idx : List Nat) (hi : inBounds t.shape idx) :
    ∃ u, mergePartitions t.shape b ((partition t b).zipIdx.map fun gb => blockFn gb.2 gb.1) = some u ∧
      u.shape = t.shape ∧
      ∃ hk : (locateBlock t.shape b idx).1 < (partition t b).length,
        u.get idx = (blockFn (locateBlock t.shape b idx).1 ((partition t b)[(locateBlock t.shape b idx).1])).get
          (locateBlock t.shape b idx).2 := by
  set parts := (partition t b).zipIdx.map fun gb => blockFn gb.2 gb.1 with hparts
  have hlen : parts.length = (partition t b).length := by simp [hparts]
  have hget : ∀ k (hk : k < (partition t b).length), parts[k]'(by rw [hlen]; exact hk) = blockFn k (partition t b)[k] := by
    intro k hk; simp [hparts]
  have hshapes : parts.map (·.shape) = cartesian (splitAll t.shape b) := by
    rw [← (C06.precond_shapes_agree_with_blocks .all 0 t b).1]
    apply List.ext_getElem
    · simp [hlen]
    · intro k h1 h2
      have hk : k < (partition t b).length := by simpa using h2
      simp only [List.getElem_map]
      rw [hget k hk, hshape k hk]
  obtain ⟨u, hu, hus, hF⟩ := C06.partition_merge_id t.shape b parts hshapes
  obtain ⟨hk, hj, haddr, _⟩ := C06.partition_blocks_tile t.shape b idx hi
  have hkt : (locateBlock t.shape b idx).1 < (partition t b).length := by rw [C06.partition_count_grid]; exact hk
  have hku : (locateBlock t.shape b idx).1 < (partition u b).length := by rw [C06.partition_count_grid, hus]; exact hk
  refine ⟨u, hu, hus, hkt, ?_⟩
  obtain ⟨c1, c2, _⟩ := C06.partition_contiguous u b _ hku
  have hE := forall₂_getElem hF _ hku (by rw [hlen]; exact hkt)
  rw [hus] at c1 c2
  have hjl : (locateBlock t.shape b idx).2.length = t.shape.length := by
    have := inBounds_length hj
    rw [this]; simp [blockDims, blockCoords, unravel_length_eq, blockGrid_length]
  rw [← hget _ hkt, ← hE.2 _ (by rw [c1]; exact hj), c2 _ hjl, haddr]


section DSEntry
variable {α : Type} [Add α] [Mul α] [OfNat α 0] [Inhabited α]

theorem specSlots_slotMats_length (P : List (Mx α)) (pt : PType) (rank b : Nat) :
    (slotMats P Mx.zero (specSlots pt rank b)).length = rank := by
  simp [slotMats, specSlots]

/-- entry-level form of C02's `specPrecondGrad` -/
theorem ds_precond_grad_entry (G : Geom) (P : List (Mx α)) (g : List α) (idx : List Nat) (hi : inBounds G.tshape idx) :
    ∃ u : Tensor α, specPrecondGrad G P g = some ((u.reshape G.shape).flat) ∧ u.shape = G.tshape ∧
      ∃ hk : (locateBlock G.tshape G.block idx).1 < (G.blocks g).length,
        u.get idx =
          (specBlock ((G.blocks g)[(locateBlock G.tshape G.block idx).1])
            (slotMats P Mx.zero (specSlots G.ptype G.rank (locateBlock G.tshape G.block idx).1))).get
            (locateBlock G.tshape G.block idx).2 := by
  obtain ⟨u, hu, hus, hk, hget⟩ := merge_blockFn_entry ((ofFlat G.shape g).reshape G.tshape) G.block
    (fun b gb => specBlock gb (slotMats P Mx.zero (specSlots G.ptype G.rank b)))
    (fun k hk => by
      apply (lowBlock_eq_specBlock _ _ _).2.1
      rw [specSlots_slotMats_length]
      exact (C06.precond_shapes_agree_with_blocks .all 0 _ G.block).2.2.1 _ (List.getElem_mem hk) |>.symm)
    idx hi
  refine ⟨u, ?_, hus, hk, hget⟩
  unfold specPrecondGrad precondGradWith Geom.assemble
  show (mergePartitions G.tshape G.block _).map _ = _
  have : mergePartitions G.tshape G.block
      ((G.blocks g).zipIdx.map fun gb => specBlock gb.1 (slotMats P Mx.zero (specSlots G.ptype G.rank gb.2))) = some u := hu
  rw [this]; rfl

end DSEntry


end PrecondVerif.Compose
