/-
Padding invariance of C01's Newton routine and power iteration (round 2 of `Props/Compose.lean`): the run on
`blockdiag(A, ·)` of size `N` with `padding_start = s` IS `blockdiag(run on A, 0)`.

  * `Sim`: a simulation between two operation records `Alg M₁ α`, `Alg M₂ α` through a relation `R` preserved by every
    operation the iteration uses; `iterBody`, `newtonInner`, `innerInit`, `blend`, `outerBody`, `outerLoop`, `newtonOuter`
    preserve it (all scalars — errors, ratios, counters, the branch conditions — are EQUAL on both sides).
  * `IsEmb X Y` ("`X = blockdiag(Y, 0)`") is such a relation between `matAlg N s` and `matAlg s s` (`matAlg_sim`): products,
    sums, the masked identity, `max|· − I_s|`, the Frobenius norm, and `mat_power(·, p) @ ·` (through `C01.matPower_matrix`).
  * `newtonRoot_padding_invariant`, `paddedRootC01_padding_invariant`; `powerIteration_padding_invariant`.
-/
import PrecondVerif.Model.Compose
import PrecondVerif.Props.C01
import PrecondVerif.Lemmas.BlockDiag
import Mathlib.Data.Fintype.BigOperators

set_option linter.unusedSectionVars false

namespace PrecondVerif.Compose
open PrecondVerif.InvRoot

/-! ### simulation between two operation records -/
section Sim
variable {M₁ M₂ α : Type} [Add α] [Sub α] [Mul α] [Div α] [Zero α] [One α] [OfNat α 2] [OfNat α 10] [LT α]
  [DecidableLT α]

structure Sim (K₁ : Alg M₁ α) (K₂ : Alg M₂ α) (R : M₁ → M₂ → Prop) : Prop where
  mul : ∀ {x x' y y'}, R x y → R x' y' → R (K₁.mul x x') (K₂.mul y y')
  add : ∀ {x x' y y'}, R x y → R x' y' → R (K₁.add x x') (K₂.add y y')
  smul : ∀ (c : α) {x y}, R x y → R (K₁.smul c x) (K₂.smul c y)
  e : R K₁.e K₂.e
  dist : ∀ {x y}, R x y → K₁.dist x = K₂.dist y
  fro : ∀ {x y}, R x y → K₁.fro x = K₂.fro y
  pow : ∀ (p : Nat) {x y m m'}, R x y → R m m' →
    R (K₁.mul (matPower K₁.mul K₁.one x p) m) (K₂.mul (matPower K₂.mul K₂.one y p) m')

structure NRel (R : M₁ → M₂ → Prop) (a : NState M₁ α) (b : NState M₂ α) : Prop where
  i : a.i = b.i
  m : R a.m b.m
  h : R a.h b.h
  hold : R a.hold b.hold
  err : a.err = b.err
  ratio : a.ratio = b.ratio

structure ORel (R : M₁ → M₂ → Prop) (a : OState M₁ α) (b : OState M₂ α) : Prop where
  tries : a.tries = b.tries
  x : R a.x b.x
  err : a.err = b.err
  iters : a.iters = b.iters
  ratio : a.ratio = b.ratio
  failed : a.failed = b.failed

variable {K₁ : Alg M₁ α} {K₂ : Alg M₂ α} {R : M₁ → M₂ → Prop}

theorem Sim.iterBody (S : Sim K₁ K₂ R) (p : Nat) (alpha : α) {a : NState M₁ α} {b : NState M₂ α} (h : NRel R a b) :
    NRel R (iterBody K₁ p alpha a) (iterBody K₂ p alpha b) := by
  have hmi := S.add (S.smul (1 - alpha) S.e) (S.smul alpha h.m)
  have hm' := S.pow p hmi h.m
  exact ⟨by simp [InvRoot.iterBody, h.i], hm', S.mul h.h hmi, h.h, S.dist hm',
    by simp only [InvRoot.iterBody]; rw [S.dist hm', h.err]⟩

theorem Sim.newtonInner (S : Sim K₁ K₂ R) (c : NConsts α) (p : Nat) (alpha : α) :
    ∀ (f : Nat) {a : NState M₁ α} {b : NState M₂ α}, NRel R a b →
      NRel R (newtonInner K₁ c p alpha f a) (newtonInner K₂ c p alpha f b)
  | 0, _, _, h => h
  | f + 1, a, b, h => by
    have hc : iterCond c a = iterCond c b := by simp [iterCond, h.i, h.err, h.ratio]
    simp only [InvRoot.newtonInner, hc]
    split
    · exact Sim.newtonInner S c p alpha f (S.iterBody p alpha h)
    · exact h

theorem Sim.damped (S : Sim K₁ K₂ R) {A₁ : M₁} {A₂ : M₂} (hA : R A₁ A₂) (ridge : α) (i : Nat) :
    R (damped K₁ A₁ ridge i) (damped K₂ A₂ ridge i) :=
  S.add hA (S.smul _ S.e)

theorem Sim.innerInit (S : Sim K₁ K₂ R) (pα : α) (rootp : α → α) {A₁ : M₁} {A₂ : M₂} (hA : R A₁ A₂) (ridge : α)
    (i : Nat) : NRel R (innerInit K₁ pα rootp A₁ ridge i) (innerInit K₂ pα rootp A₂ ridge i) := by
  have hd := S.damped hA ridge i
  have hf := S.fro hd
  simp only [InvRoot.innerInit]
  rw [hf]
  have hm0 := S.smul ((1 + pα) / (2 * K₂.fro (InvRoot.damped K₂ A₂ ridge i))) hd
  exact ⟨rfl, hm0, S.smul _ S.e, S.smul _ S.e, S.dist hm0, rfl⟩

theorem Sim.blend (S : Sim K₁ K₂ R) (c : NConsts α) {a : NState M₁ α} {b : NState M₂ α} (h : NRel R a b) :
    R (blend K₁ c a) (blend K₂ c b) := by
  simp only [InvRoot.blend, h.ratio]
  exact S.add (S.smul _ h.h) (S.smul _ h.hold)

theorem Sim.outerBody (S : Sim K₁ K₂ R) (c : NConsts α) (p : Nat) (pα alpha : α) (rootp cast32 : α → α)
    {A₁ : M₁} {A₂ : M₂} (hA : R A₁ A₂) (ridge : α) (i : Nat) :
    ORel R (outerBody K₁ c p pα alpha rootp cast32 A₁ ridge i) (outerBody K₂ c p pα alpha rootp cast32 A₂ ridge i) := by
  have h := S.newtonInner c p alpha c.numIters (S.innerInit pα rootp hA ridge i)
  have hd := S.dist h.m
  exact ⟨rfl, S.blend c h, by simp only [InvRoot.outerBody, hd], h.i, h.ratio, by simp only [InvRoot.outerBody, hd]⟩

theorem Sim.outerLoop (body₁ : Nat → OState M₁ α) (body₂ : Nat → OState M₂ α) (hb : ∀ i, ORel R (body₁ i) (body₂ i))
    (nt : Nat) : ∀ (f : Nat) {a : OState M₁ α} {b : OState M₂ α}, ORel R a b →
      ORel R (outerLoop body₁ nt f a) (outerLoop body₂ nt f b)
  | 0, _, _, h => h
  | f + 1, a, b, h => by
    simp only [InvRoot.outerLoop, h.failed, h.tries]
    split
    · exact Sim.outerLoop body₁ body₂ hb nt f (hb _)
    · exact h

theorem Sim.newtonOuter (S : Sim K₁ K₂ R) (c : NConsts α) (p : Nat) (pα alpha : α) (rootp cast32 : α → α)
    (thousand : α) {A₁ : M₁} {A₂ : M₂} (hA : R A₁ A₂) (ridge : α) :
    ORel R (newtonOuter K₁ c p pα alpha rootp cast32 thousand A₁ ridge)
      (newtonOuter K₂ c p pα alpha rootp cast32 thousand A₂ ridge) :=
  Sim.outerLoop _ _ (fun i => S.outerBody c p pα alpha rootp cast32 hA ridge i) c.numTries c.numTries
    ⟨rfl, S.e, rfl, rfl, rfl, rfl⟩

end Sim

section Embed
variable {α : Type} [Field α] [LinearOrder α] [IsStrictOrderedRing α] {s N : Nat}

/-- `blockdiag(Y, 0)` as a total index function -/
def embF (Y : Mat α s s) : Nat → Nat → α := fun i j => if h : i < s ∧ j < s then Y ⟨i, h.1⟩ ⟨j, h.2⟩ else 0

/-- "`X` (size `N`) is `blockdiag(Y, 0)`" -/
def IsEmb (X : Mat α N N) (Y : Mat α s s) : Prop := ∀ i j : Fin N, X i j = embF Y i.val j.val

theorem embF_live (Y : Mat α s s) (i j : Fin s) : embF Y i.val j.val = Y i j := by
  unfold embF; rw [dif_pos ⟨i.isLt, j.isLt⟩]

theorem embF_dead (Y : Mat α s s) (i j : Nat) (h : s ≤ i ∨ s ≤ j) : embF Y i j = 0 := by
  unfold embF; rw [dif_neg]; omega

theorem sum_fin_trunc (hs : s ≤ N) (g : Nat → α) (hg : ∀ l, s ≤ l → g l = 0) :
    ∑ l : Fin N, g l.val = ∑ l : Fin s, g l.val := by
  rw [Fin.sum_univ_eq_sum_range g N, Fin.sum_univ_eq_sum_range g s]
  symm
  apply Finset.sum_subset
  · intro x hx; simp only [Finset.mem_range] at hx ⊢; omega
  · intro x _ hx; simp only [Finset.mem_range] at hx; exact hg x (by omega)

theorem IsEmb.mul (hs : s ≤ N) {X X' : Mat α N N} {Y Y' : Mat α s s} (h : IsEmb X Y) (h' : IsEmb X' Y') :
    IsEmb (Mat.mul X X') (Mat.mul Y Y') := by
  intro i j
  simp only [Mat.mul, sumFin_eq_sum]
  have e1 : ∑ l : Fin N, X i l * X' l j = ∑ l : Fin N, (fun l => embF Y i.val l * embF Y' l j.val) l.val :=
    Finset.sum_congr rfl fun l _ => by rw [h i l, h' l j]
  rw [e1, sum_fin_trunc hs (fun l => embF Y i.val l * embF Y' l j.val)
    (fun l hl => by simp [embF_dead Y i.val l (Or.inr hl)])]
  by_cases hij : i.val < s ∧ j.val < s
  · have : embF (Mat.mul Y Y') i.val j.val = ∑ l : Fin s, Y ⟨i, hij.1⟩ l * Y' l ⟨j, hij.2⟩ := by
      unfold embF; rw [dif_pos hij]; simp only [Mat.mul, sumFin_eq_sum]
    rw [this]
    apply Finset.sum_congr rfl; intro l _
    have a1 : embF Y i.val l.val = Y ⟨i, hij.1⟩ l := embF_live Y ⟨i, hij.1⟩ l
    have a2 : embF Y' l.val j.val = Y' l ⟨j, hij.2⟩ := embF_live Y' l ⟨j, hij.2⟩
    rw [a1, a2]
  · rw [embF_dead _ _ _ (by omega)]
    apply Finset.sum_eq_zero; intro l _
    by_cases hi : i.val < s
    · rw [embF_dead Y' l.val j.val (by omega), mul_zero]
    · rw [embF_dead Y i.val l.val (by omega), zero_mul]

theorem IsEmb.add {X X' : Mat α N N} {Y Y' : Mat α s s} (h : IsEmb X Y) (h' : IsEmb X' Y') :
    IsEmb (Mat.add X X') (Mat.add Y Y') := by
  intro i j
  simp only [Mat.add, h i j, h' i j, embF]
  split <;> simp

theorem IsEmb.smul (c : α) {X : Mat α N N} {Y : Mat α s s} (h : IsEmb X Y) : IsEmb (Mat.smul c X) (Mat.smul c Y) := by
  intro i j
  simp only [Mat.smul, h i j, embF]
  split <;> simp

theorem IsEmb.maskedId : IsEmb (Mat.maskedId s : Mat α N N) (Mat.maskedId s : Mat α s s) := by
  intro i j
  simp only [Mat.maskedId, Mat.one, Mat.ix, embF]
  by_cases hij : i.val < s ∧ j.val < s
  · rw [dif_pos hij]; simp only [hij.2, if_true, Fin.ext_iff]
  · rw [dif_neg hij]
    by_cases hj : j.val < s
    · have : i ≠ j := by intro e; subst e; exact hij ⟨hj, hj⟩
      simp [this]
    · simp [hj]

theorem maxAbs_le {m k : Nat} (A : Mat α m k) (c : α) (hc : 0 ≤ c) (h : ∀ i j, |A i j| ≤ c) : Mat.maxAbs A ≤ c := by
  unfold Mat.maxAbs
  have key : ∀ {β : Type} (step : α → β → α) (l : List β) (a : α), a ≤ c → (∀ a b, a ≤ c → step a b ≤ c) →
      l.foldl step a ≤ c := by
    intro β step l
    induction l with
    | nil => intro a ha _; exact ha
    | cons x xs ih => intro a ha hst; exact ih _ (hst a x ha) hst
  apply key _ _ _ hc
  intro a i ha
  apply key _ _ _ ha
  intro a j ha
  rw [maxS_eq_max, absS_eq_abs]
  exact max_le ha (h i j)

theorem IsEmb.maxAbs (hs : s ≤ N) {X : Mat α N N} {Y : Mat α s s} (h : IsEmb X Y) : Mat.maxAbs X = Mat.maxAbs Y := by
  apply le_antisymm
  · apply maxAbs_le _ _ (maxAbs_nonneg _)
    intro i j
    rw [h i j]
    by_cases hij : i.val < s ∧ j.val < s
    · have := embF_live Y ⟨i, hij.1⟩ ⟨j, hij.2⟩
      simp only at this
      rw [this]; exact le_maxAbs _ _ _
    · rw [embF_dead _ _ _ (by omega), abs_zero]; exact maxAbs_nonneg _
  · apply maxAbs_le _ _ (maxAbs_nonneg _)
    intro i j
    have := h ⟨i, by omega⟩ ⟨j, by omega⟩
    rw [embF_live Y i j] at this
    rw [← this]; exact le_maxAbs _ _ _

theorem IsEmb.sumsq (hs : s ≤ N) {X : Mat α N N} {Y : Mat α s s} (h : IsEmb X Y) :
    (sumFin fun i => sumFin fun j => X i j * X i j) = sumFin fun i => sumFin fun j => Y i j * Y i j := by
  simp only [sumFin_eq_sum]
  have e1 : ∑ i : Fin N, ∑ j : Fin N, X i j * X i j =
      ∑ i : Fin N, (fun i => ∑ j : Fin s, embF Y i j.val * embF Y i j.val) i.val := by
    apply Finset.sum_congr rfl; intro i _
    have : ∑ j : Fin N, X i j * X i j = ∑ j : Fin N, (fun j => embF Y i.val j * embF Y i.val j) j.val :=
      Finset.sum_congr rfl fun j _ => by rw [h i j]
    rw [this, sum_fin_trunc hs (fun j => embF Y i.val j * embF Y i.val j)
      (fun l hl => by simp [embF_dead Y i.val l (Or.inr hl)])]
  rw [e1, sum_fin_trunc hs (fun i => ∑ j : Fin s, embF Y i j.val * embF Y i j.val)
    (fun l hl => Finset.sum_eq_zero fun j _ => by simp [embF_dead Y l j.val (Or.inl hl)])]
  apply Finset.sum_congr rfl; intro i _
  apply Finset.sum_congr rfl; intro j _
  rw [embF_live]

end Embed

section PadInv
variable {α : Type} [Field α] [LinearOrder α] [IsStrictOrderedRing α] {s N : Nat}

theorem IsEmb.sub {X X' : Mat α N N} {Y Y' : Mat α s s} (h : IsEmb X Y) (h' : IsEmb X' Y') :
    IsEmb (Mat.sub X X') (Mat.sub Y Y') := by
  intro i j
  simp only [Mat.sub, h i j, h' i j, embF]
  split <;> simp

theorem of_mul_of {n : Nat} (A B : Mat α n n) :
    (Matrix.of A : MatR α n) * Matrix.of B = Matrix.of (Mat.mul A B) := by
  ext i j; simp only [Mat.mul, Matrix.mul_apply, Matrix.of_apply, sumFin_eq_sum]

theorem IsEmb.pow_mul (hs : s ≤ N) : ∀ (p : Nat) {X Mm : Mat α N N} {Y Mm' : Mat α s s}, IsEmb X Y → IsEmb Mm Mm' →
    IsEmb (fun i j => ((Matrix.of X : MatR α N) ^ p * Matrix.of Mm) i j)
      (fun i j => ((Matrix.of Y : MatR α s) ^ p * Matrix.of Mm') i j)
  | 0, _, _, _, _, _, hM => by simpa using hM
  | p + 1, X, Mm, Y, Mm', hX, hM => by
    have ih := IsEmb.pow_mul hs p hX (IsEmb.mul hs hX hM)
    rw [← of_mul_of, ← of_mul_of, ← mul_assoc, ← mul_assoc, ← pow_succ, ← pow_succ] at ih
    exact ih

/-- the two concrete algebras (size `N` and size `s`, both with padding start `s`) are in simulation through
`blockdiag(·, 0)` -/
theorem matAlg_sim (hs : s ≤ N) (sqrt : α → α) :
    Sim (matAlg N s sqrt) (matAlg s s sqrt) (fun X Y => IsEmb X.fn Y.fn) where
  mul := fun h h' => by simpa [matAlg] using IsEmb.mul hs h h'
  add := fun h h' => by simpa [matAlg] using IsEmb.add h h'
  smul := fun c _ _ h => by simpa [matAlg] using IsEmb.smul c h
  e := by simpa [matAlg] using (IsEmb.maskedId : IsEmb (Mat.maskedId s : Mat α N N) (Mat.maskedId s : Mat α s s))
  dist := fun h => by
    simp only [matAlg]
    exact IsEmb.maxAbs hs (IsEmb.sub h IsEmb.maskedId)
  fro := fun h => by
    simp only [matAlg, Mat.fro]
    rw [IsEmb.sumsq hs h]
  pow := fun p x y m m' hx hm => by
    have e1 : ∀ (n : Nat) (x m : DMat α n), ((matAlg n s sqrt).mul (matPower (matAlg n s sqrt).mul (matAlg n s sqrt).one x p) m).fn
        = fun i j => ((Matrix.of x.fn : MatR α n) ^ p * Matrix.of m.fn) i j := by
      intro n x m
      have hp := C01.matPower_matrix (α := α) s sqrt x p
      funext i j
      have : ((matAlg n s sqrt).mul (matPower (matAlg n s sqrt).mul (matAlg n s sqrt).one x p) m).fn i j =
          (toM (matPower (matAlg n s sqrt).mul (matAlg n s sqrt).one x p) * toM m) i j := by
        simp only [matAlg, DMat.fn_tab, toM, Mat.mul, Matrix.mul_apply, Matrix.of_apply, sumFin_eq_sum]
      rw [this, hp]; rfl
    rw [e1 N x m, e1 s y m']
    exact IsEmb.pow_mul hs p hx hm

end PadInv

section Tree2
open PrecondVerif.BlockDiag
variable {α : Type} [Field α] [LinearOrder α] [IsStrictOrderedRing α]

theorem ofA2_padSq_self (s : Nat) (a : A2 α) : ofA2 s (padSq s s a) = ofA2 s a := by
  funext i j
  unfold ofA2 padSq
  rw [rdM_tabM, if_pos ⟨i.isLt, j.isLt⟩]
  unfold padSqF
  rw [if_pos ⟨i.isLt, j.isLt⟩]

/-- without padding (`max_size = size`) the batch-position routine is C01's routine on the statistic itself -/
theorem paddedRootC01_self (Nw : NewtonCfg α) (s : Nat) (a : A2 α) :
    paddedRootC01 Nw s s a =
      (toMx (newtonOut Nw s (ofA2 s a)).x, (newtonOut Nw s (ofA2 s a)).err, (newtonOut Nw s (ofA2 s a)).retries) := by
  unfold paddedRootC01
  simp only [ofA2_padSq_self]
  refine Prod.ext ?_ rfl
  funext i j
  unfold toMx
  dsimp only
  by_cases h : i < s ∧ j < s
  · rw [dif_pos (⟨h, h⟩ : (i < s ∧ j < s) ∧ (i < s ∧ j < s)), dif_pos h]
  · rw [dif_neg (fun hh : (i < s ∧ j < s) ∧ (i < s ∧ j < s) => h hh.1), dif_neg h]

end Tree2

section PadInv2
open PrecondVerif.BlockDiag
variable {α : Type} [Field α] [LinearOrder α] [IsStrictOrderedRing α] {s N : Nat}

/-- **Padding invariance of C01's Newton routine.** -/
theorem newtonRoot_padding_invariant (hs : s ≤ N) (c : NConsts α) (p : Nat) (pα alpha : α) (sqrt rootp cast32 : α → α)
    (thousand epsFloor eps maxEv : α) (A₁ : Mat α N N) (A₂ : Mat α s s)
    (hA : IsEmb (Mat.mask s A₁) (Mat.mask s A₂)) :
    let r₁ := newtonRoot s c p pα alpha sqrt rootp cast32 thousand epsFloor eps maxEv A₁
    let r₂ := newtonRoot s c p pα alpha sqrt rootp cast32 thousand epsFloor eps maxEv A₂
    IsEmb r₁.x r₂.x ∧ r₁.err = r₂.err ∧ r₁.iters = r₂.iters ∧ r₁.ratio = r₂.ratio ∧ r₁.retries = r₂.retries := by
  intro r₁ r₂
  have hR : IsEmb (DMat.tab (Mat.mask s A₁)).fn (DMat.tab (Mat.mask s A₂)).fn := by simpa using hA
  have h := (matAlg_sim hs sqrt).newtonOuter c p pα alpha rootp cast32 thousand hR (ridgeOf eps maxEv epsFloor)
  by_cases h0 : s = 0
  · subst h0
    refine ⟨fun i j => ?_, ?_, ?_, ?_, ?_⟩
    · simp [r₁, newtonRoot, embF]
    · simp [r₁, r₂, newtonRoot]
    · simpa [r₁, r₂, newtonRoot] using h.iters
    · simpa [r₁, r₂, newtonRoot] using h.ratio
    · simpa [r₁, r₂, newtonRoot] using h.tries
  · refine ⟨?_, ?_, ?_, ?_, ?_⟩
    · simpa [r₁, r₂, newtonRoot, h0] using h.x
    · simpa [r₁, r₂, newtonRoot, h0] using h.err
    · simpa [r₁, r₂, newtonRoot, h0] using h.iters
    · simpa [r₁, r₂, newtonRoot, h0] using h.ratio
    · simpa [r₁, r₂, newtonRoot, h0] using h.tries

theorem mask_padSq_isEmb (a : A2 α) :
    IsEmb (Mat.mask s (ofA2 N (padSq s N a))) (Mat.mask s (ofA2 s a)) := by
  intro i j
  unfold embF
  by_cases hij : i.val < s ∧ j.val < s
  · rw [dif_pos hij]
    simp only [Mat.mask, Mat.ix, hij.1, hij.2, if_true, mul_one, ofA2, padSq]
    rw [rdM_tabM, if_pos ⟨i.isLt, j.isLt⟩]
    unfold padSqF
    rw [if_pos hij]
  · rw [dif_neg hij]
    simp only [Mat.mask, Mat.ix]
    by_cases hj : j.val < s
    · have hi : ¬ i.val < s := fun hi => hij ⟨hi, hj⟩
      simp [hi]
    · simp [hj]

/-- `pad → root(padding_start = s) → cut` of C01's routine is the routine on the statistic itself, provided the `max_ev`
input is the same for both -/
theorem paddedRootC01_padding_invariant (Nw : NewtonCfg α) (hs : s ≤ N) (a : A2 α)
    (hmax : Nw.maxEvOf N s (ofA2 N (padSq s N a)) = Nw.maxEvOf s s (ofA2 s a)) :
    paddedRootC01 Nw N s a = paddedRootC01 Nw s s a := by
  rw [paddedRootC01_self]
  unfold paddedRootC01 newtonOut
  simp only []
  rw [hmax]
  obtain ⟨hx, herr, _, _, hret⟩ := newtonRoot_padding_invariant hs Nw.c Nw.p Nw.pα Nw.alpha Nw.sqrt Nw.rootp Nw.cast32
    Nw.thousand Nw.epsFloor Nw.eps (Nw.maxEvOf s s (ofA2 s a)) _ _ (mask_padSq_isEmb a)
  refine Prod.ext ?_ (Prod.ext herr hret)
  funext i j
  unfold toMx
  dsimp only
  by_cases h : i < s ∧ j < s
  · rw [dif_pos (⟨h, by omega⟩ : (i < s ∧ j < s) ∧ (i < N ∧ j < N)), dif_pos h, hx ⟨i, by omega⟩ ⟨j, by omega⟩]
    exact embF_live _ ⟨i, h.1⟩ ⟨j, h.2⟩
  · rw [dif_neg (fun hh : (i < s ∧ j < s) ∧ (i < N ∧ j < N) => h hh.1), dif_neg h]

end PadInv2

section PI
variable {α : Type} [Field α] [LinearOrder α] [IsStrictOrderedRing α] {s N : Nat}

def embV (v : Vec α s) : Nat → α := fun i => if h : i < s then v ⟨i, h⟩ else 0
def IsEmbV (v₁ : Vec α N) (v₂ : Vec α s) : Prop := ∀ i : Fin N, v₁ i = embV v₂ i.val

theorem embV_live (v : Vec α s) (i : Fin s) : embV v i.val = v i := by unfold embV; rw [dif_pos i.isLt]
theorem embV_dead (v : Vec α s) (i : Nat) (h : s ≤ i) : embV v i = 0 := by unfold embV; rw [dif_neg]; omega

theorem IsEmbV.dot (hs : s ≤ N) {u₁ v₁ : Vec α N} {u₂ v₂ : Vec α s} (hu : IsEmbV u₁ u₂) (hv : IsEmbV v₁ v₂) :
    dot u₁ v₁ = dot u₂ v₂ := by
  simp only [InvRoot.dot, sumFin_eq_sum]
  have : ∑ i : Fin N, u₁ i * v₁ i = ∑ i : Fin N, (fun i => embV u₂ i * embV v₂ i) i.val :=
    Finset.sum_congr rfl fun i _ => by rw [hu i, hv i]
  rw [this, sum_fin_trunc hs (fun i => embV u₂ i * embV v₂ i) (fun l hl => by simp [embV_dead u₂ l hl])]
  exact Finset.sum_congr rfl fun i _ => by rw [embV_live, embV_live]

theorem IsEmbV.mulVec (hs : s ≤ N) {A₁ : Mat α N N} {A₂ : Mat α s s} (hA : IsEmb A₁ A₂) {v₁ : Vec α N} {v₂ : Vec α s}
    (hv : IsEmbV v₁ v₂) : IsEmbV (Mat.mulVec A₁ v₁) (Mat.mulVec A₂ v₂) := by
  intro i
  simp only [Mat.mulVec, sumFin_eq_sum]
  have : ∑ j : Fin N, A₁ i j * v₁ j = ∑ j : Fin N, (fun j => embF A₂ i.val j * embV v₂ j) j.val :=
    Finset.sum_congr rfl fun j _ => by rw [hA i j, hv j]
  rw [this, sum_fin_trunc hs (fun j => embF A₂ i.val j * embV v₂ j) (fun l hl => by simp [embV_dead v₂ l hl])]
  by_cases hi : i.val < s
  · have e : embV (Mat.mulVec A₂ v₂) i.val = ∑ j : Fin s, A₂ ⟨i, hi⟩ j * v₂ j := by
      unfold embV; rw [dif_pos hi]; simp only [Mat.mulVec, sumFin_eq_sum]
    rw [e]
    apply Finset.sum_congr rfl; intro j _
    rw [embV_live, embF_live A₂ ⟨i, hi⟩ j]
  · rw [embV_dead _ _ (by omega)]
    apply Finset.sum_eq_zero; intro j _
    rw [embF_dead A₂ i.val j.val (by omega), zero_mul]

structure PIRel (a : PIState α N) (b : PIState α s) : Prop where
  i : a.i = b.i
  v : IsEmbV a.v.fn b.v.fn
  s : a.s = b.s
  run : a.run = b.run

theorem piBody_rel (hs : s ≤ N) (sqrt : α → α) (tol : α) {A₁ : Mat α N N} {A₂ : Mat α s s} (hA : IsEmb A₁ A₂)
    {a : PIState α N} {b : PIState α s} (h : PIRel a b) : PIRel (piBody sqrt tol A₁ a) (piBody sqrt tol A₂ b) := by
  have hn : dot a.v.fn a.v.fn = dot b.v.fn b.v.fn := IsEmbV.dot hs h.v h.v
  have hnv : IsEmbV (fun i => a.v.fn i / sqrt (dot a.v.fn a.v.fn)) (fun i => b.v.fn i / sqrt (dot b.v.fn b.v.fn)) := by
    intro i
    show a.v.fn i / _ = _
    rw [h.v i, hn]
    unfold embV; split <;> simp
  have hsv := IsEmbV.mulVec hs hA hnv
  have hsn := IsEmbV.dot hs hnv hsv
  refine ⟨by simp [piBody, h.i], by simpa [piBody] using hsv, by simpa [piBody] using hsn, ?_⟩
  simp only [piBody, DVec.fn_tab]
  rw [hsn, h.s]

theorem piLoop_rel (hs : s ≤ N) (sqrt : α → α) (tol : α) {A₁ : Mat α N N} {A₂ : Mat α s s} (hA : IsEmb A₁ A₂)
    (numIters : Nat) : ∀ (f : Nat) {a : PIState α N} {b : PIState α s}, PIRel a b →
      PIRel (piLoop sqrt tol A₁ numIters f a) (piLoop sqrt tol A₂ numIters f b)
  | 0, _, _, h => h
  | f + 1, a, b, h => by
    simp only [piLoop, h.i, h.run]
    split
    · exact piLoop_rel hs sqrt tol hA numIters f (piBody_rel hs sqrt tol hA h)
    · exact h

/-- C01's power iteration does not see the padding -/
theorem powerIteration_padding_invariant (hs : s ≤ N) (sqrt : α → α) (tol : α) (numIters : Nat) {A₁ : Mat α N N}
    {A₂ : Mat α s s} (hA : IsEmb A₁ A₂) {v₁ : Vec α N} {v₂ : Vec α s} (hv : IsEmbV v₁ v₂) :
    powerIteration sqrt tol numIters A₁ v₁ = powerIteration sqrt tol numIters A₂ v₂ := by
  unfold powerIteration
  exact (piLoop_rel hs sqrt tol hA numIters numIters ⟨rfl, by simpa using hv, rfl, rfl⟩).s

end PI

section MaxEv
open PrecondVerif.BlockDiag
variable {α : Type} [Field α] [LinearOrder α] [IsStrictOrderedRing α] {s N : Nat}

/-- the power-iteration `max_ev` of the padded statistic is that of the statistic -/
theorem piMaxEv_padding_invariant (hs : s ≤ N) (sqrt : α → α) (tol : α) (numIters : Nat) (u : Nat → α) (a : A2 α) :
    piMaxEv sqrt tol numIters u N s (ofA2 N (padSq s N a)) = piMaxEv sqrt tol numIters u s s (ofA2 s a) := by
  unfold piMaxEv
  apply powerIteration_padding_invariant hs sqrt tol numIters (mask_padSq_isEmb a)
  intro i
  unfold embV
  by_cases hi : i.val < s
  · rw [dif_pos hi]
  · rw [dif_neg hi]; exact if_neg hi

/-- the `max_ev` input of the routine does not see the padding -/
def MaxEvPadOK (Nw : NewtonCfg α) : Prop :=
  ∀ (N s : Nat) (a : A2 α), s ≤ N → Nw.maxEvOf N s (ofA2 N (padSq s N a)) = Nw.maxEvOf s s (ofA2 s a)

end MaxEv

end PrecondVerif.Compose
