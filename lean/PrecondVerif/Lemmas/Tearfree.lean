/-
Lemmas for C15 (Tearfree composition, `Model/Tearfree.lean`).

Part 1 (no algebra needed, holds for every scalar type, `Float` included): `sharded_chain` unfolds positionally;
`momentum.apply`'s run-time list of transformations is the documented momentum stage; the whole `tearfreeTx`
update and its fold over a history.
Part 2 (commutative rings / ordered fields): exact linearity in the learning rate, documented momentum formulas,
order of weight decay.
Part 3: flat data ↔ index functions (`allIdx` enumerates row-major), the merge/pad round trip on flat data.
Part 4: the block inverse root under the `eigh` specification.
-/
import PrecondVerif.Model.Tearfree
import PrecondVerif.Lemmas.Shapes
import PrecondVerif.Lemmas.FD
import PrecondVerif.Props.C06
import Mathlib.Algebra.Order.Field.Basic
import Mathlib.Tactic.Ring
import Mathlib.Tactic.Linarith

set_option linter.unusedSectionVars false
set_option linter.unusedSimpArgs false
set_option linter.overlappingInstances false

namespace PrecondVerif.Tearfree
section Chain
variable {S S₁ S₂ S₃ U P : Type}

theorem chain2_update (a : Tx S₁ U P) (b : Tx S₂ U P) (u : U) (s : S₁ × S₂) (p : P) :
    (chain2 a b).update u s p =
      ((b.update (a.update u s.1 p).1 s.2 p).1, ((a.update u s.1 p).2, (b.update (a.update u s.1 p).1 s.2 p).2)) := rfl

theorem chain3_update (a : Tx S₁ U P) (b : Tx S₂ U P) (c : Tx S₃ U P) (u : U) (s : S₁ × S₂ × S₃) (p : P) :
    (chain3 a b c).update u s p =
      ((c.update (b.update (a.update u s.1 p).1 s.2.1 p).1 s.2.2 p).1,
       ((a.update u s.1 p).2, (b.update (a.update u s.1 p).1 s.2.1 p).2,
        (c.update (b.update (a.update u s.1 p).1 s.2.1 p).1 s.2.2 p).2)) := rfl

theorem chain3_init (a : Tx S₁ U P) (b : Tx S₂ U P) (c : Tx S₃ U P) (p : P) :
    (chain3 a b c).init p = (a.init p, b.init p, c.init p) := rfl

/-- the state tuple of a `sharded_chain` keeps its length: one entry per transformation -/
theorem chainLGo_length (l : List (Tx S U P)) (u : U) (ss : List S) (p : P) (h : ss.length = l.length) :
    (chainLGo l u ss p).2.length = l.length := by
  induction l generalizing u ss with
  | nil => simp [chainLGo]
  | cons f fs ih =>
    cases ss with
    | nil => simp at h
    | cons s ss =>
      simp only [List.length_cons, Nat.add_right_cancel_iff] at h
      simp [chainLGo, ih _ _ h]

end Chain

section FirstOrder
variable {α : Type} [Zero α] [One α] [Add α] [Sub α] [Mul α] [Neg α] [LT α] [DecidableLT α] [BEq α]

theorem traceF_eq (d : α) : traceF d = fun g t => g + d * t := rfl

/-- counter of the learning-rate stage after one update -/
def LR.next : LR α → Nat → Nat
  | .const _, n => n
  | .sched _, n => n + 1

theorem lrTx_update (lr : LR α) (u : List α) (n : Nat) (x : List α) :
    (lrTx lr).update u n x = (specLr lr n u, lr.next n) := by
  cases lr <;> rfl

theorem lrTx_init (lr : LR α) (p : List α) : (lrTx lr).init p = 0 := by
  cases lr <;> rfl

/-- `momentum.apply`'s chain, run on a state tuple built around the velocity `tr`, is the documented momentum stage and
leaves the velocity at the same position of the tuple -/
theorem momentumTx_update (o : MomOpts α) (u tr x : List α) :
    (momentumTx o).update u (momState o tr) x =
      ((specMomentumStage o u tr x).1, momState o (specMomentumStage o u tr x).2) := by
  rcases o with ⟨ema, nesterov, decay, wd, after⟩
  simp only [momentumTx, chainL, momentumTransforms, momState, specMomentumStage, specMomentum, specDecay]
  by_cases h0 : (decay == 0) = true <;> by_cases hw : 0 < wd <;> cases after <;> cases ema <;> cases nesterov <;>
    simp [h0, hw, chainLGo, scaleTx, traceTx, addDecayedWeightsTx, traceF_eq]

theorem momentumTx_init (o : MomOpts α) (p : List α) :
    (momentumTx o).init p = momState o (p.map fun _ => 0) := by
  rcases o with ⟨ema, nesterov, decay, wd, after⟩
  simp only [momentumTx, chainL, momentumTransforms, momState]
  by_cases h0 : (decay == 0) = true <;> by_cases hw : 0 < wd <;> cases after <;> cases ema <;> cases nesterov <;>
    simp [h0, hw, scaleTx, traceTx, addDecayedWeightsTx]

variable {GS : Type}

theorem tearfreeTx_update (G : Tx GS (List α) (List α)) (o : MomOpts α) (lr : LR α) (g : List α) (gs : GS)
    (tr : List α) (n : Nat) (x : List α) :
    (tearfreeTx G o lr).update g (gs, momState o tr, n) x =
      (specLr lr n (specMomentumStage o (G.update g gs x).1 tr x).1,
       ((G.update g gs x).2, momState o (specMomentumStage o (G.update g gs x).1 tr x).2, lr.next n)) := by
  rw [tearfreeTx, chain3_update]
  simp only [momentumTx_update, lrTx_update]

theorem tearfreeTx_init (G : Tx GS (List α) (List α)) (o : MomOpts α) (lr : LR α) (p : List α) :
    (tearfreeTx G o lr).init p = (G.init p, momState o (p.map fun _ => 0), 0) := by
  rw [tearfreeTx, chain3_init, momentumTx_init, lrTx_init]

/-- the documented composition folded over a history: graft state, velocity and step counter threaded explicitly -/
def specRun (G : Tx GS (List α) (List α)) (o : MomOpts α) (lr : LR α) :
    GS → List α → Nat → List (List α × List α) → List (List α)
  | _, _, _, [] => []
  | gs, tr, n, (g, x) :: rest =>
    let r := G.update g gs x
    let m := specMomentumStage o r.1 tr x
    specLr lr n m.1 :: specRun G o lr r.2 m.2 (lr.next n) rest

theorem runTx_tearfree (G : Tx GS (List α) (List α)) (o : MomOpts α) (lr : LR α) (h : List (List α × List α)) :
    ∀ (gs : GS) (tr : List α) (n : Nat),
      (runTx (tearfreeTx G o lr) (gs, momState o tr, n) h).1 = specRun G o lr gs tr n h := by
  induction h with
  | nil => intro gs tr n; rfl
  | cons a rest ih =>
    intro gs tr n
    rcases a with ⟨g, x⟩
    simp only [runTx, specRun, tearfreeTx_update, ih]

end FirstOrder

/-! ## Part 2 — rings and ordered fields -/
section Ring
variable {α : Type} [Field α] [LinearOrder α] [IsStrictOrderedRing α] {GS : Type}

/-- the learning rate multiplied by a constant `c` (a number or a whole schedule) -/
def LR.scale (c : α) : LR α → LR α
  | .const v => .const (c * v)
  | .sched f => .sched fun n => c * f n

theorem LR.scale_at (c : α) (lr : LR α) (n : Nat) : (lr.scale c).at n = c * lr.at n := by
  cases lr <;> rfl

theorem LR.scale_next (c : α) (lr : LR α) (n : Nat) : (lr.scale c).next n = lr.next n := by
  cases lr <;> rfl

theorem specLr_scale (c : α) (lr : LR α) (n : Nat) (u : List α) :
    specLr (lr.scale c) n u = (specLr lr n u).map fun y => c * y := by
  simp only [specLr, LR.scale_at, List.map_map]
  apply List.map_congr_left
  intro g _
  simp only [Function.comp]
  ring

/-- one update: multiplying the learning rate by `c` multiplies the update by `c` and leaves the state alone -/
theorem tearfreeTx_update_scale (G : Tx GS (List α) (List α)) (o : MomOpts α) (lr : LR α) (c : α)
    (g : List α) (s : GS × List (List α) × Nat) (x : List α) :
    (tearfreeTx G o (lr.scale c)).update g s x =
      (((tearfreeTx G o lr).update g s x).1.map fun y => c * y, ((tearfreeTx G o lr).update g s x).2) := by
  simp only [tearfreeTx, chain3_update, lrTx_update, specLr_scale, LR.scale_next]

theorem runTx_scale (G : Tx GS (List α) (List α)) (o : MomOpts α) (lr : LR α) (c : α)
    (h : List (List α × List α)) : ∀ s : GS × List (List α) × Nat,
    runTx (tearfreeTx G o (lr.scale c)) s h =
      ((runTx (tearfreeTx G o lr) s h).1.map fun u => u.map fun y => c * y, (runTx (tearfreeTx G o lr) s h).2) := by
  induction h with
  | nil => intro s; rfl
  | cons a rest ih =>
    intro s
    rcases a with ⟨g, x⟩
    simp only [runTx, tearfreeTx_update_scale, ih, List.map_cons]

/-! ### documented momentum formulas -/

/-- `velocity(t+1)` of `momentum.Options`' docstring -/
def docVelocity (ema : Bool) (decay v u : α) : α :=
  if ema then decay * v + (1 - decay) * u else decay * v + u

/-- `update'(t+1)` of the docstring: the velocity, or (Nesterov) `maybe_decay * update(t) + decay * velocity(t+1)` -/
def docOutput (ema nesterov : Bool) (decay u v' : α) : α :=
  if nesterov then (if ema then 1 - decay else 1) * u + decay * v' else v'

theorem zipWith_map_swap {β γ δ ε : Type} (f : γ → δ → ε) (k : β → γ) (g : δ → β → ε)
    (h : ∀ a b, f (k a) b = g b a) (l : List β) (m : List δ) :
    List.zipWith f (l.map k) m = List.zipWith g m l := by
  induction l generalizing m with
  | nil => simp
  | cons a l ih => cases m <;> simp [ih, h]

theorem zipWith_swap' {β δ ε : Type} (f : β → δ → ε) (g : δ → β → ε)
    (h : ∀ a b, f a b = g b a) (l : List β) (m : List δ) :
    List.zipWith f l m = List.zipWith g m l := by
  have := zipWith_map_swap f id g h l m
  simpa using this

/-- the velocity follows the documented recursion -/
theorem specMomentum_velocity (o : MomOpts α) (hd : o.decay ≠ 0) (u tr : List α) :
    (specMomentum o u tr).2 = List.zipWith (docVelocity o.ema o.decay) tr u := by
  have h0 : (o.decay == 0) = false := by simpa using hd
  simp only [specMomentum, h0, Bool.false_eq_true, if_false]
  cases o.ema
  · simp only [Bool.false_eq_true, if_false]
    apply zipWith_swap'
    intro a b; simp only [docVelocity, Bool.false_eq_true, if_false]; ring
  · simp only [if_true]
    apply zipWith_map_swap
    intro a b; simp only [docVelocity, if_true]; ring

/-- the output follows the documented formula (in terms of the NEW velocity) -/
theorem specMomentum_output (o : MomOpts α) (hd : o.decay ≠ 0) (u tr : List α) :
    (specMomentum o u tr).1 =
      if o.nesterov then
        List.zipWith (fun g v' => docOutput o.ema true o.decay g v') u (specMomentum o u tr).2
      else (specMomentum o u tr).2 := by
  have h0 : (o.decay == 0) = false := by simpa using hd
  simp only [specMomentum, h0, Bool.false_eq_true, if_false]
  cases o.nesterov
  · simp
  · simp only [if_true]
    cases o.ema
    · simp only [Bool.false_eq_true, if_false, docOutput, if_true, one_mul]
    · simp only [if_true, docOutput]
      rw [zipWith_map_swap (fun g t => g + o.decay * t) (fun g => (1 - o.decay) * g)
        (fun t g => (1 - o.decay) * g + o.decay * t) (fun a b => rfl)]
      apply zipWith_swap'
      intro a b; rfl

end Ring

/-! ## Part 3 — flat data and the merge / pad round trip -/
section Flat
open PrecondVerif.Shapes

theorem range_mul (s m : Nat) :
    List.range (s * m) = (List.range s).flatMap fun i => (List.range m).map fun j => i * m + j := by
  induction s with
  | zero => simp
  | succ s ih =>
    rw [Nat.succ_mul, List.range_add, ih, List.range_succ, List.flatMap_append]
    simp

/-- `allIdx` enumerates the multi-indices in row-major order -/
theorem allIdx_map_ravel (shape : List Nat) : (allIdx shape).map (ravel shape) = List.range (prod shape) := by
  induction shape with
  | nil => rfl
  | cons s ss ih =>
    rw [prod_cons, range_mul]
    simp only [allIdx, List.map_flatMap, List.map_map]
    congr 1
    funext i
    rw [← ih, List.map_map]
    apply List.map_congr_left
    intro is _
    simp [ravel]

theorem allIdx_inBounds (shape : List Nat) : ∀ idx ∈ allIdx shape, inBounds shape idx := by
  induction shape with
  | nil => intro idx h; simp [allIdx] at h; subst h; trivial
  | cons s ss ih =>
    intro idx h
    simp only [allIdx, List.mem_flatMap, List.mem_range, List.mem_map] at h
    obtain ⟨i, hi, is, his, rfl⟩ := h
    exact ⟨hi, ih is his⟩

section
variable {α : Type} [Zero α]

/-- reading back flat data through the index function: `ofFlat` then `flat` is the identity on data of the right length -/
theorem flat_ofFlatL (shape : List Nat) (g : List α) (h : g.length = prod shape) :
    (ofFlatL shape g).flat = g := by
  unfold Tensor.flat ofFlatL ofFlat
  have : (allIdx shape).map (fun idx => rd g.toArray (ravel shape idx))
      = ((allIdx shape).map (ravel shape)).map (rd g.toArray) := by
    rw [List.map_map]; rfl
  simp only []
  rw [this, allIdx_map_ravel, ← h]
  apply List.ext_getElem
  · simp
  · intro k h1 h2
    simp [rd, List.getElem?_eq_getElem h2]

/-- entry of the tabulated data of a tensor at the row-major position of an in-bounds index -/
theorem flat_get (t : Tensor α) (idx : List Nat) (h : inBounds t.shape idx) :
    rd t.flat.toArray (ravel t.shape idx) = t.get idx := by
  have hlt := ravel_lt t.shape idx h
  have hlen : (allIdx t.shape).length = prod t.shape := by
    have := congrArg List.length (allIdx_map_ravel t.shape)
    simpa using this
  have hk : (allIdx t.shape)[ravel t.shape idx]'(by rw [hlen]; exact hlt) = idx := by
    have h1 : ((allIdx t.shape).map (ravel t.shape))[ravel t.shape idx]'(by simp [hlen]; exact hlt)
        = ravel t.shape idx := by
      simp only [allIdx_map_ravel, List.getElem_range]
    rw [List.getElem_map] at h1
    have hin := allIdx_inBounds t.shape _ (List.getElem_mem (l := allIdx t.shape) (by rw [hlen]; exact hlt))
    have := congrArg (unravel t.shape) h1
    rwa [unravel_ravel _ _ hin, unravel_ravel _ _ h] at this
  unfold rd Tensor.flat
  have hlt' : ravel t.shape idx < (allIdx t.shape).length := by rw [hlen]; exact hlt
  simp [List.getElem?_eq_getElem hlt', hk]
end

theorem inBounds_pad (bs : Nat) : ∀ (m j : List Nat), inBounds m j → inBounds (m.map (padDim · bs)) j
  | [], [], _ => trivial
  | [], _ :: _, h => h.elim
  | _ :: _, [], h => h.elim
  | d :: ds, _ :: is, h => ⟨Nat.lt_of_lt_of_le h.1 (C06.pad_ge d bs), inBounds_pad bs ds is h.2⟩

theorem padDim_zero (s : Nat) : padDim s 0 = s := by simp [padDim]

section
variable {α : Type} [Zero α]

theorem deriveShapes_original (md bs : Nat) (shape : List Nat) : (deriveShapes md bs shape).original = shape := by
  simp only [deriveShapes]; split <;> rfl

theorem deriveShapes_padded (md bs : Nat) (shape : List Nat) :
    (deriveShapes md bs shape).padded = (deriveShapes md bs shape).merged.map (padDim · bs) := by
  simp only [deriveShapes]; split <;> simp

theorem tfMerge_shape (md bs : Nat) (shape : List Nat) (t : Tensor α) :
    (tfMerge 0 (deriveShapes md bs shape) bs t).shape = (deriveShapes md bs shape).padded := by
  unfold tfMerge
  simp only []
  split
  · rfl
  · rename_i h
    simp only [Tensor.reshape]
    rw [deriveShapes_padded]
    rw [deriveShapes_padded] at h
    by_cases hb : bs = 0
    · subst hb; simp [padDim_zero]
    · have : List.map (fun x => padDim x bs) (deriveShapes md bs shape).merged = [] := by
        by_contra hne
        exact h ⟨hne, Nat.pos_of_ne_zero hb⟩
      rw [this]
      simpa using this

/-- what `unmerge` delivers at an original index is the entry of its input at the merged index -/
theorem tfUnmerge_get (s : TFShapes) (bs : Nat) (t : Tensor α) (idx : List Nat) :
    (tfUnmerge s bs t).get idx = t.get (unravel s.merged (ravel s.original idx)) := by
  unfold tfUnmerge
  simp only [Tensor.reshape]
  split <;> rfl

/-- `_blockify`-free core of `merge_pad_roundtrip`: with the identity in place of the preconditioner the
second-order stage returns its input, on flat data -/
theorem merge_unmerge_flat (md bs : Nat) (shape : List Nat) (g : List α) (hlen : g.length = prod shape)
    (hd : ∀ d ∈ shape, 1 ≤ d) :
    let s := deriveShapes md bs shape
    (tfUnmerge s bs (ofFlatL s.padded (tfMerge 0 s bs (ofFlatL s.original g)).flat)).flat = g := by
  intro s
  have horig : s.original = shape := deriveShapes_original md bs shape
  set M := tfMerge 0 s bs (ofFlatL s.original g) with hM
  have hMs : M.shape = s.padded := tfMerge_shape md bs shape _
  have hprod : prod s.merged = prod shape := by
    have := C06.merge_prod shape md hd
    show prod (deriveShapes md bs shape).merged = prod shape
    simp only [deriveShapes]
    split
    · rename_i h1; rw [h1] at this; simpa using this
    · exact this
  have hsh : (tfUnmerge s bs (ofFlatL s.padded M.flat)).shape = shape := by
    unfold tfUnmerge; simp only [Tensor.reshape]; exact horig
  have e1 : (tfUnmerge s bs (ofFlatL s.padded M.flat)).flat
      = (allIdx shape).map (tfUnmerge s bs (ofFlatL s.padded M.flat)).get := by
    show List.map _ (allIdx (tfUnmerge s bs (ofFlatL s.padded M.flat)).shape) = _
    rw [hsh]
  refine Eq.trans e1 (Eq.trans ?_ (flat_ofFlatL shape g hlen))
  show _ = List.map (ofFlatL shape g).get (allIdx shape)
  apply List.map_congr_left
  intro idx hidx
  have hin := allIdx_inBounds shape idx hidx
  rw [tfUnmerge_get]
  have hlt : ravel s.original idx < prod s.merged := by
    rw [horig, hprod]; exact ravel_lt shape idx hin
  have hj : inBounds s.merged (unravel s.merged (ravel s.original idx)) := unravel_inBounds _ _ hlt
  have hjp : inBounds M.shape (unravel s.merged (ravel s.original idx)) := by
    rw [hMs, deriveShapes_padded]; exact inBounds_pad bs _ _ hj
  have h1 : (ofFlatL s.padded M.flat).get (unravel s.merged (ravel s.original idx))
      = M.get (unravel s.merged (ravel s.original idx)) := by
    have := flat_get M _ hjp
    rw [hMs] at this
    exact this
  rw [h1, ← tfUnmerge_get s bs M idx]
  have := C06.unmerge_merge_id (0 : α) md bs (ofFlatL shape g) hd idx hin
  simp only [] at this
  rw [hM, horig]
  exact this
end

end Flat

/-! ## Part 4 — the block inverse root under the `eigh` specification -/
open Matrix

section Root
variable {α : Type} [Field α] [LinearOrder α] [IsStrictOrderedRing α] {n : ℕ}

/-- the specification of the external kernel `eigh` the theorems assume: orthonormal columns and `V diag(w) Vᵀ = C` -/
structure EighSpec (C : Matrix (Fin n) (Fin n) α) (e : EighOut α n) : Prop where
  ortho : (Matrix.of e.V)ᵀ * Matrix.of e.V = 1
  recon : Matrix.of e.V * diagonal e.w * (Matrix.of e.V)ᵀ = C

/-- the specification of the scalar kernel `hp x = x ** (-0.5 / p)` on positive reals -/
def HpSpec (hp : α → α) (p : ℕ) : Prop := ∀ x, 0 < x → 0 < hp x ∧ (hp x * hp x) ^ p * x = 1

theorem vmax_ge_head (x : α) (xs : List α) : x ≤ xs.foldl max x := by
  induction xs generalizing x with
  | nil => exact le_refl _
  | cons y ys ih => exact le_trans (le_max_left x y) (ih (max x y))

/-- the largest eigenvalue of a block with non-negative spectrum is non-negative -/
theorem wmax_nonneg (w : Fin n → α) (hw : ∀ a, 0 ≤ w a) : 0 ≤ wmax w := by
  unfold wmax vmax
  cases h : (List.finRange n).map w with
  | nil => exact le_refl _
  | cons x xs =>
    have hx : x ∈ (List.finRange n).map w := by rw [h]; exact List.mem_cons_self
    obtain ⟨a, _, rfl⟩ := List.mem_map.mp hx
    exact le_trans (hw a) (vmax_ge_head _ _)

/-- a retained eigenvalue is positive -/
theorem kept_pos (cut : α) (hc : 0 ≤ cut) (w : Fin n → α) (hw : ∀ a, 0 ≤ w a) (a : Fin n)
    (h : kept cut w a = true) : 0 < w a := by
  have := of_decide_eq_true h
  exact lt_of_le_of_lt (mul_nonneg hc (wmax_nonneg w hw)) this

variable (hp : α → α) (cut : α) (e : EighOut α n)

/-- 0/1 indicator of the retained eigenvalues -/
def keep01 (a : Fin n) : α := if kept cut e.w a then 1 else 0

/-- projector on the retained eigenspace -/
def projM : Matrix (Fin n) (Fin n) α := Matrix.of e.V * diagonal (keep01 cut e) * (Matrix.of e.V)ᵀ

theorem rootOfEigh_eq :
    Matrix.of (rootOfEigh hp cut e) =
      Matrix.of e.V * diagonal (fun a => half hp cut e.w a * half hp cut e.w a) * (Matrix.of e.V)ᵀ := by
  ext i j
  rw [FD.mdt_apply]
  simp only [Matrix.of_apply, rootOfEigh, FD.sumFin_eq]
  refine Finset.sum_congr rfl fun a _ => ?_
  ring

theorem vdv_mul (V : Matrix (Fin n) (Fin n) α) (hV : Vᵀ * V = 1) (d₁ d₂ : Fin n → α) :
    (V * diagonal d₁ * Vᵀ) * (V * diagonal d₂ * Vᵀ) = V * diagonal (fun a => d₁ a * d₂ a) * Vᵀ := by
  calc V * diagonal d₁ * Vᵀ * (V * diagonal d₂ * Vᵀ)
      = V * diagonal d₁ * (Vᵀ * V) * diagonal d₂ * Vᵀ := by simp only [Matrix.mul_assoc]
    _ = V * (diagonal d₁ * diagonal d₂) * Vᵀ := by rw [hV, Matrix.mul_one, Matrix.mul_assoc V]
    _ = _ := by rw [diagonal_mul_diagonal]

theorem vdv_pow (V : Matrix (Fin n) (Fin n) α) (hV : Vᵀ * V = 1) (d : Fin n → α) (p : ℕ) :
    (V * diagonal d * Vᵀ) ^ (p + 1) = V * diagonal (fun a => d a ^ (p + 1)) * Vᵀ := by
  induction p with
  | zero => simp
  | succ k ih =>
    rw [pow_succ, ih, vdv_mul V hV]
    have : (fun a => d a ^ (k + 1) * d a) = fun a => d a ^ (k + 1 + 1) := by
      funext a; rw [pow_succ (d a) (k + 1)]
    rw [this]

theorem half_pow_mul (hcut : 0 ≤ cut) (hw : ∀ a, 0 ≤ e.w a) (p : ℕ) (hpos : 0 < p) (hhp : HpSpec hp p)
    (a : Fin n) :
    (half hp cut e.w a * half hp cut e.w a) ^ p * e.w a = keep01 cut e a := by
  unfold half keep01
  by_cases hk : kept cut e.w a = true
  · simp only [hk, if_true]
    exact (hhp _ (kept_pos cut hcut e.w hw a hk)).2
  · simp only [hk, Bool.false_eq_true, if_false, mul_zero]
    rw [zero_pow (Nat.pos_iff_ne_zero.mp hpos), zero_mul]

/-- `X^p · C` is the projector on the retained eigenspace -/
theorem root_pow_mul (C : Matrix (Fin n) (Fin n) α) (hs : EighSpec C e) (hcut : 0 ≤ cut)
    (hw : ∀ a, 0 ≤ e.w a) (p : ℕ) (hpos : 0 < p) (hhp : HpSpec hp p) :
    (Matrix.of (rootOfEigh hp cut e)) ^ p * C = projM cut e := by
  obtain ⟨k, rfl⟩ : ∃ k, p = k + 1 := ⟨p - 1, by omega⟩
  rw [rootOfEigh_eq, vdv_pow _ hs.ortho, ← hs.recon, projM, vdv_mul _ hs.ortho]
  have : (fun a => (half hp cut e.w a * half hp cut e.w a) ^ (k + 1) * e.w a) = keep01 cut e := by
    funext a
    exact half_pow_mul hp cut e hcut hw (k + 1) hpos hhp a
  rw [this]

theorem root_symm : (Matrix.of (rootOfEigh hp cut e))ᵀ = Matrix.of (rootOfEigh hp cut e) := by
  rw [rootOfEigh_eq]
  simp only [Matrix.transpose_mul, Matrix.transpose_transpose, diagonal_transpose, Matrix.mul_assoc]

theorem proj_symm : (projM cut e)ᵀ = projM cut e := by
  unfold projM
  simp only [Matrix.transpose_mul, Matrix.transpose_transpose, diagonal_transpose, Matrix.mul_assoc]

theorem proj_idem (hV : (Matrix.of e.V)ᵀ * Matrix.of e.V = 1) : projM cut e * projM cut e = projM cut e := by
  unfold projM
  rw [vdv_mul _ hV]
  have : (fun a => keep01 cut e a * keep01 cut e a) = keep01 cut e := by
    funext a
    unfold keep01
    split <;> simp
  rw [this]

/-- the projector commutes with the statistics: `Π C = C Π` -/
theorem proj_comm (C : Matrix (Fin n) (Fin n) α) (hs : EighSpec C e) : projM cut e * C = C * projM cut e := by
  rw [← hs.recon, projM, vdv_mul _ hs.ortho, vdv_mul _ hs.ortho]
  have : (fun a => keep01 cut e a * e.w a) = fun a => e.w a * keep01 cut e a := by
    funext a; exact mul_comm _ _
  rw [this]

/-- `C V = V diag(w)` -/
theorem EighSpec.mul_V {C : Matrix (Fin n) (Fin n) α} {e : EighOut α n} (hs : EighSpec C e) :
    C * Matrix.of e.V = Matrix.of e.V * diagonal e.w := by
  rw [← hs.recon, Matrix.mul_assoc, hs.ortho, Matrix.mul_one]

/-- a coordinate on which the statistics vanish (a zero-padded one) does not occur in any retained eigenvector -/
theorem retained_vec_zero {C : Matrix (Fin n) (Fin n) α} {e : EighOut α n} (hs : EighSpec C e) (cut : α)
    (hcut : 0 ≤ cut) (hw : ∀ a, 0 ≤ e.w a) (i : Fin n) (hrow : ∀ j, C i j = 0) (a : Fin n)
    (hk : kept cut e.w a = true) : e.V i a = 0 := by
  have h := congrFun (congrFun hs.mul_V i) a
  rw [Matrix.mul_apply, Matrix.mul_diagonal] at h
  simp only [hrow, zero_mul, Finset.sum_const_zero, Matrix.of_apply] at h
  have hpos := kept_pos cut hcut e.w hw a hk
  rcases mul_eq_zero.mp h.symm with h0 | h0
  · exact h0
  · exact absurd h0 (ne_of_gt hpos)

/-- rows (and, by symmetry, columns) of the inverse root at zero-padded coordinates are exactly zero -/
theorem root_zero_row {C : Matrix (Fin n) (Fin n) α} {e : EighOut α n} (hs : EighSpec C e) (hp : α → α) (cut : α)
    (hcut : 0 ≤ cut) (hw : ∀ a, 0 ≤ e.w a) (i : Fin n) (hrow : ∀ j, C i j = 0) (j : Fin n) :
    rootOfEigh hp cut e i j = 0 := by
  unfold rootOfEigh
  rw [FD.sumFin_eq]
  apply Finset.sum_eq_zero
  intro a _
  by_cases hk : kept cut e.w a = true
  · rw [retained_vec_zero hs cut hcut hw i hrow a hk]; ring
  · simp only [half, hk, Bool.false_eq_true, if_false]; ring

section PSD
variable [StarRing α] [TrivialStar α] [StarOrderedRing α]

theorem root_psd : (Matrix.of (rootOfEigh hp cut e)).PosSemidef := by
  rw [rootOfEigh_eq]
  have hd : (diagonal (fun a => half hp cut e.w a * half hp cut e.w a)).PosSemidef :=
    PosSemidef.diagonal (fun a => mul_self_nonneg _)
  simpa using hd.mul_mul_conjTranspose_same (Matrix.of e.V)

end PSD
end Root

end PrecondVerif.Tearfree
