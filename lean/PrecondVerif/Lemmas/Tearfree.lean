/-
Lemmas for C15 (Tearfree composition, `Model/Tearfree.lean`).

Part 1 (no algebra needed, holds for every scalar type, `Float` included): `sharded_chain` unfolds positionally;
`momentum.apply`'s run-time list of transformations is the documented momentum stage; the whole `tearfreeTx`
update and its fold over a history.
Part 2 (commutative rings / ordered fields): exact linearity in the learning rate, documented momentum formulas,
order of weight decay.
Part 3: flat data ↔ index functions (`allIdx` enumerates row-major), the merge/pad round trip on flat data.
Part 4: the block inverse root under the `eigh` specification.
-/
import PrecondVerif.Model.Tearfree
import PrecondVerif.Lemmas.Shapes
import PrecondVerif.Lemmas.FD
import PrecondVerif.Props.C06
import Mathlib.Algebra.Order.Field.Basic
import Mathlib.Tactic.Ring
import Mathlib.Tactic.Linarith

set_option linter.unusedSectionVars false
set_option linter.unusedSimpArgs false
set_option linter.overlappingInstances false

namespace PrecondVerif.Tearfree
section Chain
variable {S S₁ S₂ S₃ U P : Type}

theorem chain2_update (a : Tx S₁ U P) (b : Tx S₂ U P) (u : U) (s : S₁ × S₂) (p : P) :
    (chain2 a b).update u s p =
      ((b.update (a.update u s.1 p).1 s.2 p).1, ((a.update u s.1 p).2, (b.update (a.update u s.1 p).1 s.2 p).2)) := rfl

theorem chain3_update (a : Tx S₁ U P) (b : Tx S₂ U P) (c : Tx S₃ U P) (u : U) (s : S₁ × S₂ × S₃) (p : P) :
    (chain3 a b c).update u s p =
      ((c.update (b.update (a.update u s.1 p).1 s.2.1 p).1 s.2.2 p).1,
       ((a.update u s.1 p).2, (b.update (a.update u s.1 p).1 s.2.1 p).2,
        (c.update (b.update (a.update u s.1 p).1 s.2.1 p).1 s.2.2 p).2)) := rfl

theorem chain3_init (a : Tx S₁ U P) (b : Tx S₂ U P) (c : Tx S₃ U P) (p : P) :
    (chain3 a b c).init p = (a.init p, b.init p, c.init p) := rfl

/-- the state tuple of a `sharded_chain` keeps its length: one entry per transformation -/
theorem chainLGo_length (l : List (Tx S U P)) (u : U) (ss : List S) (p : P) (h : ss.length = l.length) :
    (chainLGo l u ss p).2.length = l.length := by
  induction l generalizing u ss with
  | nil => simp [chainLGo]
  | cons f fs ih =>
    cases ss with
    | nil => simp at h
    | cons s ss =>
      simp only [List.length_cons, Nat.add_right_cancel_iff] at h
      simp [chainLGo, ih _ _ h]

end Chain

section FirstOrder
variable {α : Type} [Zero α] [One α] [Add α] [Sub α] [Mul α] [Neg α] [LT α] [DecidableLT α] [BEq α]

theorem traceF_eq (d : α) : traceF d = fun g t => g + d * t := rfl

/-- counter of the learning-rate stage after one update -/
def LR.next : LR α → Nat → Nat
  | .const _, n => n
  | .sched _, n => n + 1

theorem lrTx_update (lr : LR α) (u : List α) (n : Nat) (x : List α) :
    (lrTx lr).update u n x = (specLr lr n u, lr.next n) := by
  cases lr <;> rfl

theorem lrTx_init (lr : LR α) (p : List α) : (lrTx lr).init p = 0 := by
  cases lr <;> rfl

/-- `momentum.apply`'s chain, run on a state tuple built around the velocity `tr`, is the documented momentum stage and
leaves the velocity at the same position of the tuple -/
theorem momentumTx_update (o : MomOpts α) (u tr x : List α) :
    (momentumTx o).update u (momState o tr) x =
      ((specMomentumStage o u tr x).1, momState o (specMomentumStage o u tr x).2) := by
  rcases o with ⟨ema, nesterov, decay, wd, after⟩
  simp only [momentumTx, chainL, momentumTransforms, momState, specMomentumStage, specMomentum, specDecay]
  by_cases h0 : (decay == 0) = true <;> by_cases hw : 0 < wd <;> cases after <;> cases ema <;> cases nesterov <;>
    simp [h0, hw, chainLGo, scaleTx, traceTx, addDecayedWeightsTx, traceF_eq]

theorem momentumTx_init (o : MomOpts α) (p : List α) :
    (momentumTx o).init p = momState o (p.map fun _ => 0) := by
  rcases o with ⟨ema, nesterov, decay, wd, after⟩
  simp only [momentumTx, chainL, momentumTransforms, momState]
  by_cases h0 : (decay == 0) = true <;> by_cases hw : 0 < wd <;> cases after <;> cases ema <;> cases nesterov <;>
    simp [h0, hw, scaleTx, traceTx, addDecayedWeightsTx]

variable {GS : Type}

theorem tearfreeTx_update (G : Tx GS (List α) (List α)) (o : MomOpts α) (lr : LR α) (g : List α) (gs : GS)
    (tr : List α) (n : Nat) (x : List α) :
    (tearfreeTx G o lr).update g (gs, momState o tr, n) x =
      (specLr lr n (specMomentumStage o (G.update g gs x).1 tr x).1,
       ((G.update g gs x).2, momState o (specMomentumStage o (G.update g gs x).1 tr x).2, lr.next n)) := by
  rw [tearfreeTx, chain3_update]
  simp only [momentumTx_update, lrTx_update]

theorem tearfreeTx_init (G : Tx GS (List α) (List α)) (o : MomOpts α) (lr : LR α) (p : List α) :
    (tearfreeTx G o lr).init p = (G.init p, momState o (p.map fun _ => 0), 0) := by
  rw [tearfreeTx, chain3_init, momentumTx_init, lrTx_init]

/-- the documented composition folded over a history: graft state, velocity and step counter threaded explicitly -/
def specRun (G : Tx GS (List α) (List α)) (o : MomOpts α) (lr : LR α) :
    GS → List α → Nat → List (List α × List α) → List (List α)
  | _, _, _, [] => []
  | gs, tr, n, (g, x) :: rest =>
    let r := G.update g gs x
    let m := specMomentumStage o r.1 tr x
    specLr lr n m.1 :: specRun G o lr r.2 m.2 (lr.next n) rest

theorem runTx_tearfree (G : Tx GS (List α) (List α)) (o : MomOpts α) (lr : LR α) (h : List (List α × List α)) :
    ∀ (gs : GS) (tr : List α) (n : Nat),
      (runTx (tearfreeTx G o lr) (gs, momState o tr, n) h).1 = specRun G o lr gs tr n h := by
  induction h with
  | nil => intro gs tr n; rfl
  | cons a rest ih =>
    intro gs tr n
    rcases a with ⟨g, x⟩
    simp only [runTx, specRun, tearfreeTx_update, ih]

end FirstOrder

/-! ## Part 2 — rings and ordered fields -/
section Ring
variable {α : Type} [Field α] [LinearOrder α] [IsStrictOrderedRing α] {GS : Type}

/-- the learning rate multiplied by a constant `c` (a number or a whole schedule) -/
def LR.scale (c : α) : LR α → LR α
  | .const v => .const (c * v)
  | .sched f => .sched fun n => c * f n

theorem LR.scale_at (c : α) (lr : LR α) (n : Nat) : (lr.scale c).at n = c * lr.at n := by
  cases lr <;> rfl

theorem LR.scale_next (c : α) (lr : LR α) (n : Nat) : (lr.scale c).next n = lr.next n := by
  cases lr <;> rfl

theorem specLr_scale (c : α) (lr : LR α) (n : Nat) (u : List α) :
    specLr (lr.scale c) n u = (specLr lr n u).map fun y => c * y := by
  simp only [specLr, LR.scale_at, List.map_map]
  apply List.map_congr_left
  intro g _
  simp only [Function.comp]
  ring

/-- one update: multiplying the learning rate by `c` multiplies the update by `c` and leaves the state alone -/
theorem tearfreeTx_update_scale (G : Tx GS (List α) (List α)) (o : MomOpts α) (lr : LR α) (c : α)
    (g : List α) (s : GS × List (List α) × Nat) (x : List α) :
    (tearfreeTx G o (lr.scale c)).update g s x =
      (((tearfreeTx G o lr).update g s x).1.map fun y => c * y, ((tearfreeTx G o lr).update g s x).2) := by
  simp only [tearfreeTx, chain3_update, lrTx_update, specLr_scale, LR.scale_next]

theorem runTx_scale (G : Tx GS (List α) (List α)) (o : MomOpts α) (lr : LR α) (c : α)
    (h : List (List α × List α)) : ∀ s : GS × List (List α) × Nat,
    runTx (tearfreeTx G o (lr.scale c)) s h =
      ((runTx (tearfreeTx G o lr) s h).1.map fun u => u.map fun y => c * y, (runTx (tearfreeTx G o lr) s h).2) := by
  induction h with
  | nil => intro s; rfl
  | cons a rest ih =>
    intro s
    rcases a with ⟨g, x⟩
    simp only [runTx, tearfreeTx_update_scale, ih, List.map_cons]

/-! ### documented momentum formulas -/

/-- `velocity(t+1)` of `momentum.Options`' docstring -/
def docVelocity (ema : Bool) (decay v u : α) : α :=
  if ema then decay * v + (1 - decay) * u else decay * v + u

/-- `update'(t+1)` of the docstring: the velocity, or (Nesterov) `maybe_decay * update(t) + decay * velocity(t+1)` -/
def docOutput (ema nesterov : Bool) (decay u v' : α) : α :=
  if nesterov then (if ema then 1 - decay else 1) * u + decay * v' else v'

theorem zipWith_map_swap {β γ δ ε : Type} (f : γ → δ → ε) (k : β → γ) (g : δ → β → ε)
    (h : ∀ a b, f (k a) b = g b a) (l : List β) (m : List δ) :
    List.zipWith f (l.map k) m = List.zipWith g m l := by
  induction l generalizing m with
  | nil => simp
  | cons a l ih => cases m <;> simp [ih, h]

theorem zipWith_swap' {β δ ε : Type} (f : β → δ → ε) (g : δ → β → ε)
    (h : ∀ a b, f a b = g b a) (l : List β) (m : List δ) :
    List.zipWith f l m = List.zipWith g m l := by
  have := zipWith_map_swap f id g h l m
  simpa using this

/-- the velocity follows the documented recursion -/
theorem specMomentum_velocity (o : MomOpts α) (hd : o.decay ≠ 0) (u tr : List α) :
    (specMomentum o u tr).2 = List.zipWith (docVelocity o.ema o.decay) tr u := by
  have h0 : (o.decay == 0) = false := by simpa using hd
  simp only [specMomentum, h0, Bool.false_eq_true, if_false]
  cases o.ema
  · simp only [Bool.false_eq_true, if_false]
    apply zipWith_swap'
    intro a b; simp only [docVelocity, Bool.false_eq_true, if_false]; ring
  · simp only [if_true]
    apply zipWith_map_swap
    intro a b; simp only [docVelocity, if_true]; ring

/-- the output follows the documented formula (in terms of the NEW velocity) -/
theorem specMomentum_output (o : MomOpts α) (hd : o.decay ≠ 0) (u tr : List α) :
    (specMomentum o u tr).1 =
      if o.nesterov then
        List.zipWith (fun g v' => docOutput o.ema true o.decay g v') u (specMomentum o u tr).2
      else (specMomentum o u tr).2 := by
  have h0 : (o.decay == 0) = false := by simpa using hd
  simp only [specMomentum, h0, Bool.false_eq_true, if_false]
  cases o.nesterov
  · simp
  · simp only [if_true]
    cases o.ema
    · simp only [Bool.false_eq_true, if_false, docOutput, if_true, one_mul]
    · simp only [if_true, docOutput]
      rw [zipWith_map_swap (fun g t => g + o.decay * t) (fun g => (1 - o.decay) * g)
        (fun t g => (1 - o.decay) * g + o.decay * t) (fun a b => rfl)]
      apply zipWith_swap'
      intro a b; rfl

end Ring

/-! ## Part 3 — flat data and the merge / pad round trip -/
section Flat
open PrecondVerif.Shapes

theorem range_mul (s m : Nat) :
    List.range (s * m) = (List.range s).flatMap fun i => (List.range m).map fun j => i * m + j := by
  induction s with
  | zero => simp
  | succ s ih =>
    rw [Nat.succ_mul, List.range_add, ih, List.range_succ, List.flatMap_append]
    simp

/-- `allIdx` enumerates the multi-indices in row-major order -/
theorem allIdx_map_ravel (shape : List Nat) : (allIdx shape).map (ravel shape) = List.range (prod shape) := by
  induction shape with
  | nil => rfl
  | cons s ss ih =>
    rw [prod_cons, range_mul]
    simp only [allIdx, List.map_flatMap, List.map_map]
    congr 1
    funext i
    rw [← ih, List.map_map]
    apply List.map_congr_left
    intro is _
    simp [ravel]

theorem allIdx_inBounds (shape : List Nat) : ∀ idx ∈ allIdx shape, inBounds shape idx := by
  induction shape with
  | nil => intro idx h; simp [allIdx] at h; subst h; trivial
  | cons s ss ih =>
    intro idx h
    simp only [allIdx, List.mem_flatMap, List.mem_range, List.mem_map] at h
    obtain ⟨i, hi, is, his, rfl⟩ := h
    exact ⟨hi, ih is his⟩

section
variable {α : Type} [Zero α]

/-- reading back flat data through the index function: `ofFlat` then `flat` is the identity on data of the right length -/
theorem flat_ofFlatL (shape : List Nat) (g : List α) (h : g.length = prod shape) :
    (ofFlatL shape g).flat = g := by
  unfold Tensor.flat ofFlatL ofFlat
  have : (allIdx shape).map (fun idx => rd g.toArray (ravel shape idx))
      = ((allIdx shape).map (ravel shape)).map (rd g.toArray) := by
    rw [List.map_map]; rfl
  simp only []
  rw [this, allIdx_map_ravel, ← h]
  apply List.ext_getElem
  · simp
  · intro k h1 h2
    simp [rd, List.getElem?_eq_getElem h2]

/-- entry of the tabulated data of a tensor at the row-major position of an in-bounds index -/
theorem flat_get (t : Tensor α) (idx : List Nat) (h : inBounds t.shape idx) :
    rd t.flat.toArray (ravel t.shape idx) = t.get idx := by
  have hlt := ravel_lt t.shape idx h
  have hlen : (allIdx t.shape).length = prod t.shape := by
    have := congrArg List.length (allIdx_map_ravel t.shape)
    simpa using this
  have hk : (allIdx t.shape)[ravel t.shape idx]'(by rw [hlen]; exact hlt) = idx := by
    have h1 : ((allIdx t.shape).map (ravel t.shape))[ravel t.shape idx]'(by simp [hlen]; exact hlt)
        = ravel t.shape idx := by
      simp only [allIdx_map_ravel, List.getElem_range]
    rw [List.getElem_map] at h1
    have hin := allIdx_inBounds t.shape _ (List.getElem_mem (l := allIdx t.shape) (by rw [hlen]; exact hlt))
    have := congrArg (unravel t.shape) h1
    rwa [unravel_ravel _ _ hin, unravel_ravel _ _ h] at this
  unfold rd Tensor.flat
  have hlt' : ravel t.shape idx < (allIdx t.shape).length := by rw [hlen]; exact hlt
  simp [List.getElem?_eq_getElem hlt', hk]
end

theorem inBounds_pad (bs : Nat) : ∀ (m j : List Nat), inBounds m j → inBounds (m.map (padDim · bs)) j
  | [], [], _ => trivial
  | [], _ :: _, h => h.elim
  | _ :: _, [], h => h.elim
  | d :: ds, _ :: is, h => ⟨Nat.lt_of_lt_of_le h.1 (C06.pad_ge d bs), inBounds_pad bs ds is h.2⟩

theorem padDim_zero (s : Nat) : padDim s 0 = s := by simp [padDim]

section
variable {α : Type} [Zero α]

theorem deriveShapes_original (md bs : Nat) (shape : List Nat) : (deriveShapes md bs shape).original = shape := by
  simp only [deriveShapes]; split <;> rfl

theorem deriveShapes_padded (md bs : Nat) (shape : List Nat) :
    (deriveShapes md bs shape).padded = (deriveShapes md bs shape).merged.map (padDim · bs) := by
  simp only [deriveShapes]; split <;> simp

theorem tfMerge_shape (md bs : Nat) (shape : List Nat) (t : Tensor α) :
    (tfMerge 0 (deriveShapes md bs shape) bs t).shape = (deriveShapes md bs shape).padded := by
  unfold tfMerge
  simp only []
  split
  · rfl
  · rename_i h
    simp only [Tensor.reshape]
    rw [deriveShapes_padded]
    rw [deriveShapes_padded] at h
    by_cases hb : bs = 0
    · subst hb; simp [padDim_zero]
    · have : List.map (fun x => padDim x bs) (deriveShapes md bs shape).merged = [] := by
        by_contra hne
        exact h ⟨hne, Nat.pos_of_ne_zero hb⟩
      rw [this]
      simpa using this

/-- what `unmerge` delivers at an original index is the entry of its input at the merged index -/
theorem tfUnmerge_get (s : TFShapes) (bs : Nat) (t : Tensor α) (idx : List Nat) :
    (tfUnmerge s bs t).get idx = t.get (unravel s.merged (ravel s.original idx)) := by
  unfold tfUnmerge
  simp only [Tensor.reshape]
  split <;> rfl

/-- `_blockify`-free core of `merge_pad_roundtrip`: with the identity in place of the preconditioner the
second-order stage returns its input, on flat data -/
theorem merge_unmerge_flat (md bs : Nat) (shape : List Nat) (g : List α) (hlen : g.length = prod shape)
    (hd : ∀ d ∈ shape, 1 ≤ d) :
    let s := deriveShapes md bs shape
    (tfUnmerge s bs (ofFlatL s.padded (tfMerge 0 s bs (ofFlatL s.original g)).flat)).flat = g := by
  intro s
  have horig : s.original = shape := deriveShapes_original md bs shape
  set M := tfMerge 0 s bs (ofFlatL s.original g) with hM
  have hMs : M.shape = s.padded := tfMerge_shape md bs shape _
  have hprod : prod s.merged = prod shape := by
    have := C06.merge_prod shape md hd
    show prod (deriveShapes md bs shape).merged = prod shape
    simp only [deriveShapes]
    split
    · rename_i h1; rw [h1] at this; simpa using this
    · exact this
  have hsh : (tfUnmerge s bs (ofFlatL s.padded M.flat)).shape = shape := by
    unfold tfUnmerge; simp only [Tensor.reshape]; exact horig
  have e1 : (tfUnmerge s bs (ofFlatL s.padded M.flat)).flat
      = (allIdx shape).map (tfUnmerge s bs (ofFlatL s.padded M.flat)).get := by
    show List.map _ (allIdx (tfUnmerge s bs (ofFlatL s.padded M.flat)).shape) = _
    rw [hsh]
  refine Eq.trans e1 (Eq.trans ?_ (flat_ofFlatL shape g hlen))
  show _ = List.map (ofFlatL shape g).get (allIdx shape)
  apply List.map_congr_left
  intro idx hidx
  have hin := allIdx_inBounds shape idx hidx
  rw [tfUnmerge_get]
  have hlt : ravel s.original idx < prod s.merged := by
    rw [horig, hprod]; exact ravel_lt shape idx hin
  have hj : inBounds s.merged (unravel s.merged (ravel s.original idx)) := unravel_inBounds _ _ hlt
  have hjp : inBounds M.shape (unravel s.merged (ravel s.original idx)) := by
    rw [hMs, deriveShapes_padded]; exact inBounds_pad bs _ _ hj
  have h1 : (ofFlatL s.padded M.flat).get (unravel s.merged (ravel s.original idx))
      = M.get (unravel s.merged (ravel s.original idx)) := by
    have := flat_get M _ hjp
    rw [hMs] at this
    exact this
  rw [h1, ← tfUnmerge_get s bs M idx]
  have := C06.unmerge_merge_id (0 : α) md bs (ofFlatL shape g) hd idx hin
  simp only [] at this
  rw [hM, horig]
  exact this
end

end Flat

/-! ## Part 4 — the block inverse root under the `eigh` specification -/
open Matrix

section Root
variable {α : Type} [Field α] [LinearOrder α] [IsStrictOrderedRing α] {n : ℕ}

/-- the specification of the external kernel `eigh` the theorems assume: orthonormal columns and `V diag(w) Vᵀ = C` -/
structure EighSpec (C : Matrix (Fin n) (Fin n) α) (e : EighOut α n) : Prop where
  ortho : (Matrix.of e.V)ᵀ * Matrix.of e.V = 1
  recon : Matrix.of e.V * diagonal e.w * (Matrix.of e.V)ᵀ = C

/-- the specification of the scalar kernel `hp x = x ** (-0.5 / p)` on positive reals -/
def HpSpec (hp : α → α) (p : ℕ) : Prop := ∀ x, 0 < x → 0 < hp x ∧ (hp x * hp x) ^ p * x = 1

theorem vmax_ge_head (x : α) (xs : List α) : x ≤ xs.foldl max x := by
  induction xs generalizing x with
  | nil => exact le_refl _
  | cons y ys ih => exact le_trans (le_max_left x y) (ih (max x y))

/-- the largest eigenvalue of a block with non-negative spectrum is non-negative -/
theorem wmax_nonneg (w : Fin n → α) (hw : ∀ a, 0 ≤ w a) : 0 ≤ wmax w := by
  unfold wmax vmax
  cases h : (List.finRange n).map w with
  | nil => exact le_refl _
  | cons x xs =>
    have hx : x ∈ (List.finRange n).map w := by rw [h]; exact List.mem_cons_self
    obtain ⟨a, _, rfl⟩ := List.mem_map.mp hx
    exact le_trans (hw a) (vmax_ge_head _ _)

/-- a retained eigenvalue is positive -/
theorem kept_pos (cut : α) (hc : 0 ≤ cut) (w : Fin n → α) (hw : ∀ a, 0 ≤ w a) (a : Fin n)
    (h : kept cut w a = true) : 0 < w a := by
  have := of_decide_eq_true h
  exact lt_of_le_of_lt (mul_nonneg hc (wmax_nonneg w hw)) this

variable (hp : α → α) (cut : α) (e : EighOut α n)

/-- 0/1 indicator of the retained eigenvalues -/
def keep01 (a : Fin n) : α := if kept cut e.w a then 1 else 0

/-- projector on the retained eigenspace -/
def projM : Matrix (Fin n) (Fin n) α := Matrix.of e.V * diagonal (keep01 cut e) * (Matrix.of e.V)ᵀ

theorem rootOfEigh_eq :
    Matrix.of (rootOfEigh hp cut e) =
      Matrix.of e.V * diagonal (fun a => half hp cut e.w a * half hp cut e.w a) * (Matrix.of e.V)ᵀ := by
  ext i j
  rw [FD.mdt_apply]
  simp only [Matrix.of_apply, rootOfEigh, FD.sumFin_eq]
  refine Finset.sum_congr rfl fun a _ => ?_
  ring

theorem vdv_mul (V : Matrix (Fin n) (Fin n) α) (hV : Vᵀ * V = 1) (d₁ d₂ : Fin n → α) :
    (V * diagonal d₁ * Vᵀ) * (V * diagonal d₂ * Vᵀ) = V * diagonal (fun a => d₁ a * d₂ a) * Vᵀ := by
  calc V * diagonal d₁ * Vᵀ * (V * diagonal d₂ * Vᵀ)
      = V * diagonal d₁ * (Vᵀ * V) * diagonal d₂ * Vᵀ := by simp only [Matrix.mul_assoc]
    _ = V * (diagonal d₁ * diagonal d₂) * Vᵀ := by rw [hV, Matrix.mul_one, Matrix.mul_assoc V]
    _ = _ := by rw [diagonal_mul_diagonal]

theorem vdv_pow (V : Matrix (Fin n) (Fin n) α) (hV : Vᵀ * V = 1) (d : Fin n → α) (p : ℕ) :
    (V * diagonal d * Vᵀ) ^ (p + 1) = V * diagonal (fun a => d a ^ (p + 1)) * Vᵀ := by
  induction p with
  | zero => simp
  | succ k ih =>
    rw [pow_succ, ih, vdv_mul V hV]
    have : (fun a => d a ^ (k + 1) * d a) = fun a => d a ^ (k + 1 + 1) := by
      funext a; rw [pow_succ (d a) (k + 1)]
    rw [this]

theorem half_pow_mul (hcut : 0 ≤ cut) (hw : ∀ a, 0 ≤ e.w a) (p : ℕ) (hpos : 0 < p) (hhp : HpSpec hp p)
    (a : Fin n) :
    (half hp cut e.w a * half hp cut e.w a) ^ p * e.w a = keep01 cut e a := by
  unfold half keep01
  by_cases hk : kept cut e.w a = true
  · simp only [hk, if_true]
    exact (hhp _ (kept_pos cut hcut e.w hw a hk)).2
  · simp only [hk, Bool.false_eq_true, if_false, mul_zero]
    rw [zero_pow (Nat.pos_iff_ne_zero.mp hpos), zero_mul]

/-- `X^p · C` is the projector on the retained eigenspace -/
theorem root_pow_mul (C : Matrix (Fin n) (Fin n) α) (hs : EighSpec C e) (hcut : 0 ≤ cut)
    (hw : ∀ a, 0 ≤ e.w a) (p : ℕ) (hpos : 0 < p) (hhp : HpSpec hp p) :
    (Matrix.of (rootOfEigh hp cut e)) ^ p * C = projM cut e := by
  obtain ⟨k, rfl⟩ : ∃ k, p = k + 1 := ⟨p - 1, by omega⟩
  rw [rootOfEigh_eq, vdv_pow _ hs.ortho, ← hs.recon, projM, vdv_mul _ hs.ortho]
  have : (fun a => (half hp cut e.w a * half hp cut e.w a) ^ (k + 1) * e.w a) = keep01 cut e := by
    funext a
    exact half_pow_mul hp cut e hcut hw (k + 1) hpos hhp a
  rw [this]

theorem root_symm : (Matrix.of (rootOfEigh hp cut e))ᵀ = Matrix.of (rootOfEigh hp cut e) := by
  rw [rootOfEigh_eq]
  simp only [Matrix.transpose_mul, Matrix.transpose_transpose, diagonal_transpose, Matrix.mul_assoc]

theorem proj_symm : (projM cut e)ᵀ = projM cut e := by
  unfold projM
  simp only [Matrix.transpose_mul, Matrix.transpose_transpose, diagonal_transpose, Matrix.mul_assoc]

theorem proj_idem (hV : (Matrix.of e.V)ᵀ * Matrix.of e.V = 1) : projM cut e * projM cut e = projM cut e := by
  unfold projM
  rw [vdv_mul _ hV]
  have : (fun a => keep01 cut e a * keep01 cut e a) = keep01 cut e := by
    funext a
    unfold keep01
    split <;> simp
  rw [this]

/-- the projector commutes with the statistics: `Π C = C Π` -/
theorem proj_comm (C : Matrix (Fin n) (Fin n) α) (hs : EighSpec C e) : projM cut e * C = C * projM cut e := by
  rw [← hs.recon, projM, vdv_mul _ hs.ortho, vdv_mul _ hs.ortho]
  have : (fun a => keep01 cut e a * e.w a) = fun a => e.w a * keep01 cut e a := by
    funext a; exact mul_comm _ _
  rw [this]

/-- `C V = V diag(w)` -/
theorem EighSpec.mul_V {C : Matrix (Fin n) (Fin n) α} {e : EighOut α n} (hs : EighSpec C e) :
    C * Matrix.of e.V = Matrix.of e.V * diagonal e.w := by
  rw [← hs.recon, Matrix.mul_assoc, hs.ortho, Matrix.mul_one]

/-- a coordinate on which the statistics vanish (a zero-padded one) does not occur in any retained eigenvector -/
theorem retained_vec_zero {C : Matrix (Fin n) (Fin n) α} {e : EighOut α n} (hs : EighSpec C e) (cut : α)
    (hcut : 0 ≤ cut) (hw : ∀ a, 0 ≤ e.w a) (i : Fin n) (hrow : ∀ j, C i j = 0) (a : Fin n)
    (hk : kept cut e.w a = true) : e.V i a = 0 := by
  have h := congrFun (congrFun hs.mul_V i) a
  rw [Matrix.mul_apply, Matrix.mul_diagonal] at h
  simp only [hrow, zero_mul, Finset.sum_const_zero, Matrix.of_apply] at h
  have hpos := kept_pos cut hcut e.w hw a hk
  rcases mul_eq_zero.mp h.symm with h0 | h0
  · exact h0
  · exact absurd h0 (ne_of_gt hpos)

/-- rows (and, by symmetry, columns) of the inverse root at zero-padded coordinates are exactly zero -/
theorem root_zero_row {C : Matrix (Fin n) (Fin n) α} {e : EighOut α n} (hs : EighSpec C e) (hp : α → α) (cut : α)
    (hcut : 0 ≤ cut) (hw : ∀ a, 0 ≤ e.w a) (i : Fin n) (hrow : ∀ j, C i j = 0) (j : Fin n) :
    rootOfEigh hp cut e i j = 0 := by
  unfold rootOfEigh
  rw [FD.sumFin_eq]
  apply Finset.sum_eq_zero
  intro a _
  by_cases hk : kept cut e.w a = true
  · rw [retained_vec_zero hs cut hcut hw i hrow a hk]; ring
  · simp only [half, hk, Bool.false_eq_true, if_false]; ring

section PSD
variable [StarRing α] [TrivialStar α] [StarOrderedRing α]

theorem root_psd : (Matrix.of (rootOfEigh hp cut e)).PosSemidef := by
  rw [rootOfEigh_eq]
  have hd : (diagonal (fun a => half hp cut e.w a * half hp cut e.w a)).PosSemidef :=
    PosSemidef.diagonal (fun a => mul_self_nonneg _)
  simpa using hd.mul_mul_conjTranspose_same (Matrix.of e.V)

end PSD
end Root

/-! ## Part 5 — the root is independent of the `eigh` output; zero padding -/

section Uniq
variable {α : Type} [Field α] [LinearOrder α] [IsStrictOrderedRing α] {n : ℕ}

/-! ### `wmax` is the maximum of the eigenvalue list -/

theorem foldl_max_le (xs : List α) (x M : α) (hx : x ≤ M) (h : ∀ y ∈ xs, y ≤ M) : xs.foldl max x ≤ M := by
  induction xs generalizing x with
  | nil => exact hx
  | cons y ys ih =>
    exact ih (max x y) (max_le hx (h y List.mem_cons_self)) (fun z hz => h z (List.mem_cons_of_mem _ hz))

theorem le_foldl_max (xs : List α) (x : α) : ∀ y ∈ xs, y ≤ xs.foldl max x := by
  induction xs generalizing x with
  | nil => intro y hy; cases hy
  | cons z zs ih =>
    intro y hy
    rcases List.mem_cons.mp hy with rfl | hy
    · exact le_trans (le_max_right x y) (vmax_ge_head _ _)
    · exact ih (max x z) y hy

theorem foldl_max_mem (xs : List α) (x : α) : xs.foldl max x = x ∨ xs.foldl max x ∈ xs := by
  induction xs generalizing x with
  | nil => exact Or.inl rfl
  | cons z zs ih =>
    rcases ih (max x z) with h | h
    · rcases max_choice x z with hm | hm
      · left; simp only [List.foldl_cons]; rw [h, hm]
      · right; simp only [List.foldl_cons]; rw [h, hm]; exact List.mem_cons_self
    · right; exact List.mem_cons_of_mem _ h

theorem le_wmax (w : Fin n → α) (a : Fin n) : w a ≤ wmax w := by
  unfold wmax vmax
  have hmem : w a ∈ (List.finRange n).map w := List.mem_map.mpr ⟨a, List.mem_finRange a, rfl⟩
  cases h : (List.finRange n).map w with
  | nil => rw [h] at hmem; cases hmem
  | cons x xs =>
    rw [h] at hmem
    rcases List.mem_cons.mp hmem with hx | hx
    · rw [hx]; exact vmax_ge_head _ _
    · exact le_foldl_max xs x _ hx

/-- the maximum is attained (or the block is empty and the maximum is 0) -/
theorem wmax_attained (w : Fin n → α) : (∃ a, wmax w = w a) ∨ (n = 0 ∧ wmax w = 0) := by
  unfold wmax vmax
  cases h : (List.finRange n).map w with
  | nil =>
    right
    have : (List.finRange n).length = 0 := by
      have := congrArg List.length h; simpa using this
    exact ⟨by simpa using this, rfl⟩
  | cons x xs =>
    left
    have hm : xs.foldl max x ∈ (List.finRange n).map w := by
      rw [h]
      rcases foldl_max_mem xs x with e | e
      · rw [e]; exact List.mem_cons_self
      · exact List.mem_cons_of_mem _ e
    obtain ⟨a, _, ha⟩ := List.mem_map.mp hm
    exact ⟨a, ha.symm⟩

/-- `wmax` is determined by: upper bound, and attained (or empty and 0) -/
theorem wmax_eq_of (w : Fin n → α) (M : α) (hle : ∀ a, w a ≤ M) (hatt : (∃ a, M = w a) ∨ (n = 0 ∧ M = 0)) :
    wmax w = M := by
  rcases wmax_attained w with ⟨a, ha⟩ | ⟨h0, hz⟩
  · rcases hatt with ⟨b, hb⟩ | ⟨h0, _⟩
    · exact le_antisymm (ha ▸ hle a) (hb ▸ le_wmax w b)
    · subst h0; exact a.elim0
  · rcases hatt with ⟨b, _⟩ | ⟨_, hM⟩
    · subst h0; exact b.elim0
    · rw [hz, hM]

/-- two eigenvalue families with the same set of values have the same maximum -/
theorem wmax_congr {m : ℕ} (w : Fin n → α) (w' : Fin m → α) (h1 : ∀ a, ∃ b, w a = w' b) (h2 : ∀ b, ∃ a, w' b = w a) :
    wmax w = wmax w' := by
  apply wmax_eq_of
  · intro a
    obtain ⟨b, hb⟩ := h1 a
    rw [hb]; exact le_wmax w' b
  · rcases wmax_attained w' with ⟨b, hb⟩ | ⟨h0, hz⟩
    · obtain ⟨a, ha⟩ := h2 b
      exact Or.inl ⟨a, hb.trans ha⟩
    · by_cases hn : n = 0
      · exact Or.inr ⟨hn, hz⟩
      · obtain ⟨a⟩ : Nonempty (Fin n) := ⟨⟨0, Nat.pos_of_ne_zero hn⟩⟩
        obtain ⟨b, _⟩ := h1 a
        subst h0; exact b.elim0

/-! ### the root does not depend on which eigendecomposition `eigh` returns -/

theorem EighSpec.ortho' {C : Matrix (Fin n) (Fin n) α} {e : EighOut α n} (hs : EighSpec C e) :
    Matrix.of e.V * (Matrix.of e.V)ᵀ = 1 :=
  mul_eq_one_comm.mp hs.ortho

/-- **uniqueness**: any two outputs of `eigh` meeting the specification for the same statistics give the same stored
preconditioner (same retained set, same inverse root) -/
theorem rootOfEigh_unique (hp : α → α) (cut : α) (C : Matrix (Fin n) (Fin n) α) (e e' : EighOut α n)
    (hs : EighSpec C e) (hs' : EighSpec C e') : rootOfEigh hp cut e = rootOfEigh hp cut e' := by
  set V := Matrix.of e.V with hV
  set V' := Matrix.of e'.V with hV'
  set Q := Vᵀ * V' with hQ
  have hVVt : V * Vᵀ = 1 := hs.ortho'
  have hVVt' : V' * V'ᵀ = 1 := hs'.ortho'
  -- `W Q = Q W'`
  have hWQ : diagonal e.w * Q = Q * diagonal e'.w := by
    have h1 : diagonal e.w * Q = Vᵀ * (V * diagonal e.w * Vᵀ) * V' := by
      simp only [hQ, Matrix.mul_assoc]
      rw [← Matrix.mul_assoc Vᵀ V, hs.ortho, Matrix.one_mul]
    have h2 : Q * diagonal e'.w = Vᵀ * (V' * diagonal e'.w * V'ᵀ) * V' := by
      simp only [hQ, Matrix.mul_assoc]
      rw [hs'.ortho, Matrix.mul_one]
    rw [h1, h2, hs.recon, hs'.recon]
  have hent : ∀ a b, Q a b ≠ 0 → e.w a = e'.w b := by
    intro a b hne
    have := congrFun (congrFun hWQ a) b
    rw [Matrix.diagonal_mul, Matrix.mul_diagonal] at this
    have h3 : (e.w a - e'.w b) * Q a b = 0 := by rw [sub_mul, this, mul_comm]; ring
    rcases mul_eq_zero.mp h3 with h | h
    · exact sub_eq_zero.mp h
    · exact absurd h hne
  -- `Q` is orthogonal: every row and every column has a non-zero entry
  have hQQt : Q * Qᵀ = 1 := by
    simp only [hQ, Matrix.transpose_mul, Matrix.transpose_transpose, Matrix.mul_assoc]
    rw [← Matrix.mul_assoc V' V'ᵀ, hVVt', Matrix.one_mul, hs.ortho]
  have hQtQ : Qᵀ * Q = 1 := mul_eq_one_comm.mp hQQt
  have hrow : ∀ a, ∃ b, Q a b ≠ 0 := by
    intro a
    by_contra hcon
    push Not at hcon
    have := congrFun (congrFun hQQt a) a
    rw [Matrix.mul_apply] at this
    simp [hcon] at this
  have hcol : ∀ b, ∃ a, Q a b ≠ 0 := by
    intro b
    by_contra hcon
    push Not at hcon
    have := congrFun (congrFun hQtQ b) b
    rw [Matrix.mul_apply] at this
    simp [hcon] at this
  have hmax : wmax e.w = wmax e'.w :=
    wmax_congr e.w e'.w (fun a => let ⟨b, hb⟩ := hrow a; ⟨b, hent a b hb⟩)
      (fun b => let ⟨a, ha⟩ := hcol b; ⟨a, (hent a b ha).symm⟩)
  have hhalf : ∀ a b, Q a b ≠ 0 → half hp cut e.w a = half hp cut e'.w b := by
    intro a b hne
    unfold half kept
    rw [hmax, hent a b hne]
  -- `D Q = Q D'`
  have hDQ : diagonal (fun a => half hp cut e.w a * half hp cut e.w a) * Q
      = Q * diagonal (fun b => half hp cut e'.w b * half hp cut e'.w b) := by
    ext a b
    rw [Matrix.diagonal_mul, Matrix.mul_diagonal]
    by_cases hne : Q a b = 0
    · rw [hne]; ring
    · rw [hhalf a b hne]; ring
  have hmat : Matrix.of (rootOfEigh hp cut e) = Matrix.of (rootOfEigh hp cut e') := by
    rw [rootOfEigh_eq, rootOfEigh_eq]
    calc V * diagonal (fun a => half hp cut e.w a * half hp cut e.w a) * Vᵀ
        = V * diagonal (fun a => half hp cut e.w a * half hp cut e.w a) * Vᵀ * (V' * V'ᵀ) := by
          rw [hVVt', Matrix.mul_one]
      _ = V * (diagonal (fun a => half hp cut e.w a * half hp cut e.w a) * Q) * V'ᵀ := by
          simp only [hQ, Matrix.mul_assoc]
      _ = (V * Vᵀ) * V' * diagonal (fun b => half hp cut e'.w b * half hp cut e'.w b) * V'ᵀ := by
          rw [hDQ]; simp only [hQ, Matrix.mul_assoc]
      _ = _ := by rw [hVVt, Matrix.one_mul]
  funext i j
  exact congrFun (congrFun hmat i) j

end Uniq

section Pad
variable {α : Type} [Field α] [LinearOrder α] [IsStrictOrderedRing α] {n : ℕ}

/-- `blockdiag(f, 0)`: a square array extended by `k` zero rows and columns -/
def padFn (k : ℕ) (f : Fin n → Fin n → α) : Fin (n + k) → Fin (n + k) → α :=
  fun i j => Fin.addCases (fun i' => Fin.addCases (fun j' => f i' j') (fun _ => 0) j) (fun _ => 0) i

/-- the eigendecomposition `(V ⊕ 1, w ⊕ 0)` of `blockdiag(C, 0)` built from one of `C` -/
def padEigh (k : ℕ) (e : EighOut α n) : EighOut α (n + k) where
  w := Fin.addCases e.w (fun _ => 0)
  V := fun i a => Fin.addCases
    (fun i' => Fin.addCases (fun a' => e.V i' a') (fun _ => 0) a)
    (fun i'' => Fin.addCases (fun _ => 0) (fun a'' => if i'' = a'' then 1 else 0) a) i

@[simp] theorem padFn_ll (k : ℕ) (f : Fin n → Fin n → α) (i j : Fin n) :
    padFn k f (Fin.castAdd k i) (Fin.castAdd k j) = f i j := by simp [padFn]
@[simp] theorem padFn_lr (k : ℕ) (f : Fin n → Fin n → α) (i : Fin n) (j : Fin k) :
    padFn k f (Fin.castAdd k i) (Fin.natAdd n j) = 0 := by simp [padFn]
@[simp] theorem padFn_r (k : ℕ) (f : Fin n → Fin n → α) (i : Fin k) (j : Fin (n + k)) :
    padFn k f (Fin.natAdd n i) j = 0 := by simp [padFn]

@[simp] theorem padEigh_w_l (k : ℕ) (e : EighOut α n) (a : Fin n) : (padEigh k e).w (Fin.castAdd k a) = e.w a := by
  simp [padEigh]
@[simp] theorem padEigh_w_r (k : ℕ) (e : EighOut α n) (a : Fin k) : (padEigh k e).w (Fin.natAdd n a) = 0 := by
  simp [padEigh]
@[simp] theorem padEigh_V_ll (k : ℕ) (e : EighOut α n) (i a : Fin n) :
    (padEigh k e).V (Fin.castAdd k i) (Fin.castAdd k a) = e.V i a := by simp [padEigh]
@[simp] theorem padEigh_V_lr (k : ℕ) (e : EighOut α n) (i : Fin n) (a : Fin k) :
    (padEigh k e).V (Fin.castAdd k i) (Fin.natAdd n a) = 0 := by simp [padEigh]
@[simp] theorem padEigh_V_rl (k : ℕ) (e : EighOut α n) (i : Fin k) (a : Fin n) :
    (padEigh k e).V (Fin.natAdd n i) (Fin.castAdd k a) = 0 := by simp [padEigh]
@[simp] theorem padEigh_V_rr (k : ℕ) (e : EighOut α n) (i a : Fin k) :
    (padEigh k e).V (Fin.natAdd n i) (Fin.natAdd n a) = if i = a then 1 else 0 := by simp [padEigh]

theorem castAdd_ne_natAdd (k : ℕ) (a : Fin n) (b : Fin k) : Fin.castAdd k a ≠ Fin.natAdd n b := by
  intro h
  have := congrArg Fin.val h
  simp at this
  omega

theorem one_apply_ll (k : ℕ) (a b : Fin n) :
    (1 : Matrix (Fin (n + k)) (Fin (n + k)) α) (Fin.castAdd k a) (Fin.castAdd k b) = if a = b then 1 else 0 := by
  simp [Matrix.one_apply, Fin.ext_iff]
theorem one_apply_rr (k : ℕ) (a b : Fin k) :
    (1 : Matrix (Fin (n + k)) (Fin (n + k)) α) (Fin.natAdd n a) (Fin.natAdd n b) = if a = b then 1 else 0 := by
  simp [Matrix.one_apply, Fin.ext_iff]
theorem one_apply_lr (k : ℕ) (a : Fin n) (b : Fin k) :
    (1 : Matrix (Fin (n + k)) (Fin (n + k)) α) (Fin.castAdd k a) (Fin.natAdd n b) = 0 := by
  rw [Matrix.one_apply, if_neg (castAdd_ne_natAdd k a b)]
theorem one_apply_rl (k : ℕ) (a : Fin k) (b : Fin n) :
    (1 : Matrix (Fin (n + k)) (Fin (n + k)) α) (Fin.natAdd n a) (Fin.castAdd k b) = 0 := by
  rw [Matrix.one_apply, if_neg (fun h => castAdd_ne_natAdd k b a h.symm)]

/-- the padded eigendecomposition meets the `eigh` specification for the padded statistics -/
theorem padEigh_spec (k : ℕ) (C : Matrix (Fin n) (Fin n) α) (e : EighOut α n) (hs : EighSpec C e) :
    EighSpec (Matrix.of (padFn k C)) (padEigh k e) where
  ortho := by
    have hO : ∀ a b : Fin n, ∑ i, e.V i a * e.V i b = if a = b then 1 else 0 := by
      intro a b
      have := congrFun (congrFun hs.ortho a) b
      simpa [Matrix.mul_apply, Matrix.one_apply] using this
    ext a b
    rw [Matrix.mul_apply, Fin.sum_univ_add]
    simp only [Matrix.transpose_apply, Matrix.of_apply]
    induction a using Fin.addCases with
    | left a =>
      induction b using Fin.addCases with
      | left b => simp [hO, one_apply_ll]
      | right b => simp [one_apply_lr]
    | right a =>
      induction b using Fin.addCases with
      | left b => simp [one_apply_rl]
      | right b => simp [one_apply_rr, eq_comm]
  recon := by
    have hR : ∀ i j : Fin n, ∑ a, e.V i a * e.w a * e.V j a = C i j := by
      intro i j
      have := congrFun (congrFun hs.recon i) j
      rw [FD.mdt_apply] at this
      simpa using this
    ext i j
    rw [FD.mdt_apply, Fin.sum_univ_add]
    simp only [Matrix.of_apply]
    induction i using Fin.addCases with
    | left i =>
      induction j using Fin.addCases with
      | left j => simp [hR]; exact (padFn_ll k C i j).symm
      | right j => simp; exact (padFn_lr k C i j).symm
    | right i => simp; exact (padFn_r k C i j).symm

/-- the largest eigenvalue is unchanged by the padding zeros (eigenvalues of statistics are non-negative) -/
theorem wmax_padEigh (k : ℕ) (e : EighOut α n) (hw : ∀ a, 0 ≤ e.w a) : wmax (padEigh k e).w = wmax e.w := by
  apply wmax_eq_of
  · intro a
    induction a using Fin.addCases with
    | left a => simpa using le_wmax e.w a
    | right a => simpa using wmax_nonneg e.w hw
  · rcases wmax_attained e.w with ⟨a, ha⟩ | ⟨h0, hz⟩
    · exact Or.inl ⟨Fin.castAdd k a, by simpa using ha⟩
    · by_cases hk : k = 0
      · exact Or.inr ⟨by omega, hz⟩
      · exact Or.inl ⟨Fin.natAdd n ⟨0, Nat.pos_of_ne_zero hk⟩, by rw [padEigh_w_r]; exact hz⟩

/-- the stored preconditioner of the padded decomposition is `blockdiag(root, 0)` -/
theorem rootOfEigh_padEigh (hp : α → α) (cut : α) (hcut : 0 ≤ cut) (k : ℕ) (e : EighOut α n) (hw : ∀ a, 0 ≤ e.w a) :
    rootOfEigh hp cut (padEigh k e) = padFn k (rootOfEigh hp cut e) := by
  have hl : ∀ a : Fin n, half hp cut (padEigh k e).w (Fin.castAdd k a) = half hp cut e.w a := by
    intro a; simp [half, kept, wmax_padEigh k e hw]
  have hr : ∀ a : Fin k, half hp cut (padEigh k e).w (Fin.natAdd n a) = 0 := by
    intro a
    have : ¬ (cut * wmax e.w < 0) := not_lt.mpr (mul_nonneg hcut (wmax_nonneg e.w hw))
    simp [half, kept, wmax_padEigh k e hw, this]
  funext i j
  simp only [rootOfEigh, FD.sumFin_eq]
  rw [Fin.sum_univ_add]
  simp only [hl, hr, zero_mul, Finset.sum_const_zero, add_zero]
  induction i using Fin.addCases with
  | left i =>
    induction j using Fin.addCases with
    | left j => simp [rootOfEigh, FD.sumFin_eq]
    | right j => simp
  | right i => simp

end Pad

section PadStats
open Matrix
variable {α : Type} [Field α] [LinearOrder α] [IsStrictOrderedRing α] {n : ℕ}

/-- the Gram matrix (statistics contribution) of a gradient with `k` zero-padded rows is `blockdiag(G Gᵀ, 0)` -/
theorem padFn_gram (k m : ℕ) (G : Fin n → Fin m → α) (G' : Fin (n + k) → Fin m → α)
    (hl : ∀ i c, G' (Fin.castAdd k i) c = G i c) (hr : ∀ i c, G' (Fin.natAdd n i) c = 0) :
    (fun i j => ∑ c, G' i c * G' j c) = padFn k (fun i j => ∑ c, G i c * G j c) := by
  funext i j
  induction i using Fin.addCases with
  | left i =>
    induction j using Fin.addCases with
    | left j => simp [hl]
    | right j => simp [hr]
  | right i => simp [hr]

/-- `_ema_update` of padded statistics is the padded `_ema_update` -/
theorem padFn_ema (k : ℕ) (decay : α) (S N : Fin n → Fin n → α) :
    (fun i j => emaScalar decay (padFn k S i j) (padFn k N i j)) = padFn k (fun i j => emaScalar decay (S i j) (N i j)) := by
  funext i j
  induction i using Fin.addCases with
  | left i =>
    induction j using Fin.addCases with
    | left j => simp
    | right j => simp [emaScalar]
  | right i => simp [emaScalar]

end PadStats

/-! ## Part 6 — statistics over histories and the refresh cadence of Tearfree Shampoo -/
open Finset
section Stats
variable {α : Type} [Field α] [LinearOrder α] [IsStrictOrderedRing α]

/-- one entry of one block statistic along a history: at update number `c` the entry becomes
`_ema_update(S, new c)` when `c % update_statistics_freq == 0` and stays otherwise (the gate of `shampooTx`) -/
def statRun (decay : α) (sf : ℕ) (new : ℕ → α) (S₀ : α) : ℕ → α
  | 0 => S₀
  | T + 1 => if T % sf = 0 then emaScalar decay (statRun decay sf new S₀ T) (new T) else statRun decay sf new S₀ T

/-- number of statistics refreshes among the updates `0 … t-1` -/
def refreshes (sf t : ℕ) : ℕ := ((range t).filter fun s => s % sf = 0).card

theorem refreshes_succ (sf t : ℕ) : refreshes sf (t + 1) = refreshes sf t + if t % sf = 0 then 1 else 0 := by
  unfold refreshes
  rw [range_add_one, filter_insert]
  split
  · rw [card_insert_of_notMem (by simp)]
  · simp

theorem refreshes_mono (sf : ℕ) {s t : ℕ} (h : s ≤ t) : refreshes sf s ≤ refreshes sf t := by
  unfold refreshes
  exact card_le_card (filter_subset_filter _ (range_mono h))

/-- **closed form, `second_moment_decay = 1`**: the statistic is the plain sum of the contributions of the refresh steps -/
theorem statRun_sum (sf : ℕ) (new : ℕ → α) (S₀ : α) (T : ℕ) :
    statRun 1 sf new S₀ T = S₀ + ∑ t ∈ range T, if t % sf = 0 then new t else 0 := by
  induction T with
  | zero => simp [statRun]
  | succ T ih =>
    rw [statRun, sum_range_succ, ih]
    split
    · simp [emaScalar]; ring
    · simp

/-- **closed form, `second_moment_decay = β ≠ 1`**: exponential moving average over the refresh steps only — a refresh at
step `t` enters with weight `(1-β)·β^(number of later refreshes)`; steps that are not refresh steps do not decay anything -/
theorem statRun_ema (β : α) (hβ : β ≠ 1) (sf : ℕ) (new : ℕ → α) (S₀ : α) (T : ℕ) :
    statRun β sf new S₀ T = β ^ refreshes sf T * S₀ +
      ∑ t ∈ range T, if t % sf = 0 then (1 - β) * β ^ (refreshes sf T - refreshes sf (t + 1)) * new t else 0 := by
  have hb : (β == 1) = false := by simpa using hβ
  induction T with
  | zero => simp [statRun, refreshes]
  | succ T ih =>
    rw [statRun, sum_range_succ, refreshes_succ]
    by_cases hT : T % sf = 0
    · simp only [hT, if_true, emaScalar, hb, Bool.false_eq_true, if_false, ih, Nat.sub_self, pow_zero, mul_one]
      have hsum : ∀ t ∈ range T,
          (if t % sf = 0 then (1 - β) * β ^ (refreshes sf T + 1 - refreshes sf (t + 1)) * new t else 0)
            = β * (if t % sf = 0 then (1 - β) * β ^ (refreshes sf T - refreshes sf (t + 1)) * new t else 0) := by
        intro t ht
        have hle : refreshes sf (t + 1) ≤ refreshes sf T := refreshes_mono sf (by simpa using mem_range.mp ht)
        split
        · rw [Nat.sub_add_comm hle, pow_succ]; ring
        · ring
      rw [sum_congr rfl hsum, ← mul_sum, pow_succ]
      ring
    · simp only [hT, if_false, add_zero, ih]

/-- with `update_statistics_freq = 1` every step refreshes: the familiar `Σ (1-β) β^(T-1-t) new_t` -/
theorem refreshes_one (t : ℕ) : refreshes 1 t = t := by
  unfold refreshes
  simp [Nat.mod_one]

end Stats

section Arrays
variable {α : Type} [Zero α] [One α] [Add α] [Sub α] [Mul α] [LT α] [DecidableLT α] [BEq α] [Max α]

theorem rd_tab (n : ℕ) (f : ℕ → α) (k : ℕ) (h : k < n) : rd (tab n f) k = f k := by
  simp [rd, tab, h]

/-- `_ema_update` acts entry by entry -/
theorem emaUpdate_get (decay : α) (old new : Array α) (k : ℕ) (h : k < old.size) :
    rd (emaUpdate decay old new) k = emaScalar decay (rd old k) (rd new k) :=
  rd_tab _ _ k h

variable {P : Type}

/-- **the cadence of `shampoo._update`** (ties C15 to C04): with `c = state.count`,
statistics are refreshed from this step's blocked gradient iff `c % update_statistics_freq = 0`; then — from the statistics
AFTER that refresh — the roots are recomputed iff `c % update_preconditioners_freq = 0`; the gradient is preconditioned
with the resulting roots; the count advances by one. -/
theorem shampoo_update_cadence (eigh : EighFn α) (hp : ℕ → α → α) (cut decay : α) (bs sf pf : ℕ) (ps : List ℕ)
    (u : List α) (st : ShState α) (x : P) :
    let m := Shapes.blocksMetadata bs ps
    let Bt := Shapes.blockify (ofFlatL ps u) m
    let xs := (List.range m.numBlocks).map fun n => extractBlock Bt.flat.toArray Bt.shape m.blockSizes m.blocksAxis n
    let bl₁ := if st.count % sf = 0 then List.zipWith (blockStatsUpdate decay m.blockSizes) xs st.blocks else st.blocks
    let bl₂ := if st.count % pf = 0 then bl₁.map (blockPrecondUpdate eigh (hp (shampooExponent ps)) cut m.blockSizes) else bl₁
    ((shampooTx (P := P) eigh hp cut decay bs sf pf ps).update u st x).2 = ⟨st.count + 1, bl₂⟩ ∧
    ((shampooTx (P := P) eigh hp cut decay bs sf pf ps).update u st x).1 =
      (Shapes.deblockify (ofFlat Bt.shape
        (assembleBlocks (List.zipWith (blockApply m.blockSizes) xs bl₂) Bt.shape m.blockSizes m.blocksAxis)) m).flat := by
  intro m Bt xs bl₁ bl₂
  exact ⟨rfl, rfl⟩

/-- on a preconditioner-refresh step every stored root is `_pth_inv_root` of the statistic stored NEXT TO it, i.e. of the
statistics after this step's update (never of the previous step's) -/
theorem refresh_roots_are_of_current_statistics (eigh : EighFn α) (hp : ℕ → α → α) (cut decay : α) (bs sf pf : ℕ)
    (ps : List ℕ) (u : List α) (st : ShState α) (x : P) (hpf : st.count % pf = 0) :
    ∀ b ∈ ((shampooTx (P := P) eigh hp cut decay bs sf pf ps).update u st x).2.blocks,
      b.roots = List.zipWith (fun d C => blockRoot eigh (hp (shampooExponent ps)) cut d C)
        (Shapes.blocksMetadata bs ps).blockSizes b.stats := by
  intro b hb
  simp only [shampooTx, hpf, if_true] at hb
  obtain ⟨b₀, _, rfl⟩ := List.mem_map.mp hb
  rfl

/-- on any other step the roots are carried over unchanged, whatever happens to the statistics -/
theorem nonrefresh_keeps_roots (eigh : EighFn α) (hp : ℕ → α → α) (cut decay : α) (bs sf pf : ℕ)
    (ps : List ℕ) (u : List α) (st : ShState α) (x : P) (hpf : st.count % pf ≠ 0)
    (hlen : st.blocks.length = (Shapes.blocksMetadata bs ps).numBlocks) :
    (((shampooTx (P := P) eigh hp cut decay bs sf pf ps).update u st x).2.blocks.map fun b => b.roots)
      = st.blocks.map fun b => b.roots := by
  simp only [shampooTx, hpf, if_false]
  split
  · apply List.ext_getElem
    · simp [hlen]
    · intro i h1 h2
      simp [blockStatsUpdate]
  · rfl

/-- and on a step that is not a statistics-refresh step the statistics are carried over unchanged -/
theorem nonrefresh_keeps_statistics (eigh : EighFn α) (hp : ℕ → α → α) (cut decay : α) (bs sf pf : ℕ)
    (ps : List ℕ) (u : List α) (st : ShState α) (x : P) (hsf : st.count % sf ≠ 0) :
    (((shampooTx (P := P) eigh hp cut decay bs sf pf ps).update u st x).2.blocks.map fun b => b.stats)
      = st.blocks.map fun b => b.stats := by
  simp only [shampooTx, hsf, if_false]
  split
  · simp [blockPrecondUpdate, Function.comp_def]
  · rfl

end Arrays

end PrecondVerif.Tearfree
