/-
Helper lemmas for the OCO model (property C16).

* generic part (any field): closed forms of the OGD and diagonal-AdaGrad folds, the `alpha`
  recurrence and the zero last row of the sketched update;
* matrix part (any linearly ordered field with trivial star that is a `StarOrderedRing`, e.g. ℝ, ℚ):
  the model's `Mat` is definitionally a Mathlib `Matrix`; under the SVD specification the deflation
  `s ↦ (s-ρ)(s+ρ)` removes exactly `σ_min² • VtᵀVt`, which gives the frequent-directions bracket;
* lossless part: the matrix form `appliedMatrix` of the code's preconditioned direction, its inverse-root identity
  `X·X·(αI + Pᵀdiag(s²)P) = 1` for orthonormal rows of `P`, the rank argument (`sigma_min_zero_of_factor`: a matrix
  that factors through fewer rows than the sketch size has smallest singular value 0) and the row-space invariant.
-/
import PrecondVerif.Model.OCO
import Mathlib.Algebra.BigOperators.Fin
import Mathlib.Algebra.Order.Field.Basic
import Mathlib.Tactic.Ring
import Mathlib.Tactic.Linarith
import Mathlib.LinearAlgebra.Matrix.PosDef
import Mathlib.LinearAlgebra.Matrix.Rank

set_option linter.unusedSectionVars false
set_option linter.overlappingInstances false

namespace PrecondVerif.OCO
open Finset Matrix

section Field
variable {α : Type} [Field α] {n : ℕ}

theorem sumFin_eq {m : ℕ} (f : Fin m → α) : sumFin f = ∑ i, f i := by
  rw [sumFin, Fin.sum_univ_def]

/-- the `k`-th gradient of a history (0-based), zero beyond its end -/
def hist (gs : List (Vec α n)) (k : ℕ) : Vec α n := gs.getD k (fun _ => 0)

@[simp] theorem hist_cons_zero (g : Vec α n) (gs : List (Vec α n)) : hist (g :: gs) 0 = g := rfl
@[simp] theorem hist_cons_succ (g : Vec α n) (gs : List (Vec α n)) (k : ℕ) :
    hist (g :: gs) (k + 1) = hist gs k := by simp [hist]

theorem ogdRunFrom_cons (rsqrt : α → α) (lr δ : α) (s : OgdState α n) (g : Vec α n) (gs : List (Vec α n)) :
    ogdRunFrom rsqrt lr δ s (g :: gs) = ogdRunFrom rsqrt lr δ (ogdUpdate rsqrt lr δ s g) gs := rfl

theorem ogdRunFrom_closed (rsqrt : α → α) (lr δ : α) (gs : List (Vec α n)) (s : OgdState α n) :
    (ogdRunFrom rsqrt lr δ s gs).t = s.t + gs.length ∧
    ∀ i, (ogdRunFrom rsqrt lr δ s gs).w i =
      s.w i - ∑ k ∈ range gs.length, lr * hist gs k i * rsqrt (s.t + ((k : α) + 1) + δ) := by
  induction gs generalizing s with
  | nil => simp [ogdRunFrom]
  | cons g gs ih =>
    rw [ogdRunFrom_cons]
    obtain ⟨ht, hw⟩ := ih (ogdUpdate rsqrt lr δ s g)
    refine ⟨?_, fun i => ?_⟩
    · rw [ht]; simp [ogdUpdate]; ring
    · rw [hw i, List.length_cons, sum_range_succ']
      simp only [ogdUpdate, force_eq, hist_cons_succ, hist_cons_zero, Nat.cast_add, Nat.cast_one,
        Nat.cast_zero, zero_add]
      have : ∀ k : ℕ, s.t + 1 + ((k : α) + 1) + δ = s.t + ((k : α) + 1 + 1) + δ := fun k => by ring
      simp only [this]
      ring
end Field

section Ada
variable {α : Type} [Field α] {n : ℕ}

theorem adaRunFrom_cons [BEq α] (rsqrt : α → α) (lr : α) (s : AdaState α n) (g : Vec α n) (gs : List (Vec α n)) :
    adaRunFrom rsqrt lr s (g :: gs) = adaRunFrom rsqrt lr (adaUpdate rsqrt lr s g) gs := rfl

theorem adaRunFrom_closed [BEq α] (rsqrt : α → α) (lr : α) (gs : List (Vec α n)) (s : AdaState α n) :
    ∀ i, (adaRunFrom rsqrt lr s gs).diagH i = s.diagH i + ∑ k ∈ range gs.length, hist gs k i ^ 2 ∧
      (adaRunFrom rsqrt lr s gs).w i = s.w i - ∑ k ∈ range gs.length,
        rsqrt (nzOr1 (s.diagH i + ∑ u ∈ range (k + 1), hist gs u i ^ 2)) * hist gs k i * lr := by
  induction gs generalizing s with
  | nil => intro i; simp [adaRunFrom]
  | cons g gs ih =>
    intro i
    rw [adaRunFrom_cons]
    obtain ⟨hh, hw⟩ := ih (adaUpdate rsqrt lr s g) i
    have inner : ∀ k : ℕ, ∑ u ∈ range (k + 1), hist (g :: gs) u i ^ 2
        = g i ^ 2 + ∑ u ∈ range k, hist gs u i ^ 2 := fun k => by
      rw [sum_range_succ']; simp [add_comm]
    refine ⟨?_, ?_⟩
    · rw [hh, List.length_cons, inner]
      simp only [adaUpdate, force_eq]; ring
    · rw [hw, List.length_cons, sum_range_succ']
      simp only [inner, zero_add]
      simp only [hist_cons_succ, hist_cons_zero, adaUpdate, force_eq, range_zero, sum_empty, add_zero, pow_two,
        add_assoc]
      ring
end Ada

section FD
variable {α : Type} [Field α] [LinearOrder α] {k n : ℕ}
variable (svd : SvdFn α (k + 1) n) (sqrt rsqrt : α → α) (algo : Algo) (lr : α)

theorem factors_alphaF (t : α) : (factors sqrt rsqrt algo t lr).alphaF = alphaFactor algo := by
  cases algo <;> rfl

theorem factors_sketch (t : α) : (factors sqrt rsqrt algo t lr).sketch = sketchFactor sqrt rsqrt algo t lr := by
  cases algo <;> rfl

theorem fdUpdate_P (st : FdState α k n) (g : Vec α n) :
    (fdUpdate svd sqrt rsqrt algo lr st g).P = (svd (fdB sqrt rsqrt algo lr st g)).Vt := rfl

theorem fdUpdate_t (st : FdState α k n) (g : Vec α n) :
    (fdUpdate svd sqrt rsqrt algo lr st g).t = st.t + 1 := rfl

theorem fdUpdate_e (st : FdState α k n) (g : Vec α n) (i : Fin (k + 1)) :
    (fdUpdate svd sqrt rsqrt algo lr st g).e i =
      sqrt (deflate (svd (fdB sqrt rsqrt algo lr st g)).s (fdSigmaMin svd sqrt rsqrt algo lr st g) i) := by
  simp [fdUpdate, fdSigmaMin]

theorem fdUpdate_e_last (st : FdState α k n) (g : Vec α n) :
    (fdUpdate svd sqrt rsqrt algo lr st g).e (Fin.last k) = sqrt 0 := by
  rw [fdUpdate_e]; simp [deflate, fdSigmaMin]

theorem fdUpdate_alpha (st : FdState α k n) (g : Vec α n) :
    (fdUpdate svd sqrt rsqrt algo lr st g).alpha
      = st.alpha + alphaFactor algo * fdRho svd sqrt rsqrt algo lr st g := by
  simp [fdUpdate, fdRho, fdSigmaMin, factors_alphaF]

theorem fdRunFrom_cons (st : FdState α k n) (g : Vec α n) (gs : List (Vec α n)) :
    fdRunFrom svd sqrt rsqrt algo lr st (g :: gs)
      = fdRunFrom svd sqrt rsqrt algo lr (fdUpdate svd sqrt rsqrt algo lr st g) gs := rfl

theorem fdRunFrom_concat (st : FdState α k n) (gs : List (Vec α n)) (g : Vec α n) :
    fdRunFrom svd sqrt rsqrt algo lr st (gs ++ [g])
      = fdUpdate svd sqrt rsqrt algo lr (fdRunFrom svd sqrt rsqrt algo lr st gs) g := by
  simp [fdRunFrom, List.foldl_append]

theorem fdRunFrom_alpha (gs : List (Vec α n)) (st : FdState α k n) :
    (fdRunFrom svd sqrt rsqrt algo lr st gs).alpha
      = st.alpha + alphaFactor algo * (fdRhosFrom svd sqrt rsqrt algo lr st gs).sum := by
  induction gs generalizing st with
  | nil => simp [fdRunFrom, fdRhosFrom]
  | cons g gs ih =>
    rw [fdRunFrom_cons, ih, fdUpdate_alpha]
    simp only [fdRhosFrom, List.sum_cons]
    ring

theorem fdRunFrom_last_row (hsqrt : sqrt 0 = 0) (gs : List (Vec α n)) (st : FdState α k n)
    (h0 : ∀ j, sketchRows st (Fin.last k) j = 0) (j : Fin n) :
    sketchRows (fdRunFrom svd sqrt rsqrt algo lr st gs) (Fin.last k) j = 0 := by
  rcases List.eq_nil_or_concat gs with rfl | ⟨gs', g, rfl⟩
  · exact h0 j
  · rw [List.concat_eq_append, fdRunFrom_concat]
    simp [sketchRows, fdUpdate_e_last, hsqrt]

end FD

section Mat
variable {R : Type} [Field R] [LinearOrder R] [IsStrictOrderedRing R] [StarRing R] [TrivialStar R] [StarOrderedRing R]
variable {m n k : ℕ}

/-- a model matrix as a Mathlib matrix (definitionally the same function) -/
def toM (A : Mat R m n) : Matrix (Fin m) (Fin n) R := Matrix.of A

@[simp] theorem toM_apply (A : Mat R m n) (i : Fin m) (j : Fin n) : toM A i j = A i j := rfl

/-- second-moment matrix `Aᵀ A` denoted by the rows of `A` -/
def gram (A : Mat R m n) : Matrix (Fin n) (Fin n) R := (toM A)ᵀ * toM A

theorem gram_apply (A : Mat R m n) (a b : Fin n) : gram A a b = ∑ i, A i a * A i b := by
  simp [gram, Matrix.mul_apply]

/-- matrix form of the SVD specification -/
theorem SvdSpec.matrix_form {B : Mat R m n} {o : SvdOut R m n} (h : SvdSpec B o) :
    toM B = toM o.U * diagonal o.s * toM o.Vt ∧ toM o.Vt * (toM o.Vt)ᵀ = 1 ∧ (toM o.U)ᵀ * toM o.U = 1 := by
  refine ⟨?_, ?_, ?_⟩
  · ext i j
    rw [toM_apply, h.recon i j, sumFin_eq, Matrix.mul_apply]
    simp [Matrix.mul_diagonal]
  · ext a b
    have := h.vOrtho a b
    rw [sumFin_eq] at this
    simp [Matrix.mul_apply, Matrix.one_apply, this]
  · ext a b
    have := h.uOrtho a b
    rw [sumFin_eq] at this
    simp [Matrix.mul_apply, Matrix.one_apply, this]

theorem gram_of_svd {B : Mat R m n} {o : SvdOut R m n} (h : SvdSpec B o) :
    gram B = (toM o.Vt)ᵀ * diagonal (fun i => o.s i * o.s i) * toM o.Vt := by
  obtain ⟨hB, -, hU⟩ := h.matrix_form
  unfold gram
  rw [hB, Matrix.transpose_mul, Matrix.transpose_mul, diagonal_transpose]
  calc (toM o.Vt)ᵀ * (diagonal o.s * (toM o.U)ᵀ) * (toM o.U * diagonal o.s * toM o.Vt)
      = (toM o.Vt)ᵀ * (diagonal o.s * ((toM o.U)ᵀ * toM o.U) * diagonal o.s) * toM o.Vt := by
        simp only [Matrix.mul_assoc]
    _ = _ := by rw [hU, Matrix.mul_one, diagonal_mul_diagonal]

/-- rows `e i • Vt i` have second moment `Vtᵀ diag(e²) Vt` -/
theorem gram_scaled_rows (Vt : Mat R m n) (e : Vec R m) :
    gram (fun i j => Vt i j * e i) = (toM Vt)ᵀ * diagonal (fun i => e i * e i) * toM Vt := by
  have : toM (fun i j => Vt i j * e i) = diagonal e * toM Vt := by
    ext i j; simp [Matrix.diagonal_mul, mul_comm]
  unfold gram
  rw [this, Matrix.transpose_mul, diagonal_transpose]
  calc (toM Vt)ᵀ * diagonal e * (diagonal e * toM Vt)
      = (toM Vt)ᵀ * (diagonal e * diagonal e) * toM Vt := by simp only [Matrix.mul_assoc]
    _ = _ := by rw [diagonal_mul_diagonal]

/-- `VtᵀVt` and `1 - VtᵀVt` are positive semidefinite when the rows of `Vt` are orthonormal -/
theorem proj_psd (V : Matrix (Fin m) (Fin n) R) : (Vᵀ * V).PosSemidef := by
  simpa using posSemidef_conjTranspose_mul_self V

theorem one_sub_proj_psd (V : Matrix (Fin m) (Fin n) R) (hV : V * Vᵀ = 1) :
    (1 - Vᵀ * V).PosSemidef := by
  have hid : (1 - Vᵀ * V)ᵀ * (1 - Vᵀ * V) = 1 - Vᵀ * V := by
    have hsym : (1 - Vᵀ * V)ᵀ = 1 - Vᵀ * V := by
      simp [Matrix.transpose_sub, Matrix.transpose_mul]
    have : Vᵀ * V * (Vᵀ * V) = Vᵀ * V := by
      calc Vᵀ * V * (Vᵀ * V) = Vᵀ * (V * Vᵀ) * V := by simp only [Matrix.mul_assoc]
        _ = _ := by rw [hV, Matrix.mul_one]
    rw [hsym]
    simp only [sub_mul, mul_sub, one_mul, mul_one, this]
    abel
  rw [← hid]
  have := posSemidef_conjTranspose_mul_self (1 - Vᵀ * V)
  rwa [conjTranspose_eq_transpose_of_trivial] at this


theorem gram_setLastRow (A : Mat R (k + 1) n) (r : Vec R n) (h0 : ∀ j, A (Fin.last k) j = 0) :
    gram (setLastRow A r) = gram A + vecMulVec r r := by
  ext a b
  rw [Matrix.add_apply, gram_apply, gram_apply, Fin.sum_univ_castSucc, Fin.sum_univ_castSucc]
  have hne : ∀ i : Fin k, (Fin.castSucc i) ≠ Fin.last k := fun i => Fin.castSucc_ne_last i
  simp [setLastRow, hne, h0, vecMulVec_apply]

variable (svd : SvdFn R (k + 1) n) (sqrt rsqrt : R → R) (algo : Algo) (lr : R)

/-- the deflation identity of one sketched update: with any SVD meeting its specification,
`gram B - gram rows' = ρ • VtᵀVt` where `ρ = σ_min²`. -/
theorem fd_deflation (hsq : ∀ x, 0 ≤ x → sqrt x * sqrt x = x) (st : FdState R k n) (g : Vec R n)
    (h : SvdSpec (fdB sqrt rsqrt algo lr st g) (svd (fdB sqrt rsqrt algo lr st g))) :
    gram (fdB sqrt rsqrt algo lr st g) - gram (sketchRows (fdUpdate svd sqrt rsqrt algo lr st g))
      = fdRho svd sqrt rsqrt algo lr st g •
          ((toM (svd (fdB sqrt rsqrt algo lr st g)).Vt)ᵀ * toM (svd (fdB sqrt rsqrt algo lr st g)).Vt) := by
  set B := fdB sqrt rsqrt algo lr st g with hB
  set o := svd B with ho
  have hrows : sketchRows (fdUpdate svd sqrt rsqrt algo lr st g)
      = fun i j => o.Vt i j * sqrt (deflate o.s (o.s (Fin.last k)) i) := by
    funext i j
    simp [sketchRows, fdUpdate, ← hB, ← ho]
  have hdef : ∀ i, 0 ≤ deflate o.s (o.s (Fin.last k)) i := fun i => by
    have h1 : o.s (Fin.last k) ≤ o.s i := h.sorted i (Fin.last k) (Fin.le_last i)
    have h2 : 0 ≤ o.s (Fin.last k) := h.nonneg _
    exact mul_nonneg (by linarith) (by linarith)
  have he : (fun i => sqrt (deflate o.s (o.s (Fin.last k)) i) * sqrt (deflate o.s (o.s (Fin.last k)) i))
      = fun i => o.s i * o.s i - o.s (Fin.last k) * o.s (Fin.last k) := by
    funext i; rw [hsq _ (hdef i)]; simp only [deflate]; ring
  rw [hrows, gram_scaled_rows, gram_of_svd h, he]
  have hρ : fdRho svd sqrt rsqrt algo lr st g = o.s (Fin.last k) * o.s (Fin.last k) := rfl
  rw [hρ, ← Matrix.sub_mul, ← Matrix.mul_sub, diagonal_sub]
  simp only [sub_sub_cancel]
  rw [← smul_one_eq_diagonal]
  simp

theorem fdRho_nonneg (st : FdState R k n) (g : Vec R n) : 0 ≤ fdRho svd sqrt rsqrt algo lr st g :=
  mul_self_nonneg _


theorem gram_fdB (st : FdState R k n) (g : Vec R n) (h0 : ∀ j, sketchRows st (Fin.last k) j = 0) :
    gram (fdB sqrt rsqrt algo lr st g) = gram (sketchRows st) +
      vecMulVec (gradInput (sketchFactor sqrt rsqrt algo (st.t + 1) lr) g)
        (gradInput (sketchFactor sqrt rsqrt algo (st.t + 1) lr) g) := by
  rw [fdB, forceM_eq, gram_setLastRow _ _ h0]

/-- exact second moment `Σ r rᵀ` of a list of vectors -/
def inputsCov (l : List (Vec R n)) : Matrix (Fin n) (Fin n) R := (l.map fun r => vecMulVec r r).sum

/-- the SVD kernel meets its specification on every matrix it is called with along the history -/
def SvdAlong : FdState R k n → List (Vec R n) → Prop
  | _, [] => True
  | st, g :: gs => SvdSpec (fdB sqrt rsqrt algo lr st g) (svd (fdB sqrt rsqrt algo lr st g)) ∧
      SvdAlong (fdUpdate svd sqrt rsqrt algo lr st g) gs

theorem fd_bracket_step (hsq : ∀ x, 0 ≤ x → sqrt x * sqrt x = x) (st : FdState R k n) (g : Vec R n)
    (h0 : ∀ j, sketchRows st (Fin.last k) j = 0)
    (h : SvdSpec (fdB sqrt rsqrt algo lr st g) (svd (fdB sqrt rsqrt algo lr st g)))
    (C : Matrix (Fin n) (Fin n) R) (a : R)
    (hlo : (C - gram (sketchRows st)).PosSemidef)
    (hhi : (gram (sketchRows st) + a • (1 : Matrix (Fin n) (Fin n) R) - C).PosSemidef) :
    let gin := gradInput (sketchFactor sqrt rsqrt algo (st.t + 1) lr) g
    let st' := fdUpdate svd sqrt rsqrt algo lr st g
    let ρ := fdRho svd sqrt rsqrt algo lr st g
    (C + vecMulVec gin gin - gram (sketchRows st')).PosSemidef ∧
    (gram (sketchRows st') + (a + ρ) • (1 : Matrix (Fin n) (Fin n) R) - (C + vecMulVec gin gin)).PosSemidef := by
  intro gin st' ρ
  have hd := fd_deflation svd sqrt rsqrt algo lr hsq st g h
  have hg := gram_fdB sqrt rsqrt algo lr st g h0
  have hV := h.matrix_form.2.1
  set V := toM (svd (fdB sqrt rsqrt algo lr st g)).Vt
  have hρ : 0 ≤ ρ := fdRho_nonneg svd sqrt rsqrt algo lr st g
  constructor
  · have : C + vecMulVec gin gin - gram (sketchRows st')
        = (C - gram (sketchRows st)) + ρ • (Vᵀ * V) := by
      rw [← hd, hg]; abel
    rw [this]
    exact hlo.add ((proj_psd V).smul hρ)
  · have : gram (sketchRows st') + (a + ρ) • (1 : Matrix (Fin n) (Fin n) R) - (C + vecMulVec gin gin)
        = (gram (sketchRows st) + a • (1 : Matrix (Fin n) (Fin n) R) - C) + ρ • (1 - Vᵀ * V) := by
      rw [smul_sub, ← hd, hg, add_smul]; abel
    rw [this]
    exact hhi.add ((one_sub_proj_psd V hV).smul hρ)

theorem sqrt_zero_of_spec (hsq : ∀ x, 0 ≤ x → sqrt x * sqrt x = x) : sqrt 0 = 0 :=
  mul_self_eq_zero.mp (hsq 0 le_rfl)


theorem fdUpdate_last_row (hs0 : sqrt 0 = 0) (st : FdState R k n) (g : Vec R n) (j : Fin n) :
    sketchRows (fdUpdate svd sqrt rsqrt algo lr st g) (Fin.last k) j = 0 := by
  simp [sketchRows, fdUpdate, deflate, hs0]

@[simp] theorem inputsCov_nil : inputsCov ([] : List (Vec R n)) = 0 := rfl
@[simp] theorem inputsCov_cons (r : Vec R n) (l : List (Vec R n)) :
    inputsCov (r :: l) = vecMulVec r r + inputsCov l := by simp [inputsCov]

theorem fd_bracket_from (hsq : ∀ x, 0 ≤ x → sqrt x * sqrt x = x) (gs : List (Vec R n)) :
    ∀ (st : FdState R k n), (∀ j, sketchRows st (Fin.last k) j = 0) →
    SvdAlong svd sqrt rsqrt algo lr st gs →
    ∀ (C : Matrix (Fin n) (Fin n) R) (a : R), (C - gram (sketchRows st)).PosSemidef →
    (gram (sketchRows st) + a • (1 : Matrix (Fin n) (Fin n) R) - C).PosSemidef →
    (C + inputsCov (fdInputsFrom svd sqrt rsqrt algo lr st gs)
      - gram (sketchRows (fdRunFrom svd sqrt rsqrt algo lr st gs))).PosSemidef ∧
    (gram (sketchRows (fdRunFrom svd sqrt rsqrt algo lr st gs))
      + (a + (fdRhosFrom svd sqrt rsqrt algo lr st gs).sum) • (1 : Matrix (Fin n) (Fin n) R)
      - (C + inputsCov (fdInputsFrom svd sqrt rsqrt algo lr st gs))).PosSemidef := by
  induction gs with
  | nil =>
    intro st _ _ C a hlo hhi
    simpa [fdRunFrom, fdInputsFrom, fdRhosFrom] using And.intro hlo hhi
  | cons g gs ih =>
    intro st h0 hs C a hlo hhi
    obtain ⟨h1, h2⟩ := fd_bracket_step svd sqrt rsqrt algo lr hsq st g h0 hs.1 C a hlo hhi
    have := ih (fdUpdate svd sqrt rsqrt algo lr st g)
      (fdUpdate_last_row svd sqrt rsqrt algo lr (sqrt_zero_of_spec sqrt hsq) st g) hs.2 _ _ h1 h2
    simpa [fdRunFrom, fdInputsFrom, fdRhosFrom, add_assoc] using this

end Mat

/-! ### lossless S-AdaGrad -/

section A
variable {R : Type} [Field R] [LinearOrder R] [IsStrictOrderedRing R] [StarRing R] [TrivialStar R] [StarOrderedRing R]
variable {m n k : ℕ}

theorem matVec_eq (P : Mat R m n) (g : Vec R n) : matVec P g = toM P *ᵥ g := by
  funext i; simp [matVec, sumFin_eq, mulVec, dotProduct]

theorem tMatVec_eq (P : Mat R m n) (c : Vec R m) : tMatVec P c = (toM P)ᵀ *ᵥ c := by
  funext j; simp [tMatVec, sumFin_eq, mulVec, dotProduct]

/-- the matrix `_fd_update_fn` applies to the gradient in its `else` branch -/
def appliedMatrix (inv : R → R) (alpha : R) (P : Mat R m n) (s2 : Vec R m) : Matrix (Fin n) (Fin n) R :=
  (toM P)ᵀ * diagonal (fun i => safeInvert inv (alpha + s2 i)) * toM P
    + safeInvert inv alpha • (1 - (toM P)ᵀ * toM P)

theorem precondGeneric_eq (inv : R → R) (alpha : R) (P : Mat R m n) (s2 : Vec R m) (g : Vec R n) :
    precondGeneric inv alpha P s2 g = appliedMatrix inv alpha P s2 *ᵥ g := by
  funext j
  simp only [precondGeneric, force_eq, matVec_eq, tMatVec_eq, appliedMatrix]
  have h1 : (fun i => safeInvert inv (alpha + s2 i) * (toM P *ᵥ g) i)
      = diagonal (fun i => safeInvert inv (alpha + s2 i)) *ᵥ (toM P *ᵥ g) := by
    funext i; rw [mulVec_diagonal]
  rw [h1]
  simp only [add_mulVec, smul_mulVec, sub_mulVec, one_mulVec, mulVec_mulVec, Matrix.mul_assoc,
    Pi.add_apply, Pi.smul_apply, Pi.sub_apply, smul_eq_mul]

variable (P : Matrix (Fin m) (Fin n) R) (hP : P * Pᵀ = 1)
include hP

theorem sandwich_mul (D E : Matrix (Fin m) (Fin m) R) : (Pᵀ * D * P) * (Pᵀ * E * P) = Pᵀ * (D * E) * P := by
  calc (Pᵀ * D * P) * (Pᵀ * E * P) = Pᵀ * D * (P * Pᵀ) * E * P := by simp only [Matrix.mul_assoc]
    _ = _ := by rw [hP]; simp only [Matrix.mul_one, Matrix.mul_assoc]

theorem sandwich_mul_compl (D : Matrix (Fin m) (Fin m) R) : (Pᵀ * D * P) * (1 - Pᵀ * P) = 0 := by
  rw [mul_sub, mul_one]
  have : (Pᵀ * D * P) * (Pᵀ * P) = Pᵀ * D * P := by
    calc (Pᵀ * D * P) * (Pᵀ * P) = Pᵀ * D * (P * Pᵀ) * P := by simp only [Matrix.mul_assoc]
      _ = _ := by rw [hP, Matrix.mul_one]
  rw [this, sub_self]

theorem compl_mul_sandwich (D : Matrix (Fin m) (Fin m) R) : (1 - Pᵀ * P) * (Pᵀ * D * P) = 0 := by
  rw [sub_mul, one_mul]
  have : (Pᵀ * P) * (Pᵀ * D * P) = Pᵀ * D * P := by
    calc (Pᵀ * P) * (Pᵀ * D * P) = Pᵀ * (P * Pᵀ) * D * P := by simp only [Matrix.mul_assoc]
      _ = _ := by rw [hP, Matrix.mul_one]
  rw [this, sub_self]

theorem compl_idem : (1 - Pᵀ * P) * (1 - Pᵀ * P) = 1 - Pᵀ * P := by
  have : Pᵀ * P * (Pᵀ * P) = Pᵀ * P := by
    calc Pᵀ * P * (Pᵀ * P) = Pᵀ * (P * Pᵀ) * P := by simp only [Matrix.mul_assoc]
      _ = _ := by rw [hP, Matrix.mul_one]
  simp only [sub_mul, mul_sub, one_mul, mul_one, this]
  abel

/-- `X = Pᵀ diag(r) P + c (1 - PᵀP)` squared times `a (1 - PᵀP) + Pᵀ diag(d) P` when `r² d = 1`, `c² a = 1` -/
theorem inverse_root_identity (r d : Fin m → R) (c a : R) (hr : ∀ i, r i * r i * d i = 1) (hc : c * c * a = 1) :
    (Pᵀ * diagonal r * P + c • (1 - Pᵀ * P)) * (Pᵀ * diagonal r * P + c • (1 - Pᵀ * P))
      * (a • (1 - Pᵀ * P) + Pᵀ * diagonal d * P) = 1 := by
  have e1 := sandwich_mul P hP
  have e2 := sandwich_mul_compl P hP
  have e3 := compl_mul_sandwich P hP
  have e4 := compl_idem P hP
  have hXX : (Pᵀ * diagonal r * P + c • (1 - Pᵀ * P)) * (Pᵀ * diagonal r * P + c • (1 - Pᵀ * P))
      = Pᵀ * (diagonal r * diagonal r) * P + (c * c) • (1 - Pᵀ * P) := by
    simp only [add_mul, mul_add, smul_mul_assoc, mul_smul_comm, e1, e2, e3, e4, smul_zero, add_zero, zero_add,
      smul_smul]
  rw [hXX]
  simp only [add_mul, mul_add, smul_mul_assoc, mul_smul_comm, e1, e2, e3, e4, smul_zero, add_zero, zero_add,
    smul_smul, diagonal_mul_diagonal]
  have hd : (fun i => r i * r i * d i) = fun _ => (1 : R) := funext hr
  have hc' : a * (c * c) = 1 := by rw [mul_comm]; exact hc
  rw [hd, hc', one_smul]
  have : (diagonal fun _ : Fin m => (1 : R)) = 1 := by ext i j; simp [diagonal, Matrix.one_apply]
  rw [this, Matrix.mul_one]
  abel


omit hP in
theorem safeInvert_nonneg (rsqrt : R → R) (hrs : ∀ x, 0 < x → 0 < rsqrt x) (x : R) : 0 ≤ safeInvert rsqrt x := by
  unfold safeInvert
  split
  · exact le_rfl
  · exact (hrs x (lt_of_not_ge ‹_›)).le

omit hP in
theorem safeInvert_pos (rsqrt : R → R) {x : R} (hx : 0 < x) : safeInvert rsqrt x = rsqrt x := by
  unfold safeInvert
  rw [if_neg (not_le.mpr hx)]

end A

section A2
variable {R : Type} [Field R] [LinearOrder R] [IsStrictOrderedRing R] [StarRing R] [TrivialStar R] [StarOrderedRing R]
variable {m n k : ℕ}

theorem appliedMatrix_psd (rsqrt : R → R) (hrs : ∀ x, 0 < x → 0 < rsqrt x) (alpha : R) (P : Mat R m n)
    (s2 : Vec R m) (hP : toM P * (toM P)ᵀ = 1) : (appliedMatrix rsqrt alpha P s2).PosSemidef := by
  unfold appliedMatrix
  refine PosSemidef.add ?_ ((one_sub_proj_psd (toM P) hP).smul (safeInvert_nonneg rsqrt hrs alpha))
  have hd : (diagonal fun i => safeInvert rsqrt (alpha + s2 i)).PosSemidef :=
    PosSemidef.diagonal fun i => safeInvert_nonneg rsqrt hrs _
  have := hd.mul_mul_conjTranspose_same (toM P)ᵀ
  simpa using this

theorem appliedMatrix_inverse_root (rsqrt : R → R)
    (hrs : ∀ x, 0 < x → 0 < rsqrt x ∧ rsqrt x * rsqrt x * x = 1) (alpha : R) (hα : 0 < alpha)
    (P : Mat R m n) (s2 : Vec R m) (hs2 : ∀ i, 0 ≤ s2 i) (hP : toM P * (toM P)ᵀ = 1) :
    appliedMatrix rsqrt alpha P s2 * appliedMatrix rsqrt alpha P s2
      * (alpha • (1 : Matrix (Fin n) (Fin n) R) + (toM P)ᵀ * diagonal s2 * toM P) = 1 := by
  have hdec : alpha • (1 : Matrix (Fin n) (Fin n) R) + (toM P)ᵀ * diagonal s2 * toM P
      = alpha • (1 - (toM P)ᵀ * toM P) + (toM P)ᵀ * diagonal (fun i => alpha + s2 i) * toM P := by
    have : diagonal (fun i => alpha + s2 i) = alpha • (1 : Matrix (Fin m) (Fin m) R) + diagonal s2 := by
      ext i j; by_cases h : i = j <;> simp [diagonal, h]
    rw [this, Matrix.mul_add, Matrix.add_mul, smul_sub]
    simp only [Matrix.mul_smul, Matrix.smul_mul, Matrix.mul_one]
    abel
  rw [hdec]
  unfold appliedMatrix
  exact inverse_root_identity (toM P) hP _ _ _ _
    (fun i => by
      have hp : 0 < alpha + s2 i := by have := hs2 i; linarith
      rw [safeInvert_pos rsqrt hp]; exact (hrs _ hp).2)
    (by rw [safeInvert_pos rsqrt hα]; exact (hrs _ hα).2)

end A2

section B
variable {R : Type} [Field R] [LinearOrder R] [IsStrictOrderedRing R] [StarRing R] [TrivialStar R] [StarOrderedRing R]
variable {n k : ℕ}
variable (svd : SvdFn R (k + 1) n) (sqrt rsqrt : R → R) (algo : Algo) (lr : R)

/-- a step without escaped mass is exact: the new sketch has the second moment of `B` -/
theorem fd_exact_step (hsq : ∀ x, 0 ≤ x → sqrt x * sqrt x = x) (st : FdState R k n) (g : Vec R n)
    (h0 : ∀ j, sketchRows st (Fin.last k) j = 0)
    (h : SvdSpec (fdB sqrt rsqrt algo lr st g) (svd (fdB sqrt rsqrt algo lr st g)))
    (hρ : fdRho svd sqrt rsqrt algo lr st g = 0) :
    gram (sketchRows (fdUpdate svd sqrt rsqrt algo lr st g)) = gram (sketchRows st) +
      vecMulVec (gradInput (sketchFactor sqrt rsqrt algo (st.t + 1) lr) g)
        (gradInput (sketchFactor sqrt rsqrt algo (st.t + 1) lr) g) := by
  have hd := fd_deflation svd sqrt rsqrt algo lr hsq st g h
  rw [hρ, zero_smul, sub_eq_zero] at hd
  rw [← hd, gram_fdB sqrt rsqrt algo lr st g h0]

theorem fdInputsFrom_sAda (gs : List (Vec R n)) (st : FdState R k n) :
    fdInputsFrom svd sqrt rsqrt .sAda lr st gs = gs := by
  induction gs generalizing st with
  | nil => rfl
  | cons g gs ih =>
    simp only [fdInputsFrom, ih]
    congr 1
    funext j; simp [gradInput, sketchFactor]

/-- the SVD returns a zero smallest singular value on a matrix that factors through `r < k+1` rows -/
theorem sigma_min_zero_of_factor {B : Mat R (k + 1) n} {o : SvdOut R (k + 1) n} (h : SvdSpec B o) {r : ℕ}
    (hr : r < k + 1) (Cf : Matrix (Fin (k + 1)) (Fin r) R) (W : Matrix (Fin r) (Fin n) R)
    (hB : toM B = Cf * W) : o.s (Fin.last k) = 0 := by
  by_contra hne
  obtain ⟨hrec, hV, hU⟩ := h.matrix_form
  have hpos : ∀ i, o.s i ≠ 0 := fun i => by
    have h1 : o.s (Fin.last k) ≤ o.s i := h.sorted i (Fin.last k) (Fin.le_last i)
    have h2 : 0 ≤ o.s (Fin.last k) := h.nonneg _
    have h3 : 0 < o.s (Fin.last k) := lt_of_le_of_ne h2 (Ne.symm hne)
    exact (lt_of_lt_of_le h3 h1).ne'
  have hUD : toM B * (toM o.Vt)ᵀ = toM o.U * diagonal o.s := by
    rw [hrec, Matrix.mul_assoc, hV, Matrix.mul_one]
  have hdet : (toM o.U * diagonal o.s).det ≠ 0 := by
    rw [det_mul, det_diagonal]
    refine mul_ne_zero ?_ (Finset.prod_ne_zero_iff.mpr fun i _ => hpos i)
    intro h0
    have := congrArg det hU
    rw [det_mul, det_transpose, h0, mul_zero, det_one] at this
    exact zero_ne_one this
  have hrank := rank_of_det_ne_zero hdet
  rw [← hUD, hB, Matrix.mul_assoc, Fintype.card_fin] at hrank
  have hle : (Cf * (W * (toM o.Vt)ᵀ)).rank ≤ r :=
    (rank_mul_le_left _ _).trans (rank_le_width Cf)
  omega


/-- `sqrt (x * x) = x` for `x ≥ 0` from the kernel specification -/
theorem sqrt_mul_self_of_spec (hsq : ∀ x, 0 ≤ x → sqrt x * sqrt x = x) (hsq0 : ∀ x, 0 ≤ x → 0 ≤ sqrt x)
    {x : R} (hx : 0 ≤ x) : sqrt (x * x) = x := by
  have h1 := hsq (x * x) (mul_self_nonneg x)
  have h2 := hsq0 (x * x) (mul_self_nonneg x)
  rcases mul_self_eq_mul_self_iff.mp h1 with h | h
  · exact h
  · linarith

/-- the rows of the sketch lie in the row space of `W` -/
def InSpan {r : ℕ} (W : Matrix (Fin r) (Fin n) R) (st : FdState R k n) : Prop :=
  ∃ C : Matrix (Fin (k + 1)) (Fin r) R, toM (sketchRows st) = C * W

theorem fdB_factor {r : ℕ} (W : Matrix (Fin r) (Fin n) R) (st : FdState R k n) (g : Vec R n)
    (hst : InSpan W st) (hg : ∃ c : Fin r → R, g = c ᵥ* W) :
    ∃ Cf : Matrix (Fin (k + 1)) (Fin r) R, toM (fdB sqrt rsqrt algo lr st g) = Cf * W := by
  obtain ⟨C, hC⟩ := hst
  obtain ⟨c, rfl⟩ := hg
  refine ⟨Matrix.of fun i l => if i = Fin.last k then c l * sketchFactor sqrt rsqrt algo (st.t + 1) lr else C i l, ?_⟩
  ext i j
  have hCij : sketchRows st i j = ∑ l, C i l * W l j := by
    have := congrFun (congrFun hC i) j
    simpa [Matrix.mul_apply] using this
  by_cases hi : i = Fin.last k
  · simp [fdB, setLastRow, gradInput, hi, Matrix.mul_apply, vecMul, dotProduct, Finset.sum_mul, mul_right_comm]
  · simp [fdB, setLastRow, hi, Matrix.mul_apply, hCij]

/-- one lossless step: no escaped mass, and the new sketch rows stay in the row space -/
theorem fd_lossless_step (hsq : ∀ x, 0 ≤ x → sqrt x * sqrt x = x) (hsq0 : ∀ x, 0 ≤ x → 0 ≤ sqrt x)
    {r : ℕ} (hr : r < k + 1) (W : Matrix (Fin r) (Fin n) R) (st : FdState R k n) (g : Vec R n)
    (hst : InSpan W st) (hg : ∃ c : Fin r → R, g = c ᵥ* W)
    (h : SvdSpec (fdB sqrt rsqrt algo lr st g) (svd (fdB sqrt rsqrt algo lr st g))) :
    fdRho svd sqrt rsqrt algo lr st g = 0 ∧ InSpan W (fdUpdate svd sqrt rsqrt algo lr st g) := by
  obtain ⟨Cf, hCf⟩ := fdB_factor sqrt rsqrt algo lr W st g hst hg
  have hσ : (svd (fdB sqrt rsqrt algo lr st g)).s (Fin.last k) = 0 := sigma_min_zero_of_factor h hr Cf W hCf
  refine ⟨by simp [fdRho, fdSigmaMin, hσ], ?_⟩
  obtain ⟨hrec, hV, hU⟩ := h.matrix_form
  set o := svd (fdB sqrt rsqrt algo lr st g) with ho
  refine ⟨(toM o.U)ᵀ * Cf, ?_⟩
  have hrows : toM (sketchRows (fdUpdate svd sqrt rsqrt algo lr st g)) = diagonal o.s * toM o.Vt := by
    ext i j
    have : sqrt (o.s i * o.s i) = o.s i := sqrt_mul_self_of_spec sqrt hsq hsq0 (h.nonneg i)
    simp [sketchRows, fdUpdate, ← ho, hσ, deflate, this, Matrix.diagonal_mul, mul_comm]
  rw [hrows, Matrix.mul_assoc, ← hCf, hrec]
  calc diagonal o.s * toM o.Vt = ((toM o.U)ᵀ * toM o.U) * (diagonal o.s * toM o.Vt) := by rw [hU, Matrix.one_mul]
    _ = _ := by simp only [Matrix.mul_assoc]

theorem fd_lossless_from (hsq : ∀ x, 0 ≤ x → sqrt x * sqrt x = x) (hsq0 : ∀ x, 0 ≤ x → 0 ≤ sqrt x)
    {r : ℕ} (hr : r < k + 1) (W : Matrix (Fin r) (Fin n) R) (gs : List (Vec R n)) :
    ∀ (st : FdState R k n), (∀ j, sketchRows st (Fin.last k) j = 0) → InSpan W st →
    SvdAlong svd sqrt rsqrt algo lr st gs → (∀ g ∈ gs, ∃ c : Fin r → R, g = c ᵥ* W) →
    (∀ ρ ∈ fdRhosFrom svd sqrt rsqrt algo lr st gs, ρ = 0) ∧
    InSpan W (fdRunFrom svd sqrt rsqrt algo lr st gs) ∧
    gram (sketchRows (fdRunFrom svd sqrt rsqrt algo lr st gs))
      = gram (sketchRows st) + inputsCov (fdInputsFrom svd sqrt rsqrt algo lr st gs) := by
  induction gs with
  | nil => intro st _ hst _ _; simp [fdRhosFrom, fdRunFrom, fdInputsFrom, hst]
  | cons g gs ih =>
    intro st h0 hst hs hW
    obtain ⟨hρ, hst'⟩ := fd_lossless_step svd sqrt rsqrt algo lr hsq hsq0 hr W st g hst
      (hW g (List.mem_cons_self ..)) hs.1
    obtain ⟨h1, h2, h3⟩ := ih (fdUpdate svd sqrt rsqrt algo lr st g)
      (fdUpdate_last_row svd sqrt rsqrt algo lr (sqrt_zero_of_spec sqrt hsq) st g) hst' hs.2
      (fun x hx => hW x (List.mem_cons_of_mem _ hx))
    refine ⟨?_, by simpa [fdRunFrom] using h2, ?_⟩
    · intro ρ hmem
      simp only [fdRhosFrom, List.mem_cons] at hmem
      rcases hmem with rfl | hmem
      · exact hρ
      · exact h1 ρ hmem
    · have := fd_exact_step svd sqrt rsqrt algo lr hsq st g h0 hs.1 hρ
      simp only [fdRunFrom_cons, fdInputsFrom, inputsCov_cons, h3, this]
      abel

theorem list_sum_eq_zero_of_all_zero (l : List R) (h : ∀ x ∈ l, x = 0) : l.sum = 0 := by
  induction l with
  | nil => rfl
  | cons a l ih =>
    rw [List.sum_cons, h a (List.mem_cons_self ..), ih (fun x hx => h x (List.mem_cons_of_mem _ hx)), add_zero]


theorem fdUpdate_w_sAda (st : FdState R k n) (g : Vec R n) (hsq : ∀ x, 0 ≤ x → sqrt x * sqrt x = x)
    (h : SvdSpec (fdB sqrt rsqrt .sAda lr st g) (svd (fdB sqrt rsqrt .sAda lr st g))) (j : Fin n) :
    (fdUpdate svd sqrt rsqrt .sAda lr st g).w j = st.w j - lr *
      (appliedMatrix rsqrt (fdUpdate svd sqrt rsqrt .sAda lr st g).alpha (fdUpdate svd sqrt rsqrt .sAda lr st g).P
        (fun i => (fdUpdate svd sqrt rsqrt .sAda lr st g).e i * (fdUpdate svd sqrt rsqrt .sAda lr st g).e i) *ᵥ g) j := by
  set o := svd (fdB sqrt rsqrt .sAda lr st g) with ho
  have hdef : ∀ i, 0 ≤ deflate o.s (o.s (Fin.last k)) i := fun i => by
    have h1 : o.s (Fin.last k) ≤ o.s i := h.sorted i (Fin.last k) (Fin.le_last i)
    have h2 : 0 ≤ o.s (Fin.last k) := h.nonneg _
    exact mul_nonneg (by linarith) (by linarith)
  have he : (fun i => (fdUpdate svd sqrt rsqrt .sAda lr st g).e i * (fdUpdate svd sqrt rsqrt .sAda lr st g).e i)
      = deflate o.s (o.s (Fin.last k)) := by
    funext i
    simp only [fdUpdate, force_eq, ← ho]
    exact hsq _ (hdef i)
  rw [he, ← precondGeneric_eq]
  simp [fdUpdate, factors, fdDirection, ← ho]


/-- one S-AdaGrad step from a state whose sketch rows and the new gradient lie in a space of dimension
below the sketch size: nothing escapes, `alpha` is unchanged, the sketch stays exact, and the matrix applied to
the gradient is a positive semidefinite inverse square root of `alpha I + (sketch second moment + g gᵀ)`. -/
theorem sada_lossless_step (hsq : ∀ x, 0 ≤ x → sqrt x * sqrt x = x) (hsq0 : ∀ x, 0 ≤ x → 0 ≤ sqrt x)
    (hrs : ∀ x, 0 < x → 0 < rsqrt x ∧ rsqrt x * rsqrt x * x = 1)
    {r : ℕ} (hr : r < k + 1) (W : Matrix (Fin r) (Fin n) R) (st : FdState R k n) (g : Vec R n)
    (hst : InSpan W st) (h0 : ∀ j, sketchRows st (Fin.last k) j = 0) (hα : 0 < st.alpha)
    (hg : ∃ c : Fin r → R, g = c ᵥ* W)
    (h : SvdSpec (fdB sqrt rsqrt .sAda lr st g) (svd (fdB sqrt rsqrt .sAda lr st g))) :
    fdRho svd sqrt rsqrt .sAda lr st g = 0 ∧
    (fdUpdate svd sqrt rsqrt .sAda lr st g).alpha = st.alpha ∧
    gram (sketchRows (fdUpdate svd sqrt rsqrt .sAda lr st g)) = gram (sketchRows st) + vecMulVec g g ∧
    ∃ X : Matrix (Fin n) (Fin n) R,
      (∀ j, (fdUpdate svd sqrt rsqrt .sAda lr st g).w j = st.w j - lr * (X *ᵥ g) j) ∧
      X.PosSemidef ∧
      X * X * (st.alpha • (1 : Matrix (Fin n) (Fin n) R) + (gram (sketchRows st) + vecMulVec g g)) = 1 := by
  obtain ⟨hρ, -⟩ := fd_lossless_step svd sqrt rsqrt .sAda lr hsq hsq0 hr W st g hst hg h
  have hα' : (fdUpdate svd sqrt rsqrt .sAda lr st g).alpha = st.alpha := by
    rw [fdUpdate_alpha, hρ, mul_zero, add_zero]
  have hgram' : gram (sketchRows (fdUpdate svd sqrt rsqrt .sAda lr st g))
      = gram (sketchRows st) + vecMulVec g g := by
    rw [fd_exact_step svd sqrt rsqrt .sAda lr hsq st g h0 h hρ]
    have : gradInput (sketchFactor sqrt rsqrt .sAda (st.t + 1) lr) g = g := by
      funext j; simp [gradInput, sketchFactor]
    rw [this]
  refine ⟨hρ, hα', hgram', ?_⟩
  have hP : toM (fdUpdate svd sqrt rsqrt .sAda lr st g).P * (toM (fdUpdate svd sqrt rsqrt .sAda lr st g).P)ᵀ = 1 :=
    h.matrix_form.2.1
  refine ⟨_, fun j => fdUpdate_w_sAda svd sqrt rsqrt lr st g hsq h j,
    appliedMatrix_psd rsqrt (fun x hx => (hrs x hx).1) _ _ _ hP, ?_⟩
  have := appliedMatrix_inverse_root rsqrt hrs (fdUpdate svd sqrt rsqrt .sAda lr st g).alpha
    (by rw [hα']; exact hα) (fdUpdate svd sqrt rsqrt .sAda lr st g).P
    (fun i => (fdUpdate svd sqrt rsqrt .sAda lr st g).e i * (fdUpdate svd sqrt rsqrt .sAda lr st g).e i)
    (fun i => mul_self_nonneg _) hP
  rw [← gram_scaled_rows] at this
  have hrows : (fun i j => (fdUpdate svd sqrt rsqrt .sAda lr st g).P i j * (fdUpdate svd sqrt rsqrt .sAda lr st g).e i)
      = sketchRows (fdUpdate svd sqrt rsqrt .sAda lr st g) := rfl
  rw [hrows, hgram'] at this
  rw [← hα']
  exact this

end B
end PrecondVerif.OCO
