/-
Lemmas for the block partitioner (C06): split/concatenate along one axis are mutually
inverse, and the multi-axis `partition` / `mergePartitions` round trip.
-/
import PrecondVerif.Lemmas.Shapes
import Mathlib.Data.List.Forall2
import Mathlib.Data.List.Nodup

namespace PrecondVerif.Shapes

/-- extensional equality of tensors on in-bounds indices -/
def Tensor.Eqv {α} (t u : Tensor α) : Prop :=
  t.shape = u.shape ∧ ∀ idx, inBounds t.shape idx → t.get idx = u.get idx

theorem Tensor.Eqv.refl {α} (t : Tensor α) : t.Eqv t := ⟨rfl, fun _ _ => rfl⟩

theorem Tensor.Eqv.symm {α} {t u : Tensor α} (h : t.Eqv u) : u.Eqv t :=
  ⟨h.1.symm, fun idx hi => (h.2 idx (h.1 ▸ hi)).symm⟩

theorem Tensor.Eqv.trans {α} {t u v : Tensor α} (h1 : t.Eqv u) (h2 : u.Eqv v) : t.Eqv v :=
  ⟨h1.1.trans h2.1, fun idx hi => (h1.2 idx hi).trans (h2.2 idx (h1.1 ▸ hi))⟩

/-! ### in-bounds facts -/

theorem inBounds_length {shape idx : List Nat} (h : inBounds shape idx) :
    idx.length = shape.length := by
  induction shape generalizing idx with
  | nil => cases idx <;> simp_all [inBounds]
  | cons s ss ih =>
    cases idx with
    | nil => simp [inBounds] at h
    | cons i is => simp only [inBounds] at h; simp [ih h.2]

theorem inBounds_getD {shape idx : List Nat} (h : inBounds shape idx) (a : Nat)
    (ha : a < shape.length) : idx.getD a 0 < shape.getD a 0 := by
  induction shape generalizing idx a with
  | nil => simp at ha
  | cons s ss ih =>
    cases idx with
    | nil => simp [inBounds] at h
    | cons i is =>
      simp only [inBounds] at h
      cases a with
      | zero => simpa using h.1
      | succ a =>
        simp only [List.length_cons, Nat.add_lt_add_iff_right] at ha
        simpa using ih h.2 a ha

theorem inBounds_set {shape idx : List Nat} (h : inBounds shape idx) (a v w : Nat)
    (hv : v < w) : inBounds (shape.set a w) (idx.set a v) := by
  induction shape generalizing idx a with
  | nil => cases idx <;> simp_all [inBounds]
  | cons s ss ih =>
    cases idx with
    | nil => simp [inBounds] at h
    | cons i is =>
      simp only [inBounds] at h
      cases a with
      | zero => simp [inBounds, hv, h.2]
      | succ a => simp [inBounds, h.1, ih h.2 a]

/-! ### locate / offsets -/

theorem locate_spec (sizes : List Nat) (o i : Nat) (h : i < sizes.sum) :
    (locate sizes i).1 < sizes.length ∧
    (locate sizes i).2 < sizes.getD (locate sizes i).1 0 ∧
    (offsets sizes o).getD (locate sizes i).1 0 + (locate sizes i).2 = o + i := by
  induction sizes generalizing o i with
  | nil => simp at h
  | cons s ss ih =>
    simp only [List.sum_cons] at h
    unfold locate
    split
    · rename_i hlt
      simp [offsets, hlt]
    · rename_i hge
      have hi : i - s < ss.sum := by omega
      obtain ⟨h1, h2, h3⟩ := ih (o + s) (i - s) hi
      simp only [List.length_cons]
      refine ⟨by omega, ?_, ?_⟩
      · simpa using h2
      · simp only [offsets, List.getD_cons_succ]
        omega

theorem offsets_length (sizes : List Nat) (o : Nat) : (offsets sizes o).length = sizes.length := by
  induction sizes generalizing o with
  | nil => rfl
  | cons s ss ih => simp [offsets, ih]

/-! ### split then concatenate along one axis -/

theorem split_length {α} (t : Tensor α) (a : Nat) (sizes : List Nat) :
    (t.split a sizes).length = sizes.length := by
  simp [Tensor.split, offsets_length]

theorem split_getD {α} [Inhabited α] (t : Tensor α) (a : Nat) (sizes : List Nat) (k : Nat)
    (hk : k < sizes.length) :
    (t.split a sizes).getD k ⟨[], fun _ => default⟩ =
      t.slice a ((offsets sizes 0).getD k 0) (sizes.getD k 0) := by
  have hk' : k < (offsets sizes 0).length := by rw [offsets_length]; exact hk
  have hz : k < ((offsets sizes 0).zip sizes).length := by simp [offsets_length, hk]
  simp [Tensor.split, List.getD_eq_getElem?_getD, List.getElem?_map,
    List.getElem?_eq_getElem hz, hk, hk']

theorem split_shapes {α} (t : Tensor α) (a : Nat) (sizes : List Nat) (ha : a < t.shape.length) :
    (t.split a sizes).map (fun u => u.shape.getD a 0) = sizes := by
  apply List.ext_getElem
  · simp [split_length]
  · intro i h1 h2
    simp [Tensor.split, Tensor.slice, ha]

theorem foldl_add_eq_sum (l : List Nat) (o : Nat) : l.foldl (· + ·) o = o + l.sum := by
  induction l generalizing o with
  | nil => simp
  | cons a l ih => simp [ih, Nat.add_assoc]

/-- Concatenating the pieces of a split along the same axis gives back the tensor. -/
theorem concat_split {α} [Inhabited α] (t : Tensor α) (a : Nat) (sizes : List Nat)
    (ha : a < t.shape.length) (hne : sizes ≠ []) (hsum : sizes.sum = t.shape.getD a 0) :
    (Tensor.concat (t.split a sizes) a).Eqv t := by
  have hshapes := split_shapes t a sizes ha
  constructor
  · -- shape
    simp only [Tensor.concat, hshapes, foldl_add_eq_sum, Nat.zero_add, hsum]
    cases sizes with
    | nil => exact absurd rfl hne
    | cons s ss =>
      simp [Tensor.split, offsets, Tensor.slice, List.getD_eq_getElem?_getD, ha]
  · intro idx hidx
    have hshape : (Tensor.concat (t.split a sizes) a).shape = t.shape := by
      simp only [Tensor.concat, hshapes, foldl_add_eq_sum, Nat.zero_add, hsum]
      cases sizes with
      | nil => exact absurd rfl hne
      | cons s ss =>
        simp [Tensor.split, offsets, Tensor.slice, List.getD_eq_getElem?_getD, ha]
    rw [hshape] at hidx
    have hlt : idx.getD a 0 < sizes.sum := hsum ▸ inBounds_getD hidx a ha
    obtain ⟨h1, _, h3⟩ := locate_spec sizes 0 (idx.getD a 0) hlt
    simp only [Tensor.concat, hshapes]
    rw [split_getD t a sizes _ h1]
    simp only [Tensor.slice]
    have hlen : a < idx.length := by rw [inBounds_length hidx]; exact ha
    congr 1
    simp only [List.set_set]
    have : (idx.set a (locate sizes (idx.getD a 0)).2).getD a 0 = (locate sizes (idx.getD a 0)).2 := by
      simp [List.getD_eq_getElem?_getD, hlen]
    rw [this]
    have h4 : (locate sizes (idx.getD a 0)).2 + (offsets sizes 0).getD (locate sizes (idx.getD a 0)).1 0
        = idx.getD a 0 := by omega
    rw [h4]
    apply List.ext_getElem
    · simp
    · intro i hi1 hi2
      by_cases hia : i = a
      · subst hia; simp [List.getD_eq_getElem?_getD, hlen]
      · simp [Ne.symm hia]


/-! ### the multi-axis round trip -/

/-- `partition` with the axes list and the per-axis sizes made explicit -/
def partAxes {α} (sz : Nat → List Nat) (axes : List Nat) (ts : List (Tensor α)) :
    List (Tensor α) :=
  axes.foldl (fun ts i => ts.flatMap fun u => u.split i (sz i)) ts

def mergeStep {α} [Inhabited α] (sz : Nat → List Nat) (i : Nat) (ps : List (Tensor α)) :
    List (Tensor α) :=
  (chunks (sz i).length ps).map fun grp => Tensor.concat grp i

def mergeAxesRev {α} [Inhabited α] (sz : Nat → List Nat) (axes : List Nat)
    (ps : List (Tensor α)) : List (Tensor α) :=
  axes.reverse.foldl (fun ps i => mergeStep sz i ps) ps

theorem partition_eq_partAxes {α} (t : Tensor α) (b : Nat) :
    partition t b = partAxes (fun i => splitSizes (t.shape.getD i 0) b) (splitAxes t.shape b) [t] :=
  rfl

theorem mergePartitions_eq {α} [Inhabited α] (shape : List Nat) (b : Nat) (parts : List (Tensor α)) :
    mergePartitions shape b parts =
      match mergeAxesRev (fun i => splitSizes (shape.getD i 0) b) (splitAxes shape b) parts with
      | [t] => some t
      | _ => none := rfl

theorem partAxes_cons {α} (sz : Nat → List Nat) (a : Nat) (rest : List Nat) (ts : List (Tensor α)) :
    partAxes sz (a :: rest) ts = partAxes sz rest (ts.flatMap fun u => u.split a (sz a)) := rfl

theorem mergeAxesRev_cons {α} [Inhabited α] (sz : Nat → List Nat) (a : Nat) (rest : List Nat)
    (ps : List (Tensor α)) :
    mergeAxesRev sz (a :: rest) ps = mergeStep sz a (mergeAxesRev sz rest ps) := by
  simp [mergeAxesRev, List.foldl_append]

theorem chunks_append {α} (n : Nat) (l1 l2 : List α) (hn : 0 < n) (h1 : l1.length = n) :
    chunks n (l1 ++ l2) = l1 :: chunks n l2 := by
  rw [chunks]
  have hne : ¬ (n = 0 ∨ l1 ++ l2 = []) := by
    intro h
    rcases h with h | h
    · omega
    · have : l1 = [] := (List.append_eq_nil_iff.mp h).1
      simp [this] at h1; omega
  rw [dif_neg hne]
  simp [← h1]

theorem chunks_nil {α} (n : Nat) : chunks n ([] : List α) = [] := by
  rw [chunks]; simp

/-- a group equivalent to the pieces of a split concatenates back to the tensor -/
theorem concat_eqv_of_split {α} [Inhabited α] (u : Tensor α) (a : Nat) (sizes : List Nat)
    (grp : List (Tensor α)) (ha : a < u.shape.length) (hne : sizes ≠ [])
    (hsum : sizes.sum = u.shape.getD a 0)
    (h : List.Forall₂ Tensor.Eqv grp (u.split a sizes)) :
    (Tensor.concat grp a).Eqv u := by
  have hlen : grp.length = sizes.length := by rw [h.length_eq, split_length]
  have hshapes : grp.map (fun v => v.shape.getD a 0) = sizes := by
    rw [← split_shapes u a sizes ha]
    apply List.ext_getElem
    · simp [h.length_eq]
    · intro i h1 h2
      simp only [List.getElem_map]
      have := (List.forall₂_iff_get.mp h).2 i (by simpa using h1) (by simpa using h2)
      simp only [List.get_eq_getElem] at this
      rw [this.1]
  have hhead : (grp.headD ⟨[], fun _ => default⟩).shape =
      ((u.split a sizes).headD ⟨[], fun _ => default⟩).shape := by
    generalize u.split a sizes = sp at h
    cases h with
    | nil => rfl
    | cons hab _ => exact hab.1
  have hcs := concat_split u a sizes ha hne hsum
  have hshape : (Tensor.concat grp a).shape = u.shape := by
    rw [← hcs.1]
    simp only [Tensor.concat, hshapes, split_shapes u a sizes ha, hhead]
  refine ⟨hshape, ?_⟩
  intro idx hidx
  rw [hshape] at hidx
  rw [← hcs.2 idx (hcs.1 ▸ hidx)]
  simp only [Tensor.concat, hshapes, split_shapes u a sizes ha]
  have hlt : idx.getD a 0 < sizes.sum := hsum ▸ inBounds_getD hidx a ha
  obtain ⟨h1, h2, _⟩ := locate_spec sizes 0 (idx.getD a 0) hlt
  have hk1 : (locate sizes (idx.getD a 0)).1 < grp.length := by omega
  have hk2 : (locate sizes (idx.getD a 0)).1 < (u.split a sizes).length := by
    rw [split_length]; exact h1
  have hE := (List.forall₂_iff_get.mp h).2 _ hk1 hk2
  simp only [List.get_eq_getElem] at hE
  have e1 : grp.getD (locate sizes (idx.getD a 0)).1 ⟨[], fun _ => default⟩ =
      grp[(locate sizes (idx.getD a 0)).1] := by
    rw [List.getD_eq_getElem?_getD, List.getElem?_eq_getElem hk1]; rfl
  have e2 : (u.split a sizes).getD (locate sizes (idx.getD a 0)).1 ⟨[], fun _ => default⟩ =
      (u.split a sizes)[(locate sizes (idx.getD a 0)).1] := by
    rw [List.getD_eq_getElem?_getD, List.getElem?_eq_getElem hk2]; rfl
  rw [e1, e2]
  apply hE.2
  rw [hE.1]
  have hs := split_getD u a sizes _ h1
  rw [e2] at hs
  rw [hs]
  simp only [Tensor.slice]
  exact inBounds_set hidx a _ _ h2

theorem forall₂_eqv_refl {α} (l : List (Tensor α)) : List.Forall₂ Tensor.Eqv l l :=
  List.forall₂_same.mpr fun x _ => Tensor.Eqv.refl x

/-- one merge step undoes one split step, up to extensional equality -/
theorem mergeStep_flatMap_split {α} [Inhabited α] (sz : Nat → List Nat) (a : Nat)
    (us R : List (Tensor α))
    (hne : sz a ≠ [])
    (hus : ∀ u ∈ us, a < u.shape.length ∧ (sz a).sum = u.shape.getD a 0)
    (h : List.Forall₂ Tensor.Eqv R (us.flatMap fun u => u.split a (sz a))) :
    List.Forall₂ Tensor.Eqv (mergeStep sz a R) us := by
  have hn : 0 < (sz a).length := List.length_pos_iff.mpr hne
  induction us generalizing R with
  | nil =>
    simp only [List.flatMap_nil, List.forall₂_nil_right_iff] at h
    subst h
    simp [mergeStep, chunks_nil]
  | cons u us ih =>
    simp only [List.flatMap_cons] at h
    have h1 := List.forall₂_take_append R _ _ h
    have h2 := List.forall₂_drop_append R _ _ h
    have hsl : (u.split a (sz a)).length = (sz a).length := split_length u a (sz a)
    rw [hsl] at h1 h2
    have hR : R = R.take (sz a).length ++ R.drop (sz a).length := (List.take_append_drop _ _).symm
    have htl : (R.take (sz a).length).length = (sz a).length := by
      rw [h1.length_eq, hsl]
    unfold mergeStep
    rw [hR, chunks_append _ _ _ hn htl]
    simp only [List.map_cons]
    refine List.Forall₂.cons ?_ ?_
    · exact concat_eqv_of_split u a (sz a) _ (hus u (by simp)).1 hne (hus u (by simp)).2 h1
    · exact ih _ (fun v hv => hus v (by simp [hv])) h2

theorem slice_shape_getD {α} (u : Tensor α) (a c off size : Nat) (hc : c ≠ a) :
    (u.slice a off size).shape.getD c 0 = u.shape.getD c 0 := by
  simp [Tensor.slice, List.getD_eq_getElem?_getD, Ne.symm hc]

theorem mem_split {α} (u v : Tensor α) (a : Nat) (sizes : List Nat) (h : v ∈ u.split a sizes) :
    ∃ off size, v = u.slice a off size := by
  simp only [Tensor.split, List.mem_map] at h
  obtain ⟨⟨o, s⟩, _, rfl⟩ := h
  exact ⟨o, s, rfl⟩

/-- Merging the partition gives back every tensor, for any list of distinct valid axes. -/
theorem mergeAxesRev_partAxes {α} [Inhabited α] (sz : Nat → List Nat) (axes : List Nat)
    (us : List (Tensor α)) (hnd : axes.Nodup) (hne : ∀ a ∈ axes, sz a ≠ [])
    (hus : ∀ u ∈ us, ∀ a ∈ axes, a < u.shape.length ∧ (sz a).sum = u.shape.getD a 0) :
    List.Forall₂ Tensor.Eqv (mergeAxesRev sz axes (partAxes sz axes us)) us := by
  induction axes generalizing us with
  | nil => simpa [mergeAxesRev, partAxes] using forall₂_eqv_refl us
  | cons a rest ih =>
    rw [partAxes_cons, mergeAxesRev_cons]
    have hnd' := List.nodup_cons.mp hnd
    apply mergeStep_flatMap_split sz a us _ (hne a (by simp)) (fun u hu => hus u hu a (by simp))
    apply ih _ hnd'.2 (fun c hc => hne c (by simp [hc]))
    intro v hv c hc
    simp only [List.mem_flatMap] at hv
    obtain ⟨u, hu, hvu⟩ := hv
    obtain ⟨off, size, rfl⟩ := mem_split u v a (sz a) hvu
    have hca : c ≠ a := fun h => hnd'.1 (h ▸ hc)
    have := hus u hu c (by simp [hc])
    refine ⟨by simpa [Tensor.slice] using this.1, ?_⟩
    rw [slice_shape_getD u a c off size hca]; exact this.2


theorem splitAxes_nodup (shape : List Nat) (b : Nat) : (splitAxes shape b).Nodup :=
  List.Nodup.filter _ List.nodup_range

theorem splitAxes_lt (shape : List Nat) (b : Nat) : ∀ a ∈ splitAxes shape b, a < shape.length := by
  intro a ha
  simp only [splitAxes, List.mem_filter, List.mem_range] at ha
  exact ha.1

theorem splitSizes_ne_nil (d b : Nat) : splitSizes d b ≠ [] := by
  unfold splitSizes; split <;> simp

theorem partAxes_length {α} (sz : Nat → List Nat) (axes : List Nat) (ts : List (Tensor α)) :
    (partAxes sz axes ts).length = ts.length * prod (axes.map fun i => (sz i).length) := by
  induction axes generalizing ts with
  | nil => simp [partAxes]
  | cons a rest ih =>
    rw [partAxes_cons, ih]
    have : (ts.flatMap fun u => u.split a (sz a)).length = ts.length * (sz a).length := by
      induction ts with
      | nil => simp
      | cons t ts ih2 =>
        simp only [List.flatMap_cons, List.length_append, split_length, List.length_cons, ih2]
        rw [Nat.add_mul, Nat.one_mul, Nat.add_comm]
    rw [this]
    simp [Nat.mul_assoc]

end PrecondVerif.Shapes
