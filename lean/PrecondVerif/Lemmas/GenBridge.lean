/-
Bridge lemmas: the definitions GENERATED from the Python source (`Gen/Src.lean`, namespace `PrecondVerif.Gen`,
rewritten by `harness/py2lean.py` on every check run) equal the hand-written models of `Model/Shapes.lean`
(and `Model/Graft.lean` `dsSkip`/`tfMaskSkipped`, `Model/Devices.lean` `toPad`) on the whole stated domain.  Core Lean only.

Domain.  The generated definitions work on Python ints (`Int`); the models on `Nat`.  Every bridge is stated
for ALL inputs of the form `ints l` (a list of naturals seen as ints, i.e. any `param.shape`) and naturals cast to
`Int` (block size, merge limit, dimension); `compression_rank` ranges over all of `Int` (it may be negative).
Call sites: shapes are tuples of non-negative ints; `block_size`, `merge_dims`, `merge_small_dims_block_size` are
non-negative by the option validation (`reshaper.merge`, `_validate`) or by convention of `distributed_shampoo`
(a negative `block_size` is not covered by these theorems).

The proofs refer to the generated loop bodies by name (`Gen.<f>_loop<k>`) and unfold them; they do not mention
local variable names, so renaming a local or rewriting `x *= d` as `x = x * d` in the source keeps them valid,
while any change of behaviour makes a step lemma false and this file stops building.
-/
import PrecondVerif.Gen.Src
import PrecondVerif.Lemmas.Shapes
import PrecondVerif.Model.Graft
import PrecondVerif.Model.Devices

namespace PrecondVerif.GenBridge
open PrecondVerif

/-- a list of naturals (a shape) seen as Python ints -/
abbrev ints (l : List Nat) : List Int := l.map (fun (n : Nat) => (n : Int))

/-! ### merge_small_dims -/



theorem merge_step (m p d : Nat) (rs : List Int) :
    Gen.mergeSmallDims_loop1 (m : Int) ((p : Int), rs) (d : Int) =
      if p * d ≤ m then (((p * d : Nat) : Int), rs)
      else if p > 1 then ((d : Int), rs ++ [(p : Int)]) else ((d : Int), rs) := by
  simp only [Gen.mergeSmallDims_loop1]
  have h1 : ((p : Int) * (d : Int) ≤ (m : Int)) ↔ p * d ≤ m := by
    rw [← Int.natCast_mul]; exact Int.ofNat_le
  have h2 : ((p : Int) > 1) ↔ p > 1 := by omega
  by_cases hc : p * d ≤ m
  · simp [hc, h1]
  · by_cases hp : p > 1
    · simp [hc, h1, hp, h2]
    · simp [hc, h1, hp, h2]

theorem merge_loop (m : Nat) (ds : List Nat) (p : Nat) (rs : List Int) :
    (let st := List.foldl (Gen.mergeSmallDims_loop1 (m : Int)) ((p : Int), rs) (ints ds)
     if st.1 > 1 then st.2 ++ [st.1] else st.2) = rs ++ ints (Shapes.mergeGo m ds p) := by
  induction ds generalizing p rs with
  | nil =>
    simp only [ints, List.map_nil, List.foldl_nil, Shapes.mergeGo]
    by_cases hp : p > 1
    · have : (p : Int) > 1 := by omega
      simp [hp, this]
    · have : ¬ (p : Int) > 1 := by omega
      simp [hp, this]
  | cons d ds ih =>
    simp only [ints, List.map_cons, List.foldl_cons, Shapes.mergeGo]
    have hs := merge_step m p d rs
    rw [hs]
    by_cases hc : p * d ≤ m
    · simp only [hc, if_true]
      exact ih (p * d) rs
    · by_cases hp : p > 1
      · simp only [hc, hp, if_true, if_false]
        have := ih d (rs ++ [(p : Int)])
        simp only [ints] at this
        rw [this]; simp
      · simp only [hc, hp, if_false]
        exact ih d rs

theorem all_one (s : List Nat) :
    List.all (ints s) (fun v => decide (v = (1 : Int))) = s.all (· == 1) := by
  induction s with
  | nil => rfl
  | cons a l ih =>
    simp only [ints, List.map_cons, List.all_cons] at ih ⊢
    rw [ih]
    congr 1
    by_cases h : a = 1
    · simp [h]
    · have : ¬ ((a : Int) = 1) := by omega
      simp [h, this]

theorem mergeSmallDims_bridge (s : List Nat) (m : Nat) :
    Gen.mergeSmallDims (ints s) (m : Int) = ints (Shapes.mergeSmallDims s m) := by
  unfold Gen.mergeSmallDims Shapes.mergeSmallDims
  rw [all_one]
  have hne : (!(List.isEmpty (ints s))) = decide (s ≠ []) := by
    cases s <;> simp [ints]
  rw [hne]
  by_cases h : s ≠ [] ∧ s.all (· == 1) = true
  · have : (decide (s ≠ []) && s.all (· == 1)) = true := by simp [h.1, h.2]
    rw [if_pos this, if_pos h]; rfl
  · have : ¬ ((decide (s ≠ []) && s.all (· == 1)) = true) := by
      simpa using h
    rw [if_neg this, if_neg h]
    have := merge_loop m s 1 []
    simpa using this


/-! ### _precond_dim, _should_compress, should_precondition_dims -/

/- The two proofs below do not follow the branch structure of the generated text: they normalise the Boolean
tests, split every `if` of both sides and leave linear integer arithmetic to `omega`.  A rewrite of the source
that computes the same function (e.g. `>=` -> `>` in `_precond_dim`, whose two branches agree at equality) keeps
them valid. -/
set_option linter.unusedSimpArgs false in
theorem precondDim_bridge (c : Int) (d : Nat) :
    Gen.precondDim c (d : Int) = ((Shapes.precondDim c.natAbs d : Nat) : Int) := by
  unfold Gen.precondDim Shapes.precondDim
  simp only [Bool.not_eq_true', decide_eq_true_eq, decide_eq_false_iff_not, Bool.and_eq_true, Bool.or_eq_true]
  repeat' split
  all_goals omega

set_option linter.unusedSimpArgs false in
theorem shouldCompress_bridge (c : Int) (d : Nat) :
    Gen.shouldCompress c (d : Int) = Shapes.shouldCompress c.natAbs d := by
  unfold Gen.shouldCompress Shapes.shouldCompress
  rw [Bool.eq_iff_iff]
  simp only [Bool.and_eq_true, Bool.or_eq_true, decide_eq_true_eq, bne_iff_ne, ne_eq]
  omega

/-! should_precondition_dims -/
def ptypeCode : Shapes.PType → Int
  | .all => 1 | .input => 2 | .output => 3

theorem repeat_one {α} (x : α) (n : Nat) : Gen.Py.repeat [x] (n : Int) = List.replicate n x := by
  unfold Gen.Py.repeat
  simp

theorem shouldPreconditionDims_bridge (ss : List (List Int)) (pt : Shapes.PType) :
    Gen.shouldPreconditionDims ss (ptypeCode pt) = some (Shapes.shouldPreconditionDims pt ss.length) := by
  unfold Gen.shouldPreconditionDims Shapes.shouldPreconditionDims Gen.Py.len
  have hsub : ((ss.length : Int) - 1) = ((ss.length - 1 : Nat) : Int) ∨ ss.length = 0 := by omega
  cases pt <;> simp only [ptypeCode]
  · simp [repeat_one]
  · by_cases h : ss.length ≤ 1
    · have : ((ss.length : Int) ≤ 1) := by omega
      simp [h, this, repeat_one]
    · have : ¬ ((ss.length : Int) ≤ 1) := by omega
      have h2 : ((ss.length : Int) - 1) = ((ss.length - 1 : Nat) : Int) := by omega
      simp [h, this, h2, repeat_one]
  · by_cases h : ss.length ≤ 1
    · have : ((ss.length : Int) ≤ 1) := by omega
      simp [h, this, repeat_one]
    · have : ¬ ((ss.length : Int) ≤ 1) := by omega
      have h2 : ((ss.length : Int) - 1) = ((ss.length - 1 : Nat) : Int) := by omega
      simp [h, this, h2, repeat_one]

/-! ### BlockPartitioner.__init__ -/


theorem py_range (n : Nat) : Gen.Py.range (n : Int) = ints (List.range n) := by
  simp [Gen.Py.range, ints]

theorem fdiv_nat (a b : Nat) : Int.fdiv (a : Int) (b : Int) = ((a / b : Nat) : Int) := by
  rw [Int.fdiv_eq_ediv_of_nonneg _ (by omega)]; norm_cast

theorem setAt_last {α} (x v : α) (n : Nat) :
    Gen.Py.setAt (List.replicate (n + 1) x) (-1) v = List.replicate n x ++ [v] := by
  unfold Gen.Py.setAt
  have h1 : ¬ ((0 : Int) ≤ -1) := by omega
  have h2 : (-(-1 : Int)).toNat = 1 := by decide
  simp only [h1, if_false, h2, List.length_replicate]
  rw [if_pos (by omega)]
  show (List.replicate (n + 1) x).set n v = _
  induction n with
  | zero => rfl
  | succ n ih => rw [List.replicate_succ, List.set_cons_succ, ih]; rfl

theorem get_last_map (f : Nat → Int) (n : Nat) (hn : 1 ≤ n) :
    Gen.Py.get ((List.range n).map f) (-1) = f (n - 1) := by
  unfold Gen.Py.get
  have h1 : ¬ ((0 : Int) ≤ -1) := by omega
  have h2 : (-(-1 : Int)).toNat = 1 := by decide
  simp only [h1, if_false, h2, List.length_map, List.length_range]
  rw [if_pos hn]
  have hlt : n - 1 < n := by omega
  simp [List.getD_eq_getElem?_getD, List.getElem?_range hlt]

/-- `_splits` entry of an axis that is split: the `jnp.split` indices `b, 2b, …, nsplit·b` -/
def splitIndices (d b : Nat) : List Int := (List.range ((d - 1) / b)).map fun (j : Nat) => ((j : Int) + 1) * (b : Int)

theorem part_step (b d : Nat) (i : Int) (sp : List (Int × List Int)) (ss : List (List Int)) :
    Gen.blockPartitionerInit_loop1 (b : Int) (sp, ss) (i, (d : Int)) =
      (if 0 < b ∧ b < d then sp ++ [(i, splitIndices d b)] else sp, ss ++ [ints (Shapes.splitSizes d b)]) := by
  simp only [Gen.blockPartitionerInit_loop1, Shapes.splitSizes]
  by_cases h : 0 < b ∧ b < d
  · have hc : (decide ((0 : Int) < (b : Int)) && decide ((b : Int) < (d : Int))) = true := by
      simp; omega
    have hd1 : (d : Int) - 1 = ((d - 1 : Nat) : Int) := by omega
    have hn : 1 ≤ (d - 1) / b := by
      rw [Nat.le_div_iff_mul_le h.1]; omega
    have hle : (d - 1) / b * b ≤ d - 1 := Nat.div_mul_le_self _ _
    rw [if_pos hc, if_pos h, if_pos h]
    simp only [hd1, fdiv_nat, py_range]
    have hfull : Gen.Py.full (((d - 1) / b : Nat) + 1 : Int) 1 = List.replicate ((d - 1) / b + 1) (1 : Int) := by
      unfold Gen.Py.full
      congr 1
    rw [hfull, List.map_replicate, setAt_last]
    have hidx : List.map (fun py_v => py_v * (b : Int)) (List.map (fun py_v => py_v + 1) (ints (List.range ((d - 1) / b))))
        = (List.range ((d - 1) / b)).map (fun (j : Nat) => ((j : Int) + 1) * (b : Int)) := by
      simp [ints, List.map_map, Function.comp_def]
    rw [hidx, get_last_map _ _ hn]
    simp only [splitIndices, ints, List.map_append, List.map_replicate, List.map_cons, List.map_nil]
    have hlast : (d : Int) - (((((d - 1) / b - 1 : Nat)) : Int) + 1) * (b : Int) = ((d - (d - 1) / b * b : Nat) : Int) := by
      have : ((((d - 1) / b - 1 : Nat)) : Int) + 1 = (((d - 1) / b : Nat) : Int) := by omega
      rw [this, ← Int.natCast_mul]
      omega
    rw [hlast]
    simp
  · have hc : ¬ ((decide ((0 : Int) < (b : Int)) && decide ((b : Int) < (d : Int))) = true) := by
      simp; omega
    rw [if_neg hc, if_neg h, if_neg h]
    simp [ints]


def splitsSpec (b : Nat) : Int → List Nat → List (Int × List Int)
  | _, [] => []
  | k, d :: ds => (if 0 < b ∧ b < d then [(k, splitIndices d b)] else []) ++ splitsSpec b (k + 1) ds

theorem part_loop (b : Nat) (shape : List Nat) (k : Int) (sp : List (Int × List Int)) (ss : List (List Int)) :
    List.foldl (Gen.blockPartitionerInit_loop1 (b : Int)) (sp, ss) (Gen.Py.enumFrom k (ints shape)) =
      (sp ++ splitsSpec b k shape, ss ++ (Shapes.splitAll shape b).map ints) := by
  induction shape generalizing k sp ss with
  | nil => simp [Gen.Py.enumFrom, splitsSpec, Shapes.splitAll]
  | cons d ds ih =>
    simp only [ints, List.map_cons, Gen.Py.enumFrom, List.foldl_cons]
    rw [part_step, ih]
    simp only [splitsSpec, Shapes.splitAll, List.map_cons, ints]
    by_cases h : 0 < b ∧ b < d <;> simp [h]

theorem blockPartitionerInit_bridge (shape : List Nat) (b : Nat) :
    Gen.blockPartitionerInit (ints shape) (b : Int) = (splitsSpec b 0 shape, (Shapes.splitAll shape b).map ints) := by
  unfold Gen.blockPartitionerInit Gen.Py.enumerate
  simp only [part_loop]
  simp

theorem filter_range_cons (q : Nat → Bool) (d : Nat) (ds : List Nat) :
    (List.range (d :: ds).length).filter (fun i => q ((d :: ds).getD i 0)) =
      (if q d then [0] else []) ++ ((List.range ds.length).filter (fun i => q (ds.getD i 0))).map (· + 1) := by
  rw [List.length_cons, List.range_succ_eq_map, List.filter_cons, List.filter_map]
  simp only [List.getD_cons_zero]
  have : ((fun i => q ((d :: ds).getD i 0)) ∘ Nat.succ) = (fun i => q (ds.getD i 0)) := by
    funext i; simp
  rw [this]
  by_cases h : q d = true <;> simp [h]

theorem splitsSpec_axes (b : Nat) (shape : List Nat) (k : Int) :
    (splitsSpec b k shape).map (·.1) = (Shapes.splitAxes shape b).map (fun (i : Nat) => k + (i : Int)) := by
  induction shape generalizing k with
  | nil => simp [splitsSpec, Shapes.splitAxes]
  | cons d ds ih =>
    unfold Shapes.splitAxes at ih ⊢
    rw [filter_range_cons (fun x => decide (0 < b ∧ b < x)) d ds]
    simp only [splitsSpec, List.map_append, ih (k + 1), List.map_map]
    congr 1
    · by_cases h : 0 < b ∧ b < d <;> simp [h]
    · apply List.map_congr_left
      intro i _
      simp only [Function.comp]
      omega

/-! ### tearfree: _derive_shapes, _blocks_metadata -/

theorem ints_inj {a b : List Nat} : ints a = ints b ↔ a = b := by
  constructor
  · intro h
    induction a generalizing b with
    | nil => cases b <;> simp_all [ints]
    | cons x xs ih =>
      cases b with
      | nil => simp [ints] at h
      | cons y ys =>
        simp only [ints, List.map_cons, List.cons.injEq] at h
        rw [ih h.2, Int.ofNat_inj.mp h.1]
  · intro h; rw [h]

theorem pad_step (b s : Nat) (hb : 0 < b) (acc : List Int) :
    Gen.deriveShapes_loop1 (b : Int) acc (s : Int) = acc ++ [((Shapes.padDim s b : Nat) : Int)] := by
  simp only [Gen.deriveShapes_loop1, Shapes.padDim]
  have hb0 : b ≠ 0 := by omega
  by_cases h : s ≥ b
  · have hc : ((s : Int) ≥ (b : Int)) := by omega
    have hcast : (s : Int) + (b : Int) - 1 = ((s + b - 1 : Nat) : Int) := by omega
    simp only [hc, decide_true, if_true, hcast, fdiv_nat, if_neg hb0, if_pos h]
    norm_cast
  · have hc : ¬ ((s : Int) ≥ (b : Int)) := by omega
    simp [hc, hb0, h]

theorem pad_loop (b : Nat) (hb : 0 < b) (l : List Nat) (acc : List Int) :
    List.foldl (Gen.deriveShapes_loop1 (b : Int)) acc (ints l) = acc ++ ints (l.map (Shapes.padDim · b)) := by
  induction l generalizing acc with
  | nil => simp
  | cons s l ih =>
    simp only [ints, List.map_cons, List.foldl_cons]
    rw [pad_step b s hb, ih]
    simp [ints]

theorem deriveShapes_bridge (md bs : Nat) (shape : List Nat) :
    Gen.deriveShapes (md : Int) (bs : Int) (ints shape) =
      (ints (Shapes.deriveShapes md bs shape).original, ints (Shapes.deriveShapes md bs shape).merged,
       ints (Shapes.deriveShapes md bs shape).padded) := by
  unfold Gen.deriveShapes Shapes.deriveShapes
  simp only [mergeSmallDims_bridge]
  have h1 : (ints (Shapes.mergeSmallDims shape md) = [(1 : Int)]) ↔ Shapes.mergeSmallDims shape md = [1] := by
    rw [show [(1 : Int)] = ints [1] from rfl, ints_inj]
  by_cases h : Shapes.mergeSmallDims shape md = [1]
  · have := h1.mpr h
    simp only [this, decide_true, if_true, if_pos h]
    rfl
  · have hn : ¬ (ints (Shapes.mergeSmallDims shape md) = [(1 : Int)]) := fun hh => h (h1.mp hh)
    simp only [hn, decide_false, if_neg h]
    by_cases hb : bs = 0
    · subst hb
      simp [Shapes.padDim, ints]
    · have hb' : ¬ ((bs : Int) = 0) := by omega
      simp only [hb', decide_false]
      rw [pad_loop bs (by omega)]
      simp

/-! blocks metadata -/

theorem enum_filter (q' : Int → Bool) (q : Nat → Bool) (hq : ∀ n : Nat, q' (n : Int) = q n) (l : List Nat) (k : Int) :
    List.map (fun (p : Int × Int) => p.1) (List.filter (fun (p : Int × Int) => q' p.2) (Gen.Py.enumFrom k (ints l))) =
      ((List.range l.length).filter (fun i => q (l.getD i 0))).map (fun (i : Nat) => k + (i : Int)) := by
  induction l generalizing k with
  | nil => simp [Gen.Py.enumFrom]
  | cons d ds ih =>
    rw [filter_range_cons q d ds]
    simp only [ints, List.map_cons, Gen.Py.enumFrom, List.filter_cons, hq]
    have := ih (k + 1)
    simp only [ints] at this
    by_cases h : q d = true
    · simp only [h, ↓reduceIte, List.map_cons, List.map_map, this, List.cons_append,
        List.nil_append, Int.natCast_zero, Int.add_zero, List.cons.injEq, true_and]
      apply List.map_congr_left
      intro i _
      simp only [Function.comp]; omega
    · have h' : q d = false := by simpa using h
      simp only [h', Bool.false_eq_true, ↓reduceIte, List.map_map, this, List.nil_append]
      apply List.map_congr_left
      intro i _
      simp only [Function.comp]; omega

theorem py_get_ints (l : List Nat) (i : Nat) : Gen.Py.get (ints l) (i : Int) = ((l.getD i 0 : Nat) : Int) := by
  unfold Gen.Py.get
  rw [if_pos (by omega)]
  simp [ints, List.getD_eq_getElem?_getD]
  cases l[i]? <;> rfl

theorem py_prod_ints (l : List Nat) (a : Int) :
    List.foldl (· * ·) a (ints l) = a * ((Shapes.prod l : Nat) : Int) := by
  induction l generalizing a with
  | nil => simp
  | cons d ds ih =>
    simp only [ints, List.map_cons, List.foldl_cons, Shapes.prod_cons]
    have := ih (a * (d : Int))
    simp only [ints] at this
    rw [this, Int.natCast_mul, Int.mul_assoc]

theorem foldl_min_of_le (x : Int) (l : List Int) (h : ∀ y ∈ l, x ≤ y) : l.foldl min x = x := by
  induction l with
  | nil => rfl
  | cons y ys ih =>
    simp only [List.foldl_cons]
    have : min x y = x := by have := h y (by simp); omega
    rw [this]
    exact ih (fun z hz => h z (by simp [hz]))

theorem minD_sorted (l : List Nat) (h : l.Pairwise (· < ·)) : Gen.Py.minD (ints l) 0 = ((l.headD 0 : Nat) : Int) := by
  cases l with
  | nil => rfl
  | cons x xs =>
    simp only [ints, List.map_cons, Gen.Py.minD, List.headD_cons]
    apply foldl_min_of_le
    intro y hy
    simp only [List.mem_map] at hy
    obtain ⟨z, hz, rfl⟩ := hy
    have := List.rel_of_pairwise_cons h hz
    omega

theorem blocksMetadata_bridge (bs : Nat) (shape : List Nat) :
    Gen.blocksMetadata (bs : Int) (ints shape) =
      (let m := Shapes.blocksMetadata bs shape
       (ints m.blockSizes, (m.numBlocks : Int), (m.largeBlockSize : Int), ints m.paramShape, ints m.largeAxes,
        ints m.blocksPerLargeAxis, (m.blocksAxis : Int))) := by
  unfold Gen.blocksMetadata Shapes.blocksMetadata Gen.Py.enumerate Gen.Py.prod
  have hlarge := enum_filter (fun x => decide (x ≥ (bs : Int))) (fun n => decide (n ≥ bs))
    (fun n => by simp) shape 0
  simp only [Int.zero_add] at hlarge
  simp only [hlarge]
  have hsorted : ((List.range shape.length).filter fun i => decide (shape.getD i 0 ≥ bs)).Pairwise (· < ·) :=
    List.Pairwise.filter _ List.pairwise_lt_range
  generalize ((List.range shape.length).filter fun i => decide (shape.getD i 0 ≥ bs)) = L at hsorted ⊢
  have hbpl : List.map (fun (i : Int) => Int.fdiv (Gen.Py.get (ints shape) i) (bs : Int)) (List.map (fun (i : Nat) => (i : Int)) L)
      = ints (L.map fun i => shape.getD i 0 / bs) := by
    simp only [ints, List.map_map]
    apply List.map_congr_left
    intro i _
    simp only [Function.comp, py_get_ints, fdiv_nat]
  simp only [hbpl, List.foldl_append, py_prod_ints, List.foldl_cons, List.foldl_nil, minD_sorted L hsorted]
  simp [ints]
  intro a _
  omega


/-! ### transport helpers -/

theorem py_prod_eq (l : List Nat) : Gen.Py.prod (ints l) = ((Shapes.prod l : Nat) : Int) := by
  unfold Gen.Py.prod
  rw [py_prod_ints]; simp

theorem py_sum_ints (l : List Nat) (a : Int) : List.foldl (· + ·) a (ints l) = a + ((l.sum : Nat) : Int) := by
  induction l generalizing a with
  | nil => simp
  | cons d ds ih =>
    simp only [ints, List.map_cons, List.foldl_cons, List.sum_cons]
    have := ih (a + (d : Int))
    simp only [ints] at this
    rw [this]; omega

theorem py_sum_eq (l : List Nat) : Gen.Py.sum (ints l) = ((l.sum : Nat) : Int) := by
  unfold Gen.Py.sum
  rw [py_sum_ints]; simp

theorem offsets_replicate (n b r o : Nat) :
    Shapes.offsets (List.replicate n b ++ [r]) o = (List.range (n + 1)).map (fun j => o + j * b) := by
  induction n generalizing o with
  | zero => simp [Shapes.offsets]
  | succ n ih =>
    rw [List.replicate_succ, List.cons_append, Shapes.offsets, ih, List.range_succ_eq_map (n := n + 1)]
    simp only [List.map_cons, List.map_map, Nat.zero_mul, Nat.add_zero, List.cons.injEq, true_and]
    apply List.map_congr_left
    intro j _
    simp only [Function.comp, Nat.succ_eq_add_one, Nat.add_mul, Nat.one_mul]
    omega

theorem splitIndices_offsets (d b : Nat) (h : 0 < b ∧ b < d) :
    splitIndices d b = ints (Shapes.offsets (Shapes.splitSizes d b) 0).tail := by
  unfold splitIndices Shapes.splitSizes
  rw [if_pos h]
  simp only [offsets_replicate, List.range_succ_eq_map (n := (d - 1) / b), List.map_cons, List.tail_cons, ints,
    List.map_map]
  apply List.map_congr_left
  intro j _
  simp only [Function.comp, Nat.succ_eq_add_one, Nat.zero_add]
  rw [Int.natCast_mul]; simp

/-! ### `to_pad = -n % d` (assign-pattern rule) -/

theorem toPad_eq_emod (n D : Nat) : Gen.toPad (n : Int) (D : Int) = (-(n : Int)) % (D : Int) := by
  unfold Gen.toPad
  exact Int.fmod_eq_emod_of_nonneg _ (by omega)

theorem toPad_spec (n D : Nat) (hD : 0 < D) :
    0 ≤ Gen.toPad (n : Int) (D : Int) ∧ Gen.toPad (n : Int) (D : Int) < (D : Int) ∧
      (D : Int) ∣ (n : Int) + Gen.toPad (n : Int) (D : Int) := by
  rw [toPad_eq_emod]
  have hD' : (0 : Int) < (D : Int) := by omega
  refine ⟨Int.emod_nonneg _ (by omega), Int.emod_lt_of_pos _ hD', ?_⟩
  refine ⟨-((-(n : Int)) / (D : Int)), ?_⟩
  rw [Int.emod_def, Int.mul_neg]
  omega

theorem toPad_minimal (n D : Nat) (hD : 0 < D) (r : Int) (hr : 0 ≤ r) (hdvd : (D : Int) ∣ (n : Int) + r) :
    Gen.toPad (n : Int) (D : Int) ≤ r := by
  rw [toPad_eq_emod]
  have hD' : (0 : Int) < (D : Int) := by omega
  obtain ⟨k, hk⟩ := hdvd
  have h1 : (-(n : Int)) % (D : Int) = r % (D : Int) := by
    have : -(n : Int) = r + (D : Int) * (-k) := by rw [Int.mul_neg]; omega
    rw [this, Int.add_mul_emod_self_left]
  rw [h1]
  have h2 : 0 ≤ (D : Int) * (r / (D : Int)) := Int.mul_nonneg (by omega) (Int.ediv_nonneg hr (by omega))
  rw [Int.emod_def]
  omega

/-! ### Preconditioner: _preconditioner_shape, shapes_for_preconditioners, exponent_for_preconditioner -/

theorem preconditionerShape_bridge (c : Int) (d : Nat) :
    Gen.preconditionerShape c (d : Int) = [(d : Int), ((Shapes.precondDim c.natAbs d : Nat) : Int)] := by
  unfold Gen.preconditionerShape
  rw [precondDim_bridge]
  by_cases h : c = 0
  · simp [h, Shapes.precondDim]
  · simp [h]

theorem py_product (ss : List (List Nat)) :
    Gen.Py.product (ss.map ints) = (Shapes.cartesian ss).map ints := by
  induction ss with
  | nil => rfl
  | cons l ls ih =>
    simp only [List.map_cons, Gen.Py.product, Shapes.cartesian, ih]
    simp only [ints, List.flatMap_map, List.map_flatMap, List.map_map]
    rfl

theorem cartesian_length (ss : List (List Nat)) : ∀ t ∈ Shapes.cartesian ss, t.length = ss.length := by
  induction ss with
  | nil => simp [Shapes.cartesian]
  | cons l ls ih =>
    intro t ht
    simp only [Shapes.cartesian, List.mem_flatMap, List.mem_map] at ht
    obtain ⟨x, _, u, hu, rfl⟩ := ht
    simp [ih u hu]

theorem sliceTo_last (t : List Nat) : Gen.Py.sliceTo (ints t) (-1) = ints (t.take (t.length - 1)) := by
  unfold Gen.Py.sliceTo
  simp [ints, List.map_take]

theorem sliceFrom_last (t : List Nat) : Gen.Py.sliceFrom (ints t) (-1) = ints (t.drop (t.length - 1)) := by
  unfold Gen.Py.sliceFrom
  simp [ints, List.map_drop]

/-- one `[dim, precond dim]` entry per preconditioned dimension of a block -/
def shapeEntries (pt : Shapes.PType) (c : Int) (t : List Nat) : List (List Int) :=
  (Shapes.blockPrecondDims pt t).map fun (d : Nat) => [(d : Int), ((Shapes.precondDim c.natAbs d : Nat) : Int)]

theorem map_precShape (c : Int) (l : List Nat) :
    List.map (fun (py_m : Int) => Gen.preconditionerShape c py_m) (ints l) =
      l.map fun (d : Nat) => [(d : Int), ((Shapes.precondDim c.natAbs d : Nat) : Int)] := by
  simp only [ints, List.map_map]
  apply List.map_congr_left
  intro d _
  exact preconditionerShape_bridge c d

theorem shapes_step (pt : Shapes.PType) (c : Int) (t : List Nat) (acc : List (List Int)) :
    Gen.shapesForPreconditioners_loop1 (ptypeCode pt) c (t.length : Int) acc (ints t) = acc ++ shapeEntries pt c t := by
  simp only [Gen.shapesForPreconditioners_loop1, shapeEntries, Shapes.blockPrecondDims, sliceTo_last, sliceFrom_last,
    map_precShape]
  have hr : ((t.length : Int) ≤ 1) ↔ t.length ≤ 1 := by omega
  cases pt <;> simp only [ptypeCode] <;> by_cases h : t.length ≤ 1 <;> simp [h, hr]

theorem shapes_loop (pt : Shapes.PType) (c : Int) (r : Nat) (L : List (List Nat)) (hL : ∀ t ∈ L, t.length = r)
    (acc : List (List Int)) :
    List.foldl (Gen.shapesForPreconditioners_loop1 (ptypeCode pt) c (r : Int)) acc (L.map ints) =
      acc ++ L.flatMap (shapeEntries pt c) := by
  induction L generalizing acc with
  | nil => simp
  | cons t ts ih =>
    simp only [List.map_cons, List.foldl_cons, List.flatMap_cons]
    have ht : t.length = r := hL t (by simp)
    rw [← ht, shapes_step, ht, ih (fun u hu => hL u (by simp [hu]))]
    simp

theorem shapesForPreconditioners_bridge (ss : List (List Nat)) (pt : Shapes.PType) (c : Int) :
    Gen.shapesForPreconditioners (ss.map ints) (ptypeCode pt) c =
      ((Shapes.cartesian ss).flatMap fun t => (Shapes.blockPrecondDims pt t).map fun d => (d, Shapes.precondDim c.natAbs d)).map
        (fun p => [(p.1 : Int), (p.2 : Int)]) := by
  unfold Gen.shapesForPreconditioners Gen.Py.len
  simp only [py_product, List.length_map, Int.ofNat_eq_natCast]
  rw [shapes_loop pt c ss.length _ (cartesian_length ss)]
  simp only [List.nil_append, List.map_flatMap, List.map_map]
  rfl

theorem exponent_bridge (ss : List (List Int)) (pt : Shapes.PType) :
    Gen.exponentForPreconditioner ss (ptypeCode pt) = some ((Shapes.exponentForPreconditioner pt ss.length : Nat) : Int) := by
  unfold Gen.exponentForPreconditioner
  rw [shouldPreconditionDims_bridge]
  -- arithmetic left to omega, so `2 * n`, `n * 2`, `n + n` in the source all keep this proof valid
  simp only [Gen.Py.count, Shapes.exponentForPreconditioner, Shapes.numPreconditioned, Option.some.injEq, Int.ofNat_eq_natCast]
  omega


/-! ### _preconds_for_grad, skip predicates (C05), sm3 expanded shape (C12), to_pad vs Model/Devices (C13) -/

/-- `S` padded with `None` on the axes that have no preconditioner -/
def padSlots (pt : Shapes.PType) (rank : Nat) (S : List (Option Int)) : List (Option Int) :=
  match pt with
  | .all => S
  | .input => if rank ≤ 1 then S else S ++ [none]
  | .output => if rank ≤ 1 then S else List.replicate (rank - 1) none ++ S

/-- `_preconds_for_grad` as translated: with `S = preconditioners[start:end]` of the right length (one entry per
preconditioned axis) the `assert` holds and the result pads `S` with `None` on the unpreconditioned axes. -/
theorem precondsForGrad_shape (P : List (Option Int)) (pt : Shapes.PType) (rank : Nat) (s e : Int)
    (hlen : (Gen.Py.slice P s e).length = Shapes.numPreconditioned pt rank) :
    Gen.precondsForGrad P (ptypeCode pt) (rank : Int) s e = some (padSlots pt rank (Gen.Py.slice P s e)) := by
  unfold Gen.precondsForGrad Gen.Py.len padSlots
  revert hlen
  generalize Gen.Py.slice P s e = S
  intro hlen
  have hr : ((rank : Int) ≤ 1) ↔ rank ≤ 1 := by omega
  unfold Shapes.numPreconditioned Shapes.shouldPreconditionDims at hlen
  cases pt <;> simp only [ptypeCode] <;> by_cases h : rank ≤ 1
  · simp [h, hr] at hlen ⊢; omega
  · simp [h, hr] at hlen ⊢; omega
  · simp [h, hr] at hlen ⊢; omega
  · have h' : ((rank : Int) - 1) = ((rank - 1 : Nat) : Int) := by omega
    simp [h, hr] at hlen ⊢; omega
  · simp [h, hr] at hlen ⊢; omega
  · have h' : ((rank : Int) - 1) = ((rank - 1 : Nat) : Int) := by omega
    simp [h, hr, h', repeat_one] at hlen ⊢; omega

theorem slice_range {β : Type} (f : Nat → β) (m k n : Nat) (h : m + k ≤ n) :
    Gen.Py.slice ((List.range n).map f) (m : Int) ((m + k : Nat) : Int) = (List.range k).map (fun j => f (m + j)) := by
  unfold Gen.Py.slice Gen.Py.bound
  have h1 : (0 : Int) ≤ (m : Int) := by omega
  have h2 : (0 : Int) ≤ ((m + k : Nat) : Int) := by omega
  simp only [h1, h2, if_true, Int.toNat_natCast, List.length_map, List.length_range]
  apply List.ext_getElem
  · simp; omega
  · intro i hi1 hi2
    simp
    rw [Nat.min_eq_left (by omega)]

/-- the model's slot list is the code's result on the list of positions `0 .. n-1` -/
theorem precondsForGrad_bridge (pt : Shapes.PType) (rank blockIx n : Nat)
    (hn : (blockIx + 1) * Shapes.numPreconditioned pt rank ≤ n) :
    Gen.precondsForGrad ((List.range n).map fun (j : Nat) => some (j : Int)) (ptypeCode pt) (rank : Int)
        ((blockIx * Shapes.numPreconditioned pt rank : Nat) : Int) (((blockIx + 1) * Shapes.numPreconditioned pt rank : Nat) : Int) =
      some ((Shapes.precondsForGrad pt rank blockIx).map (Option.map fun (j : Nat) => (j : Int))) := by
  have hk : (blockIx + 1) * Shapes.numPreconditioned pt rank =
      blockIx * Shapes.numPreconditioned pt rank + Shapes.numPreconditioned pt rank := by
    rw [Nat.add_mul, Nat.one_mul]
  rw [hk] at hn ⊢
  have hs := slice_range (fun (j : Nat) => some (j : Int)) (blockIx * Shapes.numPreconditioned pt rank)
    (Shapes.numPreconditioned pt rank) n hn
  rw [precondsForGrad_shape _ _ _ _ _ (by rw [hs]; simp), hs]
  unfold padSlots Shapes.precondsForGrad
  cases pt <;> simp <;> split <;> simp

theorem any_gt (g : Nat) (shape : List Nat) :
    List.any (List.map (fun (s : Int) => decide (s > (g : Int))) (ints shape)) id = shape.any (fun s => decide (g < s)) := by
  induction shape with
  | nil => rfl
  | cons a l ih =>
    simp only [ints, List.map_cons, List.any_cons] at ih ⊢
    rw [ih]
    congr 1
    simp only [id]
    rw [Bool.eq_iff_iff]; simp only [decide_eq_true_eq]; omega

theorem dsSkip_bridge (rankLt dimGt : Nat) (shape : List Nat) :
    Gen.dsSkipPreconditioning (rankLt : Int) (dimGt : Int) (ints shape) = Graft.dsSkip rankLt dimGt shape := by
  unfold Gen.dsSkipPreconditioning Graft.dsSkip Gen.Py.len
  rw [any_gt]
  congr 1
  rw [Bool.eq_iff_iff]; simp only [decide_eq_true_eq, ints, List.length_map, Int.ofNat_eq_natCast]; omega

theorem tfMaskSkipped_bridge (rank1 : Bool) (anyDimGt : Nat) (shape : List Nat) :
    Gen.tfMaskSkipped rank1 (anyDimGt : Int) (ints shape) = Graft.tfMaskSkipped rank1 anyDimGt shape := by
  unfold Gen.tfMaskSkipped Graft.tfMaskSkipped Gen.Py.len
  rw [any_gt]
  have hl : decide ((Int.ofNat (ints shape).length) ≤ (1 : Int)) = decide (shape.length ≤ 1) := by
    rw [Bool.eq_iff_iff]; simp only [decide_eq_true_eq, ints, List.length_map, Int.ofNat_eq_natCast]; omega
  rw [hl]
  cases rank1 <;> cases decide (shape.length ≤ 1) <;> cases shape.any (fun s => decide (anyDimGt < s)) <;> rfl

theorem sm3ExpandedShape_eq (shape : List Nat) (i : Nat) (hi : i < shape.length) :
    Gen.sm3ExpandedShape (ints shape) (i : Int) =
      ints (List.replicate i 1 ++ [shape.getD i 0] ++ List.replicate (shape.length - i - 1) 1) := by
  unfold Gen.sm3ExpandedShape Gen.Py.len
  have h1 : (Int.ofNat (ints shape).length - (i : Int) - 1) = ((shape.length - i - 1 : Nat) : Int) := by
    simp only [ints, List.length_map, Int.ofNat_eq_natCast]; omega
  simp only [h1, repeat_one, py_get_ints]
  simp [ints]

theorem toPad_devices (n D : Nat) (hD : 0 < D) : Gen.toPad (n : Int) (D : Int) = ((Devices.toPad n D : Nat) : Int) := by
  rw [toPad_eq_emod, Int.neg_emod]
  unfold Devices.toPad
  have hlt : n % D < D := Nat.mod_lt _ hD
  have hcast : ((n % D : Nat) : Int) = (n : Int) % (D : Int) := Int.natCast_emod n D
  split
  · rename_i hdvd
    have : n % D = 0 := Nat.mod_eq_zero_of_dvd (Int.natCast_dvd_natCast.mp hdvd)
    simp [this]
  · rename_i hdvd
    have hne : n % D ≠ 0 := fun h => hdvd (Int.natCast_dvd_natCast.mpr (Nat.dvd_of_mod_eq_zero h))
    rw [Nat.mod_eq_of_lt (by omega)]
    omega


end PrecondVerif.GenBridge
