/-
Rounding-error analysis of the quantization model in rounded arithmetic (`quantizeFl`, `dequantizeFl` of
`Model/Quant.lean`) in an arbitrary linearly ordered field with a lawful floor.

The core lemmas (`fp_core`, `fp_nowrap_core`, `fp_maxhit_core`) are purely algebraic: they speak about *any*
computed bucket `bh`, computed ratio `rh` and computed product `y` that lie within relative errors
`ub`, `ur`, `um` of their exact counterparts.  The model-level lemmas instantiate them with the values the
model computes from a rounding function `fl` whose relative error is at most `u` (`FlOK`).
-/
import PrecondVerif.Lemmas.Quant
import Mathlib.Tactic.Positivity

set_option linter.unusedSectionVars false
set_option linter.unusedVariables false

namespace PrecondVerif.Quant

section
variable {α : Type} [Field α] [LinearOrder α] [IsStrictOrderedRing α]

/-- `fl` commits a relative error of at most `u` when it rounds `t` -/
def FlOK (fl : α → α) (u t : α) : Prop := |fl t - t| ≤ u * |t|

/-- the textbook form `fl t = t (1 + δ)`, `|δ| ≤ u` implies `FlOK` -/
theorem FlOK.of_delta {fl : α → α} {u t δ : α} (hδ : |δ| ≤ u) (h : fl t = t * (1 + δ)) : FlOK fl u t := by
  unfold FlOK
  rw [h, show t * (1 + δ) - t = δ * t by ring, abs_mul]
  exact mul_le_mul_of_nonneg_right hδ (abs_nonneg t)

/-- … and conversely -/
theorem FlOK.exists_delta {fl : α → α} {u t : α} (hu : 0 ≤ u) (h : FlOK fl u t) :
    ∃ δ, |δ| ≤ u ∧ fl t = t * (1 + δ) := by
  by_cases ht : t = 0
  · refine ⟨0, by simpa using hu, ?_⟩
    unfold FlOK at h
    rw [ht] at h ⊢
    simp only [abs_zero, mul_zero, sub_zero] at h
    have := abs_eq_zero.mp (le_antisymm h (abs_nonneg _))
    simp [this]
  · refine ⟨(fl t - t) / t, ?_, by field_simp; ring⟩
    rw [abs_div, div_le_iff₀ (abs_pos.mpr ht)]
    exact h

/-- relative error of one computed division: `u` for a rounded division, `2u + u²` for
`fl (a * fl (1 / b))` -/
def opErr (recip : Bool) (u : α) : α := if recip then 2 * u + u ^ 2 else u

theorem opErr_nonneg {u : α} (hu : 0 ≤ u) (r : Bool) : 0 ≤ opErr r u := by
  unfold opErr; split <;> positivity

theorem opErr_le {u : α} (hu : 0 ≤ u) (r : Bool) : opErr r u ≤ 2 * u + u ^ 2 := by
  unfold opErr; split
  · exact le_rfl
  · nlinarith [sq_nonneg u]

theorem divFl_err {fl : α → α} {u : α} (hu : 0 ≤ u) (hfl : ∀ t, FlOK fl u t) (recip : Bool) (a b : α) :
    |divFl fl recip a b - a / b| ≤ opErr recip u * |a / b| := by
  cases recip
  · have h := hfl (a / b)
    unfold FlOK at h
    simpa [divFl, opErr] using h
  · simp only [divFl, opErr, if_true]
    have h1 := hfl (1 / b)
    have h2 := hfl (a * fl (1 / b))
    unfold FlOK at h1 h2
    have e1 : a * fl (1 / b) - a / b = a * (fl (1 / b) - 1 / b) := by ring
    have h3 : |a * fl (1 / b) - a / b| ≤ u * |a / b| := by
      rw [e1, abs_mul]
      calc |a| * |fl (1 / b) - 1 / b| ≤ |a| * (u * |1 / b|) := mul_le_mul_of_nonneg_left h1 (abs_nonneg a)
        _ = u * |a / b| := by rw [div_eq_mul_one_div a b, abs_mul]; ring
    have h4 : |a * fl (1 / b)| ≤ (1 + u) * |a / b| := by
      have := abs_sub_abs_le_abs_sub (a * fl (1 / b)) (a / b)
      linarith
    have h5 : |fl (a * fl (1 / b)) - a * fl (1 / b)| ≤ u * ((1 + u) * |a / b|) :=
      le_trans h2 (mul_le_mul_of_nonneg_left h4 hu)
    have tri : |fl (a * fl (1 / b)) - a / b|
        ≤ |fl (a * fl (1 / b)) - a * fl (1 / b)| + |a * fl (1 / b) - a / b| := abs_sub_le _ _ _
    nlinarith [abs_nonneg (a / b)]

/-! ### the algebraic core -/

theorem natCast_pos'' {N : Nat} (hN : 1 ≤ N) : (0 : α) < (N : α) := by
  have : (1 : α) ≤ (N : α) := by exact_mod_cast hN
  linarith

section core
variable {N : Nat} {m b bh x rh y ub ur um : α} {q : Int}

theorem fp_bh_bounds (hb : 0 < b) (hub1 : ub < 1) (hbh : |bh - b| ≤ ub * b) :
    0 < bh ∧ b * (1 - ub) ≤ bh ∧ bh ≤ b * (1 + ub) := by
  have h := abs_le.mp hbh
  refine ⟨?_, by linarith [h.1], by linarith [h.2]⟩
  have : 0 < b * (1 - ub) := mul_pos hb (by linarith)
  linarith [h.1]

/-- round trip: `|y - x| ≤ ((1+ub)(1+um)/2 + N (ur + um + ur um)) · b` -/
theorem fp_core (hN : 1 ≤ N) (hb : b = m / (N : α)) (hm : 0 < m) (hx : |x| ≤ m)
    (hub0 : 0 ≤ ub) (hub1 : ub < 1) (hur : 0 ≤ ur) (hum : 0 ≤ um)
    (hbh : |bh - b| ≤ ub * b)
    (hrh : |rh - x / bh| ≤ ur * |x / bh|)
    (hq : |(q : α) - rh| ≤ 1 / 2)
    (hy : |y - (q : α) * bh| ≤ um * |(q : α) * bh|) :
    |y - x| ≤ ((1 + ub) * (1 + um) / 2 + (N : α) * (ur + um + ur * um)) * b := by
  have hNp : (0 : α) < (N : α) := natCast_pos'' hN
  have hbpos : 0 < b := by rw [hb]; exact div_pos hm hNp
  obtain ⟨hbhp, _, hbhle⟩ := fp_bh_bounds hbpos hub1 hbh
  have hmb : m = (N : α) * b := by rw [hb]; field_simp
  have hxb : |x / bh| * bh = |x| := by rw [abs_div, abs_of_pos hbhp, div_mul_cancel₀ _ hbhp.ne']
  have h1 : |rh * bh - x| ≤ ur * |x| := by
    have e : rh * bh - x = (rh - x / bh) * bh := by field_simp
    rw [e, abs_mul, abs_of_pos hbhp]
    calc |rh - x / bh| * bh ≤ ur * |x / bh| * bh := mul_le_mul_of_nonneg_right hrh hbhp.le
      _ = ur * |x| := by rw [mul_assoc, hxb]
  have h2 : |(q : α) * bh - rh * bh| ≤ bh / 2 := by
    rw [← sub_mul, abs_mul, abs_of_pos hbhp]
    calc |(q : α) - rh| * bh ≤ 1 / 2 * bh := mul_le_mul_of_nonneg_right hq hbhp.le
      _ = bh / 2 := by ring
  have h3 : |(q : α) * bh - x| ≤ ur * |x| + bh / 2 := by
    have := abs_sub_le ((q : α) * bh) (rh * bh) x
    linarith
  have h4 : |(q : α) * bh| ≤ |x| + (ur * |x| + bh / 2) := by
    have := abs_sub_abs_le_abs_sub ((q : α) * bh) x
    linarith
  have h5 : |y - (q : α) * bh| ≤ um * (|x| + (ur * |x| + bh / 2)) :=
    le_trans hy (mul_le_mul_of_nonneg_left h4 hum)
  have h6 : |y - x| ≤ |x| * (ur + um + ur * um) + bh * ((1 + um) / 2) := by
    have := abs_sub_le y ((q : α) * bh) x
    nlinarith
  have hc : 0 ≤ ur + um + ur * um := by positivity
  have h7 : |x| * (ur + um + ur * um) ≤ (N : α) * b * (ur + um + ur * um) := by
    apply mul_le_mul_of_nonneg_right _ hc
    rw [← hmb]; exact hx
  have h8 : bh * ((1 + um) / 2) ≤ b * (1 + ub) * ((1 + um) / 2) :=
    mul_le_mul_of_nonneg_right hbhle (by positivity)
  calc |y - x| ≤ (N : α) * b * (ur + um + ur * um) + b * (1 + ub) * ((1 + um) / 2) := by linarith
    _ = ((1 + ub) * (1 + um) / 2 + (N : α) * (ur + um + ur * um)) * b := by ring

/-- the computed ratio stays below `N + 1/2` in magnitude -/
theorem fp_ratio_lt (hN : 1 ≤ N) (hb : b = m / (N : α)) (hm : 0 < m) (hx : |x| ≤ m)
    (hub0 : 0 ≤ ub) (hub1 : ub < 1) (hur : 0 ≤ ur)
    (hbh : |bh - b| ≤ ub * b)
    (hrh : |rh - x / bh| ≤ ur * |x / bh|)
    (hcond : (N : α) * (1 + ur) < ((N : α) + 1 / 2) * (1 - ub)) :
    |rh| < (N : α) + 1 / 2 := by
  have hNp : (0 : α) < (N : α) := natCast_pos'' hN
  have hbpos : 0 < b := by rw [hb]; exact div_pos hm hNp
  obtain ⟨hbhp, hbhge, _⟩ := fp_bh_bounds hbpos hub1 hbh
  have hmb : m = (N : α) * b := by rw [hb]; field_simp
  have hxb : |x / bh| * bh = |x| := by rw [abs_div, abs_of_pos hbhp, div_mul_cancel₀ _ hbhp.ne']
  have h1ub : 0 < 1 - ub := by linarith
  -- |x/bh| (1-ub) ≤ N
  have hA : |x / bh| * (1 - ub) ≤ (N : α) := by
    have h : |x / bh| * (b * (1 - ub)) ≤ (N : α) * b := by
      calc |x / bh| * (b * (1 - ub)) ≤ |x / bh| * bh := mul_le_mul_of_nonneg_left hbhge (abs_nonneg _)
        _ = |x| := hxb
        _ ≤ m := hx
        _ = (N : α) * b := hmb
    have h' : (|x / bh| * (1 - ub)) * b ≤ (N : α) * b := by linarith [h]
    exact le_of_mul_le_mul_right h' hbpos
  have hB : |rh| ≤ (1 + ur) * |x / bh| := by
    have := abs_sub_abs_le_abs_sub rh (x / bh)
    linarith
  have hC : |rh| * (1 - ub) ≤ (1 + ur) * (N : α) := by
    calc |rh| * (1 - ub) ≤ (1 + ur) * |x / bh| * (1 - ub) := mul_le_mul_of_nonneg_right hB h1ub.le
      _ = (1 + ur) * (|x / bh| * (1 - ub)) := by ring
      _ ≤ (1 + ur) * (N : α) := mul_le_mul_of_nonneg_left hA (by linarith)
  have hD : |rh| * (1 - ub) < ((N : α) + 1 / 2) * (1 - ub) := by linarith
  exact lt_of_mul_lt_mul_right hD h1ub.le

/-- an integer within 1/2 of a number of magnitude `< N + 1/2` has magnitude `≤ N` -/
theorem int_abs_le_of_near (hq : |(q : α) - rh| ≤ 1 / 2) (hr : |rh| < (N : α) + 1 / 2) :
    |q| ≤ (N : Int) := by
  have h1 := abs_le.mp hq
  have h2 := abs_lt.mp hr
  rw [abs_le]
  constructor
  · have : ((-(N : Int) - 1 : Int) : α) < (q : α) := by push_cast; linarith [h1.1, h2.1]
    have := Int.cast_lt.mp this
    omega
  · have : (q : α) < (((N : Int) + 1 : Int) : α) := by push_cast; linarith [h1.2, h2.2]
    have := Int.cast_lt.mp this
    omega

/-- no wrap: the stored integer stays in `[-N, N]` -/
theorem fp_nowrap_core (hN : 1 ≤ N) (hb : b = m / (N : α)) (hm : 0 < m) (hx : |x| ≤ m)
    (hub0 : 0 ≤ ub) (hub1 : ub < 1) (hur : 0 ≤ ur)
    (hbh : |bh - b| ≤ ub * b)
    (hrh : |rh - x / bh| ≤ ur * |x / bh|)
    (hq : |(q : α) - rh| ≤ 1 / 2)
    (hcond : (N : α) * (1 + ur) < ((N : α) + 1 / 2) * (1 - ub)) :
    |q| ≤ (N : Int) :=
  int_abs_le_of_near hq (fp_ratio_lt hN hb hm hx hub0 hub1 hur hbh hrh hcond)

/-- the entry of largest magnitude is still stored as `±N` -/
theorem fp_maxhit_core (hN : 1 ≤ N) (hb : b = m / (N : α)) (hm : 0 < m) (hx : |x| = m)
    (hub0 : 0 ≤ ub) (hub1 : ub < 1) (hur : 0 ≤ ur)
    (hbh : |bh - b| ≤ ub * b)
    (hrh : |rh - x / bh| ≤ ur * |x / bh|)
    (hq : |(q : α) - rh| ≤ 1 / 2)
    (hcond : (N : α) * (1 + ur) < ((N : α) + 1 / 2) * (1 - ub)) :
    |q| = (N : Int) := by
  have hle := fp_nowrap_core hN hb hm hx.le hub0 hub1 hur hbh hrh hq hcond
  apply le_antisymm hle
  have hNp : (0 : α) < (N : α) := natCast_pos'' hN
  have hN1 : (1 : α) ≤ (N : α) := by exact_mod_cast hN
  have hbpos : 0 < b := by rw [hb]; exact div_pos hm hNp
  obtain ⟨hbhp, _, hbhle⟩ := fp_bh_bounds hbpos hub1 hbh
  have hmb : m = (N : α) * b := by rw [hb]; field_simp
  have hxb : |x / bh| * bh = |x| := by rw [abs_div, abs_of_pos hbhp, div_mul_cancel₀ _ hbhp.ne']
  have hur1 : ur < 1 / 2 := by nlinarith
  -- N ≤ |x/bh| (1+ub)
  have hA : (N : α) ≤ |x / bh| * (1 + ub) := by
    have h : (N : α) * b ≤ |x / bh| * (b * (1 + ub)) := by
      calc (N : α) * b = |x| := by rw [hx, hmb]
        _ = |x / bh| * bh := hxb.symm
        _ ≤ |x / bh| * (b * (1 + ub)) := mul_le_mul_of_nonneg_left hbhle (abs_nonneg _)
    have h' : (N : α) * b ≤ (|x / bh| * (1 + ub)) * b := by linarith [h]
    exact le_of_mul_le_mul_right h' hbpos
  have hB : (1 - ur) * |x / bh| ≤ |rh| := by
    have := abs_sub_abs_le_abs_sub (x / bh) rh
    rw [abs_sub_comm] at this
    linarith
  have hC : (1 - ur) * (N : α) ≤ |rh| * (1 + ub) := by
    calc (1 - ur) * (N : α) ≤ (1 - ur) * (|x / bh| * (1 + ub)) :=
          mul_le_mul_of_nonneg_left hA (by linarith)
      _ = (1 - ur) * |x / bh| * (1 + ub) := by ring
      _ ≤ |rh| * (1 + ub) := mul_le_mul_of_nonneg_right hB (by linarith)
  have hD : ((N : α) - 1 / 2) * (1 + ub) < |rh| * (1 + ub) := by nlinarith
  have hE : (N : α) - 1 / 2 < |rh| := lt_of_mul_lt_mul_right hD (by linarith)
  -- |q| ≥ |rh| - 1/2 > N - 1
  have hF : |rh| - 1 / 2 ≤ |(q : α)| := by
    have := abs_sub_abs_le_abs_sub rh (q : α)
    rw [abs_sub_comm] at this
    linarith
  have hG : (((N : Int) - 1 : Int) : α) < ((|q| : Int) : α) := by
    push_cast; linarith
  have := Int.cast_lt.mp hG
  omega

end core

/-! ### the model in rounded arithmetic -/

variable [HasFloor α] [LawfulFloor α]

section columnFl
variable {N : Nat} (hN : 1 ≤ N) (col : List α) {fl : α → α} {u : α}
include hN

theorem bucketSizeFl_err (hu : 0 ≤ u) (hfl : ∀ t, FlOK fl u t) (rb : Bool) :
    |bucketSizeFl fl rb N col - bucketSize N col| ≤ opErr rb u * bucketSize N col := by
  have h : |bucketSizeFl fl rb N col - bucketSize N col| ≤ opErr rb u * |bucketSize N col| :=
    divFl_err hu hfl rb (maxAbs col) (N : α)
  rw [abs_of_nonneg (bucketSize_nonneg hN col)] at h
  exact h

theorem bucketSizeFl_pos (hu : 0 ≤ u) (hfl : ∀ t, FlOK fl u t) (rb : Bool) (hub1 : opErr rb u < 1)
    (hm : 0 < maxAbs col) : 0 < bucketSizeFl fl rb N col :=
  (fp_bh_bounds ((bucketSize_pos_iff hN col).mpr hm) hub1 (bucketSizeFl_err hN col hu hfl rb)).1

/-- the hypotheses of the core lemmas hold for what the model computes for an entry of a non-zero column -/
theorem quantEntryFl_spec (hu : 0 ≤ u) (hfl : ∀ t, FlOK fl u t) (rb rr : Bool) (hub1 : opErr rb u < 1)
    (hm : 0 < maxAbs col) (x : α) :
    let B := bucketSizeFl fl rb N col
    let rh := divFl fl rr x B
    let q := quantEntryFl fl rr B x
    |B - bucketSize N col| ≤ opErr rb u * bucketSize N col ∧
    |rh - x / B| ≤ opErr rr u * |x / B| ∧
    |(q : α) - rh| ≤ 1 / 2 ∧
    |dequantEntryFl fl B q - (q : α) * B| ≤ u * |(q : α) * B| := by
  intro B rh q
  have hBpos : 0 < B := bucketSizeFl_pos hN col hu hfl rb hub1 hm
  have hnz : bucketNZ B = B := by unfold bucketNZ; rw [if_pos hBpos]
  refine ⟨bucketSizeFl_err hN col hu hfl rb, divFl_err hu hfl rr x B, ?_, hfl _⟩
  have : q = roundHalfEven rh := by
    show roundHalfEven (divFl fl rr x (bucketNZ B)) = roundHalfEven (divFl fl rr x B)
    rw [hnz]
  rw [this]
  exact round_err rh

/-- round trip of one entry in rounded arithmetic -/
theorem quantEntryFl_err (hu : 0 ≤ u) (hfl : ∀ t, FlOK fl u t) (rb rr : Bool) (hub1 : opErr rb u < 1)
    (hm : 0 < maxAbs col) {x : α} (hx : x ∈ col) :
    |dequantEntryFl fl (bucketSizeFl fl rb N col) (quantEntryFl fl rr (bucketSizeFl fl rb N col) x) - x|
      ≤ ((1 + opErr rb u) * (1 + u) / 2 + (N : α) * (opErr rr u + u + opErr rr u * u))
          * bucketSize N col := by
  obtain ⟨h1, h2, h3, h4⟩ := quantEntryFl_spec hN col hu hfl rb rr hub1 hm x
  exact fp_core hN rfl hm (le_maxAbs hx) (opErr_nonneg hu rb) hub1 (opErr_nonneg hu rr) hu h1 h2 h3 h4

/-- no wrap of one entry in rounded arithmetic -/
theorem quantEntryFl_abs_le (hu : 0 ≤ u) (hfl : ∀ t, FlOK fl u t) (rb rr : Bool) (hub1 : opErr rb u < 1)
    (hcond : (N : α) * (1 + opErr rr u) < ((N : α) + 1 / 2) * (1 - opErr rb u))
    (hm : 0 < maxAbs col) {x : α} (hx : x ∈ col) :
    |quantEntryFl fl rr (bucketSizeFl fl rb N col) x| ≤ (N : Int) := by
  obtain ⟨h1, h2, h3, _⟩ := quantEntryFl_spec hN col hu hfl rb rr hub1 hm x
  exact fp_nowrap_core hN rfl hm (le_maxAbs hx) (opErr_nonneg hu rb) hub1 (opErr_nonneg hu rr) h1 h2 h3 hcond

/-- the largest entry is stored as `±N` in rounded arithmetic -/
theorem quantEntryFl_max (hu : 0 ≤ u) (hfl : ∀ t, FlOK fl u t) (rb rr : Bool) (hub1 : opErr rb u < 1)
    (hcond : (N : α) * (1 + opErr rr u) < ((N : α) + 1 / 2) * (1 - opErr rb u))
    (hm : 0 < maxAbs col) :
    ∃ x ∈ col, |quantEntryFl fl rr (bucketSizeFl fl rb N col) x| = (N : Int) := by
  rcases maxAbs_attained col with h | ⟨x, hx, h⟩
  · exact absurd h hm.ne'
  · obtain ⟨h1, h2, h3, _⟩ := quantEntryFl_spec hN col hu hfl rb rr hub1 hm x
    exact ⟨x, hx, fp_maxhit_core hN rfl hm h (opErr_nonneg hu rb) hub1 (opErr_nonneg hu rr) h1 h2 h3 hcond⟩

end columnFl

/-- a zero entry: `fl 0 = 0` follows from the relative-error hypothesis -/
theorem fl_zero {fl : α → α} {u : α} (hfl : ∀ t, FlOK fl u t) : fl 0 = 0 := by
  have := hfl 0
  unfold FlOK at this
  simp only [abs_zero, mul_zero, sub_zero] at this
  exact abs_eq_zero.mp (le_antisymm this (abs_nonneg _))

theorem quantEntryFl_zero {fl : α → α} {u : α} (hfl : ∀ t, FlOK fl u t) (rr : Bool) (b : α) :
    quantEntryFl fl rr b (0 : α) = 0 := by
  unfold quantEntryFl divFl
  cases rr <;> simp [fl_zero hfl, round_zero]

theorem dequantEntryFl_zero {fl : α → α} {u : α} (hfl : ∀ t, FlOK fl u t) (b : α) :
    dequantEntryFl fl b 0 = 0 := by
  unfold dequantEntryFl; simp [fl_zero hfl]

/-! ### tensors -/

omit [IsStrictOrderedRing α] [LawfulFloor α] in
@[simp] theorem quantizeFl_bucket (fl : α → α) (rb rr : Bool) (N rows cols : Nat) (ed : Bool)
    (x : Nat → Nat → α) (c : Nat) :
    (quantizeFl fl rb rr N rows cols ed x).bucket c = bucketSizeFl fl rb N (column rows (pre ed x) c) := by
  simp only [quantizeFl, lookup_table]

omit [IsStrictOrderedRing α] [LawfulFloor α] in
@[simp] theorem quantizeFl_q (fl : α → α) (rb rr : Bool) (N rows cols : Nat) (ed : Bool)
    (x : Nat → Nat → α) (i c : Nat) :
    (quantizeFl fl rb rr N rows cols ed x).q i c
      = quantEntryFl fl rr (bucketSizeFl fl rb N (column rows (pre ed x) c)) (pre ed x i c) := by
  simp only [quantizeFl, lookup_table]

omit [IsStrictOrderedRing α] [LawfulFloor α] in
@[simp] theorem quantizeFl_diag (fl : α → α) (rb rr : Bool) (N rows cols : Nat) (ed : Bool)
    (x : Nat → Nat → α) (i : Nat) :
    (quantizeFl fl rb rr N rows cols ed x).diag i = if ed then x i i else 0 := by
  simp only [quantizeFl]

/-- entrywise: the round-trip difference is the difference on the bucketed (off-diagonal) part -/
theorem dequantizeFl_sub {fl : α → α} {u : α} (hfl : ∀ t, FlOK fl u t) (rb rr : Bool)
    (N rows cols : Nat) (ed : Bool) (x : Nat → Nat → α) (i c : Nat) :
    dequantizeFl fl ed (quantizeFl fl rb rr N rows cols ed x) i c - x i c
      = dequantEntryFl fl (bucketSizeFl fl rb N (column rows (pre ed x) c))
          (quantEntryFl fl rr (bucketSizeFl fl rb N (column rows (pre ed x) c)) (pre ed x i c))
        - pre ed x i c := by
  conv_lhs => rw [pre_add ed x i c]
  cases ed
  · simp [dequantizeFl]
  · by_cases hic : i = c
    · subst hic
      simp [dequantizeFl, pre_diag, quantEntryFl_zero hfl, dequantEntryFl_zero hfl]
    · simp [dequantizeFl, hic]

end

end PrecondVerif.Quant
