/- Helper lemmas for the layout calculus (C07). Core Lean only. -/
import PrecondVerif.Model.Layout
import PrecondVerif.Lemmas.Shapes
namespace PrecondVerif.Layout
open PrecondVerif.Shapes

theorem le_maxList {x : Nat} {l : List Nat} (h : x ∈ l) : x ≤ maxList l := by
  induction l with
  | nil => cases h
  | cons a t ih =>
    simp only [maxList, List.foldr_cons]
    rcases List.mem_cons.mp h with rfl | h'
    · exact Nat.le_max_left _ _
    · exact Nat.le_trans (ih h') (Nat.le_max_right _ _)

theorem pshapes_snd (c : Cfg) (shape : List Nat) : ∀ p ∈ pshapes c shape, p.2 = precondDim c.r p.1 := by
  intro p hp
  simp only [pshapes, shapesForPreconditioners, List.mem_flatMap, List.mem_map] at hp
  obtain ⟨t, _, d, _, rfl⟩ := hp
  rfl

theorem mapE_zip_map {α β} (f : α × β → Except Err β) (g : α → β) (l : List α)
    (h : ∀ a ∈ l, f (a, g a) = .ok (g a)) : mapE f (l.zip (l.map g)) = .ok (l.map g) := by
  induction l with
  | nil => rfl
  | cons a t ih =>
    have h1 := h a (List.mem_cons_self)
    have h2 := ih (fun b hb => h b (List.mem_cons_of_mem _ hb))
    simp only [List.map_cons, List.zip_cons_cons, mapE, h1, h2, bind, Except.bind, pure, Except.pure]

theorem zipWithE_map {α β γ} (F : β → γ → Except Err γ) (a : α → β) (b : α → γ) (l : List α)
    (h : ∀ p ∈ l, F (a p) (b p) = .ok (b p)) : zipWithE F (l.map a) (l.map b) = .ok (l.map b) := by
  induction l with
  | nil => rfl
  | cons x t ih =>
    have h1 := h x (List.mem_cons_self)
    have h2 := ih (fun y hy => h y (List.mem_cons_of_mem _ hy))
    simp only [List.map_cons, zipWithE, h1, h2, bind, Except.bind, pure, Except.pure]

theorem matOf_dim0 (c : Cfg) (d e : Nat) : (matOf c d e).dim0 = d := by
  unfold matOf; split <;> rfl

/-- slicing the padded root back gives the initial preconditioner shape -/
theorem newPrecond_eq (c : Cfg) (maxSize d : Nat) (hd : d ≤ maxSize)
    (hr : c.r = 0 ∨ c.r + 2 < maxSize) : newPrecond c maxSize d = matOf c d (precondDim c.r d) := by
  unfold newPrecond
  have h1 : min d maxSize = d := Nat.min_eq_left hd
  have h2 : min d (precondDim c.r maxSize) = precondDim c.r d := by
    unfold precondDim
    rcases hr with h0 | hlt
    · simp [h0, h1]
    · by_cases h0 : c.r = 0
      · simp [h0, h1]
      · have : ¬ (c.r + 2 ≥ maxSize) := by omega
        simp only [h0, if_false, this]
        by_cases h3 : c.r + 2 ≥ d
        · simp only [h3, if_true]; exact Nat.min_eq_left h3
        · simp only [h3, if_false]; exact Nat.min_eq_right (by omega)
  rw [h1, h2]

theorem initParam_st (c : Cfg) (shape : List Nat) :
    (initParam c shape).st = (if skipParam c shape then [] else pshapes c shape).map fun p => matOf c p.1 p.1 := rfl

theorem computeStats_init (c : Cfg) (shape : List Nat) :
    computeStats c shape (initParam c shape) = .ok ((initParam c shape).st, (initParam c shape).ag) := by
  unfold computeStats
  by_cases hs : skipParam c shape = true
  · simp [hs, initParam]
  · have hs' : skipParam c shape = false := by simpa using hs
    simp only [hs', Bool.false_eq_true, if_false]
    have hst : (initParam c shape).st = (pshapes c shape).map fun p => matOf c p.1 p.1 := by
      simp [initParam, hs']
    have hag : (initParam c shape).ag = avgGradOf c shape := rfl
    rw [hst, hag]
    by_cases ha : (c.fd && c.avgGrad) = true
    · simp [avgGradOf, ha, f32Leaf, bind, Except.bind, pure, Except.pure]
    · have ha' : (c.fd && c.avgGrad) = false := by simpa using ha
      simp [avgGradOf, ha', bind, Except.bind, pure, Except.pure]


theorem momQV_shapeIs (c : Cfg) (shape : List Nat) : qvShapeIs (momQV c shape) shape = true := by
  unfold momQV qvShapeIs
  by_cases h : (c.memReduction && decide (shape.length > 1)) = true <;> simp [h, plainQV, f32Leaf]

theorem transformGrad_init (c : Cfg) (shape : List Nat) :
    transformGrad c shape (initParam c shape) =
      .ok ((initParam c shape).ds, (initParam c shape).dm, (initParam c shape).m) := by
  unfold transformGrad
  have hdm : (initParam c shape).dm = momQV c shape := rfl
  have hm : (initParam c shape).m = momQV c shape := rfl
  rw [hdm, hm]
  by_cases hg : c.graftHasDiag = true
  · simp [initParam, hg, plainQV, f32Leaf, momQV_shapeIs, bind, Except.bind, pure, Except.pure]
  · have hg' : c.graftHasDiag = false := by simpa using hg
    simp [initParam, hg', emptyQV, momQV_shapeIs, bind, Except.bind, pure, Except.pure]

theorem computePrecond_init (c : Cfg) (maxSize : Nat) (shape : List Nat)
    (hd : ∀ d ∈ statDims c shape, d ≤ maxSize) (hr : c.r = 0 ∨ c.r + 2 < maxSize) :
    computePrecond c maxSize (initParam c shape).st (initParam c shape) =
      .ok ((initParam c shape).pr, (initParam c shape).tm) := by
  unfold computePrecond
  generalize hdims : (if skipParam c shape then [] else pshapes c shape) = dims
  have hst : (initParam c shape).st = dims.map fun p => matOf c p.1 p.1 := by simp [initParam, hdims]
  have hpr : (initParam c shape).pr = dims.map fun p => matOf c p.1 p.2 := by simp [initParam, hdims]
  have htm : (initParam c shape).tm = metricsOf c dims.length := by simp [initParam, hdims]
  have hsub : ∀ p ∈ dims, p ∈ pshapes c shape ∧ p.1 ≤ maxSize := by
    intro p hp
    by_cases hs : skipParam c shape = true
    · simp [hs] at hdims; subst hdims; cases hp
    · have hs' : skipParam c shape = false := by simpa using hs
      simp [hs'] at hdims; subst hdims
      refine ⟨hp, hd p.1 ?_⟩
      simp only [statDims, hs', Bool.false_eq_true, if_false, List.mem_map]
      exact ⟨p, hp, rfl⟩
  rw [hst, hpr, htm]
  cases dims with
  | nil => simp
  | cons p t =>
    have hz : zipWithE (selectPrecond c maxSize)
        ((p :: t).map fun p => matOf c p.1 p.1) ((p :: t).map fun p => matOf c p.1 p.2)
        = .ok ((p :: t).map fun p => matOf c p.1 p.2) := by
      apply zipWithE_map
      intro q hq
      obtain ⟨hq1, hq2⟩ := hsub q hq
      have h2 := pshapes_snd c shape q hq1
      unfold selectPrecond
      rw [matOf_dim0, newPrecond_eq c maxSize q.1 hq2 hr, h2]
      simp
    have hm : metricsCarry c ((p :: t).map fun p => matOf c p.1 p.1).length (metricsOf c (p :: t).length)
        = .ok (metricsOf c (p :: t).length) := by
      unfold metricsCarry metricsOf
      by_cases htmm : c.trainMetrics = true <;> simp [htmm]
    have hne : ((p :: t).map fun p => matOf c p.1 p.1) ≠ [] := by simp
    rw [if_neg hne, if_neg (by simp), hz, hm]


theorem stepParam_init (c : Cfg) (maxSize : Nat) (noStats : Bool) (shape : List Nat)
    (h : noStats = false → (∀ d ∈ statDims c shape, d ≤ maxSize) ∧ (c.r = 0 ∨ c.r + 2 < maxSize)) :
    stepParam c maxSize noStats (shape, initParam c shape) = .ok (initParam c shape) := by
  unfold stepParam
  cases noStats with
  | true =>
    simp [computeStats_init, transformGrad_init, bind, Except.bind, pure, Except.pure]
  | false =>
    obtain ⟨hd, hr⟩ := h rfl
    simp [computeStats_init, transformGrad_init, computePrecond_init c maxSize shape hd hr,
      bind, Except.bind, pure, Except.pure]

/-- condition under which the update of the initial layout is rejected (explanatory) -/
def stepRejects (c : Cfg) (ps : List (List Nat)) : Option Err :=
  let dims := ps.flatMap (statDims c)
  if dims = [] then none else rootReject c (maxList dims) .update

theorem layoutStep_init (c : Cfg) (ps : List (List Nat)) :
    layoutStep c ps (initLayout c ps) =
      (match stepRejects c ps with
       | some e => .error e
       | none => .ok (initLayout c ps)) := by
  unfold layoutStep stepRejects
  simp only [initLayout, List.length_map, ne_eq, not_true_eq_false, if_false]
  generalize hdims : ps.flatMap (statDims c) = dims
  by_cases hnil : dims = []
  · subst hnil
    simp only [if_true]
    rw [mapE_zip_map]
    · rfl
    · intro s _
      have := stepParam_init c (maxList []) (decide (([] : List Nat) = [])) s (by simp)
      simpa using this
  · simp only [hnil, if_false]
    cases hrej : rootReject c (maxList dims) .update with
    | some e => rfl
    | none =>
      simp only []
      have hr : c.r = 0 ∨ c.r + 2 < maxList dims := by
        unfold rootReject at hrej
        by_cases h1 : c.compRank ≠ 0 ∧ c.r + 2 ≥ maxList dims
        · simp [h1] at hrej
        · by_cases h0 : c.compRank = 0
          · left; simp [Cfg.r, h0]
          · right
            have : ¬ (c.r + 2 ≥ maxList dims) := fun h => h1 ⟨h0, h⟩
            omega
      rw [mapE_zip_map]
      · rfl
      · intro s hs
        have := stepParam_init c (maxList dims) false s (by
          intro _
          refine ⟨?_, hr⟩
          intro d hd
          apply le_maxList
          rw [← hdims]
          exact List.mem_flatMap.mpr ⟨s, hs, hd⟩)
        simpa using this


theorem layoutSteps_init (c : Cfg) (ps : List (List Nat)) (h : stepRejects c ps = none) (k : Nat) :
    layoutSteps c ps k (initLayout c ps) = .ok (initLayout c ps) := by
  induction k with
  | zero => rfl
  | succ k ih =>
    simp only [layoutSteps, layoutStep_init, h, bind, Except.bind, ih]

theorem layoutSteps_init_rejected (c : Cfg) (ps : List (List Nat)) (e : Err) (h : stepRejects c ps = some e) (k : Nat) :
    layoutSteps c ps (k + 1) (initLayout c ps) = .error e := by
  simp only [layoutSteps, layoutStep_init, h, bind, Except.bind]

theorem rootReject_not_internal (c : Cfg) (m : Nat) (ph : Phase) (e : Err) (h : rootReject c m ph = some e) :
    e.isInternal = false := by
  unfold rootReject at h
  split at h
  · cases h; rfl
  · split at h
    · cases h; rfl
    · cases h

theorem stepRejects_not_internal (c : Cfg) (ps : List (List Nat)) (e : Err) (h : stepRejects c ps = some e) :
    e.isInternal = false := by
  unfold stepRejects at h
  simp only [] at h
  split at h
  · cases h
  · exact rootReject_not_internal _ _ _ _ h

theorem validate_not_internal (c : Cfg) (e : Err) (h : validate c = .error e) : e.isInternal = false := by
  unfold validate at h
  repeat' split at h
  all_goals first | (cases h; rfl) | cases h

/-! SM3 -/
theorem sm3StepParam_init (shape : List Nat) : sm3StepParam (shape, sm3InitParam shape) = .ok (sm3InitParam shape) := by
  simp [sm3StepParam, sm3InitParam, sm3MomQV, pure, Except.pure]

theorem sm3Step_init (ps : List (List Nat)) : sm3Step ps (ps.map sm3InitParam) = .ok (ps.map sm3InitParam) := by
  unfold sm3Step
  simp only [List.length_map, ne_eq, not_true_eq_false, if_false]
  exact mapE_zip_map _ _ _ (fun s _ => sm3StepParam_init s)

/-! Tearfree -/
theorem mapE_length {α β} (f : α → Except Err β) : ∀ (l : List α) (r : List β), mapE f l = .ok r → r.length = l.length
  | [], r, h => by simp [mapE, pure, Except.pure] at h; subst h; rfl
  | a :: t, r, h => by
    simp only [mapE, bind, Except.bind] at h
    cases ha : f a with
    | error e => simp [ha] at h
    | ok x =>
      cases ht : mapE f t with
      | error e => simp [ha, ht] at h
      | ok xs =>
        simp [ha, ht, pure, Except.pure] at h
        subst h
        simp [mapE_length f t xs ht]

theorem mapE_zip_of_mapE {α β} (f : α → Except Err β) (g : α × β → Except Err β)
    (hg : ∀ a b, f a = .ok b → g (a, b) = .ok b) :
    ∀ (l : List α) (r : List β), mapE f l = .ok r → mapE g (l.zip r) = .ok r
  | [], r, h => by simp [mapE, pure, Except.pure] at h; subst h; rfl
  | a :: t, r, h => by
    simp only [mapE, bind, Except.bind] at h
    cases ha : f a with
    | error e => simp [ha] at h
    | ok x =>
      cases ht : mapE f t with
      | error e => simp [ha, ht] at h
      | ok xs =>
        simp [ha, ht, pure, Except.pure] at h
        subst h
        simp only [List.zip_cons_cons, mapE, hg a x ha, mapE_zip_of_mapE f g hg t xs ht, bind, Except.bind, pure, Except.pure]

theorem tfStepParam_of_tfParam (c : TFCfg) (a : TFInput) (b : TFParam) (h : tfParam c a = .ok b) :
    tfStepParam c (a, b) = .ok b := by
  simp [tfStepParam, h, pure, Except.pure]

/-- shape of a successful `tfInit` -/
theorem tfInit_ok (c : TFCfg) (ps : List (List Nat)) (L : TFLayout) (h : tfInit c ps = .ok L) :
    tfValidate c = .ok () ∧ mapE (tfParam c) (tfInputs c ps) = .ok L.params ∧ L.inputs = tfInputs c ps := by
  unfold tfInit at h
  simp only [bind, Except.bind] at h
  cases hv : tfValidate c with
  | error e => simp [hv] at h
  | ok u =>
    cases hm : mapE (tfParam c) (tfInputs c ps) with
    | error e => simp [hv, hm] at h
    | ok l =>
      simp [hv, hm, pure, Except.pure] at h
      subst h
      exact ⟨rfl, rfl, rfl⟩

theorem tfStep_init (c : TFCfg) (ps : List (List Nat)) (L : TFLayout) (h : tfInit c ps = .ok L) :
    tfStep c L = .ok L := by
  obtain ⟨_, hm, hin⟩ := tfInit_ok c ps L h
  unfold tfStep
  have hl := mapE_length _ _ _ hm
  rw [← hin] at hm hl
  simp only [hl, ne_eq, not_true_eq_false, if_false]
  simp only [mapE_zip_of_mapE (tfParam c) (tfStepParam c) (tfStepParam_of_tfParam c) L.inputs L.params hm,
    bind, Except.bind, pure, Except.pure]

theorem tfSteps_init (c : TFCfg) (ps : List (List Nat)) (L : TFLayout) (h : tfInit c ps = .ok L) (k : Nat) :
    tfSteps c k L = .ok L := by
  induction k with
  | zero => rfl
  | succ k ih => simp only [tfSteps, tfStep_init c ps L h, bind, Except.bind, ih]

theorem mapE_error {α β} (f : α → Except Err β) : ∀ (l : List α) (e : Err), mapE f l = .error e →
    ∃ a ∈ l, f a = .error e
  | [], e, h => by simp [mapE, pure, Except.pure] at h
  | a :: t, e, h => by
    simp only [mapE, bind, Except.bind] at h
    cases ha : f a with
    | error e' =>
      simp [ha] at h
      subst h
      exact ⟨a, List.mem_cons_self, ha⟩
    | ok x =>
      cases ht : mapE f t with
      | error e' =>
        simp [ha, ht] at h
        subst h
        obtain ⟨b, hb, hfb⟩ := mapE_error f t _ ht
        exact ⟨b, List.mem_cons_of_mem _ hb, hfb⟩
      | ok xs => simp [ha, ht, pure, Except.pure] at h

theorem tfValidate_error (c : TFCfg) (e : Err) (h : tfValidate c = .error e) :
    e = .reject .construct .valueError := by
  unfold tfValidate at h
  split at h
  · simp [rejC] at h; exact h.symm
  · cases h

/-- an accepted Sketchy configuration carries its options object -/
theorem tfValidate_sk (c : TFCfg) (h : tfValidate c = .ok ()) (hs : c.sketchy = true) : c.sk ≠ none := by
  intro hn
  unfold tfValidate at h
  have : tfInvalid c = true := by simp [tfInvalid, hs, hn]
  simp [this, rejC] at h

theorem tfParam_error (c : TFCfg) (x : TFInput) (e : Err) (hsk : c.sketchy = true → c.sk ≠ none)
    (h : tfParam c x = .error e) : e = .reject .init .valueError := by
  unfold tfParam at h
  simp only [] at h
  split at h
  · cases h
  · split at h
    · rename_i hs
      split at h
      · cases h
      · rename_i hn; exact absurd hn (hsk hs)
    · repeat' split at h
      all_goals first | (cases h; rfl) | cases h

theorem qvSig_momQV (c : Cfg) (shape : List Nat) : qvSig (momQV c shape) = declMom c shape := by
  unfold momQV declMom
  by_cases h : (c.memReduction && decide (shape.length > 1)) = true <;>
    simp [h, qvSig, plainQV, f32Leaf, optLeafSig, leafSig, DT.name, emptyList]

theorem localSig_eq_declLocal (c : Cfg) (shape : List Nat) (ix : Nat) :
    localSig (localOf c shape ix) = declLocal c shape ix := by
  unfold localSig localOf declLocal
  simp only [qvSig_momQV]
  by_cases h : (c.fd && c.avgGrad) = true <;>
    simp [h, avgGradOf, agSig, qvSig, plainQV, f32Leaf, optLeafSig, leafSig, DT.name, emptyList]

theorem maxList_eq_zero_iff {l : List Nat} (hpos : ∀ d ∈ l, 0 < d) : maxList l = 0 ↔ l = [] := by
  constructor
  · intro h
    cases l with
    | nil => rfl
    | cons a t =>
      have := le_maxList (List.mem_cons_self : a ∈ a :: t)
      have := hpos a List.mem_cons_self
      omega
  · intro h; subst h; rfl

theorem negMod_zero (k : Nat) : negMod 0 k = 0 := by
  unfold negMod
  simp

/-- the padded global sizes computed by `sharded_init_fn` and by `sharded_init_shape_and_dtype_fn` agree -/
theorem globalDims_eq_decl (c : Cfg) (ps : List (List Nat))
    (hpos : ∀ d ∈ ps.flatMap (statDims c), 0 < d) :
    (let dims := ps.flatMap (statDims c)
     let n1 := dims.length + negMod dims.length c.ndev
     if n1 = 0 then (c.ndev, max c.blockSize 1) else (n1, maxList dims)) = globalDims c ps := by
  unfold globalDims
  simp only []
  generalize ps.flatMap (statDims c) = dims at hpos ⊢
  by_cases hnil : dims = []
  · subst hnil
    simp [maxList, negMod_zero]
  · have hm : maxList dims ≠ 0 := fun h => hnil ((maxList_eq_zero_iff hpos).mp h)
    have hl : dims.length ≠ 0 := fun h => hnil (List.length_eq_zero_iff.mp h)
    have hn : dims.length + negMod dims.length c.ndev ≠ 0 := by omega
    rw [if_neg hn, if_neg hm]

theorem not_shardedInitRejects (c : Cfg) (ps : List (List Nat)) (h : ¬ (shardedInitRejects c ps = true)) :
    ¬ (c.compRank ≠ 0 ∧ c.r + 2 ≥ (globalDims c ps).2) := by
  intro ⟨h1, h2⟩
  apply h
  simp [shardedInitRejects, h1, h2]

theorem shardedInit_decl (c : Cfg) (ps : List (List Nat)) (L : ShardedLayout)
    (hpos : ∀ d ∈ ps.flatMap (statDims c), 0 < d) (h : shardedInit c ps = .ok L) :
    shapeDtypeDecl c ps = .ok (shardedSig L) := by
  unfold shardedInit at h
  unfold shapeDtypeDecl
  have hg := globalDims_eq_decl c ps hpos
  simp only [] at hg
  simp only [bind, Except.bind] at h ⊢
  cases hv : validate c with
  | error e => simp [hv] at h
  | ok u =>
    simp only [hv] at h ⊢
    rw [hg]
    cases hgd : globalDims c ps with
    | mk n ms =>
      simp only [hgd] at h ⊢
      by_cases hr' : shardedInitRejects c ps = true
      · simp [hr'] at h
      · have hr : ¬ (c.compRank ≠ 0 ∧ c.r + 2 ≥ ms) := by
          have := not_shardedInitRejects c ps hr'
          rwa [hgd] at this
        simp only [hr', hr, Bool.false_eq_true, if_false, pure, Except.pure, Except.ok.injEq] at h ⊢
        subst h
        simp [shardedSig, leafSig, countLeaf, f32Leaf, DT.name, localSig_eq_declLocal, List.map_map, Function.comp_def]


theorem skeleton_specMom (c : Cfg) (s : List Nat) (p : List String) :
    skeleton (specMom c s p) = skeleton (qvSig (momQV c s)) := by
  unfold specMom momQV
  by_cases h : (c.memReduction && decide (s.length > 1)) = true
  · by_cases hlen : p.length > 1 <;>
      simp [h, hlen, skeleton, qvSig, f32Leaf, optLeafSig, leafSig, emptyList, DT.name]
  · have h' : (c.memReduction && decide (s.length > 1)) = false := by simpa using h
    simp [h', skeleton, qvSig, plainQV, f32Leaf, optLeafSig, leafSig, emptyList, DT.name]

theorem skeleton_specLocal (c : Cfg) (s : List Nat) (p : List String) (ix : Nat) :
    skeleton (specLocal c s p ix) = skeleton (localSig (localOf c s ix)) := by
  have hm := skeleton_specMom c s p
  unfold specLocal localSig localOf specTm
  simp only [skeleton, List.map_cons, List.map_nil, hm]
  cases h2 : c.fd <;> cases h2' : c.avgGrad <;>
  cases h3 : c.trainMetrics <;>
  cases h4 : c.genFd <;>
  simp [skeleton, avgGradOf, metricsOf, agSig, tmSig, qvSig, plainQV, f32Leaf, optLeafSig, leafSig,
    emptyList, masked, DT.name, h2, h2', h3, h4]

/-- one partition spec per parameter (of any length: `P()`, `P(None)`, one entry per dimension, ...) -/
def specsFit (ps : List (List Nat)) (pspecs : List (List String)) : Prop := pspecs.length = ps.length

theorem skeleton_locals (c : Cfg) : ∀ (ps : List (List Nat)) (pspecs : List (List String)) (k : Nat),
    specsFit ps pspecs →
    (((ps.zip pspecs).zip (indexStarts c ps k)).map fun x => skeleton (specLocal c x.1.1 x.1.2 x.2)) =
    ((ps.zip (indexStarts c ps k)).map fun x => skeleton (localSig (localOf c x.1 x.2)))
  | [], _, _, _ => by simp [indexStarts]
  | s :: ss, [], _, h => by simp [specsFit] at h
  | s :: ss, p :: pp, k, h => by
    have h2 : specsFit ss pp := by simpa [specsFit] using h
    simp only [indexStarts, List.zip_cons_cons, List.map_cons, skeleton_specLocal c s p k,
      skeleton_locals c ss pp _ h2]

theorem pspecDecl_skeleton (c : Cfg) (ps : List (List Nat)) (pspecs : List (List String)) (statSpec : List String)
    (L : ShardedLayout) (hspec : specsFit ps pspecs)
    (h : shardedInit c ps = .ok L) :
    skeleton (pspecDecl c ps pspecs statSpec) = skeleton (shardedSig L) := by
  unfold shardedInit at h
  simp only [bind, Except.bind] at h
  cases hv : validate c with
  | error e => simp [hv] at h
  | ok u =>
    simp only [hv] at h
    cases hgd : globalDims c ps with
    | mk n ms =>
      simp only [hgd] at h
      by_cases hr : shardedInitRejects c ps = true
      · simp [hr] at h
      · simp only [hr, Bool.false_eq_true, if_false, pure, Except.pure, Except.ok.injEq] at h
        subst h
        have hl := skeleton_locals c ps pspecs 0 hspec
        simp only [pspecDecl, shardedSig, skeleton, List.map_cons, List.map_nil, List.map_map, Function.comp_def, leafSig]
        simp only [Sig.node.injEq, true_and, List.cons.injEq, and_true]
        exact hl


theorem statDims_map_matOf (c : Cfg) (shape : List Nat) :
    (statDims c shape).map (fun d => matOf c d d) = (initParam c shape).st := by
  unfold statDims initParam
  by_cases hs : skipParam c shape = true <;> simp [hs, List.map_map, Function.comp_def]

/-- `computeStats` only reads the statistics list and `avg_grad` -/
theorem computeStats_congr (c : Cfg) (shape : List Nat) (s t : PStats) (h1 : s.st = t.st) (h2 : s.ag = t.ag) :
    computeStats c shape s = computeStats c shape t := by
  unfold computeStats
  rw [h1, h2]

theorem transformGrad_local (c : Cfg) (shape : List Nat) (s : PStats) (h1 : s.ds = plainQV shape)
    (h2 : s.dm = momQV c shape) (h3 : s.m = momQV c shape) :
    transformGrad c shape s = .ok (plainQV shape, momQV c shape, momQV c shape) := by
  unfold transformGrad
  rw [h1, h2, h3]
  by_cases hg : c.graftHasDiag = true
  · simp [hg, plainQV, f32Leaf, momQV_shapeIs, bind, Except.bind, pure, Except.pure]
  · have hg' : c.graftHasDiag = false := by simpa using hg
    simp [hg', plainQV, f32Leaf, momQV_shapeIs, bind, Except.bind, pure, Except.pure]

theorem shardedStepLocal_init (c : Cfg) (ms : Nat) (shape : List Nat) (ix : Nat) (hq : c.quant2 = false)
    (hd : ∀ d ∈ statDims c shape, d ≤ ms) :
    shardedStepLocal c ms (shape, localOf c shape ix) = .ok (localOf c shape ix) := by
  unfold shardedStepLocal
  have hst : ((localOf c shape ix).sizes.map fun d => Mat.plain (f32Leaf [min d ms, min d ms])) = (initParam c shape).st := by
    rw [← statDims_map_matOf]
    show (statDims c shape).map _ = _
    apply List.map_congr_left
    intro d hdm
    simp [matOf, hq, Nat.min_eq_left (hd d hdm)]
  have hcs := computeStats_congr c shape
    { ds := (localOf c shape ix).ds, st := (localOf c shape ix).sizes.map fun d => Mat.plain (f32Leaf [min d ms, min d ms]),
      pr := [], dm := (localOf c shape ix).dm, m := (localOf c shape ix).m, ag := (localOf c shape ix).ag, tm := (localOf c shape ix).tm }
    (initParam c shape) hst rfl
  have htg := transformGrad_local c shape
    { ds := (localOf c shape ix).ds, st := (localOf c shape ix).sizes.map fun d => Mat.plain (f32Leaf [min d ms, min d ms]),
      pr := [], dm := (localOf c shape ix).dm, m := (localOf c shape ix).m, ag := (localOf c shape ix).ag, tm := (localOf c shape ix).tm }
    rfl rfl rfl
  have hany : ((initParam c shape).st.any fun x => decide (x.dim0 > ms)) = false := by
    rw [← statDims_map_matOf]
    simp only [List.any_map, List.any_eq_false, Function.comp_def, matOf_dim0, decide_eq_true_eq]
    intro d hdm
    have := hd d hdm
    omega
  have hlen : (initParam c shape).st.length = (localOf c shape ix).sizes.length := by
    rw [← statDims_map_matOf]; simp [localOf]
  have htm : ¬ (c.trainMetrics ∧ (localOf c shape ix).tm ≠ some ⟨(localOf c shape ix).sizes.length, c.genFd⟩) := by
    intro ⟨h1, h2⟩
    apply h2
    simp [localOf, metricsOf, h1]
  simp only [hcs, computeStats_init, htg, bind, Except.bind, hq, Bool.false_eq_true, if_false, hany, hlen,
    ne_eq, not_true_eq_false, htm, pure, Except.pure]
  rfl


theorem indexStarts_length (c : Cfg) : ∀ (ps : List (List Nat)) (k : Nat), (indexStarts c ps k).length = ps.length
  | [], _ => rfl
  | _ :: ss, k => by simp [indexStarts, indexStarts_length c ss]

def localsOf (c : Cfg) (ps : List (List Nat)) (k : Nat) : List LocalStats :=
  (ps.zip (indexStarts c ps k)).map fun x => localOf c x.1 x.2

theorem localsOf_cons (c : Cfg) (s : List Nat) (ss : List (List Nat)) (k : Nat) :
    localsOf c (s :: ss) k = localOf c s k :: localsOf c ss (k + (statDims c s).length) := by
  simp [localsOf, indexStarts]

theorem localsOf_length (c : Cfg) (ps : List (List Nat)) (k : Nat) : (localsOf c ps k).length = ps.length := by
  simp [localsOf, indexStarts_length]

theorem mapE_locals (c : Cfg) (ms : Nat) (hq : c.quant2 = false) :
    ∀ (ps : List (List Nat)) (k : Nat), (∀ s ∈ ps, ∀ d ∈ statDims c s, d ≤ ms) →
      mapE (shardedStepLocal c ms) (ps.zip (localsOf c ps k)) = .ok (localsOf c ps k)
  | [], _, _ => rfl
  | s :: ss, k, h => by
    rw [localsOf_cons]
    simp only [List.zip_cons_cons, mapE, bind, Except.bind,
      shardedStepLocal_init c ms s k hq (h s List.mem_cons_self),
      mapE_locals c ms hq ss _ (fun t ht => h t (List.mem_cons_of_mem _ ht)), pure, Except.pure]

theorem sumSizes_locals (c : Cfg) : ∀ (ps : List (List Nat)) (k : Nat),
    sumSizes (localsOf c ps k) = (ps.flatMap (statDims c)).length
  | [], _ => rfl
  | s :: ss, k => by
    rw [localsOf_cons]
    have ih := sumSizes_locals c ss (k + (statDims c s).length)
    simp only [sumSizes, List.map_cons, List.foldr_cons] at ih ⊢
    rw [ih]
    simp [localOf, List.flatMap_cons]

theorem le_globalDims (c : Cfg) (ps : List (List Nat)) :
    ∀ s ∈ ps, ∀ d ∈ statDims c s, d ≤ (globalDims c ps).2 := by
  intro s hs d hd
  have hmem : d ∈ ps.flatMap (statDims c) := List.mem_flatMap.mpr ⟨s, hs, hd⟩
  have hle := le_maxList hmem
  unfold globalDims
  simp only []
  split
  · rename_i h0; simp only []; omega
  · exact hle

/-- one sharded update of the initial sharded layout: explanatory rejection or the same layout -/
theorem shardedStep_init (c : Cfg) (ps : List (List Nat)) (L : ShardedLayout) (hq : c.quant2 = false)
    (hpos : ∀ d ∈ ps.flatMap (statDims c), 0 < d) (h : shardedInit c ps = .ok L) :
    shardedStep c ps L =
      (match rootReject c (globalDims c ps).2 .update with
       | some e => .error e
       | none => .ok L) := by
  unfold shardedInit at h
  simp only [bind, Except.bind] at h
  cases hv : validate c with
  | error e => simp [hv] at h
  | ok u =>
    simp only [hv] at h
    have hbound := le_globalDims c ps
    have hsum := sumSizes_locals c ps 0
    have hglob : (globalDims c ps).1 =
        (if (ps.flatMap (statDims c)).length = 0 then c.ndev
         else (ps.flatMap (statDims c)).length + negMod (ps.flatMap (statDims c)).length c.ndev) := by
      unfold globalDims
      simp only []
      generalize ps.flatMap (statDims c) = dims at hpos ⊢
      by_cases hnil : dims = []
      · subst hnil; simp [maxList]
      · have hm : maxList dims ≠ 0 := fun h => hnil ((maxList_eq_zero_iff hpos).mp h)
        have hl : dims.length ≠ 0 := fun h => hnil (List.length_eq_zero_iff.mp h)
        rw [if_neg hm, if_neg hl]
    cases hgd : globalDims c ps with
    | mk n ms =>
      simp only [hgd] at h hbound hglob ⊢
      by_cases hr : shardedInitRejects c ps = true
      · simp [hr] at h
      · simp only [hr, Bool.false_eq_true, if_false, pure, Except.pure, Except.ok.injEq] at h
        subst h
        have hloc : ((ps.zip (indexStarts c ps 0)).map fun x => localOf c x.1 x.2) = localsOf c ps 0 := rfl
        unfold shardedStep
        simp only [hloc, localsOf_length, ne_eq, not_true_eq_false, if_false, f32Leaf, List.drop_succ_cons,
          List.drop_zero, List.headD_cons]
        cases hrr : rootReject c ms .update with
        | some e => rfl
        | none =>
          simp only [mapE_locals c ms hq ps 0 hbound, hsum, ← hglob, not_true_eq_false, if_false]


/-! ### statistic sizes are positive when all parameter dimensions are -/

theorem cartesian_mem : ∀ (ls : List (List Nat)) (t : List Nat), t ∈ cartesian ls →
    ∀ x ∈ t, ∃ l ∈ ls, x ∈ l
  | [], t, ht, x, hx => by simp [cartesian] at ht; subst ht; cases hx
  | l :: ls, t, ht, x, hx => by
    simp only [cartesian, List.mem_flatMap, List.mem_map] at ht
    obtain ⟨a, ha, u, hu, rfl⟩ := ht
    rcases List.mem_cons.mp hx with rfl | hx'
    · exact ⟨l, List.mem_cons_self, ha⟩
    · obtain ⟨l', hl', hxl⟩ := cartesian_mem ls u hu x hx'
      exact ⟨l', List.mem_cons_of_mem _ hl', hxl⟩

theorem blockPrecondDims_sub (pt : PType) (t : List Nat) : ∀ d ∈ blockPrecondDims pt t, d ∈ t := by
  intro d hd
  unfold blockPrecondDims at hd
  cases pt with
  | all => exact hd
  | input =>
    simp only [] at hd
    split at hd
    · exact hd
    · exact List.mem_of_mem_take hd
  | output =>
    simp only [] at hd
    split at hd
    · exact hd
    · exact List.mem_of_mem_drop hd

theorem mergeSmallDims_pos (shape : List Nat) (m : Nat) (h : ∀ d ∈ shape, 0 < d) :
    ∀ d ∈ mergeSmallDims shape m, 0 < d := by
  intro d hd
  unfold mergeSmallDims at hd
  split at hd
  · simp at hd; omega
  · have := mergeGo_gt_one m shape 1 d hd; omega

theorem tshape_pos (c : Cfg) (shape : List Nat) (h : ∀ d ∈ shape, 0 < d) : ∀ d ∈ tshape c shape, 0 < d := by
  unfold tshape
  split
  · exact mergeSmallDims_pos shape c.mergeBlock h
  · exact h

theorem statDims_pos (c : Cfg) (shape : List Nat) (h : ∀ d ∈ shape, 0 < d) : ∀ d ∈ statDims c shape, 0 < d := by
  intro d hd
  unfold statDims at hd
  split at hd
  · cases hd
  · simp only [pshapes, shapesForPreconditioners, List.mem_map, List.mem_flatMap] at hd
    obtain ⟨p, ⟨t, ht, e, he, rfl⟩, rfl⟩ := hd
    have het := blockPrecondDims_sub _ _ _ he
    obtain ⟨l, hl, hel⟩ := cartesian_mem _ t ht _ het
    simp only [splitAll, List.mem_map] at hl
    obtain ⟨x, hx, rfl⟩ := hl
    exact splitSizes_pos x c.blockSize (tshape_pos c shape h x hx) _ hel

/-- all dimensions of all parameters are at least 1 -/
def dimsPos (ps : List (List Nat)) : Prop := ∀ s ∈ ps, ∀ d ∈ s, 0 < d

theorem allStatDims_pos (c : Cfg) (ps : List (List Nat)) (h : dimsPos ps) :
    ∀ d ∈ ps.flatMap (statDims c), 0 < d := by
  intro d hd
  obtain ⟨s, hs, hds⟩ := List.mem_flatMap.mp hd
  exact statDims_pos c s (h s hs) d hds

theorem shardedSteps_init (c : Cfg) (ps : List (List Nat)) (L : ShardedLayout) (hq : c.quant2 = false)
    (hpos : ∀ d ∈ ps.flatMap (statDims c), 0 < d) (h : shardedInit c ps = .ok L)
    (hacc : rootReject c (globalDims c ps).2 .update = none) (k : Nat) :
    shardedSteps c ps k L = .ok L := by
  induction k with
  | zero => rfl
  | succ k ih =>
    simp only [shardedSteps, shardedStep_init c ps L hq hpos h, hacc, bind, Except.bind, ih]

end PrecondVerif.Layout
