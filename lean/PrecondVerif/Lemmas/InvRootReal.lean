/-
Real-number part of the C01 lemmas: for a real Hermitian (symmetric) matrix the quadratic form is bounded by the
largest eigenvalue of Mathlib's spectral decomposition (`Matrix.IsHermitian.eigenvalues`, spectral theorem).
Kept apart from `Lemmas/InvRoot.lean` because of the analysis imports.
-/
import PrecondVerif.Lemmas.InvRoot
import Mathlib.Analysis.Matrix.Spectrum
import Mathlib.Analysis.Matrix.PosDef
import Mathlib.Algebra.Order.Star.Real

set_option linter.unusedSectionVars false
namespace PrecondVerif.InvRoot
open Matrix

theorem quad_le_max_eig {n : Nat} (M : Matrix (Fin n) (Fin n) ℝ) (hM : M.IsHermitian) (x : Fin n → ℝ) :
    x ⬝ᵥ (M *ᵥ x) ≤ (⨆ i, hM.eigenvalues i) * (x ⬝ᵥ x) := by
  set lam := ⨆ i, hM.eigenvalues i with hlam
  have hle : ∀ i, hM.eigenvalues i ≤ lam := fun i => le_ciSup (Set.finite_range _).bddAbove i
  set U : Matrix (Fin n) (Fin n) ℝ := (hM.eigenvectorUnitary : Matrix (Fin n) (Fin n) ℝ) with hU
  have hUU : U * star U = 1 := Unitary.coe_mul_star_self hM.eigenvectorUnitary
  have hspec : M = U * diagonal hM.eigenvalues * star U := by
    have := hM.spectral_theorem (𝕜 := ℝ)
    simpa [Unitary.conjStarAlgAut_apply] using this
  have hB : lam • (1 : Matrix (Fin n) (Fin n) ℝ) - M = U * diagonal (fun i => lam - hM.eigenvalues i) * star U := by
    have h1 : lam • (1 : Matrix (Fin n) (Fin n) ℝ) = U * diagonal (fun _ => lam) * star U := by
      rw [← smul_one_eq_diagonal, mul_smul_comm, mul_one, smul_mul_assoc, hUU]
    conv_lhs => rw [hspec, h1]
    rw [← Matrix.sub_mul, ← Matrix.mul_sub, diagonal_sub]
  have hpsd : (lam • (1 : Matrix (Fin n) (Fin n) ℝ) - M).PosSemidef := by
    rw [hB, star_eq_conjTranspose]
    exact (PosSemidef.diagonal (R := ℝ) (d := fun i => lam - hM.eigenvalues i)
      (fun i => sub_nonneg.mpr (hle i))).mul_mul_conjTranspose_same U
  have := hpsd.dotProduct_mulVec_nonneg x
  simp only [sub_mulVec, smul_mulVec, one_mulVec, dotProduct_sub, dotProduct_smul, star_trivial, smul_eq_mul] at this
  linarith

end PrecondVerif.InvRoot
