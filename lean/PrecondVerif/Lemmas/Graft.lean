/-
Helper lemmas for C05 (grafting).

* `NormLike ops`: the three facts about scaling and norm the grafting identities need. Proved for
  (a) the executable list model with any square-root function meeting `SqrtSpec` over any linearly ordered
  field, and (b) every real normed space.
* generic norm-transplant lemmas over any `NormLike` pair;
* blend / length bookkeeping for the executable `dsTransform`;
* accumulator closed forms by induction over the gradient history.
-/
import PrecondVerif.Model.Graft
import Mathlib.Algebra.Order.Field.Basic
import Mathlib.Algebra.Order.Ring.Abs
import Mathlib.Algebra.BigOperators.Group.Finset.Basic
import Mathlib.Algebra.BigOperators.Ring.Finset
import Mathlib.Analysis.Normed.Module.Basic
import Mathlib.Analysis.Real.Sqrt
import Mathlib.Tactic.Ring
import Mathlib.Tactic.Linarith
import Mathlib.Tactic.Positivity
import Mathlib.Tactic.FieldSimp

set_option linter.unusedSectionVars false

namespace PrecondVerif.Graft

/-! ### What the identities need of `smul` and `nrm` -/

structure NormLike {α V : Type} [Field α] [LinearOrder α] [IsStrictOrderedRing α]
    (ops : VecOps α V) : Prop where
  nrm_nonneg : ∀ v, 0 ≤ ops.nrm v
  nrm_smul : ∀ c v, ops.nrm (ops.smul c v) = |c| * ops.nrm v
  /-- a vector of norm zero is the zero vector: scaling does not change it -/
  smul_null : ∀ c v, ops.nrm v = 0 → ops.smul c v = v

/-- Specification of the square-root kernel (a parameter of the model). -/
def SqrtSpec {α : Type} [Field α] [LinearOrder α] (sqrt : α → α) : Prop :=
  ∀ x, 0 ≤ x → 0 ≤ sqrt x ∧ sqrt x * sqrt x = x

theorem realSqrtSpec : SqrtSpec Real.sqrt :=
  fun x hx => ⟨Real.sqrt_nonneg x, Real.mul_self_sqrt hx⟩

/-- Scaling and norm of a real normed space. -/
noncomputable def normedOps (E : Type) [NormedAddCommGroup E] [NormedSpace ℝ E] : VecOps ℝ E :=
  ⟨fun c v => c • v, fun v => ‖v‖⟩

theorem normedOps_normLike (E : Type) [NormedAddCommGroup E] [NormedSpace ℝ E] :
    NormLike (normedOps E) where
  nrm_nonneg v := norm_nonneg v
  nrm_smul c v := by
    show ‖c • v‖ = |c| * ‖v‖
    rw [norm_smul, Real.norm_eq_abs]
  smul_null c v h := by
    have hv : v = 0 := norm_eq_zero.mp h
    show c • v = v
    rw [hv, smul_zero]

section ListInst
variable {α : Type} [Field α] [LinearOrder α] [IsStrictOrderedRing α]

theorem sumSq_nonneg (v : List α) : 0 ≤ sumSq v := by
  induction v with
  | nil => simp [sumSq]
  | cons x xs ih => simp only [sumSq]; exact add_nonneg (mul_self_nonneg x) ih

theorem sumSq_scale (c : α) (v : List α) : sumSq (scale c v) = c * c * sumSq v := by
  induction v with
  | nil => simp [sumSq, scale]
  | cons x xs ih =>
    have ih' : sumSq (List.map (fun x => x * c) xs) = c * c * sumSq xs := ih
    simp only [scale, List.map_cons, sumSq, ih']
    ring

theorem sumSq_eq_zero {v : List α} (h : sumSq v = 0) : ∀ x ∈ v, x = 0 := by
  induction v with
  | nil => intro x hx; simp at hx
  | cons y ys ih =>
    simp only [sumSq] at h
    have h1 : 0 ≤ y * y := mul_self_nonneg y
    have h2 : 0 ≤ sumSq ys := sumSq_nonneg ys
    have hy : y * y = 0 := by linarith
    have hs : sumSq ys = 0 := by linarith
    intro x hx
    rcases List.mem_cons.mp hx with rfl | hx
    · exact mul_self_eq_zero.mp hy
    · exact ih hs x hx

theorem sqrt_unique {sqrt : α → α} (hs : SqrtSpec sqrt) {x y : α} (hy : 0 ≤ y) (h : y * y = x) :
    sqrt x = y := by
  have hx : 0 ≤ x := h ▸ mul_self_nonneg y
  obtain ⟨h0, h1⟩ := hs x hx
  exact (mul_self_inj h0 hy).mp (h1.trans h.symm)

theorem norm_nonneg' {sqrt : α → α} (hs : SqrtSpec sqrt) (v : List α) : 0 ≤ norm sqrt v :=
  (hs _ (sumSq_nonneg v)).1

theorem norm_mul_self {sqrt : α → α} (hs : SqrtSpec sqrt) (v : List α) :
    norm sqrt v * norm sqrt v = sumSq v :=
  (hs _ (sumSq_nonneg v)).2

theorem norm_scale {sqrt : α → α} (hs : SqrtSpec sqrt) (c : α) (v : List α) :
    norm sqrt (scale c v) = |c| * norm sqrt v := by
  unfold norm
  apply sqrt_unique hs (mul_nonneg (abs_nonneg c) (hs _ (sumSq_nonneg v)).1)
  rw [sumSq_scale]
  have h := (hs _ (sumSq_nonneg v)).2
  calc |c| * sqrt (sumSq v) * (|c| * sqrt (sumSq v))
      = (|c| * |c|) * (sqrt (sumSq v) * sqrt (sumSq v)) := by ring
    _ = c * c * sumSq v := by rw [abs_mul_abs_self, h]

theorem norm_eq_zero_iff {sqrt : α → α} (hs : SqrtSpec sqrt) (v : List α) :
    norm sqrt v = 0 ↔ ∀ x ∈ v, x = 0 := by
  constructor
  · intro h
    have h2 := norm_mul_self hs v
    rw [h, mul_zero] at h2
    exact sumSq_eq_zero h2.symm
  · intro h
    have hz : sumSq v = 0 := by
      induction v with
      | nil => simp [sumSq]
      | cons y ys ih =>
        simp only [sumSq]
        rw [h y (by simp), ih (fun x hx => h x (by simp [hx]))]
        simp
    unfold norm
    rw [hz]
    exact sqrt_unique hs (le_refl 0) (by simp)

theorem scale_of_all_zero (c : α) {v : List α} (h : ∀ x ∈ v, x = 0) : scale c v = v := by
  induction v with
  | nil => simp [scale]
  | cons y ys ih =>
    have hy : y = 0 := h y (by simp)
    have : List.map (fun x => x * c) ys = ys := ih (fun x hx => h x (by simp [hx]))
    simp [scale, hy, this]

theorem listOps_normLike {sqrt : α → α} (hs : SqrtSpec sqrt) : NormLike (listOps sqrt) where
  nrm_nonneg v := norm_nonneg' hs v
  nrm_smul c v := norm_scale hs c v
  smul_null c v h := scale_of_all_zero c ((norm_eq_zero_iff hs v).mp h)

end ListInst

/-! ### Norm transplant over any `NormLike` pair -/
section Generic
variable {α V : Type} [Field α] [LinearOrder α] [IsStrictOrderedRing α] {ops : VecOps α V}

theorem dsMultiplier_nonneg {eps gn pn : α} (he : 0 ≤ eps) (hg : 0 ≤ gn) (hp : 0 ≤ pn) :
    0 ≤ dsMultiplier eps gn pn :=
  div_nonneg hg (add_nonneg hp he)

theorem dsShampooG_nrm (h : NormLike ops) {eps : α} (he : 0 ≤ eps) (g p : V) :
    ops.nrm (dsShampooG ops eps g p) = ops.nrm g * ops.nrm p / (ops.nrm p + eps) := by
  unfold dsShampooG
  rw [h.nrm_smul, abs_of_nonneg (dsMultiplier_nonneg he (h.nrm_nonneg g) (h.nrm_nonneg p))]
  unfold dsMultiplier
  rw [div_mul_eq_mul_div]

theorem ds_gap (G : α) {P eps : α} (hP : 0 ≤ P) (he : 0 < eps) :
    G - G * P / (P + eps) = G * eps / (P + eps) := by
  have : P + eps ≠ 0 := by positivity
  field_simp
  ring

theorem ds_gap_nonneg {G P eps : α} (hG : 0 ≤ G) (hP : 0 ≤ P) (he : 0 < eps) :
    0 ≤ G - G * P / (P + eps) := by
  rw [ds_gap G hP he]; positivity

theorem ds_gap_le {G P eps : α} (hG : 0 ≤ G) (hP : 0 < P) (he : 0 < eps) :
    G - G * P / (P + eps) ≤ G * eps / P := by
  rw [ds_gap G hP.le he]
  apply div_le_div_of_nonneg_left (by positivity) hP (by linarith)

theorem dsShampooG_null (h : NormLike ops) (eps : α) (g p : V) (hp : ops.nrm p = 0) :
    dsShampooG ops eps g p = p :=
  h.smul_null _ p hp

theorem tfMultiplier_pos {gn bn : α} (hb : 0 < bn) : tfMultiplier gn bn = gn / bn := by
  unfold tfMultiplier; rw [if_pos hb]

theorem tfMultiplier_zero {gn bn : α} (hb : ¬ 0 < bn) : tfMultiplier gn bn = 0 := by
  unfold tfMultiplier; rw [if_neg hb]

theorem tfMaybeGraftG_nrm (h : NormLike ops) {count start : Nat} (hc : start ≤ count) (g b : V)
    (hb : 0 < ops.nrm b) : ops.nrm (tfMaybeGraftG ops count start false g b) = ops.nrm g := by
  unfold tfMaybeGraftG
  simp only [Bool.false_eq_true, if_false, if_pos hc]
  rw [h.nrm_smul, tfMultiplier_pos hb, abs_of_nonneg (div_nonneg (h.nrm_nonneg g) hb.le)]
  field_simp

theorem tfMaybeGraftG_null (h : NormLike ops) {count start : Nat} (hc : start ≤ count) (g b : V)
    (hb : ops.nrm b = 0) : tfMaybeGraftG ops count start false g b = b := by
  unfold tfMaybeGraftG
  simp only [Bool.false_eq_true, if_false, if_pos hc]
  exact h.smul_null _ b hb

theorem tfMaybeGraftG_warmup (count start : Nat) (masked : Bool) (hc : count < start) (g b : V) :
    tfMaybeGraftG ops count start masked g b = g := by
  unfold tfMaybeGraftG
  have : ¬ start ≤ count := Nat.not_le.mpr hc
  cases masked <;> simp [this]

theorem tfMaybeGraftG_masked (count start : Nat) (g b : V) :
    tfMaybeGraftG ops count start true g b = g := by
  unfold tfMaybeGraftG; simp

end Generic

/-! ### Bookkeeping for the executable `dsTransform` -/
section Transform
variable {α : Type} [Field α] [LinearOrder α] [IsStrictOrderedRing α]

theorem zipWith_fst {β : Type} : ∀ (a b : List β), a.length ≤ b.length →
    List.zipWith (fun x _ => x) a b = a
  | [], _, _ => by simp
  | x :: xs, [], h => by simp at h
  | x :: xs, y :: ys, h => by
    have ih := zipWith_fst xs ys (by simpa using h)
    simp [ih]

theorem zipWith_snd {β : Type} : ∀ (a b : List β), b.length ≤ a.length →
    List.zipWith (fun _ y => y) a b = b
  | _, [], _ => by simp
  | [], y :: ys, h => by simp at h
  | x :: xs, y :: ys, h => by
    have ih := zipWith_snd xs ys (by simpa using h)
    simp [ih]

theorem blend_one (a b : List α) (h : a.length ≤ b.length) : blend 1 a b = a := by
  unfold blend
  have : (fun (x y : α) => 1 * x + (1 - 1) * y) = fun x _ => x := by funext x y; ring
  rw [this]; exact zipWith_fst a b h

theorem blend_zero (a b : List α) (h : b.length ≤ a.length) : blend 0 a b = b := by
  unfold blend
  have : (fun (x y : α) => 0 * x + (1 - 0) * y) = fun _ y => y := by funext x y; ring
  rw [this]; exact zipWith_snd a b h

theorem scale_length (c : α) (v : List α) : (scale c v).length = v.length := by simp [scale]

theorem accStep_length (w1 w2 : α) (acc g : List α) (h : acc.length = g.length) :
    (accStep w1 w2 acc g).length = g.length := by simp [accStep, h]

theorem diagStep_length (sqrt : α → α) (e : α) (g acc : List α) (h : acc.length = g.length) :
    (diagStep sqrt e g acc).length = g.length := by simp [diagStep, h]

theorem normalize_length (sqrt : α → α) (e : α) (g : List α) :
    (normalize sqrt e g).length = g.length := by simp [normalize]

theorem clipScaled_length (sqrt : α → α) (nc : Nat → α) (cl : α) (u : List α) :
    (clipScaled sqrt nc cl u).length = u.length := by simp [clipScaled]

theorem dsGraftStep_length (sqrt : α → α) (nc : Nat → α) (c : DSConfig α) (g acc : List α)
    (h : acc.length = g.length) : (dsGraftStep sqrt nc c g acc).1.length = g.length := by
  unfold dsGraftStep
  split <;> (try split) <;>
    simp [clipScaled, diagStep, accStep, normalize, h]

theorem dsShampooUpdate_length (sqrt : α → α) (c : DSConfig α) (graft p : List α) :
    (dsShampooUpdate sqrt c graft p).length = p.length := by
  unfold dsShampooUpdate
  split
  · exact scale_length _ _
  · exact scale_length _ _

/-- `-1.0 * mm * (x * m)` is `x * (-(mm * m))`: the final scaling keeps the vector a multiple of `p`. -/
theorem finalScale_scale (mm m : α) (p : List α) :
    finalScale mm (scale m p) = scale (-(mm * m)) p := by
  unfold finalScale scale
  rw [List.map_map]
  apply List.map_congr_left
  intro x _
  simp only [Function.comp]
  ring

end Transform

/-! ### Accumulator closed forms -/
section Closed
variable {α : Type} [Field α]

/-- one coordinate of the accumulator recursion -/
def accRun1 (w1 w2 : α) (a : α) (xs : List α) : α := xs.foldl (fun a x => w1 * a + w2 * (x * x)) a

theorem accStep_getElem? (w1 w2 : α) (acc g : List α) (i : Nat) (a x : α)
    (ha : acc[i]? = some a) (hx : g[i]? = some x) :
    (accStep w1 w2 acc g)[i]? = some (w1 * a + w2 * (x * x)) := by
  unfold accStep
  rw [List.getElem?_zipWith, ha, hx]

/-- Coordinate `i` of the vector recursion is the scalar recursion on coordinate `i` of the history. -/
theorem accRun_getElem? (w1 w2 : α) (i : Nat) :
    ∀ (hist : List (List α)) (acc : List α) (a : α), acc[i]? = some a →
      (∀ g ∈ hist, i < g.length) →
      (accRun w1 w2 acc hist)[i]? = some (accRun1 w1 w2 a (hist.map fun g => g.getD i 0))
  | [], acc, a, ha, _ => by simpa [accRun, accRun1] using ha
  | g :: hist, acc, a, ha, hl => by
    have hi : i < g.length := hl g (by simp)
    have hx : g[i]? = some (g.getD i 0) := by
      rw [List.getD_eq_getElem?_getD, List.getElem?_eq_getElem hi]; simp
    have h1 := accStep_getElem? w1 w2 acc g i a _ ha hx
    have ih := accRun_getElem? w1 w2 i hist (accStep w1 w2 acc g) _ h1
      (fun g' hg' => hl g' (by simp [hg']))
    simpa [accRun, accRun1] using ih

/-- Closed form of the scalar recursion: `w1ⁿ·a + w2·Σ_{k<n} w1^(n-1-k)·x_k²`. -/
theorem accRun1_closed (w1 w2 : α) :
    ∀ (xs : List α) (a : α), accRun1 w1 w2 a xs =
      w1 ^ xs.length * a
        + w2 * ∑ k ∈ Finset.range xs.length, w1 ^ (xs.length - 1 - k) * (xs.getD k 0) ^ 2
  | [], a => by simp [accRun1]
  | x :: xs, a => by
    have ih := accRun1_closed w1 w2 xs (w1 * a + w2 * (x * x))
    have hstep : accRun1 w1 w2 a (x :: xs) = accRun1 w1 w2 (w1 * a + w2 * (x * x)) xs := by
      simp [accRun1]
    rw [hstep, ih, List.length_cons, Finset.sum_range_succ']
    have hsum : ∑ k ∈ Finset.range xs.length,
          w1 ^ (xs.length + 1 - 1 - (k + 1)) * ((x :: xs).getD (k + 1) 0) ^ 2
        = ∑ k ∈ Finset.range xs.length, w1 ^ (xs.length - 1 - k) * (xs.getD k 0) ^ 2 := by
      apply Finset.sum_congr rfl
      intro k _
      have : xs.length + 1 - 1 - (k + 1) = xs.length - 1 - k := by omega
      rw [this]; simp
    rw [hsum]
    simp only [List.getD_cons_zero, Nat.add_sub_cancel, Nat.sub_zero]
    ring

theorem dsW2_one [DecidableEq α] : dsW2 (1 : α) = 1 := by
  simp [dsW2]

theorem dsW2_ne_one [DecidableEq α] {b : α} (h : b ≠ 1) : dsW2 b = 1 - b := by
  simp [dsW2, h]

/-- In a field the Tearfree accumulator step is the Distributed Shampoo step with the same weights. -/
theorem tfAccStep_eq [DecidableEq α] (decay : α) (acc g : List α) :
    tfAccStep decay acc g = accStep decay (dsW2 decay) acc g := by
  unfold tfAccStep accStep dsW2
  by_cases h : decay = 1
  · subst h
    simp only [beq_self_eq_true, if_true]
    congr 1; funext a x; ring
  · have hb : (decay == 1) = false := by simpa using h
    simp only [hb, Bool.false_eq_true, if_false]
    congr 1; funext a x; ring

theorem tfAccRun_eq [DecidableEq α] (decay : α) (acc0 : List α) (hist : List (List α)) :
    tfAccRun decay acc0 hist = accRun decay (dsW2 decay) acc0 hist := by
  unfold tfAccRun accRun
  congr 1
  funext acc g
  exact tfAccStep_eq decay acc g

end Closed

/-! ### Normalised, sign and clipped graft steps (round 2) -/
section Variants
variable {α : Type} [Field α] [LinearOrder α] [IsStrictOrderedRing α]

theorem map_getD_zero {f : α → α} (hf : f 0 = 0) (g : List α) (i : Nat) :
    (g.map f).getD i 0 = f (g.getD i 0) := by
  rw [List.getD_eq_getElem?_getD, List.getD_eq_getElem?_getD, List.getElem?_map]
  cases g[i]? <;> simp [hf]

theorem normalize_getD (sqrt : α → α) (eps : α) (g : List α) (i : Nat) :
    (normalize sqrt eps g).getD i 0 = g.getD i 0 / (norm sqrt g + eps) := by
  unfold normalize
  exact map_getD_zero (f := fun x => x / (norm sqrt g + eps)) (by simp) g i

theorem map_normalize_getD (sqrt : α → α) (eps : α) (hist : List (List α)) (k : Nat) :
    (hist.map (normalize sqrt eps)).getD k [] = normalize sqrt eps (hist.getD k []) := by
  rw [List.getD_eq_getElem?_getD, List.getD_eq_getElem?_getD, List.getElem?_map]
  cases hist[k]? <;> simp [normalize]

theorem dsGraftStep_adagradNormalized (sqrt : α → α) (nc : Nat → α) (c : DSConfig α)
    (hc : c.graftType = .adagradNormalized) (g acc : List α) :
    dsGraftStep sqrt nc c g acc
      = dsGraftStep sqrt nc { c with graftType := .adagrad } (normalize sqrt c.eps g) acc := by
  unfold dsGraftStep; rw [hc]

theorem dsGraftStep_rmspropNormalized (sqrt : α → α) (nc : Nat → α) (c : DSConfig α)
    (hc : c.graftType = .rmspropNormalized) (g acc : List α) :
    dsGraftStep sqrt nc c g acc
      = dsGraftStep sqrt nc { c with graftType := .rmsprop } (normalize sqrt c.eps g) acc := by
  unfold dsGraftStep; rw [hc]

theorem dsGraftStep_clip (sqrt : α → α) (nc : Nat → α) (c : DSConfig α)
    (hc : c.graftType = .rmsprop ∨ c.graftType = .rmspropNormalized) (cl : α) (hcl : c.clip = some cl)
    (g acc : List α) :
    dsGraftStep sqrt nc c g acc
      = (clipScaled sqrt nc cl (dsGraftStep sqrt nc { c with clip := none } g acc).1,
         (dsGraftStep sqrt nc { c with clip := none } g acc).2) := by
  unfold dsGraftStep
  rcases hc with hc | hc <;> simp [hc, hcl]

theorem maxJ_eq_max (a b : α) : maxJ a b = max a b := by
  unfold maxJ
  split
  · rename_i h; exact (max_eq_right h.le).symm
  · rename_i h; exact (max_eq_left (not_lt.mp h)).symm

theorem clipScaled_eq_scale (sqrt : α → α) (nc : Nat → α) (cl : α) (u : List α) :
    clipScaled sqrt nc cl u = scale (1 / max 1 (norm sqrt u / sqrt (nc u.length) / cl)) u := by
  unfold clipScaled scale
  simp only [maxJ_eq_max]
  apply List.map_congr_left
  intro x _
  rw [mul_one_div]

theorem sumSq_map_sgn' (g : List α) (h : ∀ x ∈ g, x ≠ 0) : sumSq (g.map sgn) = (g.length : α) := by
  induction g with
  | nil => simp [sumSq]
  | cons y ys ih =>
    have hy : y ≠ 0 := h y (by simp)
    have hs : sgn y * sgn y = 1 := by
      unfold sgn
      rcases lt_or_gt_of_ne hy with hlt | hgt
      · have : ¬ 0 < y := not_lt.mpr hlt.le
        simp [this, hlt]
      · simp [hgt]
    have ih' := ih (fun x hx => h x (by simp [hx]))
    simp only [List.map_cons, sumSq, ih', List.length_cons, Nat.cast_succ, hs]
    ring

theorem sumSq_map_sgn (g : List α) (h : ∀ x ∈ g, x ≠ 0) :
    sumSq (g.map fun x => 1 * sgn x) = (g.length : α) := by
  have : (fun x : α => 1 * sgn x) = sgn := by funext x; exact one_mul _
  rw [this]; exact sumSq_map_sgn' g h

end Variants

end PrecondVerif.Graft
