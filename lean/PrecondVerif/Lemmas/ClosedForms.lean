/-
Closed forms for the index-level description of the blocking transformations (C06, third round):
per-axis block offsets are `j * b` (prefix sums of `splitSizes`), `tfBlockOffsets` is (grid coordinate) × b on the
large axes; the two Tearfree index maps are mutually inverse and the Tearfree blocks tile the parameter.
-/
import PrecondVerif.Lemmas.PartitionIdx
import PrecondVerif.Lemmas.BlockifyIdx

namespace PrecondVerif.Shapes

/-! ### closed form of the per-axis pieces: offsets `j * b`, sizes `min ((j+1) b) d - j b` -/

theorem offsets_replicate_getD (b r : Nat) (l : List Nat) : ∀ (n o j : Nat), j ≤ n →
    (offsets (List.replicate n b ++ r :: l) o).getD j 0 = o + j * b
  | 0, o, j, h => by
    have : j = 0 := by omega
    subst this; simp [offsets]
  | n + 1, o, 0, _ => by simp [List.replicate_succ, offsets]
  | n + 1, o, j + 1, h => by
    simp only [List.replicate_succ, List.cons_append, offsets, List.getD_cons_succ]
    rw [offsets_replicate_getD b r l n (o + b) j (by omega)]
    rw [Nat.add_mul]; omega

/-- the `j`-th piece of an axis starts at `j * b` (split or not) -/
theorem axis_offset_closed (d b j : Nat) (hj : j < (splitSizes d b).length) :
    (offsets (splitSizes d b) 0).getD j 0 = j * b := by
  unfold splitSizes at hj ⊢
  split
  · rename_i h
    rw [if_pos h] at hj
    simp only [List.length_append, List.length_replicate, List.length_cons, List.length_nil] at hj
    have := offsets_replicate_getD b (d - (d - 1) / b * b) [] ((d - 1) / b) 0 j (by omega)
    simpa using this
  · rename_i h
    rw [if_neg h] at hj
    have : j = 0 := by simpa using hj
    subst this; simp [offsets]

/-- … and ends at `min ((j+1) b) d` when the axis is split (all pieces but the last have size `b`) -/
theorem axis_size_closed (d b j : Nat) (hj : j < (splitSizes d b).length) :
    (splitSizes d b).getD j 0 = (if 0 < b ∧ b < d then min ((j + 1) * b) d else d) - j * b := by
  unfold splitSizes at hj ⊢
  split
  · rename_i h
    rw [if_pos h] at hj
    simp only [List.length_append, List.length_replicate, List.length_cons, List.length_nil] at hj
    have hn : (d - 1) / b * b ≤ d - 1 := Nat.div_mul_le_self _ _
    have hn2 : d - 1 < ((d - 1) / b + 1) * b := by
      have := Nat.lt_div_mul_add h.1 (a := d - 1)
      simp only [Nat.add_mul, Nat.one_mul]; omega
    rw [List.getD_eq_getElem?_getD, List.getElem?_append]
    simp only [List.length_replicate]
    by_cases hjn : j < (d - 1) / b
    · have h1 : (j + 1) * b ≤ (d - 1) / b * b := Nat.mul_le_mul_right _ hjn
      rw [if_pos hjn, Nat.min_eq_left (by omega)]
      simp [hjn, Nat.add_mul]
    · have hje : j = (d - 1) / b := by omega
      subst hje
      rw [if_neg hjn, Nat.min_eq_right (by omega)]
      simp
  · rename_i h
    rw [if_neg h] at hj
    have : j = 0 := by simpa using hj
    subst this; simp

theorem blockOffsets_zip_closed (b : Nat) : ∀ (shape kc : List Nat), inBounds (blockGrid shape b) kc →
    List.zipWith (fun d ka => (offsets (splitSizes d b) 0).getD ka 0) shape kc = kc.map (· * b) ∧
    List.zipWith (fun d ka => (splitSizes d b).getD ka 0) shape kc =
      List.zipWith (fun d ka => (if 0 < b ∧ b < d then min ((ka + 1) * b) d else d) - ka * b) shape kc
  | [], [], _ => by simp
  | [], _ :: _, h => by simp [blockGrid, splitAll, inBounds] at h
  | _ :: _, [], h => by simp [blockGrid_cons, inBounds] at h
  | d :: ds, k :: ks, h => by
    simp only [blockGrid_cons, inBounds] at h
    obtain ⟨i1, i2⟩ := blockOffsets_zip_closed b ds ks h.2
    simp only [List.zipWith_cons_cons, List.map_cons, i1, i2, axis_offset_closed d b k h.1,
      axis_size_closed d b k h.1, and_self]

/-- **closed form**: block `k` starts at `k_a * b` on every axis and has side `min ((k_a+1) b) d_a - k_a b` on a
split axis, `d_a` on an unsplit one (`k_a = blockCoords k`) -/
theorem blockOffsets_closed (shape : List Nat) (b k : Nat) (hk : k < prod (blockGrid shape b)) :
    blockOffsets shape b k = (blockCoords shape b k).map (· * b) ∧
    blockDims shape b k =
      List.zipWith (fun d ka => (if 0 < b ∧ b < d then min ((ka + 1) * b) d else d) - ka * b) shape
        (blockCoords shape b k) :=
  blockOffsets_zip_closed b shape (blockCoords shape b k) (unravel_inBounds _ _ hk)

/-! ### Tearfree block offsets: grid coordinate × block size on the large axes, 0 elsewhere -/

theorem foldl_set_length (f : Nat → Nat) : ∀ (ps : List (Nat × Nat)) (l : List Nat),
    (ps.foldl (fun l p => l.set p.1 (f p.2)) l).length = l.length
  | [], _ => rfl
  | p :: ps, l => by rw [List.foldl_cons, foldl_set_length f ps]; simp

theorem foldl_set_getD_not_mem (f : Nat → Nat) : ∀ (ps : List (Nat × Nat)) (l : List Nat) (k : Nat),
    k ∉ ps.map (·.1) → (ps.foldl (fun l p => l.set p.1 (f p.2)) l).getD k 0 = l.getD k 0
  | [], _, _, _ => rfl
  | p :: ps, l, k, h => by
    simp only [List.map_cons, List.mem_cons, not_or] at h
    rw [List.foldl_cons, foldl_set_getD_not_mem f ps _ k h.2]
    simp [List.getD_eq_getElem?_getD, List.getElem?_set, Ne.symm h.1]

theorem foldl_set_getD_mem (f : Nat → Nat) : ∀ (ps : List (Nat × Nat)) (l : List Nat) (i : Nat)
    (hi : i < ps.length), (ps.map (·.1)).Nodup → ps[i].1 < l.length →
    (ps.foldl (fun l p => l.set p.1 (f p.2)) l).getD ps[i].1 0 = f ps[i].2
  | p :: ps, l, 0, _, hnd, hl => by
    simp only [List.map_cons, List.nodup_cons] at hnd
    simp only [List.getElem_cons_zero, List.foldl_cons] at hl ⊢
    rw [foldl_set_getD_not_mem f ps _ p.1 hnd.1]
    simp [List.getD_eq_getElem?_getD, hl]
  | p :: ps, l, i + 1, hi, hnd, hl => by
    simp only [List.map_cons, List.nodup_cons] at hnd
    simp only [List.getElem_cons_succ, List.foldl_cons] at hl ⊢
    exact foldl_set_getD_mem f ps _ i (by simpa using hi) hnd.2 (by simpa using hl)

/-- **closed form of `tfBlockOffsets`** (any shape, any block size): same rank as the parameter; on the `i`-th
large axis the `i`-th grid coordinate of the block times the block size; 0 on every other axis -/
theorem tfBlockOffsets_closed (b : Nat) (S : List Nat) (blk : Nat) :
    (tfBlockOffsets (blocksMetadata b S) blk).length = S.length ∧
    (∀ i (hi : i < (blocksMetadata b S).largeAxes.length),
      (tfBlockOffsets (blocksMetadata b S) blk).getD ((blocksMetadata b S).largeAxes[i]) 0 =
        (unravel (blocksMetadata b S).blocksPerLargeAxis blk).getD i 0 * b) ∧
    (∀ k, k ∉ (blocksMetadata b S).largeAxes → (tfBlockOffsets (blocksMetadata b S) blk).getD k 0 = 0) := by
  have hlen : (unravel (blocksMetadata b S).blocksPerLargeAxis blk).length =
      (blocksMetadata b S).largeAxes.length := by
    rw [unravel_length_eq]; simp [blocksMetadata]
  have hfst : ((blocksMetadata b S).largeAxes.zip (unravel (blocksMetadata b S).blocksPerLargeAxis blk)).map
      (·.1) = (blocksMetadata b S).largeAxes := by
    exact List.map_fst_zip (by rw [hlen])
  have hnd : (blocksMetadata b S).largeAxes.Nodup := List.Nodup.filter _ List.nodup_range
  refine ⟨?_, ?_, ?_⟩
  · exact (foldl_set_length (fun c => c * b) _ _).trans (by simp [blocksMetadata])
  · intro i hi
    have hz : i < ((blocksMetadata b S).largeAxes.zip
        (unravel (blocksMetadata b S).blocksPerLargeAxis blk)).length := by simp [hlen]; exact hi
    have hlt : (blocksMetadata b S).largeAxes[i] < S.length :=
      ((largeAxes_mem b S _).mp (List.getElem_mem hi)).1
    have := foldl_set_getD_mem (fun c => c * b) _ (List.replicate (blocksMetadata b S).paramShape.length 0) i hz
      (by rw [hfst]; exact hnd) (by simpa [blocksMetadata] using hlt)
    simp only [List.getElem_zip] at this
    have hi2 : i < (unravel (blocksMetadata b S).blocksPerLargeAxis blk).length := hlen ▸ hi
    rw [List.getD_eq_getElem?_getD (l := unravel _ _), List.getElem?_eq_getElem hi2]
    exact this
  · intro k hk
    exact (foldl_set_getD_not_mem (fun c => c * b) _ _ k (by rw [hfst]; exact hk)).trans
      (by simp only [List.getD_eq_getElem?_getD, List.getElem?_replicate]; split <;> rfl)


/-! ### Tearfree: the two index maps are mutually inverse; the blocks tile the parameter -/

theorem divmod_of_lt (u w b : Nat) (hw : w < b) : (u * b + w) / b = u ∧ (u * b + w) % b = w := by
  have hb : 0 < b := by omega
  constructor
  · rw [Nat.mul_comm, Nat.mul_add_div hb, Nat.div_eq_of_lt hw]; simp
  · rw [Nat.mul_comm, Nat.mul_add_mod, Nat.mod_eq_of_lt hw]

/-- the block and the inner index of an entry of the blockified array lead back to it -/
theorem blocked_unblocked_id (S : List Nat) (b : Nat) (hb : 0 < b)
    (hle : (blocksMetadata b S).largeAxes.length ≤ 2)
    (hdiv : ∀ a ∈ (blocksMetadata b S).largeAxes, b ∣ S.getD a 0)
    (x : List Nat) (hx : inBounds (blockedShape (blocksMetadata b S)) x) :
    blockedIndex (blocksMetadata b S) (unblockedIndex (blocksMetadata b S) x) = x := by
  rcases blocks_cases S b hb hle hdiv with ⟨hla, hS⟩ | ⟨A, C, n, hla, rfl, hA, hC, hn⟩ |
    ⟨A, M, C, lB, rB, hla, rfl, hA, hM, hC, hl, hr⟩
  · rw [meta_zero _ b hS hla] at hx ⊢
    simp only [blockedShape, insertAt, List.take_zero, List.drop_zero, List.nil_append] at hx
    match x, hx with
    | x0 :: inner, hx =>
      simp only [inBounds] at hx
      have h0 : x0 = 0 := by omega
      subst h0
      rw [unblocked_zero _ _ _ _ (inBounds_length hx.2), blocked_zero]
  · rw [meta_one A C n b hb hA hC hn hla] at hx ⊢
    simp only [blockedShape] at hx
    rw [insertAt_append] at hx
    obtain ⟨xa, rest, rfl, hl, hxa, hrest⟩ := inBounds_append_split A (n :: b :: C) x hx
    match rest, hrest with
    | u :: w :: xc, hrest =>
      simp only [inBounds] at hrest
      rw [unblocked_one A C n b xa xc u w hl (inBounds_length hrest.2.2), blocked_one A C n b xa xc _ hl]
      obtain ⟨e1, e2⟩ := divmod_of_lt u w b hrest.2.1
      rw [e1, e2]
  · rw [meta_two A M C lB rB b hb hA hM hC hl hr hla] at hx ⊢
    simp only [blockedShape] at hx
    rw [insertAt_append] at hx
    obtain ⟨xp, rest, rfl, hlp, hxp, hrest⟩ := inBounds_append_split A _ x hx
    match rest, hrest with
    | blk :: i :: rest2, hrest =>
      simp only [inBounds] at hrest
      obtain ⟨xm, rest3, rfl, hlm, hxm, hrest3⟩ := inBounds_append_split M _ rest2 hrest.2.2
      match rest3, hrest3 with
      | j :: xq, hrest3 =>
        simp only [inBounds] at hrest3
        rw [unblocked_two A M C lB rB b xp xm xq blk i j hlp hlm (inBounds_length hrest3.2),
          blocked_two A M C lB rB b xp xm xq _ _ hlp hlm]
        obtain ⟨e1, e2⟩ := divmod_of_lt (blk / rB) i b hrest.2.1
        obtain ⟨e3, e4⟩ := divmod_of_lt (blk % rB) j b hrest3.1
        rw [e1, e2, e3, e4, Nat.div_add_mod']

/-- **The Tearfree blocks tile the parameter**: every in-bounds parameter index is reached from exactly one
in-bounds index of the blockified array, i.e. from exactly one (block, index inside the block) pair. -/
theorem blocked_tile (S : List Nat) (b : Nat) (hb : 0 < b)
    (hle : (blocksMetadata b S).largeAxes.length ≤ 2)
    (hdiv : ∀ a ∈ (blocksMetadata b S).largeAxes, b ∣ S.getD a 0)
    (idx : List Nat) (hi : inBounds S idx) :
    inBounds (blockedShape (blocksMetadata b S)) (blockedIndex (blocksMetadata b S) idx) ∧
    unblockedIndex (blocksMetadata b S) (blockedIndex (blocksMetadata b S) idx) = idx ∧
    ∀ x, inBounds (blockedShape (blocksMetadata b S)) x → unblockedIndex (blocksMetadata b S) x = idx →
      x = blockedIndex (blocksMetadata b S) idx := by
  -- read `deblockify ∘ blockify` on the tensor of indices
  let ti : Tensor (List Nat) := ⟨S, id⟩
  have hE := deblockify_blockify_eqv ti b hle hdiv
  have hsh : (blockify ti (blocksMetadata b S)).shape = blockedShape (blocksMetadata b S) :=
    blockify_shape_eq ti b hb hle hdiv
  obtain ⟨h1, h2⟩ := deblockify_get_eq S b hb hle hdiv (blockify ti (blocksMetadata b S)) hsh idx hi
  rw [hsh] at h2
  obtain ⟨h3, _⟩ := blockify_get_eq ti b hb hle hdiv _ h2
  have hi' : inBounds (deblockify (blockify ti (blocksMetadata b ti.shape)) (blocksMetadata b ti.shape)).shape
      idx := by rw [hE.1]; exact hi
  have hrt : (deblockify (blockify ti (blocksMetadata b S)) (blocksMetadata b S)).get idx = idx := hE.2 idx hi'
  rw [h1] at hrt
  have h3' : (blockify ti (blocksMetadata b S)).get (blockedIndex (blocksMetadata b S) idx) =
      unblockedIndex (blocksMetadata b S) (blockedIndex (blocksMetadata b S) idx) := h3
  rw [h3'] at hrt
  refine ⟨h2, hrt, ?_⟩
  intro x hx hxe
  rw [← hxe, blocked_unblocked_id S b hb hle hdiv x hx]

end PrecondVerif.Shapes
