/-
Lemmas for Tearfree `_blockify` / `_deblockify` (C06): reshape composition and the
round trip for parameters with at most one large axis (pure reshapes).
-/
import PrecondVerif.Lemmas.Partition

namespace PrecondVerif.Shapes

theorem prod_append (l1 l2 : List Nat) : prod (l1 ++ l2) = prod l1 * prod l2 := by
  induction l1 with
  | nil => simp
  | cons a l ih => simp [ih, Nat.mul_assoc]

theorem prod_take_drop (l : List Nat) (a : Nat) (ha : a < l.length) :
    prod l = prod (l.take a) * (l.getD a 0 * prod (l.drop (a + 1))) := by
  have h : l = l.take a ++ (l.getD a 0 :: l.drop (a + 1)) := by
    rw [List.getD_eq_getElem?_getD, List.getElem?_eq_getElem ha]
    simp
  conv_lhs => rw [h]
  rw [prod_append]; simp

/-- reshaping twice is reshaping once (on in-bounds indices, equal element counts) -/
theorem reshape_reshape_get {α} (t : Tensor α) (s s' idx : List Nat)
    (hp : prod s' = prod s) (hi : inBounds s' idx) :
    ((t.reshape s).reshape s').get idx = (t.reshape s').get idx := by
  simp only [Tensor.reshape]
  have hlt : ravel s' idx < prod s := hp ▸ ravel_lt s' idx hi
  rw [ravel_unravel s _ hlt]

/-- reshape to any shape with the same element count and back is the identity -/
theorem reshape_back_eqv {α} (t : Tensor α) (s : List Nat) (hp : prod s = prod t.shape) :
    ((t.reshape s).reshape t.shape).Eqv t := by
  refine ⟨rfl, ?_⟩
  intro idx hi
  simp only [Tensor.reshape] at hi ⊢
  have hlt : ravel t.shape idx < prod s := hp ▸ ravel_lt t.shape idx hi
  rw [ravel_unravel s _ hlt, unravel_ravel t.shape idx hi]


theorem insertAt_zero_prod (l : List Nat) : prod (insertAt l 0 1) = prod l := by
  simp [insertAt]

/-- `_deblockify ∘ _blockify` is the identity whenever at most one axis is large
(then both are pure reshapes). `hdiv`: the large axis is a multiple of the block size —
exactly what Tearfree Shampoo's `_init` demands of accepted parameters. -/
theorem deblockify_blockify_le_one {α} (t : Tensor α) (b : Nat)
    (hle : (blocksMetadata b t.shape).largeAxes.length ≤ 1)
    (hdiv : ∀ a ∈ (blocksMetadata b t.shape).largeAxes, b ∣ t.shape.getD a 0) :
    (deblockify (blockify t (blocksMetadata b t.shape)) (blocksMetadata b t.shape)).Eqv t := by
  have hps : (blocksMetadata b t.shape).paramShape = t.shape := rfl
  have hlt : ∀ a ∈ (blocksMetadata b t.shape).largeAxes, a < t.shape.length := by
    intro a ha
    simp only [blocksMetadata, List.mem_filter, List.mem_range] at ha
    exact ha.1
  match hla : (blocksMetadata b t.shape).largeAxes with
  | [] =>
    unfold blockify deblockify
    simp only [hla, hps]
    have hba : (blocksMetadata b t.shape).blocksAxis = 0 := by
      show (blocksMetadata b t.shape).largeAxes.headD 0 = 0
      rw [hla]; rfl
    rw [hba]
    exact reshape_back_eqv t _ (insertAt_zero_prod _)
  | [a] =>
    unfold blockify deblockify
    simp only [hla, hps]
    apply reshape_back_eqv
    have ha : a < t.shape.length := hlt a (by simp [hla])
    have hd : b ∣ t.shape.getD a 0 := hdiv a (by simp [hla])
    have hnb : (blocksMetadata b t.shape).numBlocks = t.shape.getD a 0 / b := by
      have : (blocksMetadata b t.shape).blocksPerLargeAxis = [t.shape.getD a 0 / b] := by
        show ((blocksMetadata b t.shape).largeAxes.map fun i => t.shape.getD i 0 / b) = _
        rw [hla]; rfl
      show prod (blocksMetadata b t.shape).blocksPerLargeAxis = _
      rw [this]; simp
    have hlb : (blocksMetadata b t.shape).largeBlockSize = b := rfl
    rw [hnb, hlb, prod_take_drop t.shape a ha]
    simp only [prod_append, prod_cons, prod_nil, Nat.mul_one]
    rw [Nat.div_mul_cancel hd]
    simp [Nat.mul_assoc]
  | _ :: _ :: _ =>
    rw [hla] at hle
    simp at hle

end PrecondVerif.Shapes
