/-
Lemmas for Tearfree `_blockify` / `_deblockify` (C06): reshape composition and the
round trip for parameters with at most one large axis (pure reshapes).
-/
import PrecondVerif.Lemmas.Partition
import Mathlib.Tactic.Ring

namespace PrecondVerif.Shapes

theorem prod_append (l1 l2 : List Nat) : prod (l1 ++ l2) = prod l1 * prod l2 := by
  induction l1 with
  | nil => simp
  | cons a l ih => simp [ih, Nat.mul_assoc]

theorem prod_take_drop (l : List Nat) (a : Nat) (ha : a < l.length) :
    prod l = prod (l.take a) * (l.getD a 0 * prod (l.drop (a + 1))) := by
  have h : l = l.take a ++ (l.getD a 0 :: l.drop (a + 1)) := by
    rw [List.getD_eq_getElem?_getD, List.getElem?_eq_getElem ha]
    simp
  conv_lhs => rw [h]
  rw [prod_append]; simp

/-- reshaping twice is reshaping once (on in-bounds indices, equal element counts) -/
theorem reshape_reshape_get {α} (t : Tensor α) (s s' idx : List Nat)
    (hp : prod s' = prod s) (hi : inBounds s' idx) :
    ((t.reshape s).reshape s').get idx = (t.reshape s').get idx := by
  simp only [Tensor.reshape]
  have hlt : ravel s' idx < prod s := hp ▸ ravel_lt s' idx hi
  rw [ravel_unravel s _ hlt]

/-- reshape to any shape with the same element count and back is the identity -/
theorem reshape_back_eqv {α} (t : Tensor α) (s : List Nat) (hp : prod s = prod t.shape) :
    ((t.reshape s).reshape t.shape).Eqv t := by
  refine ⟨rfl, ?_⟩
  intro idx hi
  simp only [Tensor.reshape] at hi ⊢
  have hlt : ravel t.shape idx < prod s := hp ▸ ravel_lt t.shape idx hi
  rw [ravel_unravel s _ hlt, unravel_ravel t.shape idx hi]


theorem insertAt_zero_prod (l : List Nat) : prod (insertAt l 0 1) = prod l := by
  simp [insertAt]

/-- `_deblockify ∘ _blockify` is the identity whenever at most one axis is large
(then both are pure reshapes). `hdiv`: the large axis is a multiple of the block size —
exactly what Tearfree Shampoo's `_init` demands of accepted parameters. -/
theorem deblockify_blockify_le_one {α} (t : Tensor α) (b : Nat)
    (hle : (blocksMetadata b t.shape).largeAxes.length ≤ 1)
    (hdiv : ∀ a ∈ (blocksMetadata b t.shape).largeAxes, b ∣ t.shape.getD a 0) :
    (deblockify (blockify t (blocksMetadata b t.shape)) (blocksMetadata b t.shape)).Eqv t := by
  have hps : (blocksMetadata b t.shape).paramShape = t.shape := rfl
  have hlt : ∀ a ∈ (blocksMetadata b t.shape).largeAxes, a < t.shape.length := by
    intro a ha
    simp only [blocksMetadata, List.mem_filter, List.mem_range] at ha
    exact ha.1
  match hla : (blocksMetadata b t.shape).largeAxes with
  | [] =>
    unfold blockify deblockify
    simp only [hla, hps]
    have hba : (blocksMetadata b t.shape).blocksAxis = 0 := by
      show (blocksMetadata b t.shape).largeAxes.headD 0 = 0
      rw [hla]; rfl
    rw [hba]
    exact reshape_back_eqv t _ (insertAt_zero_prod _)
  | [a] =>
    unfold blockify deblockify
    simp only [hla, hps]
    apply reshape_back_eqv
    have ha : a < t.shape.length := hlt a (by simp [hla])
    have hd : b ∣ t.shape.getD a 0 := hdiv a (by simp [hla])
    have hnb : (blocksMetadata b t.shape).numBlocks = t.shape.getD a 0 / b := by
      have : (blocksMetadata b t.shape).blocksPerLargeAxis = [t.shape.getD a 0 / b] := by
        show ((blocksMetadata b t.shape).largeAxes.map fun i => t.shape.getD i 0 / b) = _
        rw [hla]; rfl
      show prod (blocksMetadata b t.shape).blocksPerLargeAxis = _
      rw [this]; simp
    have hlb : (blocksMetadata b t.shape).largeBlockSize = b := rfl
    rw [hnb, hlb, prod_take_drop t.shape a ha]
    simp only [prod_append, prod_cons, prod_nil, Nat.mul_one]
    rw [Nat.div_mul_cancel hd]
    simp [Nat.mul_assoc]
  | _ :: _ :: _ =>
    rw [hla] at hle
    simp at hle


/-! ### permutations used by the two-large-axes case -/

theorem popAt_getElem? (l : List Nat) (i k : Nat) :
    (popAt l i)[k]? = if k < i then l[k]? else l[k + 1]? := by
  unfold popAt
  by_cases hi : i ≤ l.length
  · rw [List.getElem?_append]
    simp only [List.length_take, Nat.min_eq_left hi]
    split
    · simp [List.getElem?_take, *]
    · simp only [List.getElem?_drop]
      congr 1; omega
  · have hi' : l.length < i := by omega
    rw [List.take_of_length_le (by omega), List.drop_of_length_le (by omega)]
    simp only [List.append_nil]
    split
    · rfl
    · rw [List.getElem?_eq_none (by omega), List.getElem?_eq_none (by omega)]

theorem insertAt_getElem? (l : List Nat) (j x k : Nat) (hj : j ≤ l.length) :
    (insertAt l j x)[k]? = if k < j then l[k]? else if k = j then some x else l[k - 1]? := by
  unfold insertAt
  rw [List.getElem?_append]
  simp only [List.length_take, Nat.min_eq_left hj]
  split
  · simp [List.getElem?_take, *]
  · rename_i h
    split
    · rename_i hkj; subst hkj; simp
    · rename_i hkj
      have : k - j = (k - j - 1) + 1 := by omega
      rw [this, List.getElem?_cons_succ, List.getElem?_drop]
      congr 1; omega


theorem popAt_length (l : List Nat) (i : Nat) (hi : i < l.length) : (popAt l i).length = l.length - 1 := by
  unfold popAt
  simp only [List.length_append, List.length_take, List.length_drop]
  omega

theorem range_getElem? (N k : Nat) : (List.range N)[k]? = if k < N then some k else none := by
  split
  · rename_i h; simp [h]
  · rename_i h; simp [h]

/-- the blockify permutation: move position `r` to position `l+1` -/
def fwdPerm (N l r : Nat) : List Nat := insertAt (popAt (List.range N) r) (l + 1) r
/-- the deblockify permutation: move position `l+1` to position `r` -/
def bwdPerm (N l r : Nat) : List Nat := insertAt (popAt (List.range N) (l + 1)) r (l + 1)

theorem fwdPerm_getElem? (N l r k : Nat) (h1 : l + 1 < r) (h2 : r < N) (hk : k < N) :
    (fwdPerm N l r)[k]? =
      some (if k ≤ l then k else if k = l + 1 then r else if k ≤ r then k - 1 else k) := by
  unfold fwdPerm
  rw [insertAt_getElem? _ _ _ _ (by rw [popAt_length _ _ (by simpa using h2)]; simp; omega)]
  simp only [popAt_getElem?, range_getElem?]
  by_cases c1 : k ≤ l
  · have : k < l + 1 := by omega
    have : k < r := by omega
    simp [*]
  · by_cases c2 : k = l + 1
    · subst c2; simp <;> omega
    · by_cases c3 : k ≤ r
      · have a1 : ¬ k < l + 1 := by omega
        have a2 : k - 1 < r := by omega
        have a3 : k - 1 < N := by omega
        simp [*]
      · have a1 : ¬ k < l + 1 := by omega
        have a2 : ¬ k - 1 < r := by omega
        have a3 : k - 1 + 1 = k := by omega
        simp [*]

theorem bwdPerm_getElem? (N l r k : Nat) (h1 : l + 1 < r) (h2 : r < N) (hk : k < N) :
    (bwdPerm N l r)[k]? =
      some (if k ≤ l then k else if k < r then k + 1 else if k = r then l + 1 else k) := by
  unfold bwdPerm
  rw [insertAt_getElem? _ _ _ _ (by rw [popAt_length _ _ (by simp; omega)]; simp; omega)]
  simp only [popAt_getElem?, range_getElem?]
  by_cases c1 : k ≤ l
  · have : k < r := by omega
    have : k < l + 1 := by omega
    simp [*]
  · by_cases c2 : k < r
    · have a1 : ¬ k < l + 1 := by omega
      have a2 : k + 1 < N := by omega
      simp [*]
    · by_cases c3 : k = r
      · subst c3; simp [*]
      · have a1 : ¬ k - 1 < l + 1 := by omega
        have a3 : k - 1 + 1 = k := by omega
        simp [*]


theorem insertAt_popAt_perm (l : List Nat) (r j : Nat) (hr : r < l.length) :
    (insertAt (popAt l r) j l[r]).Perm l := by
  have h1 : (insertAt (popAt l r) j l[r]).Perm (l[r] :: popAt l r) := by
    unfold insertAt
    refine List.perm_middle.trans ?_
    rw [List.take_append_drop]
  have h2 : (l[r] :: popAt l r).Perm l := by
    unfold popAt
    refine (List.perm_middle (a := l[r]) (l₁ := l.take r) (l₂ := l.drop (r + 1))).symm.trans ?_
    rw [List.getElem_cons_drop hr, List.take_append_drop]
  exact h1.trans h2

theorem fwdPerm_nodup (N l r : Nat) (h2 : r < N) : (fwdPerm N l r).Nodup := by
  have h := insertAt_popAt_perm (List.range N) r (l + 1) (by simpa using h2)
  simp only [List.getElem_range] at h
  exact h.nodup_iff.mpr List.nodup_range

theorem bwdPerm_nodup (N l r : Nat) (h1 : l + 1 < r) (h2 : r < N) : (bwdPerm N l r).Nodup := by
  have h := insertAt_popAt_perm (List.range N) (l + 1) r (by simp; omega)
  simp only [List.getElem_range] at h
  exact h.nodup_iff.mpr List.nodup_range

theorem fwdPerm_length (N l r : Nat) (h2 : r < N) : (fwdPerm N l r).length = N := by
  have h := insertAt_popAt_perm (List.range N) r (l + 1) (by simpa using h2)
  simp only [List.getElem_range] at h
  unfold fwdPerm
  simpa using h.length_eq

theorem bwdPerm_length (N l r : Nat) (h1 : l + 1 < r) (h2 : r < N) : (bwdPerm N l r).length = N := by
  have h := insertAt_popAt_perm (List.range N) (l + 1) r (by simp; omega)
  simp only [List.getElem_range] at h
  unfold bwdPerm
  simpa using h.length_eq

/-- transposing by a permutation and then by its inverse is the identity -/
theorem transpose_transpose_eqv {α} (x : Tensor α) (p q : List Nat) (n : Nat)
    (hn : x.shape.length = n) (hp : p.length = n) (hq : q.length = n)
    (hpn : p.Nodup) (hqn : q.Nodup)
    (hA : ∀ k, k < n → ∃ a, q[k]? = some a ∧ p[a]? = some k) :
    ((x.transpose p).transpose q).Eqv x := by
  have hshape : ((x.transpose p).transpose q).shape = x.shape := by
    simp only [Tensor.transpose]
    apply List.ext_getElem?
    intro k
    by_cases hk : k < n
    · obtain ⟨a, ha1, ha2⟩ := hA k hk
      have ha : a < p.length := by
        rcases Nat.lt_or_ge a p.length with h | h
        · exact h
        · rw [List.getElem?_eq_none h] at ha2; cases ha2
      simp only [List.getElem?_map, ha1, Option.map_some]
      rw [List.getD_eq_getElem?_getD, List.getElem?_map, ha2]
      simp [List.getD_eq_getElem?_getD, hn, hk]
    · rw [List.getElem?_eq_none (by simp; omega), List.getElem?_eq_none (by omega)]
  refine ⟨hshape, ?_⟩
  intro idx hidx
  rw [hshape] at hidx
  have hil : idx.length = n := by rw [inBounds_length hidx, hn]
  simp only [Tensor.transpose, List.length_map, hp, hn]
  congr 1
  apply List.ext_getElem?
  intro c
  by_cases hc : c < n
  · obtain ⟨a, ha1, ha2⟩ := hA c hc
    have ha : a < p.length := by
      rcases Nat.lt_or_ge a p.length with h | h
      · exact h
      · rw [List.getElem?_eq_none h] at ha2; cases ha2
    have hcq : c < q.length := by omega
    have e1 : p.idxOf c = a := by
      have := hpn.idxOf_getElem a ha
      rw [List.getElem?_eq_getElem ha] at ha2
      simp only [Option.some.injEq] at ha2
      rw [ha2] at this; exact this
    have e2 : q.idxOf a = c := by
      have := hqn.idxOf_getElem c hcq
      rw [List.getElem?_eq_getElem hcq] at ha1
      simp only [Option.some.injEq] at ha1
      rw [ha1] at this; exact this
    have han : a < n := by omega
    simp [List.getElem?_map, List.getElem?_range, hc, e1, han, e2, List.getD_eq_getElem?_getD, hil]
  · rw [List.getElem?_eq_none (by simp; omega), List.getElem?_eq_none (by omega)]



/-! ### the two-large-axes round trip -/

theorem inBounds_iff (s idx : List Nat) :
    inBounds s idx ↔ idx.length = s.length ∧ ∀ k, k < s.length → idx.getD k 0 < s.getD k 0 := by
  induction s generalizing idx with
  | nil => cases idx <;> simp [inBounds]
  | cons a s ih =>
    cases idx with
    | nil => simp [inBounds]
    | cons i is =>
      simp only [inBounds, ih, List.length_cons, Nat.add_right_cancel_iff]
      constructor
      · rintro ⟨h0, hl, hk⟩
        refine ⟨hl, ?_⟩
        intro k hk'
        cases k with
        | zero => simpa using h0
        | succ k => simpa using hk k (by omega)
      · rintro ⟨hl, hk⟩
        refine ⟨by simpa using hk 0 (by omega), hl, ?_⟩
        intro k hk'
        simpa using hk (k + 1) (by omega)

theorem map_insertAt_popAt (L : List Nat) (r j x : Nat) (f : Nat → Nat) :
    (insertAt (popAt L r) j x).map f = insertAt (popAt (L.map f) r) j (f x) := by
  simp [insertAt, popAt, List.map_take, List.map_drop]

theorem popAt_append_cons (A B : List Nat) (x : Nat) : popAt (A ++ x :: B) A.length = A ++ B := by
  simp [popAt]

theorem insertAt_append (A B : List Nat) (x : Nat) : insertAt (A ++ B) A.length x = A ++ x :: B := by
  simp [insertAt]

theorem range_map_getD (l : List Nat) : (List.range l.length).map (fun a => l.getD a 0) = l := by
  apply List.ext_getElem
  · simp
  · intro i h1 h2
    simp at h1
    simp [List.getD_eq_getElem?_getD, h1]


theorem fwdPerm_perm (N l r : Nat) (h2 : r < N) : (fwdPerm N l r).Perm (List.range N) := by
  have h := insertAt_popAt_perm (List.range N) r (l + 1) (by simpa using h2)
  simp only [List.getElem_range] at h
  exact h

theorem bwdPerm_perm (N l r : Nat) (h1 : l + 1 < r) (h2 : r < N) :
    (bwdPerm N l r).Perm (List.range N) := by
  have h := insertAt_popAt_perm (List.range N) (l + 1) r (by simp; omega)
  simp only [List.getElem_range] at h
  exact h

/-- the index handed to the input of a transpose is in bounds -/
theorem transpose_index_inBounds {α} (y : Tensor α) (q : List Nat) (n : Nat)
    (hn : y.shape.length = n) (hq : q.Perm (List.range n)) (i1 : List Nat)
    (h : inBounds (y.transpose q).shape i1) :
    inBounds y.shape ((List.range n).map fun a => i1.getD (q.idxOf a) 0) := by
  rw [inBounds_iff] at h ⊢
  have hql : q.length = n := by simpa using hq.length_eq
  simp only [Tensor.transpose, List.length_map] at h
  refine ⟨by simp [hn], ?_⟩
  intro k hk
  rw [hn] at hk
  have hkq : k ∈ q := hq.mem_iff.mpr (by simpa using hk)
  have hi : q.idxOf k < q.length := List.idxOf_lt_length_of_mem hkq
  have h2 := h.2 (q.idxOf k) hi
  have e : (List.map (fun a => y.shape.getD a 0) q).getD (q.idxOf k) 0 = y.shape.getD k 0 := by
    rw [List.getD_eq_getElem?_getD, List.getElem?_map, List.getElem?_eq_getElem hi]
    simp [List.getElem_idxOf hi]
  rw [e] at h2
  simpa [List.getD_eq_getElem?_getD, List.getElem?_map, List.getElem?_range, hk] using h2


theorem bwd_fwd_inverse (N l r k : Nat) (h1 : l + 1 < r) (h2 : r < N) (hk : k < N) :
    ∃ a, (bwdPerm N l r)[k]? = some a ∧ (fwdPerm N l r)[a]? = some k := by
  by_cases c1 : k ≤ l
  · refine ⟨k, ?_, ?_⟩
    · rw [bwdPerm_getElem? N l r k h1 h2 hk]; simp [c1]
    · rw [fwdPerm_getElem? N l r k h1 h2 hk]; simp [c1]
  · by_cases c2 : k < r
    · refine ⟨k + 1, ?_, ?_⟩
      · rw [bwdPerm_getElem? N l r k h1 h2 hk]; simp [c1, c2]
      · rw [fwdPerm_getElem? N l r (k + 1) h1 h2 (by omega)]
        have a1 : ¬ k + 1 ≤ l := by omega
        have a2 : ¬ k + 1 = l + 1 := by omega
        have a3 : k + 1 ≤ r := by omega
        simp [a1, a2, a3] <;> omega
    · by_cases c3 : k = r
      · refine ⟨l + 1, ?_, ?_⟩
        · rw [bwdPerm_getElem? N l r k h1 h2 hk]; simp [c1, c2, c3] <;> omega
        · rw [fwdPerm_getElem? N l r (l + 1) h1 h2 (by omega)]; simp [c3]
      · refine ⟨k, ?_, ?_⟩
        · rw [bwdPerm_getElem? N l r k h1 h2 hk]; simp [c1, c2, c3]
        · rw [fwdPerm_getElem? N l r k h1 h2 hk]
          have a2 : ¬ k = l + 1 := by omega
          have a3 : ¬ k ≤ r := by omega
          simp [c1, a2, a3]

theorem fwdPerm_map_shape (bef mid aft : List Nat) (lB rB bs : Nat) :
    (fwdPerm (bef ++ [lB, bs] ++ mid ++ [rB, bs] ++ aft).length bef.length
        (bef.length + 2 + mid.length)).map
      (fun a => (bef ++ [lB, bs] ++ mid ++ [rB, bs] ++ aft).getD a 0) =
    bef ++ [lB, rB] ++ ([bs] ++ mid ++ [bs] ++ aft) := by
  unfold fwdPerm
  rw [map_insertAt_popAt, range_map_getD]
  have e1 : bef ++ [lB, bs] ++ mid ++ [rB, bs] ++ aft = (bef ++ [lB, bs] ++ mid) ++ rB :: (bs :: aft) := by
    simp
  have hl : (bef ++ [lB, bs] ++ mid).length = bef.length + 2 + mid.length := by simp; omega
  have e2 : (bef ++ [lB, bs] ++ mid ++ [rB, bs] ++ aft).getD (bef.length + 2 + mid.length) 0 = rB := by
    rw [e1, ← hl, List.getD_eq_getElem?_getD]; simp
  rw [e2]
  conv_lhs => rw [e1, ← hl, popAt_append_cons]
  have e3 : bef ++ [lB, bs] ++ mid ++ bs :: aft = (bef ++ [lB]) ++ (bs :: mid ++ bs :: aft) := by simp
  have hl2 : (bef ++ [lB]).length = bef.length + 1 := by simp
  rw [e3, ← hl2, insertAt_append]
  simp

theorem blockifyTwo_roundtrip {α} (t : Tensor α) (bef mid aft : List Nat) (lB rB bs : Nat)
    (hshape : t.shape = bef ++ (lB * bs) :: mid ++ (rB * bs) :: aft) :
    (deblockifyTwo (blockifyTwo t bef mid aft lB rB bs (lB * rB)) bef.length
      (bef.length + 1 + mid.length) [lB, rB] t.shape).Eqv t := by
  -- names
  obtain ⟨SS, hSS⟩ : ∃ SS, SS = bef ++ [lB, bs] ++ mid ++ [rB, bs] ++ aft := ⟨_, rfl⟩
  obtain ⟨NS, hNS⟩ : ∃ NS, NS = bef ++ [lB * rB, bs] ++ mid ++ [bs] ++ aft := ⟨_, rfl⟩
  have hN : SS.length = bef.length + mid.length + aft.length + 4 := by subst hSS; simp; omega
  have hr : bef.length + 2 + mid.length < SS.length := by omega
  obtain ⟨p, hp⟩ : ∃ p, p = fwdPerm SS.length bef.length (bef.length + 2 + mid.length) := ⟨_, rfl⟩
  obtain ⟨q, hq⟩ : ∃ q, q = bwdPerm SS.length bef.length (bef.length + 2 + mid.length) := ⟨_, rfl⟩
  obtain ⟨x, hx⟩ : ∃ x, x = t.reshape SS := ⟨_, rfl⟩
  obtain ⟨y, hy⟩ : ∃ y, y = x.transpose p := ⟨_, rfl⟩
  have hxs : x.shape = SS := by subst hx; rfl
  have hys : y.shape = bef ++ [lB, rB] ++ ([bs] ++ mid ++ [bs] ++ aft) := by
    subst hy hp
    simp only [Tensor.transpose, hxs]
    subst hSS
    exact fwdPerm_map_shape bef mid aft lB rB bs
  have hyl : y.shape.length = SS.length := by rw [hys, hN]; simp; omega
  -- element counts
  have hpSS : prod SS = prod t.shape := by
    subst hSS; rw [hshape]
    simp only [prod_append, prod_cons, prod_nil]
    simp only [Nat.mul_one, Nat.mul_assoc]
  have hpNS : prod NS = prod y.shape := by
    subst hNS; rw [hys]
    simp only [prod_append, prod_cons, prod_nil]
    ring
  -- the blockified tensor and what deblockify computes from it
  have hb : blockifyTwo t bef mid aft lB rB bs (lB * rB) = y.reshape NS := by
    subst hy hx hp hSS hNS; rfl
  have hzs : (y.reshape NS).shape = NS := rfl
  have htake : NS.take bef.length = bef := by subst hNS; simp
  have hdrop : NS.drop (bef.length + 1) = [bs] ++ mid ++ [bs] ++ aft := by
    subst hNS
    have : bef ++ [lB * rB, bs] ++ mid ++ [bs] ++ aft = (bef ++ [lB * rB]) ++ ([bs] ++ mid ++ [bs] ++ aft) := by
      simp
    have hl : (bef ++ [lB * rB]).length = bef.length + 1 := by simp
    rw [this, ← hl, List.drop_left']
    rfl
  -- deblockify side
  have hd : deblockifyTwo (y.reshape NS) bef.length (bef.length + 1 + mid.length) [lB, rB] t.shape =
      (((y.reshape NS).reshape y.shape).transpose q).reshape t.shape := by
    unfold deblockifyTwo
    simp only [hzs, htake, hdrop]
    have e : bef ++ [lB, rB] ++ ([bs] ++ mid ++ [bs] ++ aft) = y.shape := hys.symm
    rw [e]
    have e2 : ((y.reshape NS).reshape y.shape).shape.length = SS.length := hyl
    simp only [e2]
    have e3 : bef.length + 1 + mid.length + 1 = bef.length + 2 + mid.length := by omega
    rw [e3, hq]
    rfl
  rw [hb, hd]
  -- now compute
  have hperm_p : p.Perm (List.range SS.length) := hp ▸ fwdPerm_perm _ _ _ hr
  have hperm_q : q.Perm (List.range SS.length) := hq ▸ bwdPerm_perm _ _ _ (by omega) hr
  have hTT := transpose_transpose_eqv x p q SS.length (by rw [hxs])
    (by simpa using hperm_p.length_eq) (by simpa using hperm_q.length_eq)
    (hperm_p.nodup_iff.mpr List.nodup_range) (hperm_q.nodup_iff.mpr List.nodup_range)
    (by
      intro k hk
      rw [hp, hq]
      exact bwd_fwd_inverse _ _ _ k (by omega) hr hk)
  rw [← hy] at hTT
  -- shapes
  have hTq : (((y.reshape NS).reshape y.shape).transpose q).shape = SS := by
    have : (((y.reshape NS).reshape y.shape).transpose q).shape = (y.transpose q).shape := rfl
    rw [this, hTT.1, hxs]
  refine ⟨rfl, ?_⟩
  intro idx hidx
  have hidx' : inBounds t.shape idx := hidx
  have hlt : ravel t.shape idx < prod SS := hpSS ▸ ravel_lt t.shape idx hidx'
  -- index seen by the outer transpose
  obtain ⟨i1, hi1⟩ : ∃ i1, i1 = unravel SS (ravel t.shape idx) := ⟨_, rfl⟩
  have hi1b : inBounds SS i1 := hi1 ▸ unravel_inBounds SS _ hlt
  have hi1b' : inBounds (y.transpose q).shape i1 := by rw [hTT.1, hxs]; exact hi1b
  have hi2b := transpose_index_inBounds y q SS.length hyl hperm_q i1 hi1b'
  show ((((y.reshape NS).reshape y.shape).transpose q).reshape t.shape).get idx = t.get idx
  simp only [Tensor.reshape]
  show (((y.reshape NS).reshape y.shape).transpose q).get
      (unravel (((y.reshape NS).reshape y.shape).transpose q).shape (ravel t.shape idx)) = t.get idx
  rw [hTq, ← hi1]
  -- through the transpose and the two reshapes
  have step1 : (((y.reshape NS).reshape y.shape).transpose q).get i1 =
      ((y.reshape NS).reshape y.shape).get ((List.range SS.length).map fun a => i1.getD (q.idxOf a) 0) := by
    simp only [Tensor.transpose]
    rw [show ((y.reshape NS).reshape y.shape).shape.length = SS.length from hyl]
  have step2 := (reshape_back_eqv y NS hpNS).2 _ hi2b
  have step3 : y.get ((List.range SS.length).map fun a => i1.getD (q.idxOf a) 0) =
      (y.transpose q).get i1 := by
    simp only [Tensor.transpose]
    rw [hyl]
  have step4 := hTT.2 i1 hi1b'
  rw [step1, step2, step3, step4, hx]
  simp only [Tensor.reshape]
  rw [hi1, ravel_unravel SS _ hlt, unravel_ravel t.shape idx hidx']

theorem list_split_at (L : List Nat) (k : Nat) (hk : k < L.length) :
    L = L.take k ++ L.getD k 0 :: L.drop (k + 1) := by
  rw [List.getD_eq_getElem?_getD, List.getElem?_eq_getElem hk, Option.getD_some,
    List.getElem_cons_drop hk, List.take_append_drop]

theorem list_split_two (S : List Nat) (a c : Nat) (hac : a < c) (hc : c < S.length) :
    S = S.take a ++ S.getD a 0 :: (S.drop (a + 1)).take (c - a - 1) ++ S.getD c 0 :: S.drop (c + 1) := by
  have ha : a < S.length := by omega
  have h1 := list_split_at S a ha
  have hc' : c - a - 1 < (S.drop (a + 1)).length := by simp; omega
  have h2 := list_split_at (S.drop (a + 1)) (c - a - 1) hc'
  have e1 : (S.drop (a + 1)).getD (c - a - 1) 0 = S.getD c 0 := by
    simp only [List.getD_eq_getElem?_getD, List.getElem?_drop]
    congr 2; omega
  have e2 : (S.drop (a + 1)).drop (c - a - 1 + 1) = S.drop (c + 1) := by
    rw [List.drop_drop]; congr 1; omega
  rw [e1, e2] at h2
  conv_lhs => rw [h1, h2]
  simp

/-- `_deblockify ∘ _blockify` is the identity for every parameter Tearfree Shampoo accepts
(at most two large axes, each a multiple of the block size). -/
theorem deblockify_blockify_eqv {α} (t : Tensor α) (b : Nat)
    (hle : (blocksMetadata b t.shape).largeAxes.length ≤ 2)
    (hdiv : ∀ a ∈ (blocksMetadata b t.shape).largeAxes, b ∣ t.shape.getD a 0) :
    (deblockify (blockify t (blocksMetadata b t.shape)) (blocksMetadata b t.shape)).Eqv t := by
  match hla : (blocksMetadata b t.shape).largeAxes with
  | [] => exact deblockify_blockify_le_one t b (by rw [hla]; simp) hdiv
  | [a] => exact deblockify_blockify_le_one t b (by rw [hla]; simp) hdiv
  | [a, c] =>
    have hsorted : List.Pairwise (· < ·) (blocksMetadata b t.shape).largeAxes :=
      List.Pairwise.filter _ List.pairwise_lt_range
    rw [hla] at hsorted
    have hac : a < c := by simpa using hsorted
    have hc : c < t.shape.length := by
      have : c ∈ (blocksMetadata b t.shape).largeAxes := by rw [hla]; simp
      simp only [blocksMetadata, List.mem_filter, List.mem_range] at this
      exact this.1
    have hda : b ∣ t.shape.getD a 0 := hdiv a (by rw [hla]; simp)
    have hdc : b ∣ t.shape.getD c 0 := hdiv c (by rw [hla]; simp)
    have hbpl : (blocksMetadata b t.shape).blocksPerLargeAxis =
        [t.shape.getD a 0 / b, t.shape.getD c 0 / b] := by
      show ((blocksMetadata b t.shape).largeAxes.map fun i => t.shape.getD i 0 / b) = _
      rw [hla]; rfl
    have hnb : (blocksMetadata b t.shape).numBlocks = t.shape.getD a 0 / b * (t.shape.getD c 0 / b) := by
      show prod (blocksMetadata b t.shape).blocksPerLargeAxis = _
      rw [hbpl]; simp
    have hba : (blocksMetadata b t.shape).blocksAxis = a := by
      show (blocksMetadata b t.shape).largeAxes.headD 0 = a
      rw [hla]; rfl
    have hlb : (blocksMetadata b t.shape).largeBlockSize = b := rfl
    have hps : (blocksMetadata b t.shape).paramShape = t.shape := rfl
    have hsplit := list_split_two t.shape a c hac hc
    have hbefl : (t.shape.take a).length = a := by simp; omega
    have hmidl : ((t.shape.drop (a + 1)).take (c - a - 1)).length = c - a - 1 := by simp; omega
    have hshape : t.shape = t.shape.take a ++ (t.shape.getD a 0 / b * b) ::
        (t.shape.drop (a + 1)).take (c - a - 1) ++ (t.shape.getD c 0 / b * b) :: t.shape.drop (c + 1) := by
      rw [Nat.div_mul_cancel hda, Nat.div_mul_cancel hdc]; exact hsplit
    have hrt := blockifyTwo_roundtrip t (t.shape.take a) ((t.shape.drop (a + 1)).take (c - a - 1))
      (t.shape.drop (c + 1)) (t.shape.getD a 0 / b) (t.shape.getD c 0 / b) b hshape
    rw [hbefl, hmidl] at hrt
    have hcc : a + 1 + (c - a - 1) = c := by omega
    rw [hcc] at hrt
    unfold blockify deblockify
    simp only [hla, hbpl, hnb, hba, hlb, hps]
    simpa using hrt
  | _ :: _ :: _ :: _ =>
    rw [hla] at hle
    simp at hle


end PrecondVerif.Shapes
