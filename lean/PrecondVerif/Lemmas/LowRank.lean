/-
Helper lemmas for the low-rank packed preconditioner (property C10).
-/
import PrecondVerif.Model.LowRank
import Mathlib.Data.Matrix.Mul
import Mathlib.Algebra.BigOperators.Fin
import Mathlib.Tactic.SplitIfs
import Mathlib.Tactic.Ring
import Mathlib.Algebra.Order.Field.Basic

namespace PrecondVerif.LowRank
variable {α : Type}

/-! ### slots -/

/-- closes the goals left after splitting the slot conditions: same slot (`rfl`, or equal
indices), or contradictory index arithmetic -/
macro "slots" : tactic =>
  `(tactic| (split_ifs <;> first
     | rfl
     | (exfalso; omega)
     | (exfalso; simp only [and_true, true_and, false_and, and_false, not_true_eq_false,
          not_false_eq_true] at * <;> omega)
     | (congr 1; apply Fin.ext; simp only []; omega)))

theorem fdUnpack_fdPack [Zero α] [One α] [BEq α] [LawfulBEq α] (h10 : (1 : α) ≠ 0)
    {d r : Nat} (h : r + 2 < d) (F : Fields α d r) : fdUnpack h (fdPack F) = F := by
  obtain ⟨V, ev, ie, c, t, hz⟩ := F
  simp only [fdUnpack, fdPack]
  congr 1
  · funext i j
    have := j.isLt; have := i.isLt
    slots
  · funext i
    have := i.isLt
    slots
  · funext i
    have := i.isLt
    slots
  · slots
  · slots
  · cases hz
    · simp
    · simp [h10]

/-- the slots no field occupies are zero, and the `has_zeros` slot holds 0 or 1 -/
structure UnusedZero [Zero α] [One α] {d r : Nat} (h : r + 2 < d) (P : Mat α d (r + 2)) : Prop where
  colInv : ∀ i : Fin d, r ≤ i.val → i.val < d - 1 → P i ⟨(r + 2) - 2, by omega⟩ = 0
  colLast : ∀ i : Fin d, 2 ≤ i.val → i.val < d - r → P i ⟨(r + 2) - 1, by omega⟩ = 0
  flag : P ⟨d - 1, by omega⟩ ⟨(r + 2) - 2, by omega⟩ = 0 ∨ P ⟨d - 1, by omega⟩ ⟨(r + 2) - 2, by omega⟩ = 1

open Matrix

theorem flag_roundtrip [Zero α] [One α] [BEq α] [LawfulBEq α] (x : α) (hx : x = 0 ∨ x = 1) :
    (if (!(x == 0)) = true then (1 : α) else 0) = x := by
  rcases hx with rfl | rfl
  · simp
  · by_cases h : (1 : α) = 0
    · simp [h]
    · simp [h]

theorem Mat.congr_idx {m n : Nat} (P : Mat α m n) {a a' : Fin m} {b b' : Fin n}
    (ha : a.val = a'.val) (hb : b.val = b'.val) : P a b = P a' b' := by
  rw [Fin.ext ha, Fin.ext hb]

theorem fdPack_fdUnpack [Zero α] [One α] [BEq α] [LawfulBEq α]
    {d r : Nat} (h : r + 2 < d) (P : Mat α d (r + 2)) (hP : UnusedZero h P) :
    fdPack (fdUnpack h P) = P := by
  funext i j
  obtain ⟨h1, h2, h3⟩ := hP
  obtain ⟨iv, hi⟩ := i
  obtain ⟨jv, hj⟩ := j
  simp only [fdUnpack, fdPack]
  rcases (show jv < r ∨ jv = r + 2 - 2 ∨ jv = r + 2 - 1 by omega) with hj1 | hj2 | hj2
  · rw [if_neg (by omega), dif_neg (by omega), if_neg (by omega), if_neg (by omega),
      dif_neg (by omega), dif_pos hj1]
  · have hjE : (⟨jv, hj⟩ : Fin (r + 2)) = ⟨r + 2 - 2, by omega⟩ := Fin.ext hj2
    by_cases hi1 : iv = d - 1
    · rw [if_pos ⟨hi1, hj2⟩]
      have hiE : (⟨iv, hi⟩ : Fin d) = ⟨d - 1, by omega⟩ := Fin.ext hi1
      rw [hjE, hiE]
      exact flag_roundtrip _ h3
    · rw [if_neg (by omega), dif_neg (by omega), if_neg (by omega), if_neg (by omega)]
      by_cases hi2 : iv < r
      · rw [dif_pos ⟨hi2, hj2⟩]; exact P.congr_idx rfl hj2.symm
      · rw [dif_neg (by omega), dif_neg (by omega), hjE]
        exact (h1 ⟨iv, hi⟩ (by simp only []; omega) (by simp only []; omega)).symm
  · have hjE : (⟨jv, hj⟩ : Fin (r + 2)) = ⟨r + 2 - 1, by omega⟩ := Fin.ext hj2
    rw [if_neg (by omega)]
    by_cases hi1 : d - r ≤ iv
    · rw [dif_pos ⟨hi1, hj2⟩]
      exact P.congr_idx (by simp only []; omega) hj2.symm
    · rw [dif_neg (by omega)]
      by_cases hi2 : iv = 1
      · rw [if_pos ⟨hi2, hj2⟩]; exact P.congr_idx hi2.symm hj2.symm
      · rw [if_neg (by omega)]
        by_cases hi3 : iv = 0
        · rw [if_pos ⟨hi3, hj2⟩]; exact P.congr_idx hi3.symm hj2.symm
        · rw [if_neg (by omega), dif_neg (by omega), dif_neg (by omega), hjE]
          exact (h2 ⟨iv, hi⟩ (by simp only []; omega) (by simp only []; omega)).symm

theorem sumFin_eq [AddCommMonoid α] (n : Nat) (f : Fin n → α) : sumFin n f = ∑ i, f i := by
  rw [Fin.sum_univ_def]; rfl

/-- a model matrix read as a Mathlib matrix (definitionally the same function) -/
abbrev toM {m n : Nat} (A : Mat α m n) : Matrix (Fin m) (Fin n) α := A

theorem applyDense_eq [CommRing α] {d n : Nat} (P : Mat α d d) (G : Mat α d n) :
    toM (applyDense P G) = (toM G)ᵀ * toM P := by
  funext t b
  simp [applyDense, sumFin_eq, Matrix.mul_apply]

theorem denote_eq [CommRing α] {d r : Nat} (V : Mat α d r) (e : Vec α r) (c : α) :
    toM (denote V e c) = c • (1 - toM V * (toM V)ᵀ) + toM V * Matrix.diagonal e * (toM V)ᵀ := by
  funext i b
  simp [denote, sumFin_eq, Matrix.mul_apply, Matrix.one_apply, Matrix.diagonal_apply]

theorem applyPacked_new_eq [CommRing α] {d r n : Nat} (V : Mat α d r) (e : Vec α r) (c : α)
    (G : Mat α d n) :
    toM (applyPacked V e c false G) =
      c • ((toM G)ᵀ - (toM G)ᵀ * toM V * (toM V)ᵀ) + (toM G)ᵀ * toM V * Matrix.diagonal e * (toM V)ᵀ := by
  funext t b
  simp [applyPacked, sumFin_eq, Matrix.mul_apply, Matrix.diagonal_apply]

theorem applyPacked_skip [Add α] [Sub α] [Mul α] [Zero α] {d r n : Nat} (V : Mat α d r) (e : Vec α r) (c : α)
    (G : Mat α d n) : applyPacked V e c true G = G.transpose := by
  funext t b; simp [applyPacked, Mat.transpose]

theorem applyPacked_eq_applyDense [CommRing α] {d r n : Nat} (V : Mat α d r) (e : Vec α r) (c : α)
    (G : Mat α d n) : applyPacked V e c false G = applyDense (denote V e c) G := by
  have h1 := applyPacked_new_eq V e c G
  have h2 := applyDense_eq (denote V e c) G
  rw [denote_eq] at h2
  show toM (applyPacked V e c false G) = toM (applyDense (denote V e c) G)
  rw [h1, h2]
  simp only [Matrix.mul_add, Matrix.mul_smul, Matrix.mul_sub, Matrix.mul_one, Matrix.mul_assoc]



theorem view_unview [Zero α] (n d : Nat) (M : Mat α n d) : view n d (unview n d M) = M := by
  funext i j
  have hd : 0 < d := Nat.lt_of_le_of_lt (Nat.zero_le _) j.isLt
  have hlt : i.val * d + j.val < n * d :=
    Nat.lt_of_lt_of_le (Nat.add_lt_add_left j.isLt _)
      (by rw [← Nat.succ_mul]; exact Nat.mul_le_mul_right d i.isLt)
  simp only [view, unview]
  rw [dif_pos hlt]
  apply Mat.congr_idx
  · simp only []
    rw [Nat.add_comm, Nat.add_mul_div_right _ _ hd, Nat.div_eq_of_lt j.isLt, Nat.zero_add]
  · simp only []
    rw [Nat.add_comm, Nat.add_mul_mod_self_right, Nat.mod_eq_of_lt j.isLt]

theorem stepPacked_eq_stepDenoted [CommRing α] [BEq α] :
    (stepPacked : AxisOp α → (d n : Nat) → Mat α d n → Mat α n d) = stepDenoted := by
  funext op d n G
  cases op with
  | roll => rfl
  | dense P => rfl
  | packed r P =>
    simp only [stepPacked, stepDenoted]
    split
    · rename_i h
      simp only [applyPackedP]
      cases hz : (lowRankUnpack h (ofIdx d (r + 2) P)).hasZeros
      · simp [applyPacked_eq_applyDense]
      · simp [applyPacked_skip]
    · rfl

theorem preconditionBlock_eq_denoted [CommRing α] [BEq α] (ops : List (AxisOp α)) (shape : List Nat)
    (a : Array α) : preconditionBlock ops shape a = preconditionBlockDenoted ops shape a := by
  unfold preconditionBlock preconditionBlockDenoted
  rw [stepPacked_eq_stepDenoted]

theorem rd_tab [Zero α] (n : Nat) (t : Nat → α) (k : Nat) (hk : k < n) : rd (tab n t) k = t k := by
  simp [rd, tab, Array.getD, hk]

/-- tabulating flat data does not change its `(d, n)` view -/
theorem view_rd_tab [Zero α] (d n : Nat) (t : Nat → α) : view d n (rd (tab (d * n) t)) = view d n t := by
  funext i j
  simp only [view]
  apply rd_tab
  exact Nat.lt_of_lt_of_le (Nat.add_lt_add_left j.isLt _)
    (by rw [← Nat.succ_mul]; exact Nat.mul_le_mul_right n i.isLt)

/-- flat row-major data of a matrix, as the array `blockLoop` carries -/
def flat [Zero α] {m n : Nat} (M : Mat α m n) : Array α := tab (m * n) (unview m n M)

theorem view_rd_flat [Zero α] {m n : Nat} (M : Mat α m n) : view m n (rd (flat M)) = M := by
  rw [flat, view_rd_tab, view_unview]

/-- matrix gradient `G : m × n`, packed preconditioner on axis 0 -/
theorem block_matrix_axis0 [CommRing α] [BEq α] {m n r : Nat} (h : r + 2 < m) (P : Nat → Nat → α)
    (G : Mat α m n) :
    preconditionBlock [.packed r P, .roll] [m, n] (flat G) =
      flat (m := m) (n := n) (if (lowRankUnpack h (ofIdx m (r + 2) P)).hasZeros then G
        else ((toM (denoteP h (ofIdx m (r + 2) P)))ᵀ * toM G)) := by
  rw [preconditionBlock_eq_denoted]
  simp only [preconditionBlockDenoted, blockLoop, size, List.cons_append, List.nil_append,
    view_rd_flat, view_rd_tab, view_unview, stepDenoted, dif_pos h]
  refine congrArg (fun M : Mat α m n => flat M) ?_
  by_cases hz : (lowRankUnpack h (ofIdx m (r + 2) P)).hasZeros = true
  · simp only [hz]; rfl
  · simp only [hz]
    show (toM (applyDense _ G))ᵀ = _
    rw [applyDense_eq]
    simp [denoteP, Matrix.transpose_mul]

/-- matrix gradient `G : m × n`, packed preconditioner on axis 1 -/
theorem block_matrix_axis1 [CommRing α] [BEq α] {m n r : Nat} (h : r + 2 < n) (P : Nat → Nat → α)
    (G : Mat α m n) :
    preconditionBlock [.roll, .packed r P] [m, n] (flat G) =
      flat (m := m) (n := n) (if (lowRankUnpack h (ofIdx n (r + 2) P)).hasZeros then G
        else (toM G * toM (denoteP h (ofIdx n (r + 2) P)))) := by
  rw [preconditionBlock_eq_denoted]
  simp only [preconditionBlockDenoted, blockLoop, size, List.cons_append, List.nil_append,
    view_rd_flat, view_rd_tab, view_unview, stepDenoted, dif_pos h]
  refine congrArg (fun M : Mat α m n => flat M) ?_
  by_cases hz : (lowRankUnpack h (ofIdx n (r + 2) P)).hasZeros = true
  · simp only [hz]; rfl
  · simp only [hz]
    show toM (applyDense _ G.transpose) = _
    rw [applyDense_eq]
    rfl


/-- split a sum over `Fin d` at `r ≤ d` -/
theorem sum_split [AddCommMonoid α] {d r : Nat} (hr : r ≤ d) (G : Fin d → α) :
    ∑ i, G i = (∑ q : Fin r, G (Fin.castLE hr q))
      + ∑ i : Fin (d - r), G ⟨r + i.val, by have := i.isLt; omega⟩ := by
  have hd : r + (d - r) = d := by omega
  rw [← Equiv.sum_comp (finCongr hd) G, Fin.sum_univ_add]
  rfl

theorem sum_castLE [AddCommMonoid α] {d r : Nat} (hr : r ≤ d) (F : Fin d → α) :
    ∑ q : Fin r, F (Fin.castLE hr q) = ∑ i, if i.val < r then F i else 0 := by
  rw [sum_split hr (fun i => if i.val < r then F i else 0)]
  have h2 : ∑ i : Fin (d - r), (if (⟨r + i.val, by have := i.isLt; omega⟩ : Fin d).val < r
      then F ⟨r + i.val, by have := i.isLt; omega⟩ else 0) = 0 := by
    apply Finset.sum_eq_zero
    intro i _
    rw [if_neg (by simp only []; omega)]
  rw [h2, add_zero]
  apply Finset.sum_congr rfl
  intro q _
  rw [if_pos (by simp)]

theorem sum_tail [AddCommMonoid α] {d r : Nat} (hr : r ≤ d) (F : Fin d → α) :
    ∑ i : Fin (d - r), F ⟨r + i.val, by have := i.isLt; omega⟩ =
      ∑ i, if r ≤ i.val then F i else 0 := by
  rw [sum_split hr (fun i => if r ≤ i.val then F i else 0)]
  have h1 : ∑ q : Fin r, (if r ≤ (Fin.castLE hr q).val then F (Fin.castLE hr q) else 0) = 0 := by
    apply Finset.sum_eq_zero
    intro q _
    rw [if_neg (by have := q.isLt; simp only [Fin.val_castLE]; omega)]
  rw [h1, zero_add]
  apply Finset.sum_congr rfl
  intro i _
  rw [if_pos (by simp only []; omega)]

/-! ### the flip / roll permutation -/

def permInv (d : Nat) (neg : Bool) (k : Nat) (j : Fin d) : Fin d :=
  if neg then ⟨(j.val + (d - k)) % d, Nat.mod_lt _ (Nat.lt_of_le_of_lt (Nat.zero_le _) j.isLt)⟩
  else ⟨d - 1 - j.val, by have := j.isLt; omega⟩

theorem roll_roundtrip (d a b i : Nat) (hi : i < d) (hab : a + b = d) :
    ((i + a) % d + b) % d = i := by
  rw [Nat.mod_add_mod, Nat.add_assoc, hab, Nat.add_mod_right, Nat.mod_eq_of_lt hi]

/-- `perm` as an equivalence (needs `k ≤ d`) -/
def permEquiv (d : Nat) (neg : Bool) (k : Nat) (hk : k ≤ d) : Fin d ≃ Fin d where
  toFun := perm d neg k
  invFun := permInv d neg k
  left_inv i := by
    apply Fin.ext
    cases neg
    · simp only [perm, permInv]; have := i.isLt; simp; omega
    · simp only [perm, permInv, if_true]
      exact roll_roundtrip d k (d - k) i.val i.isLt (by omega)
  right_inv j := by
    apply Fin.ext
    cases neg
    · simp only [perm, permInv]; have := j.isLt; simp; omega
    · simp only [perm, permInv, if_true]
      exact roll_roundtrip d (d - k) k j.val j.isLt (by omega)


/-! ### the packed root -/

/-- in the rolled / flipped order `σ`, the matrix denoted by the root's fields is `U' diag(w) U'ᵀ` with the first `r`
directions keeping their own root value and every other direction getting `const`; only `U Uᵀ = 1` is used -/
theorem denote_root_fields [Field α] [BEq α] [Max α] [LE α] [DecidableLE α] {d r : Nat} (hr : r ≤ d) (pw : α → α) (neg : Bool)
    (ps : Option Nat) (ridge : α) (e : Vec α d) (U : Mat α d d) (hU : toM U * (toM U)ᵀ = 1) :
    let F := lowRankRootFields hr pw neg ps ridge e U
    let σ := perm d neg (d - ps.getD d)
    let invE := invEigs pw ridge (maskedEigs ps e)
    toM (denote F.eigvecs F.invEigvals F.const) =
      toM (fun a k => U a (σ k)) * Matrix.diagonal (fun k => if k.val < r then invE (σ k) else F.const)
        * (toM fun a k => U a (σ k))ᵀ := by
  intro F σ invE
  have hk : d - ps.getD d ≤ d := Nat.sub_le _ _
  funext i b
  have hδ : (if i = b then (1 : α) else 0) = ∑ k, U i (σ k) * U b (σ k) := by
    have h1 := congrFun (congrFun hU i) b
    rw [Matrix.mul_apply] at h1
    simp only [Matrix.transpose_apply, Matrix.one_apply] at h1
    rw [← h1]
    exact (Equiv.sum_comp (permEquiv d neg _ hk) (fun j => U i j * U b j)).symm
  have hL : toM (denote F.eigvecs F.invEigvals F.const) i b =
      F.const * ((if i = b then (1 : α) else 0) - ∑ q : Fin r, U i (σ (Fin.castLE hr q)) * U b (σ (Fin.castLE hr q)))
        + ∑ q : Fin r, U i (σ (Fin.castLE hr q)) * invE (σ (Fin.castLE hr q)) * U b (σ (Fin.castLE hr q)) := by
    simp only [denote, sumFin_eq]
    rfl
  rw [hL, sum_castLE hr (fun k => U i (σ k) * U b (σ k)),
    sum_castLE hr (fun k => U i (σ k) * invE (σ k) * U b (σ k)), hδ]
  rw [Matrix.mul_apply]
  simp only [Matrix.mul_diagonal, Matrix.transpose_apply]
  rw [← Finset.sum_sub_distrib, Finset.mul_sum, ← Finset.sum_add_distrib]
  apply Finset.sum_congr rfl
  intro k _
  by_cases hkr : k.val < r
  · simp only [hkr, if_true]; ring
  · simp only [hkr, if_false]; ring


/-- `const` is the sum of the root values of all directions after the first `r` (in rolled / flipped order),
divided by `real_dim - r` (by 1 when that is not positive) -/
theorem const_root_fields [Field α] [BEq α] [Max α] [LE α] [DecidableLE α] {d r : Nat} (hr : r ≤ d) (pw : α → α) (neg : Bool)
    (ps : Option Nat) (ridge : α) (e : Vec α d) (U : Mat α d d) :
    (lowRankRootFields hr pw neg ps ridge e U).const =
      (∑ k : Fin d, if r ≤ k.val then invEigs pw ridge (maskedEigs ps e) (perm d neg (d - ps.getD d) k) else 0)
        / (if r < ps.getD d then ((ps.getD d - r : Nat) : α) else 1) := by
  simp only [lowRankRootFields, sumFin_eq]
  rw [sum_tail hr (fun k => invEigs pw ridge (maskedEigs ps e) (perm d neg (d - ps.getD d) k))]

/-- flip: position `k` of the new order is the `k`-th largest eigenvalue (`eigh` sorts ascending) -/
theorem perm_pos (d k : Nat) (i : Fin d) : (perm d false k i).val = d - 1 - i.val := rfl

/-- roll by the number of padded dimensions `d - p`: position `i < p` is ascending index `i + (d - p)`
(the `i`-th smallest unpadded eigenvalue), positions `i ≥ p` are the padded ones -/
theorem perm_neg (d p : Nat) (hp : p ≤ d) (i : Fin d) :
    (perm d true (d - p) i).val = if i.val < p then i.val + (d - p) else i.val - p := by
  have hi := i.isLt
  simp only [perm, if_true]
  split
  · exact Nat.mod_eq_of_lt (by omega)
  · have : i.val + (d - p) = (i.val - p) + d := by omega
    rw [this, Nat.add_mod_right, Nat.mod_eq_of_lt (by omega)]

/-- with padding, the root values at the positions `k ≥ padding_start` of the new order are zero -/
theorem invE_padded_zero [Field α] [BEq α] [LawfulBEq α] [Max α] [LE α] [DecidableLE α] {d : Nat} (pw : α → α) (neg : Bool) (p : Nat) (hp : p ≤ d)
    (ridge : α) (e : Vec α d) (k : Fin d) (hk : p ≤ k.val) :
    invEigs pw ridge (maskedEigs (some p) e) (perm d neg (d - (some p).getD d) k) = 0 := by
  have hlt := k.isLt
  have hidx : (perm d neg (d - p) k).val < d - p := by
    cases neg
    · rw [perm_pos]; omega
    · rw [perm_neg d p hp, if_neg (by omega)]; omega
  have hm : maskedEigs (some p) e (perm d neg (d - p) k) = 0 := by
    simp only [maskedEigs, ixMask]
    rw [if_neg (by omega), mul_zero]
  simp only [Option.getD_some, invEigs, hm, beq_self_eq_true, Bool.true_or, if_true]


/-- with `padding_start = p`, `r < p ≤ d`: `const` is the MEAN over the `p - r` unpadded, not retained directions -/
theorem const_is_mean_unpadded [Field α] [BEq α] [LawfulBEq α] [Max α] [LE α] [DecidableLE α] {d r : Nat} (hr : r ≤ d) (pw : α → α) (neg : Bool)
    (p : Nat) (hrp : r < p) (hp : p ≤ d) (ridge : α) (e : Vec α d) (U : Mat α d d) :
    (lowRankRootFields hr pw neg (some p) ridge e U).const =
      (∑ k : Fin d, if r ≤ k.val ∧ k.val < p
          then invEigs pw ridge (maskedEigs (some p) e) (perm d neg (d - p) k) else 0) / ((p - r : Nat) : α) := by
  rw [const_root_fields]
  simp only [Option.getD_some, if_pos hrp]
  congr 1
  apply Finset.sum_congr rfl
  intro k _
  by_cases h1 : r ≤ k.val
  · by_cases h2 : k.val < p
    · rw [if_pos h1, if_pos ⟨h1, h2⟩]
    · rw [if_pos h1, if_neg (by omega)]
      exact invE_padded_zero pw neg p hp ridge e k (by omega)
  · rw [if_neg h1, if_neg (by omega)]

/-- a retained root value is the exact inverse `p`-th root of its (regularized) eigenvalue, given the specification of
the real power `pw x = x^(-1/p)` on positive numbers; eigenvalues of `A + ridge·I`, `A` PSD, are `≥ ridge > 0` -/
theorem invEigs_exact [Field α] [LinearOrder α] [IsStrictOrderedRing α] [BEq α] [LawfulBEq α] {d : Nat} (pw : α → α) (p : Nat)
    (hpw : ∀ x : α, 0 < x → pw x ^ p * x = 1) (ridge : α) (hridge : 0 < ridge) (e : Vec α d) (i : Fin d)
    (hi : ridge ≤ e i) : invEigs pw ridge e i ^ p * e i = 1 := by
  have hpos : 0 < e i := lt_of_lt_of_le hridge hi
  have hne : (e i == 0) = false := by
    rw [beq_eq_false_iff_ne]; exact ne_of_gt hpos
  have hle : ¬ max (e i) ridge ≤ 0 := by
    rw [max_eq_left hi]; exact not_le.mpr hpos
  simp only [invEigs, hne, hle, decide_false, Bool.or_self, Bool.false_eq_true, if_false]
  rw [max_eq_left hi]
  exact hpw _ hpos

/-- the same with a ZERO ridge for a strictly positive eigenvalue (`matrix_epsilon = 0`) -/
theorem invEigs_exact_pos [Field α] [LinearOrder α] [IsStrictOrderedRing α] [BEq α] [LawfulBEq α] {d : Nat} (pw : α → α) (p : Nat)
    (hpw : ∀ x : α, 0 < x → pw x ^ p * x = 1) (ridge : α) (e : Vec α d) (i : Fin d)
    (hpos : 0 < e i) (hi : ridge ≤ e i) : invEigs pw ridge e i ^ p * e i = 1 := by
  have hne : (e i == 0) = false := by
    rw [beq_eq_false_iff_ne]; exact ne_of_gt hpos
  have hle : ¬ max (e i) ridge ≤ 0 := by
    rw [max_eq_left hi]; exact not_le.mpr hpos
  simp only [invEigs, hne, hle, decide_false, Bool.or_self, Bool.false_eq_true, if_false]
  rw [max_eq_left hi]
  exact hpw _ hpos

/-- zero ridge (D26): a non-positive eigenvalue (an exact zero, or a rounding-negative one) contributes 0 -/
theorem invEigs_zero_ridge [Field α] [LinearOrder α] [BEq α] {d : Nat} (pw : α → α)
    (ridge : α) (hridge : ridge ≤ 0) (e : Vec α d) (i : Fin d) (hi : e i ≤ 0) : invEigs pw ridge e i = 0 := by
  have hle : max (e i) ridge ≤ 0 := max_le hi hridge
  simp only [invEigs, hle, decide_true, Bool.or_true, if_true]

/-- the real power is only ever evaluated at a strictly positive argument (where `x ^ (-1/p)` is finite):
every root value is either `0` or `pw x` for some `x > 0` -/
theorem invEigs_pw_positive [Field α] [LinearOrder α] [BEq α] {d : Nat} (pw : α → α)
    (ridge : α) (e : Vec α d) (i : Fin d) :
    invEigs pw ridge e i = 0 ∨ (0 < max (e i) ridge ∧ invEigs pw ridge e i = pw (max (e i) ridge)) := by
  by_cases hle : max (e i) ridge ≤ 0
  · left
    simp only [invEigs, hle, decide_true, Bool.or_true, if_true]
  · by_cases h0 : (e i == 0) = true
    · left
      simp only [invEigs, h0, Bool.true_or, if_true]
    · right
      refine ⟨not_le.mp hle, ?_⟩
      simp only [invEigs, h0, hle, decide_false, Bool.or_self, Bool.false_eq_true, if_false]

/-- unpacking the packed root gives back the fields (unless `padding_start == 0`, where the root is all zeros) -/
theorem lowRankRoot_unpack [Field α] [BEq α] [LawfulBEq α] [Max α] [LE α] [DecidableLE α] {d r : Nat} (h : r + 2 < d) (pw : α → α) (neg : Bool)
    (ps : Option Nat) (hps : ps ≠ some 0) (ridge : α) (e : Vec α d) (U : Mat α d d) :
    lowRankUnpack h (lowRankRoot h pw neg ps ridge e U) =
      lowRankRootFields (r := r) (by omega) pw neg ps ridge e U := by
  have hval : lowRankRoot h pw neg ps ridge e U =
      lowRankPack (lowRankRootFields (r := r) (by omega) pw neg ps ridge e U).eigvecs
        (lowRankRootFields (r := r) (by omega) pw neg ps ridge e U).invEigvals
        (lowRankRootFields (r := r) (by omega) pw neg ps ridge e U).const := by
    unfold lowRankRoot
    cases ps with
    | none => rfl
    | some p =>
      cases p with
      | zero => exact absurd rfl hps
      | succ q => rfl
  rw [hval]
  simp only [lowRankUnpack, lowRankPack, fdUnpack_fdPack (one_ne_zero) h]
  rfl

end PrecondVerif.LowRank
