/-
Helper lemmas for the low-rank packed preconditioner (property C10).
-/
import PrecondVerif.Model.LowRank
import Mathlib.Data.Matrix.Mul
import Mathlib.Algebra.BigOperators.Fin
import Mathlib.Tactic.SplitIfs
import Mathlib.Tactic.Ring

namespace PrecondVerif.LowRank
variable {α : Type}

/-! ### slots -/

/-- closes the goals left after splitting the slot conditions: same slot (`rfl`, or equal
indices), or contradictory index arithmetic -/
macro "slots" : tactic =>
  `(tactic| (split_ifs <;> first
     | rfl
     | (exfalso; omega)
     | (exfalso; simp only [and_true, true_and, false_and, and_false, not_true_eq_false,
          not_false_eq_true] at * <;> omega)
     | (congr 1; apply Fin.ext; simp only []; omega)))

theorem fdUnpack_fdPack [Zero α] [One α] [BEq α] [LawfulBEq α] (h10 : (1 : α) ≠ 0)
    {d r : Nat} (h : r + 2 < d) (F : Fields α d r) : fdUnpack h (fdPack F) = F := by
  obtain ⟨V, ev, ie, c, t, hz⟩ := F
  simp only [fdUnpack, fdPack]
  congr 1
  · funext i j
    have := j.isLt; have := i.isLt
    slots
  · funext i
    have := i.isLt
    slots
  · funext i
    have := i.isLt
    slots
  · slots
  · slots
  · cases hz
    · simp
    · simp [h10]

/-- the slots no field occupies are zero, and the `has_zeros` slot holds 0 or 1 -/
structure UnusedZero [Zero α] [One α] {d r : Nat} (h : r + 2 < d) (P : Mat α d (r + 2)) : Prop where
  colInv : ∀ i : Fin d, r ≤ i.val → i.val < d - 1 → P i ⟨(r + 2) - 2, by omega⟩ = 0
  colLast : ∀ i : Fin d, 2 ≤ i.val → i.val < d - r → P i ⟨(r + 2) - 1, by omega⟩ = 0
  flag : P ⟨d - 1, by omega⟩ ⟨(r + 2) - 2, by omega⟩ = 0 ∨ P ⟨d - 1, by omega⟩ ⟨(r + 2) - 2, by omega⟩ = 1

end PrecondVerif.LowRank
