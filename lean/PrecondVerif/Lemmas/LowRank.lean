/-
Helper lemmas for the low-rank packed preconditioner (property C10).
-/
import PrecondVerif.Model.LowRank
import Mathlib.Data.Matrix.Mul
import Mathlib.Algebra.BigOperators.Fin
import Mathlib.Tactic.SplitIfs
import Mathlib.Tactic.Ring

namespace PrecondVerif.LowRank
variable {α : Type}

/-! ### slots -/

/-- closes the goals left after splitting the slot conditions: same slot (`rfl`, or equal
indices), or contradictory index arithmetic -/
macro "slots" : tactic =>
  `(tactic| (split_ifs <;> first
     | rfl
     | (exfalso; omega)
     | (exfalso; simp only [and_true, true_and, false_and, and_false, not_true_eq_false,
          not_false_eq_true] at * <;> omega)
     | (congr 1; apply Fin.ext; simp only []; omega)))

theorem fdUnpack_fdPack [Zero α] [One α] [BEq α] [LawfulBEq α] (h10 : (1 : α) ≠ 0)
    {d r : Nat} (h : r + 2 < d) (F : Fields α d r) : fdUnpack h (fdPack F) = F := by
  obtain ⟨V, ev, ie, c, t, hz⟩ := F
  simp only [fdUnpack, fdPack]
  congr 1
  · funext i j
    have := j.isLt; have := i.isLt
    slots
  · funext i
    have := i.isLt
    slots
  · funext i
    have := i.isLt
    slots
  · slots
  · slots
  · cases hz
    · simp
    · simp [h10]

/-- the slots no field occupies are zero, and the `has_zeros` slot holds 0 or 1 -/
structure UnusedZero [Zero α] [One α] {d r : Nat} (h : r + 2 < d) (P : Mat α d (r + 2)) : Prop where
  colInv : ∀ i : Fin d, r ≤ i.val → i.val < d - 1 → P i ⟨(r + 2) - 2, by omega⟩ = 0
  colLast : ∀ i : Fin d, 2 ≤ i.val → i.val < d - r → P i ⟨(r + 2) - 1, by omega⟩ = 0
  flag : P ⟨d - 1, by omega⟩ ⟨(r + 2) - 2, by omega⟩ = 0 ∨ P ⟨d - 1, by omega⟩ ⟨(r + 2) - 2, by omega⟩ = 1

open Matrix

theorem flag_roundtrip [Zero α] [One α] [BEq α] [LawfulBEq α] (x : α) (hx : x = 0 ∨ x = 1) :
    (if (!(x == 0)) = true then (1 : α) else 0) = x := by
  rcases hx with rfl | rfl
  · simp
  · by_cases h : (1 : α) = 0
    · simp [h]
    · simp [h]

theorem Mat.congr_idx {m n : Nat} (P : Mat α m n) {a a' : Fin m} {b b' : Fin n}
    (ha : a.val = a'.val) (hb : b.val = b'.val) : P a b = P a' b' := by
  rw [Fin.ext ha, Fin.ext hb]

theorem fdPack_fdUnpack [Zero α] [One α] [BEq α] [LawfulBEq α]
    {d r : Nat} (h : r + 2 < d) (P : Mat α d (r + 2)) (hP : UnusedZero h P) :
    fdPack (fdUnpack h P) = P := by
  funext i j
  obtain ⟨h1, h2, h3⟩ := hP
  obtain ⟨iv, hi⟩ := i
  obtain ⟨jv, hj⟩ := j
  simp only [fdUnpack, fdPack]
  rcases (show jv < r ∨ jv = r + 2 - 2 ∨ jv = r + 2 - 1 by omega) with hj1 | hj2 | hj2
  · rw [if_neg (by omega), dif_neg (by omega), if_neg (by omega), if_neg (by omega),
      dif_neg (by omega), dif_pos hj1]
  · have hjE : (⟨jv, hj⟩ : Fin (r + 2)) = ⟨r + 2 - 2, by omega⟩ := Fin.ext hj2
    by_cases hi1 : iv = d - 1
    · rw [if_pos ⟨hi1, hj2⟩]
      have hiE : (⟨iv, hi⟩ : Fin d) = ⟨d - 1, by omega⟩ := Fin.ext hi1
      rw [hjE, hiE]
      exact flag_roundtrip _ h3
    · rw [if_neg (by omega), dif_neg (by omega), if_neg (by omega), if_neg (by omega)]
      by_cases hi2 : iv < r
      · rw [dif_pos ⟨hi2, hj2⟩]; exact P.congr_idx rfl hj2.symm
      · rw [dif_neg (by omega), dif_neg (by omega), hjE]
        exact (h1 ⟨iv, hi⟩ (by simp only []; omega) (by simp only []; omega)).symm
  · have hjE : (⟨jv, hj⟩ : Fin (r + 2)) = ⟨r + 2 - 1, by omega⟩ := Fin.ext hj2
    rw [if_neg (by omega)]
    by_cases hi1 : d - r ≤ iv
    · rw [dif_pos ⟨hi1, hj2⟩]
      exact P.congr_idx (by simp only []; omega) hj2.symm
    · rw [dif_neg (by omega)]
      by_cases hi2 : iv = 1
      · rw [if_pos ⟨hi2, hj2⟩]; exact P.congr_idx hi2.symm hj2.symm
      · rw [if_neg (by omega)]
        by_cases hi3 : iv = 0
        · rw [if_pos ⟨hi3, hj2⟩]; exact P.congr_idx hi3.symm hj2.symm
        · rw [if_neg (by omega), dif_neg (by omega), dif_neg (by omega), hjE]
          exact (h2 ⟨iv, hi⟩ (by simp only []; omega) (by simp only []; omega)).symm

theorem sumFin_eq [AddCommMonoid α] (n : Nat) (f : Fin n → α) : sumFin n f = ∑ i, f i := by
  rw [Fin.sum_univ_def]; rfl

/-- a model matrix read as a Mathlib matrix (definitionally the same function) -/
abbrev toM {m n : Nat} (A : Mat α m n) : Matrix (Fin m) (Fin n) α := A

theorem applyDense_eq [CommRing α] {d n : Nat} (P : Mat α d d) (G : Mat α d n) :
    toM (applyDense P G) = (toM G)ᵀ * toM P := by
  funext t b
  simp [applyDense, sumFin_eq, Matrix.mul_apply]

theorem denote_eq [CommRing α] {d r : Nat} (V : Mat α d r) (e : Vec α r) (c : α) :
    toM (denote V e c) = c • (1 - toM V * (toM V)ᵀ) + toM V * Matrix.diagonal e * (toM V)ᵀ := by
  funext i b
  simp [denote, sumFin_eq, Matrix.mul_apply, Matrix.one_apply, Matrix.diagonal_apply]

theorem applyPacked_new_eq [CommRing α] {d r n : Nat} (V : Mat α d r) (e : Vec α r) (c : α)
    (G : Mat α d n) :
    toM (applyPacked V e c false G) =
      c • ((toM G)ᵀ - (toM G)ᵀ * toM V * (toM V)ᵀ) + (toM G)ᵀ * toM V * Matrix.diagonal e * (toM V)ᵀ := by
  funext t b
  simp [applyPacked, sumFin_eq, Matrix.mul_apply, Matrix.diagonal_apply]

theorem applyPacked_skip [Add α] [Sub α] [Mul α] [Zero α] {d r n : Nat} (V : Mat α d r) (e : Vec α r) (c : α)
    (G : Mat α d n) : applyPacked V e c true G = G.transpose := by
  funext t b; simp [applyPacked, Mat.transpose]

theorem applyPacked_eq_applyDense [CommRing α] {d r n : Nat} (V : Mat α d r) (e : Vec α r) (c : α)
    (G : Mat α d n) : applyPacked V e c false G = applyDense (denote V e c) G := by
  have h1 := applyPacked_new_eq V e c G
  have h2 := applyDense_eq (denote V e c) G
  rw [denote_eq] at h2
  show toM (applyPacked V e c false G) = toM (applyDense (denote V e c) G)
  rw [h1, h2]
  simp only [Matrix.mul_add, Matrix.mul_smul, Matrix.mul_sub, Matrix.mul_one, Matrix.mul_assoc]



theorem view_unview [Zero α] (n d : Nat) (M : Mat α n d) : view n d (unview n d M) = M := by
  funext i j
  have hd : 0 < d := Nat.lt_of_le_of_lt (Nat.zero_le _) j.isLt
  have hlt : i.val * d + j.val < n * d :=
    Nat.lt_of_lt_of_le (Nat.add_lt_add_left j.isLt _)
      (by rw [← Nat.succ_mul]; exact Nat.mul_le_mul_right d i.isLt)
  simp only [view, unview]
  rw [dif_pos hlt]
  apply Mat.congr_idx
  · simp only []
    rw [Nat.add_comm, Nat.add_mul_div_right _ _ hd, Nat.div_eq_of_lt j.isLt, Nat.zero_add]
  · simp only []
    rw [Nat.add_comm, Nat.add_mul_mod_self_right, Nat.mod_eq_of_lt j.isLt]

theorem stepPacked_eq_stepDenoted [CommRing α] [BEq α] :
    (stepPacked : AxisOp α → (d n : Nat) → Mat α d n → Mat α n d) = stepDenoted := by
  funext op d n G
  cases op with
  | roll => rfl
  | dense P => rfl
  | packed r P =>
    simp only [stepPacked, stepDenoted]
    split
    · rename_i h
      simp only [applyPackedP]
      cases hz : (lowRankUnpack h (ofIdx d (r + 2) P)).hasZeros
      · simp [applyPacked_eq_applyDense]
      · simp [applyPacked_skip]
    · rfl

theorem preconditionBlock_eq_denoted [CommRing α] [BEq α] (ops : List (AxisOp α)) (shape : List Nat)
    (a : Array α) : preconditionBlock ops shape a = preconditionBlockDenoted ops shape a := by
  unfold preconditionBlock preconditionBlockDenoted
  rw [stepPacked_eq_stepDenoted]

theorem rd_tab [Zero α] (n : Nat) (t : Nat → α) (k : Nat) (hk : k < n) : rd (tab n t) k = t k := by
  simp [rd, tab, Array.getD, hk]

/-- tabulating flat data does not change its `(d, n)` view -/
theorem view_rd_tab [Zero α] (d n : Nat) (t : Nat → α) : view d n (rd (tab (d * n) t)) = view d n t := by
  funext i j
  simp only [view]
  apply rd_tab
  exact Nat.lt_of_lt_of_le (Nat.add_lt_add_left j.isLt _)
    (by rw [← Nat.succ_mul]; exact Nat.mul_le_mul_right n i.isLt)

/-- flat row-major data of a matrix, as the array `blockLoop` carries -/
def flat [Zero α] {m n : Nat} (M : Mat α m n) : Array α := tab (m * n) (unview m n M)

theorem view_rd_flat [Zero α] {m n : Nat} (M : Mat α m n) : view m n (rd (flat M)) = M := by
  rw [flat, view_rd_tab, view_unview]

/-- matrix gradient `G : m × n`, packed preconditioner on axis 0 -/
theorem block_matrix_axis0 [CommRing α] [BEq α] {m n r : Nat} (h : r + 2 < m) (P : Nat → Nat → α)
    (G : Mat α m n) :
    preconditionBlock [.packed r P, .roll] [m, n] (flat G) =
      flat (m := m) (n := n) (if (lowRankUnpack h (ofIdx m (r + 2) P)).hasZeros then G
        else ((toM (denoteP h (ofIdx m (r + 2) P)))ᵀ * toM G)) := by
  rw [preconditionBlock_eq_denoted]
  simp only [preconditionBlockDenoted, blockLoop, size, List.cons_append, List.nil_append,
    view_rd_flat, view_rd_tab, view_unview, stepDenoted, dif_pos h]
  refine congrArg (fun M : Mat α m n => flat M) ?_
  by_cases hz : (lowRankUnpack h (ofIdx m (r + 2) P)).hasZeros = true
  · simp only [hz]; rfl
  · simp only [hz]
    show (toM (applyDense _ G))ᵀ = _
    rw [applyDense_eq]
    simp [denoteP, Matrix.transpose_mul]

/-- matrix gradient `G : m × n`, packed preconditioner on axis 1 -/
theorem block_matrix_axis1 [CommRing α] [BEq α] {m n r : Nat} (h : r + 2 < n) (P : Nat → Nat → α)
    (G : Mat α m n) :
    preconditionBlock [.roll, .packed r P] [m, n] (flat G) =
      flat (m := m) (n := n) (if (lowRankUnpack h (ofIdx n (r + 2) P)).hasZeros then G
        else (toM G * toM (denoteP h (ofIdx n (r + 2) P)))) := by
  rw [preconditionBlock_eq_denoted]
  simp only [preconditionBlockDenoted, blockLoop, size, List.cons_append, List.nil_append,
    view_rd_flat, view_rd_tab, view_unview, stepDenoted, dif_pos h]
  refine congrArg (fun M : Mat α m n => flat M) ?_
  by_cases hz : (lowRankUnpack h (ofIdx n (r + 2) P)).hasZeros = true
  · simp only [hz]; rfl
  · simp only [hz]
    show toM (applyDense _ G.transpose) = _
    rw [applyDense_eq]
    rfl


/-- split a sum over `Fin d` at `r ≤ d` -/
theorem sum_split [AddCommMonoid α] {d r : Nat} (hr : r ≤ d) (G : Fin d → α) :
    ∑ i, G i = (∑ q : Fin r, G (Fin.castLE hr q))
      + ∑ i : Fin (d - r), G ⟨r + i.val, by have := i.isLt; omega⟩ := by
  have hd : r + (d - r) = d := by omega
  rw [← Equiv.sum_comp (finCongr hd) G, Fin.sum_univ_add]
  rfl

theorem sum_castLE [AddCommMonoid α] {d r : Nat} (hr : r ≤ d) (F : Fin d → α) :
    ∑ q : Fin r, F (Fin.castLE hr q) = ∑ i, if i.val < r then F i else 0 := by
  rw [sum_split hr (fun i => if i.val < r then F i else 0)]
  have h2 : ∑ i : Fin (d - r), (if (⟨r + i.val, by have := i.isLt; omega⟩ : Fin d).val < r
      then F ⟨r + i.val, by have := i.isLt; omega⟩ else 0) = 0 := by
    apply Finset.sum_eq_zero
    intro i _
    rw [if_neg (by simp only []; omega)]
  rw [h2, add_zero]
  apply Finset.sum_congr rfl
  intro q _
  rw [if_pos (by simp)]

theorem sum_tail [AddCommMonoid α] {d r : Nat} (hr : r ≤ d) (F : Fin d → α) :
    ∑ i : Fin (d - r), F ⟨r + i.val, by have := i.isLt; omega⟩ =
      ∑ i, if r ≤ i.val then F i else 0 := by
  rw [sum_split hr (fun i => if r ≤ i.val then F i else 0)]
  have h1 : ∑ q : Fin r, (if r ≤ (Fin.castLE hr q).val then F (Fin.castLE hr q) else 0) = 0 := by
    apply Finset.sum_eq_zero
    intro q _
    rw [if_neg (by have := q.isLt; simp only [Fin.val_castLE]; omega)]
  rw [h1, zero_add]
  apply Finset.sum_congr rfl
  intro i _
  rw [if_pos (by simp only []; omega)]

/-! ### the flip / roll permutation -/

def permInv (d : Nat) (neg : Bool) (k : Nat) (j : Fin d) : Fin d :=
  if neg then ⟨(j.val + (d - k)) % d, Nat.mod_lt _ (Nat.lt_of_le_of_lt (Nat.zero_le _) j.isLt)⟩
  else ⟨d - 1 - j.val, by have := j.isLt; omega⟩

theorem roll_roundtrip (d a b i : Nat) (hi : i < d) (hab : a + b = d) :
    ((i + a) % d + b) % d = i := by
  rw [Nat.mod_add_mod, Nat.add_assoc, hab, Nat.add_mod_right, Nat.mod_eq_of_lt hi]

/-- `perm` as an equivalence (needs `k ≤ d`) -/
def permEquiv (d : Nat) (neg : Bool) (k : Nat) (hk : k ≤ d) : Fin d ≃ Fin d where
  toFun := perm d neg k
  invFun := permInv d neg k
  left_inv i := by
    apply Fin.ext
    cases neg
    · simp only [perm, permInv]; have := i.isLt; simp; omega
    · simp only [perm, permInv, if_true]
      exact roll_roundtrip d k (d - k) i.val i.isLt (by omega)
  right_inv j := by
    apply Fin.ext
    cases neg
    · simp only [perm, permInv]; have := j.isLt; simp; omega
    · simp only [perm, permInv, if_true]
      exact roll_roundtrip d (d - k) k j.val j.isLt (by omega)


end PrecondVerif.LowRank
