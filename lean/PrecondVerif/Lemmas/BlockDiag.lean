import PrecondVerif.Model.BlockDiag
import Mathlib.Algebra.Order.Field.Basic
import Mathlib.Tactic.Ring
import Mathlib.Tactic.Linarith
import PrecondVerif.Lemmas.Tearfree

/-
Lemmas for property C08: a matrix routine written with sums and maxima over `[0,n)` does not see the zero padding.

`Supp s A` : the index function `A` vanishes outside `[0,s)²`; `Good s a` : the tabulated matrix `a` reads as such a
function; `embed N a` : zero-extension.  Every array-level operation of `Model/BlockDiag.lean` commutes with `embed`
(`mulA_embed`, `affA_embed`, …, `errA_embed`, `froSqA_embed`), hence so do the Newton step (`iterBody_embed`), the inner
loop (`inner_embed`, induction over the fuel), one try (`tryRoot_embed`), the retry loop (`outer_embed`) and the whole
routine (`rootA_padSq`, `paddedRoot_eq`).  `regroup_map_flatten`, `treeRootsG_local`: batching is `map`.
-/

set_option linter.unusedSectionVars false
set_option linter.unusedVariables false
namespace PrecondVerif.BlockDiag
variable {α : Type}

/-- vanishes outside `[0,s)²` -/
def Supp [Zero α] (s : Nat) (A : F α) : Prop := ∀ i j, (s ≤ i ∨ s ≤ j) → A i j = 0

theorem Supp.mono [Zero α] {s N : Nat} {A : F α} (h : Supp s A) (hs : s ≤ N) : Supp N A :=
  fun i j hij => h i j (by omega)

theorem rdM_tabM [Zero α] (n : Nat) (f : F α) (i j : Nat) :
    rdM (tabM n f) i j = if i < n ∧ j < n then f i j else 0 := by
  unfold rdM tabM
  by_cases hi : i < n
  · by_cases hj : j < n
    · simp [Array.getD, hi, hj]
    · simp [Array.getD, hi, hj]
  · simp [Array.getD, hi]

theorem supp_rdM_tabM [Zero α] (n : Nat) (f : F α) : Supp n (rdM (tabM n f)) := by
  intro i j h
  rw [rdM_tabM]; rw [if_neg]; omega

theorem rdM_tabM_of_supp [Zero α] {n : Nat} {f : F α} (h : Supp n f) : rdM (tabM n f) = f := by
  funext i j
  rw [rdM_tabM]
  split
  · rfl
  · exact (h i j (by omega)).symm

theorem tabM_congr (n : Nat) {f g : F α} (h : ∀ i j, i < n → j < n → f i j = g i j) : tabM n f = tabM n g := by
  unfold tabM
  congr 1; funext i; congr 1; funext j
  exact h i.val j.val i.isLt j.isLt

def Good [Zero α] (s : Nat) (a : A2 α) : Prop := Supp s (rdM a)

theorem good_tabM [Zero α] (s : Nat) (f : F α) : Good s (tabM s f) := supp_rdM_tabM s f

theorem rdM_embed [Zero α] {s N : Nat} {a : A2 α} (h : Good s a) (hs : s ≤ N) : rdM (embed N a) = rdM a :=
  rdM_tabM_of_supp (h.mono hs)

theorem embed_tabM [Zero α] {s N : Nat} {f : F α} (h : Supp s f) : embed N (tabM s f) = tabM N f := by
  unfold embed; rw [rdM_tabM_of_supp h]

theorem cutA_embed_tabM [Zero α] {s N : Nat} (f : F α) (hs : s ≤ N) : cutA s (embed N (tabM s f)) = tabM s f := by
  unfold cutA
  rw [rdM_embed (good_tabM s f) hs]
  apply tabM_congr
  intro i j hi hj
  rw [rdM_tabM, if_pos ⟨hi, hj⟩]

section sums
variable [AddMonoid α]

theorem sumTo_succ (n : Nat) (f : Nat → α) : sumTo (n + 1) f = sumTo n f + f n := by
  unfold sumTo; rw [List.range_succ, List.foldl_append]; rfl

theorem sumTo_zero_fun (n : Nat) (f : Nat → α) (h : ∀ l, l < n → f l = 0) : sumTo n f = 0 := by
  induction n with
  | zero => rfl
  | succ k ih => rw [sumTo_succ, ih (fun l hl => h l (by omega)), h k (by omega), add_zero]

theorem sumTo_pad {s N : Nat} (f : Nat → α) (h : ∀ l, s ≤ l → f l = 0) (hs : s ≤ N) : sumTo N f = sumTo s f := by
  induction N, hs using Nat.le_induction with
  | base => rfl
  | succ k hk ih => rw [sumTo_succ, ih, h k hk, add_zero]

theorem sumTo_congr (n : Nat) {f g : Nat → α} (h : ∀ l, l < n → f l = g l) : sumTo n f = sumTo n g := by
  induction n with
  | zero => rfl
  | succ k ih => rw [sumTo_succ, sumTo_succ, ih (fun l hl => h l (by omega)), h k (by omega)]
end sums

section maxes
variable [LinearOrder α]

theorem maxS_eq_max (a b : α) : maxS a b = max a b := by
  unfold maxS; split
  · rw [max_eq_right (le_of_lt ‹_›)]
  · rw [max_eq_left (not_lt.mp ‹_›)]

theorem maxTo_succ (n : Nat) (f : Nat → α) (init : α) : maxTo (n + 1) f init = maxS (maxTo n f init) (f n) := by
  unfold maxTo; rw [List.range_succ, List.foldl_append]; rfl

theorem le_maxTo (n : Nat) (f : Nat → α) (init : α) : init ≤ maxTo n f init := by
  induction n with
  | zero => exact le_refl _
  | succ k ih => rw [maxTo_succ, maxS_eq_max]; exact le_trans ih (le_max_left _ _)

theorem maxTo_pad [Zero α] {s N : Nat} (f : Nat → α) (init : α) (h0 : 0 ≤ init) (h : ∀ l, s ≤ l → f l = 0) (hs : s ≤ N) :
    maxTo N f init = maxTo s f init := by
  induction N, hs using Nat.le_induction with
  | base => rfl
  | succ k hk ih =>
    rw [maxTo_succ, ih, h k hk, maxS_eq_max, max_eq_left (le_trans h0 (le_maxTo _ _ _))]

theorem maxTo_congr (n : Nat) {f g : Nat → α} (init : α) (h : ∀ l, l < n → f l = g l) : maxTo n f init = maxTo n g init := by
  induction n with
  | zero => rfl
  | succ k ih => rw [maxTo_succ, maxTo_succ, ih (fun l hl => h l (by omega)), h k (by omega)]

theorem maxTo_zero [Zero α] (n : Nat) (f : Nat → α) (h : ∀ l, l < n → f l = 0) : maxTo n f 0 = 0 := by
  induction n with
  | zero => rfl
  | succ k ih => rw [maxTo_succ, ih (fun l hl => h l (by omega)), h k (by omega), maxS_eq_max, max_self]
end maxes

section matF
variable [Field α] [LinearOrder α] [IsStrictOrderedRing α]

theorem supp_eyeS (s : Nat) : Supp s (eyeS s : F α) := by
  intro i j h; unfold eyeS; rw [if_neg]; omega

theorem absS_zero : absS (0 : α) = 0 := by unfold absS; simp

theorem mulF_pad {s N : Nat} {A B : F α} (hA : Supp s A) (hB : Supp s B) (hs : s ≤ N) : mulF N A B = mulF s A B := by
  funext i j; unfold mulF
  exact sumTo_pad _ (fun l hl => by rw [hA i l (Or.inr hl), zero_mul]) hs

theorem supp_mulF {s : Nat} (n : Nat) {A B : F α} (hA : Supp s A) (hB : Supp s B) : Supp s (mulF n A B) := by
  intro i j h; unfold mulF
  apply sumTo_zero_fun
  intro l _
  rcases h with h | h
  · rw [hA i l (Or.inl h), zero_mul]
  · rw [hB l j (Or.inr h), mul_zero]

theorem maxAbsF_pad {s N : Nat} {A : F α} (hA : Supp s A) (hs : s ≤ N) : maxAbsF N A = maxAbsF s A := by
  unfold maxAbsF
  have inner : ∀ i, maxTo N (fun j => absS (A i j)) 0 = maxTo s (fun j => absS (A i j)) 0 := fun i =>
    maxTo_pad _ 0 (le_refl _) (fun l hl => by rw [hA i l (Or.inr hl), absS_zero]) hs
  simp only [inner]
  exact maxTo_pad _ 0 (le_refl _)
    (fun i hi => maxTo_zero _ _ (fun l _ => by rw [hA i l (Or.inl hi), absS_zero])) hs

theorem froSqF_pad {s N : Nat} {A : F α} (hA : Supp s A) (hs : s ≤ N) : froSqF N A = froSqF s A := by
  unfold froSqF
  have inner : ∀ i, sumTo N (fun j => A i j * A i j) = sumTo s (fun j => A i j * A i j) := fun i =>
    sumTo_pad _ (fun l hl => by rw [hA i l (Or.inr hl), zero_mul]) hs
  simp only [inner]
  exact sumTo_pad _ (fun i hi => sumTo_zero_fun _ _ (fun l _ => by rw [hA i l (Or.inl hi), zero_mul])) hs

/-! array level -/

theorem mulA_embed {s N : Nat} {a b : A2 α} (ha : Good s a) (hb : Good s b) (hs : s ≤ N) :
    mulA N (embed N a) (embed N b) = embed N (mulA s a b) := by
  unfold mulA
  rw [rdM_embed ha hs, rdM_embed hb hs, embed_tabM (supp_mulF s ha hb), mulF_pad ha hb hs]

theorem affA_embed {s N : Nat} (c1 c2 : α) {m : A2 α} (hm : Good s m) (hs : s ≤ N) :
    affA N s c1 c2 (embed N m) = embed N (affA s s c1 c2 m) := by
  unfold affA
  rw [rdM_embed hm hs, embed_tabM]
  intro i j h
  show c1 * eyeS s i j + c2 * rdM m i j = 0
  rw [supp_eyeS s i j h, hm i j h]; ring

theorem smulA_embed {s N : Nat} (c : α) {m : A2 α} (hm : Good s m) (hs : s ≤ N) :
    smulA N c (embed N m) = embed N (smulA s c m) := by
  unfold smulA
  rw [rdM_embed hm hs, embed_tabM]
  intro i j h
  show c * rdM m i j = 0
  rw [hm i j h]; ring

theorem blendA_embed {s N : Nat} (c d : α) {a b : A2 α} (ha : Good s a) (hb : Good s b) (hs : s ≤ N) :
    blendA N c d (embed N a) (embed N b) = embed N (blendA s c d a b) := by
  unfold blendA
  rw [rdM_embed ha hs, rdM_embed hb hs, embed_tabM]
  intro i j h
  show c * rdM a i j + d * rdM b i j = 0
  rw [ha i j h, hb i j h]; ring

theorem errA_embed {s N : Nat} {m : A2 α} (hm : Good s m) (hs : s ≤ N) : errA N s (embed N m) = errA s s m := by
  unfold errA
  rw [rdM_embed hm hs]
  apply maxAbsF_pad _ hs
  intro i j h
  show rdM m i j - eyeS s i j = 0
  rw [supp_eyeS s i j h, hm i j h]; ring

theorem froSqA_embed {s N : Nat} {m : A2 α} (hm : Good s m) (hs : s ≤ N) : froSqA N (embed N m) = froSqA s m := by
  unfold froSqA
  rw [rdM_embed hm hs]
  exact froSqF_pad hm hs

theorem good_matPowA {s : Nat} {m : A2 α} (hm : Good s m) : ∀ k, Good s (matPowA s m k)
  | 0 => good_tabM _ _
  | 1 => hm
  | _ + 2 => good_tabM _ _

theorem matPowA_embed {s N : Nat} {m : A2 α} (hm : Good s m) (hs : s ≤ N) :
    ∀ k, 0 < k → matPowA N (embed N m) k = embed N (matPowA s m k)
  | 0, h => absurd h (by omega)
  | 1, _ => rfl
  | k + 2, _ => by
    show mulA N (embed N m) (matPowA N (embed N m) (k + 1)) = embed N (mulA s m (matPowA s m (k + 1)))
    rw [matPowA_embed hm hs (k + 1) (by omega), mulA_embed hm (good_matPowA hm _) hs]
end matF

section newton
variable [Field α] [LinearOrder α] [IsStrictOrderedRing α]

def embedSt (N : Nat) (st : St α) : St α := ⟨st.i, embed N st.m, embed N st.h, embed N st.hOld, st.err, st.ratio⟩

structure GoodSt (s : Nat) (st : St α) : Prop where
  m : Good s st.m
  h : Good s st.h
  hOld : Good s st.hOld

theorem goodSt_iterBody {s : Nat} (c : Cfg α) {st : St α} (g : GoodSt s st) : GoodSt s (iterBody s s c st) :=
  ⟨good_tabM _ _, good_tabM _ _, g.h⟩

theorem iterBody_embed {s N : Nat} (c : Cfg α) (hp : 0 < c.p) {st : St α} (g : GoodSt s st) (hs : s ≤ N) :
    iterBody N s c (embedSt N st) = embedSt N (iterBody s s c st) := by
  have hmi : Good s (affA s s (1 - -(1 / c.pA)) (-(1 / c.pA)) st.m) := good_tabM _ _
  have hpow := good_matPowA hmi c.p
  have hm' : Good s (mulA s (matPowA s (affA s s (1 - -(1 / c.pA)) (-(1 / c.pA)) st.m) c.p) st.m) := good_tabM _ _
  simp only [iterBody, embedSt]
  rw [affA_embed _ _ g.m hs, matPowA_embed hmi hs c.p hp, mulA_embed hpow g.m hs, mulA_embed g.h hmi hs,
    errA_embed hm' hs]

theorem goodSt_inner {s : Nat} (c : Cfg α) : ∀ (k : Nat) {st : St α}, GoodSt s st → GoodSt s (inner s s c k st)
  | 0, _, g => g
  | k + 1, st, g => by
    unfold inner; split
    · exact goodSt_inner c k (goodSt_iterBody c g)
    · exact g

theorem inner_embed {s N : Nat} (c : Cfg α) (hp : 0 < c.p) (hs : s ≤ N) :
    ∀ (k : Nat) {st : St α}, GoodSt s st → inner N s c k (embedSt N st) = embedSt N (inner s s c k st)
  | 0, _, _ => rfl
  | k + 1, st, g => by
    unfold inner
    show (if c.tol < st.err ∧ st.ratio < c.maxRatio then _ else _) = _
    split
    · rw [iterBody_embed c hp g hs, inner_embed c hp hs k (goodSt_iterBody c g)]
    · rfl

def embedTry (N : Nat) (t : Try α) : Try α := ⟨embed N t.h, t.err, t.iters, t.ratio⟩

theorem dampA_embed {s N : Nat} {a : A2 α} (ha : Good s a) (ridge : α) (hs : s ≤ N) :
    dampA N s (embed N a) ridge = embed N (dampA s s a ridge) := by
  unfold dampA
  rw [rdM_embed ha hs, embed_tabM]
  intro i j h
  show rdM a i j + ridge * eyeS s i j = 0
  rw [supp_eyeS s i j h, ha i j h]; ring

theorem h0A_embed {s N : Nat} (r : α) : h0A N s r = embed N (h0A s s r) := by
  unfold h0A
  rw [embed_tabM]
  intro i j h
  show (eyeS s i j : α) * r = 0
  rw [supp_eyeS s i j h]; ring

theorem goodSt_initSt {s : Nat} (c : Cfg α) (a : A2 α) (ridge : α) : GoodSt s (initSt s s c a ridge) :=
  ⟨good_tabM _ _, good_tabM _ _, good_tabM _ _⟩

theorem initSt_embed {s N : Nat} (c : Cfg α) (hs : s ≤ N) {a : A2 α} (ha : Good s a) (ridge : α) :
    initSt N s c (embed N a) ridge = embedSt N (initSt s s c a ridge) := by
  have gd : Good s (dampA s s a ridge) := good_tabM _ _
  have gm : Good s (smulA s (zOf c (froSqA s (dampA s s a ridge))) (dampA s s a ridge)) := good_tabM _ _
  simp only [initSt, embedSt]
  rw [dampA_embed ha ridge hs, froSqA_embed gd hs, smulA_embed _ gd hs, errA_embed gm hs, ← h0A_embed]

theorem finishTry_embed {s N : Nat} (c : Cfg α) (hs : s ≤ N) {st : St α} (g : GoodSt s st) :
    finishTry N s c (embedSt N st) = embedTry N (finishTry s s c st) := by
  simp only [finishTry, embedSt, embedTry]
  rw [errA_embed g.m hs, blendA_embed _ _ g.h g.hOld hs]
  rfl

theorem tryRoot_embed {s N : Nat} (c : Cfg α) (hp : 0 < c.p) (hs : s ≤ N) {a : A2 α} (ha : Good s a) (ridge : α) :
    tryRoot N s c (embed N a) ridge = embedTry N (tryRoot s s c a ridge) := by
  unfold tryRoot
  rw [initSt_embed c hs ha, inner_embed c hp hs c.fuel (goodSt_initSt c a ridge),
    finishTry_embed c hs (goodSt_inner c c.fuel (goodSt_initSt c a ridge))]

theorem outer_embed {s N : Nat} (c : Cfg α) (hp : 0 < c.p) (hs : s ≤ N) {a : A2 α} (ha : Good s a) (ridge : α) :
    ∀ (k i : Nat) (t : Try α), outer N s c (embed N a) ridge k i (embedTry N t)
      = ((outer s s c a ridge k i t).1, embedTry N (outer s s c a ridge k i t).2)
  | 0, _, _ => rfl
  | k + 1, i, t => by
    unfold outer
    simp only []
    rw [tryRoot_embed c hp hs ha]
    show (if c.retryThr < (tryRoot s s c a (ridge * natPow c.ten i)).err then _ else _) = _
    split
    · exact outer_embed c hp hs ha ridge k (i + 1) _
    · rfl

theorem maskA_padSq {s N : Nat} (a : A2 α) (hs : s ≤ N) : maskA N s (padSq s N a) = embed N (maskA s s a) := by
  unfold maskA padSq
  rw [embed_tabM]
  · apply tabM_congr
    intro i j hi hj
    show (if i < s ∧ j < s then rdM (tabM N (padSqF s (rdM a))) i j else 0) = (if i < s ∧ j < s then rdM a i j else 0)
    by_cases h : i < s ∧ j < s
    · rw [if_pos h, if_pos h, rdM_tabM, if_pos ⟨hi, hj⟩]
      unfold padSqF; rw [if_pos h]
    · rw [if_neg h, if_neg h]
  · intro i j h
    unfold maskF; rw [if_neg]; omega

theorem rootA_padSq {s N : Nat} (c : Cfg α) (hp : 0 < c.p) (hs : s ≤ N) (ridge : α) (a : A2 α) :
    rootA N s c ridge (padSq s N a) = ((rootA s s c ridge a).1, embedTry N (rootA s s c ridge a).2) := by
  unfold rootA
  rw [maskA_padSq a hs]
  have h0 : (⟨tabM N (eyeS s), 0, 0, 0⟩ : Try α) = embedTry N ⟨tabM s (eyeS s), 0, 0, 0⟩ := by
    simp only [embedTry]; rw [embed_tabM (supp_eyeS s)]
  rw [h0]
  exact outer_embed c hp hs (good_tabM _ _) ridge c.tries 0 _
end newton

section newton2
variable [Field α] [LinearOrder α] [IsStrictOrderedRing α]

def IsTab (s : Nat) (a : A2 α) : Prop := ∃ f : F α, a = tabM s f

theorem isTab_tryRoot {s : Nat} (c : Cfg α) (a : A2 α) (r : α) : IsTab s (tryRoot s s c a r).h := by
  unfold tryRoot finishTry blendA
  simp only []
  exact ⟨_, rfl⟩

theorem isTab_outer {s : Nat} (c : Cfg α) (a : A2 α) (ridge : α) :
    ∀ (k i : Nat) (t : Try α), IsTab s t.h → IsTab s (outer s s c a ridge k i t).2.h
  | 0, _, _, h => h
  | k + 1, i, t, h => by
    unfold outer
    simp only []
    split
    · exact isTab_outer c a ridge k (i + 1) _ (isTab_tryRoot c a _)
    · exact isTab_tryRoot c a _

/-- `root_padding_invariant` for the Newton model: pad to `N`, root with `padding_start = s`, cut `[:s,:s]` is the root
of the unpadded statistic — the matrix, the error, the iteration count, the error ratio and `total_retries` -/
theorem paddedRoot_eq {s N : Nat} (c : Cfg α) (hp : 0 < c.p) (hs : s ≤ N) (ridge : α) (a : A2 α) :
    paddedRoot N s c ridge a = rootA s s c ridge a := by
  unfold paddedRoot
  simp only []
  rw [rootA_padSq c hp hs]
  obtain ⟨f, hf⟩ : IsTab s (rootA s s c ridge a).2.h := isTab_outer c _ ridge c.tries 0 _ ⟨_, rfl⟩
  simp only [embedTry]
  rw [hf, cutA_embed_tabM f hs]
  rw [← hf]
end newton2

section batching

theorem regroup_map_flatten {β γ : Type} (f : β → γ) : ∀ ls : List (List β),
    regroup (ls.map List.length) (ls.flatten.map f) = ls.map (·.map f)
  | [] => rfl
  | l :: ls => by
    simp only [List.map_cons, List.flatten_cons, List.map_append, regroup]
    rw [List.take_left' (by simp), List.drop_left' (by simp), regroup_map_flatten f ls]

theorem le_foldl_max (l : List Nat) (init : Nat) : init ≤ l.foldl Nat.max init ∧ ∀ x ∈ l, x ≤ l.foldl Nat.max init := by
  induction l generalizing init with
  | nil => exact ⟨le_refl _, fun x hx => absurd hx (by simp)⟩
  | cons y ys ih =>
    simp only [List.foldl_cons]
    obtain ⟨h1, h2⟩ := ih (Nat.max init y)
    refine ⟨le_trans (Nat.le_max_left _ _) h1, fun x hx => ?_⟩
    rcases List.mem_cons.mp hx with rfl | hx
    · exact le_trans (Nat.le_max_right _ _) h1
    · exact h2 x hx

theorem size_le_maxSizeOf (leaves : List (List (Stat α))) (st : Stat α) (h : st ∈ leaves.flatten) :
    st.size ≤ maxSizeOf leaves := by
  unfold maxSizeOf
  exact (le_foldl_max _ 0).2 _ (List.mem_map_of_mem h)

theorem treeRootsG_local {ρ : Type} (root : Nat → Nat → A2 α → ρ)
    (hinv : ∀ N s a, s ≤ N → root N s a = root s s a) (leaves : List (List (Stat α))) :
    treeRootsG root leaves = leaves.map (·.map fun st => root st.size st.size st.dat) := by
  unfold treeRootsG
  simp only []
  rw [← regroup_map_flatten]
  congr 1
  apply List.map_congr_left
  intro st hst
  exact hinv _ _ _ (size_le_maxSizeOf leaves st hst)

theorem zipWith_map_self {β γ δ : Type} (f : β → γ → δ) (g : β → γ) : ∀ l : List β,
    List.zipWith f l (l.map g) = l.map fun x => f x (g x)
  | [] => rfl
  | x :: xs => by simp [zipWith_map_self f g xs]

end batching


section tearfree
variable [Mul α] [LT α] [DecidableLT α] [Zero α]

theorem batchedMask_eq_map (eps : α) (ws : List (List α)) : batchedMask eps ws = ws.map (localMask eps) := by
  unfold batchedMask localMask
  exact zipWith_map_self _ _ ws

theorem zipWith_map_map {β γ δ ε : Type} (f : γ → δ → ε) (g : β → γ) (h : β → δ) : ∀ l : List β,
    List.zipWith f (l.map g) (l.map h) = l.map fun x => f (g x) (h x)
  | [] => rfl
  | x :: xs => by simp [zipWith_map_map f g h xs]

theorem tfBatched_eq_map {σ V ρ : Type} (eig : σ → List α × V) (mk : List α → V → ρ) (pw : α → α) (eps : α)
    (stats : List σ) : tfBatched eig mk pw eps stats = stats.map (tfOne eig mk pw eps) := by
  unfold tfBatched
  simp only []
  rw [batchedMask_eq_map, List.map_map, List.map_map, zipWith_map_map]
  rfl

end tearfree

end PrecondVerif.BlockDiag

/-! ## round 2: slot plans, eigh root under the block decomposition of the padded matrix -/
namespace PrecondVerif.BlockDiag
variable {α : Type}

/-! slot plans -/

theorem length_blockSlots (pt : PType) (n : Nat) (blk : List (Nat × Nat)) :
    (blockSlots pt n blk).length = (precAxes pt blk.length).length := by
  simp [blockSlots]

theorem length_slotsFrom (pt : PType) (r : Nat) : ∀ (n : Nat) (blocks : List (List (Nat × Nat))),
    (∀ blk ∈ blocks, blk.length = r) → (slotsFrom pt n blocks).length = blocks.length * (precAxes pt r).length
  | _, [], _ => by simp [slotsFrom]
  | n, blk :: rest, h => by
    simp only [slotsFrom, List.length_append, List.length_cons, length_blockSlots]
    rw [length_slotsFrom pt r (n + 1) rest (fun b hb => h b (List.mem_cons_of_mem _ hb)), h blk List.mem_cons_self]
    ring

theorem length_of_mem_cart {β : Type} : ∀ (ls : List (List β)) (x : List β), x ∈ cart ls → x.length = ls.length
  | [], x, h => by simp [cart] at h; simp [h]
  | l :: ls, x, h => by
    simp only [cart, List.mem_flatMap, List.mem_map] at h
    obtain ⟨a, _, y, hy, rfl⟩ := h
    simp [length_of_mem_cart ls y hy]

theorem length_of_mem_dsBlocks (shape : List Nat) (b : Nat) (blk : List (Nat × Nat)) (h : blk ∈ dsBlocks shape b) :
    blk.length = shape.length := by
  have := length_of_mem_cart _ _ h
  simpa using this

theorem slotsFrom_getElem (pt : PType) (r : Nat) : ∀ (n : Nat) (blocks : List (List (Nat × Nat))),
    (∀ blk ∈ blocks, blk.length = r) → ∀ (i k : Nat) (hi : i < blocks.length) (hk : k < (precAxes pt r).length),
    (slotsFrom pt n blocks)[i * (precAxes pt r).length + k]? =
      some ⟨n + i, (precAxes pt r)[k], blocks[i], (blocks[i].getD ((precAxes pt r)[k]) (0, 0)).2⟩
  | _, [], _, i, _, hi, _ => absurd hi (by simp)
  | n, blk :: rest, h, 0, k, _, hk => by
    have hb : blk.length = r := h blk List.mem_cons_self
    simp only [slotsFrom, Nat.zero_mul, Nat.zero_add, Nat.add_zero, List.getElem_cons_zero]
    rw [List.getElem?_append_left (by rw [length_blockSlots, hb]; exact hk)]
    simp [blockSlots, hb, hk]
  | n, blk :: rest, h, i + 1, k, hi, hk => by
    have hb : blk.length = r := h blk List.mem_cons_self
    have hlen : (blockSlots pt n blk).length = (precAxes pt r).length := by rw [length_blockSlots, hb]
    simp only [slotsFrom, List.getElem_cons_succ]
    rw [List.getElem?_append_right (by rw [hlen]; nlinarith)]
    have : (i + 1) * (precAxes pt r).length + k - (blockSlots pt n blk).length = i * (precAxes pt r).length + k := by
      rw [hlen]; ring_nf; omega
    rw [this, slotsFrom_getElem pt r (n + 1) rest (fun b hb' => h b (List.mem_cons_of_mem _ hb')) i k
      (by simpa using hi) hk]
    congr 2; omega

theorem treeSlots_append (pt : PType) (b : Nat) (pre post : List (List Nat)) (sh : List Nat) :
    treeSlots pt b (pre ++ sh :: post) = treeSlots pt b pre ++ dsSlotsP pt sh b ++ treeSlots pt b post := by
  simp [treeSlots, List.flatMap_append, List.flatMap_cons]

theorem indexStarts_getElem : ∀ (pre : List Nat) (c : Nat) (post : List Nat) (o : Nat),
    (indexStarts (pre ++ c :: post) o)[pre.length]? = some (o + pre.sum)
  | [], c, post, o => by simp [indexStarts]
  | x :: pre, c, post, o => by
    simp only [List.cons_append, indexStarts, List.length_cons, List.getElem?_cons_succ, List.sum_cons]
    rw [indexStarts_getElem pre c post (o + x), Nat.add_assoc]

theorem length_treeSlots (pt : PType) (b : Nat) (shapes : List (List Nat)) :
    (treeSlots pt b shapes).length = (shapes.map fun sh => (dsSlotsP pt sh b).length).sum := by
  induction shapes with
  | nil => rfl
  | cons sh rest ih => simp [treeSlots, List.flatMap_cons] at ih ⊢

end PrecondVerif.BlockDiag

namespace PrecondVerif.BlockDiag
variable {α : Type}

/-! eigh root under the block decomposition of the padded matrix -/

theorem sumTo_add [AddMonoid α] (K : Nat) : ∀ (s : Nat) (f : Nat → α), sumTo (K + s) f = sumTo K f + sumTo s (fun l => f (K + l))
  | 0, f => by simp [sumTo]
  | s + 1, f => by
    rw [← Nat.add_assoc, sumTo_succ, sumTo_succ, sumTo_add K s f, add_assoc]

section eigh
variable [Field α] [LinearOrder α] [IsStrictOrderedRing α]

/-- hypothesis on the eigen-solver (`eigh` spec with zero padding): for a zero-padded matrix `blockdiag(R, 0)` the kept
eigenpairs (the last `s` columns / values, i.e. those not zeroed by `e *= flip(ix)`) are those of `R`, zero-extended:
`blockdiag(R, 0)` has the decomposition `blockdiag(U, I)`.  Nothing is assumed about the `N - s` dropped columns. -/
def KernelPadOK (kernel : Kernel α) : Prop :=
  ∀ (s N : Nat) (f : F α), Supp s f → s ≤ N → ∀ k, N - s ≤ k →
    (∀ i, (kernel N (tabM N f)).1 i k = padU s N (kernel s (tabM s f)).1 i k) ∧
    (kernel N (tabM N f)).2 k = padE s N (kernel s (tabM s f)).2 k

theorem eighValF_congr_kept (N s : Nat) (invE : α → α) {U U' : F α} {e e' : Nat → α}
    (hU : ∀ i k, N - s ≤ k → U i k = U' i k) (he : ∀ k, N - s ≤ k → e k = e' k) :
    eighValF N s invE U e = eighValF N s invE U' e' := by
  funext i j
  unfold eighValF
  apply sumTo_congr
  intro k _
  by_cases hk : k < N - s
  · simp only [if_pos hk]; ring
  · rw [hU i k (by omega), hU j k (by omega), he k (by omega)]

theorem eighValF_pad {s N : Nat} (hs : s ≤ N) (invE : α → α) (U : F α) (e : Nat → α) :
    eighValF N s invE (padU s N U) (padE s N e) = fun i j => if i < s ∧ j < s then eighValF s s invE U e i j else 0 := by
  obtain ⟨K, rfl⟩ : ∃ K, N = K + s := ⟨N - s, by omega⟩
  funext i j
  unfold eighValF padU padE
  simp only [Nat.add_sub_cancel, Nat.sub_self]
  rw [sumTo_add]
  have h1 : sumTo K (fun k => (if k < K then (if i = s + k then (1 : α) else 0) else if i < s then U i (k - K) else 0) *
      (if k < K then 0 else invE (if k < K then 0 else e (k - K))) *
      (if k < K then (if j = s + k then (1 : α) else 0) else if j < s then U j (k - K) else 0)) = 0 := by
    apply sumTo_zero_fun
    intro l hl
    rw [if_pos hl, if_pos hl]; ring
  rw [h1, zero_add]
  by_cases hij : i < s ∧ j < s
  · rw [if_pos hij]
    apply sumTo_congr
    intro l hl
    have e3 : ¬ (K + l < K) := by omega
    have e4 : ¬ (l < 0) := by omega
    simp only [if_neg e3, if_neg e4, if_pos hij.1, if_pos hij.2, Nat.add_sub_cancel_left]
  · rw [if_neg hij]
    apply sumTo_zero_fun
    intro l hl
    have e3 : ¬ (K + l < K) := by omega
    simp only [if_neg e3]
    by_cases hi : i < s
    · have hj : ¬ j < s := fun h => hij ⟨hi, h⟩
      rw [if_neg hj]; ring
    · rw [if_neg hi]; ring

theorem eighRootA_padSq {s N : Nat} (kernel : Kernel α) (hk : KernelPadOK kernel) (invE : α → α) (hs : s ≤ N)
    (ridge : α) (a : A2 α) :
    eighRootA kernel invE N s ridge (padSq s N a) = embed N (eighRootA kernel invE s s ridge a) := by
  have hreg : Supp s (fun i j => maskF s (rdM a) i j + ridge * (eyeS s i j : α)) := by
    intro i j h
    show maskF s (rdM a) i j + ridge * eyeS s i j = 0
    rw [supp_eyeS s i j h]; unfold maskF; rw [if_neg (by omega)]; ring
  have hmask : ∀ i j, maskF s (rdM (padSq s N a)) i j = maskF s (rdM a) i j := by
    intro i j
    unfold maskF padSq
    by_cases h : i < s ∧ j < s
    · rw [if_pos h, if_pos h, rdM_tabM, if_pos ⟨by omega, by omega⟩]; unfold padSqF; rw [if_pos h]
    · rw [if_neg h, if_neg h]
  unfold eighRootA
  simp only [hmask]
  rw [eighValF_congr_kept N s invE (fun i k h => (hk s N _ hreg hs k h).1 i) (fun k h => (hk s N _ hreg hs k h).2),
    eighValF_pad hs]
  unfold embed
  apply tabM_congr
  intro i j hi hj
  rw [rdM_tabM]
end eigh
end PrecondVerif.BlockDiag

namespace PrecondVerif.BlockDiag
variable {α : Type}
/-- an eigen-solver meeting `KernelPadOK`: the exact solver for diagonal matrices `diag(g 0 ≥ g 1 ≥ …)` (ascending
eigenvalues, anti-diagonal permutation as eigenvectors) -/
def diagKernel [Zero α] [One α] (g : Nat → α) : Kernel α :=
  fun n _ => (fun i k => if i + k + 1 = n then 1 else 0, fun k => g (n - 1 - k))

theorem diagKernel_padOK [Field α] [LinearOrder α] [IsStrictOrderedRing α] (g : Nat → α) : KernelPadOK (diagKernel g) := by
  intro s N f _ hs k hk
  have hk' : ¬ k < N - s := by omega
  refine ⟨fun i => ?_, ?_⟩
  · show (if i + k + 1 = N then (1 : α) else 0)
      = (if k < N - s then (if i = s + k then 1 else 0) else (if i < s then (if i + (k - (N - s)) + 1 = s then 1 else 0) else 0))
    rw [if_neg hk']
    by_cases hi : i < s
    · rw [if_pos hi]
      by_cases h : i + k + 1 = N
      · rw [if_pos h, if_pos (by omega)]
      · rw [if_neg h, if_neg (by omega)]
    · rw [if_neg hi, if_neg (by omega)]
  · show g (N - 1 - k) = (if k < N - s then 0 else g (s - 1 - (k - (N - s))))
    rw [if_neg hk']
    congr 1; omega
end PrecondVerif.BlockDiag

/-! ## round 4: the eigh root is a function of the matrix (no hypothesis on WHICH decomposition the kernel returns) -/
namespace PrecondVerif.BlockDiag
open Matrix
variable {α : Type} [Field α] [LinearOrder α] [IsStrictOrderedRing α]

/-- the `n × n` window of a `Nat`-indexed matrix as a Mathlib matrix -/
def toMat (n : Nat) (A : F α) : Matrix (Fin n) (Fin n) α := fun i j => A i.val j.val

theorem sumTo_eq_sum (n : Nat) (f : Nat → α) : sumTo n f = ∑ k : Fin n, f k.val := by
  induction n with
  | zero => simp [sumTo]
  | succ m ih => rw [sumTo_succ, ih, Fin.sum_univ_castSucc]; rfl

/-- **a function of the matrix**: `V diag(f w) Vᵀ` does not depend on which eigendecomposition is used (any spectrum,
repeated and zero eigenvalues included).  The argument of `Tearfree.rootOfEigh_unique` (C15) for an arbitrary `f`. -/
theorem spectral_fn_unique {n : Nat} (f : α → α) (C V V' : Matrix (Fin n) (Fin n) α) (w w' : Fin n → α)
    (hO : Vᵀ * V = 1) (hR : V * diagonal w * Vᵀ = C) (hO' : V'ᵀ * V' = 1) (hR' : V' * diagonal w' * V'ᵀ = C) :
    V * diagonal (fun a => f (w a)) * Vᵀ = V' * diagonal (fun a => f (w' a)) * V'ᵀ := by
  set Q := Vᵀ * V' with hQ
  have hVVt : V * Vᵀ = 1 := mul_eq_one_comm.mp hO
  have hVVt' : V' * V'ᵀ = 1 := mul_eq_one_comm.mp hO'
  have hWQ : diagonal w * Q = Q * diagonal w' := by
    have h1 : diagonal w * Q = Vᵀ * (V * diagonal w * Vᵀ) * V' := by
      simp only [hQ, Matrix.mul_assoc]
      rw [← Matrix.mul_assoc Vᵀ V, hO, Matrix.one_mul]
    have h2 : Q * diagonal w' = Vᵀ * (V' * diagonal w' * V'ᵀ) * V' := by
      simp only [hQ, Matrix.mul_assoc]
      rw [hO', Matrix.mul_one]
    rw [h1, h2, hR, hR']
  have hent : ∀ a b, Q a b ≠ 0 → w a = w' b := by
    intro a b hne
    have := congrFun (congrFun hWQ a) b
    rw [Matrix.diagonal_mul, Matrix.mul_diagonal] at this
    have h3 : (w a - w' b) * Q a b = 0 := by rw [sub_mul, this, mul_comm]; ring
    rcases mul_eq_zero.mp h3 with h | h
    · exact sub_eq_zero.mp h
    · exact absurd h hne
  have hDQ : diagonal (fun a => f (w a)) * Q = Q * diagonal (fun b => f (w' b)) := by
    ext a b
    rw [Matrix.diagonal_mul, Matrix.mul_diagonal]
    by_cases hne : Q a b = 0
    · rw [hne]; ring
    · rw [hent a b hne]; ring
  calc V * diagonal (fun a => f (w a)) * Vᵀ
      = V * diagonal (fun a => f (w a)) * Vᵀ * (V' * V'ᵀ) := by rw [hVVt', Matrix.mul_one]
    _ = V * (diagonal (fun a => f (w a)) * Q) * V'ᵀ := by simp only [hQ, Matrix.mul_assoc]
    _ = (V * Vᵀ) * V' * diagonal (fun b => f (w' b)) * V'ᵀ := by rw [hDQ]; simp only [hQ, Matrix.mul_assoc]
    _ = _ := by rw [hVVt, Matrix.one_mul]

/-- the `eigh` specification for the call `matrix_inverse_pth_root_eigh` makes on an `n × n` matrix `B` whose live block is
`[0, s)²`: orthonormal eigenvectors, `U diag(e) Uᵀ = B`, and the `n - s` eigenvalues the code zeroes (`e *= flip(ix)`, the
first ones) are the zero eigenvalues of the padding.  (LAPACK returns ascending eigenvalues; `B = blockdiag(R, 0)` with
`R` = PSD statistic + ridge `> 0` positive definite has exactly `n - s` zero eigenvalues and `s` positive ones, so the
first `n - s` are the zeros.) -/
structure DsEighSpec (n s : Nat) (B U : F α) (e : Nat → α) : Prop where
  ortho : (toMat n U)ᵀ * toMat n U = 1
  recon : toMat n U * diagonal (fun k : Fin n => e k.val) * (toMat n U)ᵀ = toMat n B
  dropped_zero : ∀ k, k < n - s → e k = 0

/-- with the zero-eigenvalue rule (`inv_e = 0 where e == 0`) the positional mask is a function of the spectrum -/
theorem eighValF_eq_matrix {n s : Nat} (invE : α → α) (h0 : invE 0 = 0) (U : F α) (e : Nat → α)
    (hz : ∀ k, k < n - s → e k = 0) (i j : Fin n) :
    eighValF n s invE U e i.val j.val
      = (toMat n U * diagonal (fun k : Fin n => invE (e k.val)) * (toMat n U)ᵀ) i j := by
  rw [FD.mdt_apply]
  unfold eighValF
  rw [sumTo_eq_sum]
  refine Finset.sum_congr rfl fun k _ => ?_
  by_cases hk : k.val < n - s
  · rw [if_pos hk, hz k.val hk, h0]; rfl
  · rw [if_neg hk]; rfl

/-- two spec-meeting decompositions of the same matrix give the same root entries -/
theorem eighValF_unique {n s : Nat} (invE : α → α) (h0 : invE 0 = 0) (B U U' : F α) (e e' : Nat → α)
    (h : DsEighSpec n s B U e) (h' : DsEighSpec n s B U' e') (i j : Nat) (hi : i < n) (hj : j < n) :
    eighValF n s invE U e i j = eighValF n s invE U' e' i j := by
  have := spectral_fn_unique invE (toMat n B) (toMat n U) (toMat n U') (fun k => e k.val) (fun k => e' k.val)
    h.ortho h.recon h'.ortho h'.recon
  have e1 := eighValF_eq_matrix invE h0 U e h.dropped_zero ⟨i, hi⟩ ⟨j, hj⟩
  have e2 := eighValF_eq_matrix invE h0 U' e' h'.dropped_zero ⟨i, hi⟩ ⟨j, hj⟩
  simp only at e1 e2
  rw [e1, e2, this]


theorem sumTo_delta (K a : Nat) (ha : a < K) (g : Nat → α) :
    sumTo K (fun k => (if a = k then 1 else 0) * g k) = g a := by
  induction K with
  | zero => omega
  | succ m ih =>
    rw [sumTo_succ]
    by_cases h : a = m
    · subst h
      rw [sumTo_zero_fun _ _ (fun l hl => by rw [if_neg (by omega)]; ring), if_pos rfl]; ring
    · rw [ih (by omega), if_neg h]; ring

theorem padU_row_orthonormal {s N : Nat} (hs : s ≤ N) (U : F α) (hU : toMat s U * (toMat s U)ᵀ = 1) :
    toMat N (padU s N U) * (toMat N (padU s N U))ᵀ = 1 := by
  obtain ⟨K, rfl⟩ : ∃ K, N = K + s := ⟨N - s, by omega⟩
  ext i j
  rw [Matrix.mul_apply]
  simp only [Matrix.transpose_apply, toMat]
  rw [← sumTo_eq_sum (K + s) (fun k => padU s (K + s) U i.val k * padU s (K + s) U j.val k), sumTo_add]
  unfold padU
  simp only [Nat.add_sub_cancel]
  have hiN := i.isLt
  have hjN := j.isLt
  -- second segment: columns K + l
  have seg2 : sumTo s (fun l => (if K + l < K then (if i.val = s + (K + l) then (1 : α) else 0) else if i.val < s then U i.val (K + l - K) else 0) *
      (if K + l < K then (if j.val = s + (K + l) then (1 : α) else 0) else if j.val < s then U j.val (K + l - K) else 0))
      = sumTo s (fun l => (if i.val < s then U i.val l else 0) * (if j.val < s then U j.val l else 0)) := by
    apply sumTo_congr
    intro l hl
    have e1 : ¬ (K + l < K) := by omega
    simp only [if_neg e1, Nat.add_sub_cancel_left]
  -- first segment: columns k < K
  have seg1 : sumTo K (fun k => (if k < K then (if i.val = s + k then (1 : α) else 0) else if i.val < s then U i.val (k - K) else 0) *
      (if k < K then (if j.val = s + k then (1 : α) else 0) else if j.val < s then U j.val (k - K) else 0))
      = sumTo K (fun k => (if i.val = s + k then (1 : α) else 0) * (if j.val = s + k then (1 : α) else 0)) := by
    apply sumTo_congr
    intro l hl
    simp only [if_pos hl]
  rw [seg1, seg2, Matrix.one_apply]
  by_cases hi : i.val < s
  · have z1 : sumTo K (fun k => (if i.val = s + k then (1 : α) else 0) * (if j.val = s + k then (1 : α) else 0)) = 0 := by
      apply sumTo_zero_fun
      intro l hl
      have : ¬ i.val = s + l := by omega
      simp only [if_neg this]; ring
    rw [z1, zero_add]
    by_cases hj : j.val < s
    · have h2 := congrFun (congrFun hU ⟨i.val, hi⟩) ⟨j.val, hj⟩
      rw [Matrix.mul_apply] at h2
      simp only [Matrix.transpose_apply, toMat] at h2
      rw [← sumTo_eq_sum s (fun k => U i.val k * U j.val k)] at h2
      simp only [if_pos hi, if_pos hj]
      rw [h2, Matrix.one_apply]
      simp only [Fin.ext_iff]
    · simp only [if_neg hj]
      rw [sumTo_zero_fun _ _ (fun l hl => by ring)]
      have : ¬ i = j := by intro h; rw [h] at hi; exact hj hi
      rw [if_neg this]
  · have z2 : sumTo s (fun l => (if i.val < s then U i.val l else 0) * (if j.val < s then U j.val l else 0)) = 0 := by
      apply sumTo_zero_fun
      intro l hl
      simp only [if_neg hi]; ring
    rw [z2, add_zero]
    have : sumTo K (fun k => (if i.val = s + k then (1 : α) else 0) * (if j.val = s + k then (1 : α) else 0))
        = sumTo K (fun k => (if i.val - s = k then (1 : α) else 0) * (if j.val = s + k then (1 : α) else 0)) := by
      apply sumTo_congr
      intro l hl
      by_cases h : i.val = s + l
      · have h' : i.val - s = l := by omega
        simp only [if_pos h, if_pos h']
      · have h' : ¬ i.val - s = l := by omega
        simp only [if_neg h, if_neg h']
    rw [this, sumTo_delta K (i.val - s) (by omega)]
    by_cases hij : i = j
    · have : j.val = s + (i.val - s) := by rw [← hij]; omega
      rw [if_pos hij, if_pos this]
    · have : ¬ j.val = s + (i.val - s) := by intro h; apply hij; apply Fin.ext; omega
      rw [if_neg hij, if_neg this]

/-- the block decomposition `blockdiag(U, I)` of `blockdiag(R, 0)` meets the specification -/
theorem padSpec {s N : Nat} (hs : s ≤ N) (R B U : F α) (e : Nat → α)
    (hB : ∀ i j, B i j = if i < s ∧ j < s then R i j else 0) (h : DsEighSpec s s R U e) :
    DsEighSpec N s B (padU s N U) (padE s N e) := by
  refine ⟨mul_eq_one_comm.mp (padU_row_orthonormal hs U (mul_eq_one_comm.mp h.ortho)), ?_, ?_⟩
  · ext i j
    have hv := congrFun (congrFun (eighValF_pad hs (fun x => x) U e) i.val) j.val
    have hm := eighValF_eq_matrix (n := N) (s := s) (fun x => x) rfl (padU s N U) (padE s N e)
      (fun k hk => by unfold padE; rw [if_pos hk]) i j
    rw [← hm, hv]
    show _ = B i.val j.val
    rw [hB]
    by_cases hij : i.val < s ∧ j.val < s
    · rw [if_pos hij, if_pos hij]
      have hr := eighValF_eq_matrix (n := s) (s := s) (fun x => x) rfl U e (fun k hk => by omega) ⟨i.val, hij.1⟩ ⟨j.val, hij.2⟩
      simp only at hr
      rw [hr, h.recon]; rfl
    · rw [if_neg hij, if_neg hij]
  · intro k hk
    unfold padE; rw [if_pos hk]


/-- the matrix handed to `eigh`: statistic masked to the live block plus ridge on the live block -/
def regA (n s : Nat) (ridge : α) (a : A2 α) : A2 α := tabM n fun i j => maskF s (rdM a) i j + ridge * eyeS s i j

theorem eighRootA_def (kernel : Kernel α) (invE : α → α) (n s : Nat) (ridge : α) (a : A2 α) :
    eighRootA kernel invE n s ridge a
      = tabM n (eighValF n s invE (kernel n (regA n s ridge a)).1 (kernel n (regA n s ridge a)).2) := rfl

/-- the kernel's answer for the call with input `a`, size `n`, `padding_start = s` meets the `eigh` specification -/
def KernelMeetsSpec (kernel : Kernel α) (n s : Nat) (ridge : α) (a : A2 α) : Prop :=
  DsEighSpec n s (rdM (regA n s ridge a)) (kernel n (regA n s ridge a)).1 (kernel n (regA n s ridge a)).2

theorem eighRootA_kernel_indep (k1 k2 : Kernel α) (invE : α → α) (h0 : invE 0 = 0) (n s : Nat) (ridge : α) (a : A2 α)
    (h1 : KernelMeetsSpec k1 n s ridge a) (h2 : KernelMeetsSpec k2 n s ridge a) :
    eighRootA k1 invE n s ridge a = eighRootA k2 invE n s ridge a := by
  rw [eighRootA_def, eighRootA_def]
  apply tabM_congr
  intro i j hi hj
  exact eighValF_unique invE h0 _ _ _ _ _ h1 h2 i j hi hj

theorem maskF_padSq {s N : Nat} (hs : s ≤ N) (a : A2 α) : maskF s (rdM (padSq s N a)) = maskF s (rdM a) := by
  funext i j
  unfold maskF padSq
  by_cases h : i < s ∧ j < s
  · rw [if_pos h, if_pos h, rdM_tabM, if_pos ⟨by omega, by omega⟩]; unfold padSqF; rw [if_pos h]
  · rw [if_neg h, if_neg h]

theorem eighRootA_padSq_of_spec {s N : Nat} (kernel : Kernel α) (invE : α → α) (h0 : invE 0 = 0) (hs : s ≤ N)
    (ridge : α) (a : A2 α) (hN : KernelMeetsSpec kernel N s ridge (padSq s N a)) (hS : KernelMeetsSpec kernel s s ridge a) :
    eighRootA kernel invE N s ridge (padSq s N a) = embed N (eighRootA kernel invE s s ridge a) := by
  have hsupp : Supp s (fun i j => maskF s (rdM a) i j + ridge * (eyeS s i j : α)) := by
    intro i j h
    show maskF s (rdM a) i j + ridge * eyeS s i j = 0
    rw [supp_eyeS s i j h]; unfold maskF; rw [if_neg (by omega)]; ring
  have hregN : regA N s ridge (padSq s N a) = tabM N (fun i j => maskF s (rdM a) i j + ridge * (eyeS s i j : α)) := by
    unfold regA; rw [maskF_padSq hs]
  -- the block decomposition built from the kernel's answer for the unpadded matrix meets the spec for the padded one
  have hpad : DsEighSpec N s (rdM (regA N s ridge (padSq s N a)))
      (padU s N (kernel s (regA s s ridge a)).1) (padE s N (kernel s (regA s s ridge a)).2) := by
    apply padSpec hs (rdM (regA s s ridge a)) _ _ _ _ hS
    intro i j
    rw [hregN]
    unfold regA
    rw [rdM_tabM, rdM_tabM]
    by_cases h : i < s ∧ j < s
    · rw [if_pos h, if_pos ⟨by omega, by omega⟩, if_pos h]
    · rw [if_neg h]
      by_cases h' : i < N ∧ j < N
      · rw [if_pos h']; exact hsupp i j (by omega)
      · rw [if_neg h']
  rw [eighRootA_def, eighRootA_def]
  unfold embed
  apply tabM_congr
  intro i j hi hj
  rw [eighValF_unique invE h0 _ _ _ _ _ hN hpad i j hi hj, eighValF_pad hs, rdM_tabM]

end PrecondVerif.BlockDiag
namespace PrecondVerif.BlockDiag
open Matrix
variable {α : Type} [Field α] [LinearOrder α] [IsStrictOrderedRing α]

/-- non-vacuity: for a zero statistic the regularised matrix is `diag(ridge,…,ridge,0,…,0)` and the exact diagonal solver
`diagKernel` meets the specification (padded or not) -/
theorem diagKernel_meetsSpec (n s : Nat) (hs : s ≤ n) (ridge : α) :
    KernelMeetsSpec (diagKernel fun i => if i < s then ridge else 0) n s ridge (#[] : A2 α) := by
  have hsum : ∀ (a b : Fin n) (c : Nat → α), (∑ k : Fin n, (if a.val + k.val + 1 = n then (1 : α) else 0) * c k.val *
      (if b.val + k.val + 1 = n then (1 : α) else 0)) = if a = b then c (n - 1 - a.val) else 0 := by
    intro a b c
    rw [← sumTo_eq_sum n (fun k => (if a.val + k + 1 = n then (1 : α) else 0) * c k * (if b.val + k + 1 = n then (1 : α) else 0))]
    have : sumTo n (fun k => (if a.val + k + 1 = n then (1 : α) else 0) * c k * (if b.val + k + 1 = n then (1 : α) else 0))
        = sumTo n (fun k => (if n - 1 - a.val = k then (1 : α) else 0) * (c k * (if b.val + k + 1 = n then (1 : α) else 0))) := by
      apply sumTo_congr
      intro l hl
      have ha := a.isLt
      by_cases h : a.val + l + 1 = n
      · have h' : n - 1 - a.val = l := by omega
        simp only [if_pos h, if_pos h']; ring
      · have h' : ¬ n - 1 - a.val = l := by omega
        simp only [if_neg h, if_neg h']; ring
    rw [this, sumTo_delta n (n - 1 - a.val) (by have := a.isLt; omega)]
    by_cases hab : a = b
    · have : b.val + (n - 1 - a.val) + 1 = n := by rw [← hab]; have := a.isLt; omega
      rw [if_pos hab, if_pos this]; ring
    · have : ¬ b.val + (n - 1 - a.val) + 1 = n := by
        intro h; apply hab; apply Fin.ext; have := a.isLt; have := b.isLt; omega
      rw [if_neg hab, if_neg this]; ring
  refine ⟨?_, ?_, ?_⟩
  · apply mul_eq_one_comm.mp
    ext a b
    rw [Matrix.mul_apply]
    simp only [Matrix.transpose_apply, toMat, diagKernel]
    have := hsum a b (fun _ => 1)
    simp only [mul_one] at this
    rw [this, Matrix.one_apply]
  · ext a b
    have hB : toMat n (rdM (regA n s ridge (#[] : A2 α))) a b = ridge * (if a.val = b.val ∧ a.val < s then 1 else 0) := by
      show rdM (regA n s ridge (#[] : A2 α)) a.val b.val = _
      unfold regA
      rw [rdM_tabM]
      have hin : a.val < n ∧ b.val < n := ⟨a.isLt, b.isLt⟩
      simp only [if_pos hin]
      have hz : maskF s (rdM (#[] : A2 α)) a.val b.val = 0 := by
        unfold maskF rdM; simp
      rw [hz, zero_add]; rfl
    rw [hB, FD.mdt_apply]
    simp only [toMat, diagKernel]
    rw [hsum a b (fun k => if n - 1 - k < s then ridge else 0)]
    have ha := a.isLt
    by_cases hab : a = b
    · simp only [if_pos hab]
      have e1 : n - 1 - (n - 1 - a.val) = a.val := by omega
      rw [e1]
      by_cases h : a.val < s
      · have h2 : a.val = b.val ∧ a.val < s := ⟨by rw [hab], h⟩
        simp only [if_pos h, if_pos h2]; ring
      · have h2 : ¬ (a.val = b.val ∧ a.val < s) := fun hh => h hh.2
        simp only [if_neg h, if_neg h2]; ring
    · have h2 : ¬ (a.val = b.val ∧ a.val < s) := fun hh => hab (Fin.ext hh.1)
      simp only [if_neg hab, if_neg h2]; ring
  · intro k hk
    simp only [diagKernel]
    rw [if_neg (by omega)]
end PrecondVerif.BlockDiag

