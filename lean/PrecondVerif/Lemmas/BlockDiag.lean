import PrecondVerif.Model.BlockDiag
import Mathlib.Algebra.Order.Field.Basic
import Mathlib.Tactic.Ring
import Mathlib.Tactic.Linarith

/-
Lemmas for property C08: a matrix routine written with sums and maxima over `[0,n)` does not see the zero padding.

`Supp s A` : the index function `A` vanishes outside `[0,s)²`; `Good s a` : the tabulated matrix `a` reads as such a
function; `embed N a` : zero-extension.  Every array-level operation of `Model/BlockDiag.lean` commutes with `embed`
(`mulA_embed`, `affA_embed`, …, `errA_embed`, `froSqA_embed`), hence so do the Newton step (`iterBody_embed`), the inner
loop (`inner_embed`, induction over the fuel), one try (`tryRoot_embed`), the retry loop (`outer_embed`) and the whole
routine (`rootA_padSq`, `paddedRoot_eq`).  `regroup_map_flatten`, `treeRootsG_local`: batching is `map`.
-/

set_option linter.unusedSectionVars false
set_option linter.unusedVariables false
namespace PrecondVerif.BlockDiag
variable {α : Type}

/-- vanishes outside `[0,s)²` -/
def Supp [Zero α] (s : Nat) (A : F α) : Prop := ∀ i j, (s ≤ i ∨ s ≤ j) → A i j = 0

theorem Supp.mono [Zero α] {s N : Nat} {A : F α} (h : Supp s A) (hs : s ≤ N) : Supp N A :=
  fun i j hij => h i j (by omega)

theorem rdM_tabM [Zero α] (n : Nat) (f : F α) (i j : Nat) :
    rdM (tabM n f) i j = if i < n ∧ j < n then f i j else 0 := by
  unfold rdM tabM
  by_cases hi : i < n
  · by_cases hj : j < n
    · simp [Array.getD, hi, hj]
    · simp [Array.getD, hi, hj]
  · simp [Array.getD, hi]

theorem supp_rdM_tabM [Zero α] (n : Nat) (f : F α) : Supp n (rdM (tabM n f)) := by
  intro i j h
  rw [rdM_tabM]; rw [if_neg]; omega

theorem rdM_tabM_of_supp [Zero α] {n : Nat} {f : F α} (h : Supp n f) : rdM (tabM n f) = f := by
  funext i j
  rw [rdM_tabM]
  split
  · rfl
  · exact (h i j (by omega)).symm

theorem tabM_congr (n : Nat) {f g : F α} (h : ∀ i j, i < n → j < n → f i j = g i j) : tabM n f = tabM n g := by
  unfold tabM
  congr 1; funext i; congr 1; funext j
  exact h i.val j.val i.isLt j.isLt

def Good [Zero α] (s : Nat) (a : A2 α) : Prop := Supp s (rdM a)

theorem good_tabM [Zero α] (s : Nat) (f : F α) : Good s (tabM s f) := supp_rdM_tabM s f

theorem rdM_embed [Zero α] {s N : Nat} {a : A2 α} (h : Good s a) (hs : s ≤ N) : rdM (embed N a) = rdM a :=
  rdM_tabM_of_supp (h.mono hs)

theorem embed_tabM [Zero α] {s N : Nat} {f : F α} (h : Supp s f) : embed N (tabM s f) = tabM N f := by
  unfold embed; rw [rdM_tabM_of_supp h]

theorem cutA_embed_tabM [Zero α] {s N : Nat} (f : F α) (hs : s ≤ N) : cutA s (embed N (tabM s f)) = tabM s f := by
  unfold cutA
  rw [rdM_embed (good_tabM s f) hs]
  apply tabM_congr
  intro i j hi hj
  rw [rdM_tabM, if_pos ⟨hi, hj⟩]

section sums
variable [AddMonoid α]

theorem sumTo_succ (n : Nat) (f : Nat → α) : sumTo (n + 1) f = sumTo n f + f n := by
  unfold sumTo; rw [List.range_succ, List.foldl_append]; rfl

theorem sumTo_zero_fun (n : Nat) (f : Nat → α) (h : ∀ l, l < n → f l = 0) : sumTo n f = 0 := by
  induction n with
  | zero => rfl
  | succ k ih => rw [sumTo_succ, ih (fun l hl => h l (by omega)), h k (by omega), add_zero]

theorem sumTo_pad {s N : Nat} (f : Nat → α) (h : ∀ l, s ≤ l → f l = 0) (hs : s ≤ N) : sumTo N f = sumTo s f := by
  induction N, hs using Nat.le_induction with
  | base => rfl
  | succ k hk ih => rw [sumTo_succ, ih, h k hk, add_zero]

theorem sumTo_congr (n : Nat) {f g : Nat → α} (h : ∀ l, l < n → f l = g l) : sumTo n f = sumTo n g := by
  induction n with
  | zero => rfl
  | succ k ih => rw [sumTo_succ, sumTo_succ, ih (fun l hl => h l (by omega)), h k (by omega)]
end sums

section maxes
variable [LinearOrder α]

theorem maxS_eq_max (a b : α) : maxS a b = max a b := by
  unfold maxS; split
  · rw [max_eq_right (le_of_lt ‹_›)]
  · rw [max_eq_left (not_lt.mp ‹_›)]

theorem maxTo_succ (n : Nat) (f : Nat → α) (init : α) : maxTo (n + 1) f init = maxS (maxTo n f init) (f n) := by
  unfold maxTo; rw [List.range_succ, List.foldl_append]; rfl

theorem le_maxTo (n : Nat) (f : Nat → α) (init : α) : init ≤ maxTo n f init := by
  induction n with
  | zero => exact le_refl _
  | succ k ih => rw [maxTo_succ, maxS_eq_max]; exact le_trans ih (le_max_left _ _)

theorem maxTo_pad [Zero α] {s N : Nat} (f : Nat → α) (init : α) (h0 : 0 ≤ init) (h : ∀ l, s ≤ l → f l = 0) (hs : s ≤ N) :
    maxTo N f init = maxTo s f init := by
  induction N, hs using Nat.le_induction with
  | base => rfl
  | succ k hk ih =>
    rw [maxTo_succ, ih, h k hk, maxS_eq_max, max_eq_left (le_trans h0 (le_maxTo _ _ _))]

theorem maxTo_congr (n : Nat) {f g : Nat → α} (init : α) (h : ∀ l, l < n → f l = g l) : maxTo n f init = maxTo n g init := by
  induction n with
  | zero => rfl
  | succ k ih => rw [maxTo_succ, maxTo_succ, ih (fun l hl => h l (by omega)), h k (by omega)]

theorem maxTo_zero [Zero α] (n : Nat) (f : Nat → α) (h : ∀ l, l < n → f l = 0) : maxTo n f 0 = 0 := by
  induction n with
  | zero => rfl
  | succ k ih => rw [maxTo_succ, ih (fun l hl => h l (by omega)), h k (by omega), maxS_eq_max, max_self]
end maxes

section matF
variable [Field α] [LinearOrder α] [IsStrictOrderedRing α]

theorem supp_eyeS (s : Nat) : Supp s (eyeS s : F α) := by
  intro i j h; unfold eyeS; rw [if_neg]; omega

theorem absS_zero : absS (0 : α) = 0 := by unfold absS; simp

theorem mulF_pad {s N : Nat} {A B : F α} (hA : Supp s A) (hB : Supp s B) (hs : s ≤ N) : mulF N A B = mulF s A B := by
  funext i j; unfold mulF
  exact sumTo_pad _ (fun l hl => by rw [hA i l (Or.inr hl), zero_mul]) hs

theorem supp_mulF {s : Nat} (n : Nat) {A B : F α} (hA : Supp s A) (hB : Supp s B) : Supp s (mulF n A B) := by
  intro i j h; unfold mulF
  apply sumTo_zero_fun
  intro l _
  rcases h with h | h
  · rw [hA i l (Or.inl h), zero_mul]
  · rw [hB l j (Or.inr h), mul_zero]

theorem maxAbsF_pad {s N : Nat} {A : F α} (hA : Supp s A) (hs : s ≤ N) : maxAbsF N A = maxAbsF s A := by
  unfold maxAbsF
  have inner : ∀ i, maxTo N (fun j => absS (A i j)) 0 = maxTo s (fun j => absS (A i j)) 0 := fun i =>
    maxTo_pad _ 0 (le_refl _) (fun l hl => by rw [hA i l (Or.inr hl), absS_zero]) hs
  simp only [inner]
  exact maxTo_pad _ 0 (le_refl _)
    (fun i hi => maxTo_zero _ _ (fun l _ => by rw [hA i l (Or.inl hi), absS_zero])) hs

theorem froSqF_pad {s N : Nat} {A : F α} (hA : Supp s A) (hs : s ≤ N) : froSqF N A = froSqF s A := by
  unfold froSqF
  have inner : ∀ i, sumTo N (fun j => A i j * A i j) = sumTo s (fun j => A i j * A i j) := fun i =>
    sumTo_pad _ (fun l hl => by rw [hA i l (Or.inr hl), zero_mul]) hs
  simp only [inner]
  exact sumTo_pad _ (fun i hi => sumTo_zero_fun _ _ (fun l _ => by rw [hA i l (Or.inl hi), zero_mul])) hs

/-! array level -/

theorem mulA_embed {s N : Nat} {a b : A2 α} (ha : Good s a) (hb : Good s b) (hs : s ≤ N) :
    mulA N (embed N a) (embed N b) = embed N (mulA s a b) := by
  unfold mulA
  rw [rdM_embed ha hs, rdM_embed hb hs, embed_tabM (supp_mulF s ha hb), mulF_pad ha hb hs]

theorem affA_embed {s N : Nat} (c1 c2 : α) {m : A2 α} (hm : Good s m) (hs : s ≤ N) :
    affA N s c1 c2 (embed N m) = embed N (affA s s c1 c2 m) := by
  unfold affA
  rw [rdM_embed hm hs, embed_tabM]
  intro i j h
  show c1 * eyeS s i j + c2 * rdM m i j = 0
  rw [supp_eyeS s i j h, hm i j h]; ring

theorem smulA_embed {s N : Nat} (c : α) {m : A2 α} (hm : Good s m) (hs : s ≤ N) :
    smulA N c (embed N m) = embed N (smulA s c m) := by
  unfold smulA
  rw [rdM_embed hm hs, embed_tabM]
  intro i j h
  show c * rdM m i j = 0
  rw [hm i j h]; ring

theorem blendA_embed {s N : Nat} (c d : α) {a b : A2 α} (ha : Good s a) (hb : Good s b) (hs : s ≤ N) :
    blendA N c d (embed N a) (embed N b) = embed N (blendA s c d a b) := by
  unfold blendA
  rw [rdM_embed ha hs, rdM_embed hb hs, embed_tabM]
  intro i j h
  show c * rdM a i j + d * rdM b i j = 0
  rw [ha i j h, hb i j h]; ring

theorem errA_embed {s N : Nat} {m : A2 α} (hm : Good s m) (hs : s ≤ N) : errA N s (embed N m) = errA s s m := by
  unfold errA
  rw [rdM_embed hm hs]
  apply maxAbsF_pad _ hs
  intro i j h
  show rdM m i j - eyeS s i j = 0
  rw [supp_eyeS s i j h, hm i j h]; ring

theorem froSqA_embed {s N : Nat} {m : A2 α} (hm : Good s m) (hs : s ≤ N) : froSqA N (embed N m) = froSqA s m := by
  unfold froSqA
  rw [rdM_embed hm hs]
  exact froSqF_pad hm hs

theorem good_matPowA {s : Nat} {m : A2 α} (hm : Good s m) : ∀ k, Good s (matPowA s m k)
  | 0 => good_tabM _ _
  | 1 => hm
  | _ + 2 => good_tabM _ _

theorem matPowA_embed {s N : Nat} {m : A2 α} (hm : Good s m) (hs : s ≤ N) :
    ∀ k, 0 < k → matPowA N (embed N m) k = embed N (matPowA s m k)
  | 0, h => absurd h (by omega)
  | 1, _ => rfl
  | k + 2, _ => by
    show mulA N (embed N m) (matPowA N (embed N m) (k + 1)) = embed N (mulA s m (matPowA s m (k + 1)))
    rw [matPowA_embed hm hs (k + 1) (by omega), mulA_embed hm (good_matPowA hm _) hs]
end matF

section newton
variable [Field α] [LinearOrder α] [IsStrictOrderedRing α]

def embedSt (N : Nat) (st : St α) : St α := ⟨st.i, embed N st.m, embed N st.h, embed N st.hOld, st.err, st.ratio⟩

structure GoodSt (s : Nat) (st : St α) : Prop where
  m : Good s st.m
  h : Good s st.h
  hOld : Good s st.hOld

theorem goodSt_iterBody {s : Nat} (c : Cfg α) {st : St α} (g : GoodSt s st) : GoodSt s (iterBody s s c st) :=
  ⟨good_tabM _ _, good_tabM _ _, g.h⟩

theorem iterBody_embed {s N : Nat} (c : Cfg α) (hp : 0 < c.p) {st : St α} (g : GoodSt s st) (hs : s ≤ N) :
    iterBody N s c (embedSt N st) = embedSt N (iterBody s s c st) := by
  have hmi : Good s (affA s s (1 - -(1 / c.pA)) (-(1 / c.pA)) st.m) := good_tabM _ _
  have hpow := good_matPowA hmi c.p
  have hm' : Good s (mulA s (matPowA s (affA s s (1 - -(1 / c.pA)) (-(1 / c.pA)) st.m) c.p) st.m) := good_tabM _ _
  simp only [iterBody, embedSt]
  rw [affA_embed _ _ g.m hs, matPowA_embed hmi hs c.p hp, mulA_embed hpow g.m hs, mulA_embed g.h hmi hs,
    errA_embed hm' hs]

theorem goodSt_inner {s : Nat} (c : Cfg α) : ∀ (k : Nat) {st : St α}, GoodSt s st → GoodSt s (inner s s c k st)
  | 0, _, g => g
  | k + 1, st, g => by
    unfold inner; split
    · exact goodSt_inner c k (goodSt_iterBody c g)
    · exact g

theorem inner_embed {s N : Nat} (c : Cfg α) (hp : 0 < c.p) (hs : s ≤ N) :
    ∀ (k : Nat) {st : St α}, GoodSt s st → inner N s c k (embedSt N st) = embedSt N (inner s s c k st)
  | 0, _, _ => rfl
  | k + 1, st, g => by
    unfold inner
    show (if c.tol < st.err ∧ st.ratio < c.maxRatio then _ else _) = _
    split
    · rw [iterBody_embed c hp g hs, inner_embed c hp hs k (goodSt_iterBody c g)]
    · rfl

def embedTry (N : Nat) (t : Try α) : Try α := ⟨embed N t.h, t.err, t.iters, t.ratio⟩

theorem dampA_embed {s N : Nat} {a : A2 α} (ha : Good s a) (ridge : α) (hs : s ≤ N) :
    dampA N s (embed N a) ridge = embed N (dampA s s a ridge) := by
  unfold dampA
  rw [rdM_embed ha hs, embed_tabM]
  intro i j h
  show rdM a i j + ridge * eyeS s i j = 0
  rw [supp_eyeS s i j h, ha i j h]; ring

theorem h0A_embed {s N : Nat} (r : α) : h0A N s r = embed N (h0A s s r) := by
  unfold h0A
  rw [embed_tabM]
  intro i j h
  show (eyeS s i j : α) * r = 0
  rw [supp_eyeS s i j h]; ring

theorem goodSt_initSt {s : Nat} (c : Cfg α) (a : A2 α) (ridge : α) : GoodSt s (initSt s s c a ridge) :=
  ⟨good_tabM _ _, good_tabM _ _, good_tabM _ _⟩

theorem initSt_embed {s N : Nat} (c : Cfg α) (hs : s ≤ N) {a : A2 α} (ha : Good s a) (ridge : α) :
    initSt N s c (embed N a) ridge = embedSt N (initSt s s c a ridge) := by
  have gd : Good s (dampA s s a ridge) := good_tabM _ _
  have gm : Good s (smulA s (zOf c (froSqA s (dampA s s a ridge))) (dampA s s a ridge)) := good_tabM _ _
  simp only [initSt, embedSt]
  rw [dampA_embed ha ridge hs, froSqA_embed gd hs, smulA_embed _ gd hs, errA_embed gm hs, ← h0A_embed]

theorem finishTry_embed {s N : Nat} (c : Cfg α) (hs : s ≤ N) {st : St α} (g : GoodSt s st) :
    finishTry N s c (embedSt N st) = embedTry N (finishTry s s c st) := by
  simp only [finishTry, embedSt, embedTry]
  rw [errA_embed g.m hs, blendA_embed _ _ g.h g.hOld hs]
  rfl

theorem tryRoot_embed {s N : Nat} (c : Cfg α) (hp : 0 < c.p) (hs : s ≤ N) {a : A2 α} (ha : Good s a) (ridge : α) :
    tryRoot N s c (embed N a) ridge = embedTry N (tryRoot s s c a ridge) := by
  unfold tryRoot
  rw [initSt_embed c hs ha, inner_embed c hp hs c.fuel (goodSt_initSt c a ridge),
    finishTry_embed c hs (goodSt_inner c c.fuel (goodSt_initSt c a ridge))]

theorem outer_embed {s N : Nat} (c : Cfg α) (hp : 0 < c.p) (hs : s ≤ N) {a : A2 α} (ha : Good s a) (ridge : α) :
    ∀ (k i : Nat) (t : Try α), outer N s c (embed N a) ridge k i (embedTry N t)
      = ((outer s s c a ridge k i t).1, embedTry N (outer s s c a ridge k i t).2)
  | 0, _, _ => rfl
  | k + 1, i, t => by
    unfold outer
    simp only []
    rw [tryRoot_embed c hp hs ha]
    show (if c.retryThr < (tryRoot s s c a (ridge * natPow c.ten i)).err then _ else _) = _
    split
    · exact outer_embed c hp hs ha ridge k (i + 1) _
    · rfl

theorem maskA_padSq {s N : Nat} (a : A2 α) (hs : s ≤ N) : maskA N s (padSq s N a) = embed N (maskA s s a) := by
  unfold maskA padSq
  rw [embed_tabM]
  · apply tabM_congr
    intro i j hi hj
    show (if i < s ∧ j < s then rdM (tabM N (padSqF s (rdM a))) i j else 0) = (if i < s ∧ j < s then rdM a i j else 0)
    by_cases h : i < s ∧ j < s
    · rw [if_pos h, if_pos h, rdM_tabM, if_pos ⟨hi, hj⟩]
      unfold padSqF; rw [if_pos h]
    · rw [if_neg h, if_neg h]
  · intro i j h
    unfold maskF; rw [if_neg]; omega

theorem rootA_padSq {s N : Nat} (c : Cfg α) (hp : 0 < c.p) (hs : s ≤ N) (ridge : α) (a : A2 α) :
    rootA N s c ridge (padSq s N a) = ((rootA s s c ridge a).1, embedTry N (rootA s s c ridge a).2) := by
  unfold rootA
  rw [maskA_padSq a hs]
  have h0 : (⟨tabM N (eyeS s), 0, 0, 0⟩ : Try α) = embedTry N ⟨tabM s (eyeS s), 0, 0, 0⟩ := by
    simp only [embedTry]; rw [embed_tabM (supp_eyeS s)]
  rw [h0]
  exact outer_embed c hp hs (good_tabM _ _) ridge c.tries 0 _
end newton

section newton2
variable [Field α] [LinearOrder α] [IsStrictOrderedRing α]

def IsTab (s : Nat) (a : A2 α) : Prop := ∃ f : F α, a = tabM s f

theorem isTab_tryRoot {s : Nat} (c : Cfg α) (a : A2 α) (r : α) : IsTab s (tryRoot s s c a r).h := by
  unfold tryRoot finishTry blendA
  simp only []
  exact ⟨_, rfl⟩

theorem isTab_outer {s : Nat} (c : Cfg α) (a : A2 α) (ridge : α) :
    ∀ (k i : Nat) (t : Try α), IsTab s t.h → IsTab s (outer s s c a ridge k i t).2.h
  | 0, _, _, h => h
  | k + 1, i, t, h => by
    unfold outer
    simp only []
    split
    · exact isTab_outer c a ridge k (i + 1) _ (isTab_tryRoot c a _)
    · exact isTab_tryRoot c a _

/-- `root_padding_invariant` for the Newton model: pad to `N`, root with `padding_start = s`, cut `[:s,:s]` is the root
of the unpadded statistic — the matrix, the error, the iteration count, the error ratio and `total_retries` -/
theorem paddedRoot_eq {s N : Nat} (c : Cfg α) (hp : 0 < c.p) (hs : s ≤ N) (ridge : α) (a : A2 α) :
    paddedRoot N s c ridge a = rootA s s c ridge a := by
  unfold paddedRoot
  simp only []
  rw [rootA_padSq c hp hs]
  obtain ⟨f, hf⟩ : IsTab s (rootA s s c ridge a).2.h := isTab_outer c _ ridge c.tries 0 _ ⟨_, rfl⟩
  simp only [embedTry]
  rw [hf, cutA_embed_tabM f hs]
  rw [← hf]
end newton2

section batching

theorem regroup_map_flatten {β γ : Type} (f : β → γ) : ∀ ls : List (List β),
    regroup (ls.map List.length) (ls.flatten.map f) = ls.map (·.map f)
  | [] => rfl
  | l :: ls => by
    simp only [List.map_cons, List.flatten_cons, List.map_append, regroup]
    rw [List.take_left' (by simp), List.drop_left' (by simp), regroup_map_flatten f ls]

theorem le_foldl_max (l : List Nat) (init : Nat) : init ≤ l.foldl Nat.max init ∧ ∀ x ∈ l, x ≤ l.foldl Nat.max init := by
  induction l generalizing init with
  | nil => exact ⟨le_refl _, fun x hx => absurd hx (by simp)⟩
  | cons y ys ih =>
    simp only [List.foldl_cons]
    obtain ⟨h1, h2⟩ := ih (Nat.max init y)
    refine ⟨le_trans (Nat.le_max_left _ _) h1, fun x hx => ?_⟩
    rcases List.mem_cons.mp hx with rfl | hx
    · exact le_trans (Nat.le_max_right _ _) h1
    · exact h2 x hx

theorem size_le_maxSizeOf (leaves : List (List (Stat α))) (st : Stat α) (h : st ∈ leaves.flatten) :
    st.size ≤ maxSizeOf leaves := by
  unfold maxSizeOf
  exact (le_foldl_max _ 0).2 _ (List.mem_map_of_mem h)

theorem treeRootsG_local {ρ : Type} (root : Nat → Nat → A2 α → ρ)
    (hinv : ∀ N s a, s ≤ N → root N s a = root s s a) (leaves : List (List (Stat α))) :
    treeRootsG root leaves = leaves.map (·.map fun st => root st.size st.size st.dat) := by
  unfold treeRootsG
  simp only []
  rw [← regroup_map_flatten]
  congr 1
  apply List.map_congr_left
  intro st hst
  exact hinv _ _ _ (size_le_maxSizeOf leaves st hst)

theorem zipWith_map_self {β γ δ : Type} (f : β → γ → δ) (g : β → γ) : ∀ l : List β,
    List.zipWith f l (l.map g) = l.map fun x => f x (g x)
  | [] => rfl
  | x :: xs => by simp [zipWith_map_self f g xs]

end batching


section tearfree
variable [Mul α] [LT α] [DecidableLT α] [Zero α]

theorem batchedMask_eq_map (eps : α) (ws : List (List α)) : batchedMask eps ws = ws.map (localMask eps) := by
  unfold batchedMask localMask
  exact zipWith_map_self _ _ ws

theorem zipWith_map_map {β γ δ ε : Type} (f : γ → δ → ε) (g : β → γ) (h : β → δ) : ∀ l : List β,
    List.zipWith f (l.map g) (l.map h) = l.map fun x => f (g x) (h x)
  | [] => rfl
  | x :: xs => by simp [zipWith_map_map f g h xs]

theorem tfBatched_eq_map {σ V ρ : Type} (eig : σ → List α × V) (mk : List α → V → ρ) (pw : α → α) (eps : α)
    (stats : List σ) : tfBatched eig mk pw eps stats = stats.map (tfOne eig mk pw eps) := by
  unfold tfBatched
  simp only []
  rw [batchedMask_eq_map, List.map_map, List.map_map, zipWith_map_map]
  rfl

end tearfree

end PrecondVerif.BlockDiag

/-! ## round 2: slot plans, eigh root under the block decomposition of the padded matrix -/
namespace PrecondVerif.BlockDiag
variable {α : Type}

/-! slot plans -/

theorem length_blockSlots (pt : PType) (n : Nat) (blk : List (Nat × Nat)) :
    (blockSlots pt n blk).length = (precAxes pt blk.length).length := by
  simp [blockSlots]

theorem length_slotsFrom (pt : PType) (r : Nat) : ∀ (n : Nat) (blocks : List (List (Nat × Nat))),
    (∀ blk ∈ blocks, blk.length = r) → (slotsFrom pt n blocks).length = blocks.length * (precAxes pt r).length
  | _, [], _ => by simp [slotsFrom]
  | n, blk :: rest, h => by
    simp only [slotsFrom, List.length_append, List.length_cons, length_blockSlots]
    rw [length_slotsFrom pt r (n + 1) rest (fun b hb => h b (List.mem_cons_of_mem _ hb)), h blk List.mem_cons_self]
    ring

theorem length_of_mem_cart {β : Type} : ∀ (ls : List (List β)) (x : List β), x ∈ cart ls → x.length = ls.length
  | [], x, h => by simp [cart] at h; simp [h]
  | l :: ls, x, h => by
    simp only [cart, List.mem_flatMap, List.mem_map] at h
    obtain ⟨a, _, y, hy, rfl⟩ := h
    simp [length_of_mem_cart ls y hy]

theorem length_of_mem_dsBlocks (shape : List Nat) (b : Nat) (blk : List (Nat × Nat)) (h : blk ∈ dsBlocks shape b) :
    blk.length = shape.length := by
  have := length_of_mem_cart _ _ h
  simpa using this

theorem slotsFrom_getElem (pt : PType) (r : Nat) : ∀ (n : Nat) (blocks : List (List (Nat × Nat))),
    (∀ blk ∈ blocks, blk.length = r) → ∀ (i k : Nat) (hi : i < blocks.length) (hk : k < (precAxes pt r).length),
    (slotsFrom pt n blocks)[i * (precAxes pt r).length + k]? =
      some ⟨n + i, (precAxes pt r)[k], blocks[i], (blocks[i].getD ((precAxes pt r)[k]) (0, 0)).2⟩
  | _, [], _, i, _, hi, _ => absurd hi (by simp)
  | n, blk :: rest, h, 0, k, _, hk => by
    have hb : blk.length = r := h blk List.mem_cons_self
    simp only [slotsFrom, Nat.zero_mul, Nat.zero_add, Nat.add_zero, List.getElem_cons_zero]
    rw [List.getElem?_append_left (by rw [length_blockSlots, hb]; exact hk)]
    simp [blockSlots, hb, hk]
  | n, blk :: rest, h, i + 1, k, hi, hk => by
    have hb : blk.length = r := h blk List.mem_cons_self
    have hlen : (blockSlots pt n blk).length = (precAxes pt r).length := by rw [length_blockSlots, hb]
    simp only [slotsFrom, List.getElem_cons_succ]
    rw [List.getElem?_append_right (by rw [hlen]; nlinarith)]
    have : (i + 1) * (precAxes pt r).length + k - (blockSlots pt n blk).length = i * (precAxes pt r).length + k := by
      rw [hlen]; ring_nf; omega
    rw [this, slotsFrom_getElem pt r (n + 1) rest (fun b hb' => h b (List.mem_cons_of_mem _ hb')) i k
      (by simpa using hi) hk]
    congr 2; omega

theorem treeSlots_append (pt : PType) (b : Nat) (pre post : List (List Nat)) (sh : List Nat) :
    treeSlots pt b (pre ++ sh :: post) = treeSlots pt b pre ++ dsSlotsP pt sh b ++ treeSlots pt b post := by
  simp [treeSlots, List.flatMap_append, List.flatMap_cons]

theorem indexStarts_getElem : ∀ (pre : List Nat) (c : Nat) (post : List Nat) (o : Nat),
    (indexStarts (pre ++ c :: post) o)[pre.length]? = some (o + pre.sum)
  | [], c, post, o => by simp [indexStarts]
  | x :: pre, c, post, o => by
    simp only [List.cons_append, indexStarts, List.length_cons, List.getElem?_cons_succ, List.sum_cons]
    rw [indexStarts_getElem pre c post (o + x), Nat.add_assoc]

theorem length_treeSlots (pt : PType) (b : Nat) (shapes : List (List Nat)) :
    (treeSlots pt b shapes).length = (shapes.map fun sh => (dsSlotsP pt sh b).length).sum := by
  induction shapes with
  | nil => rfl
  | cons sh rest ih => simp [treeSlots, List.flatMap_cons] at ih ⊢

end PrecondVerif.BlockDiag

namespace PrecondVerif.BlockDiag
variable {α : Type}

/-! eigh root under the block decomposition of the padded matrix -/

theorem sumTo_add [AddMonoid α] (K : Nat) : ∀ (s : Nat) (f : Nat → α), sumTo (K + s) f = sumTo K f + sumTo s (fun l => f (K + l))
  | 0, f => by simp [sumTo]
  | s + 1, f => by
    rw [← Nat.add_assoc, sumTo_succ, sumTo_succ, sumTo_add K s f, add_assoc]

section eigh
variable [Field α] [LinearOrder α] [IsStrictOrderedRing α]

/-- hypothesis on the eigen-solver (`eigh` spec with zero padding): for a zero-padded matrix `blockdiag(R, 0)` the kept
eigenpairs (the last `s` columns / values, i.e. those not zeroed by `e *= flip(ix)`) are those of `R`, zero-extended:
`blockdiag(R, 0)` has the decomposition `blockdiag(U, I)`.  Nothing is assumed about the `N - s` dropped columns. -/
def KernelPadOK (kernel : Kernel α) : Prop :=
  ∀ (s N : Nat) (f : F α), Supp s f → s ≤ N → ∀ k, N - s ≤ k →
    (∀ i, (kernel N (tabM N f)).1 i k = padU s N (kernel s (tabM s f)).1 i k) ∧
    (kernel N (tabM N f)).2 k = padE s N (kernel s (tabM s f)).2 k

theorem eighValF_congr_kept (N s : Nat) (invE : α → α) {U U' : F α} {e e' : Nat → α}
    (hU : ∀ i k, N - s ≤ k → U i k = U' i k) (he : ∀ k, N - s ≤ k → e k = e' k) :
    eighValF N s invE U e = eighValF N s invE U' e' := by
  funext i j
  unfold eighValF
  apply sumTo_congr
  intro k _
  by_cases hk : k < N - s
  · simp only [if_pos hk]; ring
  · rw [hU i k (by omega), hU j k (by omega), he k (by omega)]

theorem eighValF_pad {s N : Nat} (hs : s ≤ N) (invE : α → α) (U : F α) (e : Nat → α) :
    eighValF N s invE (padU s N U) (padE s N e) = fun i j => if i < s ∧ j < s then eighValF s s invE U e i j else 0 := by
  obtain ⟨K, rfl⟩ : ∃ K, N = K + s := ⟨N - s, by omega⟩
  funext i j
  unfold eighValF padU padE
  simp only [Nat.add_sub_cancel, Nat.sub_self]
  rw [sumTo_add]
  have h1 : sumTo K (fun k => (if k < K then (if i = s + k then (1 : α) else 0) else if i < s then U i (k - K) else 0) *
      (if k < K then 0 else invE (if k < K then 0 else e (k - K))) *
      (if k < K then (if j = s + k then (1 : α) else 0) else if j < s then U j (k - K) else 0)) = 0 := by
    apply sumTo_zero_fun
    intro l hl
    rw [if_pos hl, if_pos hl]; ring
  rw [h1, zero_add]
  by_cases hij : i < s ∧ j < s
  · rw [if_pos hij]
    apply sumTo_congr
    intro l hl
    have e3 : ¬ (K + l < K) := by omega
    have e4 : ¬ (l < 0) := by omega
    simp only [if_neg e3, if_neg e4, if_pos hij.1, if_pos hij.2, Nat.add_sub_cancel_left]
  · rw [if_neg hij]
    apply sumTo_zero_fun
    intro l hl
    have e3 : ¬ (K + l < K) := by omega
    simp only [if_neg e3]
    by_cases hi : i < s
    · have hj : ¬ j < s := fun h => hij ⟨hi, h⟩
      rw [if_neg hj]; ring
    · rw [if_neg hi]; ring

theorem eighRootA_padSq {s N : Nat} (kernel : Kernel α) (hk : KernelPadOK kernel) (invE : α → α) (hs : s ≤ N)
    (ridge : α) (a : A2 α) :
    eighRootA kernel invE N s ridge (padSq s N a) = embed N (eighRootA kernel invE s s ridge a) := by
  have hreg : Supp s (fun i j => maskF s (rdM a) i j + ridge * (eyeS s i j : α)) := by
    intro i j h
    show maskF s (rdM a) i j + ridge * eyeS s i j = 0
    rw [supp_eyeS s i j h]; unfold maskF; rw [if_neg (by omega)]; ring
  have hmask : ∀ i j, maskF s (rdM (padSq s N a)) i j = maskF s (rdM a) i j := by
    intro i j
    unfold maskF padSq
    by_cases h : i < s ∧ j < s
    · rw [if_pos h, if_pos h, rdM_tabM, if_pos ⟨by omega, by omega⟩]; unfold padSqF; rw [if_pos h]
    · rw [if_neg h, if_neg h]
  unfold eighRootA
  simp only [hmask]
  rw [eighValF_congr_kept N s invE (fun i k h => (hk s N _ hreg hs k h).1 i) (fun k h => (hk s N _ hreg hs k h).2),
    eighValF_pad hs]
  unfold embed
  apply tabM_congr
  intro i j hi hj
  rw [rdM_tabM]
end eigh
end PrecondVerif.BlockDiag

namespace PrecondVerif.BlockDiag
variable {α : Type}
/-- an eigen-solver meeting `KernelPadOK`: the exact solver for diagonal matrices `diag(g 0 ≥ g 1 ≥ …)` (ascending
eigenvalues, anti-diagonal permutation as eigenvectors) -/
def diagKernel [Zero α] [One α] (g : Nat → α) : Kernel α :=
  fun n _ => (fun i k => if i + k + 1 = n then 1 else 0, fun k => g (n - 1 - k))

theorem diagKernel_padOK [Field α] [LinearOrder α] [IsStrictOrderedRing α] (g : Nat → α) : KernelPadOK (diagKernel g) := by
  intro s N f _ hs k hk
  have hk' : ¬ k < N - s := by omega
  refine ⟨fun i => ?_, ?_⟩
  · show (if i + k + 1 = N then (1 : α) else 0)
      = (if k < N - s then (if i = s + k then 1 else 0) else (if i < s then (if i + (k - (N - s)) + 1 = s then 1 else 0) else 0))
    rw [if_neg hk']
    by_cases hi : i < s
    · rw [if_pos hi]
      by_cases h : i + k + 1 = N
      · rw [if_pos h, if_pos (by omega)]
      · rw [if_neg h, if_neg (by omega)]
    · rw [if_neg hi, if_neg (by omega)]
  · show g (N - 1 - k) = (if k < N - s then 0 else g (s - 1 - (k - (N - s))))
    rw [if_neg hk']
    congr 1; omega
end PrecondVerif.BlockDiag

