/-
Lemmas for the index-level description of `BlockPartitioner.partition` (C06, second round):
`partition` = cartesian product of the per-axis pieces, the `k`-th block is the sub-tensor at
`blockOffsets k` of shape `blockDims k`, the blocks tile the tensor.
-/
import PrecondVerif.Model.ShapesIdx
import PrecondVerif.Lemmas.Partition

namespace PrecondVerif.Shapes

/-! ### slicing the full extent is the identity; unsplit axes can be dropped or kept -/

theorem slice_self {α} (u : Tensor α) (a : Nat) : u.slice a 0 (u.shape.getD a 0) = u := by
  cases u with
  | mk shape get =>
    simp only [Tensor.slice, Nat.add_zero]
    congr 1
    · by_cases h : a < shape.length
      · simp [List.getD_eq_getElem?_getD, h]
      · rw [List.set_eq_of_length_le (by omega)]
    · funext idx
      congr 1
      by_cases h : a < idx.length
      · simp [List.getD_eq_getElem?_getD, h]
      · rw [List.set_eq_of_length_le (by omega)]

theorem split_singleton {α} (u : Tensor α) (a : Nat) :
    u.split a [u.shape.getD a 0] = [u] := by
  show [u.slice a 0 (u.shape.getD a 0)] = [u]
  rw [slice_self]

theorem partAxes_filter {α} (sz : Nat → List Nat) (p : Nat → Bool) :
    ∀ (axes : List Nat) (ts : List (Tensor α)), axes.Nodup →
      (∀ u ∈ ts, ∀ a ∈ axes, p a = false → sz a = [u.shape.getD a 0]) →
      partAxes sz (axes.filter p) ts = partAxes sz axes ts
  | [], ts, _, _ => rfl
  | a :: rest, ts, hnd, h => by
    have hnd' := List.nodup_cons.mp hnd
    by_cases hp : p a = true
    · rw [List.filter_cons_of_pos hp, partAxes_cons, partAxes_cons]
      apply partAxes_filter sz p rest _ hnd'.2
      intro v hv c hc hpc
      simp only [List.mem_flatMap] at hv
      obtain ⟨u, hu, hvu⟩ := hv
      obtain ⟨off, size, rfl⟩ := mem_split u v a (sz a) hvu
      have hca : c ≠ a := fun e => hnd'.1 (e ▸ hc)
      rw [slice_shape_getD u a c off size hca]
      exact h u hu c (by simp [hc]) hpc
    · have hp' : p a = false := by simpa using hp
      rw [List.filter_cons_of_neg (by simpa using hp'), partAxes_cons]
      have hid : (ts.flatMap fun u => u.split a (sz a)) = ts := by
        have : ∀ u ∈ ts, u.split a (sz a) = [u] := by
          intro u hu
          rw [h u hu a (by simp) hp', split_singleton]
        clear h
        induction ts with
        | nil => rfl
        | cons t ts ih =>
          simp only [List.flatMap_cons, this t (by simp)]
          rw [ih (fun u hu => this u (by simp [hu]))]
          rfl
      rw [hid]
      exact partAxes_filter sz p rest ts hnd'.2 (fun u hu c hc => h u hu c (by simp [hc]))

/-! ### partition = cartesian product of the per-axis offPieces, each cut out by `sliceBox` -/

def offPieces (sizes : List Nat) : List (Nat × Nat) := (offsets sizes 0).zip sizes

theorem split_eq_map {α} (u : Tensor α) (a : Nat) (sizes : List Nat) :
    u.split a sizes = (offPieces sizes).map fun x => u.slice a x.1 x.2 := rfl

theorem partAxes_range' {α} (sz : Nat → List Nat) : ∀ (n m : Nat) (ts : List (Tensor α)),
    partAxes sz (List.range' m n) ts =
      ts.flatMap fun u => (cartP ((List.range' m n).map fun a => offPieces (sz a))).map (sliceBox u m)
  | 0, m, ts => by
    simp [partAxes, cartP, sliceBox]
  | n + 1, m, ts => by
    rw [List.range'_succ, partAxes_cons, partAxes_range' sz n (m + 1)]
    simp only [List.map_cons, cartP, split_eq_map, List.flatMap_assoc, List.flatMap_map, List.map_flatMap,
      List.map_map]
    rfl


theorem range_map_getD' {β : Type} (l : List Nat) (f : Nat → β) :
    (List.range l.length).map (fun a => f (l.getD a 0)) = l.map f := by
  apply List.ext_getElem
  · simp
  · intro i h1 h2
    simp at h1
    simp [List.getD_eq_getElem?_getD, h1]

/-- `BlockPartitioner.partition` cuts the tensor into the cartesian product of the per-axis offPieces. -/
theorem partition_eq_boxes {α} (t : Tensor α) (b : Nat) :
    partition t b = (cartP (t.shape.map fun d => axisPieces d b)).map (sliceBox t 0) := by
  rw [partition_eq_partAxes]
  have h1 : splitAxes t.shape b =
      (List.range t.shape.length).filter (fun i => decide (0 < b ∧ b < t.shape.getD i 0)) := rfl
  rw [h1, partAxes_filter _ _ _ _ List.nodup_range]
  · rw [List.range_eq_range', partAxes_range']
    simp only [List.flatMap_cons, List.flatMap_nil, List.append_nil]
    rw [← List.range_eq_range']
    have := range_map_getD' t.shape (fun d => offPieces (splitSizes d b))
    rw [this]
    rfl
  · intro u hu a _ hp
    simp only [List.mem_singleton] at hu
    subst hu
    simp only [decide_eq_false_iff_not] at hp
    unfold splitSizes
    rw [if_neg hp]

/-! ### the `k`-th element of a cartesian product -/

theorem flatMap_getElem?_of_length {β γ : Type} (f : β → List γ) (n : Nat) (hn : 0 < n)
    (hf : ∀ x, (f x).length = n) : ∀ (l : List β) (k : Nat),
    (l.flatMap f)[k]? = (l[k / n]?).bind fun x => (f x)[k % n]?
  | [], k => by simp
  | x :: l, k => by
    rw [List.flatMap_cons, List.getElem?_append]
    by_cases hk : k < n
    · rw [if_pos (by rw [hf]; exact hk), Nat.div_eq_of_lt hk, Nat.mod_eq_of_lt hk]
      simp
    · rw [if_neg (by rw [hf]; exact hk), hf, flatMap_getElem?_of_length f n hn hf l (k - n)]
      have hk' : n ≤ k := by omega
      rw [Nat.div_eq_sub_div hn hk', Nat.mod_eq_sub_mod hk']
      simp

theorem flatMap_length_const {β γ : Type} (f : β → List γ) (n : Nat) (hf : ∀ x, (f x).length = n) :
    ∀ l : List β, (l.flatMap f).length = l.length * n
  | [] => by simp
  | x :: l => by
    rw [List.flatMap_cons, List.length_append, hf, flatMap_length_const f n hf l, List.length_cons,
      Nat.add_mul, Nat.one_mul, Nat.add_comm]

theorem cartP_length {β : Type} : ∀ ls : List (List β), (cartP ls).length = prod (ls.map List.length)
  | [] => rfl
  | l :: ls => by
    simp only [cartP, List.map_cons, prod_cons]
    rw [flatMap_length_const _ (prod (ls.map List.length)) (by intro x; simp [cartP_length ls])]

theorem cartP_getElem? {β : Type} (d : β) : ∀ (ls : List (List β)) (k : Nat),
    k < prod (ls.map List.length) →
    (cartP ls)[k]? = some (List.zipWith (fun l j => l.getD j d) ls (unravel (ls.map List.length) k))
  | [], k, hk => by
    simp at hk; subst hk; rfl
  | l :: ls, k, hk => by
    simp only [List.map_cons, prod_cons] at hk
    have hpos : 0 < prod (ls.map List.length) := by
      rcases Nat.eq_zero_or_pos (prod (ls.map List.length)) with h0 | h0
      · simp [h0] at hk
      · exact h0
    have hq : k / prod (ls.map List.length) < l.length := by
      rw [Nat.div_lt_iff_lt_mul hpos]; exact hk
    have hr : k % prod (ls.map List.length) < prod (ls.map List.length) := Nat.mod_lt _ hpos
    simp only [cartP]
    rw [flatMap_getElem?_of_length _ (prod (ls.map List.length)) hpos
      (by intro x; simp [cartP_length])]
    rw [List.getElem?_eq_getElem hq]
    simp only [Option.bind_some, List.getElem?_map, cartP_getElem? d ls _ hr, Option.map_some]
    simp [unravel, List.getD_eq_getElem?_getD, List.getElem?_eq_getElem hq]


/-! ### what `sliceBox` cuts out -/

theorem sliceBox_shape {α} : ∀ (box : List (Nat × Nat)) (u : Tensor α) (m : Nat),
    m + box.length = u.shape.length → (sliceBox u m box).shape = u.shape.take m ++ box.map (·.2)
  | [], u, m, h => by
    simp only [sliceBox, List.map_nil, List.append_nil]
    rw [List.take_of_length_le (by simp at h; omega)]
  | (o, s) :: box, u, m, h => by
    simp only [sliceBox]
    have hm : m < u.shape.length := by simp at h; omega
    rw [sliceBox_shape box (u.slice m o s) (m + 1) (by simp [Tensor.slice] at h ⊢; omega)]
    simp only [Tensor.slice, List.map_cons]
    rw [List.take_add_one, List.take_set_of_le (Nat.le_refl m)]
    simp [hm]

theorem split_at_length (idx : List Nat) (m : Nat) (h : m < idx.length) :
    ∃ A i B, idx = A ++ i :: B ∧ A.length = m :=
  ⟨idx.take m, idx[m], idx.drop (m + 1), by simp, by simp; omega⟩

theorem sliceBox_get {α} : ∀ (box : List (Nat × Nat)) (u : Tensor α) (m : Nat) (idx : List Nat),
    idx.length = m + box.length →
    (sliceBox u m box).get idx = u.get (idx.take m ++ addOff (box.map (·.1)) (idx.drop m))
  | [], u, m, idx, h => by
    simp only [sliceBox, List.map_nil, addOff, List.zipWith_nil_left, List.append_nil]
    rw [List.take_of_length_le (by simp at h; omega)]
  | (o, s) :: box, u, m, idx, h => by
    simp only [sliceBox]
    rw [sliceBox_get box (u.slice m o s) (m + 1) idx (by simp at h ⊢; omega)]
    obtain ⟨A, i, B, rfl, hA⟩ := split_at_length idx m (by simp at h; omega)
    subst hA
    simp only [Tensor.slice]
    congr 1
    have e1 : (A ++ i :: B).take (A.length + 1) = A ++ [i] := by
      rw [show A ++ i :: B = (A ++ [i]) ++ B by simp, List.take_left' (by simp)]
    have e2 : (A ++ i :: B).drop (A.length + 1) = B := by
      rw [show A ++ i :: B = (A ++ [i]) ++ B by simp, List.drop_left' (by simp)]
    rw [e1, e2, List.take_left' rfl, List.drop_left' rfl]
    simp [addOff, List.getD_eq_getElem?_getD, Nat.add_comm]

/-- a full-rank box is the sub-tensor at its offsets -/
theorem sliceBox_zero {α} (u : Tensor α) (box : List (Nat × Nat)) (h : box.length = u.shape.length) :
    (sliceBox u 0 box).shape = box.map (·.2) ∧
    ∀ idx : List Nat, idx.length = u.shape.length →
      (sliceBox u 0 box).get idx = u.get (addOff (box.map (·.1)) idx) := by
  refine ⟨by simpa using sliceBox_shape box u 0 (by simpa using h), ?_⟩
  intro idx hi
  simpa using sliceBox_get box u 0 idx (by simp [hi, h])


/-! ### block number `k` -/

theorem unravel_length_eq : ∀ (s : List Nat) (k : Nat), (unravel s k).length = s.length
  | [], _ => rfl
  | _ :: ss, k => by simp [unravel, unravel_length_eq ss]

theorem axisPieces_length (d b : Nat) : (axisPieces d b).length = (splitSizes d b).length := by
  simp [axisPieces, offsets_length]

theorem zip_getD_fst (A B : List Nat) (h : A.length = B.length) (j : Nat) :
    ((A.zip B).getD j (0, 0)).1 = A.getD j 0 := by
  by_cases hj : j < A.length
  · have hj2 : j < B.length := h ▸ hj
    have hz : j < (A.zip B).length := by simp; omega
    simp [List.getD_eq_getElem?_getD, List.getElem?_eq_getElem hz, List.getElem?_eq_getElem hj]
  · simp [List.getD_eq_getElem?_getD, List.getElem?_eq_none (show A.length ≤ j by omega),
      List.getElem?_eq_none (show (A.zip B).length ≤ j by simp; omega)]

theorem zip_getD_snd (A B : List Nat) (h : A.length = B.length) (j : Nat) :
    ((A.zip B).getD j (0, 0)).2 = B.getD j 0 := by
  by_cases hj : j < A.length
  · have hj2 : j < B.length := h ▸ hj
    have hz : j < (A.zip B).length := by simp; omega
    simp [List.getD_eq_getElem?_getD, List.getElem?_eq_getElem hz, List.getElem?_eq_getElem hj2]
  · simp [List.getD_eq_getElem?_getD, List.getElem?_eq_none (show B.length ≤ j by omega),
      List.getElem?_eq_none (show (A.zip B).length ≤ j by simp; omega)]

theorem pieces_grid (shape : List Nat) (b : Nat) :
    (shape.map fun d => axisPieces d b).map List.length = blockGrid shape b := by
  simp [blockGrid, splitAll, axisPieces_length]

theorem blockGrid_length (shape : List Nat) (b : Nat) : (blockGrid shape b).length = shape.length := by
  simp [blockGrid, splitAll]

theorem map_fst_zipWith_pieces (b : Nat) : ∀ (shape kc : List Nat),
    (List.zipWith (fun l j => l.getD j ((0, 0) : Nat × Nat)) (shape.map fun d => axisPieces d b) kc).map (·.1) =
      List.zipWith (fun d ka => (offsets (splitSizes d b) 0).getD ka 0) shape kc
  | [], _ => by simp
  | _ :: _, [] => by simp
  | d :: ds, k :: ks => by
    simp only [List.map_cons, List.zipWith_cons_cons, map_fst_zipWith_pieces b ds ks]
    rw [show axisPieces d b = (offsets (splitSizes d b) 0).zip (splitSizes d b) from rfl,
      zip_getD_fst _ _ (offsets_length _ _)]

theorem map_snd_zipWith_pieces (b : Nat) : ∀ (shape kc : List Nat),
    (List.zipWith (fun l j => l.getD j ((0, 0) : Nat × Nat)) (shape.map fun d => axisPieces d b) kc).map (·.2) =
      List.zipWith (fun d ka => (splitSizes d b).getD ka 0) shape kc
  | [], _ => by simp
  | _ :: _, [] => by simp
  | d :: ds, k :: ks => by
    simp only [List.map_cons, List.zipWith_cons_cons, map_snd_zipWith_pieces b ds ks]
    rw [show axisPieces d b = (offsets (splitSizes d b) 0).zip (splitSizes d b) from rfl,
      zip_getD_snd _ _ (offsets_length _ _)]

theorem partition_length {α} (t : Tensor α) (b : Nat) :
    (partition t b).length = prod (blockGrid t.shape b) := by
  rw [partition_eq_boxes, List.length_map, cartP_length, pieces_grid]

/-- block number `k` of `partition t b` is the sub-tensor of `t` at `blockOffsets k` with shape `blockDims k` -/
theorem partition_getElem? {α} (t : Tensor α) (b k : Nat) (hk : k < prod (blockGrid t.shape b)) :
    ∃ blk, (partition t b)[k]? = some blk ∧ blk.shape = blockDims t.shape b k ∧
      ∀ idx : List Nat, idx.length = t.shape.length →
        blk.get idx = t.get (addOff (blockOffsets t.shape b k) idx) := by
  rw [partition_eq_boxes, List.getElem?_map,
    cartP_getElem? ((0, 0) : Nat × Nat) _ k (by rw [pieces_grid]; exact hk), pieces_grid]
  refine ⟨_, rfl, ?_⟩
  have hlen : (List.zipWith (fun l j => l.getD j ((0, 0) : Nat × Nat)) (t.shape.map fun d => axisPieces d b)
      (unravel (blockGrid t.shape b) k)).length = t.shape.length := by
    simp [unravel_length_eq, blockGrid_length]
  obtain ⟨h1, h2⟩ := sliceBox_zero t _ hlen
  refine ⟨?_, ?_⟩
  · rw [h1, map_snd_zipWith_pieces]; rfl
  · intro idx hi
    rw [h2 idx hi, map_fst_zipWith_pieces]; rfl

/-! ### the shapes of the blocks are the cartesian product of the split sizes -/

theorem cartP_map {β γ : Type} (f : β → γ) : ∀ ls : List (List β),
    (cartP ls).map (List.map f) = cartP (ls.map (List.map f))
  | [] => rfl
  | l :: ls => by
    simp only [cartP, List.map_cons, List.map_flatMap, List.flatMap_map, List.map_map, ← cartP_map f ls]
    rfl

theorem cartP_eq_cartesian : ∀ ls : List (List Nat), cartP ls = cartesian ls
  | [] => rfl
  | l :: ls => by simp only [cartP, cartesian, cartP_eq_cartesian ls]

theorem cartP_mem_length {β : Type} : ∀ (ls : List (List β)) (x : List β), x ∈ cartP ls → x.length = ls.length
  | [], x, h => by simp [cartP] at h; simp [h]
  | l :: ls, x, h => by
    simp only [cartP, List.mem_flatMap, List.mem_map] at h
    obtain ⟨a, _, y, hy, rfl⟩ := h
    simp [cartP_mem_length ls y hy]

theorem axisPieces_map_snd (d b : Nat) : (axisPieces d b).map (·.2) = splitSizes d b := by
  unfold axisPieces
  rw [List.map_snd_zip]
  rw [offsets_length]; exact Nat.le_refl _

/-- the shapes of the blocks actually produced, in order -/
theorem partition_shapes {α} (t : Tensor α) (b : Nat) :
    (partition t b).map (·.shape) = cartesian (splitAll t.shape b) := by
  rw [partition_eq_boxes, List.map_map]
  have : ∀ box ∈ cartP (t.shape.map fun d => axisPieces d b),
      ((fun u : Tensor α => u.shape) ∘ sliceBox t 0) box = box.map (·.2) := by
    intro box hb
    have hl := cartP_mem_length _ box hb
    exact (sliceBox_zero t box (by simpa using hl)).1
  rw [List.map_congr_left this, cartP_map, cartP_eq_cartesian]
  congr 1
  simp only [splitAll, List.map_map]
  apply List.map_congr_left
  intro d _
  exact axisPieces_map_snd d b


/-! ### the blocks tile the tensor -/

theorem offsets_getD_shift : ∀ (ss : List Nat) (o k : Nat), k < ss.length →
    (offsets ss o).getD k 0 = o + (offsets ss 0).getD k 0
  | [], _, _, h => by simp at h
  | s :: ss, o, 0, _ => by simp [offsets]
  | s :: ss, o, k + 1, h => by
    simp only [offsets, List.getD_cons_succ, Nat.zero_add]
    have hk : k < ss.length := by simpa using h
    rw [offsets_getD_shift ss (o + s) k hk, offsets_getD_shift ss s k hk]
    omega

theorem locate_unique : ∀ (sizes : List Nat) (k j : Nat), k < sizes.length → j < sizes.getD k 0 →
    locate sizes ((offsets sizes 0).getD k 0 + j) = (k, j)
  | [], _, _, h, _ => by simp at h
  | s :: ss, 0, j, _, hj => by
    have : j < s := by simpa using hj
    simp [locate, offsets, this]
  | s :: ss, k + 1, j, h, hj => by
    have hk : k < ss.length := by simpa using h
    have hj' : j < ss.getD k 0 := by simpa using hj
    simp only [offsets, List.getD_cons_succ, Nat.zero_add]
    rw [offsets_getD_shift ss s k hk]
    unfold locate
    rw [if_neg (by omega)]
    have e : s + (offsets ss 0).getD k 0 + j - s = (offsets ss 0).getD k 0 + j := by omega
    rw [e, locate_unique ss k j hk hj']

theorem piece_lt_sum : ∀ (sizes : List Nat) (k j : Nat), k < sizes.length → j < sizes.getD k 0 →
    (offsets sizes 0).getD k 0 + j < sizes.sum
  | [], _, _, h, _ => by simp at h
  | s :: ss, 0, j, _, hj => by
    have : j < s := by simpa using hj
    simp [offsets]; omega
  | s :: ss, k + 1, j, h, hj => by
    have hk : k < ss.length := by simpa using h
    have hj' : j < ss.getD k 0 := by simpa using hj
    simp only [offsets, List.getD_cons_succ, Nat.zero_add, List.sum_cons]
    rw [offsets_getD_shift ss s k hk]
    have := piece_lt_sum ss k j hk hj'
    omega

theorem blockGrid_cons (d : Nat) (ds : List Nat) (b : Nat) :
    blockGrid (d :: ds) b = (splitSizes d b).length :: blockGrid ds b := rfl

/-- every in-bounds entry has a block and a place in it -/
theorem tile_exists (b : Nat) : ∀ (shape idx : List Nat), inBounds shape idx →
    inBounds (blockGrid shape b) ((List.zipWith (fun d i => locate (splitSizes d b) i) shape idx).map (·.1)) ∧
    inBounds (List.zipWith (fun d ka => (splitSizes d b).getD ka 0) shape
        ((List.zipWith (fun d i => locate (splitSizes d b) i) shape idx).map (·.1)))
      ((List.zipWith (fun d i => locate (splitSizes d b) i) shape idx).map (·.2)) ∧
    addOff (List.zipWith (fun d ka => (offsets (splitSizes d b) 0).getD ka 0) shape
        ((List.zipWith (fun d i => locate (splitSizes d b) i) shape idx).map (·.1)))
      ((List.zipWith (fun d i => locate (splitSizes d b) i) shape idx).map (·.2)) = idx
  | [], [], _ => by simp [inBounds, blockGrid, splitAll, addOff]
  | [], _ :: _, h => by simp [inBounds] at h
  | _ :: _, [], h => by simp [inBounds] at h
  | d :: ds, i :: is, h => by
    simp only [inBounds] at h
    obtain ⟨ih1, ih2, ih3⟩ := tile_exists b ds is h.2
    obtain ⟨l1, l2, l3⟩ := locate_spec (splitSizes d b) 0 i (by rw [splitSizes_sum]; exact h.1)
    simp only [List.zipWith_cons_cons, List.map_cons, blockGrid_cons, inBounds, addOff]
    refine ⟨⟨l1, ih1⟩, ⟨l2, ih2⟩, ?_⟩
    simp only [addOff] at ih3
    rw [ih3]
    simp only [Nat.zero_add] at l3
    rw [l3]

/-- … and only one -/
theorem tile_unique (b : Nat) : ∀ (shape kc j : List Nat), inBounds (blockGrid shape b) kc →
    inBounds (List.zipWith (fun d ka => (splitSizes d b).getD ka 0) shape kc) j →
    (List.zipWith (fun d i => locate (splitSizes d b) i) shape
        (addOff (List.zipWith (fun d ka => (offsets (splitSizes d b) 0).getD ka 0) shape kc) j)).map (·.1) = kc ∧
    (List.zipWith (fun d i => locate (splitSizes d b) i) shape
        (addOff (List.zipWith (fun d ka => (offsets (splitSizes d b) 0).getD ka 0) shape kc) j)).map (·.2) = j ∧
    inBounds shape (addOff (List.zipWith (fun d ka => (offsets (splitSizes d b) 0).getD ka 0) shape kc) j)
  | [], [], [], _, _ => by simp [addOff, inBounds]
  | [], [], _ :: _, _, h => by simp [inBounds] at h
  | [], _ :: _, _, h, _ => by simp [blockGrid, splitAll, inBounds] at h
  | _ :: _, [], _, h, _ => by simp [blockGrid_cons, inBounds] at h
  | _ :: _, _ :: _, [], _, h => by simp [inBounds] at h
  | d :: ds, k :: ks, j :: js, h1, h2 => by
    simp only [blockGrid_cons, inBounds, List.zipWith_cons_cons] at h1 h2
    obtain ⟨i1, i2, i3⟩ := tile_unique b ds ks js h1.2 h2.2
    have hl := locate_unique (splitSizes d b) k j h1.1 h2.1
    have hlt := piece_lt_sum (splitSizes d b) k j h1.1 h2.1
    rw [splitSizes_sum] at hlt
    simp only [addOff] at i1 i2 i3
    simp only [List.zipWith_cons_cons, addOff, List.map_cons, hl, i1, i2, inBounds]
    exact ⟨trivial, trivial, hlt, i3⟩

/-- **tiling**: every in-bounds entry of the tensor lies in exactly one block of the partition -/
theorem locateBlock_spec (shape : List Nat) (b : Nat) (idx : List Nat) (hi : inBounds shape idx) :
    (locateBlock shape b idx).1 < prod (blockGrid shape b) ∧
    inBounds (blockDims shape b (locateBlock shape b idx).1) (locateBlock shape b idx).2 ∧
    addOff (blockOffsets shape b (locateBlock shape b idx).1) (locateBlock shape b idx).2 = idx ∧
    ∀ k j, k < prod (blockGrid shape b) → inBounds (blockDims shape b k) j →
      addOff (blockOffsets shape b k) j = idx → k = (locateBlock shape b idx).1 ∧ j = (locateBlock shape b idx).2 := by
  obtain ⟨e1, e2, e3⟩ := tile_exists b shape idx hi
  have hc : blockCoords shape b (locateBlock shape b idx).1 =
      (List.zipWith (fun d i => locate (splitSizes d b) i) shape idx).map (·.1) := by
    simp only [blockCoords, locateBlock]
    exact unravel_ravel _ _ e1
  refine ⟨ravel_lt _ _ e1, ?_, ?_, ?_⟩
  · simp only [blockDims, hc]; exact e2
  · simp only [blockOffsets, hc]; exact e3
  · intro k j hk hj hidx
    have hkc := unravel_inBounds (blockGrid shape b) k hk
    obtain ⟨u1, u2, _⟩ := tile_unique b shape (blockCoords shape b k) j hkc hj
    have hidx' : addOff (List.zipWith (fun d ka => (offsets (splitSizes d b) 0).getD ka 0) shape
        (blockCoords shape b k)) j = idx := hidx
    rw [hidx'] at u1 u2
    refine ⟨?_, u2.symm⟩
    simp only [locateBlock, u1, blockCoords]
    exact (ravel_unravel _ _ hk).symm

/-- the entries of block `k` are entries of the tensor -/
theorem block_entry_inBounds (shape : List Nat) (b k : Nat) (j : List Nat) (hk : k < prod (blockGrid shape b))
    (hj : inBounds (blockDims shape b k) j) : inBounds shape (addOff (blockOffsets shape b k) j) :=
  (tile_unique b shape (blockCoords shape b k) j (unravel_inBounds _ _ hk) hj).2.2


/-! ### merging anything entry-wise equal to a partition -/

/-- Merging any list of blocks that agrees block by block (shape, in-bounds entries) with the partition of `us`
gives back `us`. -/
theorem mergeAxesRev_of_eqv {α} [Inhabited α] (sz : Nat → List Nat) : ∀ (axes : List Nat)
    (us R : List (Tensor α)), axes.Nodup → (∀ a ∈ axes, sz a ≠ []) →
    (∀ u ∈ us, ∀ a ∈ axes, a < u.shape.length ∧ (sz a).sum = u.shape.getD a 0) →
    List.Forall₂ Tensor.Eqv R (partAxes sz axes us) →
    List.Forall₂ Tensor.Eqv (mergeAxesRev sz axes R) us
  | [], us, R, _, _, _, h => by simpa [mergeAxesRev, partAxes] using h
  | a :: rest, us, R, hnd, hne, hus, h => by
    rw [partAxes_cons] at h
    rw [mergeAxesRev_cons]
    have hnd' := List.nodup_cons.mp hnd
    apply mergeStep_flatMap_split sz a us _ (hne a (by simp)) (fun u hu => hus u hu a (by simp))
    apply mergeAxesRev_of_eqv sz rest _ R hnd'.2 (fun c hc => hne c (by simp [hc])) _ h
    intro v hv c hc
    simp only [List.mem_flatMap] at hv
    obtain ⟨u, hu, hvu⟩ := hv
    obtain ⟨off, size, rfl⟩ := mem_split u v a (sz a) hvu
    have hca : c ≠ a := fun e => hnd'.1 (e ▸ hc)
    have := hus u hu c (by simp [hc])
    refine ⟨by simpa [Tensor.slice] using this.1, ?_⟩
    rw [slice_shape_getD u a c off size hca]; exact this.2

/-- `merge_partitions` of blocks that are entry-wise equal to the blocks of `partition t` succeeds and is `t`. -/
theorem mergePartitions_of_eqv {α} [Inhabited α] (t : Tensor α) (b : Nat) (parts : List (Tensor α))
    (h : List.Forall₂ Tensor.Eqv parts (partition t b)) :
    ∃ u, mergePartitions t.shape b parts = some u ∧ u.Eqv t := by
  have h' := mergeAxesRev_of_eqv (fun i => splitSizes (t.shape.getD i 0) b) (splitAxes t.shape b) [t] parts
    (splitAxes_nodup _ _) (fun a _ => splitSizes_ne_nil _ _)
    (by
      intro u hu a ha
      simp only [List.mem_singleton] at hu
      subst hu
      exact ⟨splitAxes_lt _ _ a ha, splitSizes_sum _ _⟩)
    (by rw [← partition_eq_partAxes]; exact h)
  rw [mergePartitions_eq]
  generalize mergeAxesRev (fun i => splitSizes (t.shape.getD i 0) b) (splitAxes t.shape b) parts = res at h'
  cases h' with
  | cons hab htl =>
    cases htl
    exact ⟨_, rfl, hab⟩

/-- `partition` respects entry-wise equality -/
theorem partition_congr {α} (t u : Tensor α) (b : Nat) (h : t.Eqv u) :
    List.Forall₂ Tensor.Eqv (partition t b) (partition u b) := by
  rw [List.forall₂_iff_get]
  have hl : (partition t b).length = (partition u b).length := by
    rw [partition_length, partition_length, h.1]
  refine ⟨hl, ?_⟩
  intro k hk1 hk2
  have hk : k < prod (blockGrid t.shape b) := by rw [← partition_length]; exact hk1
  obtain ⟨b1, e1, s1, g1⟩ := partition_getElem? t b k hk
  obtain ⟨b2, e2, s2, g2⟩ := partition_getElem? u b k (h.1 ▸ hk)
  rw [List.getElem?_eq_getElem hk1] at e1
  rw [List.getElem?_eq_getElem hk2] at e2
  simp only [Option.some.injEq] at e1 e2
  simp only [List.get_eq_getElem, e1, e2]
  refine ⟨by rw [s1, s2, h.1], ?_⟩
  intro idx hi
  rw [s1] at hi
  have hlen : idx.length = t.shape.length := by
    rw [inBounds_length hi]; simp [blockDims, blockCoords, unravel_length_eq, blockGrid_length]
  rw [g1 idx hlen, g2 idx (h.1 ▸ hlen), ← h.1]
  exact h.2 _ (block_entry_inBounds t.shape b k idx hk hi)


/-! ### partition after merge -/

theorem cartesian_getElem? (shape : List Nat) (b k : Nat) (hk : k < prod (blockGrid shape b)) :
    (cartesian (splitAll shape b))[k]? = some (blockDims shape b k) := by
  rw [← cartP_eq_cartesian, cartP_getElem? 0 _ k hk]
  simp only [blockDims, blockCoords, splitAll, List.zipWith_map_left]
  rfl

theorem cartesian_length (shape : List Nat) (b : Nat) :
    (cartesian (splitAll shape b)).length = prod (blockGrid shape b) := by
  rw [← cartP_eq_cartesian, cartP_length]; rfl

theorem forall₂_eqv_symm {α} {l1 l2 : List (Tensor α)} (h : List.Forall₂ Tensor.Eqv l1 l2) :
    List.Forall₂ Tensor.Eqv l2 l1 := by
  induction h with
  | nil => exact .nil
  | cons h _ ih => exact .cons h.symm ih

theorem forall₂_eqv_trans {α} {l1 l2 l3 : List (Tensor α)} (h1 : List.Forall₂ Tensor.Eqv l1 l2)
    (h2 : List.Forall₂ Tensor.Eqv l2 l3) : List.Forall₂ Tensor.Eqv l1 l3 := by
  induction h1 generalizing l3 with
  | nil => cases h2; exact .nil
  | cons h _ ih =>
    cases h2 with
    | cons h' t' => exact .cons (h.trans h') (ih t')

/-- the tensor assembled from a list of well-shaped blocks, entry by entry -/
def assembleParts {α} [Inhabited α] (shape : List Nat) (b : Nat) (parts : List (Tensor α)) : Tensor α :=
  { shape := shape
    get := fun idx => (parts.getD (locateBlock shape b idx).1 ⟨[], fun _ => default⟩).get (locateBlock shape b idx).2 }

theorem partition_assembleParts {α} [Inhabited α] (shape : List Nat) (b : Nat) (parts : List (Tensor α))
    (hs : parts.map (·.shape) = cartesian (splitAll shape b)) :
    List.Forall₂ Tensor.Eqv parts (partition (assembleParts shape b parts) b) := by
  have hlen : parts.length = prod (blockGrid shape b) := by
    rw [← cartesian_length, ← hs, List.length_map]
  rw [List.forall₂_iff_get]
  refine ⟨by rw [partition_length]; exact hlen, ?_⟩
  intro k hk1 hk2
  have hk : k < prod (blockGrid shape b) := hlen ▸ hk1
  obtain ⟨blk, e1, s1, g1⟩ := partition_getElem? (assembleParts shape b parts) b k hk
  rw [List.getElem?_eq_getElem hk2] at e1
  simp only [Option.some.injEq] at e1
  simp only [show (assembleParts shape b parts).shape = shape from rfl] at s1 g1
  have hsk : parts[k].shape = blockDims shape b k := by
    have := congrArg (fun l => l[k]?) hs
    simp only [List.getElem?_map, List.getElem?_eq_getElem hk1, Option.map_some,
      cartesian_getElem? shape b k hk, Option.some.injEq] at this
    exact this
  simp only [List.get_eq_getElem, e1]
  refine ⟨by rw [hsk, s1], ?_⟩
  intro idx hi
  rw [hsk] at hi
  have hl : idx.length = shape.length := by
    rw [inBounds_length hi]; simp [blockDims, blockCoords, unravel_length_eq, blockGrid_length]
  rw [g1 idx hl]
  have hin := block_entry_inBounds shape b k idx hk hi
  obtain ⟨_, _, _, huniq⟩ := locateBlock_spec shape b _ hin
  obtain ⟨hk', hj'⟩ := huniq k idx hk hi rfl
  show parts[k].get idx = (parts.getD (locateBlock shape b (addOff (blockOffsets shape b k) idx)).1 _).get
    (locateBlock shape b (addOff (blockOffsets shape b k) idx)).2
  rw [← hk', ← hj', List.getD_eq_getElem?_getD, List.getElem?_eq_getElem hk1]
  rfl

/-- **`partition ∘ merge_partitions = id`** on any list of blocks with the shapes the partitioner announces -/
theorem partition_mergePartitions {α} [Inhabited α] (shape : List Nat) (b : Nat) (parts : List (Tensor α))
    (hs : parts.map (·.shape) = cartesian (splitAll shape b)) :
    ∃ u, mergePartitions shape b parts = some u ∧ u.shape = shape ∧
      List.Forall₂ Tensor.Eqv (partition u b) parts := by
  have h1 := partition_assembleParts shape b parts hs
  obtain ⟨u, hu, huv⟩ := mergePartitions_of_eqv (assembleParts shape b parts) b parts h1
  refine ⟨u, hu, huv.1, ?_⟩
  exact forall₂_eqv_trans (partition_congr u _ b huv) (forall₂_eqv_symm h1)


/-! ### preconditioner shapes vs blocks produced -/

/-- `shapes_for_preconditioners` lists, block by block in partition order, the preconditioned dims of the
blocks actually produced -/
theorem shapesForPreconditioners_eq_blocks {α} (pt : PType) (r : Nat) (t : Tensor α) (b : Nat) :
    shapesForPreconditioners pt r t.shape b =
      (partition t b).flatMap fun blk => (blockPrecondDims pt blk.shape).map fun d => (d, precondDim r d) := by
  unfold shapesForPreconditioners
  rw [← partition_shapes t b, List.flatMap_map]

/-- the entries of `s` whose flag is set -/
def selectDims (s : List Nat) (flags : List Bool) : List Nat := ((s.zip flags).filter (·.2)).map (·.1)

theorem selectDims_append (A B : List Nat) (F G : List Bool) (h : A.length = F.length) :
    selectDims (A ++ B) (F ++ G) = selectDims A F ++ selectDims B G := by
  simp [selectDims, List.zip_append h]

theorem selectDims_true : ∀ A : List Nat, selectDims A (List.replicate A.length true) = A
  | [] => rfl
  | a :: A => by
    have := selectDims_true A
    simp only [selectDims] at this ⊢
    simp [List.replicate_succ, this]

theorem selectDims_false : ∀ A : List Nat, selectDims A (List.replicate A.length false) = []
  | [] => rfl
  | a :: A => by
    have := selectDims_false A
    simp only [selectDims] at this ⊢
    simp [List.replicate_succ, this]

theorem selectDims_input (A : List Nat) (x : Nat) :
    selectDims (A ++ [x]) (List.replicate A.length true ++ [false]) = A := by
  rw [selectDims_append _ _ _ _ (by simp), selectDims_true]; simp [selectDims]

theorem selectDims_output (A : List Nat) (x : Nat) :
    selectDims (A ++ [x]) (List.replicate A.length false ++ [true]) = [x] := by
  rw [selectDims_append _ _ _ _ (by simp), selectDims_false]; simp [selectDims]

/-- the preconditioned dims of a block are its dims at the axes `should_precondition_dims` flags -/
theorem blockPrecondDims_eq_select (pt : PType) (s : List Nat) :
    blockPrecondDims pt s = selectDims s (shouldPreconditionDims pt s.length) := by
  cases pt
  · simp [blockPrecondDims, shouldPreconditionDims, selectDims_true]
  · simp only [blockPrecondDims, shouldPreconditionDims]
    split
    · rw [selectDims_true]
    · rename_i h
      have hne : s ≠ [] := by intro h0; subst h0; simp at h
      obtain ⟨A, x, rfl⟩ : ∃ A x, s = A ++ [x] := ⟨_, _, (List.dropLast_append_getLast hne).symm⟩
      have e : (A ++ [x]).length - 1 = A.length := by simp
      rw [e, selectDims_input, List.take_left' rfl]
  · simp only [blockPrecondDims, shouldPreconditionDims]
    split
    · rw [selectDims_true]
    · rename_i h
      have hne : s ≠ [] := by intro h0; subst h0; simp at h
      obtain ⟨A, x, rfl⟩ : ∃ A x, s = A ++ [x] := ⟨_, _, (List.dropLast_append_getLast hne).symm⟩
      have e : (A ++ [x]).length - 1 = A.length := by simp
      rw [e, selectDims_output, List.drop_left' rfl]

theorem blockPrecondDims_length (pt : PType) (s : List Nat) :
    (blockPrecondDims pt s).length = numPreconditioned pt s.length := by
  unfold blockPrecondDims numPreconditioned shouldPreconditionDims
  cases pt <;> simp
  · split <;> simp
  · split <;> simp <;> omega

theorem partition_shape_length {α} (t : Tensor α) (b : Nat) :
    ∀ blk ∈ partition t b, blk.shape.length = t.shape.length := by
  intro blk hb
  have : blk.shape ∈ (partition t b).map (·.shape) := List.mem_map_of_mem hb
  rw [partition_shapes, ← cartP_eq_cartesian] at this
  rw [cartP_mem_length _ _ this]; simp [splitAll]

/-- number of preconditioners = number of blocks × number of preconditioned axes -/
theorem shapesForPreconditioners_length {α} (pt : PType) (r : Nat) (t : Tensor α) (b : Nat) :
    (shapesForPreconditioners pt r t.shape b).length =
      (partition t b).length * numPreconditioned pt t.shape.length := by
  rw [shapesForPreconditioners_eq_blocks]
  have : ∀ l : List (Tensor α), (∀ blk ∈ l, blk.shape.length = t.shape.length) →
      (l.flatMap fun blk => (blockPrecondDims pt blk.shape).map fun d => (d, precondDim r d)).length =
        l.length * numPreconditioned pt t.shape.length := by
    intro l
    induction l with
    | nil => simp
    | cons x l ih =>
      intro h
      rw [List.flatMap_cons, List.length_append, ih (fun y hy => h y (by simp [hy])), List.length_map,
        blockPrecondDims_length, h x (by simp), List.length_cons, Nat.add_mul, Nat.one_mul, Nat.add_comm]
  exact this _ (partition_shape_length t b)

end PrecondVerif.Shapes
