/-
Lemmas for `Props/Compose.lean`: the per-property theorems chained together.

  * C04's automaton instantiated with C03's gate (`gateKernels`): its gate is `Gate.select`, one `update` call is one
    `Gate.slotStep`; the invariant "stored = initial or accepted root of the statistics current at a refresh step" is
    obtained from `C04.refresh_uses_current_stats`, `C04.precond_change_only_on_multiples` and `C03.gate_spec`.
  * C01's Newton routine as the root: `C01.newton_error_honest` / `newton_padding_zero` / `newton_symmetric` on the
    accepted candidates.
  * one parameter = a list of slot automata: projection of the parameter's run onto a slot, its statistics lists are
    C02's `specStats` / `lowStats`.
  * C04's Sketchy automaton with C09's `_update_axis`: `C09.sketchy_update_axis_bracket` folded over a cadenced run.
  * the tree-wide padded batch on `D` devices: `C13.pmap_result_independent_of_D` / `sharded_compute_eq` turn it into
    C08's `treeRootsG`; per-leaf views of the global array are `regroup` slices.
-/
import PrecondVerif.Model.Compose
import PrecondVerif.Props.C01
import PrecondVerif.Props.C02
import PrecondVerif.Props.C03
import PrecondVerif.Props.C04
import PrecondVerif.Props.C08
import PrecondVerif.Props.C09
import PrecondVerif.Props.C13

set_option linter.unusedSectionVars false

namespace PrecondVerif.Compose
open PrecondVerif.InvRoot PrecondVerif.Gate PrecondVerif.Schedule PrecondVerif.DShampoo PrecondVerif.Shapes
open PrecondVerif.Graft

section Slot
variable {σ π γ φ δ m α : Type} [Add α] [Mul α] [Sub α] [OfNat α 0] [OfNat α 1]

/-- C04's gate on `gateKernels` is C03's `select` -/
theorem gate_eq_select (thr : XF) (statsUpd : σ → γ → σ) (root : σ → π → φ → π × XF) (junk : σ → π)
    (graftUpd : δ → γ → Nat → δ × α × α) (shampooUpd : m → π → γ → Nat → m × α × α) (finish : α → α → Nat → α)
    (old : π) (cand : π × XF) :
    Schedule.gate (gateKernels thr statsUpd root junk graftUpd shampooUpd finish) old cand
      = select cand.2 thr cand.1 old := rfl

theorem gateKernels_bad_fail {thr : XF} (hthr : thr.isNaN = false) (statsUpd : σ → γ → σ) (root : σ → π → φ → π × XF)
    (junk : σ → π) (graftUpd : δ → γ → Nat → δ × α × α) (shampooUpd : m → π → γ → Nat → m × α × α)
    (finish : α → α → Nat → α) :
    (gateKernels thr statsUpd root junk graftUpd shampooUpd finish).bad
      (gateKernels thr statsUpd root junk graftUpd shampooUpd finish).failMetrics = true :=
  skip_self hthr

/-- one `update` call of C04's automaton with C03's gate IS one step of C03's slot machine -/
theorem dsStep_is_slotStep (thr : XF) (statsUpd : σ → γ → σ) (root : σ → π → φ → π × XF) (junk : σ → π)
    (graftUpd : δ → γ → Nat → δ × α × α) (shampooUpd : m → π → γ → Nat → m × α × α) (finish : α → α → Nat → α)
    (cfg : DSCfg) (s : DSState σ π XF δ m) (i : DSInp γ φ) :
    let K := gateKernels thr statsUpd root junk graftUpd shampooUpd finish
    slotOf (dsStep K cfg s i).1 =
      slotStep select thr (cfg.interval s.count) s.count (slotOf s)
        (slotInput root junk (dsStats' K cfg s i.grad) i.fault s.precond) := by
  intro K
  simp only [slotOf, dsStep, slotStep, slotInput, candidate, efficientCond, performStep, dsCandidate, dsPerformPrecond,
    Schedule.gate, select, K, gateKernels]


/-- generic form of (1) -/
theorem stored_is_initial_or_accepted (thr : XF) (hthr : thr.isNaN = false) (statsUpd : σ → γ → σ)
    (root : σ → π → φ → π × XF) (junk : σ → π)
    (graftUpd : δ → γ → Nat → δ × α × α) (shampooUpd : m → π → γ → Nat → m × α × α) (finish : α → α → Nat → α)
    (cfg : DSCfg) (s0 : DSState σ π XF δ m) (is : List (DSInp γ φ)) (k : Nat) (hk : k ≤ is.length) :
    let K := gateKernels thr statsUpd root junk graftUpd shampooUpd finish
    let S := stateAt (dsStep K cfg) s0 is
    (S k).precond = s0.precond ∨
      ∃ r, ∃ hr : r < k, (s0.count + r) % cfg.interval (s0.count + r) = 0 ∧
        (S k).precond = (root (S (r + 1)).stats (S r).precond (is[r]'(by omega)).fault).1 ∧
        (root (S (r + 1)).stats (S r).precond (is[r]'(by omega)).fault).2.isNaN = false ∧
        (root (S (r + 1)).stats (S r).precond (is[r]'(by omega)).fault).2.lt thr = true := by
  intro K S
  induction k with
  | zero => left; exact congrArg (·.precond) (stateAt_zero _ s0 is)
  | succ k ih =>
    have hk' : k < is.length := by omega
    have weaken : ((S k).precond = s0.precond ∨
      ∃ r, ∃ hr : r < k, (s0.count + r) % cfg.interval (s0.count + r) = 0 ∧
        (S k).precond = (root (S (r + 1)).stats (S r).precond (is[r]'(by omega)).fault).1 ∧
        (root (S (r + 1)).stats (S r).precond (is[r]'(by omega)).fault).2.isNaN = false ∧
        (root (S (r + 1)).stats (S r).precond (is[r]'(by omega)).fault).2.lt thr = true) →
      (S (k + 1)).precond = (S k).precond →
      ((S (k + 1)).precond = s0.precond ∨
      ∃ r, ∃ hr : r < k + 1, (s0.count + r) % cfg.interval (s0.count + r) = 0 ∧
        (S (k + 1)).precond = (root (S (r + 1)).stats (S r).precond (is[r]'(by omega)).fault).1 ∧
        (root (S (r + 1)).stats (S r).precond (is[r]'(by omega)).fault).2.isNaN = false ∧
        (root (S (r + 1)).stats (S r).precond (is[r]'(by omega)).fault).2.lt thr = true) := by
      intro h e
      rcases h with h | ⟨r, hr, h1, h2, h3, h4⟩
      · left; rw [e, h]
      · right; exact ⟨r, by omega, h1, by rw [e]; exact h2, h3, h4⟩
    by_cases hm : (s0.count + k) % cfg.interval (s0.count + k) = 0
    · have href := (C04.refresh_uses_current_stats K cfg s0 is k hk' hm).1
      rcases C03.gate_spec (root (S (k + 1)).stats (S k).precond is[k].fault).2 thr hthr
          (root (S (k + 1)).stats (S k).precond is[k].fault).1 (S k).precond with h | ⟨h, h2, h3⟩
      · exact weaken (ih (by omega)) (href.trans h)
      · right
        exact ⟨k, Nat.lt_succ_self k, hm, href.trans h, h2, h3⟩
    · exact weaken (ih (by omega))
        (C04.precond_change_only_on_multiples K cfg (skip_self hthr) s0 is k hk' hm)

end Slot

section Slot2
variable {σ π γ φ δ m α : Type} [Add α] [Mul α] [Sub α] [OfNat α 0] [OfNat α 1]

/-- with a fixed refresh interval, the (preconditioner, error) trajectory of C04's automaton is a run of C03's slot machine -/
theorem run_is_slotRun (thr : XF) (statsUpd : σ → γ → σ) (root : σ → π → φ → π × XF) (junk : σ → π)
    (graftUpd : δ → γ → Nat → δ × α × α) (shampooUpd : m → π → γ → Nat → m × α × α) (finish : α → α → Nat → α)
    (cfg : DSCfg) (itv : Nat) (hitv : cfg.interval = fun _ => itv) :
    ∀ (is : List (DSInp γ φ)) (s0 : DSState σ π XF δ m),
    slotOf (run (dsStep (gateKernels thr statsUpd root junk graftUpd shampooUpd finish) cfg) s0 is) =
      slotRun select thr itv s0.count (slotOf s0)
        (slotInputs (gateKernels thr statsUpd root junk graftUpd shampooUpd finish) cfg root junk s0 is)
  | [], _ => rfl
  | i :: is, s0 => by
    rw [run_cons, run_is_slotRun thr statsUpd root junk graftUpd shampooUpd finish cfg itv hitv is]
    show slotRun select thr itv (s0.count + 1) _ _ = slotRun select thr itv (s0.count + 1) _ _
    rw [dsStep_is_slotStep, hitv]

/-- C03's `slots_finite_warm_start` through C04's schedule -/
theorem stored_good (thr : XF) (hthr : thr.isNaN = false) (statsUpd : σ → γ → σ)
    (root : σ → π → φ → π × XF) (junk : σ → π)
    (graftUpd : δ → γ → Nat → δ × α × α) (shampooUpd : m → π → γ → Nat → m × α × α) (finish : α → α → Nat → α)
    (cfg : DSCfg) (s0 : DSState σ π XF δ m) (is : List (DSInp γ φ)) (Good : π → Prop) (h0 : Good s0.precond)
    (hroot : ∀ st prev f, Good prev → (root st prev f).2.isNaN = false → (root st prev f).2.lt thr = true →
      Good (root st prev f).1) (k : Nat) (hk : k ≤ is.length) :
    Good (stateAt (dsStep (gateKernels thr statsUpd root junk graftUpd shampooUpd finish) cfg) s0 is k).precond := by
  induction k using Nat.strong_induction_on with
  | _ k ih =>
    rcases stored_is_initial_or_accepted thr hthr statsUpd root junk graftUpd shampooUpd finish cfg s0 is k hk
      with h | ⟨r, hr, _, h2, h3, h4⟩
    · rw [h]; exact h0
    · rw [h2]; exact hroot _ _ _ (ih r hr (by omega)) h3 h4

/-- an invariant of the statistics update holds for the statistics at every time -/
theorem stats_invariant (K : DSKernels σ π XF γ φ δ m α) (cfg : DSCfg) (s0 : DSState σ π XF δ m)
    (is : List (DSInp γ φ)) (I : σ → Prop) (h0 : I s0.stats) (hupd : ∀ st g, I st → I (K.statsUpd st g))
    (k : Nat) (hk : k ≤ is.length) : I (stateAt (dsStep K cfg) s0 is k).stats := by
  induction k with
  | zero => rw [stateAt_zero]; exact h0
  | succ k ih =>
    rw [stateAt_succ _ s0 is k (by omega)]
    show I (dsStats' K cfg _ _)
    unfold dsStats'
    split
    · exact hupd _ _ (ih (by omega))
    · exact ih (by omega)

end Slot2

theorem xf_fin_lt (e t : Rat) : (XF.fin e).lt (XF.fin t) = true ↔ e < t := by
  simp [XF.lt]


section Newton
variable {α : Type} [Field α] [LinearOrder α] [IsStrictOrderedRing α] {n : Nat}
variable {γ δ m β : Type} [Add β] [Mul β] [Sub β] [OfNat β 0] [OfNat β 1]

/-- the hypotheses of C01's Newton theorems on the constants and scalar kernels -/
structure NewtonOK (N : NewtonCfg α) : Prop where
  hr : 1 < N.c.rmax
  htol : 0 ≤ N.c.tol
  hnt : 1 ≤ N.c.numTries
  hp : 0 ≤ N.pα
  hroot : ∀ z, 0 ≤ z → N.rootp z ^ N.p = z
  hsqrt : ∀ x, 0 ≤ N.sqrt x
  hcast : ∀ x, N.cast32 x = x

theorem newtonOut_honest (N : NewtonCfg α) (hN : NewtonOK N) (s : Nat) (hs : s ≠ 0) (A : Mat α n n) :
    1 ≤ (newtonOut N s A).retries ∧
    ∀ i j, |((Matrix.of (newtonOut N s A).x) ^ N.p *
        dampedM s A (newtonRidge N s A * 10 ^ ((newtonOut N s A).retries - 1)) - Es α n s) i j| ≤ (newtonOut N s A).err := by
  have h := C01.newton_error_honest s hs N.c N.p N.pα N.alpha N.sqrt N.rootp N.cast32 N.thousand N.epsFloor N.eps
    (N.maxEvOf n s A) A hN.hr hN.htol hN.hnt hN.hp hN.hroot hN.hsqrt hN.hcast
  exact ⟨h.1, h.2.1⟩

theorem stored_newton (N : NewtonCfg α) (hN : NewtonOK N) (rep : α → XF) (s : Nat) (hs : s ≠ 0)
    (thr : XF) (hthr : thr.isNaN = false) (statsUpd : Mat α n n → γ → Mat α n n)
    (graftUpd : δ → γ → Nat → δ × β × β) (shampooUpd : m → Mat α n n → γ → Nat → m × β × β) (finish : β → β → Nat → β)
    (cfg : DSCfg) (s0 : DSState (Mat α n n) (Mat α n n) XF δ m) (is : List (DSInp γ Unit)) (k : Nat)
    (hk : k ≤ is.length) :
    let K := gateKernels thr statsUpd (newtonSlotRoot N rep s) id graftUpd shampooUpd finish
    let S := stateAt (dsStep K cfg) s0 is
    (S k).precond = s0.precond ∨
      ∃ r, r < k ∧ (s0.count + r) % cfg.interval (s0.count + r) = 0 ∧
        (S k).precond = (newtonOut N s (S (r + 1)).stats).x ∧
        (rep (newtonOut N s (S (r + 1)).stats).err).isNaN = false ∧
        (rep (newtonOut N s (S (r + 1)).stats).err).lt thr = true ∧
        1 ≤ (newtonOut N s (S (r + 1)).stats).retries ∧
        ∀ i j, |((Matrix.of (newtonOut N s (S (r + 1)).stats).x) ^ N.p *
            dampedM s (S (r + 1)).stats
              (newtonRidge N s (S (r + 1)).stats * 10 ^ ((newtonOut N s (S (r + 1)).stats).retries - 1))
            - Es α n s) i j| ≤ (newtonOut N s (S (r + 1)).stats).err := by
  intro K S
  rcases stored_is_initial_or_accepted thr hthr statsUpd (newtonSlotRoot N rep s) id graftUpd shampooUpd finish cfg s0 is k hk
    with h | ⟨r, hr, h1, h2, h3, h4⟩
  · exact Or.inl h
  · right
    obtain ⟨g1, g2⟩ := newtonOut_honest N hN s hs (S (r + 1)).stats
    exact ⟨r, hr, h1, h2, h3, h4, g1, g2⟩

end Newton

section Param
variable {α : Type} [Field α] [LinearOrder α] [IsStrictOrderedRing α] [Inhabited α]

abbrev SlotK (α : Type) := Nat → DSKernels (Mx α) (Mx α) XF (List α) Unit Unit Unit Nat

theorem slotsStep_getElem? (mk : SlotK α) (cfg : DSCfg) (slots : List (SlotState α)) (g : List α) (i : Nat) :
    (slotsStep mk cfg slots g)[i]? = slots[i]?.map fun sl => (dsStep (mk i) cfg sl ⟨g, ()⟩).1 := by
  unfold slotsStep
  rw [List.getElem?_mapIdx]

theorem slotsStep_length (mk : SlotK α) (cfg : DSCfg) (slots : List (SlotState α)) (g : List α) :
    (slotsStep mk cfg slots g).length = slots.length := by
  unfold slotsStep; rw [List.length_mapIdx]

/-- slot `i` of the parameter's run is the run of slot `i`'s own automaton -/
theorem paramRun_slot (upd : Nat → List α → List α → PState α → List (Mx α) → List (Mx α) → Option (TOut α))
    (mk : SlotK α) (cfg : DSCfg) (i : Nat) : ∀ (hist : List (List α × List α)) (s0 : ParamState α),
    (run (paramStepWith upd mk cfg) s0 hist).slots[i]? =
      s0.slots[i]?.map fun sl => run (dsStep (mk i) cfg) sl (hist.map fun x => (⟨x.1, ()⟩ : DSInp (List α) Unit))
  | [], s0 => by simp [run]
  | x :: hist, s0 => by
    rw [run_cons, List.map_cons, paramRun_slot upd mk cfg i hist]
    show (slotsStep mk cfg s0.slots x.1)[i]?.map _ = _
    rw [slotsStep_getElem?]
    cases s0.slots[i]? <;> simp [run_cons]

theorem paramStateAt_slot (upd : Nat → List α → List α → PState α → List (Mx α) → List (Mx α) → Option (TOut α))
    (mk : SlotK α) (cfg : DSCfg) (i : Nat) (hist : List (List α × List α)) (s0 : ParamState α) (k : Nat) :
    (stateAt (paramStepWith upd mk cfg) s0 hist k).slots[i]? =
      s0.slots[i]?.map fun sl =>
        stateAt (dsStep (mk i) cfg) sl (hist.map fun x => (⟨x.1, ()⟩ : DSInp (List α) Unit)) k := by
  unfold stateAt
  rw [paramRun_slot, List.map_take]

/-- the statistics of the slot automata, collected, are C02's documented statistics list -/
theorem slotsStep_stats (thr : XF) (N : NewtonCfg α) (rep : α → XF) (G : Geom) (w1 w2 : α) (dims : Nat → Nat)
    (cfg : DSCfg) (slots : List (SlotState α)) (g : List α) (step : Nat)
    (hc : ∀ sl ∈ slots, sl.count = step) (hlen : slots.length = (G.blocks g).length * G.pdims.length) :
    (slotsStep (slotKernels thr N rep G w1 w2 dims) cfg slots g).map (·.stats) =
      specStats G w1 w2 cfg.si step (slots.map (·.stats)) g := by
  apply List.ext_getElem?
  intro i
  rw [List.getElem?_map, slotsStep_getElem?]
  unfold specStats
  by_cases hp : dsPerformStats cfg.si step = true
  · rw [if_pos hp]
    simp only []
    rw [List.getElem?_map, ← hlen]
    by_cases hi : i < slots.length
    · rw [List.getElem?_eq_getElem hi, List.getElem?_eq_getElem (by rw [List.length_range]; exact hi),
        List.getElem_range]
      simp only [Option.map_some]
      congr 1
      show dsStats' _ cfg slots[i] g = _
      unfold dsStats'
      rw [hc _ (List.getElem_mem hi), if_pos hp]
      show slotStatsUpd G w1 w2 i slots[i].stats g = _
      unfold slotStatsUpd specNewStat
      rw [Nat.div_add_mod' i G.pdims.length]
      have e : (List.map (fun x => x.stats) slots).getD i Mx.zero = slots[i].stats := by
        simp [List.getD_eq_getElem?_getD, hi]
      rw [e]
    · rw [List.getElem?_eq_none (by omega), List.getElem?_eq_none (by rw [List.length_range]; omega)]
      rfl
  · rw [if_neg hp, List.getElem?_map]
    cases hsl : slots[i]? with
    | none => rfl
    | some sl =>
      have hmem : sl ∈ slots := List.mem_of_getElem? hsl
      simp only [Option.map_some]
      congr 1
      show dsStats' _ cfg sl g = sl.stats
      unfold dsStats'
      rw [hc sl hmem, if_neg hp]


/-- "`P` is an honest Newton root of the `d × d` statistic `L`, accepted by the gate" -/
def HonestRootOf (N : NewtonCfg α) (rep : α → XF) (thr : XF) (d : Nat) (L P : Mx α) : Prop :=
  P = toMx (newtonOut N d (ofMx d L)).x ∧
  (rep (newtonOut N d (ofMx d L)).err).isNaN = false ∧ (rep (newtonOut N d (ofMx d L)).err).lt thr = true ∧
  1 ≤ (newtonOut N d (ofMx d L)).retries ∧
  ∀ i j, |((Matrix.of (newtonOut N d (ofMx d L)).x) ^ N.p *
      dampedM d (ofMx d L) (newtonRidge N d (ofMx d L) * 10 ^ ((newtonOut N d (ofMx d L)).retries - 1))
      - Es α d d) i j| ≤ (newtonOut N d (ofMx d L)).err

/-- (1) for a slot of a parameter (matrices as `Mx`) -/
theorem slot_stored_newton_mx (N : NewtonCfg α) (hN : NewtonOK N) (rep : α → XF) (thr : XF) (hthr : thr.isNaN = false)
    (G : Geom) (w1 w2 : α) (dims : Nat → Nat) (i : Nat) (hd : dims i ≠ 0)
    (cfg : DSCfg) (sl0 : SlotState α) (is : List (DSInp (List α) Unit)) (k : Nat) (hk : k ≤ is.length) :
    let T := stateAt (dsStep (slotKernels thr N rep G w1 w2 dims i) cfg) sl0 is
    (T k).precond = sl0.precond ∨
      ∃ r, r < k ∧ (sl0.count + r) % cfg.interval (sl0.count + r) = 0 ∧
        HonestRootOf N rep thr (dims i) (T (r + 1)).stats (T k).precond := by
  intro T
  rcases stored_is_initial_or_accepted thr hthr (slotStatsUpd G w1 w2 i) (newtonSlotRootMx N rep (dims i)) id
      (fun _ _ _ => ((), (0 : Nat), (0 : Nat))) (fun _ _ _ _ => ((), (0 : Nat), (0 : Nat))) (fun a _ _ => a)
      cfg sl0 is k hk with h | ⟨r, hr, h1, h2, h3, h4⟩
  · exact Or.inl h
  · right
    obtain ⟨g1, g2⟩ := newtonOut_honest N hN (dims i) hd (ofMx (dims i) (T (r + 1)).stats)
    exact ⟨r, hr, h1, h2, h3, h4, g1, g2⟩


/-- (2), the state half: every preconditioner the update of step `t` is computed with -/
theorem used_preconds_honest (N : NewtonCfg α) (hN : NewtonOK N) (rep : α → XF) (thr : XF) (hthr : thr.isNaN = false)
    (G : Geom) (w1 w2 : α) (dims : Nat → Nat) (hd : ∀ i, dims i ≠ 0)
    (upd : Nat → List α → List α → PState α → List (Mx α) → List (Mx α) → Option (TOut α))
    (cfg : DSCfg) (s0 : ParamState α) (hist : List (List α × List α)) (t : Nat) (ht : t < hist.length)
    (i : Nat) (hi : i < s0.slots.length) :
    let mk := slotKernels thr N rep G w1 w2 dims
    let S := stateAt (paramStepWith upd mk cfg) s0 hist
    ∃ P, (usedAt mk cfg (S t) hist[t].1)[i]? = some P ∧
      (P = s0.slots[i].precond ∨
        ∃ r slr, (r < t ∨ (cfg.sharded = false ∧ r = t)) ∧
          (s0.slots[i].count + r) % cfg.interval (s0.slots[i].count + r) = 0 ∧
          (S (r + 1)).slots[i]? = some slr ∧ HonestRootOf N rep thr (dims i) slr.stats P) := by
  intro mk S
  let is' := hist.map fun x => (⟨x.1, ()⟩ : DSInp (List α) Unit)
  let T := stateAt (dsStep (mk i) cfg) s0.slots[i] is'
  have hlen : is'.length = hist.length := List.length_map _
  have hproj : ∀ k, (S k).slots[i]? = some (T k) := by
    intro k
    have := paramStateAt_slot upd mk cfg i hist s0 k
    rw [List.getElem?_eq_getElem hi] at this
    exact this
  have hget : is'[t]'(by omega) = ⟨hist[t].1, ()⟩ := by simp [is']
  by_cases hsh : cfg.sharded = true
  · refine ⟨(T t).precond, ?_, ?_⟩
    · unfold usedAt usedPreconds
      rw [if_pos hsh, List.getElem?_map, hproj t]; rfl
    · rcases slot_stored_newton_mx N hN rep thr hthr G w1 w2 dims i (hd i) cfg s0.slots[i] is' t (by omega)
        with h | ⟨r, hr, h1, h2⟩
      · exact Or.inl h
      · exact Or.inr ⟨r, T (r + 1), Or.inl hr, h1, hproj (r + 1), h2⟩
  · refine ⟨(T (t + 1)).precond, ?_, ?_⟩
    · unfold usedAt usedPreconds
      rw [if_neg hsh, List.getElem?_map, slotsStep_getElem?, hproj t]
      show some (dsStep (mk i) cfg (T t) ⟨hist[t].1, ()⟩).1.precond = _
      rw [← hget, ← stateAt_succ (dsStep (mk i) cfg) s0.slots[i] is' t (by omega)]
    · rcases slot_stored_newton_mx N hN rep thr hthr G w1 w2 dims i (hd i) cfg s0.slots[i] is' (t + 1) (by omega)
        with h | ⟨r, hr, h1, h2⟩
      · exact Or.inl h
      · refine Or.inr ⟨r, T (r + 1), ?_, h1, hproj (r + 1), h2⟩
        rcases Nat.lt_succ_iff_lt_or_eq.mp hr with h | h
        · exact Or.inl h
        · exact Or.inr ⟨by simpa using hsh, h⟩


theorem lowParamStep_eq_spec (sqrt : α → α) (nc : Nat → α) (G : Geom) (h : Hyper α) (skipP : Bool) (mk : SlotK α)
    (cfg : DSCfg) (s : ParamState α) (g param : List α)
    (hgr : (dsGraftStep sqrt nc h.g g s.fo.diag).1.length = prod G.shape) (hg : g.length = prod G.shape)
    (hp : param.length = prod G.shape) (hm : s.fo.mom.length = prod G.shape)
    (hdm : s.fo.dmom.length = prod G.shape) :
    lowParamStep sqrt nc G h skipP mk cfg s (g, param) = specParamStep sqrt nc G h skipP mk cfg s (g, param) := by
  unfold lowParamStep specParamStep paramStepWith
  simp only []
  rw [(C02.low_refines_spec sqrt nc cfg.sharded G h 0 0 1 s.count skipP [] (s.slots.map (·.precond))
    ((slotsStep mk cfg s.slots g).map (·.precond)) g param s.fo hgr hg hp hm hdm).2]

theorem param_run_sync (upd : Nat → List α → List α → PState α → List (Mx α) → List (Mx α) → Option (TOut α))
    (mk : SlotK α) (cfg : DSCfg) : ∀ (hist : List (List α × List α)) (s0 : ParamState α),
    (∀ sl ∈ s0.slots, sl.count = s0.count) →
    (∀ sl ∈ (run (paramStepWith upd mk cfg) s0 hist).slots, sl.count = (run (paramStepWith upd mk cfg) s0 hist).count) ∧
      (run (paramStepWith upd mk cfg) s0 hist).count = s0.count + hist.length ∧
      (run (paramStepWith upd mk cfg) s0 hist).slots.length = s0.slots.length
  | [], s0, h => ⟨h, rfl, rfl⟩
  | x :: hist, s0, h => by
    rw [run_cons]
    have hstep : ∀ sl ∈ (paramStepWith upd mk cfg s0 x).1.slots, sl.count = (paramStepWith upd mk cfg s0 x).1.count := by
      intro sl hsl
      show sl.count = s0.count + 1
      have hsl' : sl ∈ slotsStep mk cfg s0.slots x.1 := hsl
      obtain ⟨i, hi, rfl⟩ := List.mem_iff_getElem.mp hsl'
      have hi' : i < s0.slots.length := by rwa [slotsStep_length] at hi
      have e := slotsStep_getElem? mk cfg s0.slots x.1 i
      rw [List.getElem?_eq_getElem hi, List.getElem?_eq_getElem hi'] at e
      simp only [Option.map_some, Option.some.injEq] at e
      rw [e]
      show s0.slots[i].count + 1 = _
      rw [h _ (List.getElem_mem hi')]
    obtain ⟨a, b, c⟩ := param_run_sync upd mk cfg hist _ hstep
    refine ⟨a, ?_, ?_⟩
    · rw [b]; show s0.count + 1 + hist.length = _; simp only [List.length_cons]; omega
    · rw [c]; exact slotsStep_length mk cfg s0.slots x.1


end Param

section Tree
open PrecondVerif.BlockDiag PrecondVerif.Devices
variable {α ρ : Type}

/-- a leaf's view `global[index_start : index_start + count]` of a flat list is its `regroup` slice -/
theorem regroup_eq_slices {β : Type} : ∀ (ks : List Nat) (o : Nat) (l : List β),
    ((indexStarts ks o).zip ks).map (fun sc => slice sc.1 sc.2 l) = regroup ks (l.drop o)
  | [], _, _ => rfl
  | k :: ks, o, l => by
    have ih := regroup_eq_slices ks (o + k) l
    simp only [indexStarts, List.zip_cons_cons, List.map_cons, regroup]
    rw [ih, List.drop_drop]
    rfl

theorem regroup_append {β : Type} : ∀ (ks : List Nat) (l e : List β), ks.sum ≤ l.length →
    regroup ks (l ++ e) = regroup ks l
  | [], _, _, _ => rfl
  | k :: ks, l, e, h => by
    simp only [List.sum_cons] at h
    simp only [regroup]
    rw [List.take_append_of_le_length (by omega), List.drop_append_of_le_length (by omega),
      regroup_append ks (l.drop k) e (by rw [List.length_drop]; omega)]

theorem distributed_eq_batched (root : Nat → Nat → A2 α → ρ) (filler : Stat α) (D : Nat) (hD : 1 ≤ D)
    (leaves : List (List (Stat α))) :
    distributedTreeRoots root filler D leaves = treeRootsG root leaves := by
  unfold distributedTreeRoots treeRootsG
  simp only []
  rw [C13.pmap_result_independent_of_D _ filler D _ hD]

theorem sharded_eq_batched (root : Nat → Nat → A2 α → ρ) (filler : Stat α) (D : Nat) (hD : 1 ≤ D)
    (leaves : List (List (Stat α))) :
    shardedTreeRoots root filler D leaves = treeRootsG root leaves := by
  unfold shardedTreeRoots treeRootsG shardedViews
  simp only []
  rw [C13.sharded_compute_eq _ filler D _ hD, regroup_eq_slices, List.drop_zero, regroup_append]
  rw [List.length_map, List.length_flatten]

end Tree



end PrecondVerif.Compose

/-! ### Tearfree Sketchy (own scope: `FD.Mat` / `FD.toM` clash with `InvRoot`) -/

namespace PrecondVerif.Compose
open PrecondVerif.FD PrecondVerif.Schedule Matrix

section Sk
variable {R : Type} [Field R] [LinearOrder R] [IsStrictOrderedRing R] [StarRing R] [TrivialStar R]
  [StarOrderedRing R] {d k m : ℕ} {υ : Type}

theorem sketchy_run_bracket (svd : SvdFn R d (k + m)) (sqrt pw : R → R) (hsq : ∀ x, 0 ≤ x → sqrt x * sqrt x = x)
    (hs0 : ∀ x, 0 ≤ sqrt x) (epsilon : R) (relative : Bool) (β : R) (hβ : 0 ≤ β) (hk : k ≤ d)
    (precondition : SkState R d k → Mat R d m → υ) (f : Nat)
    (hsvd : ∀ (st : SkState R d k) (G : Mat R d m), SvdSpec (sketchyB sqrt β st G) (svd (sketchyB sqrt β st G))) :
    ∀ (gs : List (Mat R d m)) (s0 : SKState (SkState R d k)) (C : Mat R d d),
      (toM C - toM (sketch s0.sketch.denote)).PosSemidef →
      (toM (sketch s0.sketch.denote) + s0.sketch.t • (1 : Matrix (Fin d) (Fin d) R) - toM C).PosSemidef →
      let s := run (sketchyStep (sketchyKernels svd sqrt pw epsilon relative β precondition) f) s0 gs
      (toM (covFrom β C (refreshGrads f s0.count gs)) - toM (sketch s.sketch.denote)).PosSemidef ∧
      (toM (sketch s.sketch.denote) + s.sketch.t • (1 : Matrix (Fin d) (Fin d) R)
        - toM (covFrom β C (refreshGrads f s0.count gs))).PosSemidef
  | [], s0, C, hlo, hhi => ⟨hlo, hhi⟩
  | G :: gs, s0, C, hlo, hhi => by
    intro s
    by_cases hc : s0.count % f = 0
    · have hb := PrecondVerif.C09.sketchy_update_axis_bracket sqrt pw hsq hs0 epsilon relative β hβ hk s0.sketch G
        (svd (sketchyB sqrt β s0.sketch G)) (hsvd _ _) (toM C) hlo hhi
      have hC : toM (fun i j => β * C i j + outer G i j : Mat R d d) = β • toM C + toM (outer G) := by
        ext i j; rfl
      have ih := sketchy_run_bracket svd sqrt pw hsq hs0 epsilon relative β hβ hk precondition f hsvd gs
        (sketchyStep (sketchyKernels svd sqrt pw epsilon relative β precondition) f s0 G).1
        (fun i j => β * C i j + outer G i j)
        (by rw [hC]; simpa [sketchyStep, sketchyKernels, sketchyUpdateAxis, hc] using hb.2.1)
        (by rw [hC]; simpa [sketchyStep, sketchyKernels, sketchyUpdateAxis, hc] using hb.2.2)
      simpa [s, run_cons, refreshGrads, hc, covFrom, sketchyStep] using ih
    · have ih := sketchy_run_bracket svd sqrt pw hsq hs0 epsilon relative β hβ hk precondition f hsvd gs
        (sketchyStep (sketchyKernels svd sqrt pw epsilon relative β precondition) f s0 G).1 C
        (by simpa [sketchyStep, hc] using hlo) (by simpa [sketchyStep, hc] using hhi)
      simpa [s, run_cons, refreshGrads, hc, sketchyStep] using ih

end Sk

end PrecondVerif.Compose
