/-
Helper lemmas for C03 about `Model/Gate.lean`: IEEE comparison facts of `XF`, the select forms of the
three modes, and the invariant of a slot along a history. Core Lean only (no Mathlib needed).
-/
import PrecondVerif.Model.Gate

namespace PrecondVerif.Gate

namespace XF

theorem ge_nan_left (b : XF) : ge nan b = false := by cases b <;> rfl
theorem ge_nan_right (a : XF) : ge a nan = false := by cases a <;> rfl
theorem lt_nan_left (b : XF) : lt nan b = false := by cases b <;> rfl
theorem lt_nan_right (a : XF) : lt a nan = false := by cases a <;> rfl

/-- trichotomy away from NaN: `¬ (a ≥ b)` is `a < b` -/
theorem ge_eq_not_lt {a b : XF} (ha : a.isNaN = false) (hb : b.isNaN = false) :
    ge a b = !lt a b := by
  cases a <;> cases b <;> simp_all [ge, lt, isNaN]
  rename_i x y
  by_cases h : y ≤ x
  · simp [h, Rat.not_lt.mpr h]
  · simp [h, Rat.not_le.mp h]

/-- `x ≥ x` for every non-NaN `x` (in particular `threshold ≥ threshold`) -/
theorem ge_self {a : XF} (ha : a.isNaN = false) : ge a a = true := by
  cases a <;> simp_all [ge, isNaN]

theorem lt_irrefl (a : XF) : lt a a = false := by
  cases a <;> simp [lt]

/-- an error strictly below a threshold is neither NaN nor `+∞` -/
theorem finite_or_ninf_of_lt {a b : XF} (h : lt a b = true) : a.isNaN = false ∧ a ≠ pinf := by
  cases a <;> cases b <;> simp_all [lt, isNaN]

/-- a non-negative error strictly below a threshold is finite -/
theorem isFinite_of_lt_of_nonneg {a b : XF} (h : lt a b = true) (h0 : ge a (fin 0) = true) :
    a.isFinite = true := by
  cases a <;> cases b <;> simp_all [lt, ge, isFinite]

end XF

/-! ### the gate -/

theorem skip_eq_false_iff {err thr : XF} (hthr : thr.isNaN = false) :
    skip err thr = false ↔ (err.isNaN = false ∧ err.lt thr = true) := by
  unfold skip
  constructor
  · intro h
    have h1 : err.isNaN = false := by
      cases hh : err.isNaN <;> simp_all
    refine ⟨h1, ?_⟩
    have h2 : err.ge thr = false := by
      cases hh : err.ge thr <;> simp_all
    rw [XF.ge_eq_not_lt h1 hthr] at h2
    cases hh : err.lt thr <;> simp_all
  · rintro ⟨h1, h2⟩
    rw [XF.ge_eq_not_lt h1 hthr]
    simp [h1, h2]

theorem skip_self {thr : XF} (hthr : thr.isNaN = false) : skip thr thr = true := by
  unfold skip
  simp [XF.ge_self hthr]

theorem skip_nan (thr : XF) : skip XF.nan thr = true := rfl

theorem select_of_skip {π : Type} {err thr : XF} (new old : π) (h : skip err thr = true) :
    select err thr new old = old := by
  simp [select, h]

theorem select_of_not_skip {π : Type} {err thr : XF} (new old : π) (h : skip err thr = false) :
    select err thr new old = new := by
  simp [select, h]

theorem selectTriple_eq_select {κ δ β : Type} (err thr : XF) (new old : κ × δ × β) :
    selectTriple err thr new old = select err thr new old := by
  unfold selectTriple select
  cases skip err thr <;> simp

theorem whereSel_true {α : Type} {n : Nat} (old new : Vector α n) : whereSel true old new = old := by
  ext i hi
  simp [whereSel]

theorem whereSel_false {α : Type} {n : Nat} (old new : Vector α n) : whereSel false old new = new := by
  ext i hi
  simp [whereSel]

theorem selectWhere_eq_select {α : Type} {n : Nat} (err thr : XF) (new old : Vector α n) :
    selectWhere err thr new old = select err thr new old := by
  unfold selectWhere select
  cases skip err thr
  · simp [whereSel_false]
  · simp [whereSel_true]

/-! ### candidate -/

theorem performStep_one (count : Nat) : performStep 1 count = true := by
  simp [performStep, Nat.mod_one]

/-- the `steps == 1` shortcut of `_update_preconditioners_fn` changes nothing -/
theorem candidate_eq {π : Type} (itv count : Nat) (thr : XF) (root : Unit → π × XF) (junk : π) :
    candidate itv count thr root junk
      = if performStep itv count then root () else (junk, thr) := by
  unfold candidate efficientCond
  by_cases h : itv = 1
  · subst h
    simp [performStep_one]
  · simp [h]

/-! ### slot invariant -/

/-- a selector that behaves like `select` (true for the selectors of all three modes) -/
def SelOK {π : Type} (sel : Selector π) : Prop := ∀ err thr new old, sel err thr new old = select err thr new old

theorem selOK_select {π : Type} : SelOK (select : Selector π) := fun _ _ _ _ => rfl
theorem selOK_triple {κ δ β : Type} : SelOK (selectTriple : Selector (κ × δ × β)) := selectTriple_eq_select
theorem selOK_where {α : Type} {n : Nat} : SelOK (selectWhere : Selector (Vector α n)) := selectWhere_eq_select

/-- one step: the slot keeps its value, or takes the candidate of an accepted refresh -/
theorem slotStep_spec {π : Type} {sel : Selector π} (hsel : SelOK sel) {thr : XF} (hthr : thr.isNaN = false)
    (itv count : Nat) (s : Slot π) (i : Inp π) :
    (slotStep sel thr itv count s i).precond = s.precond
      ∨ ((slotStep sel thr itv count s i).precond = i.cand ∧ Accepted thr itv count i) := by
  unfold slotStep
  simp only [hsel _ _ _ _, candidate_eq]
  by_cases hp : performStep itv count = true
  · simp only [hp, if_true]
    cases hs : skip i.err thr
    · right
      exact ⟨select_of_not_skip _ _ hs, hp, (skip_eq_false_iff hthr).mp hs⟩
    · left
      exact select_of_skip _ _ hs
  · left
    have hp' : performStep itv count = false := by cases h : performStep itv count <;> simp_all
    simp only [hp', Bool.false_eq_true, if_false]
    exact select_of_skip _ _ (skip_self hthr)

theorem slotStep_nonrefresh {π : Type} {sel : Selector π} (hsel : SelOK sel) {thr : XF} (hthr : thr.isNaN = false)
    (itv count : Nat) (s : Slot π) (i : Inp π) (hp : performStep itv count = false) :
    slotStep sel thr itv count s i = s := by
  unfold slotStep
  simp only [hsel _ _ _ _, candidate_eq, hp, Bool.false_eq_true, if_false]
  rw [select_of_skip _ _ (skip_self hthr)]

theorem slotRun_cons {π : Type} (sel : Selector π) (thr : XF) (itv count : Nat) (s : Slot π) (i : Inp π)
    (is : List (Inp π)) :
    slotRun sel thr itv count s (i :: is) = slotRun sel thr itv (count + 1) (slotStep sel thr itv count s i) is := rfl

/-- invariant along a history: the stored value is the initial one or the candidate of some step of the
history at which a refresh was due and the reported error was non-NaN and below the threshold -/
theorem slotRun_inv {π : Type} {sel : Selector π} (hsel : SelOK sel) {thr : XF} (hthr : thr.isNaN = false) (itv : Nat) :
    ∀ (is : List (Inp π)) (count : Nat) (s : Slot π),
      (slotRun sel thr itv count s is).precond = s.precond
        ∨ ∃ k, ∃ h : k < is.length, (slotRun sel thr itv count s is).precond = (is[k]'h).cand
            ∧ Accepted thr itv (count + k) (is[k]'h)
  | [], _, _ => Or.inl rfl
  | i :: is, count, s => by
    rw [slotRun_cons]
    rcases slotRun_inv hsel hthr itv is (count + 1) (slotStep sel thr itv count s i) with h | ⟨k, hk, h1, h2⟩
    · rcases slotStep_spec hsel hthr itv count s i with h' | ⟨h', hacc⟩
      · left; rw [h, h']
      · right
        exact ⟨0, Nat.zero_lt_succ _, by simpa [h] using h', by simpa using hacc⟩
    · right
      refine ⟨k + 1, Nat.succ_lt_succ hk, by simpa using h1, ?_⟩
      have : count + 1 + k = count + (k + 1) := by omega
      simpa [this] using h2

/-! ### warm-started roots (reuse_preconditioner, frequent directions) -/

theorem slotRunDep_good {π : Type} {sel : Selector π} (hsel : SelOK sel) {thr : XF} (hthr : thr.isNaN = false)
    (itv : Nat) (root : WarmRoot π) (Good : π → Prop)
    (hroot : ∀ c p, Good p → (root c p).err.isNaN = false → (root c p).err.lt thr = true → Good (root c p).cand) :
    ∀ (n count : Nat) (s : Slot π), Good s.precond → Good (slotRunDep sel thr itv root count s n).precond
  | 0, _, _, h => h
  | n + 1, count, s, h => by
    show Good (slotRunDep sel thr itv root (count + 1) (slotStepDep sel thr itv count root s) n).precond
    apply slotRunDep_good hsel hthr itv root Good hroot n
    unfold slotStepDep
    rcases slotStep_spec hsel hthr itv count s (root count s.precond) with h' | ⟨h', _, h2, h3⟩
    · rw [h']; exact h
    · rw [h']; exact hroot count s.precond h h2 h3

theorem slotRunReset_good {π : Type} {sel : Selector π} (hsel : SelOK sel) {thr : XF} (hthr : thr.isNaN = false)
    (itv : Nat) (rf : Option Nat) (zero : π → π) (root : WarmRoot π) (Good : π → Prop)
    (hroot : ∀ c p, Good p → (root c (warmStart rf zero c p)).err.isNaN = false → (root c (warmStart rf zero c p)).err.lt thr = true
      → Good (root c (warmStart rf zero c p)).cand) :
    ∀ (n count : Nat) (s : Slot π), Good s.precond → Good (slotRunReset sel thr itv rf zero root count s n).precond
  | 0, _, _, h => h
  | n + 1, count, s, h => by
    show Good (slotRunReset sel thr itv rf zero root (count + 1) (slotStepReset sel thr itv rf zero count root s) n).precond
    apply slotRunReset_good hsel hthr itv rf zero root Good hroot n
    unfold slotStepReset
    rcases slotStep_spec hsel hthr itv count s (root count (warmStart rf zero count s.precond)) with h' | ⟨h', _, h2, h3⟩
    · rw [h']; exact h
    · rw [h']; exact hroot count s.precond h h2 h3

/-! ### the whole state -/

theorem stateStep_good {π : Type} {sel : Selector π} (hsel : SelOK sel) {thr : XF} (hthr : thr.isNaN = false)
    (itv count : Nat) (Good : π → Prop) (ss : List (Slot π)) (ins : List (Inp π))
    (h0 : ∀ s ∈ ss, Good s.precond)
    (hroot : ∀ i ∈ ins, i.err.isNaN = false → i.err.lt thr = true → Good i.cand) :
    ∀ s ∈ stateStep sel thr itv count ss ins, Good s.precond := by
  induction ss generalizing ins with
  | nil => intro s hs; simp [stateStep] at hs
  | cons a as ih =>
    cases ins with
    | nil => intro s hs; simp [stateStep] at hs
    | cons i is =>
      intro s hs
      simp only [stateStep, List.zipWith_cons_cons, List.mem_cons] at hs
      rcases hs with rfl | hs
      · rcases slotStep_spec hsel hthr itv count a i with h | ⟨h, _, h2, h3⟩
        · rw [h]; exact h0 a (List.mem_cons_self ..)
        · rw [h]; exact hroot i (List.mem_cons_self ..) h2 h3
      · exact ih is (fun s hs => h0 s (List.mem_cons_of_mem _ hs))
          (fun j hj => hroot j (List.mem_cons_of_mem _ hj)) s hs

theorem stateRun_good {π : Type} {sel : Selector π} (hsel : SelOK sel) {thr : XF} (hthr : thr.isNaN = false)
    (itv : Nat) (Good : π → Prop) :
    ∀ (hist : List (List (Inp π))) (count : Nat) (ss : List (Slot π)),
      (∀ s ∈ ss, Good s.precond) →
      (∀ ins ∈ hist, ∀ i ∈ ins, i.err.isNaN = false → i.err.lt thr = true → Good i.cand) →
      ∀ s ∈ stateRun sel thr itv count ss hist, Good s.precond
  | [], _, _, h0, _ => h0
  | ins :: rest, count, ss, h0, hroot => by
    show ∀ s ∈ stateRun sel thr itv (count + 1) (stateStep sel thr itv count ss ins) rest, _
    exact stateRun_good hsel hthr itv Good rest (count + 1) _
      (stateStep_good hsel hthr itv count Good ss ins h0 (hroot ins (List.mem_cons_self ..)))
      (fun ins' h' => hroot ins' (List.mem_cons_of_mem _ h'))

end PrecondVerif.Gate
