/-
Lemmas for C09 (frequent-directions sketch, `Model/FD.lean`): bridge to Mathlib matrices, the Gram matrix of
`fdB`, the deflation lemma in the Loewner order, one-step and whole-history brackets, column orthonormality,
inverse roots, and the rank argument (zero-gradient step, exact tracking of low-rank histories).
-/
import PrecondVerif.Model.FD
import Mathlib.Algebra.BigOperators.Fin
import Mathlib.Data.Fintype.BigOperators
import Mathlib.Algebra.Order.Field.Basic
import Mathlib.Tactic.Ring
import Mathlib.Tactic.Linarith
import Mathlib.Tactic.LinearCombination
import Mathlib.LinearAlgebra.Matrix.PosDef
import Mathlib.LinearAlgebra.Matrix.Rank

set_option linter.unusedSectionVars false
set_option linter.overlappingInstances false
set_option linter.unusedSimpArgs false

namespace PrecondVerif.FD
open Finset Matrix

section Bridge
variable {R : Type} [Field R] {d k m n : ℕ}

theorem sumFin_eq (f : Fin n → R) : sumFin f = ∑ i, f i := by
  rw [sumFin, Fin.sum_univ_def]

/-- a model matrix as a Mathlib matrix (definitionally the same function) -/
def toM (A : Mat R m n) : Matrix (Fin m) (Fin n) R := Matrix.of A

@[simp] theorem toM_apply (A : Mat R m n) (i : Fin m) (j : Fin n) : toM A i j = A i j := rfl

theorem mdt_apply (A : Matrix (Fin m) (Fin n) R) (w : Fin n → R) (i j : Fin m) :
    (A * diagonal w * Aᵀ) i j = ∑ a, A i a * w a * A j a := by
  rw [Matrix.mul_apply]
  refine Finset.sum_congr rfl fun a _ => ?_
  rw [Matrix.mul_diagonal, Matrix.transpose_apply]

/-- `V diag(l) Vᵀ` as a Mathlib matrix -/
def sketchM (st : State R d k) : Matrix (Fin d) (Fin d) R := toM st.V * diagonal st.l * (toM st.V)ᵀ

theorem sketch_eq (st : State R d k) : toM (sketch st) = sketchM st := by
  ext i j
  rw [sketchM, mdt_apply]
  simp [sketch, sumFin_eq]

theorem outer_eq (G : Mat R d m) : toM (outer G) = toM G * (toM G)ᵀ := by
  ext i j
  simp [outer, sumFin_eq, Matrix.mul_apply]

/-- sums over `Fin k` and over the first `k` indices of `Fin d` -/
theorem sum_fin_le (hk : k ≤ d) (T : ℕ → R) :
    ∑ a : Fin k, T a.1 = ∑ c : Fin d, if c.1 < k then T c.1 else 0 := by
  rw [Fin.sum_univ_eq_sum_range T k, Fin.sum_univ_eq_sum_range (fun x => if x < k then T x else 0) d,
    ← Finset.sum_filter]
  congr 1
  ext x
  simp only [Finset.mem_range, Finset.mem_filter]
  omega

end Bridge

section Ordered
variable {R : Type} [Field R] [LinearOrder R] [IsStrictOrderedRing R] {d k m : ℕ}

/-- `B Bᵀ = β · V diag(l) Vᵀ + G Gᵀ` for the matrix handed to the SVD -/
theorem gram_fdB (sqrt : R → R) (hsq : ∀ x, 0 ≤ x → sqrt x * sqrt x = x) (β : R) (hβ : 0 ≤ β)
    (st : State R d k) (hl : ∀ a, 0 ≤ st.l a) (G : Mat R d m) :
    toM (outer (fdB sqrt β st G)) = β • sketchM st + toM G * (toM G)ᵀ := by
  ext i j
  rw [Matrix.add_apply, Matrix.smul_apply, sketchM, mdt_apply]
  simp only [toM_apply, outer, sumFin_eq, fdB, Fin.sum_univ_add, Fin.addCases_left, Fin.addCases_right,
    Matrix.mul_apply, Matrix.transpose_apply, smul_eq_mul, Finset.mul_sum]
  congr 1
  refine Finset.sum_congr rfl fun a _ => ?_
  have h1 := hsq β hβ
  have h2 := hsq (st.l a) (hl a)
  linear_combination (st.V i a * st.V j a * sqrt (st.l a) * sqrt (st.l a)) * h1 + (β * st.V i a * st.V j a) * h2

end Ordered

section Psd
variable {R : Type} [Field R] [LinearOrder R] [IsStrictOrderedRing R] [StarRing R] [TrivialStar R]
  [StarOrderedRing R] {d k m : ℕ}

/-- matrix form of the SVD specification, relative to the Gram matrix `M = B Bᵀ` -/
structure SpecM (M : Matrix (Fin d) (Fin d) R) (o : SvdOut R d) : Prop where
  uut : toM o.U * (toM o.U)ᵀ = 1
  utu : (toM o.U)ᵀ * toM o.U = 1
  recon : toM o.U * diagonal (fun a => o.s a * o.s a) * (toM o.U)ᵀ = M
  nonneg : ∀ a, 0 ≤ o.s a
  sorted : ∀ a b : Fin d, a ≤ b → o.s b ≤ o.s a

theorem SvdSpec.specM {n : ℕ} {B : Mat R d n} {o : SvdOut R d} (h : SvdSpec B o) :
    SpecM (toM (outer B)) o where
  uut := by
    ext i j
    have := h.uOrthoRows i j
    rw [sumFin_eq] at this
    simp [Matrix.mul_apply, Matrix.one_apply, this]
  utu := by
    ext a b
    have := h.uOrthoCols a b
    rw [sumFin_eq] at this
    simp [Matrix.mul_apply, Matrix.one_apply, this]
  recon := by
    ext i j
    have := h.recon i j
    rw [sumFin_eq] at this
    rw [mdt_apply]
    simpa using this
  nonneg := h.nonneg
  sorted := h.sorted

/-- eigenvalue `n_c` of the new sketch along the `c`-th singular direction -/
def newEig (k : ℕ) (o : SvdOut R d) (c : ℕ) : R :=
  if c < k ∧ 0 < (sAt o.s c - cutoff k o) * (sAt o.s c + cutoff k o) then
    (sAt o.s c - cutoff k o) * (sAt o.s c + cutoff k o) else 0

theorem uAt_fin (U : Mat R d d) (i c : Fin d) : uAt U i c.1 = U i c := by simp [uAt]
theorem sAt_fin (s : Vec R d) (c : Fin d) : sAt s c.1 = s c := by simp [sAt]

/-- the new sketch is `U diag(n) Uᵀ` -/
theorem sketchM_stepO (hk : k ≤ d) (β t : R) (o : SvdOut R d) :
    sketchM (stepO k β t o) = toM o.U * diagonal (fun c : Fin d => newEig k o c.1) * (toM o.U)ᵀ := by
  ext i j
  rw [sketchM, mdt_apply, mdt_apply]
  simp only [toM_apply, stepO, kept, deflRaw, decide_eq_true_eq]
  have := sum_fin_le hk (fun x => if 0 < (sAt o.s x - cutoff k o) * (sAt o.s x + cutoff k o) then
      uAt o.U i x * ((sAt o.s x - cutoff k o) * (sAt o.s x + cutoff k o)) * uAt o.U j x else 0)
  trans (∑ a : Fin k, if 0 < (sAt o.s a.1 - cutoff k o) * (sAt o.s a.1 + cutoff k o) then
      uAt o.U i a.1 * ((sAt o.s a.1 - cutoff k o) * (sAt o.s a.1 + cutoff k o)) * uAt o.U j a.1 else 0)
  · refine Finset.sum_congr rfl fun a _ => ?_
    by_cases hp : 0 < (sAt o.s a.1 - cutoff k o) * (sAt o.s a.1 + cutoff k o) <;> simp [hp]
  · rw [this]
    refine Finset.sum_congr rfl fun c _ => ?_
    simp only [newEig, uAt_fin]
    split_ifs <;> simp_all

theorem rho_nonneg (o : SvdOut R d) : 0 ≤ rho k o := mul_self_nonneg _

theorem cutoff_nonneg {M : Matrix (Fin d) (Fin d) R} {o : SvdOut R d} (h : SpecM M o) : 0 ≤ cutoff k o := by
  unfold cutoff sAt
  split_ifs
  · exact h.nonneg _
  · exact le_rfl

/-- entrywise facts behind the deflation lemma -/
theorem newEig_bounds {M : Matrix (Fin d) (Fin d) R} {o : SvdOut R d} (h : SpecM M o) (c : Fin d) :
    0 ≤ newEig k o c.1 ∧ 0 ≤ o.s c * o.s c - newEig k o c.1 ∧
      0 ≤ newEig k o c.1 + rho k o - o.s c * o.s c := by
  have hs := h.nonneg c
  have hc : 0 ≤ cutoff k o := cutoff_nonneg h
  have hraw : (sAt o.s c.1 - cutoff k o) * (sAt o.s c.1 + cutoff k o) = o.s c * o.s c - rho k o := by
    rw [sAt_fin, rho]; ring
  unfold newEig
  rw [hraw]
  have hρ : 0 ≤ rho k o := rho_nonneg o
  by_cases hck : c.1 < k
  · by_cases hpos : 0 < o.s c * o.s c - rho k o
    · rw [if_pos ⟨hck, hpos⟩]
      refine ⟨hpos.le, by linarith, by linarith⟩
    · rw [if_neg (fun hh => hpos hh.2)]
      have : 0 ≤ o.s c * o.s c := mul_self_nonneg _
      refine ⟨le_rfl, by linarith, by linarith⟩
  · rw [if_neg (fun hh => hck hh.1)]
    have hkd : k < d := lt_of_le_of_lt (not_lt.mp hck) c.2
    have hle : o.s c ≤ cutoff k o := by
      have := h.sorted ⟨k, hkd⟩ c (by simpa [Fin.le_def] using not_lt.mp hck)
      simpa [cutoff, sAt, hkd] using this
    have : o.s c * o.s c ≤ rho k o := by
      unfold rho
      exact mul_self_le_mul_self hs hle
    have h0 : 0 ≤ o.s c * o.s c := mul_self_nonneg _
    refine ⟨le_rfl, by linarith, by linarith⟩

/-- **FD deflation lemma** (Loewner order): for `M = U diag(s²) Uᵀ` and the new sketch `New` keeping the
directions with `s_a² > ρ`, `New ≤ M ≤ New + ρ·I`. -/
theorem deflation {M : Matrix (Fin d) (Fin d) R} {o : SvdOut R d} (h : SpecM M o) (hk : k ≤ d) (β t : R) :
    (M - sketchM (stepO k β t o)).PosSemidef ∧
    (sketchM (stepO k β t o) + rho k o • (1 : Matrix (Fin d) (Fin d) R) - M).PosSemidef := by
  set U := toM o.U with hU
  have hnew := sketchM_stepO hk β t o
  constructor
  · have : M - sketchM (stepO k β t o)
        = U * diagonal (fun c : Fin d => o.s c * o.s c - newEig k o c.1) * Uᵀ := by
      rw [hnew, ← h.recon, ← Matrix.sub_mul, ← Matrix.mul_sub, diagonal_sub]
    rw [this]
    have hd : (diagonal (fun c : Fin d => o.s c * o.s c - newEig k o c.1)).PosSemidef :=
      PosSemidef.diagonal (fun c => (newEig_bounds h c).2.1)
    simpa using hd.mul_mul_conjTranspose_same U
  · have hone : rho k o • (1 : Matrix (Fin d) (Fin d) R) = U * diagonal (fun _ : Fin d => rho k o) * Uᵀ := by
      rw [← smul_one_eq_diagonal, Matrix.mul_smul, Matrix.smul_mul, Matrix.mul_one, h.uut]
    have : sketchM (stepO k β t o) + rho k o • (1 : Matrix (Fin d) (Fin d) R) - M
        = U * diagonal (fun c : Fin d => newEig k o c.1 + rho k o - o.s c * o.s c) * Uᵀ := by
      rw [hnew, hone, ← h.recon, ← Matrix.add_mul, ← Matrix.mul_add, ← Matrix.sub_mul, ← Matrix.mul_sub,
        diagonal_add, diagonal_sub]
    rw [this]
    have hd : (diagonal (fun c : Fin d => newEig k o c.1 + rho k o - o.s c * o.s c)).PosSemidef :=
      PosSemidef.diagonal (fun c => (newEig_bounds h c).2.2)
    simpa using hd.mul_mul_conjTranspose_same U

/-- one step, stated on Gram matrices: if `S ≤ C ≤ S + t·I` and the SVD output factors `M = β·S + N`, the new
sketch brackets `β·C + N` with escaped mass `β·t + ρ`. -/
theorem bracket_core {S C N : Matrix (Fin d) (Fin d) R} {o : SvdOut R d} (β t : R) (hβ : 0 ≤ β) (hk : k ≤ d)
    (h : SpecM (β • S + N) o) (hlo : (C - S).PosSemidef)
    (hhi : (S + t • (1 : Matrix (Fin d) (Fin d) R) - C).PosSemidef) :
    (β • C + N - sketchM (stepO k β t o)).PosSemidef ∧
    (sketchM (stepO k β t o) + (stepO k β t o).t • (1 : Matrix (Fin d) (Fin d) R) - (β • C + N)).PosSemidef := by
  obtain ⟨h1, h2⟩ := deflation (k := k) h hk β t
  constructor
  · have : β • C + N - sketchM (stepO k β t o)
        = β • (C - S) + (β • S + N - sketchM (stepO k β t o)) := by
      rw [smul_sub]; abel
    rw [this]
    exact (hlo.smul hβ).add h1
  · have : sketchM (stepO k β t o) + (stepO k β t o).t • (1 : Matrix (Fin d) (Fin d) R) - (β • C + N)
        = (sketchM (stepO k β t o) + rho k o • (1 : Matrix (Fin d) (Fin d) R) - (β • S + N))
          + β • (S + t • (1 : Matrix (Fin d) (Fin d) R) - C) := by
      simp only [stepO, add_smul, smul_sub, smul_add, mul_smul]
      abel
    rw [this]
    exact h2.add (hhi.smul hβ)

theorem stepO_l_nonneg (β t : R) (o : SvdOut R d) (a : Fin k) : 0 ≤ (stepO k β t o).l a := by
  simp only [stepO, kept, decide_eq_true_eq]
  split_ifs with hpos
  · exact hpos.le
  · exact le_rfl

theorem stepO_t_nonneg (β t : R) (hβ : 0 ≤ β) (ht : 0 ≤ t) (o : SvdOut R d) : 0 ≤ (stepO k β t o).t := by
  simp only [stepO]
  exact add_nonneg (mul_nonneg hβ ht) (rho_nonneg o)

/-- columns of the new `V` are orthonormal or zero: `V'ᵀV' = diag(kept)` -/
theorem stepO_colGram {M : Matrix (Fin d) (Fin d) R} {o : SvdOut R d} (h : SpecM M o) (hk : k ≤ d) (β t : R)
    (a b : Fin k) :
    colGram (stepO k β t o).V a b = if a = b ∧ kept k o a = true then 1 else 0 := by
  have ha : a.1 < d := lt_of_lt_of_le a.2 hk
  have hb : b.1 < d := lt_of_lt_of_le b.2 hk
  have hu : ∑ i, o.U i ⟨a.1, ha⟩ * o.U i ⟨b.1, hb⟩ = if a = b then 1 else 0 := by
    have := congrFun (congrFun h.utu ⟨a.1, ha⟩) ⟨b.1, hb⟩
    simp only [Matrix.mul_apply, Matrix.transpose_apply, toM_apply, Matrix.one_apply, Fin.mk.injEq] at this
    rw [this]
    simp [Fin.ext_iff]
  simp only [colGram, sumFin_eq, stepO, uAt, ha, hb, dif_pos]
  by_cases hka : kept k o a = true
  · by_cases hkb : kept k o b = true
    · simp only [hka, hkb, if_true, and_true]
      exact hu
    · have hab : a ≠ b := fun e => hkb (e ▸ hka)
      simp [hkb, hab]
  · simp [hka]

end Psd

section History
variable {R : Type} [Field R] [LinearOrder R] [IsStrictOrderedRing R] [StarRing R] [TrivialStar R]
  [StarOrderedRing R] {d k m : ℕ}

/-- one step with a supplied SVD output `o` of the model's own `fdB` -/
theorem stepO_bracket (sqrt : R → R) (hsq : ∀ x, 0 ≤ x → sqrt x * sqrt x = x) (β : R) (hβ : 0 ≤ β) (hk : k ≤ d)
    (st : State R d k) (hl : ∀ a, 0 ≤ st.l a) (G : Mat R d m) (o : SvdOut R d)
    (h : SvdSpec (fdB sqrt β st G) o) (C : Matrix (Fin d) (Fin d) R) (hlo : (C - sketchM st).PosSemidef)
    (hhi : (sketchM st + st.t • (1 : Matrix (Fin d) (Fin d) R) - C).PosSemidef) :
    (β • C + toM G * (toM G)ᵀ - sketchM (stepO k β st.t o)).PosSemidef ∧
    (sketchM (stepO k β st.t o) + (stepO k β st.t o).t • (1 : Matrix (Fin d) (Fin d) R)
      - (β • C + toM G * (toM G)ᵀ)).PosSemidef := by
  have hs := h.specM
  rw [gram_fdB sqrt hsq β hβ st hl G] at hs
  exact bracket_core β st.t hβ hk hs hlo hhi

/-- exact discounted second moment along a history, as a Mathlib matrix -/
def covM (β : R) : Matrix (Fin d) (Fin d) R → List (Mat R d m) → Matrix (Fin d) (Fin d) R
  | C, [] => C
  | C, G :: gs => covM β (β • C + toM G * (toM G)ᵀ) gs

theorem covFrom_eq (β : R) (gs : List (Mat R d m)) : ∀ C : Mat R d d, toM (covFrom β C gs) = covM β (toM C) gs := by
  induction gs with
  | nil => intro C; rfl
  | cons G gs ih =>
    intro C
    have : toM (fun i j => β * C i j + outer G i j) = β • toM C + toM G * (toM G)ᵀ := by
      rw [← outer_eq]; ext i j; simp
    simp only [covFrom, List.foldl_cons] at ih ⊢
    rw [ih, this, covM]

/-- the SVD kernel meets its specification on every matrix it is called with along the history -/
def SpecAlong (svd : SvdFn R d (k + m)) (sqrt : R → R) (β : R) : State R d k → List (Mat R d m) → Prop
  | _, [] => True
  | st, G :: gs => SvdSpec (fdB sqrt β st G) (svd (fdB sqrt β st G)) ∧ SpecAlong svd sqrt β (fdStep svd sqrt β st G) gs

/-- the supplied SVD outputs meet the specification of the model's own `fdB` along the history -/
def SpecAlongO (sqrt : R → R) (β : R) : State R d k → List (Mat R d m × SvdOut R d) → Prop
  | _, [] => True
  | st, (G, o) :: rest => SvdSpec (fdB sqrt β st G) o ∧ SpecAlongO sqrt β (stepO k β st.t o) rest

theorem fdRunFrom_bracket (svd : SvdFn R d (k + m)) (sqrt : R → R) (hsq : ∀ x, 0 ≤ x → sqrt x * sqrt x = x)
    (β : R) (hβ : 0 ≤ β) (hk : k ≤ d) (gs : List (Mat R d m)) :
    ∀ (st : State R d k), (∀ a, 0 ≤ st.l a) → 0 ≤ st.t → SpecAlong svd sqrt β st gs →
    ∀ C : Matrix (Fin d) (Fin d) R, (C - sketchM st).PosSemidef →
    (sketchM st + st.t • (1 : Matrix (Fin d) (Fin d) R) - C).PosSemidef →
    (covM β C gs - sketchM (fdRunFrom svd sqrt β st gs)).PosSemidef ∧
    (sketchM (fdRunFrom svd sqrt β st gs) + (fdRunFrom svd sqrt β st gs).t • (1 : Matrix (Fin d) (Fin d) R)
      - covM β C gs).PosSemidef ∧
    (∀ a, 0 ≤ (fdRunFrom svd sqrt β st gs).l a) ∧ 0 ≤ (fdRunFrom svd sqrt β st gs).t := by
  induction gs with
  | nil => intro st hl ht _ C hlo hhi; exact ⟨hlo, hhi, hl, ht⟩
  | cons G gs ih =>
    intro st hl ht hs C hlo hhi
    obtain ⟨h1, h2⟩ := stepO_bracket sqrt hsq β hβ hk st hl G _ hs.1 C hlo hhi
    exact ih (fdStep svd sqrt β st G) (stepO_l_nonneg β st.t _) (stepO_t_nonneg β st.t hβ ht _) hs.2 _ h1 h2

theorem fdRunO_bracket (sqrt : R → R) (hsq : ∀ x, 0 ≤ x → sqrt x * sqrt x = x)
    (β : R) (hβ : 0 ≤ β) (hk : k ≤ d) (steps : List (Mat R d m × SvdOut R d)) :
    ∀ (st : State R d k), (∀ a, 0 ≤ st.l a) → 0 ≤ st.t → SpecAlongO sqrt β st steps →
    ∀ C : Matrix (Fin d) (Fin d) R, (C - sketchM st).PosSemidef →
    (sketchM st + st.t • (1 : Matrix (Fin d) (Fin d) R) - C).PosSemidef →
    (covM β C (steps.map Prod.fst) - sketchM (fdRunO β st (steps.map Prod.snd))).PosSemidef ∧
    (sketchM (fdRunO β st (steps.map Prod.snd)) + (fdRunO β st (steps.map Prod.snd)).t • (1 : Matrix (Fin d) (Fin d) R)
      - covM β C (steps.map Prod.fst)).PosSemidef := by
  induction steps with
  | nil => intro st _ _ _ C hlo hhi; exact ⟨hlo, hhi⟩
  | cons p rest ih =>
    obtain ⟨G, o⟩ := p
    intro st hl ht hs C hlo hhi
    obtain ⟨h1, h2⟩ := stepO_bracket sqrt hsq β hβ hk st hl G o hs.1 C hlo hhi
    exact ih (stepO k β st.t o) (stepO_l_nonneg β st.t _) (stepO_t_nonneg β st.t hβ ht _) hs.2 _ h1 h2

theorem sketchM_zero : sketchM (State.zero d k : State R d k) = 0 := by
  ext i j
  rw [sketchM, mdt_apply]
  simp [State.zero]

/-- stored inverse roots are `pw (l' + t' + eps)` on the kept directions -/
theorem invRoots_eq (pw : R → R) (eps β t : R) (o : SvdOut R d) (a : Fin k) :
    invRoots k pw eps β t o a =
      if kept k o a = true then pw ((stepO k β t o).l a + (stepO k β t o).t + eps) else 0 := by
  unfold invRoots
  by_cases hka : kept k o a = true
  · simp only [hka, if_true, stepO]
    congr 1
    simp only [deflRaw, rho]
    ring
  · simp [hka]

end History

section Rank
variable {R : Type} [Field R] [LinearOrder R] [IsStrictOrderedRing R] [StarRing R] [TrivialStar R]
  [StarOrderedRing R] {d k m : ℕ}

/-- if `M = U diag(s²) Uᵀ` has rank at most `k < d`, the `(k+1)`-th singular value vanishes -/
theorem sigma_zero_of_rank_le {M : Matrix (Fin d) (Fin d) R} {o : SvdOut R d} (h : SpecM M o) (hkd : k < d)
    (hr : M.rank ≤ k) : o.s ⟨k, hkd⟩ = 0 := by
  by_contra hne
  have hpos : 0 < o.s ⟨k, hkd⟩ := lt_of_le_of_ne (h.nonneg _) (Ne.symm hne)
  have hU : IsUnit (toM o.U).det := Matrix.isUnit_det_of_right_inverse h.uut
  have hUt : IsUnit ((toM o.U)ᵀ).det := Matrix.isUnit_det_of_left_inverse h.uut
  have hrank : M.rank = Fintype.card {i : Fin d // o.s i * o.s i ≠ 0} := by
    rw [← h.recon, Matrix.rank_mul_eq_left_of_isUnit_det _ _ hUt, Matrix.rank_mul_eq_right_of_isUnit_det _ _ hU,
      Matrix.rank_diagonal]
  let f : Fin (k + 1) → {i : Fin d // o.s i * o.s i ≠ 0} := fun x =>
    ⟨⟨x.1, lt_of_le_of_lt (Nat.lt_succ_iff.mp x.2) hkd⟩, by
      have hle : o.s ⟨k, hkd⟩ ≤ o.s ⟨x.1, lt_of_le_of_lt (Nat.lt_succ_iff.mp x.2) hkd⟩ :=
        h.sorted _ _ (by simpa [Fin.le_def] using Nat.lt_succ_iff.mp x.2)
      have : 0 < o.s ⟨x.1, lt_of_le_of_lt (Nat.lt_succ_iff.mp x.2) hkd⟩ := lt_of_lt_of_le hpos hle
      exact (mul_pos this this).ne'⟩
  have hf : Function.Injective f := by
    intro x y hxy
    have := congrArg (fun z => z.1.1) hxy
    exact Fin.ext this
  have := Fintype.card_le_of_injective f hf
  rw [Fintype.card_fin, ← hrank] at this
  omega

/-- when the cutoff singular value is zero nothing is lost: the new sketch is exactly `M` -/
theorem stepO_exact_of_cutoff_zero {M : Matrix (Fin d) (Fin d) R} {o : SvdOut R d} (h : SpecM M o) (hk : k ≤ d)
    (hc : cutoff k o = 0) (β t : R) : sketchM (stepO k β t o) = M ∧ (stepO k β t o).t = β * t := by
  refine ⟨?_, by simp [stepO, rho, hc]⟩
  have hfun : (fun c : Fin d => newEig k o c.1) = fun c : Fin d => o.s c * o.s c := by
    funext c
    have hs := h.nonneg c
    have h0 : 0 ≤ o.s c * o.s c := mul_self_nonneg _
    simp only [newEig, hc, sAt_fin, sub_zero, add_zero]
    by_cases hck : c.1 < k
    · by_cases hp : 0 < o.s c * o.s c
      · rw [if_pos ⟨hck, hp⟩]
      · rw [if_neg (fun hh => hp hh.2)]; linarith [not_lt.mp hp]
    · rw [if_neg (fun hh => hck hh.1)]
      have hkd : k < d := lt_of_le_of_lt (not_lt.mp hck) c.2
      have hle : o.s c ≤ cutoff k o := by
        have := h.sorted ⟨k, hkd⟩ c (by simpa [Fin.le_def] using not_lt.mp hck)
        simpa [cutoff, sAt, hkd] using this
      have : o.s c = 0 := le_antisymm (hc ▸ hle) hs
      simp [this]
  rw [sketchM_stepO hk, ← h.recon, hfun]

theorem stepO_exact_of_rank_le {M : Matrix (Fin d) (Fin d) R} {o : SvdOut R d} (h : SpecM M o) (hk : k ≤ d)
    (hr : M.rank ≤ k) (β t : R) : sketchM (stepO k β t o) = M ∧ (stepO k β t o).t = β * t := by
  apply stepO_exact_of_cutoff_zero h hk
  unfold cutoff sAt
  split_ifs with hkd
  · exact sigma_zero_of_rank_le h hkd hr
  · rfl

theorem rank_conj_le (W : Matrix (Fin d) (Fin k) R) (X : Matrix (Fin k) (Fin k) R) : (W * X * Wᵀ).rank ≤ k :=
  ((Matrix.rank_mul_le_left _ _).trans (Matrix.rank_mul_le_left _ _)).trans (Matrix.rank_le_width W)

theorem sketchM_rank_le (st : State R d k) (β : R) : (β • sketchM st).rank ≤ k := by
  have : β • sketchM st = toM st.V * (β • diagonal st.l) * (toM st.V)ᵀ := by
    simp [sketchM, Matrix.smul_mul, Matrix.mul_smul]
  rw [this]
  exact rank_conj_le _ _

/-- zero-gradient step: sketch and escaped mass are both discounted by `β` -/
theorem stepO_zero_grad (sqrt : R → R) (hsq : ∀ x, 0 ≤ x → sqrt x * sqrt x = x) (β : R) (hβ : 0 ≤ β) (hk : k ≤ d)
    (st : State R d k) (hl : ∀ a, 0 ≤ st.l a) (o : SvdOut R d)
    (h : SvdSpec (fdB sqrt β st (fun _ _ => 0 : Mat R d m)) o) :
    sketchM (stepO k β st.t o) = β • sketchM st ∧ (stepO k β st.t o).t = β * st.t := by
  have hs := h.specM
  rw [gram_fdB sqrt hsq β hβ st hl] at hs
  have hz : toM (fun _ _ => 0 : Mat R d m) * (toM (fun _ _ => 0 : Mat R d m))ᵀ = 0 := by
    ext i j; simp [Matrix.mul_apply]
  rw [hz, add_zero] at hs
  exact stepO_exact_of_rank_le hs hk (sketchM_rank_le st β) β st.t

/-- a history inside a `k`-dimensional subspace (`G_i = W A_i`) is tracked exactly, with zero escaped mass -/
theorem fdRunFrom_low_rank (svd : SvdFn R d (k + m)) (sqrt : R → R) (hsq : ∀ x, 0 ≤ x → sqrt x * sqrt x = x)
    (β : R) (hβ : 0 ≤ β) (hk : k ≤ d) (W : Matrix (Fin d) (Fin k) R) (gs : List (Mat R d m)) :
    (∀ G ∈ gs, ∃ A : Matrix (Fin k) (Fin m) R, toM G = W * A) →
    ∀ (st : State R d k), (∀ a, 0 ≤ st.l a) → SpecAlong svd sqrt β st gs → st.t = 0 →
    (∃ X : Matrix (Fin k) (Fin k) R, sketchM st = W * X * Wᵀ) →
    sketchM (fdRunFrom svd sqrt β st gs) = covM β (sketchM st) gs ∧ (fdRunFrom svd sqrt β st gs).t = 0 := by
  induction gs with
  | nil => intro _ st _ _ ht _; exact ⟨rfl, ht⟩
  | cons G gs ih =>
    intro hW st hl hs ht hX
    obtain ⟨A, hA⟩ := hW G (List.mem_cons_self ..)
    obtain ⟨X, hX⟩ := hX
    have hspec := hs.1.specM
    rw [gram_fdB sqrt hsq β hβ st hl G] at hspec
    have hform : β • sketchM st + toM G * (toM G)ᵀ = W * (β • X + A * Aᵀ) * Wᵀ := by
      rw [hX, hA, Matrix.transpose_mul]
      simp only [Matrix.mul_add, Matrix.add_mul, Matrix.mul_smul, Matrix.smul_mul, Matrix.mul_assoc]
    have hr : (β • sketchM st + toM G * (toM G)ᵀ).rank ≤ k := by rw [hform]; exact rank_conj_le _ _
    obtain ⟨e1, e2⟩ := stepO_exact_of_rank_le hspec hk hr β st.t
    have hstep : fdStep svd sqrt β st G = stepO k β st.t (svd (fdB sqrt β st G)) := rfl
    have := ih (fun G' hG' => hW G' (List.mem_cons_of_mem _ hG')) (fdStep svd sqrt β st G)
      (stepO_l_nonneg β st.t _) hs.2 (by rw [hstep, e2, ht, mul_zero]) ⟨_, by rw [hstep, e1, hform]⟩
    rw [hstep, e1] at this
    exact this

end Rank

section Sk
variable {R : Type} [Field R] [LinearOrder R] [IsStrictOrderedRing R] {d k m : ℕ}

theorem relu_of_nonneg {x : R} (h : 0 ≤ x) : relu x = x := max_eq_left h

theorem sk_mask_facts (sqrt : R → R) (hsq : ∀ x, 0 ≤ x → sqrt x * sqrt x = x) (hs0 : ∀ x, 0 ≤ sqrt x)
    {s c : R} (hs : 0 ≤ s) (hc : 0 ≤ c) :
    let e := sqrt (relu (relu s - relu c)) * sqrt (relu s + relu c)
    (0 < e ↔ 0 < (s - c) * (s + c)) ∧ (0 < e → e * e = (s - c) * (s + c)) := by
  intro e
  have hz : sqrt 0 = 0 := mul_self_eq_zero.mp (hsq 0 le_rfl)
  simp only [e, relu_of_nonneg hs, relu_of_nonneg hc]
  by_cases hlt : c < s
  · have h1 : 0 < s - c := sub_pos.mpr hlt
    have h2 : 0 < s + c := by linarith
    rw [relu_of_nonneg h1.le]
    have q1 := hsq _ h1.le
    have q2 := hsq _ h2.le
    have p1 : 0 < sqrt (s - c) := lt_of_le_of_ne (hs0 _) (fun h => by rw [← h] at q1; simp at q1; linarith)
    have p2 : 0 < sqrt (s + c) := lt_of_le_of_ne (hs0 _) (fun h => by rw [← h] at q2; simp at q2; linarith)
    refine ⟨⟨fun _ => mul_pos h1 h2, fun _ => mul_pos p1 p2⟩, fun _ => ?_⟩
    calc sqrt (s - c) * sqrt (s + c) * (sqrt (s - c) * sqrt (s + c))
        = (sqrt (s - c) * sqrt (s - c)) * (sqrt (s + c) * sqrt (s + c)) := by ring
      _ = _ := by rw [q1, q2]
  · have h1 : s - c ≤ 0 := by linarith [not_lt.mp hlt]
    have : relu (s - c) = 0 := max_eq_right h1
    rw [this, hz, zero_mul]
    have h2 : 0 ≤ s + c := by linarith
    have : (s - c) * (s + c) ≤ 0 := mul_nonpos_of_nonpos_of_nonneg h1 h2
    exact ⟨⟨fun h => absurd h (lt_irrefl _), fun h => absurd (lt_of_lt_of_le h this) (lt_irrefl _)⟩,
      fun h => absurd h (lt_irrefl _)⟩

theorem ite_bool_congr {b1 b2 : Bool} (h : b1 = b2) (x y : R) :
    (if b1 = true then x else y) = if b2 = true then x else y := by subst h; rfl

theorem sq_ite {b1 b2 : Bool} (h : b1 = b2) (x r : R) (hx : b1 = true → x * x = r) :
    (if b1 = true then x else 0) * (if b1 = true then x else 0) = if b2 = true then r else 0 := by
  subst h; cases b1 <;> simp_all

/-- Sketchy's root-storage update denotes the generic step: `(V', e'², t') = stepO …` -/
theorem sketchy_denote (sqrt pw : R → R) (hsq : ∀ x, 0 ≤ x → sqrt x * sqrt x = x) (hs0 : ∀ x, 0 ≤ sqrt x)
    (epsilon : R) (relative : Bool) (β : R) (st : SkState R d k) (o : SvdOut R d) (hnn : ∀ a, 0 ≤ o.s a) :
    (sketchyUpdateAxisO sqrt pw epsilon relative β st o).st.denote = stepO k β st.t o := by
  have hsAt : ∀ i, 0 ≤ sAt o.s i := by
    intro i; unfold sAt; split_ifs
    · exact hnn _
    · exact le_rfl
  have hc : 0 ≤ cutoff k o := hsAt k
  have key := fun a : Fin k => sk_mask_facts sqrt hsq hs0 (hsAt a.1) hc
  simp only [sketchyUpdateAxisO, SkState.denote, stepO, State.mk.injEq]
  refine ⟨?_, ?_, ?_⟩
  · funext i a
    have hiff := (key a).1
    exact ite_bool_congr (Bool.eq_iff_iff.mpr
      ⟨fun h => decide_eq_true (hiff.mp (of_decide_eq_true h)),
       fun h => decide_eq_true (hiff.mpr (of_decide_eq_true h))⟩) _ _
  · funext a
    have hiff := (key a).1
    have hsq' := (key a).2
    exact sq_ite (Bool.eq_iff_iff.mpr
      ⟨fun h => decide_eq_true (hiff.mp (of_decide_eq_true h)),
       fun h => decide_eq_true (hiff.mpr (of_decide_eq_true h))⟩) _ _ (fun h => hsq' (of_decide_eq_true h))
  · rw [relu_of_nonneg hc, rho]; ring
end Sk

section SkBracket
variable {R : Type} [Field R] [LinearOrder R] [IsStrictOrderedRing R] [StarRing R] [TrivialStar R]
  [StarOrderedRing R] {d k m : ℕ}

/-- `B Bᵀ = β · V diag(e²) Vᵀ + G Gᵀ` for the matrix Sketchy hands to the SVD (the QR pre-reduction keeps `B Bᵀ`) -/
theorem gram_sketchyB (sqrt : R → R) (hsq : ∀ x, 0 ≤ x → sqrt x * sqrt x = x) (β : R) (hβ : 0 ≤ β)
    (st : SkState R d k) (G : Mat R d m) :
    toM (outer (sketchyB sqrt β st G)) = β • sketchM st.denote + toM G * (toM G)ᵀ := by
  ext i j
  rw [Matrix.add_apply, Matrix.smul_apply, sketchM, mdt_apply]
  simp only [toM_apply, outer, sumFin_eq, sketchyB, Fin.sum_univ_add, Fin.addCases_left, Fin.addCases_right,
    Matrix.mul_apply, Matrix.transpose_apply, smul_eq_mul, Finset.mul_sum, SkState.denote]
  congr 1
  refine Finset.sum_congr rfl fun a _ => ?_
  have h1 := hsq β hβ
  linear_combination (st.V i a * st.V j a * st.e a * st.e a) * h1

theorem sketchy_bracket (sqrt pw : R → R) (hsq : ∀ x, 0 ≤ x → sqrt x * sqrt x = x) (hs0 : ∀ x, 0 ≤ sqrt x)
    (epsilon : R) (relative : Bool) (β : R) (hβ : 0 ≤ β) (hk : k ≤ d) (st : SkState R d k) (G : Mat R d m)
    (o : SvdOut R d) (h : SvdSpec (sketchyB sqrt β st G) o) (C : Matrix (Fin d) (Fin d) R)
    (hlo : (C - sketchM st.denote).PosSemidef)
    (hhi : (sketchM st.denote + st.t • (1 : Matrix (Fin d) (Fin d) R) - C).PosSemidef) :
    let st' := (sketchyUpdateAxisO sqrt pw epsilon relative β st o).st.denote
    (β • C + toM G * (toM G)ᵀ - sketchM st').PosSemidef ∧
    (sketchM st' + st'.t • (1 : Matrix (Fin d) (Fin d) R) - (β • C + toM G * (toM G)ᵀ)).PosSemidef := by
  intro st'
  have hs := h.specM
  rw [gram_sketchyB sqrt hsq β hβ st G] at hs
  have hden : st' = stepO k β st.t o := sketchy_denote sqrt pw hsq hs0 epsilon relative β st o h.nonneg
  rw [hden]
  exact bracket_core β st.t hβ hk hs hlo hhi

end SkBracket

section GuardLemmas
variable {R : Type} [Field R] [LinearOrder R] [IsStrictOrderedRing R] [StarRing R] [TrivialStar R]
  [StarOrderedRing R] {d k : ℕ}

theorem sqrt_zero' (sqrt : R → R) (hsq : ∀ x, 0 ≤ x → sqrt x * sqrt x = x) : sqrt 0 = 0 :=
  mul_self_eq_zero.mp (hsq 0 le_rfl)

theorem sqrt_one' (sqrt : R → R) (hsq : ∀ x, 0 ≤ x → sqrt x * sqrt x = x) (hs0 : ∀ x, 0 ≤ sqrt x) : sqrt 1 = 1 := by
  have h1 := hsq 1 zero_le_one
  have h0 := hs0 1
  have : (sqrt 1 - 1) * (sqrt 1 + 1) = 0 := by linear_combination h1
  rcases mul_eq_zero.mp this with h | h
  · linarith
  · linarith

/-- a kept direction has a strictly positive singular value -/
theorem kept_sq_pos {M : Matrix (Fin d) (Fin d) R} {o : SvdOut R d} (h : SpecM M o) (a : Fin k)
    (hka : kept k o a = true) : 0 < sAt o.s a.1 * sAt o.s a.1 := by
  have hpos : 0 < (sAt o.s a.1 - cutoff k o) * (sAt o.s a.1 + cutoff k o) := of_decide_eq_true hka
  have hc : 0 ≤ cutoff k o := cutoff_nonneg h
  have hs : 0 ≤ sAt o.s a.1 := by
    unfold sAt; split_ifs
    · exact h.nonneg _
    · exact le_rfl
  have : 0 < sAt o.s a.1 := by
    by_contra hn
    have h0 : sAt o.s a.1 = 0 := le_antisymm (not_lt.mp hn) hs
    rw [h0] at hpos
    nlinarith
  exact mul_pos this this

theorem stepO_V_of_not_kept (β t : R) (o : SvdOut R d) (i : Fin d) (a : Fin k) (hka : ¬ kept k o a = true) :
    (stepO k β t o).V i a = 0 := by simp [stepO, hka]

theorem stepO_l_of_not_kept (β t : R) (o : SvdOut R d) (a : Fin k) (hka : ¬ kept k o a = true) :
    (stepO k β t o).l a = 0 := by simp [stepO, hka]

theorem stepO_l_pos_iff (β t : R) (o : SvdOut R d) (a : Fin k) :
    0 < (stepO k β t o).l a ↔ kept k o a = true := by
  constructor
  · intro hp
    by_contra hka
    rw [stepO_l_of_not_kept β t o a hka] at hp
    exact lt_irrefl _ hp
  · intro hka
    have : (stepO k β t o).l a = deflRaw k o a := by simp [stepO, hka]
    rw [this]
    exact of_decide_eq_true hka

/-- the unit-norm guard is the identity on the output of a step whose SVD meets its specification -/
theorem guardNorm_id (sqrt : R → R) (hsq : ∀ x, 0 ≤ x → sqrt x * sqrt x = x) (hs0 : ∀ x, 0 ≤ sqrt x)
    (g : Guards R) (hlo : g.lo ≤ 1) (hhi : 1 ≤ g.hi) {M : Matrix (Fin d) (Fin d) R} {o : SvdOut R d}
    (h : SpecM M o) (hk : k ≤ d) (β t : R) :
    guardNorm sqrt g (stepO k β t o).V (stepO k β t o).l = ((stepO k β t o).V, (stepO k β t o).l) := by
  have hnorm : ∀ a : Fin k, kept k o a = true → colNorm sqrt (stepO k β t o).V a = 1 := by
    intro a hka
    have := stepO_colGram h hk β t a a
    simp only [hka, and_self, if_true, colGram] at this
    unfold colNorm
    rw [this]
    exact sqrt_one' sqrt hsq hs0
  have hsafe : safeNormed g (1 : R) = true := by
    simp [safeNormed, hlo, hhi]
  unfold guardNorm
  refine Prod.ext ?_ ?_
  · funext i a
    by_cases hka : kept k o a = true
    · simp only [hnorm a hka, hsafe, if_true, ind, mul_one, div_one]
    · simp only [stepO_V_of_not_kept β t o i a hka, zero_mul, zero_div]
  · funext a
    by_cases hka : kept k o a = true
    · simp only [hnorm a hka, hsafe, if_true, ind, mul_one]
    · simp only [stepO_l_of_not_kept β t o a hka, zero_mul]

theorem absV_zero : absV (0 : R) = 0 := by simp [absV]

/-- the padding-mass guard is the identity when no column has weight on the padding rows -/
theorem guardPad_id (g : Guards R) (hthr : 0 ≤ g.thr) (ps : ℕ) (V : Mat R d k) (l : Vec R k)
    (hpad : ∀ i a, V i a * padIx ps i.1 = 0) : guardPad g ps V l = (V, l) := by
  have hm : ∀ a, padMass ps V a = 0 := by
    intro a
    unfold padMass
    rw [sumFin_eq]
    exact Finset.sum_eq_zero fun i _ => by rw [hpad i a, absV_zero]
  have hd : ∀ a, decide (g.thr < padMass ps V a) = false := by
    intro a
    rw [hm a]
    exact decide_eq_false (not_lt.mpr hthr)
  unfold guardPad
  refine Prod.ext ?_ ?_
  · funext i a; simp only [hd a, ind, Bool.false_eq_true, if_false, sub_zero, mul_one]
  · funext a; simp only [hd a, ind, Bool.false_eq_true, if_false, sub_zero, mul_one]

/-- `M U = U diag(s²)` column by column -/
theorem spec_col_eig {M : Matrix (Fin d) (Fin d) R} {o : SvdOut R d} (h : SpecM M o) (i a : Fin d) :
    ∑ j, M i j * o.U j a = o.U i a * (o.s a * o.s a) := by
  have hMU : M * toM o.U = toM o.U * diagonal (fun a => o.s a * o.s a) := by
    rw [← h.recon, Matrix.mul_assoc, h.utu, Matrix.mul_one]
  have := congrFun (congrFun hMU i) a
  rw [Matrix.mul_apply, Matrix.mul_diagonal] at this
  simpa using this

/-- a kept singular vector vanishes on every row on which `M = B Bᵀ` vanishes -/
theorem kept_col_zero_of_row_zero {M : Matrix (Fin d) (Fin d) R} {o : SvdOut R d} (h : SpecM M o) (hk : k ≤ d)
    (i : Fin d) (hrow : ∀ j, M i j = 0) (a : Fin k) (hka : kept k o a = true) : uAt o.U i a.1 = 0 := by
  have ha : a.1 < d := lt_of_lt_of_le a.2 hk
  have he := spec_col_eig h i ⟨a.1, ha⟩
  have hz : ∑ j, M i j * o.U j ⟨a.1, ha⟩ = 0 := Finset.sum_eq_zero fun j _ => by rw [hrow j, zero_mul]
  rw [hz] at he
  have hpos := kept_sq_pos h a hka
  rw [show sAt o.s a.1 = o.s ⟨a.1, ha⟩ from by simp [sAt, ha]] at hpos
  have : o.U i ⟨a.1, ha⟩ = 0 := by
    rcases mul_eq_zero.mp he.symm with h1 | h1
    · exact h1
    · exact absurd h1 hpos.ne'
  simp [uAt, ha, this]

/-- the rows `≥ padding_start` of the matrix `_fd_update_root` hands to the SVD are zero (both blocks are masked) -/
theorem dsB_row_zero (sqrt : R → R) (cfg : DsCfg R) (st : State R d k) (G : Mat R d d) (i : Fin d)
    (hi : cfg.ps ≤ i.1) (c : Fin (k + d)) : dsB sqrt cfg st G i c = 0 := by
  have hact : active (α := R) cfg.ps i.1 = 0 := by simp [active, not_lt.mpr hi]
  unfold dsB fdB
  induction c using Fin.addCases with
  | left a => rw [Fin.addCases_left]; simp [dsInput, hact]
  | right c => rw [Fin.addCases_right]; simp [dsMaskG, hact]

theorem ds_stepO_pad_zero (sqrt : R → R) (cfg : DsCfg R) (hk : k ≤ d) (st : State R d k) (G : Mat R d d)
    (o : SvdOut R d) (h : SvdSpec (dsB sqrt cfg st G) o) (β t : R) (i : Fin d) (a : Fin k) :
    (stepO k β t o).V i a * padIx cfg.ps i.1 = 0 := by
  by_cases hi : i.1 < cfg.ps
  · simp [padIx, hi]
  · by_cases hka : kept k o a = true
    · have hrow : ∀ j, toM (outer (dsB sqrt cfg st G)) i j = 0 := by
        intro j
        simp only [toM_apply, outer, sumFin_eq]
        exact Finset.sum_eq_zero fun c _ => by rw [dsB_row_zero sqrt cfg st G i (not_lt.mp hi) c, zero_mul]
      have := kept_col_zero_of_row_zero h.specM hk i hrow a hka
      simp [stepO, hka, this]
    · rw [stepO_V_of_not_kept β t o i a hka, zero_mul]

/-- **the guards are identities**: under `SvdSpec` the code-shaped guarded `_fd_update_root` returns exactly
what the unguarded model returns -/
theorem dsFdUpdateRootG_eq (sqrt pw : R → R) (hsq : ∀ x, 0 ≤ x → sqrt x * sqrt x = x) (hs0 : ∀ x, 0 ≤ sqrt x)
    (g : Guards R) (hlo : g.lo ≤ 1) (hhi : 1 ≤ g.hi) (hthr : 0 ≤ g.thr) (cfg : DsCfg R) (hβ : 0 ≤ cfg.β)
    (hk : k ≤ d) (st : State R d k) (ht : 0 ≤ st.t) (G : Mat R d d) (o : SvdOut R d)
    (h : SvdSpec (dsB sqrt cfg st G) o) :
    dsFdUpdateRootG sqrt pw g cfg st o = dsFdUpdateRootO pw cfg st o := by
  unfold dsFdUpdateRootG dsFdUpdateRootO
  by_cases hps : cfg.ps = 0
  · simp only [hps, if_true]
  · simp only [hps, if_false]
    have h1 := guardNorm_id sqrt hsq hs0 g hlo hhi h.specM hk cfg.β st.t
    rw [h1]
    have h2 := guardPad_id g hthr cfg.ps (stepO k cfg.β st.t o).V (stepO k cfg.β st.t o).l
      (ds_stepO_pad_zero sqrt cfg hk st G o h cfg.β st.t)
    simp only [h2]
    have hinv : (fun a : Fin k =>
        if (sAt o.s a.1 * sAt o.s a.1 + cfg.β * st.t) * ind (decide (0 < (stepO k cfg.β st.t o).l a)) ≤ 0 then 0
        else pw ((sAt o.s a.1 * sAt o.s a.1 + cfg.β * st.t) * ind (decide (0 < (stepO k cfg.β st.t o).l a))))
        = invRoots k pw 0 cfg.β st.t o := by
      funext a
      unfold invRoots
      by_cases hka : kept k o a = true
      · have hp : 0 < (stepO k cfg.β st.t o).l a := (stepO_l_pos_iff cfg.β st.t o a).mpr hka
        have hpos : 0 < sAt o.s a.1 * sAt o.s a.1 + cfg.β * st.t :=
          add_pos_of_pos_of_nonneg (kept_sq_pos h.specM a hka) (mul_nonneg hβ ht)
        have hd : decide (0 < (stepO k cfg.β st.t o).l a) = true := decide_eq_true hp
        rw [hd]
        simp only [ind, if_true, mul_one, hka, add_zero]
        rw [if_neg (not_le.mpr hpos)]
      · have hp : ¬ 0 < (stepO k cfg.β st.t o).l a := fun hp => hka ((stepO_l_pos_iff cfg.β st.t o a).mp hp)
        have hd : decide (0 < (stepO k cfg.β st.t o).l a) = false := decide_eq_false hp
        rw [hd]
        simp [ind, hka]
    have hz : ((List.finRange k).any fun a => decide ((stepO k cfg.β st.t o).l a ≤ 0))
        = ((List.finRange k).any fun a => !(kept k o a)) := by
      congr 1
      funext a
      by_cases hka : kept k o a = true
      · have hp := (stepO_l_pos_iff cfg.β st.t o a).mpr hka
        rw [decide_eq_false (not_le.mpr hp), hka]; rfl
      · rw [stepO_l_of_not_kept cfg.β st.t o a hka, decide_eq_true (le_refl (0 : R))]
        simp [hka]
    have htl : decide ((if 0 < (stepO k cfg.β st.t o).t then (stepO k cfg.β st.t o).t else 0) ≤ 0)
        = !(decide (0 < (stepO k cfg.β st.t o).t)) := by
      by_cases hp : 0 < (stepO k cfg.β st.t o).t
      · rw [if_pos hp, decide_eq_false (not_le.mpr hp), decide_eq_true hp]; rfl
      · rw [if_neg hp, decide_eq_true (le_refl (0 : R)), decide_eq_false hp]; rfl
    rw [hinv, hz, htl]
end GuardLemmas

section Oco
variable {R : Type} [Field R] [LinearOrder R] [IsStrictOrderedRing R] [StarRing R] [TrivialStar R]
  [StarOrderedRing R] {d k n : ℕ}

/-- the gradient as a one-column factor -/
def colOf (g : Vec R n) : Mat R n 1 := fun j _ => g j

theorem gram_ocoB (st : OcoState R k n) (g : Vec R n) :
    toM (outer (ocoB st g)) = sketchM st.denote + toM (colOf g) * (toM (colOf g))ᵀ := by
  ext i j
  have hN : (toM (colOf g) * (toM (colOf g))ᵀ) i j = g i * g j := by
    simp [Matrix.mul_apply, colOf]
  rw [Matrix.add_apply, sketchM, mdt_apply, hN]
  simp only [toM_apply, outer, sumFin_eq, ocoB, Fin.sum_univ_castSucc,
    OcoState.denote, if_true, Fin.castSucc_ne_last, if_false]
  congr 1
  refine Finset.sum_congr rfl fun a _ => ?_
  ring

theorem sAt_nonneg {M : Matrix (Fin d) (Fin d) R} {o : SvdOut R d} (h : SpecM M o) (i : ℕ) : 0 ≤ sAt o.s i := by
  unfold sAt; split_ifs
  · exact h.nonneg _
  · exact le_rfl

theorem cutoff_le_sAt {M : Matrix (Fin d) (Fin d) R} {o : SvdOut R d} (h : SpecM M o) (a : Fin k) :
    cutoff k o ≤ sAt o.s a.1 := by
  unfold cutoff
  by_cases hkd : k < d
  · have ha : a.1 < d := lt_trans a.2 hkd
    have := h.sorted ⟨a.1, ha⟩ ⟨k, hkd⟩ (by simpa [Fin.le_def] using a.2.le)
    simpa [sAt, hkd, ha] using this
  · have : sAt o.s k = 0 := by simp [sAt, hkd]
    rw [this]; exact sAt_nonneg h _

/-- the OCO update keeps every row of `vt` (no masking); the sketch it denotes is the generic one -/
theorem oco_sketch_eq (sqrt : R → R) (hsq : ∀ x, 0 ≤ x → sqrt x * sqrt x = x) {M : Matrix (Fin n) (Fin n) R}
    (st : OcoState R k n) (o : SvdOut R n) (h : SpecM M o) :
    sketchM (ocoFdUpdateO sqrt st o).denote = sketchM (stepO k 1 st.t o) ∧
    (ocoFdUpdateO sqrt st o).denote.t = (stepO k 1 st.t o).t := by
  refine ⟨?_, by simp [ocoFdUpdateO, OcoState.denote, stepO, rho, cutoff]⟩
  ext i j
  rw [sketchM, sketchM, mdt_apply, mdt_apply]
  refine Finset.sum_congr rfl fun a _ => ?_
  have hraw : 0 ≤ (sAt o.s a.1 - cutoff k o) * (sAt o.s a.1 + cutoff k o) :=
    mul_nonneg (sub_nonneg.mpr (cutoff_le_sAt h a)) (add_nonneg (sAt_nonneg h _) (cutoff_nonneg h))
  have hs := hsq _ hraw
  simp only [toM_apply, ocoFdUpdateO, OcoState.denote, Fin.val_castSucc]
  change uAt o.U i a.1 * (sqrt ((sAt o.s a.1 - cutoff k o) * (sAt o.s a.1 + cutoff k o)) *
      sqrt ((sAt o.s a.1 - cutoff k o) * (sAt o.s a.1 + cutoff k o))) * uAt o.U j a.1 = _
  rw [hs]
  by_cases hka : kept k o a = true
  · simp [stepO, hka, deflRaw]
  · have h0 : (sAt o.s a.1 - cutoff k o) * (sAt o.s a.1 + cutoff k o) = 0 :=
      le_antisymm (not_lt.mp fun hp => hka (decide_eq_true hp)) hraw
    rw [h0]
    simp [stepO, hka]

theorem oco_bracket (sqrt : R → R) (hsq : ∀ x, 0 ≤ x → sqrt x * sqrt x = x) (hk : k ≤ n)
    (st : OcoState R k n) (g : Vec R n) (o : SvdOut R n) (h : SvdSpec (ocoB st g) o)
    (C : Matrix (Fin n) (Fin n) R) (hlo : (C - sketchM st.denote).PosSemidef)
    (hhi : (sketchM st.denote + st.t • (1 : Matrix (Fin n) (Fin n) R) - C).PosSemidef) :
    (C + toM (colOf g) * (toM (colOf g))ᵀ - sketchM (ocoFdUpdateO sqrt st o).denote).PosSemidef ∧
    (sketchM (ocoFdUpdateO sqrt st o).denote + (ocoFdUpdateO sqrt st o).t • (1 : Matrix (Fin n) (Fin n) R)
      - (C + toM (colOf g) * (toM (colOf g))ᵀ)).PosSemidef := by
  have hs := h.specM
  rw [gram_ocoB] at hs
  obtain ⟨e1, e2⟩ := oco_sketch_eq sqrt hsq st o hs
  have hs1 : SpecM ((1 : R) • sketchM st.denote + toM (colOf g) * (toM (colOf g))ᵀ) o := by rwa [one_smul]
  have := bracket_core (k := k) (1 : R) st.t zero_le_one hk hs1 hlo hhi
  rw [one_smul] at this
  have e3 : (ocoFdUpdateO sqrt st o).t = (stepO k 1 st.t o).t := e2
  rw [e1, e3]
  exact this
end Oco

section Cut
variable {α : Type} [Zero α] [One α] [Add α] [Sub α] [Mul α] {D k : ℕ}

theorem publicReload_V (dim : ℕ) (st : State α D k) (inv : Vec α k) (c f : α) (i : Fin D) (a : Fin k) :
    (publicReload dim st inv c f).V i a = if i.1 < dim then st.V i a else 0 := by
  simp [publicReload, unpackState, cutRepad, packState, packN, a.2, i.2]

theorem publicReload_l (dim : ℕ) (st : State α D k) (inv : Vec α k) (c f : α) (a : Fin k) :
    (publicReload dim st inv c f).l a = if D - k + a.1 < dim then st.l a else 0 := by
  have h1 : ¬ (k + 1 < k) := by omega
  have h2 : ¬ (k + 1 = k) := by omega
  have h3 : D - k ≤ D - k + a.1 := Nat.le_add_right _ _
  have h4 : D - k + a.1 - (D - k) = a.1 := by omega
  simp [publicReload, unpackState, cutRepad, packState, packN, h1, h2, h3, h4, a.2]

theorem publicReload_t (hD : k + 2 < D) (dim : ℕ) (hdim : 1 < dim) (st : State α D k) (inv : Vec α k) (c f : α) :
    (publicReload dim st inv c f).t = st.t := by
  have h1 : ¬ (k + 1 < k) := by omega
  have h2 : ¬ (k + 1 = k) := by omega
  have h3 : ¬ (D - k ≤ 1) := by omega
  simp [publicReload, unpackState, cutRepad, packState, packN, h1, h2, h3, hdim]
end Cut

end PrecondVerif.FD
