/-
Lemmas for the scoring / traversal / returned-dict model of C17 (`Model/ReallocState.lean`).
-/
import PrecondVerif.Lemmas.Realloc
import PrecondVerif.Model.ReallocState

namespace PrecondVerif.Realloc
open List

/-! ### scores are non-negative on states that satisfy the Sketchy invariants -/

section field
variable {α : Type} [Field α] [LinearOrder α] [IsStrictOrderedRing α]

/-- The Sketchy state invariants the scoring relies on (C09: `stepO_l_nonneg`, `stepO_t_nonneg` give
`eigvals ≥ 0`, `tail ≥ 0`; `ema_ggt` is an EMA of Gram matrices, so its diagonal is `≥ 0`; the spectral
norm returned by the external kernel is `≥ 0`). -/
def LeafInv : Leaf α → Prop
  | .scalar x => 0 ≤ x
  | .vec xs => ∀ x ∈ xs, 0 ≤ x
  | .mat rows nrm => (∀ x ∈ diagFrom 0 rows, 0 ≤ x) ∧ 0 ≤ nrm
  | _ => True

theorem foldl_add_nonneg (xs : List α) (h : ∀ x ∈ xs, 0 ≤ x) (acc : α) (ha : 0 ≤ acc) :
    0 ≤ xs.foldl (· + ·) acc := by
  induction xs generalizing acc with
  | nil => simpa using ha
  | cons x xs ih =>
    simp only [List.foldl_cons]
    exact ih (fun y hy => h y (List.mem_cons_of_mem _ hy)) _ (add_nonneg ha (h x (List.mem_cons_self)))

theorem total_nonneg (xs : List α) (h : ∀ x ∈ xs, 0 ≤ x) : 0 ≤ total xs :=
  foldl_add_nonneg xs h 0 le_rfl

omit [IsStrictOrderedRing α] in
theorem foldl_max_nonneg (xs : List α) (a : α) (ha : 0 ≤ a) (h : ∀ x ∈ xs, 0 ≤ x) :
    0 ≤ xs.foldl (fun a b => if a < b then b else a) a := by
  induction xs generalizing a with
  | nil => simpa using ha
  | cons x xs ih =>
    simp only [List.foldl_cons]
    apply ih
    · split
      · exact h x List.mem_cons_self
      · exact ha
    · exact fun y hy => h y (List.mem_cons_of_mem _ hy)

omit [IsStrictOrderedRing α] in
theorem maxL_nonneg (xs : List α) (h : ∀ x ∈ xs, 0 ≤ x) : 0 ≤ maxL xs := by
  cases xs with
  | nil => simp [maxL]
  | cons x xs =>
    exact foldl_max_nonneg xs x (h x List.mem_cons_self) (fun y hy => h y (List.mem_cons_of_mem _ hy))

theorem opVal_nonneg (rule : Rule) (l : Leaf α) (hl : LeafInv l) (v : α) (hv : opVal rule l = some v) : 0 ≤ v := by
  cases rule <;> cases l <;> simp only [opVal, Option.some.injEq, reduceCtorEq] at hv <;> subst hv
  · exact div_nonneg (total_nonneg _ hl.1) hl.2
  · exact total_nonneg _ hl.1
  · exact hl
  · split
    · exact div_nonneg (total_nonneg _ hl) (maxL_nonneg _ hl)
    · exact le_rfl
  · exact total_nonneg _ hl

theorem meanL_nonneg (ofNat : Nat → α) (hof : ∀ n, 0 ≤ ofNat n) (recip : Bool) (vs : List α)
    (h : ∀ x ∈ vs, 0 ≤ x) : 0 ≤ meanL ofNat recip vs := by
  unfold meanL
  split
  · exact mul_nonneg (total_nonneg _ h) (div_nonneg (hof _) (hof _))
  · exact div_nonneg (total_nonneg _ h) (hof _)

/-- every statistic leaf `rule` reads anywhere in `sk` satisfies the state invariants -/
def ReadInv (rule : Rule) (sk : Tree α) : Prop :=
  ∀ (name : Path) (node : Tree α) (l : Leaf α), sk.getPath? name = some node →
    node.get? rule.target = some (.leaf l) → LeafInv l

theorem statOf_nonneg (rule : Rule) (name : Path) (sk : Tree α) (h : ReadInv rule sk) (v : α)
    (hv : statOf rule name sk = .ok v) : 0 ≤ v := by
  unfold statOf at hv
  split at hv
  · cases hv
  · rename_i node hnode
    split at hv
    · cases hv
    · cases hv
    · rename_i l hl
      split at hv
      · rename_i v' hv'
        cases hv
        exact opVal_nonneg rule l (h name node l hnode hl) _ hv'
      · cases hv

theorem statsOf_nonneg (rule : Rule) (name : Path) (sks : List (Tree α)) (h : ∀ sk ∈ sks, ReadInv rule sk)
    (vs : List α) (hv : statsOf rule name sks = .ok vs) : ∀ v ∈ vs, 0 ≤ v := by
  induction sks generalizing vs with
  | nil => simp only [statsOf, Except.ok.injEq] at hv; subst hv; simp
  | cons sk sks ih =>
    unfold statsOf at hv
    split at hv
    · cases hv
    · rename_i v hv1
      split at hv
      · cases hv
      · rename_i vs' hvs'
        cases hv
        intro x hx
        rcases List.mem_cons.mp hx with rfl | hx
        · exact statOf_nonneg rule name sk (h sk List.mem_cons_self) _ hv1
        · exact ih (fun s hs => h s (List.mem_cons_of_mem _ hs)) vs' hvs' x hx

theorem scoreOf_nonneg (ofNat : Nat → α) (hof : ∀ n, 0 ≤ ofNat n) (recip : Bool) (rule : Rule)
    (sks : List (Tree α)) (h : ∀ sk ∈ sks, ReadInv rule sk) (name : Path) (s : α)
    (hs : scoreOf ofNat recip rule sks name = .ok s) : 0 ≤ s := by
  unfold scoreOf at hs
  split at hs
  · cases hs
  · rename_i vs hvs
    cases hs
    exact meanL_nonneg ofNat hof recip vs (statsOf_nonneg rule name sks h vs hvs)

/-- every group key read in `sk` is at least 1 (`dim` fields and `eigvecs.shape[0]`) -/
def DimInv (sk : Tree α) : Prop :=
  ∀ (name : Path) (node : Tree α), sk.getPath? name = some node →
    (∀ n, node.get? "dim" = some (.leaf (.int n)) → 1 ≤ n) ∧
    (∀ d ds, node.get? "eigvecs" = some (.leaf (.shape (d :: ds))) → 1 ≤ d)

omit [Field α] [LinearOrder α] [IsStrictOrderedRing α] in
theorem dimOf_ge_one (sk : Tree α) (h : DimInv sk) (name : Path) (d : Nat) (hd : dimOf sk name = .ok d) : 1 ≤ d := by
  unfold dimOf at hd
  split at hd
  · cases hd
  · rename_i node hnode
    split at hd
    · rename_i n hn
      cases hd
      exact (h name node hnode).1 _ hn
    · cases hd
    · split at hd
      · rename_i d' ds hd'
        cases hd
        exact (h name node hnode).2 _ _ hd'
      · cases hd
      · cases hd

theorem axesFor_spec (ofNat : Nat → α) (hof : ∀ n, 0 ≤ ofNat n) (recip : Bool) (rule : Rule)
    (last : Tree α) (hdim : DimInv last) (sks : List (Tree α)) (h : ∀ sk ∈ sks, ReadInv rule sk)
    (order : List Path) (axes : List (Path × Nat × α))
    (ha : axesFor ofNat recip rule last sks order = .ok axes) :
    axes.map Prod.fst = order ∧ ∀ a ∈ axes, 1 ≤ a.2.1 ∧ 0 ≤ a.2.2 := by
  induction order generalizing axes with
  | nil => simp only [axesFor, Except.ok.injEq] at ha; subst ha; simp
  | cons name rest ih =>
    unfold axesFor at ha
    split at ha
    · cases ha
    · rename_i d hd
      split at ha
      · cases ha
      · rename_i s hs
        split at ha
        · cases ha
        · rename_i r hr
          cases ha
          obtain ⟨h1, h2⟩ := ih r hr
          refine ⟨by simp [h1], ?_⟩
          intro a ha'
          rcases List.mem_cons.mp ha' with rfl | ha'
          · exact ⟨dimOf_ge_one last hdim name d hd, scoreOf_nonneg ofNat hof recip rule sks h name s hs⟩
          · exact h2 a ha'

omit [Field α] [LinearOrder α] [IsStrictOrderedRing α] in
theorem sketchesAll_mem (sts : List (Tree α)) (sks : List (Tree α)) (h : sketchesAll sts = .ok sks) :
    ∀ sk ∈ sks, ∃ st ∈ sts, sketchesOf st = .ok sk := by
  induction sts generalizing sks with
  | nil => simp only [sketchesAll, Except.ok.injEq] at h; subst h; simp
  | cons st sts ih =>
    unfold sketchesAll at h
    split at h
    · cases h
    · rename_i sk hsk
      split at h
      · cases h
      · rename_i sks' hsks'
        cases h
        intro x hx
        rcases List.mem_cons.mp hx with rfl | hx
        · exact ⟨st, List.mem_cons_self, hsk⟩
        · obtain ⟨st', hst', h'⟩ := ih sks' hsks' x hx
          exact ⟨st', List.mem_cons_of_mem _ hst', h'⟩

/-- the invariants of a tuple of optimizer states, as far as `rule` reads them -/
def StatesInv (rule : Rule) (states : List (Tree α)) : Prop :=
  ∀ st ∈ states, ∀ sk, sketchesOf st = .ok sk → ReadInv rule sk ∧ DimInv sk

theorem axesOf_spec (ofNat : Nat → α) (hof : ∀ n, 0 ≤ ofNat n) (recip : Bool) (rule : Rule) (avg : Bool)
    (states : List (Tree α)) (hinv : StatesInv rule states) (order : List Path)
    (n : Nat) (axes : List (Path × Nat × α))
    (ha : axesOf ofNat recip rule avg states order = .ok (n, axes)) :
    axes.map Prod.fst = order ∧ ∀ a ∈ axes, 1 ≤ a.2.1 ∧ 0 ≤ a.2.2 := by
  unfold axesOf at ha
  split at ha
  · cases ha
  · rename_i lastSt hlast
    have hmem : lastSt ∈ states := List.mem_of_getLast? hlast
    split at ha
    · cases ha
    · rename_i last hl
      split at ha
      · cases ha
      · rename_i names hnames
        split at ha
        · cases ha
        · split at ha
          · cases ha
          · rename_i sks hsks
            split at ha
            · cases ha
            · rename_i axes' hax
              cases ha
              refine axesFor_spec ofNat hof recip rule last (hinv lastSt hmem last hl).2 sks ?_ order axes hax
              intro sk hsk
              by_cases havg : avg = true
              · rw [if_pos havg] at hsks
                obtain ⟨st, hst, h'⟩ := sketchesAll_mem states sks hsks sk hsk
                exact (hinv st hst sk h').1
              · rw [if_neg havg] at hsks
                cases hsks
                rw [List.mem_singleton] at hsk
                subst hsk
                exact (hinv lastSt hmem _ hl).1

end field

/-! ### the returned dictionary as a finite map -/

theorem lookupRow_setRow (dir : Path) (row : List Int) (m : PathMap) (d : Path) :
    lookupRow d (setRow dir row m) = if dir = d then some row else lookupRow d m := by
  induction m with
  | nil => simp [setRow, lookupRow]
  | cons e m ih =>
    obtain ⟨d0, r0⟩ := e
    by_cases h0 : d0 = dir
    · subst h0
      by_cases hd : d0 = d <;> simp [setRow, lookupRow, hd]
    · by_cases hd : d0 = d
      · subst hd
        have : ¬ dir = d0 := fun h => h0 h.symm
        simp [setRow, lookupRow, h0, this]
      · simp [setRow, lookupRow, h0, hd, ih]

theorem skeleton_spec (n : Nat) (order : List Path) (m : PathMap) (h : skeleton n order = .ok m) :
    (∀ name ∈ order, lookupRow (layerDir name) m = some (List.replicate n 0)) ∧
    (∀ d row, lookupRow d m = some row → row = List.replicate n 0 ∧ ∃ name ∈ order, layerDir name = d) := by
  induction order generalizing m with
  | nil => simp only [skeleton, Except.ok.injEq] at h; subst h; simp [lookupRow]
  | cons name rest ih =>
    unfold skeleton at h
    split at h
    · cases h
    · split at h
      · cases h
      · rename_i m0 hm0
        cases h
        obtain ⟨h1, h2⟩ := ih m0 hm0
        constructor
        · intro nm hnm
          rw [lookupRow_setRow]
          rcases List.mem_cons.mp hnm with rfl | hnm
          · simp
          · split
            · rfl
            · exact h1 nm hnm
        · intro d row hrow
          rw [lookupRow_setRow] at hrow
          split at hrow
          · rename_i hd
            cases hrow
            exact ⟨rfl, name, List.mem_cons_self, hd⟩
          · obtain ⟨e1, nm, hnm, e2⟩ := h2 d row hrow
            exact ⟨e1, nm, List.mem_cons_of_mem _ hnm, e2⟩

theorem writeSlot_spec (name : Path) (r : Int) (m m' : PathMap) (h : writeSlot name r m = .ok m') :
    ∃ i row, axisId name = some i ∧ lookupRow (layerDir name) m = some row ∧ i < row.length ∧
      ∀ d, lookupRow d m' = if layerDir name = d then some (row.set i r) else lookupRow d m := by
  unfold writeSlot at h
  split at h
  · cases h
  · rename_i i hi
    split at h
    · cases h
    · rename_i row hrow
      split at h
      · rename_i hlt
        cases h
        exact ⟨i, row, hi, hrow, hlt, fun d => lookupRow_setRow _ _ _ d⟩
      · cases h

theorem writeSlot_getSlot (name : Path) (r : Int) (m m' : PathMap) (h : writeSlot name r m = .ok m') :
    ∃ i, axisId name = some i ∧
      (∀ d j, getSlot m' d j = if layerDir name = d ∧ i = j then some r else getSlot m d j) ∧
      (∀ d, (lookupRow d m').map List.length = (lookupRow d m).map List.length) := by
  obtain ⟨i, row, hi, hrow, hlt, hl⟩ := writeSlot_spec name r m m' h
  refine ⟨i, hi, ?_, ?_⟩
  · intro d j
    unfold getSlot
    rw [hl d]
    by_cases hd : layerDir name = d
    · subst hd
      simp only [if_true, true_and, hrow]
      by_cases hij : i = j
      · subst hij; simp [hlt]
      · simp [hij]
    · simp [hd]
  · intro d
    rw [hl d]
    by_cases hd : layerDir name = d
    · subst hd; simp [hrow]
    · simp [hd]

theorem writeAll_spec (ws : List (Path × Int)) (m m' : PathMap) (h : writeAll ws m = .ok m') :
    (∀ d, (lookupRow d m').map List.length = (lookupRow d m).map List.length) ∧
    (∀ d j, (∀ w ∈ ws, slotOf w.1 ≠ (d, some j)) → getSlot m' d j = getSlot m d j) ∧
    (∀ d j v, getSlot m' d j = some v → getSlot m d j = some v ∨ ∃ w ∈ ws, w.2 = v ∧ slotOf w.1 = (d, some j)) ∧
    ((ws.map (fun w => slotOf w.1)).Nodup → ∀ w ∈ ws, ∃ i, axisId w.1 = some i ∧ getSlot m' (layerDir w.1) i = some w.2) := by
  induction ws generalizing m with
  | nil => simp only [writeAll, Except.ok.injEq] at h; subst h; simp
  | cons w rest ih =>
    obtain ⟨name, r⟩ := w
    unfold writeAll at h
    split at h
    · cases h
    · rename_i m1 hm1
      obtain ⟨i, hi, hg, hlen⟩ := writeSlot_getSlot name r m m1 hm1
      obtain ⟨h1, h2, h3, h4⟩ := ih m1 h
      refine ⟨fun d => (h1 d).trans (hlen d), ?_, ?_, ?_⟩
      · intro d j hw
        rw [h2 d j (fun w hw' => hw w (List.mem_cons_of_mem _ hw')), hg d j]
        have := hw (name, r) List.mem_cons_self
        simp only [slotOf, hi, ne_eq, Prod.mk.injEq, Option.some.injEq] at this
        simp [this]
      · intro d j v hv
        rcases h3 d j v hv with h' | ⟨w, hw, e1, e2⟩
        · rw [hg d j] at h'
          split at h'
          · rename_i hc
            cases h'
            exact Or.inr ⟨(name, r), List.mem_cons_self, rfl, by simp [slotOf, hi, hc.1, hc.2]⟩
          · exact Or.inl h'
        · exact Or.inr ⟨w, List.mem_cons_of_mem _ hw, e1, e2⟩
      · intro hnd w hw
        simp only [List.map_cons, List.nodup_cons] at hnd
        rcases List.mem_cons.mp hw with rfl | hw
        · refine ⟨i, hi, ?_⟩
          rw [h2 (layerDir name) i ?_, hg]
          · simp
          · intro w' hw' heq
            apply hnd.1
            rw [List.mem_map]
            exact ⟨w', hw', by rw [heq]; simp [slotOf, hi]⟩
        · exact h4 hnd.2 w hw


end PrecondVerif.Realloc
