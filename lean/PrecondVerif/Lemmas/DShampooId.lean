/-
Identity preconditioning (C06, clause "preconditioning with identity matrices returns the gradient unchanged"):
the C02 model of `Preconditioner.preconditioned_grad` (partition → rotate-and-tensordot per block → merge_partitions →
reshape) with `jnp.eye` in every slot it reads.
-/
import PrecondVerif.Lemmas.DShampoo
import PrecondVerif.Lemmas.PartitionIdx

namespace PrecondVerif.DShampoo
open PrecondVerif.Shapes

section IdPrecond
variable {α : Type} [CommRing α]

/-- `jnp.eye`: ones on the diagonal, zeros elsewhere -/
def IsIdMx (P : Mx α) : Prop := ∀ i j, P i j = if i = j then 1 else 0

theorem precondInit_isId : IsIdMx (precondInit : Mx α) := fun _ _ => rfl

theorem modeProd_id (S : Tensor α) (a : Nat) (P : Mx α) (hP : IsIdMx P) (idx : List Nat)
    (ha : a < idx.length) (hlt : idx.getD a 0 < S.shape.getD a 0) : (modeProd S a P).get idx = S.get idx := by
  show lsum ((List.range (S.shape.getD a 0)).map fun j => S.get (idx.set a j) * P j (idx.getD a 0)) = S.get idx
  rw [lsum_range]
  have : ∀ j, S.get (idx.set a j) * P j (idx.getD a 0) =
      S.get (idx.set a j) * (if j = idx.getD a 0 then 1 else 0) := by
    intro j; rw [hP]
  simp only [this]
  rw [sum_delta, if_pos hlt]
  congr 1
  simp [List.getD_eq_getElem?_getD, ha]

theorem specBlockFrom_id : ∀ (slots : List (Option (Mx α))) (a : Nat) (S g : Tensor α),
    (∀ P, some P ∈ slots → IsIdMx P) → a + slots.length ≤ g.shape.length → S.Eqv g →
    (specBlockFrom a S slots).Eqv g
  | [], _, _, _, _, _, h => h
  | none :: ss, a, S, g, hP, hl, h =>
    specBlockFrom_id ss (a + 1) S g (fun P hm => hP P (by simp [hm])) (by simp at hl; omega) h
  | some P :: ss, a, S, g, hP, hl, h => by
    apply specBlockFrom_id ss (a + 1) (modeProd S a P) g (fun P hm => hP P (by simp [hm])) (by simp at hl; omega)
    refine ⟨h.1, ?_⟩
    intro idx hi
    have hi' : inBounds S.shape idx := hi
    have ha : a < S.shape.length := by rw [h.1]; simp at hl; omega
    rw [modeProd_id S a P (hP P (by simp)) idx (by rw [inBounds_length hi']; exact ha)
      (inBounds_getD hi' a ha)]
    exact h.2 idx hi'

theorem precondsForGrad_slot_lt (pt : PType) (rank b ix : Nat) (h : some ix ∈ precondsForGrad pt rank b) :
    ix < (b + 1) * numPreconditioned pt rank := by
  have key : ∀ k, some ix ∈ (List.range k).map (fun j => some (b * k + j)) → ix < (b + 1) * k := by
    intro k hm
    simp only [List.mem_map, List.mem_range, Option.some.injEq] at hm
    obtain ⟨j, hj, rfl⟩ := hm
    rw [Nat.add_mul]; omega
  unfold precondsForGrad at h
  cases pt
  · exact key _ h
  · simp only at h
    split at h
    · exact key _ h
    · simp only [List.mem_append, List.mem_singleton] at h
      rcases h with h | h
      · exact key _ h
      · cases h
  · simp only at h
    split at h
    · exact key _ h
    · simp only [List.mem_append, List.mem_replicate] at h
      rcases h with h | h
      · cases h.2
      · exact key _ h


theorem range_mul' (s m : Nat) :
    List.range (s * m) = (List.range s).flatMap fun i => (List.range m).map fun j => i * m + j := by
  induction s with
  | zero => simp
  | succ s ih =>
    rw [Nat.succ_mul, List.range_add, ih, List.range_succ, List.flatMap_append]
    simp

/-- `allIdx` enumerates the multi-indices in row-major order -/
theorem allIdx_map_ravel_range (shape : List Nat) :
    (allIdx shape).map (ravel shape) = List.range (prod shape) := by
  induction shape with
  | nil => rfl
  | cons s ss ih =>
    rw [prod_cons, range_mul']
    simp only [allIdx, List.map_flatMap, List.map_map]
    congr 1
    funext i
    rw [← ih, List.map_map]
    apply List.map_congr_left
    intro is _
    simp [ravel]

theorem allIdx_mem_inBounds (shape : List Nat) : ∀ idx ∈ allIdx shape, inBounds shape idx := by
  induction shape with
  | nil => intro idx h; simp [allIdx] at h; subst h; trivial
  | cons s ss ih =>
    intro idx h
    simp only [allIdx, List.mem_flatMap, List.mem_range, List.mem_map] at h
    obtain ⟨i, hi, is, his, rfl⟩ := h
    exact ⟨hi, ih is his⟩

theorem tshape_prod (G : Geom) (hd : ∀ d ∈ G.shape, 1 ≤ d) : prod G.tshape = prod G.shape := by
  unfold Geom.tshape
  split
  · exact C06.merge_prod _ _ hd
  · rfl

/-- reshaping a tensor entry-wise equal to the reshaped gradient back to the parameter shape and flattening
gives the gradient -/
theorem flat_reshape_back (G : Geom) (g : List α) (u : Tensor α) (hg : g.length = prod G.shape)
    (hd : ∀ d ∈ G.shape, 1 ≤ d) (hu : u.Eqv ((ofFlat G.shape g).reshape G.tshape)) :
    (u.reshape G.shape).flat = g := by
  have hus : u.shape = G.tshape := hu.1
  have hp := tshape_prod G hd
  have h1 : (u.reshape G.shape).flat = (allIdx G.shape).map fun idx => g.getD (ravel G.shape idx) 0 := by
    simp only [Tensor.flat, Tensor.reshape]
    apply List.map_congr_left
    intro idx hidx
    have hin := allIdx_mem_inBounds G.shape idx hidx
    have hlt : ravel G.shape idx < prod G.tshape := hp ▸ ravel_lt _ _ hin
    have hin2 : inBounds u.shape (unravel u.shape (ravel G.shape idx)) := by
      rw [hus]; exact unravel_inBounds _ _ hlt
    rw [hu.2 _ hin2, hus]
    simp only [Tensor.reshape, ofFlat]
    rw [ravel_unravel _ _ hlt, unravel_ravel _ _ hin]
  rw [h1]
  have : ((allIdx G.shape).map fun idx => g.getD (ravel G.shape idx) 0) =
      ((allIdx G.shape).map (ravel G.shape)).map fun k => g.getD k 0 := by
    rw [List.map_map]; rfl
  rw [this, allIdx_map_ravel_range, ← hg]
  apply List.ext_getElem
  · simp
  · intro k h1 h2
    simp [List.getD_eq_getElem?_getD, List.getElem?_eq_getElem h2]

variable [Inhabited α]

/-- **identity preconditioning**: `preconditioned_grad` with identity matrices in every slot it reads returns
the gradient, for every rank, shape, block size, merge limit and preconditioner type. -/
theorem lowPrecondGrad_identity (G : Geom) (P : List (Mx α)) (g : List α)
    (hg : g.length = prod G.shape) (hd : ∀ d ∈ G.shape, 1 ≤ d)
    (hP : ∀ ix, ix < (G.blocks g).length * G.k → IsIdMx (P.getD ix Mx.zero)) :
    lowPrecondGrad G P g = some g := by
  rw [(lowPrecondGrad_eq_specPrecondGrad G P g).1]
  unfold specPrecondGrad precondGradWith Geom.assemble
  have hbl := blocks_shape_length G g
  have hrel : List.Forall₂ Tensor.Eqv
      ((G.blocks g).zipIdx.map fun gb => specBlock gb.1 (slotMats P Mx.zero (specSlots G.ptype G.rank gb.2)))
      (G.blocks g) := by
    have : List.Forall₂ Tensor.Eqv
        ((G.blocks g).zipIdx.map fun gb => specBlock gb.1 (slotMats P Mx.zero (specSlots G.ptype G.rank gb.2)))
        ((G.blocks g).zipIdx.map Prod.fst) := by
      rw [List.forall₂_map_left_iff, List.forall₂_map_right_iff, List.forall₂_same]
      intro x hx
      have hx1 : x.1.shape.length = G.rank := hbl _ (List.fst_mem_of_mem_zipIdx hx)
      have hx2 : x.2 < (G.blocks g).length := by simpa using List.snd_lt_of_mem_zipIdx hx
      apply specBlockFrom_id _ 0 x.1 x.1 _ _ (Tensor.Eqv.refl _)
      · intro Q hQ
        simp only [slotMats, List.mem_map] at hQ
        obtain ⟨o, ho, hoQ⟩ := hQ
        cases o with
        | none => cases hoQ
        | some ix =>
          simp only [Option.map_some, Option.some.injEq] at hoQ
          subst hoQ
          rw [← lowSlots_eq_specSlots] at ho
          have hlt := precondsForGrad_slot_lt _ _ _ _ ho
          apply hP
          calc ix < (x.2 + 1) * G.k := hlt
            _ ≤ (G.blocks g).length * G.k := Nat.mul_le_mul_right _ hx2
      · simp [slotMats, specSlots, hx1]
    rwa [List.zipIdx_map_fst] at this
  obtain ⟨u, hu, huE⟩ := mergePartitions_of_eqv ((ofFlat G.shape g).reshape G.tshape) G.block _ hrel
  have hu' : mergePartitions G.tshape G.block
      ((G.blocks g).zipIdx.map fun gb => specBlock gb.1 (slotMats P Mx.zero (specSlots G.ptype G.rank gb.2))) =
      some u := hu
  rw [hu']
  simp only [Option.map_some]
  rw [flat_reshape_back G g u hg hd huE]


/-- the list the oracle passes: one `jnp.eye` per announced preconditioner shape -/
theorem lowPrecondGrad_identity_announced (G : Geom) (r : Nat) (g : List α)
    (hg : g.length = prod G.shape) (hd : ∀ d ∈ G.shape, 1 ≤ d) :
    lowPrecondGrad G ((shapesForPreconditioners G.ptype r G.tshape G.block).map fun _ => precondInit) g =
      some g := by
  apply lowPrecondGrad_identity G _ g hg hd
  intro ix hix
  have hlen := shapesForPreconditioners_length G.ptype r ((ofFlat G.shape g).reshape G.tshape) G.block
  have hix' : ix < ((shapesForPreconditioners G.ptype r G.tshape G.block).map
      fun _ => (precondInit : Mx α)).length := by
    rw [List.length_map]
    exact hlen ▸ hix
  rw [List.getD_eq_getElem?_getD, List.getElem?_eq_getElem hix']
  simp only [List.getElem_map, Option.getD_some]
  exact precondInit_isId

end IdPrecond

end PrecondVerif.DShampoo
