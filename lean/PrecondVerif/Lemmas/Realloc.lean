/-
Helper lemmas for the reallocation model (C17).
-/
import PrecondVerif.Model.Realloc
import Mathlib.Algebra.BigOperators.Group.List.Basic
import Mathlib.Algebra.Order.Group.Defs
import Mathlib.Algebra.Order.Monoid.Defs
import Mathlib.Algebra.Order.Field.Basic
import Mathlib.Algebra.Order.BigOperators.Group.List
import Mathlib.Data.Rat.Floor
import Mathlib.Tactic.Linarith
import Mathlib.Tactic.Ring

namespace PrecondVerif.Realloc

variable {κ : Type} {α : Type}

/-! ### sorting -/

theorem insDesc_perm [LT α] [DecidableLT α] (x : κ × α) (l : List (κ × α)) :
    (insDesc x l).Perm (x :: l) := by
  induction l with
  | nil => simp [insDesc]
  | cons y ys ih =>
    simp only [insDesc]
    split
    · exact (List.Perm.cons y ih).trans (List.Perm.swap x y ys)
    · exact List.Perm.refl _

theorem sortDesc_perm [LT α] [DecidableLT α] (l : List (κ × α)) : (sortDesc l).Perm l := by
  induction l with
  | nil => simp [sortDesc]
  | cons x xs ih =>
    simp only [sortDesc]
    exact (insDesc_perm x (sortDesc xs)).trans (List.Perm.cons x ih)

theorem sortDesc_length [LT α] [DecidableLT α] (l : List (κ × α)) : (sortDesc l).length = l.length :=
  (sortDesc_perm l).length_eq

/-! ### running totals -/

theorem runningTotals_length [Sub α] (T : α) (l : List α) : (runningTotals T l).length = l.length := by
  induction l generalizing T with
  | nil => rfl
  | cons s ss ih => simp [runningTotals, ih]

/-! ### the proportional pass -/

theorem pass_keys (alloc : α → Int → α → Int) (d R : Int) (l : List ((κ × α) × α)) :
    (pass alloc d R l).map Prod.fst = l.map (fun x => x.1.1) := by
  induction l generalizing R with
  | nil => rfl
  | cons x rest ih =>
    obtain ⟨⟨key, s⟩, T⟩ := x
    simp only [pass]
    split <;> simp [ih]

theorem pass_length (alloc : α → Int → α → Int) (d R : Int) (l : List ((κ × α) × α)) :
    (pass alloc d R l).length = l.length := by
  have := congrArg List.length (pass_keys alloc d R l)
  simpa using this

/-- The first `assert` can never fire: every rank produced by the pass is at most `d`,
whatever the arithmetic. -/
theorem pass_le_dim (alloc : α → Int → α → Int) (d R : Int) (l : List ((κ × α) × α)) :
    ∀ p ∈ pass alloc d R l, p.2 ≤ d := by
  induction l generalizing R with
  | nil => intro p hp; simp [pass] at hp
  | cons x rest ih =>
    obtain ⟨⟨key, s⟩, T⟩ := x
    intro p hp
    simp only [pass] at hp
    split at hp
    · rcases List.mem_cons.mp hp with h | h
      · subst h; exact le_refl _
      · exact ih _ p h
    · rename_i hgt
      rcases List.mem_cons.mp hp with h | h
      · subst h; simp only; omega
      · exact ih _ p h

/-- If the arithmetic never produces a negative share, every rank is at least 1. -/
theorem pass_ge_one_of_nonneg (alloc : α → Int → α → Int) (hnn : ∀ s R T, 0 ≤ alloc s R T)
    (d R : Int) (hd : 1 ≤ d) (l : List ((κ × α) × α)) :
    ∀ p ∈ pass alloc d R l, 1 ≤ p.2 := by
  induction l generalizing R with
  | nil => intro p hp; simp [pass] at hp
  | cons x rest ih =>
    obtain ⟨⟨key, s⟩, T⟩ := x
    intro p hp
    simp only [pass] at hp
    split at hp
    · rcases List.mem_cons.mp hp with h | h
      · subst h; exact hd
      · exact ih _ p h
    · rcases List.mem_cons.mp hp with h | h
      · subst h; have := hnn s R T; simp only; omega
      · exact ih _ p h

/-- Soundness of an allocation arithmetic: a non-negative score that is at most the total gets a
share between `0` and the available resource.  (Exact arithmetic satisfies it; so does any
monotone rounding of it as long as `R` is far below the mantissa range.) -/
def AllocSound [LE α] [OfNat α 0] (alloc : α → Int → α → Int) : Prop :=
  ∀ s R T, (0 : α) ≤ s → s ≤ T → 0 ≤ R → 0 ≤ alloc s R T ∧ alloc s R T ≤ R

theorem pass_sound [LE α] [OfNat α 0] (alloc : α → Int → α → Int) (hs : AllocSound alloc)
    (d : Int) (hd : 1 ≤ d) (R : Int) (hR : 0 ≤ R) (l : List ((κ × α) × α))
    (hl : ∀ x ∈ l, (0 : α) ≤ x.1.2 ∧ x.1.2 ≤ x.2) :
    (∀ p ∈ pass alloc d R l, 1 ≤ p.2) ∧
      ((pass alloc d R l).map Prod.snd).sum ≤ R + l.length := by
  induction l generalizing R with
  | nil => simp [pass, hR]
  | cons x rest ih =>
    obtain ⟨⟨key, s⟩, T⟩ := x
    have hx := hl ((key, s), T) (by simp)
    have hrest : ∀ x ∈ rest, (0 : α) ≤ x.1.2 ∧ x.1.2 ≤ x.2 := fun x hx => hl x (by simp [hx])
    obtain ⟨ha0, haR⟩ := hs s R T hx.1 hx.2 hR
    simp only [pass]
    split
    · rename_i hgt
      have hR' : 0 ≤ R - (d - 1) := by omega
      obtain ⟨h1, h2⟩ := ih (R - (d - 1)) hR' hrest
      refine ⟨?_, ?_⟩
      · intro p hp
        rcases List.mem_cons.mp hp with h | h
        · subst h; exact hd
        · exact h1 p h
      · simp only [List.map_cons, List.sum_cons, List.length_cons]
        push_cast
        omega
    · rename_i hgt
      have hR' : 0 ≤ R - alloc s R T := by omega
      obtain ⟨h1, h2⟩ := ih (R - alloc s R T) hR' hrest
      refine ⟨?_, ?_⟩
      · intro p hp
        rcases List.mem_cons.mp hp with h | h
        · subst h; simp only; omega
        · exact h1 p h
      · simp only [List.map_cons, List.sum_cons, List.length_cons]
        push_cast
        omega

/-! ### the leftover loop -/

theorem leftover_keys (d extra : Int) (l : List (κ × Int)) :
    (leftover d extra l).map Prod.fst = l.map Prod.fst := by
  induction l generalizing extra with
  | nil => rfl
  | cons x rest ih =>
    obtain ⟨key, r⟩ := x
    simp only [leftover]
    split <;> split <;> simp [ih]

theorem leftover_le_dim (d extra : Int) (l : List (κ × Int)) (h : ∀ p ∈ l, p.2 ≤ d) :
    ∀ p ∈ leftover d extra l, p.2 ≤ d := by
  induction l generalizing extra with
  | nil => intro p hp; simp [leftover] at hp
  | cons x rest ih =>
    obtain ⟨key, r⟩ := x
    have hrest : ∀ p ∈ rest, p.2 ≤ d := fun p hp => h p (by simp [hp])
    intro p hp
    simp only [leftover] at hp
    split at hp <;> split at hp <;>
    · rcases List.mem_cons.mp hp with h' | h'
      · subst h'; exact min_le_right _ _
      · first | exact hrest p h' | exact ih _ hrest p h'

theorem leftover_ge_one (d extra : Int) (hd : 1 ≤ d) (l : List (κ × Int)) (h : ∀ p ∈ l, 1 ≤ p.2) :
    ∀ p ∈ leftover d extra l, 1 ≤ p.2 := by
  induction l generalizing extra with
  | nil => intro p hp; simp [leftover] at hp
  | cons x rest ih =>
    obtain ⟨key, r⟩ := x
    have hr : 1 ≤ r := h (key, r) (by simp)
    have hrest : ∀ p ∈ rest, 1 ≤ p.2 := fun p hp => h p (by simp [hp])
    have hinc : 1 ≤ min (r + 1) d := le_min (by omega) hd
    intro p hp
    simp only [leftover] at hp
    split at hp <;> split at hp <;>
    · rcases List.mem_cons.mp hp with h' | h'
      · subst h'; exact hinc
      · first | exact hrest p h' | exact ih _ hrest p h'

/-- The repaired loop hands out at most `extra` additional ranks. -/
theorem leftover_sum_le (d extra : Int) (he : 1 ≤ extra) (l : List (κ × Int)) :
    ((leftover d extra l).map Prod.snd).sum ≤ (l.map Prod.snd).sum + extra := by
  induction l generalizing extra with
  | nil => simp [leftover]; omega
  | cons x rest ih =>
    obtain ⟨key, r⟩ := x
    simp only [leftover]
    have hmin : min (r + 1) d ≤ r + 1 := min_le_left _ _
    by_cases hc : min (r + 1) d > r
    · simp only [hc, if_true]
      split
      · simp only [List.map_cons, List.sum_cons]; omega
      · rename_i hne
        have := ih (extra - 1) (by omega)
        simp only [List.map_cons, List.sum_cons]; omega
    · simp only [hc, if_false]
      split
      · simp only [List.map_cons, List.sum_cons]; omega
      · have := ih extra he
        simp only [List.map_cons, List.sum_cons]; omega

/-! ### one group -/

/-- The ranks after the proportional pass of one group (before the asserts and the leftover loop). -/
def groupRanks (totals : List α → List α → List α) [LT α] [DecidableLT α]
    (alloc : α → Int → α → Int) (k : Int) (d : Nat) (group : List (κ × α)) : List (κ × Int) :=
  pass alloc d ((group.length : Int) * k - group.length)
    ((sortDesc group).zip (totals (group.map Prod.snd) ((sortDesc group).map Prod.snd)))

/-- What a successful run of one group looks like. -/
theorem groupRunGen_ok (lo : Int → Int → List (κ × Int) → List (κ × Int))
    (totals : List α → List α → List α) [LT α] [DecidableLT α]
    (alloc : α → Int → α → Int) (k : Int) (d : Nat) (group : List (κ × α)) (res : List (κ × Int))
    (h : groupRunGen lo totals alloc k d group = .ok res) :
    (group.length : Int) ≤ group.length * k ∧
    ((groupRanks totals alloc k d group).map Prod.snd).sum ≤ (group.length : Int) * k ∧
      ((res = groupRanks totals alloc k d group ∧
          ((groupRanks totals alloc k d group).map Prod.snd).sum = (group.length : Int) * k) ∨
       (((groupRanks totals alloc k d group).map Prod.snd).sum < (group.length : Int) * k ∧
          res = lo d ((group.length : Int) * k - ((groupRanks totals alloc k d group).map Prod.snd).sum)
            (groupRanks totals alloc k d group))) := by
  unfold groupRunGen at h
  simp only at h
  unfold groupRanks
  split at h
  · exact absurd h (by simp)
  · rename_i hb
    split at h
    · exact absurd h (by simp)
    · split at h
      · exact absurd h (by simp)
      · rename_i hov
        split at h
        · rename_i hlt
          refine ⟨by omega, by omega, Or.inr ⟨hlt, ?_⟩⟩
          exact (Except.ok.inj h).symm
        · rename_i hlt
          refine ⟨by omega, by omega, Or.inl ⟨(Except.ok.inj h).symm, ?_⟩⟩
          omega

theorem zip_keys (l : List (κ × α)) (ts : List α) (h : ts.length = l.length) :
    (l.zip ts).map (fun x => x.1.1) = l.map Prod.fst := by
  induction l generalizing ts with
  | nil => simp
  | cons x xs ih =>
    cases ts with
    | nil => simp at h
    | cons t ts =>
      simp only [List.zip_cons_cons, List.map_cons]
      rw [ih ts (by simpa using h)]

theorem suffixTotals_length [Add α] [OfNat α 0] (l : List α) : (suffixTotals l).length = l.length := by
  induction l with
  | nil => rfl
  | cons s ss ih => simp [suffixTotals, ih]

theorem codeTotals_length [Add α] [OfNat α 0] (g s : List α) :
    (codeTotals g s).length = s.length := suffixTotals_length _

/-- Budget, upper bound and key preservation for one group — for ANY arithmetic. -/
theorem groupRun_budget [Add α] [OfNat α 0] [LT α] [DecidableLT α]
    (alloc : α → Int → α → Int) (k : Int) (d : Nat) (group : List (κ × α)) (res : List (κ × Int))
    (h : groupRun alloc k d group = .ok res) :
    (res.map Prod.fst).Perm (group.map Prod.fst) ∧ (∀ p ∈ res, p.2 ≤ (d : Int)) ∧
      (res.map Prod.snd).sum ≤ (group.length : Int) * k := by
  have key := groupRunGen_ok leftover codeTotals alloc k d group res h
  obtain ⟨_, hsum, hres⟩ := key
  have hkeys : ((groupRanks codeTotals alloc k d group).map Prod.fst).Perm (group.map Prod.fst) := by
    unfold groupRanks
    rw [pass_keys, zip_keys _ _ (by rw [codeTotals_length]; simp)]
    exact (sortDesc_perm group).map _
  have hle : ∀ p ∈ groupRanks codeTotals alloc k d group, p.2 ≤ (d : Int) := pass_le_dim alloc d _ _
  rcases hres with ⟨rfl, _⟩ | ⟨hlt, rfl⟩
  · exact ⟨hkeys, hle, hsum⟩
  · refine ⟨?_, leftover_le_dim _ _ _ hle, ?_⟩
    · rw [leftover_keys]; exact hkeys
    · have := leftover_sum_le (d : Int)
        ((group.length : Int) * k - ((groupRanks codeTotals alloc k d group).map Prod.snd).sum) (by omega)
        (groupRanks codeTotals alloc k d group)
      omega

/-- The `assert realloc[key] <= dim` can never fire, whatever the arithmetic. -/
theorem groupRun_ne_rankExceedsDim [Add α] [OfNat α 0] [LT α] [DecidableLT α]
    (alloc : α → Int → α → Int) (k : Int) (d : Nat) (group : List (κ × α)) (r d' : Int) :
    groupRun alloc k d group ≠ .error (.rankExceedsDim r d') := by
  unfold groupRun groupRunGen
  simp only
  split
  · simp
  · split
    · rename_i p hp
      have hmem := List.mem_of_find?_eq_some hp
      have hprop := List.find?_some hp
      have := pass_le_dim alloc (d : Int) _ _ p hmem
      simp only [decide_eq_true_eq] at hprop
      omega
    · split
      · simp
      · split <;> simp

/-- With a share arithmetic that is never negative, every returned rank is at least 1. -/
theorem groupRun_ge_one_of_nonneg [Add α] [OfNat α 0] [LT α] [DecidableLT α]
    (alloc : α → Int → α → Int) (hnn : ∀ s R T, 0 ≤ alloc s R T)
    (k : Int) (d : Nat) (hd : 1 ≤ d) (group : List (κ × α)) (res : List (κ × Int))
    (h : groupRun alloc k d group = .ok res) : ∀ p ∈ res, 1 ≤ p.2 := by
  have key := groupRunGen_ok leftover codeTotals alloc k d group res h
  obtain ⟨_, _, hres⟩ := key
  have hd' : (1 : Int) ≤ (d : Int) := by exact_mod_cast hd
  have h1 : ∀ p ∈ groupRanks codeTotals alloc k d group, 1 ≤ p.2 :=
    pass_ge_one_of_nonneg alloc hnn (d : Int) ((group.length : Int) * k - group.length) hd'
      ((sortDesc group).zip (codeTotals (group.map Prod.snd) ((sortDesc group).map Prod.snd)))
  rcases hres with ⟨rfl, _⟩ | ⟨_, rfl⟩
  · exact h1
  · exact leftover_ge_one _ _ hd' _ h1

/-! ### suffix totals dominate the scores (exact arithmetic, or any monotone rounding of it) -/

/-- What the lower bound needs from the addition of scores: adding a non-negative number to a
non-negative number gives something non-negative and not smaller than the second summand.  True in
every ordered additive group, and true of IEEE round-to-nearest addition (rounding is monotone). -/
def AddMonotone (α : Type) [LE α] [Add α] [OfNat α 0] : Prop :=
  (0 : α) ≤ 0 ∧ ∀ a b : α, 0 ≤ a → 0 ≤ b → b ≤ a + b ∧ 0 ≤ a + b

section monotone
variable [LE α] [Add α] [OfNat α 0]

theorem headD0_suffix_nonneg (hm : AddMonotone α) (l : List α) (hnn : ∀ x ∈ l, (0 : α) ≤ x) :
    (0 : α) ≤ headD0 (suffixTotals l) := by
  induction l with
  | nil => exact hm.1
  | cons s ss ih =>
    have hs : (0 : α) ≤ s := hnn s (by simp)
    have hss := ih (fun x hx => hnn x (by simp [hx]))
    simp only [suffixTotals, headD0]
    exact (hm.2 _ _ hss hs).2

theorem suffixTotals_dominate (hm : AddMonotone α) (l : List (κ × α)) (hnn : ∀ x ∈ l, (0 : α) ≤ x.2) :
    ∀ x ∈ l.zip (suffixTotals (l.map Prod.snd)), (0 : α) ≤ x.1.2 ∧ x.1.2 ≤ x.2 := by
  induction l with
  | nil => intro x hx; simp [suffixTotals] at hx
  | cons y ys ih =>
    intro x hx
    have hy : (0 : α) ≤ y.2 := hnn y (by simp)
    have hys : ∀ x ∈ ys, (0 : α) ≤ x.2 := fun x hx => hnn x (by simp [hx])
    simp only [List.map_cons, suffixTotals, List.zip_cons_cons] at hx
    rcases List.mem_cons.mp hx with h | h
    · subst h
      have h0 : (0 : α) ≤ headD0 (suffixTotals (ys.map Prod.snd)) :=
        headD0_suffix_nonneg hm _ (by
          intro a ha; obtain ⟨x, hx, rfl⟩ := List.mem_map.mp ha; exact hys x hx)
      exact ⟨hy, (hm.2 _ _ h0 hy).1⟩
    · exact ih hys x h

/-- With monotone addition, a sound share computation, non-negative scores, base rank ≥ 1 and
dimension ≥ 1: no assertion fires and every rank of the group is at least 1. -/
theorem groupRun_sound [LT α] [DecidableLT α] (hm : AddMonotone α)
    (alloc : α → Int → α → Int) (hs : AllocSound alloc)
    (k : Int) (hk : 1 ≤ k) (d : Nat) (hd : 1 ≤ d) (group : List (κ × α))
    (hnn : ∀ x ∈ group, (0 : α) ≤ x.2) :
    ∃ res, groupRun alloc k d group = .ok res ∧ ∀ p ∈ res, 1 ≤ p.2 := by
  have hd' : (1 : Int) ≤ (d : Int) := by exact_mod_cast hd
  set n : Int := (group.length : Int) with hn
  have hn0 : 0 ≤ n := by simp [hn]
  have hbud : n ≤ n * k := by nlinarith
  set sorted := sortDesc group with hsorted
  have hperm := sortDesc_perm group
  have hsnn : ∀ x ∈ sorted, (0 : α) ≤ x.2 := fun x hx => hnn x (hperm.mem_iff.mp hx)
  have hdom := suffixTotals_dominate hm sorted hsnn
  obtain ⟨h1, h2⟩ := pass_sound alloc hs (d : Int) hd' (n * k - n) (by omega)
    (sorted.zip (suffixTotals (sorted.map Prod.snd))) hdom
  set ranks := pass alloc (d : Int) (n * k - n)
    (sorted.zip (suffixTotals (sorted.map Prod.snd))) with hranks
  have hlen : ((sorted.zip (suffixTotals (sorted.map Prod.snd))).length : Int) = n := by
    rw [List.length_zip, suffixTotals_length]
    simp [hsorted, sortDesc_length, hn]
  rw [hlen] at h2
  have hsum : (ranks.map Prod.snd).sum ≤ n * k := by omega
  have hfind : ranks.find? (fun p => decide (p.2 > (d : Int))) = none := by
    rw [List.find?_eq_none]
    intro p hp
    have := pass_le_dim alloc (d : Int) _ _ p hp
    simp only [decide_eq_true_eq]
    omega
  unfold groupRun groupRunGen codeTotals
  simp only
  rw [if_neg (by omega : ¬ n * k < n)]
  rw [hfind]
  simp only
  rw [if_neg (by omega : ¬ (ranks.map Prod.snd).sum > n * k)]
  split
  · exact ⟨_, rfl, leftover_ge_one _ _ hd' _ h1⟩
  · exact ⟨_, rfl, h1⟩

end monotone

/-- Every linearly ordered additive group has monotone addition. -/
theorem addMonotone_of_orderedGroup (α : Type) [AddCommGroup α] [LinearOrder α] [IsOrderedAddMonoid α] :
    AddMonotone α :=
  ⟨le_refl _, fun _ _ ha hb => ⟨le_add_of_nonneg_left ha, add_nonneg ha hb⟩⟩

/-! ### all groups -/

theorem mem_dedupFirst (x : Nat) (l : List Nat) : x ∈ dedupFirst l ↔ x ∈ l := by
  induction l with
  | nil => simp [dedupFirst]
  | cons y ys ih =>
    simp only [dedupFirst, List.mem_cons, List.mem_filter, ih]
    constructor
    · rintro (h | ⟨h, _⟩)
      · exact Or.inl h
      · exact Or.inr h
    · intro h
      by_cases hxy : x = y
      · exact Or.inl hxy
      · rcases h with h | h
        · exact Or.inl h
        · exact Or.inr ⟨h, by simpa using hxy⟩

theorem runGroups_ok {β : Type} (f : Nat → Except Err β) (ds : List Nat) (out : List (Nat × β))
    (h : runGroups f ds = .ok out) :
    out.map Prod.fst = ds ∧ ∀ g ∈ out, f g.1 = .ok g.2 := by
  induction ds generalizing out with
  | nil =>
    simp only [runGroups] at h
    cases Except.ok.inj h
    simp
  | cons d ds ih =>
    simp only [runGroups] at h
    split at h
    · exact absurd h (by simp)
    · rename_i r hr
      split at h
      · exact absurd h (by simp)
      · rename_i rs hrs
        cases Except.ok.inj h
        obtain ⟨h1, h2⟩ := ih rs hrs
        refine ⟨by simp [h1], ?_⟩
        intro g hg
        rcases List.mem_cons.mp hg with rfl | hg
        · exact hr
        · exact h2 g hg

theorem runGroups_all_ok {β : Type} (f : Nat → Except Err β) (P : β → Prop) (ds : List Nat)
    (h : ∀ d ∈ ds, ∃ r, f d = .ok r ∧ P r) :
    ∃ out, runGroups f ds = .ok out ∧ ∀ g ∈ out, P g.2 := by
  induction ds with
  | nil => exact ⟨[], rfl, by simp⟩
  | cons d ds ih =>
    obtain ⟨r, hr, hP⟩ := h d (by simp)
    obtain ⟨rs, hrs, hPs⟩ := ih (fun d hd => h d (by simp [hd]))
    refine ⟨(d, r) :: rs, by simp [runGroups, hr, hrs], ?_⟩
    intro g hg
    rcases List.mem_cons.mp hg with rfl | hg
    · exact hP
    · exact hPs g hg

theorem runGroups_error {β : Type} (f : Nat → Except Err β) (ds : List Nat) (e : Err)
    (h : runGroups f ds = .error e) : ∃ d ∈ ds, f d = .error e := by
  induction ds with
  | nil => simp [runGroups] at h
  | cons d ds ih =>
    simp only [runGroups] at h
    split at h
    · rename_i e' he'
      cases Except.error.inj h
      exact ⟨d, by simp, he'⟩
    · split at h
      · rename_i e' he'
        cases Except.error.inj h
        obtain ⟨d', hd', hf⟩ := ih he'
        exact ⟨d', by simp [hd'], hf⟩
      · exact absurd h (by simp)

theorem mem_groupOf_keys (axes : List (κ × Nat × α)) (a : κ × Nat × α) (ha : a ∈ axes) :
    a.1 ∈ (groupOf axes a.2.1).map Prod.fst := by
  unfold groupOf
  simp only [List.map_map, List.mem_map, List.mem_filter, Function.comp]
  exact ⟨a, ⟨ha, by simp⟩, rfl⟩

theorem groupOf_scores (axes : List (κ × Nat × α)) (d : Nat) (x : κ × α) (hx : x ∈ groupOf axes d) :
    ∃ a ∈ axes, a.2.1 = d ∧ a.2.2 = x.2 := by
  unfold groupOf at hx
  simp only [List.mem_map, List.mem_filter] at hx
  obtain ⟨a, ⟨ha, hd⟩, rfl⟩ := hx
  exact ⟨a, ha, by simpa using hd, rfl⟩

/-! ### the exact rational arithmetic is sound -/

theorem allocRat_sound : AllocSound allocRat := by
  intro s R T hs hsT hR
  unfold allocRat
  have hRq : (0 : ℚ) ≤ (R : ℚ) := by exact_mod_cast hR
  by_cases hT : T = 0
  · simp only [hT, if_true, mul_zero]
    have : Rat.floor 0 = 0 := by
      have := Rat.floor_intCast 0
      simpa using this
    rw [this]
    exact ⟨le_refl _, hR⟩
  · simp only [hT, if_false]
    have hTpos : 0 < T := lt_of_le_of_ne (le_trans hs hsT) (Ne.symm hT)
    have hx0 : (0 : ℚ) ≤ s * ((R : ℚ) / T) := mul_nonneg hs (div_nonneg hRq hTpos.le)
    have hxR : s * ((R : ℚ) / T) ≤ (R : ℚ) := by
      have : s * ((R : ℚ) / T) = (R : ℚ) * (s / T) := by ring
      rw [this]
      have h1 : s / T ≤ 1 := (div_le_one hTpos).mpr hsT
      calc (R : ℚ) * (s / T) ≤ (R : ℚ) * 1 := mul_le_mul_of_nonneg_left h1 hRq
        _ = R := mul_one _
    constructor
    · exact Rat.le_floor_iff.mpr (by exact_mod_cast hx0)
    · have h1 : ((Rat.floor (s * ((R : ℚ) / T)) : Int) : ℚ) ≤ s * ((R : ℚ) / T) := Rat.floor_le _
      have : ((Rat.floor (s * ((R : ℚ) / T)) : Int) : ℚ) ≤ (R : ℚ) := le_trans h1 hxR
      exact_mod_cast this

end PrecondVerif.Realloc
