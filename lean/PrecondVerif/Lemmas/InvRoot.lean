/-
Lemmas for C01 (inverse p-th root): the coupled Newton iteration of `Model/InvRoot.lean` read in an arbitrary ring
through a representation `φ` of its operation record (`Rep`), the loop invariant `Inv`, honesty of the blended result,
the retry loop, symmetry; then (second half) the concrete matrix algebra `matAlg` as a representation in Mathlib's
`Matrix (Fin n) (Fin n) α`.
-/
import PrecondVerif.Model.InvRoot
import Mathlib.Algebra.Group.Basic
import Mathlib.Algebra.Group.Commute.Basic
import Mathlib.Algebra.Ring.Commute
import Mathlib.Algebra.Algebra.Basic
import Mathlib.Algebra.Order.Field.Basic
import Mathlib.Tactic.Ring
import Mathlib.Tactic.Linarith
import Mathlib.Tactic.Positivity
import Mathlib.Data.Matrix.Mul
import Mathlib.Data.Matrix.Basic
import Mathlib.Algebra.BigOperators.Fin
import Mathlib.Algebra.BigOperators.Field
import Mathlib.Algebra.Order.BigOperators.Ring.Finset
import Mathlib.Algebra.Order.BigOperators.Group.Finset
import Mathlib.Algebra.Order.AbsoluteValue.Basic

set_option linter.unusedSectionVars false

namespace PrecondVerif.InvRoot

/-! ### `mat_power` -/

theorem matPowerLoop_rep {M R : Type} [Monoid R] (mul : M → M → M) (φ : M → R)
    (hmul : ∀ x y, φ (mul x y) = φ x * φ y) (i : Nat) (pw m : M) :
    φ (matPowerLoop mul i pw m) = φ m ^ i * φ pw := by
  induction i using Nat.strong_induction_on generalizing pw m with
  | _ i ih =>
    rw [matPowerLoop]
    split
    · rename_i h
      rw [ih (i / 2) (by omega)]
      have hi : i = 2 * (i / 2) + i % 2 := (Nat.div_add_mod i 2).symm
      by_cases hodd : i % 2 = 1
      · rw [if_pos hodd, hmul, hmul]
        conv_rhs => rw [hi, hodd, pow_succ, pow_mul]
        rw [pow_two, mul_assoc]
      · have h0 : i % 2 = 0 := by omega
        rw [if_neg hodd, hmul]
        conv_rhs => rw [hi, h0, Nat.add_zero, pow_mul]
        rw [pow_two]
    · have : i = 0 := by omega
      subst this; simp

theorem natPow_eq_pow {α : Type} [Monoid α] (x : α) (k : Nat) : natPow x k = x ^ k := by
  induction k with
  | zero => simp [natPow]
  | succ k ih => simp [natPow, ih, pow_succ]

/-! ### representation of an `Alg` in a ring -/

section Abstract
variable {M R α : Type} [Field α] [LinearOrder α] [IsStrictOrderedRing α] [Ring R] [Algebra α R]

/-- `φ` reads the carrier of `K` in a ring `R`: the operations are the ring's, `E` is the (masked) identity,
`D` the error functional. -/
structure Rep (K : Alg M α) (φ : M → R) (E : R) (D : R → α) : Prop where
  mul : ∀ x y, φ (K.mul x y) = φ x * φ y
  add : ∀ x y, φ (K.add x y) = φ x + φ y
  smul : ∀ (c : α) x, φ (K.smul c x) = c • φ x
  one : φ K.one = 1
  e : φ K.e = E
  dist : ∀ x, K.dist x = D (φ x)
  idem : E * E = E
  dnonneg : ∀ x, 0 ≤ D x

variable {K : Alg M α} {φ : M → R} {E : R} {D : R → α}

theorem Rep.matPower (h : Rep K φ E D) (x : M) (p : Nat) : φ (matPower K.mul K.one x p) = φ x ^ p := by
  rw [InvRoot.matPower, matPowerLoop_rep K.mul φ h.mul, h.one, mul_one]

/-- the invariant of the inner loop, for the damped matrix `Ad` -/
structure Inv (φ : M → R) (E : R) (D : R → α) (p : Nat) (Ad : R) (st : NState M α) : Prop where
  hm : φ st.m = φ st.h ^ p * Ad
  hc : Commute (φ st.h) Ad
  he : E * φ st.h = φ st.h
  he' : φ st.h * E = φ st.h
  hoe : E * φ st.hold = φ st.hold
  hoe' : φ st.hold * E = φ st.hold
  herr : st.err = D (φ st.m)
  hold : st.err = st.ratio * D (φ st.hold ^ p * Ad)

omit [LinearOrder α] [IsStrictOrderedRing α] in
/-- one Newton step in a ring: `M = H^p Ad` and the commutation/absorption facts are preserved by
`M' = Mi^p M`, `H' = H Mi`, `Mi = c₁ E + c₂ M` -/
theorem ring_step {p : Nat} {H Mm Ad E : R} (c1 c2 : α) (hm : Mm = H ^ p * Ad) (hc : Commute H Ad)
    (he : E * H = H) (he' : H * E = H) (hEA : E * Ad = Ad) (hAE : Ad * E = Ad) (idem : E * E = E) :
    let Mi := c1 • E + c2 • Mm
    Mi ^ p * Mm = (H * Mi) ^ p * Ad ∧ Commute (H * Mi) Ad ∧ E * (H * Mi) = H * Mi ∧ (H * Mi) * E = H * Mi ∧
      Commute H Mi := by
  intro Mi
  have hME : Mm * E = Mm := by rw [hm, mul_assoc, hAE]
  have hMiE : Mi * E = Mi := by
    simp only [Mi, add_mul, smul_mul_assoc, idem, hME]
  have hcHM : Commute H Mm := by
    rw [hm]; exact ((Commute.refl H).pow_right p).mul_right hc
  have hcHE : Commute H E := by
    unfold Commute SemiconjBy; rw [he, he']
  have hcHMi : Commute H Mi := (hcHE.smul_right c1).add_right (hcHM.smul_right c2)
  have hcMA : Commute Mm Ad := by
    rw [hm]; exact (hc.pow_left p).mul_left (Commute.refl Ad)
  have hcEA : Commute E Ad := by
    unfold Commute SemiconjBy; rw [hEA, hAE]
  have hcMiA : Commute Mi Ad := (hcEA.smul_left c1).add_left (hcMA.smul_left c2)
  refine ⟨?_, hc.mul_left hcMiA, ?_, ?_, hcHMi⟩
  · rw [hcHMi.mul_pow, hm, ← mul_assoc, (hcHMi.pow_pow p p).eq]
  · rw [← mul_assoc, he]
  · rw [mul_assoc, hMiE]

theorem Inv.step (h : Rep K φ E D) {p : Nat} {Ad : R} (hEA : E * Ad = Ad) (hAE : Ad * E = Ad)
    (alpha : α) {st : NState M α} (inv : Inv φ E D p Ad st) (hne : st.err ≠ 0) :
    Inv φ E D p Ad (iterBody K p alpha st) := by
  obtain ⟨hm, hc, he, he', hoe, hoe', herr, hold⟩ := inv
  have hφmi : φ (K.add (K.smul (1 - alpha) K.e) (K.smul alpha st.m)) = (1 - alpha) • E + alpha • φ st.m := by
    rw [h.add, h.smul, h.smul, h.e]
  obtain ⟨h1, h2, h3, h4, _⟩ := ring_step (1 - alpha) alpha hm hc he he' hEA hAE h.idem
  refine ⟨?_, ?_, ?_, ?_, he, he', ?_, ?_⟩
  · show φ (K.mul (InvRoot.matPower K.mul K.one _ p) st.m) = φ (K.mul st.h _) ^ p * Ad
    rw [h.mul, h.mul, h.matPower, hφmi]; exact h1
  · show Commute (φ (K.mul st.h _)) Ad
    rw [h.mul, hφmi]; exact h2
  · show E * φ (K.mul st.h _) = φ (K.mul st.h _)
    rw [h.mul, hφmi]; exact h3
  · show φ (K.mul st.h _) * E = φ (K.mul st.h _)
    rw [h.mul, hφmi]; exact h4
  · simp only [iterBody, h.dist]
  · simp only [iterBody]
    rw [← hm, ← herr, h.dist, div_mul_cancel₀ _ hne]

/-- the inner loop keeps the invariant (`0 ≤ tol`: a running loop has `err > tol ≥ 0`) -/
theorem newtonInner_inv (h : Rep K φ E D) {p : Nat} {Ad : R} (hEA : E * Ad = Ad) (hAE : Ad * E = Ad)
    (c : NConsts α) (htol : 0 ≤ c.tol) (alpha : α) (f : Nat) (st : NState M α) (inv : Inv φ E D p Ad st) :
    Inv φ E D p Ad (newtonInner K c p alpha f st) := by
  induction f generalizing st with
  | zero => exact inv
  | succ f ih =>
    rw [newtonInner]
    split
    · rename_i hcnd
      apply ih
      apply inv.step h hEA hAE
      simp only [iterCond, Bool.and_eq_true, decide_eq_true_eq] at hcnd
      exact ne_of_gt (lt_of_le_of_lt htol hcnd.2.1)
    · exact inv

/-- `φ` of the damped matrix of try `i` -/
theorem Rep.damped (h : Rep K φ E D) (A : M) (ridge : α) (i : Nat) :
    φ (InvRoot.damped K A ridge i) = φ A + (ridge * 10 ^ i) • E := by
  rw [InvRoot.damped, h.add, h.smul, h.e, natPow_eq_pow]

theorem idem_pow_mul {E Ad : R} (hEA : E * Ad = Ad) (p : Nat) : E ^ p * Ad = Ad := by
  induction p with
  | zero => simp
  | succ q ih => rw [pow_succ, mul_assoc, hEA, ih]

/-- the initial state of a try satisfies the invariant (kernel spec: `rootp z ^ p = z` for `z ≥ 0`) -/
theorem innerInit_inv (h : Rep K φ E D) {p : Nat} (pα : α) (hp : 0 ≤ pα) (rootp : α → α)
    (hroot : ∀ z, 0 ≤ z → rootp z ^ p = z) (hfro : ∀ X, 0 ≤ K.fro X) (A : M) (ridge : α) (i : Nat)
    (hEA : E * φ (InvRoot.damped K A ridge i) = φ (InvRoot.damped K A ridge i))
    (hAE : φ (InvRoot.damped K A ridge i) * E = φ (InvRoot.damped K A ridge i)) :
    Inv φ E D p (φ (InvRoot.damped K A ridge i)) (innerInit K pα rootp A ridge i) := by
  set Ad := φ (InvRoot.damped K A ridge i) with hAd
  set z : α := (1 + pα) / (2 * K.fro (InvRoot.damped K A ridge i)) with hz
  have hz0 : 0 ≤ z := by
    rw [hz]; exact div_nonneg (by linarith) (mul_nonneg (by norm_num) (hfro _))
  have hpow : ((rootp z) • E) ^ p * Ad = z • Ad := by
    rw [smul_pow, hroot z hz0, smul_mul_assoc, idem_pow_mul hEA]
  have hm0 : φ (innerInit K pα rootp A ridge i).m = z • Ad := by
    simp only [innerInit]; rw [h.smul]
  have hh0 : φ (innerInit K pα rootp A ridge i).h = (rootp z) • E := by
    simp only [innerInit]; rw [h.smul, h.e]
  have hho0 : φ (innerInit K pα rootp A ridge i).hold = (rootp z) • E := by
    simp only [innerInit]; rw [h.smul, h.e]
  refine ⟨?_, ?_, ?_, ?_, ?_, ?_, ?_, ?_⟩
  · rw [hm0, hh0, hpow]
  · rw [hh0]; unfold Commute SemiconjBy
    rw [smul_mul_assoc, mul_smul_comm, hEA, hAE]
  · rw [hh0, mul_smul_comm, h.idem]
  · rw [hh0, smul_mul_assoc, h.idem]
  · rw [hho0, mul_smul_comm, h.idem]
  · rw [hho0, smul_mul_assoc, h.idem]
  · simp only [innerInit, h.dist]
  · rw [hho0, hpow, ← hm0]
    simp only [innerInit, h.dist, one_mul]

/-- `φ` of the blended result: `H` on the converged branch, `Hold` otherwise -/
theorem Rep.blend (h : Rep K φ E D) (c : NConsts α) (st : NState M α) :
    φ (InvRoot.blend K c st) = if st.ratio < c.rmax then φ st.h else φ st.hold := by
  simp only [InvRoot.blend]
  split
  · rw [h.add, h.smul, h.smul]; simp
  · rw [h.add, h.smul, h.smul]; simp

/-- honesty of one try: the reported figure bounds the residual of the returned matrix -/
theorem blend_honest (h : Rep K φ E D) {p : Nat} {Ad : R} (c : NConsts α) (hr : 1 < c.rmax)
    {st : NState M α} (inv : Inv φ E D p Ad st) :
    D (φ (InvRoot.blend K c st) ^ p * Ad) ≤ K.dist st.m ∧
      (st.ratio < c.rmax → D (φ (InvRoot.blend K c st) ^ p * Ad) = K.dist st.m) := by
  rw [h.blend, h.dist, ← inv.herr]
  by_cases hconv : st.ratio < c.rmax
  · simp only [hconv, if_true]
    rw [← inv.hm, ← inv.herr]; exact ⟨le_refl _, fun _ => rfl⟩
  · simp only [hconv, if_false]
    refine ⟨?_, fun hh => hh.elim⟩
    have h1 : 1 ≤ st.ratio := le_of_lt (lt_of_lt_of_le hr (not_lt.mp hconv))
    rw [inv.hold]
    have := h.dnonneg (φ st.hold ^ p * Ad)
    nlinarith

/-- result of the retry loop: the initial state or the body at some try -/
theorem outerLoop_cases (body : Nat → OState M α) (nt f : Nat) (st : OState M α) :
    outerLoop body nt f st = st ∨ ∃ i, outerLoop body nt f st = body i := by
  induction f generalizing st with
  | zero => left; rfl
  | succ f ih =>
    rw [outerLoop]
    split
    · rcases ih (body st.tries) with h | ⟨i, h⟩
      · right; exact ⟨st.tries, h⟩
      · right; exact ⟨i, h⟩
    · left; rfl

/-- with at least one try allowed, the retry loop returns the body of some try `i` (and then `tries = i + 1`) -/
theorem newtonOuter_cases (K : Alg M α) (c : NConsts α) (p : Nat) (pα alpha : α) (rootp cast32 : α → α) (thousand : α)
    (A : M) (ridge : α) (hnt : 1 ≤ c.numTries) :
    ∃ i, newtonOuter K c p pα alpha rootp cast32 thousand A ridge = outerBody K c p pα alpha rootp cast32 A ridge i := by
  obtain ⟨k, hk⟩ : ∃ k, c.numTries = k + 1 := ⟨c.numTries - 1, by omega⟩
  unfold newtonOuter
  rw [hk, outerLoop]
  have : ((outerInit K thousand).failed && decide ((outerInit K thousand).tries < k + 1)) = true := by
    simp [outerInit]
  rw [if_pos this]
  rcases outerLoop_cases (outerBody K c p pα alpha rootp cast32 A ridge) (k + 1) k
      (outerBody K c p pα alpha rootp cast32 A ridge (outerInit K thousand).tries) with h | ⟨i, h⟩
  · exact ⟨_, h⟩
  · exact ⟨i, h⟩

/-! ### symmetry: an anti-multiplicative linear involution `tr` fixing `E` and `Ad` fixes the iterates -/

structure Tr (tr : R → R) : Prop where
  mul : ∀ x y, tr (x * y) = tr y * tr x
  add : ∀ x y, tr (x + y) = tr x + tr y
  smul : ∀ (c : α) x, tr (c • x) = c • tr x
  one : tr 1 = 1

omit [LinearOrder α] [IsStrictOrderedRing α] in
theorem Tr.pow {tr : R → R} (t : Tr (α := α) tr) (x : R) (p : Nat) : tr (x ^ p) = tr x ^ p := by
  induction p with
  | zero => simp [t.one]
  | succ q ih => rw [pow_succ, t.mul, ih, pow_succ']

theorem Inv.step_sym (h : Rep K φ E D) {tr : R → R} (t : Tr (α := α) tr) {p : Nat} {Ad : R}
    (hEA : E * Ad = Ad) (hAE : Ad * E = Ad) (htE : tr E = E) (htA : tr Ad = Ad)
    (alpha : α) {st : NState M α} (inv : Inv φ E D p Ad st) (hs : tr (φ st.h) = φ st.h) :
    tr (φ (iterBody K p alpha st).h) = φ (iterBody K p alpha st).h ∧
      tr (φ (iterBody K p alpha st).hold) = φ (iterBody K p alpha st).hold := by
  obtain ⟨hm, hc, he, he', hoe, hoe', herr, hold⟩ := inv
  obtain ⟨_, _, _, _, hcomm⟩ := ring_step (1 - alpha) alpha hm hc he he' hEA hAE h.idem
  have htM : tr (φ st.m) = φ st.m := by
    rw [hm, t.mul, t.pow, hs, htA, (hc.pow_left p).eq]
  refine ⟨?_, hs⟩
  show tr (φ (K.mul st.h _)) = φ (K.mul st.h _)
  rw [h.mul, h.add, h.smul, h.smul, h.e, t.mul, t.add, t.smul, t.smul, htE, htM, hs]
  exact hcomm.eq.symm

theorem newtonInner_sym (h : Rep K φ E D) {tr : R → R} (t : Tr (α := α) tr) {p : Nat} {Ad : R}
    (hEA : E * Ad = Ad) (hAE : Ad * E = Ad) (htE : tr E = E) (htA : tr Ad = Ad)
    (c : NConsts α) (htol : 0 ≤ c.tol) (alpha : α) (f : Nat) (st : NState M α) (inv : Inv φ E D p Ad st)
    (hs : tr (φ st.h) = φ st.h ∧ tr (φ st.hold) = φ st.hold) :
    tr (φ (newtonInner K c p alpha f st).h) = φ (newtonInner K c p alpha f st).h ∧
      tr (φ (newtonInner K c p alpha f st).hold) = φ (newtonInner K c p alpha f st).hold := by
  induction f generalizing st with
  | zero => exact hs
  | succ f ih =>
    rw [newtonInner]
    split
    · rename_i hcnd
      simp only [iterCond, Bool.and_eq_true, decide_eq_true_eq] at hcnd
      exact ih _ (inv.step h hEA hAE alpha (ne_of_gt (lt_of_le_of_lt htol hcnd.2.1)))
        (inv.step_sym h t hEA hAE htE htA alpha hs.1)
    · exact hs

end Abstract
/-! ## the concrete matrix algebra -/

open Matrix

section Concrete
variable {α : Type} [Field α] [LinearOrder α] [IsStrictOrderedRing α] {n : Nat}

abbrev MatR (α : Type) (n : Nat) := Matrix (Fin n) (Fin n) α

/-- a tabulated matrix read as a Mathlib matrix -/
def toM (X : DMat α n) : MatR α n := Matrix.of X.fn

/-- the masked identity as a Mathlib matrix -/
def Es (α : Type) [Field α] (n s : Nat) : MatR α n := Matrix.of (Mat.maskedId s)

theorem sumFin_eq_sum (f : Fin n → α) : sumFin f = ∑ i, f i := by
  rw [sumFin, Fin.sum_univ_def]

theorem maxS_eq_max (a b : α) : maxS a b = max a b := by
  unfold maxS; split_ifs with h
  · exact (max_eq_right (le_of_lt h)).symm
  · exact (max_eq_left (not_lt.mp h)).symm

theorem absS_eq_abs (x : α) : absS x = |x| := by
  unfold absS; split_ifs with h
  · exact (abs_of_neg h).symm
  · exact (abs_of_nonneg (not_lt.mp h)).symm

theorem foldl_ge {β : Type} (step : α → β → α) (hstep : ∀ a b, a ≤ step a b) (l : List β) (a : α) :
    a ≤ l.foldl step a := by
  induction l generalizing a with
  | nil => exact le_refl _
  | cons x xs ih => exact le_trans (hstep a x) (ih _)

theorem foldl_mem_ge {β : Type} (step : α → β → α) (g : β → α) (hstep : ∀ a b, a ≤ step a b)
    (hg : ∀ a b, g b ≤ step a b) (l : List β) (a : α) : ∀ b ∈ l, g b ≤ l.foldl step a := by
  induction l generalizing a with
  | nil => intro b hb; cases hb
  | cons x xs ih =>
    intro b hb
    rcases List.mem_cons.mp hb with rfl | hb
    · exact le_trans (hg a b) (foldl_ge step hstep xs _)
    · exact ih _ b hb

theorem maxAbs_nonneg {m k : Nat} (A : Mat α m k) : 0 ≤ Mat.maxAbs A := by
  unfold Mat.maxAbs
  apply foldl_ge
  intro a i
  apply foldl_ge
  intro a j; rw [maxS_eq_max]; exact le_max_left _ _

theorem le_maxAbs {m k : Nat} (A : Mat α m k) (i : Fin m) (j : Fin k) : |A i j| ≤ Mat.maxAbs A := by
  unfold Mat.maxAbs
  apply foldl_mem_ge (g := fun i => |A i j|)
  · intro a i
    apply foldl_ge
    intro a j; rw [maxS_eq_max]; exact le_max_left _ _
  · intro a i
    apply foldl_mem_ge (g := fun j => |A i j|)
    · intro a j; rw [maxS_eq_max]; exact le_max_left _ _
    · intro a j; rw [maxS_eq_max, absS_eq_abs]; exact le_max_right _ _
    · exact List.mem_finRange j
  · exact List.mem_finRange i

/-- the error functional: `max |X - I_s|` -/
def Ds (s : Nat) (X : MatR α n) : α := Mat.maxAbs (Mat.sub (fun i j => X i j) (Mat.maskedId s))

theorem Es_eq_diagonal (s : Nat) : Es α n s = Matrix.diagonal (Mat.ix s) := by
  ext i j
  simp only [Es, Matrix.of_apply, Mat.maskedId, Mat.one, Matrix.diagonal_apply]
  split_ifs with h
  · subst h; simp
  · simp

theorem ix_idem (s : Nat) (i : Fin n) : (Mat.ix s i : α) * Mat.ix s i = Mat.ix s i := by
  unfold Mat.ix; split_ifs <;> simp

theorem Es_idem (s : Nat) : Es α n s * Es α n s = Es α n s := by
  rw [Es_eq_diagonal, Matrix.diagonal_mul_diagonal]
  congr 1; funext i; exact ix_idem s i

/-- the concrete algebra is represented in Mathlib's matrix ring -/
theorem matAlg_rep (s : Nat) (sqrt : α → α) : Rep (matAlg n s sqrt) (toM (α := α) (n := n)) (Es α n s) (Ds s) where
  mul := by
    intro x y; ext i j
    simp only [matAlg, toM, Matrix.of_apply, DMat.fn_tab, Mat.mul, Matrix.mul_apply, sumFin_eq_sum]
  add := by
    intro x y; ext i j
    simp only [matAlg, toM, Matrix.of_apply, DMat.fn_tab, Mat.add, Matrix.add_apply]
  smul := by
    intro c x; ext i j
    simp only [matAlg, toM, Matrix.of_apply, DMat.fn_tab, Mat.smul, Matrix.smul_apply, smul_eq_mul]
  one := by
    ext i j
    simp only [matAlg, toM, Matrix.of_apply, DMat.fn_tab, Mat.one, Matrix.one_apply]
  e := by
    ext i j
    simp only [matAlg, toM, Es, Matrix.of_apply, DMat.fn_tab]
  dist := by
    intro x
    simp only [matAlg, Ds, toM, Matrix.of_apply]
  idem := Es_idem s
  dnonneg := fun x => maxAbs_nonneg _

/-- the masked input as a Mathlib matrix -/
def maskM (s : Nat) (A : Mat α n n) : MatR α n := Matrix.of (Mat.mask s A)

theorem toM_tab (A : Mat α n n) : toM (DMat.tab A) = Matrix.of A := by
  ext i j; simp [toM]

theorem Es_mul_maskM (s : Nat) (A : Mat α n n) : Es α n s * maskM s A = maskM s A := by
  rw [Es_eq_diagonal]; ext i j
  rw [Matrix.diagonal_mul]
  simp only [maskM, Matrix.of_apply, Mat.mask]
  calc Mat.ix s i * (A i j * Mat.ix s j * Mat.ix s i) = A i j * Mat.ix s j * (Mat.ix s i * Mat.ix s i) := by ring
    _ = _ := by rw [ix_idem]

theorem maskM_mul_Es (s : Nat) (A : Mat α n n) : maskM s A * Es α n s = maskM s A := by
  rw [Es_eq_diagonal]; ext i j
  rw [Matrix.mul_diagonal]
  simp only [maskM, Matrix.of_apply, Mat.mask]
  calc A i j * Mat.ix s j * Mat.ix s i * Mat.ix s j = A i j * (Mat.ix s j * Mat.ix s j) * Mat.ix s i := by ring
    _ = _ := by rw [ix_idem]

/-- the damped matrix `A_d = mask(A) + d·I_s` -/
def dampedM (s : Nat) (A : Mat α n n) (d : α) : MatR α n := maskM s A + d • Es α n s

theorem Es_mul_dampedM (s : Nat) (A : Mat α n n) (d : α) : Es α n s * dampedM s A d = dampedM s A d := by
  rw [dampedM, mul_add, mul_smul_comm, Es_idem, Es_mul_maskM]

theorem dampedM_mul_Es (s : Nat) (A : Mat α n n) (d : α) : dampedM s A d * Es α n s = dampedM s A d := by
  rw [dampedM, add_mul, smul_mul_assoc, Es_idem, maskM_mul_Es]

theorem toM_damped (s : Nat) (sqrt : α → α) (A : Mat α n n) (ridge : α) (i : Nat) :
    toM (damped (matAlg n s sqrt) (DMat.tab (Mat.mask s A)) ridge i) = dampedM s A (ridge * 10 ^ i) := by
  rw [(matAlg_rep s sqrt).damped, toM_tab]; rfl

theorem transpose_Tr : Tr (α := α) (Matrix.transpose : MatR α n → MatR α n) where
  mul := Matrix.transpose_mul
  add := Matrix.transpose_add
  smul := Matrix.transpose_smul
  one := Matrix.transpose_one

theorem transpose_Es (s : Nat) : (Es α n s)ᵀ = Es α n s := by
  rw [Es_eq_diagonal, Matrix.diagonal_transpose]

theorem transpose_dampedM (s : Nat) (A : Mat α n n) (hA : ∀ i j, A i j = A j i) (d : α) :
    (dampedM s A d)ᵀ = dampedM s A d := by
  rw [dampedM, Matrix.transpose_add, Matrix.transpose_smul, transpose_Es]
  congr 1
  ext i j
  simp only [maskM, Matrix.transpose_apply, Matrix.of_apply, Mat.mask]
  rw [hA j i]; ring

/-- rows and columns at or after the padding start of a matrix absorbed by `I_s` vanish -/
theorem zero_of_Es_mul (s : Nat) (X : MatR α n) (h1 : Es α n s * X = X) (h2 : X * Es α n s = X) (i j : Fin n)
    (hij : s ≤ i.val ∨ s ≤ j.val) : X i j = 0 := by
  rcases hij with h | h
  · rw [← h1, Es_eq_diagonal, Matrix.diagonal_mul]
    simp [Mat.ix, Nat.not_lt.mpr h]
  · rw [← h2, Es_eq_diagonal, Matrix.mul_diagonal]
    simp [Mat.ix, Nat.not_lt.mpr h]

/-! ### one try and the retry loop on matrices -/

section Run
variable (s : Nat) (c : NConsts α) (p : Nat) (pα alpha : α) (sqrt rootp cast32 : α → α) (thousand : α)
  (A : Mat α n n) (ridge : α)

/-- the final inner state of try `i` -/
def tryState (i : Nat) : NState (DMat α n) α :=
  newtonInner (matAlg n s sqrt) c p alpha c.numIters
    (innerInit (matAlg n s sqrt) pα rootp (DMat.tab (Mat.mask s A)) ridge i)

theorem fro_nonneg (hsqrt : ∀ x, 0 ≤ sqrt x) (X : DMat α n) : 0 ≤ (matAlg n s sqrt).fro X := by
  simp only [matAlg, Mat.fro]; exact hsqrt _

/-- every state the inner loop of try `i` reaches (any fuel) satisfies the invariant for `A_d(i)` -/
theorem reach_inv (htol : 0 ≤ c.tol) (hp : 0 ≤ pα) (hroot : ∀ z, 0 ≤ z → rootp z ^ p = z)
    (hsqrt : ∀ x, 0 ≤ sqrt x) (i f : Nat) :
    Inv (toM (α := α) (n := n)) (Es α n s) (Ds s) p (dampedM s A (ridge * 10 ^ i))
      (newtonInner (matAlg n s sqrt) c p alpha f
        (innerInit (matAlg n s sqrt) pα rootp (DMat.tab (Mat.mask s A)) ridge i)) := by
  have hrep := matAlg_rep (α := α) (n := n) s sqrt
  have hd := toM_damped s sqrt A ridge i
  apply newtonInner_inv hrep (Es_mul_dampedM s A _) (dampedM_mul_Es s A _) c htol
  have := innerInit_inv hrep pα hp rootp hroot (fro_nonneg s sqrt hsqrt) (DMat.tab (Mat.mask s A)) ridge i
    (by rw [hd]; exact Es_mul_dampedM s A _) (by rw [hd]; exact dampedM_mul_Es s A _)
  rw [hd] at this
  exact this

/-- symmetry of every reachable state -/
theorem reach_sym (htol : 0 ≤ c.tol) (hp : 0 ≤ pα) (hroot : ∀ z, 0 ≤ z → rootp z ^ p = z)
    (hsqrt : ∀ x, 0 ≤ sqrt x) (hA : ∀ i j, A i j = A j i) (i f : Nat) :
    let st := newtonInner (matAlg n s sqrt) c p alpha f
        (innerInit (matAlg n s sqrt) pα rootp (DMat.tab (Mat.mask s A)) ridge i)
    (toM st.h)ᵀ = toM st.h ∧ (toM st.hold)ᵀ = toM st.hold := by
  have hrep := matAlg_rep (α := α) (n := n) s sqrt
  have hd := toM_damped s sqrt A ridge i
  have hinit := innerInit_inv hrep pα hp rootp hroot (fro_nonneg s sqrt hsqrt) (DMat.tab (Mat.mask s A)) ridge i
    (by rw [hd]; exact Es_mul_dampedM s A _) (by rw [hd]; exact dampedM_mul_Es s A _)
  rw [hd] at hinit
  apply newtonInner_sym hrep transpose_Tr (Es_mul_dampedM s A _) (dampedM_mul_Es s A _) (transpose_Es s)
    (transpose_dampedM s A hA _) c htol alpha f _ hinit
  simp only [innerInit]
  rw [hrep.smul, hrep.e, Matrix.transpose_smul, transpose_Es]
  exact ⟨rfl, rfl⟩

end Run

end Concrete

/-! ## eigh root -/

section Eigh
variable {α : Type} [Field α] [LinearOrder α] [IsStrictOrderedRing α] {n : Nat}

theorem conj_diag_pow (U : MatR α n) (hU1 : Uᵀ * U = 1) (hU2 : U * Uᵀ = 1) (g : Fin n → α) (p : Nat) :
    (U * Matrix.diagonal g * Uᵀ) ^ p = U * Matrix.diagonal (fun k => g k ^ p) * Uᵀ := by
  induction p with
  | zero => simp [hU2]
  | succ q ih =>
    rw [pow_succ, ih]
    calc U * diagonal (fun k => g k ^ q) * Uᵀ * (U * diagonal g * Uᵀ)
        = U * diagonal (fun k => g k ^ q) * (Uᵀ * U) * diagonal g * Uᵀ := by simp only [mul_assoc]
      _ = U * (diagonal (fun k => g k ^ q) * diagonal g) * Uᵀ := by rw [hU1]; simp only [mul_one, mul_assoc]
      _ = _ := by rw [diagonal_mul_diagonal]; congr 3; funext k; rw [pow_succ]

theorem eighVal_eq (sqrt : α → α) (U : Mat α n n) (v : Vec α n) :
    (Matrix.of (eighVal sqrt U v) : MatR α n) =
      (Matrix.of U : MatR α n) * Matrix.diagonal (fun k => sqrt (v k) * sqrt (v k)) * (Matrix.of U : MatR α n)ᵀ := by
  ext i j
  rw [Matrix.mul_apply]
  simp only [Matrix.mul_diagonal, Matrix.transpose_apply, Matrix.of_apply]
  simp only [eighVal, Mat.mul, Mat.transpose, sumFin_eq_sum]
  apply Finset.sum_congr rfl
  intro k _; ring

/-- `inv_e` on the two kinds of eigen-indices -/
theorem eighInvE_eq [BEq α] [LawfulBEq α] (s : Nat) (invroot : α → α) (ridge : α) (hridge : 0 < ridge) (e : Vec α n)
    (hpos : ∀ i, n - 1 - i.val < s → ridge ≤ e i) (i : Fin n) :
    eighInvE s invroot ridge e i = if n - 1 - i.val < s then invroot (e i) else 0 := by
  unfold eighInvE flipIx
  by_cases h : n - 1 - i.val < s
  · have hei := hpos i h
    have hpos' : 0 < e i := lt_of_lt_of_le hridge hei
    simp only [h, if_true, mul_one, maxS_eq_max, max_eq_left hei]
    have : (e i == 0) = false := by simp [ne_of_gt hpos']
    simp [this, hpos']
  · simp [h]

theorem conj_diag_mul (U : MatR α n) (hU1 : Uᵀ * U = 1) (g h : Fin n → α) :
    (U * Matrix.diagonal g * Uᵀ) * (U * Matrix.diagonal h * Uᵀ) = U * Matrix.diagonal (fun k => g k * h k) * Uᵀ := by
  calc U * diagonal g * Uᵀ * (U * diagonal h * Uᵀ)
      = U * diagonal g * (Uᵀ * U) * diagonal h * Uᵀ := by simp only [mul_assoc]
    _ = U * (diagonal g * diagonal h) * Uᵀ := by rw [hU1]; simp only [mul_one, mul_assoc]
    _ = _ := by rw [diagonal_mul_diagonal]

/-- the eigh root in the eigenbasis: `X = U diag(inv_e) Uᵀ`, `X^p · (U diag(e) Uᵀ) = U diag(flip(ix)) Uᵀ`, `X` symmetric,
and `X` is absorbed by `U diag(flip(ix)) Uᵀ` -/
theorem eigh_root_core [BEq α] [LawfulBEq α] (s p : Nat) (sqrt invroot : α → α) (ridge : α) (hridge : 0 < ridge)
    (U : Mat α n n) (e : Vec α n)
    (hU1 : (Matrix.of U : MatR α n)ᵀ * Matrix.of U = 1) (hU2 : (Matrix.of U : MatR α n) * (Matrix.of U)ᵀ = 1)
    (hpos : ∀ i : Fin n, n - 1 - i.val < s → ridge ≤ e i) (hzero : ∀ i : Fin n, ¬ n - 1 - i.val < s → e i = 0)
    (hsqrt : ∀ x, 0 ≤ x → sqrt x * sqrt x = x) (hinv : ∀ x, 0 < x → 0 ≤ invroot x ∧ invroot x ^ p * x = 1) :
    let X : MatR α n := Matrix.of (eighVal sqrt U (eighInvE s invroot ridge e))
    let P : MatR α n := Matrix.of U * Matrix.diagonal (flipIx n s) * (Matrix.of U)ᵀ
    X ^ p * (Matrix.of U * Matrix.diagonal e * (Matrix.of U)ᵀ) = P ∧ Xᵀ = X ∧ X * P = X ∧ P * X = X := by
  intro X P
  have hv : ∀ k, eighInvE s invroot ridge e k = if n - 1 - k.val < s then invroot (e k) else 0 :=
    eighInvE_eq s invroot ridge hridge e hpos
  have hv0 : ∀ k, 0 ≤ eighInvE s invroot ridge e k := by
    intro k; rw [hv]; split
    · rename_i h; exact (hinv _ (lt_of_lt_of_le hridge (hpos k h))).1
    · exact le_refl _
  have hX : X = Matrix.of U * Matrix.diagonal (eighInvE s invroot ridge e) * (Matrix.of U)ᵀ := by
    show Matrix.of (eighVal sqrt U (eighInvE s invroot ridge e)) = _
    rw [eighVal_eq]
    have : (fun k => sqrt (eighInvE s invroot ridge e k) * sqrt (eighInvE s invroot ridge e k)) =
        eighInvE s invroot ridge e := by funext k; exact hsqrt _ (hv0 k)
    rw [this]
  have hflip : ∀ k : Fin n, (flipIx n s k : α) = if n - 1 - k.val < s then 1 else 0 := fun k => rfl
  refine ⟨?_, ?_, ?_, ?_⟩
  · rw [hX, conj_diag_pow _ hU1 hU2, conj_diag_mul _ hU1]
    have : (fun k => eighInvE s invroot ridge e k ^ p * e k) = flipIx n s := by
      funext k
      rw [hv, hflip]; split
      · rename_i h; exact (hinv _ (lt_of_lt_of_le hridge (hpos k h))).2
      · rename_i h; rw [hzero k h, mul_zero]
    rw [this]
  · rw [hX]; simp only [Matrix.transpose_mul, Matrix.diagonal_transpose, Matrix.transpose_transpose, mul_assoc]
  · rw [hX, conj_diag_mul _ hU1]
    have : (fun k => eighInvE s invroot ridge e k * flipIx n s k) = eighInvE s invroot ridge e := by
      funext k
      rw [hv, hflip]; split <;> simp
    rw [this]
  · rw [hX, conj_diag_mul _ hU1]
    have : (fun k => flipIx n s k * eighInvE s invroot ridge e k) = eighInvE s invroot ridge e := by
      funext k
      rw [hv, hflip]; split <;> simp
    rw [this]

end Eigh

/-! ## power iteration -/

section PI
variable {α : Type} [Field α] [LinearOrder α] [IsStrictOrderedRing α] {n : Nat}

theorem dot_self_nonneg (v : Vec α n) : 0 ≤ dot v v := by
  rw [dot, sumFin_eq_sum]; exact Finset.sum_nonneg fun i _ => mul_self_nonneg _

theorem dot_div (v : Vec α n) (c : α) : dot (fun i => v i / c) (fun i => v i / c) = dot v v / (c * c) := by
  simp only [dot, sumFin_eq_sum]
  rw [Finset.sum_div]
  apply Finset.sum_congr rfl
  intro i _; rw [div_mul_div_comm]

/-- the normalised iterate has squared norm `≤ 1` (`1`, or `0` when the iterate vanishes) -/
theorem dot_normalised_le_one (sqrt : α → α) (hsqrt : ∀ x, 0 ≤ x → sqrt x * sqrt x = x) (v : Vec α n) :
    dot (fun i => v i / sqrt (dot v v)) (fun i => v i / sqrt (dot v v)) ≤ 1 := by
  rw [dot_div, hsqrt _ (dot_self_nonneg v)]
  by_cases h : dot v v = 0
  · rw [h]; simp
  · rw [div_self h]

theorem piBody_le (sqrt : α → α) (hsqrt : ∀ x, 0 ≤ x → sqrt x * sqrt x = x) (tol : α) (A : Mat α n n) (lam : α)
    (hlam : 0 ≤ lam) (hmax : ∀ x : Vec α n, dot x (Mat.mulVec A x) ≤ lam * dot x x) (st : PIState α n) :
    (piBody sqrt tol A st).s ≤ lam := by
  simp only [piBody, DVec.fn_tab]
  refine le_trans (hmax _) ?_
  have := dot_normalised_le_one sqrt hsqrt st.v.fn
  calc lam * _ ≤ lam * 1 := mul_le_mul_of_nonneg_left this hlam
    _ = lam := mul_one _

theorem piLoop_le (sqrt : α → α) (hsqrt : ∀ x, 0 ≤ x → sqrt x * sqrt x = x) (tol : α) (A : Mat α n n) (lam : α)
    (hlam : 0 ≤ lam) (hmax : ∀ x : Vec α n, dot x (Mat.mulVec A x) ≤ lam * dot x x) (numIters f : Nat)
    (st : PIState α n) (h : st.s ≤ lam) : (piLoop sqrt tol A numIters f st).s ≤ lam := by
  induction f generalizing st with
  | zero => exact h
  | succ f ih =>
    rw [piLoop]; split
    · exact ih _ (piBody_le sqrt hsqrt tol A lam hlam hmax st)
    · exact h

end PI

/-! ## perturbed eigh root (ext) -/

section Perturbed
variable {α : Type} [Field α] [LinearOrder α] [IsStrictOrderedRing α] {n : Nat}

/-- a row of an orthogonal matrix has `ℓ¹` norm at most ... in squared form: `(Σ|r_k|)² ≤ n` when `Σ r_k² = 1` -/
theorem sq_sum_abs_le (r : Fin n → α) (hr : ∑ k, r k * r k = 1) : (∑ k, |r k|) ^ 2 ≤ (n : α) := by
  have h := Finset.sum_mul_sq_le_sq_mul_sq Finset.univ (fun k => |r k|) (fun _ => (1 : α))
  simp only [mul_one, one_pow, Finset.sum_const, Finset.card_univ, Fintype.card_fin, nsmul_eq_mul, sq_abs] at h
  have h2 : ∑ k, r k ^ 2 = 1 := by rw [← hr]; exact Finset.sum_congr rfl fun k _ => pow_two _
  rw [h2, one_mul] at h
  simpa using h

theorem orth_row_sq (U : MatR α n) (hU2 : U * Uᵀ = 1) (i : Fin n) : ∑ k, U i k * U i k = 1 := by
  have := congrFun (congrFun hU2 i) i
  simpa [Matrix.mul_apply, Matrix.transpose_apply] using this

/-- entrywise bound for `U · diag(w) · Δ · Uᵀ` with `0 ≤ w ≤ c`, `|Δ| ≤ η`, `U` orthogonal: `≤ n · c · η` -/
theorem conj_perturb_bound (U Δ : MatR α n) (hU2 : U * Uᵀ = 1) (w : Fin n → α) (c η : α)
    (hw0 : ∀ k, 0 ≤ w k) (hwc : ∀ k, w k ≤ c) (hΔ : ∀ k l, |Δ k l| ≤ η) (i j : Fin n) :
    |(U * (Matrix.diagonal w * Δ) * Uᵀ) i j| ≤ (n : α) * (c * η) := by
  have hc : 0 ≤ c := by
    by_cases hn : n = 0
    · subst hn; exact i.elim0
    · exact le_trans (hw0 i) (hwc i)
  have hη : 0 ≤ η := le_trans (abs_nonneg _) (hΔ i i)
  have hexp : (U * (Matrix.diagonal w * Δ) * Uᵀ) i j = ∑ l, ∑ k, U i k * (w k * Δ k l) * U j l := by
    rw [Matrix.mul_apply]
    apply Finset.sum_congr rfl; intro l _
    rw [Matrix.mul_apply, Finset.sum_mul]
    apply Finset.sum_congr rfl; intro k _
    rw [Matrix.diagonal_mul, Matrix.transpose_apply]
  rw [hexp]
  have hterm : ∀ l k, |U i k * (w k * Δ k l) * U j l| ≤ (c * η) * (|U i k| * |U j l|) := by
    intro l k
    rw [abs_mul, abs_mul, abs_mul, abs_of_nonneg (hw0 k)]
    have h1 : w k * |Δ k l| ≤ c * η := mul_le_mul (hwc k) (hΔ k l) (abs_nonneg _) hc
    calc |U i k| * (w k * |Δ k l|) * |U j l| ≤ |U i k| * (c * η) * |U j l| :=
          mul_le_mul_of_nonneg_right (mul_le_mul_of_nonneg_left h1 (abs_nonneg _)) (abs_nonneg _)
      _ = (c * η) * (|U i k| * |U j l|) := by ring
  have hsum : |∑ l, ∑ k, U i k * (w k * Δ k l) * U j l| ≤ (c * η) * ((∑ k, |U i k|) * (∑ l, |U j l|)) := by
    calc |∑ l, ∑ k, U i k * (w k * Δ k l) * U j l|
        ≤ ∑ l, |∑ k, U i k * (w k * Δ k l) * U j l| := Finset.abs_sum_le_sum_abs _ _
      _ ≤ ∑ l, ∑ k, |U i k * (w k * Δ k l) * U j l| := Finset.sum_le_sum fun l _ => Finset.abs_sum_le_sum_abs _ _
      _ ≤ ∑ l, ∑ k, (c * η) * (|U i k| * |U j l|) := Finset.sum_le_sum fun l _ => Finset.sum_le_sum fun k _ => hterm l k
      _ = (c * η) * ((∑ k, |U i k|) * (∑ l, |U j l|)) := by
          rw [Finset.sum_mul_sum, Finset.mul_sum, Finset.sum_comm]
          apply Finset.sum_congr rfl; intro k _
          rw [Finset.mul_sum]
  refine le_trans hsum ?_
  have ha := sq_sum_abs_le (fun k => U i k) (orth_row_sq U hU2 i)
  have hb := sq_sum_abs_le (fun k => U j k) (orth_row_sq U hU2 j)
  have ha0 : 0 ≤ ∑ k, |U i k| := Finset.sum_nonneg fun _ _ => abs_nonneg _
  have hb0 : 0 ≤ ∑ k, |U j k| := Finset.sum_nonneg fun _ _ => abs_nonneg _
  have hab : (∑ k, |U i k|) * (∑ l, |U j l|) ≤ (n : α) := by nlinarith [sq_nonneg ((∑ k, |U i k|) - (∑ l, |U j l|))]
  calc c * η * ((∑ k, |U i k|) * ∑ l, |U j l|) ≤ c * η * (n : α) := mul_le_mul_of_nonneg_left hab (mul_nonneg hc hη)
    _ = (n : α) * (c * η) := by ring

/-- perturbed eigh root (no padding): if `U` is orthogonal, the computed eigenvalues are `≥ d` and
`|Uᵀ R U − diag e|_max ≤ η`, then `|X^p R − 1|_max ≤ n · η / d` -/
theorem eigh_root_perturbed_core [BEq α] [LawfulBEq α] (s p : Nat) (hns : n ≤ s) (sqrt invroot : α → α) (ridge : α)
    (hridge : 0 < ridge) (U : Mat α n n) (e : Vec α n) (R : MatR α n) (η : α)
    (hU1 : (Matrix.of U : MatR α n)ᵀ * Matrix.of U = 1) (hU2 : (Matrix.of U : MatR α n) * (Matrix.of U)ᵀ = 1)
    (hge : ∀ i : Fin n, ridge ≤ e i)
    (hη : ∀ i j, |((Matrix.of U : MatR α n)ᵀ * R * Matrix.of U - Matrix.diagonal e) i j| ≤ η)
    (hsqrt : ∀ x, 0 ≤ x → sqrt x * sqrt x = x) (hinv : ∀ x, 0 < x → 0 ≤ invroot x ∧ invroot x ^ p * x = 1) :
    let X : MatR α n := Matrix.of (eighVal sqrt U (eighInvE s invroot ridge e))
    ∀ i j, |(X ^ p * R - 1) i j| ≤ (n : α) * η / ridge := by
  intro X
  have hcond : ∀ k : Fin n, n - 1 - k.val < s := fun k => by have := k.isLt; omega
  have hv : ∀ k, eighInvE s invroot ridge e k = invroot (e k) := by
    intro k
    rw [eighInvE_eq s invroot ridge hridge e (fun i _ => hge i) k, if_pos (hcond k)]
  have hepos : ∀ k, 0 < e k := fun k => lt_of_lt_of_le hridge (hge k)
  have hv0 : ∀ k, 0 ≤ eighInvE s invroot ridge e k := fun k => by rw [hv]; exact (hinv _ (hepos k)).1
  set UM : MatR α n := Matrix.of U with hUM
  have hX : X = UM * Matrix.diagonal (eighInvE s invroot ridge e) * UMᵀ := by
    show Matrix.of (eighVal sqrt U (eighInvE s invroot ridge e)) = _
    rw [eighVal_eq]
    have : (fun k => sqrt (eighInvE s invroot ridge e k) * sqrt (eighInvE s invroot ridge e k)) =
        eighInvE s invroot ridge e := by funext k; exact hsqrt _ (hv0 k)
    rw [this]
  set w : Fin n → α := fun k => eighInvE s invroot ridge e k ^ p with hw
  have hwe : ∀ k, w k * e k = 1 := fun k => by simp only [hw, hv]; exact (hinv _ (hepos k)).2
  have hw0 : ∀ k, 0 ≤ w k := fun k => pow_nonneg (hv0 k) p
  have hwc : ∀ k, w k ≤ 1 / ridge := by
    intro k
    have : w k = 1 / e k := by rw [eq_div_iff (ne_of_gt (hepos k))]; exact hwe k
    rw [this]; exact one_div_le_one_div_of_le hridge (hge k)
  set Δ : MatR α n := UMᵀ * R * UM - Matrix.diagonal e with hΔ
  have hT : UMᵀ * R * UM = Matrix.diagonal e + Δ := by rw [hΔ]; exact (add_sub_cancel _ _).symm
  have hR : R = UM * (UMᵀ * R * UM) * UMᵀ := by
    calc R = (UM * UMᵀ) * R * (UM * UMᵀ) := by rw [hU2]; simp
      _ = _ := by simp only [mul_assoc]
  have hXp : X ^ p = UM * Matrix.diagonal w * UMᵀ := by rw [hX, conj_diag_pow _ hU1 hU2]
  have hdiag : Matrix.diagonal w * Matrix.diagonal e = (1 : MatR α n) := by
    rw [Matrix.diagonal_mul_diagonal]
    have : (fun k => w k * e k) = fun _ => (1 : α) := funext hwe
    rw [this, Matrix.diagonal_one]
  have key : X ^ p * R - 1 = UM * (Matrix.diagonal w * Δ) * UMᵀ := by
    have h1 : X ^ p * R = UM * (Matrix.diagonal w * (Matrix.diagonal e + Δ)) * UMᵀ := by
      rw [hXp]
      conv_lhs => rw [hR, hT]
      calc UM * Matrix.diagonal w * UMᵀ * (UM * (Matrix.diagonal e + Δ) * UMᵀ)
          = UM * Matrix.diagonal w * (UMᵀ * UM) * (Matrix.diagonal e + Δ) * UMᵀ := by simp only [mul_assoc]
        _ = _ := by rw [hU1]; simp only [mul_one, mul_assoc]
    rw [h1, mul_add, hdiag, mul_add, add_mul, mul_one, hU2, add_sub_cancel_left]
  intro i j
  rw [key]
  have := conj_perturb_bound UM Δ hU2 w (1 / ridge) η hw0 hwc hη i j
  calc _ ≤ (n : α) * (1 / ridge * η) := this
    _ = (n : α) * η / ridge := by ring

end Perturbed

end PrecondVerif.InvRoot
