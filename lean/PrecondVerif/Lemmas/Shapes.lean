import PrecondVerif.Model.Shapes

namespace PrecondVerif.Shapes

theorem prod_pos {l : List Nat} (h : ∀ d ∈ l, 1 ≤ d) : 1 ≤ prod l := by
  induction l with
  | nil => simp
  | cons a l ih =>
    have ha : 1 ≤ a := h a (by simp)
    have hl : 1 ≤ prod l := ih (fun d hd => h d (by simp [hd]))
    simp only [prod_cons]
    exact Nat.mul_le_mul ha hl

theorem mergeGo_prod (m : Nat) (ds : List Nat) (p : Nat) (hp : 1 ≤ p) (h : ∀ d ∈ ds, 1 ≤ d) :
    prod (mergeGo m ds p) = p * prod ds := by
  induction ds generalizing p with
  | nil =>
    simp only [mergeGo]
    split
    · simp
    · have : p = 1 := by omega
      simp [this]
  | cons d ds ih =>
    have hd : 1 ≤ d := h d (by simp)
    have hds : ∀ x ∈ ds, 1 ≤ x := fun x hx => h x (by simp [hx])
    simp only [mergeGo]
    split
    · rw [ih (p * d) (Nat.mul_le_mul hp hd) hds]; simp [Nat.mul_assoc]
    · split
      · simp [ih d hd hds]
      · have : p = 1 := by omega
        simp [ih d hd hds, this]

theorem prod_all_one {l : List Nat} (h : l.all (· == 1) = true) : prod l = 1 := by
  induction l with
  | nil => rfl
  | cons a l ih =>
    simp only [List.all_cons, Bool.and_eq_true, beq_iff_eq] at h
    simp [h.1, ih h.2]

theorem mergeGo_mem (m : Nat) (S : List Nat) (ds : List Nat) (p : Nat)
    (hp : p ≤ m ∨ p ∈ S ∨ p = 1) (h : ∀ d ∈ ds, d ∈ S) :
    ∀ x ∈ mergeGo m ds p, x ≤ m ∨ x ∈ S := by
  induction ds generalizing p with
  | nil =>
    intro x hx
    simp only [mergeGo] at hx
    split at hx
    · simp at hx; subst hx
      rcases hp with hp | hp | hp
      · exact Or.inl hp
      · exact Or.inr hp
      · omega
    · simp at hx
  | cons d ds ih =>
    have hd : d ∈ S := h d (by simp)
    have hds : ∀ x ∈ ds, x ∈ S := fun x hx => h x (by simp [hx])
    intro x hx
    simp only [mergeGo] at hx
    split at hx
    · exact ih (p * d) (Or.inl ‹_›) hds x hx
    · split at hx
      · simp at hx
        rcases hx with hx | hx
        · subst hx
          rcases hp with hp | hp | hp
          · exact Or.inl hp
          · exact Or.inr hp
          · omega
        · exact ih d (Or.inr (Or.inl hd)) hds x hx
      · exact ih d (Or.inr (Or.inl hd)) hds x hx

theorem mergeGo_gt_one (m : Nat) (ds : List Nat) (p : Nat) :
    ∀ x ∈ mergeGo m ds p, 1 < x := by
  induction ds generalizing p with
  | nil =>
    intro x hx
    simp only [mergeGo] at hx
    split at hx
    · simp at hx; omega
    · simp at hx
  | cons d ds ih =>
    intro x hx
    simp only [mergeGo] at hx
    split at hx
    · exact ih _ x hx
    · split at hx
      · simp at hx
        rcases hx with hx | hx
        · omega
        · exact ih _ x hx
      · exact ih _ x hx

/-! ### split sizes -/

theorem sum_replicate (n b : Nat) : (List.replicate n b).sum = n * b := by
  induction n with
  | zero => simp
  | succ n ih => simp [List.replicate_succ, ih, Nat.succ_mul, Nat.add_comm]

theorem splitSizes_sum (d b : Nat) : (splitSizes d b).sum = d := by
  unfold splitSizes
  split
  · rename_i h
    simp only [List.sum_append, sum_replicate, List.sum_cons, List.sum_nil, Nat.add_zero]
    have : (d - 1) / b * b ≤ d - 1 := Nat.div_mul_le_self (d - 1) b
    omega
  · simp

theorem splitSizes_le (d b : Nat) (hb : 0 < b) (hd : b < d) : ∀ s ∈ splitSizes d b, s ≤ b := by
  intro s hs
  unfold splitSizes at hs
  rw [if_pos ⟨hb, hd⟩] at hs
  simp only [List.mem_append, List.mem_replicate, List.mem_singleton] at hs
  rcases hs with ⟨_, h⟩ | h
  · omega
  · subst h
    have h1 : d - 1 < ((d - 1) / b + 1) * b := by
      have := Nat.lt_div_mul_add hb (a := d - 1)
      simp only [Nat.add_mul, Nat.one_mul]; omega
    simp only [Nat.add_mul, Nat.one_mul] at h1
    omega

theorem splitSizes_pos (d b : Nat) (hd : 1 ≤ d) : ∀ s ∈ splitSizes d b, 1 ≤ s := by
  intro s hs
  unfold splitSizes at hs
  split at hs
  · rename_i h
    simp only [List.mem_append, List.mem_replicate, List.mem_singleton] at hs
    rcases hs with ⟨_, h'⟩ | h'
    · omega
    · subst h'
      have : (d - 1) / b * b ≤ d - 1 := Nat.div_mul_le_self (d - 1) b
      omega
  · simp at hs; omega

theorem splitSizes_length (d b : Nat) :
    (splitSizes d b).length = if 0 < b ∧ b < d then (d - 1) / b + 1 else 1 := by
  unfold splitSizes
  split <;> simp

/-! ### ravel / unravel -/

theorem ravel_lt (shape idx : List Nat) (h : inBounds shape idx) : ravel shape idx < prod shape := by
  induction shape generalizing idx with
  | nil => cases idx <;> simp_all [inBounds, ravel]
  | cons s ss ih =>
    cases idx with
    | nil => simp [inBounds] at h
    | cons i is =>
      simp only [inBounds] at h
      have h2 := ih is h.2
      simp only [ravel, prod_cons]
      calc i * prod ss + ravel ss is < i * prod ss + prod ss := by omega
        _ = (i + 1) * prod ss := by simp [Nat.add_mul]
        _ ≤ s * prod ss := Nat.mul_le_mul_right _ h.1

theorem unravel_ravel (shape idx : List Nat) (h : inBounds shape idx) :
    unravel shape (ravel shape idx) = idx := by
  induction shape generalizing idx with
  | nil => cases idx <;> simp_all [inBounds, unravel]
  | cons s ss ih =>
    cases idx with
    | nil => simp [inBounds] at h
    | cons i is =>
      simp only [inBounds] at h
      have hlt := ravel_lt ss is h.2
      have hpos : 0 < prod ss := by omega
      simp only [ravel, unravel]
      have h1 : (i * prod ss + ravel ss is) / prod ss = i := by
        rw [Nat.mul_comm, Nat.mul_add_div hpos, Nat.div_eq_of_lt hlt]; simp
      have h2 : (i * prod ss + ravel ss is) % prod ss = ravel ss is := by
        rw [Nat.mul_comm, Nat.mul_add_mod, Nat.mod_eq_of_lt hlt]
      rw [h1, h2, ih is h.2]

theorem unravel_inBounds (shape : List Nat) (k : Nat) (h : k < prod shape) :
    inBounds shape (unravel shape k) := by
  induction shape generalizing k with
  | nil => simp [unravel, inBounds]
  | cons s ss ih =>
    simp only [prod_cons] at h
    have hpos : 0 < prod ss := by
      rcases Nat.eq_zero_or_pos (prod ss) with h0 | h0
      · simp [h0] at h
      · exact h0
    simp only [unravel, inBounds]
    refine ⟨?_, ih _ (Nat.mod_lt _ hpos)⟩
    rw [Nat.div_lt_iff_lt_mul hpos]; exact h

theorem ravel_unravel (shape : List Nat) (k : Nat) (h : k < prod shape) :
    ravel shape (unravel shape k) = k := by
  induction shape generalizing k with
  | nil => simp [prod] at h; simp [ravel, h]
  | cons s ss ih =>
    simp only [prod_cons] at h
    have hpos : 0 < prod ss := by
      rcases Nat.eq_zero_or_pos (prod ss) with h0 | h0
      · simp [h0] at h
      · exact h0
    simp only [unravel, ravel]
    rw [ih _ (Nat.mod_lt _ hpos)]
    exact Nat.div_add_mod' k (prod ss)

theorem lt2_of_inBounds (shape idx : List Nat) (h : inBounds shape idx) : lt2 idx shape = true := by
  induction shape generalizing idx with
  | nil => cases idx <;> simp_all [inBounds, lt2]
  | cons s ss ih =>
    cases idx with
    | nil => simp [inBounds] at h
    | cons i is =>
      simp only [inBounds] at h
      simp [lt2, h.1, ih is h.2]

end PrecondVerif.Shapes
