/-
Round 3, item (3): the quantized preconditioner slot.  The stored value is C11's quantized triple `QV` (payload, diagonal,
bucket sizes); C03's `selectTriple` on its three components is the `select` the slot automaton applies to the whole value
(`C03.quantized_triple_consistent`); the root routine is quantize ∘ Newton.
-/
import PrecondVerif.Lemmas.ComposeForms
import PrecondVerif.Props.C11

set_option linter.unusedSectionVars false

namespace PrecondVerif.Compose
open PrecondVerif.InvRoot PrecondVerif.Gate PrecondVerif.Schedule PrecondVerif.DShampoo PrecondVerif.Quant

section Quantized
variable {α : Type} [Field α] [LinearOrder α] [IsStrictOrderedRing α] [HasFloor α] [LawfulFloor α] [Inhabited α]

/-- `_pmap_quantized_compute_preconditioners` for one slot: the Newton root of the statistic, quantized with `Nq` buckets
per column (`QuantizedValue.from_float_value`), reported error unchanged -/
def quantNewtonSlotRoot (N : NewtonCfg α) (rep : α → XF) (Nq : Nat) (ed : Bool) (d : Nat) (L : Mx α) (_prev : QV α)
    (_f : Unit) : QV α × XF :=
  (quantize Nq d d ed (newtonSlotRootMx N rep d L Mx.zero ()).1, (newtonSlotRootMx N rep d L Mx.zero ()).2)

/-- certificate of a quantized Newton root -/
def QuantCert (N : NewtonCfg α) (rep : α → XF) (Nq : Nat) (ed : Bool) (d : Nat) (L : Mx α) (q : QV α) (e : XF) : Prop :=
  ∃ X : Mx α, NewtonCert N rep d L X e ∧ q = quantize Nq d d ed X ∧
    ∀ i c, i < d → |dequantize ed q i c - X i c| ≤ q.bucket c / 2

theorem quantNewtonSlotRoot_cert (N : NewtonCfg α) (hN : NewtonOK N) (rep : α → XF) (Nq : Nat) (hNq : 1 ≤ Nq)
    (ed : Bool) (d : Nat) (hd : d ≠ 0) (L : Mx α) (prev : QV α) (f : Unit) :
    QuantCert N rep Nq ed d L (quantNewtonSlotRoot N rep Nq ed d L prev f).1
      (quantNewtonSlotRoot N rep Nq ed d L prev f).2 := by
  obtain ⟨g1, g2⟩ := newtonOut_honest N hN d hd (ofMx d L)
  exact ⟨_, ⟨rfl, rfl, g1, g2⟩, rfl, fun i c hi => C11.roundtrip_half_bucket Nq d d ed _ hNq i c hi⟩

/-- the three parallel selects of the quantized path on (payload, diagonal, bucket sizes) are the components of the one
select the slot automaton applies to the stored `QV` -/
theorem qv_select_is_triple (err thr : XF) (new old : QV α) :
    selectTriple err thr (new.q, new.diag, new.bucket) (old.q, old.diag, old.bucket) =
      ((select err thr new old).q, (select err thr new old).diag, (select err thr new old).bucket) := by
  rw [C03.quantized_triple_consistent]
  unfold select
  split <;> rfl

end Quantized
end PrecondVerif.Compose
