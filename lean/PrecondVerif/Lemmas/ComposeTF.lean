/-
Round 2, item (4): Tearfree Shampoo's blocked update is the per-block update (`C15`'s cadence theorem
`shampoo_update_cadence` re-read block by block).
-/
import PrecondVerif.Model.Compose
import PrecondVerif.Lemmas.Tearfree

set_option linter.unusedSectionVars false

namespace PrecondVerif.Compose
open PrecondVerif.Tearfree PrecondVerif.Shapes

section TF
variable {α : Type} [Zero α] [One α] [Add α] [Sub α] [Mul α] [LT α] [DecidableLT α] [BEq α] [Max α] {P : Type}

theorem zipWith_pair {X B Y : Type} (G : X → B → B) (A : X → B → Y) : ∀ (xs : List X) (bl : List B),
    (List.zipWith (fun x b => (G x b, A x (G x b))) xs bl).map Prod.fst = List.zipWith G xs bl ∧
    (List.zipWith (fun x b => (G x b, A x (G x b))) xs bl).map Prod.snd = List.zipWith A xs (List.zipWith G xs bl)
  | [], _ => ⟨rfl, rfl⟩
  | _ :: _, [] => ⟨rfl, rfl⟩
  | x :: xs, b :: bl => by
    obtain ⟨h1, h2⟩ := zipWith_pair G A xs bl
    simp only [List.zipWith_cons_cons, List.map_cons, h1, h2, and_self]

theorem zipWith_ignore_left {X B : Type} (f : B → B) : ∀ (xs : List X) (bl : List B), xs.length = bl.length →
    List.zipWith (fun _ b => f b) xs bl = bl.map f
  | [], [], _ => rfl
  | [], _ :: _, h => by simp at h
  | _ :: _, [], h => by simp at h
  | _ :: xs, b :: bl, h => by
    simp only [List.zipWith_cons_cons, List.map_cons]
    rw [zipWith_ignore_left f xs bl (by simpa using h)]

theorem tf_blocked_is_per_block (eigh : EighFn α) (hp : ℕ → α → α) (cut decay : α) (bs sf pf : ℕ) (ps : List ℕ)
    (u : List α) (st : ShState α) (x : P) (hlen : st.blocks.length = (blocksMetadata bs ps).numBlocks) :
    let m := blocksMetadata bs ps
    let Bt := blockify (ofFlatL ps u) m
    let xs := (List.range m.numBlocks).map fun n => extractBlock Bt.flat.toArray Bt.shape m.blockSizes m.blocksAxis n
    let per := List.zipWith (tfBlockStep eigh (hp (shampooExponent ps)) cut decay m.blockSizes sf pf st.count) xs st.blocks
    ((shampooTx (P := P) eigh hp cut decay bs sf pf ps).update u st x).2 = ⟨st.count + 1, per.map Prod.fst⟩ ∧
    ((shampooTx (P := P) eigh hp cut decay bs sf pf ps).update u st x).1 =
      (deblockify (ofFlat Bt.shape (assembleBlocks (per.map Prod.snd) Bt.shape m.blockSizes m.blocksAxis)) m).flat := by
  intro m Bt xs per
  obtain ⟨h1, h2⟩ := shampoo_update_cadence eigh hp cut decay bs sf pf ps u st x
  have hxs : xs.length = st.blocks.length := by simp [xs, hlen, m]
  obtain ⟨k1, k2⟩ := zipWith_pair
    (fun (x : Array α) (b : BlockSt α) =>
      if st.count % pf = 0 then blockPrecondUpdate eigh (hp (shampooExponent ps)) cut m.blockSizes
        (if st.count % sf = 0 then blockStatsUpdate decay m.blockSizes x b else b)
      else (if st.count % sf = 0 then blockStatsUpdate decay m.blockSizes x b else b))
    (blockApply m.blockSizes) xs st.blocks
  have hG : List.zipWith (fun (x : Array α) (b : BlockSt α) =>
      if st.count % pf = 0 then blockPrecondUpdate eigh (hp (shampooExponent ps)) cut m.blockSizes
        (if st.count % sf = 0 then blockStatsUpdate decay m.blockSizes x b else b)
      else (if st.count % sf = 0 then blockStatsUpdate decay m.blockSizes x b else b)) xs st.blocks =
      (if st.count % pf = 0 then
          (if st.count % sf = 0 then List.zipWith (blockStatsUpdate decay m.blockSizes) xs st.blocks else st.blocks).map
            (blockPrecondUpdate eigh (hp (shampooExponent ps)) cut m.blockSizes)
         else (if st.count % sf = 0 then List.zipWith (blockStatsUpdate decay m.blockSizes) xs st.blocks else st.blocks)) := by
    by_cases hpf : st.count % pf = 0 <;> by_cases hsf : st.count % sf = 0
    · simp only [hpf, hsf, if_true]; rw [List.map_zipWith]
    · simp only [hpf, hsf, if_true, if_false]; exact zipWith_ignore_left _ xs st.blocks hxs
    · simp only [hpf, hsf, if_true, if_false]
    · simp only [hpf, hsf, if_false]
      have := zipWith_ignore_left (fun b : BlockSt α => b) xs st.blocks hxs
      simpa using this
  have hper : per = List.zipWith (fun (x : Array α) (b : BlockSt α) =>
      ((if st.count % pf = 0 then blockPrecondUpdate eigh (hp (shampooExponent ps)) cut m.blockSizes
          (if st.count % sf = 0 then blockStatsUpdate decay m.blockSizes x b else b)
        else (if st.count % sf = 0 then blockStatsUpdate decay m.blockSizes x b else b)),
       blockApply m.blockSizes x (if st.count % pf = 0 then blockPrecondUpdate eigh (hp (shampooExponent ps)) cut m.blockSizes
          (if st.count % sf = 0 then blockStatsUpdate decay m.blockSizes x b else b)
        else (if st.count % sf = 0 then blockStatsUpdate decay m.blockSizes x b else b)))) xs st.blocks := rfl
  rw [hper, k1, k2, hG]
  exact ⟨h1, h2⟩

end TF

end PrecondVerif.Compose
