/-
Round 2, item (4): Tearfree Shampoo's blocked update is the per-block update (`C15`'s cadence theorem
`shampoo_update_cadence` re-read block by block).
-/
import PrecondVerif.Model.Compose
import PrecondVerif.Lemmas.Tearfree

set_option linter.unusedSectionVars false

namespace PrecondVerif.Compose
open PrecondVerif.Tearfree PrecondVerif.Shapes

section TF
variable {α : Type} [Zero α] [One α] [Add α] [Sub α] [Mul α] [LT α] [DecidableLT α] [BEq α] [Max α] {P : Type}

theorem zipWith_pair {X B Y : Type} (G : X → B → B) (A : X → B → Y) : ∀ (xs : List X) (bl : List B),
    (List.zipWith (fun x b => (G x b, A x (G x b))) xs bl).map Prod.fst = List.zipWith G xs bl ∧
    (List.zipWith (fun x b => (G x b, A x (G x b))) xs bl).map Prod.snd = List.zipWith A xs (List.zipWith G xs bl)
  | [], _ => ⟨rfl, rfl⟩
  | _ :: _, [] => ⟨rfl, rfl⟩
  | x :: xs, b :: bl => by
    obtain ⟨h1, h2⟩ := zipWith_pair G A xs bl
    simp only [List.zipWith_cons_cons, List.map_cons, h1, h2, and_self]

theorem zipWith_ignore_left {X B : Type} (f : B → B) : ∀ (xs : List X) (bl : List B), xs.length = bl.length →
    List.zipWith (fun _ b => f b) xs bl = bl.map f
  | [], [], _ => rfl
  | [], _ :: _, h => by simp at h
  | _ :: _, [], h => by simp at h
  | _ :: xs, b :: bl, h => by
    simp only [List.zipWith_cons_cons, List.map_cons]
    rw [zipWith_ignore_left f xs bl (by simpa using h)]

theorem tf_blocked_is_per_block (eigh : EighFn α) (hp : ℕ → α → α) (cut decay : α) (bs sf pf : ℕ) (ps : List ℕ)
    (u : List α) (st : ShState α) (x : P) (hlen : st.blocks.length = (blocksMetadata bs ps).numBlocks) :
    let m := blocksMetadata bs ps
    let Bt := blockify (ofFlatL ps u) m
    let xs := (List.range m.numBlocks).map fun n => extractBlock Bt.flat.toArray Bt.shape m.blockSizes m.blocksAxis n
    let per := List.zipWith (tfBlockStep eigh (hp (shampooExponent ps)) cut decay m.blockSizes sf pf st.count) xs st.blocks
    ((shampooTx (P := P) eigh hp cut decay bs sf pf ps).update u st x).2 = ⟨st.count + 1, per.map Prod.fst⟩ ∧
    ((shampooTx (P := P) eigh hp cut decay bs sf pf ps).update u st x).1 =
      (deblockify (ofFlat Bt.shape (assembleBlocks (per.map Prod.snd) Bt.shape m.blockSizes m.blocksAxis)) m).flat := by
  intro m Bt xs per
  obtain ⟨h1, h2⟩ := shampoo_update_cadence eigh hp cut decay bs sf pf ps u st x
  have hxs : xs.length = st.blocks.length := by simp [xs, hlen, m]
  obtain ⟨k1, k2⟩ := zipWith_pair
    (fun (x : Array α) (b : BlockSt α) =>
      if st.count % pf = 0 then blockPrecondUpdate eigh (hp (shampooExponent ps)) cut m.blockSizes
        (if st.count % sf = 0 then blockStatsUpdate decay m.blockSizes x b else b)
      else (if st.count % sf = 0 then blockStatsUpdate decay m.blockSizes x b else b))
    (blockApply m.blockSizes) xs st.blocks
  have hG : List.zipWith (fun (x : Array α) (b : BlockSt α) =>
      if st.count % pf = 0 then blockPrecondUpdate eigh (hp (shampooExponent ps)) cut m.blockSizes
        (if st.count % sf = 0 then blockStatsUpdate decay m.blockSizes x b else b)
      else (if st.count % sf = 0 then blockStatsUpdate decay m.blockSizes x b else b)) xs st.blocks =
      (if st.count % pf = 0 then
          (if st.count % sf = 0 then List.zipWith (blockStatsUpdate decay m.blockSizes) xs st.blocks else st.blocks).map
            (blockPrecondUpdate eigh (hp (shampooExponent ps)) cut m.blockSizes)
         else (if st.count % sf = 0 then List.zipWith (blockStatsUpdate decay m.blockSizes) xs st.blocks else st.blocks)) := by
    by_cases hpf : st.count % pf = 0 <;> by_cases hsf : st.count % sf = 0
    · simp only [hpf, hsf, if_true]; rw [List.map_zipWith]
    · simp only [hpf, hsf, if_true, if_false]; exact zipWith_ignore_left _ xs st.blocks hxs
    · simp only [hpf, hsf, if_true, if_false]
    · simp only [hpf, hsf, if_false]
      have := zipWith_ignore_left (fun b : BlockSt α => b) xs st.blocks hxs
      simpa using this
  have hper : per = List.zipWith (fun (x : Array α) (b : BlockSt α) =>
      ((if st.count % pf = 0 then blockPrecondUpdate eigh (hp (shampooExponent ps)) cut m.blockSizes
          (if st.count % sf = 0 then blockStatsUpdate decay m.blockSizes x b else b)
        else (if st.count % sf = 0 then blockStatsUpdate decay m.blockSizes x b else b)),
       blockApply m.blockSizes x (if st.count % pf = 0 then blockPrecondUpdate eigh (hp (shampooExponent ps)) cut m.blockSizes
          (if st.count % sf = 0 then blockStatsUpdate decay m.blockSizes x b else b)
        else (if st.count % sf = 0 then blockStatsUpdate decay m.blockSizes x b else b)))) xs st.blocks := rfl
  rw [hper, k1, k2, hG]
  exact ⟨h1, h2⟩

end TF

/-! ### round 3: entry level (C06 `deblockify_pointwise`, `blockify_block_contiguous`) and the padding adapter -/

theorem popAt_insertAt_self (l : List Nat) (j x : Nat) (hj : j ≤ l.length) : popAt (insertAt l j x) j = l := by
  unfold popAt insertAt
  have h1 : (l.take j).length = j := by simp [Nat.min_eq_left hj]
  rw [List.take_left' h1, List.drop_append, h1, List.drop_of_length_le (by omega), List.nil_append,
    show j + 1 - j = 1 by omega]
  simp

theorem getD_insertAt_self (l : List Nat) (j x : Nat) (hj : j ≤ l.length) : (insertAt l j x).getD j 0 = x := by
  rw [List.getD_eq_getElem?_getD, insertAt_getElem? l j x j hj]
  simp

theorem foldl_set_length (f : Nat → Nat) : ∀ (as l : List Nat), (as.foldl (fun l a => l.set a (f a)) l).length = l.length
  | [], _ => rfl
  | a :: as, l => by simp only [List.foldl_cons]; rw [foldl_set_length f as]; simp

theorem innerIndexOf_length (m : BlocksMeta) (idx : List Nat) : (innerIndexOf m idx).length = idx.length :=
  foldl_set_length _ _ _

theorem blocksAxis_le (b : Nat) (S : List Nat) : (blocksMetadata b S).blocksAxis ≤ S.length := by
  simp only [blocksMetadata]
  cases h : (List.range S.length).filter fun i => S.getD i 0 ≥ b with
  | nil => simp
  | cons a as =>
    have : a ∈ (List.range S.length).filter fun i => S.getD i 0 ≥ b := by rw [h]; exact List.mem_cons_self ..
    have := (List.mem_filter.mp this).1
    simp only [List.mem_range] at this
    simp only [List.headD_cons]; omega

theorem deblockify_shape_eq {α : Type} (X : Tensor α) (b : Nat) (S : List Nat)
    (hle : (blocksMetadata b S).largeAxes.length ≤ 2) : (deblockify X (blocksMetadata b S)).shape = S := by
  unfold deblockify
  split
  · rfl
  · rfl
  · rfl
  · rename_i h1 h2 h3
    exfalso
    match hla : (blocksMetadata b S).largeAxes with
    | [] => exact h1 hla
    | [a] => exact h2 a hla
    | [a, c] => exact h3 a c hla
    | _ :: _ :: _ :: _ => rw [hla] at hle; simp at hle


section Entry
variable {α : Type} [Zero α] [One α] [Add α] [Sub α] [Mul α] [LT α] [DecidableLT α] [BEq α] [Max α] {P : Type}

/-- entry of `deblockify ∘ assembleBlocks`: the entry of the block's own output array -/
theorem deblockify_assemble_get (ys : List (Array α)) (b : Nat) (hb : 0 < b) (S : List Nat)
    (hle : (blocksMetadata b S).largeAxes.length ≤ 2)
    (hdiv : ∀ a ∈ (blocksMetadata b S).largeAxes, b ∣ S.getD a 0) (idx : List Nat) (hi : inBounds S idx) :
    let m := blocksMetadata b S
    (deblockify (ofFlat (blockedShape m) (assembleBlocks ys (blockedShape m) m.blockSizes m.blocksAxis)) m).get idx =
      rd (ys.getD (blockIndexOf m idx) #[]) (ravel m.blockSizes (innerIndexOf m idx)) := by
  intro m
  obtain ⟨h1, h2⟩ := C06.deblockify_pointwise S b hb hle hdiv
    (ofFlat (blockedShape m) (assembleBlocks ys (blockedShape m) m.blockSizes m.blocksAxis)) rfl idx hi
  rw [h1]
  have hba : m.blocksAxis ≤ (innerIndexOf m idx).length := by
    rw [innerIndexOf_length, inBounds_length hi]; exact blocksAxis_le b S
  show rd (assembleBlocks ys (blockedShape m) m.blockSizes m.blocksAxis) (ravel (blockedShape m) _) = _
  unfold assembleBlocks
  have hf := flat_get (⟨blockedShape m, fun idx =>
      rd (ys.getD (idx.getD m.blocksAxis 0) #[]) (ravel m.blockSizes (popAt idx m.blocksAxis))⟩ : Tensor α)
    (insertAt (innerIndexOf m idx) m.blocksAxis (blockIndexOf m idx)) h2
  rw [hf]
  show rd (ys.getD ((insertAt (innerIndexOf m idx) m.blocksAxis (blockIndexOf m idx)).getD m.blocksAxis 0) #[])
    (ravel m.blockSizes (popAt (insertAt (innerIndexOf m idx) m.blocksAxis (blockIndexOf m idx)) m.blocksAxis)) = _
  rw [getD_insertAt_self _ _ _ hba, popAt_insertAt_self _ _ _ hba]

/-- entry-level form of `tf_blocked_is_per_block` -/
theorem tf_update_entry (eigh : EighFn α) (hp : ℕ → α → α) (cut decay : α) (bs sf pf : ℕ) (ps : List ℕ)
    (u : List α) (st : ShState α) (x : P) (hb : 0 < bs)
    (hle : (blocksMetadata bs ps).largeAxes.length ≤ 2)
    (hdiv : ∀ a ∈ (blocksMetadata bs ps).largeAxes, bs ∣ ps.getD a 0)
    (hlen : st.blocks.length = (blocksMetadata bs ps).numBlocks) (idx : List Nat) (hi : inBounds ps idx) :
    let m := blocksMetadata bs ps
    let Bt := blockify (ofFlatL ps u) m
    let blk := blockIndexOf m idx
    blk < m.numBlocks ∧
    (ofFlatL ps ((shampooTx (P := P) eigh hp cut decay bs sf pf ps).update u st x).1).get idx =
      rd (tfBlockStep eigh (hp (shampooExponent ps)) cut decay m.blockSizes sf pf st.count
            (extractBlock Bt.flat.toArray Bt.shape m.blockSizes m.blocksAxis blk)
            (st.blocks.getD blk ⟨[], []⟩)).2
        (ravel m.blockSizes (innerIndexOf m idx)) := by
  intro m Bt blk
  have hsh : Bt.shape = blockedShape m := (C06.blockify_shape (ofFlatL ps u) bs hb hle hdiv).1
  obtain ⟨_, h2⟩ := tf_blocked_is_per_block eigh hp cut decay bs sf pf ps u st x hlen
  have hba : m.blocksAxis ≤ (innerIndexOf m idx).length := by
    rw [innerIndexOf_length, inBounds_length hi]; exact blocksAxis_le bs ps
  have hba' : m.blocksAxis ≤ m.blockSizes.length := by
    have := blocksAxis_le bs ps
    simpa [m, blocksMetadata] using this
  have hblk : blk < m.numBlocks := by
    obtain ⟨_, hin⟩ := C06.deblockify_pointwise ps bs hb hle hdiv
      (ofFlat (blockedShape m) (#[] : Array α)) rfl idx hi
    have := inBounds_getD hin m.blocksAxis (by
      show m.blocksAxis < (insertAt m.blockSizes m.blocksAxis m.numBlocks).length
      simp [insertAt]; omega)
    have e1 : (blockedIndex m idx).getD m.blocksAxis 0 = blk := getD_insertAt_self _ _ _ hba
    have e2 : (ofFlat (blockedShape m) (#[] : Array α)).shape.getD m.blocksAxis 0 = m.numBlocks :=
      getD_insertAt_self _ _ _ hba'
    rw [e1, e2] at this
    exact this
  refine ⟨hblk, ?_⟩
  rw [h2]
  have hds : (deblockify (ofFlat Bt.shape (assembleBlocks
      ((List.zipWith (tfBlockStep eigh (hp (shampooExponent ps)) cut decay m.blockSizes sf pf st.count)
        ((List.range m.numBlocks).map fun n => extractBlock Bt.flat.toArray Bt.shape m.blockSizes m.blocksAxis n)
        st.blocks).map Prod.snd) Bt.shape m.blockSizes m.blocksAxis)) m).shape = ps :=
    deblockify_shape_eq _ bs ps hle
  show rd (Tensor.flat _).toArray (ravel ps idx) = _
  have hfg := flat_get (deblockify (ofFlat Bt.shape (assembleBlocks
      ((List.zipWith (tfBlockStep eigh (hp (shampooExponent ps)) cut decay m.blockSizes sf pf st.count)
        ((List.range m.numBlocks).map fun n => extractBlock Bt.flat.toArray Bt.shape m.blockSizes m.blocksAxis n)
        st.blocks).map Prod.snd) Bt.shape m.blockSizes m.blocksAxis)) m) idx (by rw [hds]; exact hi)
  rw [hds] at hfg
  rw [hfg, hsh, deblockify_assemble_get _ bs hb ps hle hdiv idx hi]
  congr 1
  have hb2 : blk < st.blocks.length := by rw [hlen]; exact hblk
  simp [List.getD_eq_getElem?_getD, hblk, hb2, blk, m]

theorem inBounds_insertAt (sh idx : List Nat) (j x n : Nat) (h : inBounds sh idx) (hj : j ≤ sh.length) (hx : x < n) :
    inBounds (insertAt sh j n) (insertAt idx j x) := by
  have hl := inBounds_length h
  rw [inBounds_iff]
  refine ⟨by simp [insertAt, hl], ?_⟩
  intro k hk
  have hk' : k < sh.length + 1 := by
    have e : (insertAt sh j n).length = sh.length + 1 := by simp [insertAt]; omega
    omega
  rw [List.getD_eq_getElem?_getD, List.getD_eq_getElem?_getD, insertAt_getElem? idx j x k (by omega),
    insertAt_getElem? sh j n k hj]
  by_cases h1 : k < j
  · simp only [h1, if_true]
    have := inBounds_getD h k (by omega)
    simpa [List.getD_eq_getElem?_getD] using this
  · by_cases h2 : k = j
    · simp [h2, hx]
    · simp only [h1, h2, if_false]
      have := inBounds_getD h (k - 1) (by omega)
      simpa [List.getD_eq_getElem?_getD] using this

/-- a block's gradient slice is the contiguous sub-tensor of the leaf starting at the block's offsets -/
theorem tf_block_slice_get (bs : ℕ) (ps : List ℕ) (u : List α) (hb : 0 < bs)
    (hle : (blocksMetadata bs ps).largeAxes.length ≤ 2)
    (hdiv : ∀ a ∈ (blocksMetadata bs ps).largeAxes, bs ∣ ps.getD a 0) (n : Nat)
    (hn : n < (blocksMetadata bs ps).numBlocks) (j : List Nat) (hj : inBounds (blocksMetadata bs ps).blockSizes j) :
    let m := blocksMetadata bs ps
    let Bt := blockify (ofFlatL ps u) m
    rd (extractBlock Bt.flat.toArray Bt.shape m.blockSizes m.blocksAxis n) (ravel m.blockSizes j) =
      (ofFlatL ps u).get (addOff (tfBlockOffsets m n) j) := by
  intro m Bt
  have hsh : Bt.shape = blockedShape m := (C06.blockify_shape (ofFlatL ps u) bs hb hle hdiv).1
  have hba' : m.blocksAxis ≤ m.blockSizes.length := by
    have := blocksAxis_le bs ps
    simpa [m, blocksMetadata] using this
  have hbaj : m.blocksAxis ≤ j.length := by rw [inBounds_length hj]; exact hba'
  have hin : inBounds (blockedShape m) (insertAt j m.blocksAxis n) := inBounds_insertAt _ _ _ _ _ hj hba' hn
  unfold extractBlock
  have hf := flat_get (⟨m.blockSizes, fun idx => rd Bt.flat.toArray (ravel Bt.shape (insertAt idx m.blocksAxis n))⟩ :
    Tensor α) j hj
  rw [hf]
  show rd Bt.flat.toArray (ravel Bt.shape (insertAt j m.blocksAxis n)) = _
  rw [flat_get Bt _ (by rw [hsh]; exact hin)]
  obtain ⟨h1, _, _⟩ := C06.blockify_block_contiguous (ofFlatL ps u) bs hb hle hdiv _ hin
  have h1' : Bt.get (insertAt j m.blocksAxis n) =
      (ofFlatL ps u).get (addOff (tfBlockOffsets m ((insertAt j m.blocksAxis n).getD m.blocksAxis 0))
        (popAt (insertAt j m.blocksAxis n) m.blocksAxis)) := h1
  rw [h1', getD_insertAt_self _ _ _ hbaj, popAt_insertAt_self _ _ _ hbaj]

end Entry


section PadAdapter
variable {α : Type} [Field α] [LinearOrder α] [IsStrictOrderedRing α]

theorem sumRange_eq_fin (n : Nat) (f : Nat → α) : sumRange n f = ∑ c : Fin n, f c.val := by
  unfold sumRange
  rw [Fin.sum_univ_def, ← List.map_coe_finRange_eq_range, List.map_map]
  rfl

theorem rd_matToArr {n : Nat} (M : Fin n → Fin n → α) (i j : Fin n) : rd (matToArr M) (i.val * n + j.val) = M i j := by
  unfold rd matToArr
  have hn : 0 < n := Nat.lt_of_le_of_lt (Nat.zero_le _) i.isLt
  rw [Array.getD_eq_getD_getElem?, List.getElem?_toArray,
    flatMap_getElem?_of_length (fun i => (List.finRange n).map fun j => M i j) n hn (by simp)]
  have h1 : (i.val * n + j.val) / n = i.val := by
    rw [Nat.add_comm, Nat.add_mul_div_right _ _ hn, Nat.div_eq_of_lt j.isLt, Nat.zero_add]
  have h2 : (i.val * n + j.val) % n = j.val := by
    rw [Nat.add_comm, Nat.add_mul_mod_self_right, Nat.mod_eq_of_lt j.isLt]
  rw [h1, h2]
  simp

/-- **adapter: `zero_padding_invisible` on the block arrays `applyAxis` works on.**  One factor of `_precondition_blocks`
along an axis of padded extent `n + k`, with the root `blockRoot` computes from the stored statistics array `C'`, when
those statistics are `blockdiag(C, 0)` (`EighSpec` of the solver's output for `padFn k C`): the output entry in a real row
`i < n` is `Σ_{c<n} R[i][c] · x[o,c,r]` with `R` the root of the UNPADDED statistics `C` — the padded entries of `x` and the
padding of the statistics never enter — and the output entries in padding rows are exactly `0`. -/
theorem applyAxis_padded_root (eigh : EighFn α) (hp : α → α) (cut : α) (hcut : 0 ≤ cut) (v : AxView) (n k : Nat)
    (hv : v.d = n + k) (C' x : Array α) (C : Matrix (Fin n) (Fin n) α) (e : EighOut α n) (hs : EighSpec C e)
    (hw : ∀ a, 0 ≤ e.w a) (hs' : EighSpec (Matrix.of (padFn k C)) (eigh (n + k) (arrToMat (n + k) C')))
    (o i r : Nat) (ho : o < v.outer) (hi : i < n + k) (hr : r < v.inner) :
    rd (applyAxis v (blockRoot eigh hp cut (n + k) C') x) ((o * v.d + i) * v.inner + r) =
      if h : i < n then ∑ c : Fin n, rootOfEigh hp cut e ⟨i, h⟩ c * rd x ((o * v.d + c.val) * v.inner + r) else 0 := by
  have hroot : rootOfEigh hp cut (eigh (n + k) (arrToMat (n + k) C')) = padFn k (rootOfEigh hp cut e) := by
    rw [rootOfEigh_unique hp cut _ _ (padEigh k e) hs' (padEigh_spec k C e hs), rootOfEigh_padEigh hp cut hcut k e hw]
  have hd : 0 < v.d := by omega
  have hin : 0 < v.inner := by omega
  have hlt : (o * v.d + i) * v.inner + r < v.outer * v.d * v.inner := by
    have h1 : o * v.d + i + 1 ≤ v.outer * v.d := by
      calc o * v.d + i + 1 ≤ o * v.d + v.d := by omega
        _ = (o + 1) * v.d := by rw [Nat.succ_mul]
        _ ≤ v.outer * v.d := Nat.mul_le_mul_right _ ho
    calc (o * v.d + i) * v.inner + r < (o * v.d + i) * v.inner + v.inner := by omega
      _ = (o * v.d + i + 1) * v.inner := by rw [Nat.succ_mul]
      _ ≤ v.outer * v.d * v.inner := Nat.mul_le_mul_right _ h1
  have e1 : ((o * v.d + i) * v.inner + r) % v.inner = r := by
    rw [Nat.add_comm, Nat.add_mul_mod_self_right, Nat.mod_eq_of_lt hr]
  have e2 : ((o * v.d + i) * v.inner + r) / v.inner = o * v.d + i := by
    rw [Nat.add_comm, Nat.add_mul_div_right _ _ hin, Nat.div_eq_of_lt hr, Nat.zero_add]
  have e3 : (o * v.d + i) % v.d = i := by
    rw [Nat.add_comm, Nat.add_mul_mod_self_right, Nat.mod_eq_of_lt (by omega)]
  have e4 : (o * v.d + i) / v.d = o := by
    rw [Nat.add_comm, Nat.add_mul_div_right _ _ hd, Nat.div_eq_of_lt (by omega), Nat.zero_add]
  unfold applyAxis
  rw [rd_tab _ _ _ hlt]
  simp only [e1, e2, e3, e4]
  rw [sumRange_eq_fin, hv]
  have hR : ∀ c : Fin (n + k), rd (blockRoot eigh hp cut (n + k) C') (i * (n + k) + c.val) =
      padFn k (rootOfEigh hp cut e) ⟨i, hi⟩ c := by
    intro c
    show rd (matToArr (rootOfEigh hp cut (eigh (n + k) (arrToMat (n + k) C')))) (i * (n + k) + c.val) = _
    rw [hroot]
    exact rd_matToArr _ ⟨i, hi⟩ c
  simp only [hR]
  by_cases h : i < n
  · rw [dif_pos h, Fin.sum_univ_add]
    have : (⟨i, hi⟩ : Fin (n + k)) = Fin.castAdd k ⟨i, h⟩ := rfl
    rw [this]
    simp only [padFn, Fin.addCases_left, Fin.addCases_right, zero_mul, Finset.sum_const_zero, add_zero,
      Fin.val_castAdd]
  · rw [dif_neg h]
    have : (⟨i, hi⟩ : Fin (n + k)) = Fin.natAdd n ⟨i - n, by omega⟩ := by ext; simp; omega
    rw [this]
    simp only [padFn, Fin.addCases_right, zero_mul, Finset.sum_const_zero]

end PadAdapter

end PrecondVerif.Compose
