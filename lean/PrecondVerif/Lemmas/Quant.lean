/-
Lemmas about the quantization model (`Model/Quant.lean`) in an arbitrary linearly ordered field
with a lawful integer floor.
-/
import PrecondVerif.Model.Quant
import Mathlib.Algebra.Order.Field.Basic
import Mathlib.Algebra.Order.Ring.Abs
import Mathlib.Algebra.Order.Floor.Defs
import Mathlib.Data.Rat.Floor
import Mathlib.Tactic.Ring
import Mathlib.Tactic.Linarith
import Mathlib.Tactic.FieldSimp
import Mathlib.Tactic.NormNum

set_option linter.unusedSectionVars false

namespace PrecondVerif.Quant

/-- the model's floor is a floor: the Galois connection `z ≤ ⌊x⌋ ↔ (z : α) ≤ x` -/
class LawfulFloor (α : Type) [Field α] [LinearOrder α] [HasFloor α] : Prop where
  le_floor : ∀ (z : Int) (x : α), z ≤ HasFloor.floor x ↔ (z : α) ≤ x

/-- the executable instance (core `Rat.floor`) is lawful -/
instance : LawfulFloor ℚ := ⟨fun _ _ => Rat.le_floor_iff⟩

/-- any `FloorRing` provides a floor for the model … -/
@[reducible] def HasFloor.ofFloorRing (α : Type) [Ring α] [LinearOrder α] [FloorRing α] : HasFloor α :=
  ⟨Int.floor⟩

/-- … and it is lawful: the theorems hold in every linearly ordered field with a floor. -/
theorem LawfulFloor.ofFloorRing (α : Type) [Field α] [LinearOrder α] [FloorRing α] :
    @LawfulFloor α _ _ (HasFloor.ofFloorRing α) :=
  @LawfulFloor.mk α _ _ (HasFloor.ofFloorRing α) (fun _ _ => Int.le_floor)

section
variable {α : Type} [Field α] [LinearOrder α] [IsStrictOrderedRing α]

theorem absG_eq (x : α) : absG x = |x| := by
  unfold absG
  split
  · rename_i h; exact (abs_of_neg h).symm
  · rename_i h; exact (abs_of_nonneg (not_lt.mp h)).symm

theorem maxG_eq (a b : α) : maxG a b = max a b := by
  unfold maxG
  split
  · rename_i h; exact (max_eq_right h.le).symm
  · rename_i h; exact (max_eq_left (not_lt.mp h)).symm

/-! ### column max-abs -/

theorem foldMax_ge_init (col : List α) (m0 : α) :
    m0 ≤ col.foldl (fun m x => maxG m (absG x)) m0 := by
  induction col generalizing m0 with
  | nil => simp
  | cons a l ih =>
    simp only [List.foldl_cons]
    exact le_trans (by rw [maxG_eq]; exact le_max_left _ _) (ih _)

theorem foldMax_ge_mem (col : List α) (m0 : α) {x : α} (hx : x ∈ col) :
    |x| ≤ col.foldl (fun m x => maxG m (absG x)) m0 := by
  induction col generalizing m0 with
  | nil => cases hx
  | cons a l ih =>
    simp only [List.foldl_cons]
    rcases List.mem_cons.mp hx with rfl | h
    · exact le_trans (by rw [maxG_eq, absG_eq]; exact le_max_right _ _) (foldMax_ge_init l _)
    · exact ih _ h

theorem foldMax_attained (col : List α) (m0 : α) :
    col.foldl (fun m x => maxG m (absG x)) m0 = m0 ∨
      ∃ x ∈ col, |x| = col.foldl (fun m x => maxG m (absG x)) m0 := by
  induction col generalizing m0 with
  | nil => left; rfl
  | cons a l ih =>
    simp only [List.foldl_cons]
    rcases ih (maxG m0 (absG a)) with h | ⟨x, hx, h⟩
    · rw [h, maxG_eq, absG_eq]
      rcases max_choice m0 |a| with h' | h'
      · left; exact h'
      · right; exact ⟨a, by simp, h'.symm⟩
    · right; exact ⟨x, List.mem_cons_of_mem _ hx, h⟩

theorem maxAbs_nonneg (col : List α) : 0 ≤ maxAbs col := foldMax_ge_init col 0

theorem le_maxAbs {col : List α} {x : α} (hx : x ∈ col) : |x| ≤ maxAbs col :=
  foldMax_ge_mem col 0 hx

theorem maxAbs_attained (col : List α) : maxAbs col = 0 ∨ ∃ x ∈ col, |x| = maxAbs col :=
  foldMax_attained col 0

theorem maxAbs_unique {col : List α} {M : α} (hle : ∀ x ∈ col, |x| ≤ M) (hat : ∃ x ∈ col, |x| = M) :
    maxAbs col = M := by
  obtain ⟨x, hx, hxM⟩ := hat
  apply le_antisymm
  · rcases maxAbs_attained col with h | ⟨y, hy, h⟩
    · rw [h, ← hxM]; exact abs_nonneg x
    · rw [← h]; exact hle y hy
  · rw [← hxM]; exact le_maxAbs hx

theorem maxAbs_eq_zero {col : List α} (h : ∀ x ∈ col, x = 0) : maxAbs col = 0 := by
  rcases maxAbs_attained col with h0 | ⟨y, hy, h0⟩
  · exact h0
  · rw [← h0, h y hy, abs_zero]

/-! ### rounding -/

variable [HasFloor α] [LawfulFloor α]

theorem floor_le (x : α) : ((HasFloor.floor x : Int) : α) ≤ x :=
  (LawfulFloor.le_floor _ x).mp le_rfl

theorem lt_floor_add_one (x : α) : x < ((HasFloor.floor x : Int) : α) + 1 := by
  by_contra h
  have h' : (((HasFloor.floor x + 1 : Int)) : α) ≤ x := by
    push_cast; exact not_lt.mp h
  have := (LawfulFloor.le_floor (HasFloor.floor x + 1) x).mpr h'
  omega

theorem floor_intCast (z : Int) : HasFloor.floor (z : α) = z := by
  apply le_antisymm
  · have h := floor_le (z : α)
    exact_mod_cast h
  · exact (LawfulFloor.le_floor z (z : α)).mpr le_rfl

/-- rounding moves a number by at most one half -/
theorem round_err (x : α) : |((roundHalfEven x : Int) : α) - x| ≤ 1 / 2 := by
  have h1 := floor_le x
  have h2 := lt_floor_add_one x
  unfold roundHalfEven
  simp only
  split
  · rename_i h
    rw [abs_le]; constructor <;> linarith
  · split
    · rename_i h h'
      push_cast
      rw [abs_le]; constructor <;> linarith
    · rename_i h h'
      have h'' := not_lt.mp h
      have h''' := not_lt.mp h'
      split
      · rw [abs_le]; constructor <;> linarith
      · push_cast
        rw [abs_le]; constructor <;> linarith

/-- integers are fixed points of rounding -/
theorem round_intCast (z : Int) : roundHalfEven ((z : Int) : α) = z := by
  unfold roundHalfEven
  simp only [floor_intCast]
  rw [if_pos]
  simp

theorem round_zero : roundHalfEven (0 : α) = 0 := by
  have := round_intCast (α := α) 0
  simpa using this

theorem round_natCast (n : Nat) : roundHalfEven ((n : Nat) : α) = (n : Int) := by
  have := round_intCast (α := α) (n : Int)
  simpa using this

theorem round_neg_natCast (n : Nat) : roundHalfEven (-((n : Nat) : α)) = -(n : Int) := by
  have := round_intCast (α := α) (-(n : Int))
  simpa using this

/-- a number in `[-N, N]` rounds into `[-N, N]` -/
theorem round_abs_le {x : α} {N : Nat} (h : |x| ≤ (N : α)) : |roundHalfEven x| ≤ (N : Int) := by
  have he := round_err x
  rw [abs_le] at h he ⊢
  constructor
  · have : (-(N : α)) - 1 < ((roundHalfEven x : Int) : α) := by linarith [he.1, h.1]
    have : ((-(N : Int) - 1 : Int) : α) < ((roundHalfEven x : Int) : α) := by push_cast; linarith
    have := Int.cast_lt.mp this
    omega
  · have : ((roundHalfEven x : Int) : α) < ((N : Int) + 1 : Int) := by push_cast; linarith [he.2, h.2]
    have := Int.cast_lt.mp this
    omega

/-- ties go to the even neighbour (this is `jnp.round`, not round-half-away) -/
theorem round_tie (z : Int) :
    roundHalfEven ((z : α) + 1 / 2) = if z % 2 = 0 then z else z + 1 := by
  have hf : HasFloor.floor ((z : α) + 1 / 2) = z := by
    apply le_antisymm
    · have h := lt_floor_add_one ((z : α) + 1 / 2)
      have h' := floor_le ((z : α) + 1 / 2)
      by_contra hc
      have : z + 1 ≤ HasFloor.floor ((z : α) + 1 / 2) := by omega
      have h2 := (LawfulFloor.le_floor (z + 1) ((z : α) + 1 / 2)).mp this
      push_cast at h2
      linarith
    · apply (LawfulFloor.le_floor z _).mpr; linarith
  unfold roundHalfEven
  simp only [hf]
  have e : (z : α) + 1 / 2 - (z : α) + ((z : α) + 1 / 2 - (z : α)) = 1 := by ring
  rw [e]
  simp

/-! ### one column -/

section column
variable {N : Nat} (hN : 1 ≤ N) (col : List α)
include hN

theorem natCast_pos' : (0 : α) < (N : α) := by
  have : (1 : α) ≤ (N : α) := by exact_mod_cast hN
  linarith

theorem bucketSize_nonneg : 0 ≤ bucketSize N col :=
  div_nonneg (maxAbs_nonneg col) (natCast_pos' hN).le

theorem bucketSize_mul : bucketSize N col * (N : α) = maxAbs col := by
  unfold bucketSize
  have := (natCast_pos' (α := α) hN).ne'
  field_simp

theorem bucketSize_pos_iff : 0 < bucketSize N col ↔ 0 < maxAbs col := by
  unfold bucketSize
  constructor
  · intro h
    have := mul_pos h (natCast_pos' (α := α) hN)
    rwa [div_mul_cancel₀ _ (natCast_pos' (α := α) hN).ne'] at this
  · intro h; exact div_pos h (natCast_pos' hN)

/-- the ratio that gets rounded lies in `[-N, N]` -/
theorem ratio_abs_le {x : α} (hx : x ∈ col) :
    |x / bucketNZ (bucketSize N col)| ≤ (N : α) := by
  have hm := le_maxAbs hx
  unfold bucketNZ
  split
  · rename_i hb
    rw [abs_div, abs_of_pos hb, div_le_iff₀ hb, mul_comm, bucketSize_mul hN]
    exact hm
  · rename_i hb
    have h0 : maxAbs col = 0 := by
      have := (bucketSize_pos_iff hN col).not.mp hb
      exact le_antisymm (not_lt.mp this) (maxAbs_nonneg col)
    rw [h0] at hm
    have : x = 0 := abs_eq_zero.mp (le_antisymm hm (abs_nonneg x))
    rw [this]; simp

theorem quantEntry_abs_le {x : α} (hx : x ∈ col) :
    |quantEntry (bucketSize N col) x| ≤ (N : Int) :=
  round_abs_le (ratio_abs_le hN col hx)

theorem quantEntry_err {x : α} (hx : x ∈ col) :
    |dequantEntry (bucketSize N col) (quantEntry (bucketSize N col) x) - x|
      ≤ bucketSize N col / 2 := by
  unfold dequantEntry quantEntry bucketNZ
  split
  · rename_i hb
    have he := round_err (x / bucketSize N col)
    have e : ((roundHalfEven (x / bucketSize N col) : Int) : α) * bucketSize N col - x
        = (((roundHalfEven (x / bucketSize N col) : Int) : α) - x / bucketSize N col)
            * bucketSize N col := by
      field_simp
    rw [e, abs_mul, abs_of_pos hb]
    calc _ ≤ 1 / 2 * bucketSize N col := mul_le_mul_of_nonneg_right he hb.le
      _ = bucketSize N col / 2 := by ring
  · rename_i hb
    have hb0 : bucketSize N col = 0 := le_antisymm (not_lt.mp hb) (bucketSize_nonneg hN col)
    have h0 : maxAbs col = 0 := by rw [← bucketSize_mul hN col, hb0, zero_mul]
    have hm := le_maxAbs hx
    rw [h0] at hm
    have : x = 0 := abs_eq_zero.mp (le_antisymm hm (abs_nonneg x))
    rw [hb0, this]; simp

omit hN in
theorem quantEntry_zero (b : α) : quantEntry b (0 : α) = 0 := by
  unfold quantEntry
  rw [zero_div]; exact round_zero

omit hN in
theorem dequantEntry_zero (b : α) : dequantEntry b 0 = 0 := by
  unfold dequantEntry; simp

/-- the largest entry of a non-zero column is stored as `±N` -/
theorem quantEntry_max (hm : 0 < maxAbs col) :
    ∃ x ∈ col, |quantEntry (bucketSize N col) x| = (N : Int) := by
  rcases maxAbs_attained col with h | ⟨x, hx, h⟩
  · exact absurd h hm.ne'
  · refine ⟨x, hx, ?_⟩
    have hb : 0 < bucketSize N col := (bucketSize_pos_iff hN col).mpr hm
    have hNp := natCast_pos' (α := α) hN
    unfold quantEntry bucketNZ
    rw [if_pos hb]
    have hdiv : maxAbs col / bucketSize N col = (N : α) := by
      rw [div_eq_iff hb.ne', mul_comm, bucketSize_mul hN]
    rcases abs_choice x with hx' | hx'
    · have : x / bucketSize N col = (N : α) := by rw [← hdiv, ← h, hx']
      rw [this, round_natCast]; simp
    · have : x / bucketSize N col = -(N : α) := by
        have : x = -maxAbs col := by rw [← h, hx']; ring
        rw [this, neg_div, hdiv]
      rw [this, round_neg_natCast]; simp

/-- dequantize-then-quantize of a stored integer with the same (positive or zero) bucket -/
theorem quantEntry_dequant {x : α} (hx : x ∈ col) :
    quantEntry (bucketSize N col) (dequantEntry (bucketSize N col) (quantEntry (bucketSize N col) x))
      = quantEntry (bucketSize N col) x := by
  by_cases hb : 0 < bucketSize N col
  · have : dequantEntry (bucketSize N col) (quantEntry (bucketSize N col) x) /
        bucketNZ (bucketSize N col) = ((quantEntry (bucketSize N col) x : Int) : α) := by
      unfold dequantEntry bucketNZ
      rw [if_pos hb]; field_simp
    rw [show quantEntry (bucketSize N col)
          (dequantEntry (bucketSize N col) (quantEntry (bucketSize N col) x))
        = roundHalfEven (dequantEntry (bucketSize N col) (quantEntry (bucketSize N col) x) /
            bucketNZ (bucketSize N col)) from rfl, this, round_intCast]
  · have hb0 : bucketSize N col = 0 := le_antisymm (not_lt.mp hb) (bucketSize_nonneg hN col)
    have h0 : maxAbs col = 0 := by rw [← bucketSize_mul hN col, hb0, zero_mul]
    have hm := le_maxAbs hx
    rw [h0] at hm
    have : x = 0 := abs_eq_zero.mp (le_antisymm hm (abs_nonneg x))
    rw [this, quantEntry_zero, dequantEntry_zero, quantEntry_zero]

/-- the dequantized column has the same max-abs, hence the same bucket -/
theorem maxAbs_dequant :
    maxAbs (col.map fun x => dequantEntry (bucketSize N col) (quantEntry (bucketSize N col) x))
      = maxAbs col := by
  have hb := bucketSize_nonneg (α := α) hN col
  have hle : ∀ y ∈ col.map (fun x => dequantEntry (bucketSize N col) (quantEntry (bucketSize N col) x)),
      |y| ≤ maxAbs col := by
    intro y hy
    obtain ⟨x, hx, rfl⟩ := List.mem_map.mp hy
    unfold dequantEntry
    rw [abs_mul, abs_of_nonneg hb, ← bucketSize_mul hN col, mul_comm]
    apply mul_le_mul_of_nonneg_left _ hb
    have := quantEntry_abs_le hN col hx
    have h2 : ((|quantEntry (bucketSize N col) x| : Int) : α) ≤ ((N : Int) : α) := Int.cast_le.mpr this
    simpa using h2
  by_cases hm : 0 < maxAbs col
  · apply maxAbs_unique hle
    obtain ⟨x, hx, hq⟩ := quantEntry_max hN col hm
    refine ⟨_, List.mem_map.mpr ⟨x, hx, rfl⟩, ?_⟩
    unfold dequantEntry
    rw [abs_mul, abs_of_nonneg hb, ← bucketSize_mul hN col, mul_comm]
    congr 1
    have : ((|quantEntry (bucketSize N col) x| : Int) : α) = ((N : Int) : α) := by rw [hq]
    simpa using this
  · have h0 : maxAbs col = 0 := le_antisymm (not_lt.mp hm) (maxAbs_nonneg col)
    rw [h0]
    apply maxAbs_eq_zero
    intro y hy
    have := hle y hy
    rw [h0] at this
    exact abs_eq_zero.mp (le_antisymm this (abs_nonneg y))

theorem bucketSize_dequant :
    bucketSize N (col.map fun x => dequantEntry (bucketSize N col) (quantEntry (bucketSize N col) x))
      = bucketSize N col := by
  have h := maxAbs_dequant (α := α) hN col
  unfold bucketSize at h ⊢
  rw [h]

end column

/-! ### tensors -/

omit [IsStrictOrderedRing α] [LawfulFloor α] in
@[simp] theorem quantize_bucket (N rows cols : Nat) (ed : Bool) (x : Nat → Nat → α) (c : Nat) :
    (quantize N rows cols ed x).bucket c = bucketSize N (column rows (pre ed x) c) := by
  simp only [quantize, lookup_table]

omit [IsStrictOrderedRing α] [LawfulFloor α] in
@[simp] theorem quantize_q (N rows cols : Nat) (ed : Bool) (x : Nat → Nat → α) (i c : Nat) :
    (quantize N rows cols ed x).q i c
      = quantEntry (bucketSize N (column rows (pre ed x) c)) (pre ed x i c) := by
  simp only [quantize, lookup_table]

omit [IsStrictOrderedRing α] [LawfulFloor α] in
@[simp] theorem quantize_diag (N rows cols : Nat) (ed : Bool) (x : Nat → Nat → α) (i : Nat) :
    (quantize N rows cols ed x).diag i = if ed then x i i else 0 := by
  simp only [quantize]

omit [IsStrictOrderedRing α] [HasFloor α] [LawfulFloor α] in
theorem mem_column {rows : Nat} (x : Nat → Nat → α) {i : Nat} (c : Nat) (hi : i < rows) :
    x i c ∈ column rows x c := by
  unfold column
  exact List.mem_map.mpr ⟨i, List.mem_range.mpr hi, rfl⟩

omit [IsStrictOrderedRing α] [HasFloor α] [LawfulFloor α] in
theorem pre_diag (x : Nat → Nat → α) (i : Nat) : pre true x i i = 0 := by
  simp [pre, offDiag]

omit [IsStrictOrderedRing α] [HasFloor α] [LawfulFloor α] in
/-- `x = pre ed x + (extracted diagonal)` -/
theorem pre_add (ed : Bool) (x : Nat → Nat → α) (i c : Nat) :
    x i c = pre ed x i c + (if ed = true ∧ i = c then x i i else 0) := by
  cases ed <;> simp [pre, offDiag]

/-- what gets bucketed when a dequantized value is quantized again: entrywise, the dequantized
off-diagonal part -/
theorem pre_dequantize (N rows cols : Nat) (ed : Bool) (x : Nat → Nat → α) (i c : Nat) :
    pre ed (dequantize ed (quantize N rows cols ed x)) i c
      = dequantEntry (bucketSize N (column rows (pre ed x) c))
          (quantEntry (bucketSize N (column rows (pre ed x) c)) (pre ed x i c)) := by
  cases ed
  · simp [pre, dequantize]
  · by_cases h : i = c
    · subst h
      simp [pre, dequantize, offDiag, quantEntry_zero, dequantEntry_zero]
    · simp [pre, dequantize, offDiag, h]

theorem column_pre_dequantize (N rows cols : Nat) (ed : Bool) (x : Nat → Nat → α) (c : Nat) :
    column rows (pre ed (dequantize ed (quantize N rows cols ed x))) c
      = (column rows (pre ed x) c).map fun y =>
          dequantEntry (bucketSize N (column rows (pre ed x) c))
            (quantEntry (bucketSize N (column rows (pre ed x) c)) y) := by
  unfold column
  rw [List.map_map]
  apply List.map_congr_left
  intro i _
  exact pre_dequantize N rows cols ed x i c

end

end PrecondVerif.Quant
