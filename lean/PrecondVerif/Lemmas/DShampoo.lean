/-
Helper lemmas for C02 (Distributed Shampoo update = documented blocked-Shampoo math).

* rotate-and-`tensordot` loop invariant (`RotRel`) and its consequence `lowBlock_eq_specBlock` for every rank;
* `_preconds_for_grad` slots = documented slots (`lowSlots_eq_specSlots`);
* the flat statistics list = the (block, axis)-indexed family (`lowStats_eq_specStats`), `pdims_length`;
* arithmetic selection = documented selection (`blend_eq_select`, `lowTransform_eq_specTransform`);
* closed form of the statistics recurrence over a history (`statRun_closed`);
* congruence of `merge_partitions` / reshape w.r.t. index-wise equality (`RelK`, `mergePartitions_relK`), hence
  `lowPrecondGrad_eq_specPrecondGrad` and `lowUpdate_eq_specUpdate`;
* the compressed branch: `packedStep_eq_tensordot0` (packed application = dense application of the denoted matrix),
  `denoteMx_eq_C10_denote`, `lowUpdateC_eq_specUpdate`;
* the documented per-coordinate update formula (`spec_update_coord`) and the lr factorisation (`spec_lr_decoupled`).
-/
import PrecondVerif.Model.DShampoo
import PrecondVerif.Lemmas.Graft
import PrecondVerif.Lemmas.Partition
import PrecondVerif.Props.C06
import Mathlib.Tactic.Ring
import Mathlib.Algebra.BigOperators.Ring.Finset
import Mathlib.Algebra.BigOperators.Intervals
import Mathlib.Algebra.BigOperators.Fin
import PrecondVerif.Model.LowRank

set_option linter.unusedSectionVars false
set_option linter.unusedSimpArgs false

namespace PrecondVerif.DShampoo
open PrecondVerif.Shapes PrecondVerif.Graft

section Rot
variable {α : Type} [Add α] [Mul α] [OfNat α 0]

/-- the Spec counterpart of one loop iteration at axis `m` -/
def specStep (m : Nat) (S : Tensor α) (s : Option (Mx α)) : Tensor α :=
  match s with
  | none => S
  | some P => modeProd S m P

theorem specBlockFrom_cons (m : Nat) (S : Tensor α) (s : Option (Mx α)) (ss : List (Option (Mx α))) :
    specBlockFrom m S (s :: ss) = specBlockFrom (m + 1) (specStep m S s) ss := by
  cases s <;> rfl

/-- loop invariant of `_precondition_block`: after `m` iterations the tensor is the Spec tensor with its axes
rotated left `m` times -/
structure RotRel (shape : List Nat) (m : Nat) (L S : Tensor α) : Prop where
  shapeL : L.shape = shape.drop m ++ shape.take m
  shapeS : S.shape = shape
  get : ∀ pre post : List Nat, pre.length = m → pre.length + post.length = shape.length →
    L.get (post ++ pre) = S.get (pre ++ post)

theorem rotRel_init (g : Tensor α) : RotRel g.shape 0 g g :=
  ⟨by simp, rfl, by
    intro pre post hp _
    have : pre = [] := List.length_eq_zero_iff.mp hp
    subst this; simp⟩

theorem lowBlockStep_shape (L : Tensor α) (s : Option (Mx α)) :
    (lowBlockStep L s).shape = L.shape.tail ++ [L.shape.headD 0] := by
  cases s <;> rfl

theorem specStep_shape (m : Nat) (S : Tensor α) (s : Option (Mx α)) : (specStep m S s).shape = S.shape := by
  cases s <;> rfl

theorem rotRel_step (shape : List Nat) (m : Nat) (L S : Tensor α) (s : Option (Mx α))
    (h : RotRel shape m L S) (hm : m < shape.length) :
    RotRel shape (m + 1) (lowBlockStep L s) (specStep m S s) := by
  have hdrop : shape.drop m = shape[m] :: shape.drop (m + 1) := by
    rw [List.drop_eq_getElem_cons hm]
  refine ⟨?_, ?_, ?_⟩
  · rw [lowBlockStep_shape, h.shapeL, hdrop, List.take_add_one, List.getElem?_eq_getElem hm]
    simp only [List.cons_append, List.tail_cons, List.headD_cons, Option.toList_some, List.append_assoc]
  · rw [specStep_shape, h.shapeS]
  · intro pre' post' hp hlen
    have hne : pre' ≠ [] := by intro h0; subst h0; simp at hp
    obtain ⟨pre, c, rfl⟩ : ∃ pre c, pre' = pre ++ [c] :=
      ⟨pre'.dropLast, pre'.getLast hne, (List.dropLast_append_getLast hne).symm⟩
    have hpre : pre.length = m := by simpa using hp
    have hlen' : pre.length + (post'.length + 1) = shape.length := by
      simp at hlen; omega
    cases s with
    | none =>
      show L.get ((post' ++ (pre ++ [c])).getLastD 0 :: (post' ++ (pre ++ [c])).dropLast) = S.get (pre ++ [c] ++ post')
      have e1 : post' ++ (pre ++ [c]) = (post' ++ pre) ++ [c] := by simp
      rw [e1, List.getLastD_concat, List.dropLast_concat]
      have := h.get pre (c :: post') hpre (by simpa using hlen')
      simpa using this
    | some P =>
      show lsum ((List.range (L.shape.headD 0)).map fun j =>
          L.get (j :: (post' ++ (pre ++ [c])).dropLast) * P j ((post' ++ (pre ++ [c])).getLastD 0)) =
        lsum ((List.range (S.shape.getD m 0)).map fun j =>
          S.get ((pre ++ [c] ++ post').set m j) * P j ((pre ++ [c] ++ post').getD m 0))
      have e1 : post' ++ (pre ++ [c]) = (post' ++ pre) ++ [c] := by simp
      rw [e1, List.getLastD_concat, List.dropLast_concat]
      have hhead : L.shape.headD 0 = S.shape.getD m 0 := by
        rw [h.shapeL, h.shapeS, hdrop]; simp [List.getD_eq_getElem?_getD, List.getElem?_eq_getElem hm]
      have hgetD : (pre ++ [c] ++ post').getD m 0 = c := by
        simp [List.getD_eq_getElem?_getD, ← hpre]
      have hset : ∀ j, (pre ++ [c] ++ post').set m j = pre ++ j :: post' := by
        intro j; simp [← hpre]
      rw [hhead, hgetD]
      congr 1
      apply List.map_congr_left
      intro j _
      rw [hset j]
      have := h.get pre (j :: post') hpre (by simpa using hlen')
      simp only [List.cons_append] at this
      rw [this]

theorem rotRel_fold (shape : List Nat) : ∀ (slots : List (Option (Mx α))) (m : Nat) (L S : Tensor α),
    m + slots.length = shape.length → RotRel shape m L S →
    RotRel shape shape.length (slots.foldl lowBlockStep L) (specBlockFrom m S slots)
  | [], m, L, S, hm, h => by
    have : m = shape.length := by simpa using hm
    subst this; exact h
  | s :: ss, m, L, S, hm, h => by
    rw [List.foldl_cons, specBlockFrom_cons]
    exact rotRel_fold shape ss (m + 1) _ _ (by simp at hm; omega)
      (rotRel_step shape m L S s h (by simp at hm; omega))

/-- **rotate-and-tensordot = mode products**, every rank. -/
theorem lowBlock_eq_specBlock (g : Tensor α) (slots : List (Option (Mx α)))
    (h : slots.length = g.shape.length) :
    (lowBlock g slots).shape = g.shape ∧ (specBlock g slots).shape = g.shape ∧
    ∀ idx : List Nat, idx.length = g.shape.length → (lowBlock g slots).get idx = (specBlock g slots).get idx := by
  have r := rotRel_fold g.shape slots 0 g g (by simpa using h) (rotRel_init g)
  refine ⟨by simpa [lowBlock] using r.shapeL, r.shapeS, ?_⟩
  intro idx hi
  have := r.get idx [] hi (by simp [hi])
  simpa [lowBlock, specBlock] using this

end Rot

section Slots

theorem filter_id_replicate_true (n : Nat) : ((List.replicate n true).filter id).length = n := by
  induction n with
  | zero => rfl
  | succ n ih => simp [List.replicate_succ, ih]

theorem filter_id_replicate_false (n : Nat) : ((List.replicate n false).filter id).length = 0 := by
  induction n with
  | zero => rfl
  | succ n ih => simp [List.replicate_succ, ih]

theorem filter_take_replicate_true (n i : Nat) (l : List Bool) (h : i ≤ n) :
    ((List.take i (List.replicate n true ++ l)).filter id).length = i := by
  rw [List.take_append_of_le_length (by simpa using h), List.take_replicate, Nat.min_eq_left h,
    filter_id_replicate_true]

/-- `_preconds_for_grad` hands every preconditioned axis the slot `b·k + #preconditioned axes before it` -/
theorem lowSlots_eq_specSlots (pt : PType) (rank b : Nat) : lowSlots pt rank b = specSlots pt rank b := by
  unfold lowSlots specSlots precondsForGrad numPreconditioned specSlot
  cases pt
  · simp only [shouldPreconditionDims]
    apply List.ext_getElem
    · simp [filter_id_replicate_true]
    · intro i h1 h2
      have hi : i < rank := by simpa using h2
      simp [filter_id_replicate_true, List.getD_eq_getElem?_getD, hi, List.take_replicate, Nat.min_eq_left (Nat.le_of_lt hi)]
  · simp only [shouldPreconditionDims]
    by_cases hr : rank ≤ 1
    · simp only [hr, if_true]
      apply List.ext_getElem
      · simp [filter_id_replicate_true]
      · intro i h1 h2
        have hi : i < rank := by simpa using h2
        simp [filter_id_replicate_true, List.getD_eq_getElem?_getD, hi, List.take_replicate, Nat.min_eq_left (Nat.le_of_lt hi)]
    · simp only [hr, if_false]
      have hk : ((List.replicate (rank - 1) true ++ [false]).filter id).length = rank - 1 := by
        simp [List.filter_append, filter_id_replicate_true]
      apply List.ext_getElem
      · simp [hk]; omega
      · intro i h1 h2
        have hi : i < rank := by simpa using h2
        by_cases hlast : i < rank - 1
        · simp [hk, List.getD_eq_getElem?_getD, List.getElem?_append_left, List.getElem_append_left, hlast,
            filter_take_replicate_true _ _ _ (Nat.le_of_lt hlast)]
        · have : i = rank - 1 := by omega
          subst this
          simp [hk, List.getD_eq_getElem?_getD, List.getElem?_append_right, List.getElem_append_right]
  · simp only [shouldPreconditionDims]
    by_cases hr : rank ≤ 1
    · simp only [hr, if_true]
      apply List.ext_getElem
      · simp [filter_id_replicate_true]
      · intro i h1 h2
        have hi : i < rank := by simpa using h2
        simp [filter_id_replicate_true, List.getD_eq_getElem?_getD, hi, List.take_replicate, Nat.min_eq_left (Nat.le_of_lt hi)]
    · simp only [hr, if_false]
      have hk : ((List.replicate (rank - 1) false ++ [true]).filter id).length = 1 := by
        simp [List.filter_append, filter_id_replicate_false]
      apply List.ext_getElem
      · simp [hk]; omega
      · intro i h1 h2
        have hi : i < rank := by simpa using h2
        by_cases hlast : i < rank - 1
        · simp [hk, List.getD_eq_getElem?_getD, List.getElem?_append_left, List.getElem_append_left, hlast]
        · have : i = rank - 1 := by omega
          subst this
          simp [hk, List.getD_eq_getElem?_getD, List.getElem?_append_right, List.getElem_append_right,
            List.take_append_of_le_length, List.take_replicate, filter_id_replicate_false]

end Slots

section Exponent

theorem filter_range'_getD (l : List Bool) : ∀ off : Nat,
    ((List.range' off l.length).filter fun a => l.getD (a - off) false).length = (l.filter id).length := by
  induction l with
  | nil => intro off; simp
  | cons b l ih =>
    intro off
    have hcongr : (List.range' (off + 1) l.length).filter (fun a => (b :: l).getD (a - off) false) =
        (List.range' (off + 1) l.length).filter (fun a => l.getD (a - (off + 1)) false) := by
      apply List.filter_congr
      intro a ha
      have h1 : off + 1 ≤ a := (List.mem_range'_1.mp ha).1
      have e : a - off = (a - (off + 1)) + 1 := by omega
      rw [e]; simp
    cases b
    · rw [List.length_cons, List.range'_succ, List.filter_cons_of_neg (by simp), hcongr, ih (off + 1)]
      simp
    · rw [List.length_cons, List.range'_succ, List.filter_cons_of_pos (by simp), List.length_cons, hcongr,
        ih (off + 1)]
      simp

theorem shouldPreconditionDims_length (pt : PType) (rank : Nat) : (shouldPreconditionDims pt rank).length = rank := by
  unfold shouldPreconditionDims
  cases pt
  · simp
  · by_cases h : rank ≤ 1
    · simp [h]
    · simp [h]; omega
  · by_cases h : rank ≤ 1
    · simp [h]
    · simp [h]; omega

/-- the statistics loop and the slot arithmetic count the same number of preconditioned axes -/
theorem pdims_length (G : Geom) : G.pdims.length = G.k := by
  unfold Geom.pdims Geom.k numPreconditioned Geom.should
  have h := filter_range'_getD (shouldPreconditionDims G.ptype G.rank) 0
  rw [shouldPreconditionDims_length] at h
  simpa [List.range_eq_range'] using h

end Exponent

section Stats
variable {α : Type} [Add α] [Mul α] [OfNat α 0]

theorem lowStatsGo_length (w1 w2 : α) (stats : List (Mx α)) (pdims : List Nat) :
    ∀ (gs : List (Tensor α)) (i0 : Nat), (lowStatsGo w1 w2 stats pdims gs i0).length = gs.length * pdims.length
  | [], _ => by simp [lowStatsGo]
  | g :: gs, i0 => by
    simp only [lowStatsGo, List.length_append, List.length_map, List.length_zipIdx, List.length_cons,
      lowStatsGo_length w1 w2 stats pdims gs, Nat.succ_mul]
    omega

theorem lowStatsGo_getElem? (w1 w2 : α) (stats : List (Mx α)) (pdims : List Nat) :
    ∀ (gs : List (Tensor α)) (i0 b j : Nat) (hb : b < gs.length) (hj : j < pdims.length),
      (lowStatsGo w1 w2 stats pdims gs i0)[b * pdims.length + j]? =
        some (statStep w1 w2 (stats.getD (i0 + b * pdims.length + j) Mx.zero) gs[b] pdims[j])
  | [], _, b, _, hb, _ => by simp at hb
  | g :: gs, i0, 0, j, _, hj => by
    simp only [lowStatsGo, Nat.zero_mul, Nat.zero_add, Nat.add_zero, List.getElem_cons_zero]
    rw [List.getElem?_append_left (by simpa using hj)]
    simp [List.getElem?_eq_getElem hj]
  | g :: gs, i0, b + 1, j, hb, hj => by
    have hb' : b < gs.length := by simpa using hb
    have e : (b + 1) * pdims.length + j = pdims.length + (b * pdims.length + j) := by
      rw [Nat.succ_mul]; omega
    simp only [lowStatsGo, List.getElem_cons_succ]
    rw [e, List.getElem?_append_right (by simp)]
    simp only [List.length_map, List.length_zipIdx, Nat.add_sub_cancel_left]
    rw [lowStatsGo_getElem? w1 w2 stats pdims gs (i0 + pdims.length) b j hb' hj]
    congr 3
    omega

/-- the flat statistics list of the code IS the documented family indexed by (block, preconditioned axis) -/
theorem lowStats_eq_specStats [Inhabited α] (G : Geom) (w1 w2 : α) (si step : Nat) (stats : List (Mx α))
    (g : List α) : lowStats G w1 w2 si step stats g = specStats G w1 w2 si step stats g := by
  unfold lowStats specStats
  split
  · apply List.ext_getElem?
    intro s
    simp only [lowNewStats]
    by_cases hs : s < (G.blocks g).length * G.pdims.length
    · have hk : 0 < G.pdims.length := Nat.pos_of_ne_zero (by intro h0; simp [h0] at hs)
      have hb : s / G.pdims.length < (G.blocks g).length :=
        Nat.div_lt_of_lt_mul (by rwa [Nat.mul_comm])
      have hj : s % G.pdims.length < G.pdims.length := Nat.mod_lt _ hk
      have e : s / G.pdims.length * G.pdims.length + s % G.pdims.length = s := Nat.div_add_mod' s _
      have := lowStatsGo_getElem? w1 w2 stats G.pdims (G.blocks g) 0 _ _ hb hj
      rw [e] at this
      rw [this, List.getElem?_map, List.getElem?_range hs]
      simp [specNewStat, List.getD_eq_getElem?_getD, List.getElem?_eq_getElem hb, List.getElem?_eq_getElem hj, e]
    · rw [List.getElem?_eq_none (by rw [lowStatsGo_length]; omega), List.getElem?_eq_none (by simp; omega)]
  · rfl

end Stats

section Transform
variable {α : Type} [Field α] [LinearOrder α] [IsStrictOrderedRing α]

/-- scalar form: for `run ∈ {0, 1}` the arithmetic blend is a selection -/
theorem blend_scalar (r x y : α) (h : r = 0 ∨ r = 1) : r * x + (1 - r) * y = if r = 1 then x else y := by
  rcases h with h | h <;> subst h <;> simp

theorem blend_eq_select (step start : Nat) (a b : List α) (h : a.length = b.length) :
    blend (runShampoo step start : α) a b = selectRun step start a b := by
  unfold runShampoo selectRun
  split
  · exact blend_one a b (le_of_eq h)
  · exact blend_zero a b (le_of_eq h.symm)

theorem axpy_length (c : α) (x y : List α) : (axpy c x y).length = min x.length y.length := by simp [axpy]
theorem momStep_length (b w : α) (m u : List α) : (momStep b w m u).length = min m.length u.length := by
  simp [momStep]

theorem candidates_lengths (sqrt : α → α) (nc : Nat → α) (h : Hyper α) (skip : Bool) (g param : List α)
    (st : PState α) (precond : List α) (n : Nat)
    (hgr : (dsGraftStep sqrt nc h.g g st.diag).1.length = n) (hp : param.length = n) (hpc : precond.length = n)
    (hm : st.mom.length = n) (hdm : st.dmom.length = n) :
    let c := candidates sqrt nc h skip g param st precond
    c.sWd.length = n ∧ c.gWd.length = n ∧ c.mS.length = n ∧ c.mG.length = n := by
  intro c
  have hgraft : c.graft.length = n := by
    show (scale _ _).length = n
    rw [scale_length, hgr]
  have hsh : c.shampoo.length = n := by
    show (dsShampooUpdate sqrt h.g _ (dsPrecondGrad skip _ precond)).length = n
    rw [dsShampooUpdate_length]
    unfold dsPrecondGrad
    split
    · exact hgraft
    · exact hpc
  have hs : c.sWd.length = n := by
    show (if coupledWd h then axpy h.wd c.shampoo param else c.shampoo).length = n
    split
    · rw [axpy_length, hsh, hp]; simp
    · exact hsh
  have hg : c.gWd.length = n := by
    show (if coupledWd h then axpy h.wd c.graft param else c.graft).length = n
    split
    · rw [axpy_length, hgraft, hp]; simp
    · exact hgraft
  refine ⟨hs, hg, ?_, ?_⟩
  · show (momStep h.beta1 (momW h) st.mom c.sWd).length = n
    rw [momStep_length, hm, hs]; simp
  · show (momStep h.beta1 (momW h) st.dmom c.gWd).length = n
    rw [momStep_length, hdm, hg]; simp

/-- `Low` transform = `Spec` transform (arithmetic selection = documented selection) -/
theorem lowTransform_eq_specTransform (sqrt : α → α) (nc : Nat → α) (h : Hyper α) (step : Nat) (skip : Bool)
    (g param : List α) (st : PState α) (precond : List α) (n : Nat)
    (hgr : (dsGraftStep sqrt nc h.g g st.diag).1.length = n) (hp : param.length = n) (hpc : precond.length = n)
    (hm : st.mom.length = n) (hdm : st.dmom.length = n) :
    lowTransform sqrt nc h step skip g param st precond = specTransform sqrt nc h step skip g param st precond := by
  obtain ⟨h1, h2, h3, h4⟩ := candidates_lengths sqrt nc h skip g param st precond n hgr hp hpc hm hdm
  unfold lowTransform specTransform
  simp only
  rw [blend_eq_select _ _ _ _ (h3.trans h4.symm), blend_eq_select _ _ _ _ (h1.trans h2.symm)]

end Transform

section Closed
variable {α : Type} [CommRing α]

/-- number of statistics steps in a history -/
def refreshCount (hist : List (Bool × Tensor α)) : Nat := (hist.filter (·.1)).length

/-- `Σ_s w1^{#statistics steps after s} · (G_s ×_a G_s)[i, j]` over the statistics steps `s` of the history -/
def gramSum (w1 : α) (a i j : Nat) : List (Bool × Tensor α) → α
  | [] => 0
  | sg :: rest => (if sg.1 then w1 ^ refreshCount rest * gram sg.2 a i j else 0) + gramSum w1 a i j rest

theorem refreshCount_cons (sg : Bool × Tensor α) (rest : List (Bool × Tensor α)) :
    refreshCount (sg :: rest) = (if sg.1 then 1 else 0) + refreshCount rest := by
  unfold refreshCount
  cases h : sg.1 <;> simp [List.filter_cons, h, Nat.add_comm]

/-- closed form of the statistics recurrence, by induction over the history (any start `L0`) -/
theorem statRun_closed (w1 w2 : α) (a i j : Nat) : ∀ (hist : List (Bool × Tensor α)) (L0 : Mx α),
    statRun w1 w2 a L0 hist i j = w1 ^ refreshCount hist * L0 i j + w2 * gramSum w1 a i j hist
  | [], L0 => by simp [statRun, refreshCount, gramSum]
  | sg :: rest, L0 => by
    have ih := statRun_closed w1 w2 a i j rest
    unfold statRun at ih ⊢
    rw [List.foldl_cons, ih, refreshCount_cons, gramSum]
    cases h : sg.1
    · simp
    · simp only [if_true, statStep]
      ring

end Closed



section Coord
variable {α : Type} [Field α] [LinearOrder α] [IsStrictOrderedRing α]

/-- The documented update of ONE coordinate, in the documented order: candidate (Shampoo from the start step on,
graft before) → coupled weight decay → momentum → Nesterov → decoupled weight decay → −lr. `s`, `gr` are the
coordinate of `shampoo_update` (after the rescale) and `grafting_update` (times lr when coupled), `x` the parameter,
`m`, `dm` the two stored momenta. -/
def docOut (h : Hyper α) (run : Bool) (s gr x m dm : α) : α :=
  let u := (if run then s else gr) + (if coupledWd h then h.wd * x else 0)
  let mo := (if run then m else dm) * h.beta1 + momW h * u
  let nest := if h.nesterov then momW h * u + h.beta1 * mo else mo
  nest + (if decoupledWdOn h then wdLr h * h.wd * x else 0)

def docCoord (h : Hyper α) (run : Bool) (s gr x m dm : α) : α :=
  -1 * momentumMultiplier h.g * docOut h run s gr x m dm

theorem spec_update_coord (sqrt : α → α) (nc : Nat → α) (h : Hyper α) (step : Nat) (skip : Bool)
    (g param : List α) (st : PState α) (precond : List α) (i : Nat) (s gr x m dm : α)
    (hs : (candidates sqrt nc h skip g param st precond).shampoo[i]? = some s)
    (hg : (candidates sqrt nc h skip g param st precond).graft[i]? = some gr)
    (hx : param[i]? = some x) (hm : st.mom[i]? = some m) (hdm : st.dmom[i]? = some dm) :
    (specTransform sqrt nc h step skip g param st precond).upd[i]? =
      some (docCoord h (decide (h.g.start ≤ step)) s gr x m dm) := by
  have hsWd : (candidates sqrt nc h skip g param st precond).sWd[i]? =
      some (s + if coupledWd h then h.wd * x else 0) := by
    show (if coupledWd h then axpy h.wd (candidates sqrt nc h skip g param st precond).shampoo param
      else (candidates sqrt nc h skip g param st precond).shampoo)[i]? = _
    split <;> simp [axpy, List.getElem?_zipWith, hs, hx]
  have hgWd : (candidates sqrt nc h skip g param st precond).gWd[i]? =
      some (gr + if coupledWd h then h.wd * x else 0) := by
    show (if coupledWd h then axpy h.wd (candidates sqrt nc h skip g param st precond).graft param
      else (candidates sqrt nc h skip g param st precond).graft)[i]? = _
    split <;> simp [axpy, List.getElem?_zipWith, hg, hx]
  have hmS : (candidates sqrt nc h skip g param st precond).mS[i]? =
      some (m * h.beta1 + momW h * (s + if coupledWd h then h.wd * x else 0)) := by
    show (momStep h.beta1 (momW h) st.mom (candidates sqrt nc h skip g param st precond).sWd)[i]? = _
    simp [momStep, List.getElem?_zipWith, hm, hsWd]
  have hmG : (candidates sqrt nc h skip g param st precond).mG[i]? =
      some (dm * h.beta1 + momW h * (gr + if coupledWd h then h.wd * x else 0)) := by
    show (momStep h.beta1 (momW h) st.dmom (candidates sqrt nc h skip g param st precond).gWd)[i]? = _
    simp [momStep, List.getElem?_zipWith, hdm, hgWd]
  unfold specTransform finishUpd selectRun docCoord docOut
  by_cases hrun : h.g.start ≤ step <;> cases hn : h.nesterov <;> cases hd : decoupledWdOn h <;>
    simp [hrun, hn, hd, finalScale, nesterovMix, addDecoupledWd, List.getElem?_zipWith, hsWd, hgWd, hmS, hmG, hx]

/-- `lr` enters exactly once when decoupled: the update is `lr` times the update computed with `lr = 1`, and the
stored state does not depend on `lr` at all. -/
theorem spec_lr_decoupled (sqrt : α → α) (nc : Nat → α) (h : Hyper α) (step : Nat) (skip : Bool)
    (g param : List α) (st : PState α) (precond : List α) (hd : h.g.decoupledLr = true) :
    let h1 : Hyper α := { h with g := { h.g with lr := 1 } }
    (specTransform sqrt nc h step skip g param st precond).upd =
        (specTransform sqrt nc h1 step skip g param st precond).upd.map (fun y => h.g.lr * y) ∧
      (specTransform sqrt nc h step skip g param st precond).st =
        (specTransform sqrt nc h1 step skip g param st precond).st := by
  intro h1
  have hc : candidates sqrt nc h skip g param st precond = candidates sqrt nc h1 skip g param st precond := by
    simp [candidates, h1, precondMultiplier, hd, dsGraftStep, dsShampooUpdate, coupledWd, momW]
  constructor
  · unfold specTransform finishUpd
    simp only [← hc]
    have e1 : momW h1 = momW h := rfl
    have e2 : decoupledWdOn h1 = decoupledWdOn h := rfl
    have e3 : wdLr h1 = wdLr h := by simp [wdLr, h1, hd]
    have e4 : h1.nesterov = h.nesterov := rfl
    have e5 : h1.beta1 = h.beta1 := rfl
    have e6 : h1.wd = h.wd := rfl
    have e7 : h1.g.start = h.g.start := rfl
    rw [e1, e2, e3, e4, e5, e6, e7]
    simp only [finalScale, momentumMultiplier, hd, h1, if_true, List.map_map]
    apply List.map_congr_left
    intro y _
    simp only [Function.comp]
    ring
  · unfold specTransform
    simp only [← hc]

end Coord

section Cong
variable {α : Type} [Inhabited α]

/-- equal shapes, equal entries on the indices satisfying `K` -/
def RelK (K : List Nat → Prop) (t u : Tensor α) : Prop :=
  t.shape = u.shape ∧ ∀ idx, K idx → t.get idx = u.get idx

/-- `K` is stable under overwriting one coordinate -/
def SetClosed (K : List Nat → Prop) : Prop := ∀ idx a j, K idx → K (idx.set a j)

theorem relK_refl (K : List Nat → Prop) (t : Tensor α) : RelK K t t := ⟨rfl, fun _ _ => rfl⟩

theorem forall₂_map_eq {β γ : Type} {R : β → β → Prop} (f : β → γ) (hf : ∀ a b, R a b → f a = f b) :
    ∀ {l1 l2 : List β}, List.Forall₂ R l1 l2 → l1.map f = l2.map f
  | _, _, .nil => rfl
  | _, _, .cons h t => by simp [hf _ _ h, forall₂_map_eq f hf t]

theorem forall₂_getD {β : Type} {R : β → β → Prop} (d : β) (hd : R d d) :
    ∀ {l1 l2 : List β}, List.Forall₂ R l1 l2 → ∀ k, R (l1.getD k d) (l2.getD k d)
  | _, _, .nil, k => by simpa using hd
  | _, _, .cons h t, 0 => by simpa using h
  | _, _, .cons h t, k + 1 => by simpa using forall₂_getD d hd t k

theorem concat_relK (K : List Nat → Prop) (hK : SetClosed K) (a : Nat) (ts us : List (Tensor α))
    (h : List.Forall₂ (RelK K) ts us) : RelK K (Tensor.concat ts a) (Tensor.concat us a) := by
  have hsizes : ts.map (fun t => t.shape.getD a 0) = us.map (fun t => t.shape.getD a 0) :=
    forall₂_map_eq _ (fun x y hxy => by rw [hxy.1]) h
  have hhead : (ts.headD ⟨[], fun _ => default⟩).shape = (us.headD ⟨[], fun _ => default⟩).shape := by
    cases h with
    | nil => rfl
    | cons h1 _ => exact h1.1
  refine ⟨?_, ?_⟩
  · show List.set _ a _ = List.set _ a _
    rw [hsizes, hhead]
  · intro idx hi
    show (ts.getD _ _).get _ = (us.getD _ _).get _
    rw [hsizes]
    exact (forall₂_getD _ (relK_refl K _) h _).2 _ (hK _ _ _ hi)

theorem chunks_eq_cons {β : Type} (n : Nat) (l : List β) (h : ¬ (n = 0 ∨ l = [])) :
    chunks n l = l.take n :: chunks n (l.drop n) := by
  rw [chunks, dif_neg h]

theorem chunks_eq_nil {β : Type} (n : Nat) (l : List β) (h : n = 0 ∨ l = []) : chunks n l = [] := by
  rw [chunks, dif_pos h]

theorem chunks_forall₂ {β : Type} (R : β → β → Prop) (n : Nat) :
    ∀ (k : Nat) (l1 l2 : List β), l1.length ≤ k → List.Forall₂ R l1 l2 →
      List.Forall₂ (List.Forall₂ R) (chunks n l1) (chunks n l2)
  | 0, l1, l2, hk, h => by
    have h1 : l1 = [] := List.length_eq_zero_iff.mp (Nat.le_zero.mp hk)
    subst h1
    have h2 : l2 = [] := by simpa using h
    subst h2
    rw [chunks_nil]; exact .nil
  | k + 1, l1, l2, hk, h => by
    by_cases hc : n = 0 ∨ l1 = []
    · have hc2 : n = 0 ∨ l2 = [] := by
        rcases hc with hc | hc
        · exact Or.inl hc
        · subst hc; right; simpa using h
      rw [chunks_eq_nil n l1 hc, chunks_eq_nil n l2 hc2]; exact .nil
    · have hc2 : ¬ (n = 0 ∨ l2 = []) := by
        intro h2
        rcases h2 with h2 | h2
        · exact hc (Or.inl h2)
        · subst h2
          have : l1 = [] := by simpa using h
          exact hc (Or.inr this)
      rw [chunks_eq_cons n l1 hc, chunks_eq_cons n l2 hc2]
      refine .cons (List.forall₂_take n h) ?_
      apply chunks_forall₂ R n k _ _ _ (List.forall₂_drop n h)
      have hn : 0 < n := Nat.pos_of_ne_zero (fun h0 => hc (Or.inl h0))
      have hl : 0 < l1.length := List.length_pos_iff.mpr (fun h0 => hc (Or.inr h0))
      simp only [List.length_drop]
      omega

theorem mergeStep_relK (K : List Nat → Prop) (hK : SetClosed K) (sz : Nat → List Nat) (a : Nat)
    (ps qs : List (Tensor α)) (h : List.Forall₂ (RelK K) ps qs) :
    List.Forall₂ (RelK K) (mergeStep sz a ps) (mergeStep sz a qs) := by
  unfold mergeStep
  rw [List.forall₂_map_left_iff, List.forall₂_map_right_iff]
  exact (chunks_forall₂ (RelK K) _ ps.length ps qs (Nat.le_refl _) h).imp
    (fun g1 g2 hg => concat_relK K hK a g1 g2 hg)

theorem mergeAxesRev_relK (K : List Nat → Prop) (hK : SetClosed K) (sz : Nat → List Nat) (axes : List Nat)
    (ps qs : List (Tensor α)) (h : List.Forall₂ (RelK K) ps qs) :
    List.Forall₂ (RelK K) (mergeAxesRev sz axes ps) (mergeAxesRev sz axes qs) := by
  induction axes with
  | nil => simpa [mergeAxesRev] using h
  | cons a rest ih =>
    rw [mergeAxesRev_cons, mergeAxesRev_cons]
    exact mergeStep_relK K hK sz a _ _ ih

/-- `merge_partitions` respects index-wise equality: equal outcome of the assert, related results -/
theorem mergePartitions_relK (K : List Nat → Prop) (hK : SetClosed K) (shape : List Nat) (b : Nat)
    (ps qs : List (Tensor α)) (h : List.Forall₂ (RelK K) ps qs) :
    (mergePartitions shape b ps = none ∧ mergePartitions shape b qs = none) ∨
    ∃ t u, mergePartitions shape b ps = some t ∧ mergePartitions shape b qs = some u ∧ RelK K t u := by
  rw [mergePartitions_eq, mergePartitions_eq]
  have r := mergeAxesRev_relK K hK (fun i => splitSizes (shape.getD i 0) b) (splitAxes shape b) ps qs h
  generalize mergeAxesRev (fun i => splitSizes (shape.getD i 0) b) (splitAxes shape b) ps = r1 at r
  generalize mergeAxesRev (fun i => splitSizes (shape.getD i 0) b) (splitAxes shape b) qs = r2 at r
  cases r with
  | nil => left; exact ⟨rfl, rfl⟩
  | cons hab htl =>
    cases htl with
    | nil => right; exact ⟨_, _, rfl, rfl, hab⟩
    | cons _ _ => left; exact ⟨rfl, rfl⟩

theorem partAxes_shape_length (sz : Nat → List Nat) (r : Nat) : ∀ (axes : List Nat) (ts : List (Tensor α)),
    (∀ t ∈ ts, t.shape.length = r) → ∀ v ∈ partAxes sz axes ts, v.shape.length = r
  | [], ts, h => by simpa [partAxes] using h
  | a :: rest, ts, h => by
    rw [partAxes_cons]
    apply partAxes_shape_length sz r rest
    intro v hv
    simp only [List.mem_flatMap] at hv
    obtain ⟨u, hu, hvu⟩ := hv
    obtain ⟨off, size, rfl⟩ := mem_split u v a (sz a) hvu
    simpa [Tensor.slice] using h u hu

theorem unravel_length : ∀ (s : List Nat) (k : Nat), (unravel s k).length = s.length
  | [], _ => rfl
  | _ :: ss, k => by simp [unravel, unravel_length ss]

theorem blocks_shape_length [OfNat α 0] (G : Geom) (g : List α) : ∀ v ∈ G.blocks g, v.shape.length = G.rank := by
  unfold Geom.blocks
  rw [partition_eq_partAxes]
  apply partAxes_shape_length
  intro t ht
  simp only [List.mem_singleton] at ht
  subst ht
  rfl

end Cong

section Final
variable {α : Type} [Add α] [Mul α] [OfNat α 0] [Inhabited α]

/-- **`Preconditioner.preconditioned_grad` = documented blocked mode products**, every rank, block layout,
preconditioner type; moreover the assert of `merge_partitions` never fails. -/
theorem lowPrecondGrad_eq_specPrecondGrad (G : Geom) (P : List (Mx α)) (g : List α) :
    lowPrecondGrad G P g = specPrecondGrad G P g ∧ (specPrecondGrad G P g).isSome = true := by
  unfold lowPrecondGrad specPrecondGrad precondGradWith Geom.assemble
  have hbl := blocks_shape_length G g
  have hslots : ∀ b, (slotMats P Mx.zero (specSlots G.ptype G.rank b)).length = G.rank := by
    intro b; simp [slotMats, specSlots]
  -- Low blocks ~ Spec blocks on indices of length rank
  have hrel : List.Forall₂ (RelK (fun idx => idx.length = G.rank))
      ((G.blocks g).zipIdx.map fun gb => lowBlock gb.1 (slotMats P Mx.zero (lowSlots G.ptype G.rank gb.2)))
      ((G.blocks g).zipIdx.map fun gb => specBlock gb.1 (slotMats P Mx.zero (specSlots G.ptype G.rank gb.2))) := by
    rw [List.forall₂_map_left_iff, List.forall₂_map_right_iff, List.forall₂_same]
    intro x hx
    have hx1 : x.1.shape.length = G.rank := hbl _ (List.fst_mem_of_mem_zipIdx hx)
    rw [lowSlots_eq_specSlots]
    obtain ⟨h1, h2, h3⟩ := lowBlock_eq_specBlock x.1 _ ((hslots x.2).trans hx1.symm)
    exact ⟨h1.trans h2.symm, fun idx hi => h3 idx (hi.trans hx1.symm)⟩
  -- Spec blocks have the shapes of the blocks
  have hshape : List.Forall₂ (RelK (fun _ => False))
      ((G.blocks g).zipIdx.map fun gb => specBlock gb.1 (slotMats P Mx.zero (specSlots G.ptype G.rank gb.2)))
      (G.blocks g) := by
    have : List.Forall₂ (RelK (fun _ => False))
        ((G.blocks g).zipIdx.map fun gb => specBlock gb.1 (slotMats P Mx.zero (specSlots G.ptype G.rank gb.2)))
        ((G.blocks g).zipIdx.map Prod.fst) := by
      rw [List.forall₂_map_left_iff, List.forall₂_map_right_iff, List.forall₂_same]
      intro x hx
      have hx1 : x.1.shape.length = G.rank := hbl _ (List.fst_mem_of_mem_zipIdx hx)
      exact ⟨(lowBlock_eq_specBlock x.1 _ ((hslots x.2).trans hx1.symm)).2.1, fun _ hf => hf.elim⟩
    rwa [List.zipIdx_map_fst] at this
  have hK1 : SetClosed (fun idx : List Nat => idx.length = G.rank) := by
    intro idx a j h; simpa using h
  have hK0 : SetClosed (fun _ : List Nat => False) := fun _ _ _ h => h
  obtain ⟨u, hu, huE⟩ := C06.merge_partition_id ((ofFlat G.shape g).reshape G.tshape) G.block
  have hu' : mergePartitions G.tshape G.block (G.blocks g) = some u := hu
  have huS : u.shape = G.tshape := huE.1
  rcases mergePartitions_relK _ hK0 G.tshape G.block _ _ hshape with ⟨_, h2⟩ | ⟨tS, u2, hS, h2, hr0⟩
  · rw [hu'] at h2; cases h2
  · rw [hu'] at h2
    cases h2
    have htS : tS.shape.length = G.rank := by rw [hr0.1, huS]; rfl
    rcases mergePartitions_relK _ hK1 G.tshape G.block _ _ hrel with ⟨_, h4⟩ | ⟨tL, tS2, hL, h4, hr1⟩
    · rw [hS] at h4; cases h4
    · rw [hS] at h4
      cases h4
      rw [hL, hS]
      refine ⟨?_, rfl⟩
      simp only [Option.map_some, Option.some.injEq, Tensor.flat, Tensor.reshape]
      apply List.map_congr_left
      intro idx _
      rw [hr1.1]
      exact hr1.2 _ (by show (unravel _ _).length = _; rw [unravel_length]; exact htS)

theorem allIdx_length : ∀ s : List Nat, (allIdx s).length = prod s
  | [] => rfl
  | s :: ss => by
    simp only [allIdx, List.length_flatMap, List.length_map, allIdx_length ss, prod_cons]
    simp [List.map_const', List.sum_replicate]

theorem specPrecondGrad_length (G : Geom) (P : List (Mx α)) (g pg : List α)
    (h : specPrecondGrad G P g = some pg) : pg.length = prod G.shape := by
  unfold specPrecondGrad precondGradWith Geom.assemble at h
  rw [Option.map_eq_some_iff] at h
  obtain ⟨t, _, rfl⟩ := h
  simp [Tensor.flat, Tensor.reshape, allIdx_length]

end Final

section Whole
variable {α : Type} [Field α] [LinearOrder α] [IsStrictOrderedRing α] [Inhabited α]

/-- the whole update half of one call: code-shaped model = documented math -/
theorem lowUpdate_eq_specUpdate (sqrt : α → α) (nc : Nat → α) (sharded : Bool) (G : Geom) (h : Hyper α)
    (step : Nat) (skip : Bool) (g param : List α) (st : PState α) (before after : List (Mx α))
    (hgr : (dsGraftStep sqrt nc h.g g st.diag).1.length = prod G.shape) (hg : g.length = prod G.shape)
    (hp : param.length = prod G.shape) (hm : st.mom.length = prod G.shape)
    (hdm : st.dmom.length = prod G.shape) :
    lowUpdate sqrt nc sharded G h step skip g param st before after =
      specUpdate sqrt nc sharded G h step skip g param st before after := by
  unfold lowUpdate specUpdate
  rw [(lowPrecondGrad_eq_specPrecondGrad G _ g).1]
  cases skip
  · simp only [Bool.false_eq_true, if_false]
    cases hpg : specPrecondGrad G (usedPreconds sharded before after) g with
    | none => rfl
    | some pg =>
      simp only [Option.map_some]
      rw [lowTransform_eq_specTransform sqrt nc h step false g param st pg (prod G.shape) hgr hp
        (specPrecondGrad_length G _ g pg hpg) hm hdm]
  · simp only [if_true, Option.map_some]
    rw [lowTransform_eq_specTransform sqrt nc h step true g param st g (prod G.shape) hgr hp hg hm hdm]

end Whole
section Packed
variable {α : Type} [CommRing α] [BEq α]

omit [BEq α] in
theorem lsum_append' (l1 l2 : List α) : lsum (l1 ++ l2) = lsum l1 + lsum l2 := by
  induction l1 with
  | nil => simp [lsum]
  | cons x xs ih =>
    have : lsum (x :: xs ++ l2) = x + lsum (xs ++ l2) := rfl
    rw [this, ih]
    have : lsum (x :: xs) = x + lsum xs := rfl
    rw [this, add_assoc]

omit [BEq α] in
theorem lsum_range (n : Nat) (f : Nat → α) : lsum ((List.range n).map f) = ∑ i ∈ Finset.range n, f i := by
  induction n with
  | zero => simp [lsum]
  | succ n ih =>
    rw [List.range_succ, List.map_append, lsum_append', ih, Finset.sum_range_succ]
    simp [lsum]

omit [BEq α] in
theorem sum_delta (n b : Nat) (f : Nat → α) :
    ∑ j ∈ Finset.range n, f j * (if j = b then 1 else 0) = if b < n then f b else 0 := by
  simp [Finset.sum_ite_eq', mul_ite]

/-- the compressed branch is the dense branch with the matrix the packed preconditioner denotes (any `V`, `e`,
`c`; identity when flagged) — as index functions, for every tensor rank -/
theorem packedStep_eq_tensordot0 (g : Tensor α) (d r : Nat) (P : Mx α) :
    packedStep g d r P = tensordot0 g (denoteStored (.packed d r P)) := by
  unfold packedStep tensordot0 denoteStored
  congr 1
  funext idx
  simp only [lsum_range]
  by_cases hs : pkSkip d r P = true
  · simp only [hs, if_true, precondInit]
    exact (sum_delta (g.shape.headD 0) (idx.getLastD 0) (fun j => g.get (j :: idx.dropLast))).symm
  · simp only [hs, Bool.false_eq_true, if_false, denoteMx, lsum_range]
    have hd : (if idx.getLastD 0 < g.shape.headD 0 then g.get (idx.getLastD 0 :: idx.dropLast) else 0) =
        ∑ j ∈ Finset.range (g.shape.headD 0), g.get (j :: idx.dropLast) * (if j = idx.getLastD 0 then 1 else 0) :=
      (sum_delta (g.shape.headD 0) (idx.getLastD 0) (fun j => g.get (j :: idx.dropLast))).symm
    rw [hd]
    simp only [Finset.sum_mul, Finset.mul_sum, mul_add, mul_sub, Finset.sum_add_distrib, Finset.sum_sub_distrib]
    rw [Finset.sum_comm (s := Finset.range r), Finset.sum_comm (s := Finset.range r)]
    congr 1
    · congr 1
      · apply Finset.sum_congr rfl; intro j _; ring
      · apply Finset.sum_congr rfl; intro j _
        apply Finset.sum_congr rfl; intro q _; ring
    · apply Finset.sum_congr rfl; intro j _
      apply Finset.sum_congr rfl; intro q _; ring

omit [BEq α] in
theorem lsum_range_eq_sumFin (r : Nat) (F : Nat → α) :
    lsum ((List.range r).map F) = LowRank.sumFin r (fun q => F q.val) := by
  unfold LowRank.sumFin
  rw [← Fin.sum_univ_def, ← Finset.sum_range (f := F)]
  exact lsum_range r F

omit [BEq α] in
/-- the denoted matrix is C10's `denote` of the unpacked fields (so C10's theorems — `denote_is_documented_matrix`,
`low_rank_root_denotes` — speak about the very matrix the Spec multiplies with) -/
theorem denoteMx_eq_C10_denote (d r : Nat) (P : Mx α) (i b : Fin d) :
    denoteMx r P i.val b.val =
      LowRank.denote (fun (i : Fin d) (q : Fin r) => P i.val q.val) (fun q => pkE r P q.val) (pkC r P) i b := by
  unfold denoteMx LowRank.denote
  rw [lsum_range_eq_sumFin, lsum_range_eq_sumFin]
  simp only [Fin.val_inj]

theorem lowBlockStepC_eq (g : Tensor α) (s : Option (Stored α)) :
    lowBlockStepC g s = lowBlockStep g (s.map denoteStored) := by
  cases s with
  | none => rfl
  | some st =>
    cases st with
    | dense P => rfl
    | packed d r P => exact packedStep_eq_tensordot0 g d r P

theorem lowBlockC_eq (g : Tensor α) (slots : List (Option (Stored α))) :
    lowBlockC g slots = lowBlock g (slots.map (Option.map denoteStored)) := by
  unfold lowBlockC lowBlock
  induction slots generalizing g with
  | nil => rfl
  | cons s ss ih => simp only [List.foldl_cons, List.map_cons, lowBlockStepC_eq, ih]

theorem slotStored_map (P : List (Stored α)) (slots : List (Option Nat)) :
    (slotStored P (.dense Mx.zero) slots).map (Option.map denoteStored) =
      slotMats (P.map denoteStored) Mx.zero slots := by
  unfold slotStored slotMats
  rw [List.map_map]
  apply List.map_congr_left
  intro o _
  cases o with
  | none => rfl
  | some ix =>
    simp only [Function.comp, Option.map_some]
    congr 1
    simp only [List.getD_eq_getElem?_getD, List.getElem?_map]
    cases P[ix]? <;> rfl

/-- `preconditioned_grad` with compressed preconditioners = `preconditioned_grad` with the dense matrices they
denote -/
theorem lowPrecondGradC_eq [Inhabited α] (G : Geom) (P : List (Stored α)) (g : List α) :
    lowPrecondGradC G P g = lowPrecondGrad G (P.map denoteStored) g := by
  unfold lowPrecondGradC lowPrecondGrad
  congr 1
  funext b gb
  rw [lowBlockC_eq, slotStored_map]

end Packed

section WholeC
variable {α : Type} [Field α] [LinearOrder α] [IsStrictOrderedRing α] [Inhabited α]

theorem lowUpdateC_eq_specUpdate (sqrt : α → α) (nc : Nat → α) (sharded : Bool) (G : Geom) (h : Hyper α)
    (step : Nat) (skip : Bool) (g param : List α) (st : PState α) (before after : List (Stored α))
    (hgr : (dsGraftStep sqrt nc h.g g st.diag).1.length = prod G.shape) (hg : g.length = prod G.shape)
    (hp : param.length = prod G.shape) (hm : st.mom.length = prod G.shape)
    (hdm : st.dmom.length = prod G.shape) :
    lowUpdateC sqrt nc sharded G h step skip g param st before after =
      specUpdate sqrt nc sharded G h step skip g param st (before.map denoteStored) (after.map denoteStored) := by
  rw [← lowUpdate_eq_specUpdate sqrt nc sharded G h step skip g param st _ _ hgr hg hp hm hdm]
  unfold lowUpdateC lowUpdate
  rw [lowPrecondGradC_eq]
  cases sharded <;> rfl

end WholeC
end PrecondVerif.DShampoo
