/-
Helper lemmas for C02 (Distributed Shampoo update = documented blocked-Shampoo math).

* rotate-and-`tensordot` loop invariant (`RotRel`) and its consequence `lowBlock_eq_specBlock` for every rank;
* `_preconds_for_grad` slots = documented slots (`lowSlots_eq_specSlots`);
* the flat statistics list = the (block, axis)-indexed family (`lowStats_eq_specStats`), `pdims_length`;
* arithmetic selection = documented selection (`blend_eq_select`, `lowTransform_eq_specTransform`);
* closed form of the statistics recurrence over a history (`statRun_closed`);
* the documented per-coordinate update formula (`spec_update_coord`) and the lr factorisation (`spec_lr_decoupled`).
-/
import PrecondVerif.Model.DShampoo
import PrecondVerif.Lemmas.Graft
import PrecondVerif.Lemmas.Partition
import Mathlib.Tactic.Ring

set_option linter.unusedSectionVars false
set_option linter.unusedSimpArgs false

namespace PrecondVerif.DShampoo
open PrecondVerif.Shapes PrecondVerif.Graft

section Rot
variable {α : Type} [Add α] [Mul α] [OfNat α 0]

/-- the Spec counterpart of one loop iteration at axis `m` -/
def specStep (m : Nat) (S : Tensor α) (s : Option (Mx α)) : Tensor α :=
  match s with
  | none => S
  | some P => modeProd S m P

theorem specBlockFrom_cons (m : Nat) (S : Tensor α) (s : Option (Mx α)) (ss : List (Option (Mx α))) :
    specBlockFrom m S (s :: ss) = specBlockFrom (m + 1) (specStep m S s) ss := by
  cases s <;> rfl

/-- loop invariant of `_precondition_block`: after `m` iterations the tensor is the Spec tensor with its axes
rotated left `m` times -/
structure RotRel (shape : List Nat) (m : Nat) (L S : Tensor α) : Prop where
  shapeL : L.shape = shape.drop m ++ shape.take m
  shapeS : S.shape = shape
  get : ∀ pre post : List Nat, pre.length = m → pre.length + post.length = shape.length →
    L.get (post ++ pre) = S.get (pre ++ post)

theorem rotRel_init (g : Tensor α) : RotRel g.shape 0 g g :=
  ⟨by simp, rfl, by
    intro pre post hp _
    have : pre = [] := List.length_eq_zero_iff.mp hp
    subst this; simp⟩

theorem lowBlockStep_shape (L : Tensor α) (s : Option (Mx α)) :
    (lowBlockStep L s).shape = L.shape.tail ++ [L.shape.headD 0] := by
  cases s <;> rfl

theorem specStep_shape (m : Nat) (S : Tensor α) (s : Option (Mx α)) : (specStep m S s).shape = S.shape := by
  cases s <;> rfl

theorem rotRel_step (shape : List Nat) (m : Nat) (L S : Tensor α) (s : Option (Mx α))
    (h : RotRel shape m L S) (hm : m < shape.length) :
    RotRel shape (m + 1) (lowBlockStep L s) (specStep m S s) := by
  have hdrop : shape.drop m = shape[m] :: shape.drop (m + 1) := by
    rw [List.drop_eq_getElem_cons hm]
  refine ⟨?_, ?_, ?_⟩
  · rw [lowBlockStep_shape, h.shapeL, hdrop, List.take_add_one, List.getElem?_eq_getElem hm]
    simp only [List.cons_append, List.tail_cons, List.headD_cons, Option.toList_some, List.append_assoc]
  · rw [specStep_shape, h.shapeS]
  · intro pre' post' hp hlen
    have hne : pre' ≠ [] := by intro h0; subst h0; simp at hp
    obtain ⟨pre, c, rfl⟩ : ∃ pre c, pre' = pre ++ [c] :=
      ⟨pre'.dropLast, pre'.getLast hne, (List.dropLast_append_getLast hne).symm⟩
    have hpre : pre.length = m := by simpa using hp
    have hlen' : pre.length + (post'.length + 1) = shape.length := by
      simp at hlen; omega
    cases s with
    | none =>
      show L.get ((post' ++ (pre ++ [c])).getLastD 0 :: (post' ++ (pre ++ [c])).dropLast) = S.get (pre ++ [c] ++ post')
      have e1 : post' ++ (pre ++ [c]) = (post' ++ pre) ++ [c] := by simp
      rw [e1, List.getLastD_concat, List.dropLast_concat]
      have := h.get pre (c :: post') hpre (by simpa using hlen')
      simpa using this
    | some P =>
      show lsum ((List.range (L.shape.headD 0)).map fun j =>
          L.get (j :: (post' ++ (pre ++ [c])).dropLast) * P j ((post' ++ (pre ++ [c])).getLastD 0)) =
        lsum ((List.range (S.shape.getD m 0)).map fun j =>
          S.get ((pre ++ [c] ++ post').set m j) * P j ((pre ++ [c] ++ post').getD m 0))
      have e1 : post' ++ (pre ++ [c]) = (post' ++ pre) ++ [c] := by simp
      rw [e1, List.getLastD_concat, List.dropLast_concat]
      have hhead : L.shape.headD 0 = S.shape.getD m 0 := by
        rw [h.shapeL, h.shapeS, hdrop]; simp [List.getD_eq_getElem?_getD, List.getElem?_eq_getElem hm]
      have hgetD : (pre ++ [c] ++ post').getD m 0 = c := by
        simp [List.getD_eq_getElem?_getD, ← hpre]
      have hset : ∀ j, (pre ++ [c] ++ post').set m j = pre ++ j :: post' := by
        intro j; simp [← hpre]
      rw [hhead, hgetD]
      congr 1
      apply List.map_congr_left
      intro j _
      rw [hset j]
      have := h.get pre (j :: post') hpre (by simpa using hlen')
      simp only [List.cons_append] at this
      rw [this]

theorem rotRel_fold (shape : List Nat) : ∀ (slots : List (Option (Mx α))) (m : Nat) (L S : Tensor α),
    m + slots.length = shape.length → RotRel shape m L S →
    RotRel shape shape.length (slots.foldl lowBlockStep L) (specBlockFrom m S slots)
  | [], m, L, S, hm, h => by
    have : m = shape.length := by simpa using hm
    subst this; exact h
  | s :: ss, m, L, S, hm, h => by
    rw [List.foldl_cons, specBlockFrom_cons]
    exact rotRel_fold shape ss (m + 1) _ _ (by simp at hm; omega)
      (rotRel_step shape m L S s h (by simp at hm; omega))

/-- **rotate-and-tensordot = mode products**, every rank. -/
theorem lowBlock_eq_specBlock (g : Tensor α) (slots : List (Option (Mx α)))
    (h : slots.length = g.shape.length) :
    (lowBlock g slots).shape = g.shape ∧ (specBlock g slots).shape = g.shape ∧
    ∀ idx : List Nat, idx.length = g.shape.length → (lowBlock g slots).get idx = (specBlock g slots).get idx := by
  have r := rotRel_fold g.shape slots 0 g g (by simpa using h) (rotRel_init g)
  refine ⟨by simpa [lowBlock] using r.shapeL, r.shapeS, ?_⟩
  intro idx hi
  have := r.get idx [] hi (by simp [hi])
  simpa [lowBlock, specBlock] using this

end Rot

section Slots

theorem filter_id_replicate_true (n : Nat) : ((List.replicate n true).filter id).length = n := by
  induction n with
  | zero => rfl
  | succ n ih => simp [List.replicate_succ, ih]

theorem filter_id_replicate_false (n : Nat) : ((List.replicate n false).filter id).length = 0 := by
  induction n with
  | zero => rfl
  | succ n ih => simp [List.replicate_succ, ih]

theorem filter_take_replicate_true (n i : Nat) (l : List Bool) (h : i ≤ n) :
    ((List.take i (List.replicate n true ++ l)).filter id).length = i := by
  rw [List.take_append_of_le_length (by simpa using h), List.take_replicate, Nat.min_eq_left h,
    filter_id_replicate_true]

/-- `_preconds_for_grad` hands every preconditioned axis the slot `b·k + #preconditioned axes before it` -/
theorem lowSlots_eq_specSlots (pt : PType) (rank b : Nat) : lowSlots pt rank b = specSlots pt rank b := by
  unfold lowSlots specSlots precondsForGrad numPreconditioned specSlot
  cases pt
  · simp only [shouldPreconditionDims]
    apply List.ext_getElem
    · simp [filter_id_replicate_true]
    · intro i h1 h2
      have hi : i < rank := by simpa using h2
      simp [filter_id_replicate_true, List.getD_eq_getElem?_getD, hi, List.take_replicate, Nat.min_eq_left (Nat.le_of_lt hi)]
  · simp only [shouldPreconditionDims]
    by_cases hr : rank ≤ 1
    · simp only [hr, if_true]
      apply List.ext_getElem
      · simp [filter_id_replicate_true]
      · intro i h1 h2
        have hi : i < rank := by simpa using h2
        simp [filter_id_replicate_true, List.getD_eq_getElem?_getD, hi, List.take_replicate, Nat.min_eq_left (Nat.le_of_lt hi)]
    · simp only [hr, if_false]
      have hk : ((List.replicate (rank - 1) true ++ [false]).filter id).length = rank - 1 := by
        simp [List.filter_append, filter_id_replicate_true]
      apply List.ext_getElem
      · simp [hk]; omega
      · intro i h1 h2
        have hi : i < rank := by simpa using h2
        by_cases hlast : i < rank - 1
        · simp [hk, List.getD_eq_getElem?_getD, List.getElem?_append_left, List.getElem_append_left, hlast,
            filter_take_replicate_true _ _ _ (Nat.le_of_lt hlast)]
        · have : i = rank - 1 := by omega
          subst this
          simp [hk, List.getD_eq_getElem?_getD, List.getElem?_append_right, List.getElem_append_right]
  · simp only [shouldPreconditionDims]
    by_cases hr : rank ≤ 1
    · simp only [hr, if_true]
      apply List.ext_getElem
      · simp [filter_id_replicate_true]
      · intro i h1 h2
        have hi : i < rank := by simpa using h2
        simp [filter_id_replicate_true, List.getD_eq_getElem?_getD, hi, List.take_replicate, Nat.min_eq_left (Nat.le_of_lt hi)]
    · simp only [hr, if_false]
      have hk : ((List.replicate (rank - 1) false ++ [true]).filter id).length = 1 := by
        simp [List.filter_append, filter_id_replicate_false]
      apply List.ext_getElem
      · simp [hk]; omega
      · intro i h1 h2
        have hi : i < rank := by simpa using h2
        by_cases hlast : i < rank - 1
        · simp [hk, List.getD_eq_getElem?_getD, List.getElem?_append_left, List.getElem_append_left, hlast]
        · have : i = rank - 1 := by omega
          subst this
          simp [hk, List.getD_eq_getElem?_getD, List.getElem?_append_right, List.getElem_append_right,
            List.take_append_of_le_length, List.take_replicate, filter_id_replicate_false]

end Slots

section Exponent

theorem filter_range'_getD (l : List Bool) : ∀ off : Nat,
    ((List.range' off l.length).filter fun a => l.getD (a - off) false).length = (l.filter id).length := by
  induction l with
  | nil => intro off; simp
  | cons b l ih =>
    intro off
    have hcongr : (List.range' (off + 1) l.length).filter (fun a => (b :: l).getD (a - off) false) =
        (List.range' (off + 1) l.length).filter (fun a => l.getD (a - (off + 1)) false) := by
      apply List.filter_congr
      intro a ha
      have h1 : off + 1 ≤ a := (List.mem_range'_1.mp ha).1
      have e : a - off = (a - (off + 1)) + 1 := by omega
      rw [e]; simp
    cases b
    · rw [List.length_cons, List.range'_succ, List.filter_cons_of_neg (by simp), hcongr, ih (off + 1)]
      simp
    · rw [List.length_cons, List.range'_succ, List.filter_cons_of_pos (by simp), List.length_cons, hcongr,
        ih (off + 1)]
      simp

theorem shouldPreconditionDims_length (pt : PType) (rank : Nat) : (shouldPreconditionDims pt rank).length = rank := by
  unfold shouldPreconditionDims
  cases pt
  · simp
  · by_cases h : rank ≤ 1
    · simp [h]
    · simp [h]; omega
  · by_cases h : rank ≤ 1
    · simp [h]
    · simp [h]; omega

/-- the statistics loop and the slot arithmetic count the same number of preconditioned axes -/
theorem pdims_length (G : Geom) : G.pdims.length = G.k := by
  unfold Geom.pdims Geom.k numPreconditioned Geom.should
  have h := filter_range'_getD (shouldPreconditionDims G.ptype G.rank) 0
  rw [shouldPreconditionDims_length] at h
  simpa [List.range_eq_range'] using h

end Exponent

section Stats
variable {α : Type} [Add α] [Mul α] [OfNat α 0]

theorem lowStatsGo_length (w1 w2 : α) (stats : List (Mx α)) (pdims : List Nat) :
    ∀ (gs : List (Tensor α)) (i0 : Nat), (lowStatsGo w1 w2 stats pdims gs i0).length = gs.length * pdims.length
  | [], _ => by simp [lowStatsGo]
  | g :: gs, i0 => by
    simp only [lowStatsGo, List.length_append, List.length_map, List.length_zipIdx, List.length_cons,
      lowStatsGo_length w1 w2 stats pdims gs, Nat.succ_mul]
    omega

theorem lowStatsGo_getElem? (w1 w2 : α) (stats : List (Mx α)) (pdims : List Nat) :
    ∀ (gs : List (Tensor α)) (i0 b j : Nat) (hb : b < gs.length) (hj : j < pdims.length),
      (lowStatsGo w1 w2 stats pdims gs i0)[b * pdims.length + j]? =
        some (statStep w1 w2 (stats.getD (i0 + b * pdims.length + j) Mx.zero) gs[b] pdims[j])
  | [], _, b, _, hb, _ => by simp at hb
  | g :: gs, i0, 0, j, _, hj => by
    simp only [lowStatsGo, Nat.zero_mul, Nat.zero_add, Nat.add_zero, List.getElem_cons_zero]
    rw [List.getElem?_append_left (by simpa using hj)]
    simp [List.getElem?_eq_getElem hj]
  | g :: gs, i0, b + 1, j, hb, hj => by
    have hb' : b < gs.length := by simpa using hb
    have e : (b + 1) * pdims.length + j = pdims.length + (b * pdims.length + j) := by
      rw [Nat.succ_mul]; omega
    simp only [lowStatsGo, List.getElem_cons_succ]
    rw [e, List.getElem?_append_right (by simp)]
    simp only [List.length_map, List.length_zipIdx, Nat.add_sub_cancel_left]
    rw [lowStatsGo_getElem? w1 w2 stats pdims gs (i0 + pdims.length) b j hb' hj]
    congr 3
    omega

/-- the flat statistics list of the code IS the documented family indexed by (block, preconditioned axis) -/
theorem lowStats_eq_specStats [Inhabited α] (G : Geom) (w1 w2 : α) (si step : Nat) (stats : List (Mx α))
    (g : List α) : lowStats G w1 w2 si step stats g = specStats G w1 w2 si step stats g := by
  unfold lowStats specStats
  split
  · apply List.ext_getElem?
    intro s
    simp only [lowNewStats]
    by_cases hs : s < (G.blocks g).length * G.pdims.length
    · have hk : 0 < G.pdims.length := Nat.pos_of_ne_zero (by intro h0; simp [h0] at hs)
      have hb : s / G.pdims.length < (G.blocks g).length :=
        Nat.div_lt_of_lt_mul (by rwa [Nat.mul_comm])
      have hj : s % G.pdims.length < G.pdims.length := Nat.mod_lt _ hk
      have e : s / G.pdims.length * G.pdims.length + s % G.pdims.length = s := Nat.div_add_mod' s _
      have := lowStatsGo_getElem? w1 w2 stats G.pdims (G.blocks g) 0 _ _ hb hj
      rw [e] at this
      rw [this, List.getElem?_map, List.getElem?_range hs]
      simp [specNewStat, List.getD_eq_getElem?_getD, List.getElem?_eq_getElem hb, List.getElem?_eq_getElem hj, e]
    · rw [List.getElem?_eq_none (by rw [lowStatsGo_length]; omega), List.getElem?_eq_none (by simp; omega)]
  · rfl

end Stats

section Transform
variable {α : Type} [Field α] [LinearOrder α] [IsStrictOrderedRing α]

/-- scalar form: for `run ∈ {0, 1}` the arithmetic blend is a selection -/
theorem blend_scalar (r x y : α) (h : r = 0 ∨ r = 1) : r * x + (1 - r) * y = if r = 1 then x else y := by
  rcases h with h | h <;> subst h <;> simp

theorem blend_eq_select (step start : Nat) (a b : List α) (h : a.length = b.length) :
    blend (runShampoo step start : α) a b = selectRun step start a b := by
  unfold runShampoo selectRun
  split
  · exact blend_one a b (le_of_eq h)
  · exact blend_zero a b (le_of_eq h.symm)

theorem axpy_length (c : α) (x y : List α) : (axpy c x y).length = min x.length y.length := by simp [axpy]
theorem momStep_length (b w : α) (m u : List α) : (momStep b w m u).length = min m.length u.length := by
  simp [momStep]

theorem candidates_lengths (sqrt : α → α) (nc : Nat → α) (h : Hyper α) (skip : Bool) (g param : List α)
    (st : PState α) (precond : List α) (n : Nat)
    (hgr : (dsGraftStep sqrt nc h.g g st.diag).1.length = n) (hp : param.length = n) (hpc : precond.length = n)
    (hm : st.mom.length = n) (hdm : st.dmom.length = n) :
    let c := candidates sqrt nc h skip g param st precond
    c.sWd.length = n ∧ c.gWd.length = n ∧ c.mS.length = n ∧ c.mG.length = n := by
  intro c
  have hgraft : c.graft.length = n := by
    show (scale _ _).length = n
    rw [scale_length, hgr]
  have hsh : c.shampoo.length = n := by
    show (dsShampooUpdate sqrt h.g _ (dsPrecondGrad skip _ precond)).length = n
    rw [dsShampooUpdate_length]
    unfold dsPrecondGrad
    split
    · exact hgraft
    · exact hpc
  have hs : c.sWd.length = n := by
    show (if coupledWd h then axpy h.wd c.shampoo param else c.shampoo).length = n
    split
    · rw [axpy_length, hsh, hp]; simp
    · exact hsh
  have hg : c.gWd.length = n := by
    show (if coupledWd h then axpy h.wd c.graft param else c.graft).length = n
    split
    · rw [axpy_length, hgraft, hp]; simp
    · exact hgraft
  refine ⟨hs, hg, ?_, ?_⟩
  · show (momStep h.beta1 (momW h) st.mom c.sWd).length = n
    rw [momStep_length, hm, hs]; simp
  · show (momStep h.beta1 (momW h) st.dmom c.gWd).length = n
    rw [momStep_length, hdm, hg]; simp

/-- `Low` transform = `Spec` transform (arithmetic selection = documented selection) -/
theorem lowTransform_eq_specTransform (sqrt : α → α) (nc : Nat → α) (h : Hyper α) (step : Nat) (skip : Bool)
    (g param : List α) (st : PState α) (precond : List α) (n : Nat)
    (hgr : (dsGraftStep sqrt nc h.g g st.diag).1.length = n) (hp : param.length = n) (hpc : precond.length = n)
    (hm : st.mom.length = n) (hdm : st.dmom.length = n) :
    lowTransform sqrt nc h step skip g param st precond = specTransform sqrt nc h step skip g param st precond := by
  obtain ⟨h1, h2, h3, h4⟩ := candidates_lengths sqrt nc h skip g param st precond n hgr hp hpc hm hdm
  unfold lowTransform specTransform
  simp only
  rw [blend_eq_select _ _ _ _ (h3.trans h4.symm), blend_eq_select _ _ _ _ (h1.trans h2.symm)]

end Transform

section Closed
variable {α : Type} [CommRing α]

/-- number of statistics steps in a history -/
def refreshCount (hist : List (Bool × Tensor α)) : Nat := (hist.filter (·.1)).length

/-- `Σ_s w1^{#statistics steps after s} · (G_s ×_a G_s)[i, j]` over the statistics steps `s` of the history -/
def gramSum (w1 : α) (a i j : Nat) : List (Bool × Tensor α) → α
  | [] => 0
  | sg :: rest => (if sg.1 then w1 ^ refreshCount rest * gram sg.2 a i j else 0) + gramSum w1 a i j rest

theorem refreshCount_cons (sg : Bool × Tensor α) (rest : List (Bool × Tensor α)) :
    refreshCount (sg :: rest) = (if sg.1 then 1 else 0) + refreshCount rest := by
  unfold refreshCount
  cases h : sg.1 <;> simp [List.filter_cons, h, Nat.add_comm]

/-- closed form of the statistics recurrence, by induction over the history (any start `L0`) -/
theorem statRun_closed (w1 w2 : α) (a i j : Nat) : ∀ (hist : List (Bool × Tensor α)) (L0 : Mx α),
    statRun w1 w2 a L0 hist i j = w1 ^ refreshCount hist * L0 i j + w2 * gramSum w1 a i j hist
  | [], L0 => by simp [statRun, refreshCount, gramSum]
  | sg :: rest, L0 => by
    have ih := statRun_closed w1 w2 a i j rest
    unfold statRun at ih ⊢
    rw [List.foldl_cons, ih, refreshCount_cons, gramSum]
    cases h : sg.1
    · simp
    · simp only [if_true, statStep]
      ring

end Closed



section Coord
variable {α : Type} [Field α] [LinearOrder α] [IsStrictOrderedRing α]

/-- The documented update of ONE coordinate, in the documented order: candidate (Shampoo from the start step on,
graft before) → coupled weight decay → momentum → Nesterov → decoupled weight decay → −lr. `s`, `gr` are the
coordinate of `shampoo_update` (after the rescale) and `grafting_update` (times lr when coupled), `x` the parameter,
`m`, `dm` the two stored momenta. -/
def docOut (h : Hyper α) (run : Bool) (s gr x m dm : α) : α :=
  let u := (if run then s else gr) + (if coupledWd h then h.wd * x else 0)
  let mo := (if run then m else dm) * h.beta1 + momW h * u
  let nest := if h.nesterov then momW h * u + h.beta1 * mo else mo
  nest + (if decoupledWdOn h then wdLr h * h.wd * x else 0)

def docCoord (h : Hyper α) (run : Bool) (s gr x m dm : α) : α :=
  -1 * momentumMultiplier h.g * docOut h run s gr x m dm

theorem spec_update_coord (sqrt : α → α) (nc : Nat → α) (h : Hyper α) (step : Nat) (skip : Bool)
    (g param : List α) (st : PState α) (precond : List α) (i : Nat) (s gr x m dm : α)
    (hs : (candidates sqrt nc h skip g param st precond).shampoo[i]? = some s)
    (hg : (candidates sqrt nc h skip g param st precond).graft[i]? = some gr)
    (hx : param[i]? = some x) (hm : st.mom[i]? = some m) (hdm : st.dmom[i]? = some dm) :
    (specTransform sqrt nc h step skip g param st precond).upd[i]? =
      some (docCoord h (decide (h.g.start ≤ step)) s gr x m dm) := by
  have hsWd : (candidates sqrt nc h skip g param st precond).sWd[i]? =
      some (s + if coupledWd h then h.wd * x else 0) := by
    show (if coupledWd h then axpy h.wd (candidates sqrt nc h skip g param st precond).shampoo param
      else (candidates sqrt nc h skip g param st precond).shampoo)[i]? = _
    split <;> simp [axpy, List.getElem?_zipWith, hs, hx]
  have hgWd : (candidates sqrt nc h skip g param st precond).gWd[i]? =
      some (gr + if coupledWd h then h.wd * x else 0) := by
    show (if coupledWd h then axpy h.wd (candidates sqrt nc h skip g param st precond).graft param
      else (candidates sqrt nc h skip g param st precond).graft)[i]? = _
    split <;> simp [axpy, List.getElem?_zipWith, hg, hx]
  have hmS : (candidates sqrt nc h skip g param st precond).mS[i]? =
      some (m * h.beta1 + momW h * (s + if coupledWd h then h.wd * x else 0)) := by
    show (momStep h.beta1 (momW h) st.mom (candidates sqrt nc h skip g param st precond).sWd)[i]? = _
    simp [momStep, List.getElem?_zipWith, hm, hsWd]
  have hmG : (candidates sqrt nc h skip g param st precond).mG[i]? =
      some (dm * h.beta1 + momW h * (gr + if coupledWd h then h.wd * x else 0)) := by
    show (momStep h.beta1 (momW h) st.dmom (candidates sqrt nc h skip g param st precond).gWd)[i]? = _
    simp [momStep, List.getElem?_zipWith, hdm, hgWd]
  unfold specTransform finishUpd selectRun docCoord docOut
  by_cases hrun : h.g.start ≤ step <;> cases hn : h.nesterov <;> cases hd : decoupledWdOn h <;>
    simp [hrun, hn, hd, finalScale, nesterovMix, addDecoupledWd, List.getElem?_zipWith, hsWd, hgWd, hmS, hmG, hx]

/-- `lr` enters exactly once when decoupled: the update is `lr` times the update computed with `lr = 1`, and the
stored state does not depend on `lr` at all. -/
theorem spec_lr_decoupled (sqrt : α → α) (nc : Nat → α) (h : Hyper α) (step : Nat) (skip : Bool)
    (g param : List α) (st : PState α) (precond : List α) (hd : h.g.decoupledLr = true) :
    let h1 : Hyper α := { h with g := { h.g with lr := 1 } }
    (specTransform sqrt nc h step skip g param st precond).upd =
        (specTransform sqrt nc h1 step skip g param st precond).upd.map (fun y => h.g.lr * y) ∧
      (specTransform sqrt nc h step skip g param st precond).st =
        (specTransform sqrt nc h1 step skip g param st precond).st := by
  intro h1
  have hc : candidates sqrt nc h skip g param st precond = candidates sqrt nc h1 skip g param st precond := by
    simp [candidates, h1, precondMultiplier, hd, dsGraftStep, dsShampooUpdate, coupledWd, momW]
  constructor
  · unfold specTransform finishUpd
    simp only [← hc]
    have e1 : momW h1 = momW h := rfl
    have e2 : decoupledWdOn h1 = decoupledWdOn h := rfl
    have e3 : wdLr h1 = wdLr h := by simp [wdLr, h1, hd]
    have e4 : h1.nesterov = h.nesterov := rfl
    have e5 : h1.beta1 = h.beta1 := rfl
    have e6 : h1.wd = h.wd := rfl
    have e7 : h1.g.start = h.g.start := rfl
    rw [e1, e2, e3, e4, e5, e6, e7]
    simp only [finalScale, momentumMultiplier, hd, h1, if_true, List.map_map]
    apply List.map_congr_left
    intro y _
    simp only [Function.comp]
    ring
  · unfold specTransform
    simp only [← hc]

end Coord

end PrecondVerif.DShampoo
